/-
  Helper lemmas for C20: lists of known length, `isOk` through `bind`, the loops of the parsers.
-/
import Vgw.Model.RobustHandlers
import Vgw.Model.Range
namespace Vgw.Model.Robust
open Vgw Vgw.Go

theorem len2 {α : Type} (l : List α) (h : l.length = 2) : ∃ a b, l = [a, b] := by
  match l, h with
  | [a, b], _ => exact ⟨a, b, rfl⟩

theorem len5 {α : Type} (l : List α) (h : l.length = 5) : ∃ a b c d e, l = [a, b, c, d, e] := by
  match l, h with
  | [a, b, c, d, e], _ => exact ⟨a, b, c, d, e, rfl⟩

@[simp] theorem noPanic_ok {α : Type} (a : α) : noPanic (Except.ok a : Chk α) = true := rfl
@[simp] theorem noPanic_error {α : Type} (e : Panic) : noPanic (Except.error e : Chk α) = false := rfl

theorem noPanic_bind {α β : Type} (x : Chk α) (f : α → Chk β) :
    noPanic (x.bind f) = true ↔ ∃ a, x = .ok a ∧ noPanic (f a) = true := by
  cases x with
  | error e => simp [Except.bind]
  | ok a => simp [Except.bind]

theorem noPanic_map {α β : Type} (x : Chk α) (f : α → β) : noPanic (x.map f) = noPanic x := by
  cases x <;> rfl

theorem idx_isOk_iff {α : Type} (a : List α) (i : Int) : noPanic (idx a i) = true ↔ 0 ≤ i ∧ i < a.length := by
  unfold idx
  split
  · rename_i h
    cases hg : a[i.toNat]? with
    | some x =>
      have := (List.getElem?_eq_some_iff.mp hg).1
      simp [noPanic, h]; omega
    | none =>
      have := List.getElem?_eq_none_iff.mp hg
      simp [noPanic, h]; omega
  · rename_i h; simp [noPanic, h]

theorem idx_ok_of {α : Type} (a : List α) (i : Int) (h0 : 0 ≤ i) (h : i < a.length) : ∃ x, idx a i = .ok x := by
  have := (idx_isOk_iff a i).mpr ⟨h0, h⟩
  cases hx : idx a i with
  | ok x => exact ⟨x, rfl⟩
  | error e => rw [hx] at this; simp at this

theorem sliceFrom_isOk_iff {α : Type} (a : List α) (lo : Int) : noPanic (sliceFrom a lo) = true ↔ 0 ≤ lo ∧ lo ≤ a.length := by
  unfold sliceFrom; split <;> simp_all

theorem sliceTo_isOk_iff {α : Type} (a : List α) (hi : Int) : noPanic (sliceTo a hi) = true ↔ 0 ≤ hi ∧ hi ≤ a.length := by
  unfold sliceTo; split <;> simp_all


/-! ## part 1: parsers -/


theorem no_panic_copySourceSplit (h1 : Bytes) : noPanic (copySourceSplit h1) = true := by
  unfold copySourceSplit
  simp only
  split
  · rfl
  · rename_i hi
    have hge := lastIndexOf_ge versionIdLit h1
    have h0 : 0 ≤ lastIndexOf versionIdLit h1 := by omega
    have hb := lastIndexOf_bound versionIdLit h1 h0
    have hl : versionIdLit.length = 11 := rfl
    rw [sliceTo_ok _ _ h0 (by omega), sliceFrom_ok _ _ (by omega) (by omega)]
    rfl

theorem no_panic_parseCopySource (h : Bytes) (hne : h ≠ []) : noPanic (parseCopySource h) = true := by
  cases h with
  | nil => exact absurd rfl hne
  | cons c t =>
    unfold parseCopySource
    rw [idx_zero_cons]
    refine (noPanic_bind _ _).mpr ⟨c, rfl, ?_⟩
    by_cases hc : c = 47
    · rw [if_pos hc, sliceFrom_ok _ 1 (by omega) (by simp; omega)]
      refine (noPanic_bind _ _).mpr ⟨_, rfl, ?_⟩
      rw [noPanic_map]; exact no_panic_copySourceSplit _
    · rw [if_neg hc]
      refine (noPanic_bind _ _).mpr ⟨_, rfl, ?_⟩
      rw [noPanic_map]; exact no_panic_copySourceSplit _

theorem parseCopySource_empty : noPanic (parseCopySource []) = false := rfl

theorem no_panic_objectTagsLoop (l : List Bytes) : ∀ acc, noPanic (objectTagsLoop l acc) = true := by
  induction l with
  | nil => intro acc; rfl
  | cons prt rest ih =>
    intro acc
    unfold objectTagsLoop
    simp only
    split
    · rfl
    · rename_i h
      obtain ⟨a, b, hab⟩ := len2 (splitOn 61 prt) (by simpa using h)
      rw [hab]
      simp only [idx_zero_cons, idx_one_cons, Except.bind]
      cases queryUnescape a with
      | none => rfl
      | some key =>
        simp only
        cases queryUnescape b with
        | none => rfl
        | some value =>
          simp only
          split
          · rfl
          · exact ih _

theorem no_panic_parseObjectTags (t : Bytes) : noPanic (parseObjectTags t) = true := by
  unfold parseObjectTags
  split
  · rfl
  · exact no_panic_objectTagsLoop _ _

theorem no_panic_copyRangeEnd (size s : Int) (a b : Bytes) : noPanic (copyRangeEnd size s [a, b]) = true := by
  unfold copyRangeEnd
  simp only [idx_one_cons, Except.bind]
  repeat' split
  all_goals rfl

theorem no_panic_parseCopySourceRange (size : Int) (r : Bytes) : noPanic (parseCopySourceRange size r) = true := by
  unfold parseCopySourceRange
  simp only
  split
  · rfl
  · split
    · rfl
    · rename_i _ h
      obtain ⟨u, sp, hus⟩ := len2 (splitOn 61 r) (by simpa using h)
      rw [hus]
      simp only [idx_zero_cons, idx_one_cons, Except.bind]
      split
      · rfl
      · split
        · rfl
        · rename_i _ h2
          obtain ⟨a, b, hab⟩ := len2 (splitOn 45 sp) (by simpa using h2)
          rw [hab]
          simp only [idx_zero_cons]
          split
          · rfl
          · exact no_panic_copyRangeEnd _ _ _ _


/-- `Model.Range.Parse` read as a `GetRange` -/
def ofParse (p : Vgw.Model.Range.Parse) : GetRange := ⟨p.start, p.length, p.valid, p.err⟩

theorem getRangeEnd_eq (size s : Int) (a b : Bytes) :
    getRangeEnd size s [a, b] = .ok (
      if s ≥ size then ⟨0, 0, false, true⟩ else
      if b = [] then ⟨s, size - s, true, false⟩ else
      match parseInt64 b with
      | none => ⟨0, size, false, false⟩
      | some e => if e < s then ⟨0, size, false, false⟩ else
        if e ≥ size then ⟨s, size - s, true, false⟩ else ⟨s, e - s + 1, true, false⟩) := by
  unfold getRangeEnd
  simp only [idx_one_cons, Except.bind]
  repeat' split
  all_goals first | rfl | omega | (simp_all; done) | (simp_all; omega) | (exfalso; simp_all; omega)

theorem getObjectRange_refines (size : Int) (r : Bytes) :
    parseGetObjectRange size r = .ok (ofParse (Vgw.Model.Range.parseGetObjectRange size r)) := by
  unfold parseGetObjectRange Vgw.Model.Range.parseGetObjectRange
  simp only
  split
  · rfl
  · split
    · rename_i _ h
      -- not two fields
      split
      · rename_i u sp hus; rw [hus] at h; simp at h
      · rfl
    · rename_i _ h
      obtain ⟨u, sp, hus⟩ := len2 (splitOn 61 r) (by simpa using h)
      rw [hus]
      simp only [idx_zero_cons, idx_one_cons, Except.bind]
      have hb : Vgw.Model.Range.bytesLit = bytesLit := rfl
      rw [hb]
      split
      · rfl
      · split
        · rename_i _ _ h2
          split
          · rename_i a b hab; rw [hab] at h2; simp at h2
          · rfl
        · rename_i _ _ h2
          obtain ⟨a, b, hab⟩ := len2 (splitOn 45 sp) (by simpa using h2)
          rw [hab]
          simp only [idx_zero_cons]
          cases hp : parseInt64 a with
          | none => rfl
          | some s =>
            simp only
            rw [getRangeEnd_eq]
            congr 1
            repeat' split
            all_goals first | rfl | omega | (simp_all [ofParse]; done) | (simp_all [ofParse]; omega) | (exfalso; simp_all; omega)


theorem setIdx_length {α : Type} (a b : List α) (i : Int) (v : α) (h : setIdx a i v = .ok b) : b.length = a.length := by
  unfold setIdx at h
  split at h
  · simp at h; subst h; simp
  · simp at h

/-- the white-space loop never panics: it indexes the slice it ranges over -/
theorem stripLoop_ok (rs : Bytes → Bytes) : ∀ (l : List Bytes) (i : Int) (cur : List Bytes),
    0 ≤ i → i + l.length ≤ cur.length →
    ∃ out, stripLoop rs l i cur = .ok out ∧ out.length = cur.length := by
  intro l
  induction l with
  | nil => intro i cur _ _; exact ⟨cur, rfl, rfl⟩
  | cons el rest ih =>
    intro i cur h0 hlen
    unfold stripLoop
    simp at hlen
    by_cases hc : el.contains 32 = true
    · rw [if_pos hc]
      have hs : setIdx cur i (rs el) = .ok (cur.set i.toNat (rs el)) := by
        unfold setIdx; rw [if_pos]; constructor <;> omega
      rw [hs]
      simp only [Except.bind]
      obtain ⟨out, ho, hl⟩ := ih (i + 1) (cur.set i.toNat (rs el)) (by omega) (by simp; omega)
      exact ⟨out, ho, by simpa using hl⟩
    · rw [if_neg hc]
      simp only [Except.bind]
      exact ih (i + 1) cur (by omega) (by omega)

theorem no_panic_credScope (value : Bytes) : noPanic (credScope value) = true := by
  unfold credScope
  simp only
  split
  · rfl
  · rename_i h
    obtain ⟨a, b, c, d, e, hc⟩ := len5 (splitOn 47 value) (by simpa using h)
    rw [hc]
    have i0 : idx [a, b, c, d, e] 0 = .ok a := rfl
    have i1 : idx [a, b, c, d, e] 1 = .ok b := rfl
    have i2 : idx [a, b, c, d, e] 2 = .ok c := rfl
    have i3 : idx [a, b, c, d, e] 3 = .ok d := rfl
    have i4 : idx [a, b, c, d, e] 4 = .ok e := rfl
    simp only [i0, i1, i2, i3, i4, Except.bind]
    repeat' split
    all_goals rfl

theorem no_panic_kvLoop (l : List Bytes) : ∀ c, noPanic (kvLoop l c) = true := by
  induction l with
  | nil => intro c; rfl
  | cons kv rest ih =>
    intro c
    unfold kvLoop
    simp only
    split
    · repeat' split
      all_goals rfl
    · rename_i h
      obtain ⟨k0, v0, hkv⟩ := len2 (splitOn 61 kv) (by simpa using h)
      rw [hkv]
      simp only [idx_zero_cons, idx_one_cons, Except.bind]
      split
      · have := no_panic_credScope (trimSpace v0)
        cases hs : credScope (trimSpace v0) with
        | error e => rw [hs] at this; simp at this
        | ok s =>
          simp only
          cases s with
          | error e => rfl
          | ok t => obtain ⟨a, d, r⟩ := t; exact ih _
      · split
        · exact ih _
        · split
          · exact ih _
          · exact ih _

theorem no_panic_parseAuthParts (p : List Bytes) : noPanic (parseAuthParts p) = true := by
  unfold parseAuthParts
  split
  · rfl
  · rename_i h
    match p, h with
    | [], h => simp at h
    | [_], h => simp at h
    | a :: b :: t, _ =>
      simp only [idx_zero_cons, idx_one_cons, Except.bind]
      split
      · rfl
      · split
        · rfl
        · have := no_panic_kvLoop (splitOn 44 b) {}
          cases hk : kvLoop (splitOn 44 b) {} with
          | error e => rw [hk] at this; simp at this
          | ok r => cases r <;> rfl

theorem no_panic_parseAuthorization (rs : Bytes → Bytes) (a : Bytes) : noPanic (parseAuthorization rs a) = true := by
  unfold parseAuthorization
  simp only
  obtain ⟨out, ho, _⟩ := stripLoop_ok rs (splitN2 32 a) 0 (splitN2 32 a) (by omega) (by omega)
  rw [ho]
  exact no_panic_parseAuthParts out

theorem no_panic_presignedTail (q : PresignQuery) (a b c d e : Bytes) (region : Bytes) (passed : Int) :
    noPanic (presignedTail q [a, b, c, d, e] region passed) = true := by
  unfold presignedTail
  split
  · rfl
  · split
    · rfl
    · rename_i _ hp
      have hlen := Time.parseCompact_length q.date (by simpa using hp)
      rw [sliceTo_ok _ 8 (by omega) (by omega)]
      have i0 : idx [a, b, c, d, e] 0 = .ok a := rfl
      have i1 : idx [a, b, c, d, e] 1 = .ok b := rfl
      have i2 : idx [a, b, c, d, e] 2 = .ok c := rfl
      simp only [i0, i1, i2, Except.bind]
      repeat' split
      all_goals rfl

theorem no_panic_parsePresigned (q : PresignQuery) (region : Bytes) (passed : Int) :
    noPanic (parsePresigned q region passed) = true := by
  unfold parsePresigned
  simp only
  split
  · rfl
  · split
    · rfl
    · split
      · rfl
      · split
        · rfl
        · rename_i h
          obtain ⟨a, b, c, d, e, hc⟩ := len5 (splitOn 47 q.cred) (by simpa using h)
          rw [hc]
          have i1 : idx [a, b, c, d, e] 1 = .ok b := rfl
          have i3 : idx [a, b, c, d, e] 3 = .ok d := rfl
          have i4 : idx [a, b, c, d, e] 4 = .ok e := rfl
          simp only [i1, i3, i4, Except.bind]
          split
          · rfl
          · split
            · rfl
            · split
              · rfl
              · exact no_panic_presignedTail q a b c d e region passed

theorem no_panic_v4Date (date credDate : Bytes) : noPanic (v4Date date credDate) = true := by
  unfold v4Date
  split
  · rfl
  · split
    · rfl
    · rename_i _ hp
      have hlen := Time.parseCompact_length date (by simpa using hp)
      rw [sliceTo_ok _ 8 (by omega) (by omega)]
      simp only [Except.bind]
      split <;> rfl

end Vgw.Model.Robust
