/-
  Model-level lemmas about Model.Walk, independent of the tree's shape:
  (L1) the walk is a left fold of the callback over the *visible* events — the pruning decisions
       (SkipDir) do not depend on the state;
  (L2) over events with ascending paths the `pastMarker` variable can be frozen at its initial value;
  (L3) the fold of the state updates has a closed form: the first `N` emissions, a truncation flag,
       the marker of the N-th emission.
-/
import Vgw.Lemmas.Cut
import Vgw.Model.Walk
namespace Vgw.Model.Walk
open Vgw

/-- one invocation of the callback: what `fs.WalkDir` hands to it -/
structure Ev where
  path : Bytes          -- Go path, without trailing '/'
  name : Bytes
  isDir : Bool
  noEnts : Bool
  deriving Repr, DecidableEq

/-- the path as compared with the marker (the callback appends '/' to directories) -/
def Ev.epath (e : Ev) : Bytes := if e.isDir then e.path ++ [slash] else e.path

def Act.flag : Act → Ret
  | .ret r => r
  | .past r => r
  | .obj _ _ r => r
  | .cp _ r => r

def actAt (c : Cfg) (pm : Bool) (e : Ev) : Act := act c pm e.path e.name e.isDir e.noEnts

/-- the callback's return value unless it is SkipAll: a function of the event alone -/
def flagOf (c : Cfg) (e : Ev) : Ret :=
  if e.isDir && c.skip.contains e.path then .skipDir else
  if e.isDir then
    let pslash := e.path ++ [slash]
    if c.pfx ≠ [] && !hasPrefix pslash c.pfx && !hasPrefix c.pfx pslash then .skipDir else
    if c.delim ≠ [] && hasPrefix pslash c.pfx && containsSub (trimPrefix pslash c.pfx) c.delim then .skipDir
    else .nil
  else .nil

theorem actObj_flag (c : Cfg) (k mk : Bytes) (r : Ret) : (actObj c k mk r).flag = r := by
  unfold actObj; split <;> rfl

theorem actTail_flag (c : Cfg) (pm : Bool) (p : Bytes) (r : Ret) : (actTail c pm p r).flag = r := by
  unfold actTail
  split; · rfl
  split; · rfl
  split; · rfl
  split; · exact actObj_flag ..
  split
  · exact actObj_flag ..
  · dsimp only
    split; · rfl
    split <;> rfl

theorem actDir_flag (c : Cfg) (pm : Bool) (path : Bytes) (noEnts : Bool) :
    (actDir c pm path noEnts).flag =
      if c.pfx ≠ [] && !hasPrefix (path ++ [slash]) c.pfx && !hasPrefix c.pfx (path ++ [slash]) then .skipDir else
      if c.delim ≠ [] && hasPrefix (path ++ [slash]) c.pfx && containsSub (trimPrefix (path ++ [slash]) c.pfx) c.delim then .skipDir
      else .nil := by
  unfold actDir
  dsimp only
  split; · rfl
  split; · exact actTail_flag ..
  split; · exact actObj_flag ..
  split; · rfl
  exact actTail_flag ..

theorem act_flag (c : Cfg) (pm : Bool) (e : Ev) : (actAt c pm e).flag = flagOf c e := by
  unfold actAt act flagOf
  split; · rfl
  split
  · exact actDir_flag ..
  · exact actTail_flag ..

theorem flagOf_ne_skipAll (c : Cfg) (e : Ev) : flagOf c e ≠ .skipAll := by
  unfold flagOf
  split; · simp
  split
  · dsimp only
    split; · simp
    split <;> simp
  · simp

theorem bump_truncated (c : Cfg) (s : St) (mk : Bytes) : (bump c s mk).truncated = s.truncated := by
  unfold bump; split <;> rfl

theorem bump_pastMarker (c : Cfg) (s : St) (mk : Bytes) : (bump c s mk).pastMarker = s.pastMarker := by
  unfold bump; split <;> rfl

theorem apply_ret_eq (c : Cfg) (s : St) (r : Ret) : apply c s (.ret r) = (s, r) := rfl
theorem apply_past_eq (c : Cfg) (s : St) (r : Ret) : apply c s (.past r) = ({ s with pastMarker := true }, r) := rfl
theorem apply_obj_eq (c : Cfg) (s : St) (o : Obj) (mk : Bytes) (r : Ret) : apply c s (.obj o mk r) =
    if s.pastMax then ({ s with truncated := true }, .skipAll) else
    (bump c { s with objects := s.objects ++ [o] } mk, r) := rfl
theorem apply_cp_eq (c : Cfg) (s : St) (n : Bytes) (r : Ret) : apply c s (.cp n r) =
    if s.pastMax then ({ s with truncated := true }, .skipAll) else
    (bump c { s with cps := setInsert n s.cps } n, r) := rfl

/-- `apply` either stops everything (SkipAll, truncated set) or returns the act's flag and leaves
`truncated` alone -/
theorem apply_ret (c : Cfg) (s : St) (a : Act) :
    ((apply c s a).2 = .skipAll ∧ (apply c s a).1.truncated = true) ∨
    ((apply c s a).2 = a.flag ∧ (apply c s a).1.truncated = s.truncated) := by
  cases a with
  | ret r => right; exact ⟨rfl, rfl⟩
  | past r => right; exact ⟨rfl, rfl⟩
  | obj o mk r =>
    rw [apply_obj_eq]
    split
    · left; exact ⟨rfl, rfl⟩
    · right; exact ⟨rfl, bump_truncated ..⟩
  | cp n r =>
    rw [apply_cp_eq]
    split
    · left; exact ⟨rfl, rfl⟩
    · right; exact ⟨rfl, bump_truncated ..⟩

/-! ### (L1) the walk as a fold over the visible events -/

mutual
def visNode (c : Cfg) (base : Bytes) : Tree → List Ev
  | .file n => [⟨base ++ n, n, false, true⟩]
  | .dir n cs =>
    ⟨base ++ n, n, true, cs.isEmpty⟩ ::
      (if flagOf c ⟨base ++ n, n, true, cs.isEmpty⟩ = .nil then visList c (base ++ n ++ [slash]) cs else [])
def visList (c : Cfg) (base : Bytes) : List Tree → List Ev
  | [] => []
  | t :: ts => visNode c base t ++ visList c base ts
end

/-- one callback invocation; nothing happens any more once `truncated` is set (SkipAll) -/
def step (c : Cfg) (s : St) (e : Ev) : St :=
  if s.truncated then s else (apply c s (actAt c s.pastMarker e)).1

def run (c : Cfg) (s : St) (evs : List Ev) : St := evs.foldl (step c) s

theorem run_nil (c : Cfg) (s : St) : run c s [] = s := rfl
theorem run_cons (c : Cfg) (s : St) (e : Ev) (evs : List Ev) : run c s (e :: evs) = run c (step c s e) evs := rfl
theorem run_append (c : Cfg) (s : St) (a b : List Ev) : run c s (a ++ b) = run c (run c s a) b := by
  simp [run, List.foldl_append]

theorem run_truncated (c : Cfg) : ∀ (evs : List Ev) (s : St), s.truncated = true → run c s evs = s
  | [], _, _ => rfl
  | e :: evs, s, h => by
    rw [run_cons]
    have : step c s e = s := by simp [step, h]
    rw [this]; exact run_truncated c evs s h

def retOf (s : St) : Ret := if s.truncated then .skipAll else .nil

/-- the callback on event `e` from a non-truncated state -/
theorem cb_step (c : Cfg) (s : St) (e : Ev) (hs : s.truncated = false) :
    cb c s e.path e.name e.isDir e.noEnts =
      (step c s e, if (step c s e).truncated then .skipAll else flagOf c e) := by
  have hst : step c s e = (apply c s (actAt c s.pastMarker e)).1 := by simp [step, hs]
  rw [hst]
  unfold cb
  have := apply_ret c s (actAt c s.pastMarker e)
  rw [act_flag] at this
  unfold actAt at this ⊢
  rcases this with ⟨h1, h2⟩ | ⟨h1, h2⟩
  · rw [h2]; simp only [if_true]
    exact Prod.ext rfl h1
  · rw [h2, hs]; simp only [Bool.false_eq_true, if_false]
    exact Prod.ext rfl h1

mutual
theorem walkNode_eq_run (c : Cfg) : ∀ (t : Tree) (base : Bytes) (s : St), s.truncated = false →
    walkNode c base s t = (run c s (visNode c base t), retOf (run c s (visNode c base t)))
  | .file n, base, s, hs => by
    have hcb := cb_step c s ⟨base ++ n, n, false, true⟩ hs
    simp only at hcb
    unfold walkNode visNode
    rw [hcb, run_cons, run_nil]
    have hf : flagOf c ⟨base ++ n, n, false, true⟩ = .nil := by simp [flagOf]
    rw [hf]; rfl
  | .dir n cs, base, s, hs => by
    have hcb := cb_step c s ⟨base ++ n, n, true, cs.isEmpty⟩ hs
    simp only at hcb
    unfold walkNode visNode
    rw [hcb, run_cons]
    generalize hs1 : step c s ⟨base ++ n, n, true, cs.isEmpty⟩ = s1
    cases ht : s1.truncated with
    | true =>
      simp only [if_true]
      rw [run_truncated c _ s1 ht]
      simp [retOf, ht]
    | false =>
      simp only [Bool.false_eq_true, if_false]
      generalize hfl : flagOf c ⟨base ++ n, n, true, cs.isEmpty⟩ = fl
      cases fl with
      | nil =>
        simp only [if_true]
        exact walkList_eq_run c cs (base ++ n ++ [slash]) s1 ht
      | skipDir =>
        simp [run_nil, retOf, ht]
      | skipAll => exact absurd hfl (flagOf_ne_skipAll c _)
theorem walkList_eq_run (c : Cfg) : ∀ (ts : List Tree) (base : Bytes) (s : St), s.truncated = false →
    walkList c base s ts = (run c s (visList c base ts), retOf (run c s (visList c base ts)))
  | [], base, s, hs => by
    unfold walkList visList
    simp [run_nil, retOf, hs]
  | t :: ts, base, s, hs => by
    unfold walkList visList
    rw [walkNode_eq_run c t base s hs, run_append]
    generalize run c s (visNode c base t) = s1
    cases ht : s1.truncated with
    | true =>
      rw [run_truncated c _ s1 ht]
      simp [retOf, ht]
    | false =>
      simp only [retOf, ht, Bool.false_eq_true, if_false]
      exact walkList_eq_run c ts base s1 ht
end

/-! ### (L2) freezing `pastMarker` over ascending events -/

def act0 (c : Cfg) (e : Ev) : Act := actAt c (c.marker == []) e

def step0 (c : Cfg) (s : St) (e : Ev) : St :=
  if s.truncated then s else (apply c s (act0 c e)).1

def run0 (c : Cfg) (s : St) (evs : List Ev) : St := evs.foldl (step0 c) s

theorem run0_cons (c : Cfg) (s : St) (e : Ev) (evs : List Ev) : run0 c s (e :: evs) = run0 c (step0 c s e) evs := rfl

theorem run0_truncated (c : Cfg) : ∀ (evs : List Ev) (s : St), s.truncated = true → run0 c s evs = s
  | [], _, _ => rfl
  | e :: evs, s, h => by
    rw [run0_cons]
    have : step0 c s e = s := by simp [step0, h]
    rw [this]; exact run0_truncated c evs s h

theorem actTail_pm (c : Cfg) (p : Bytes) (r : Ret) (h : blt c.marker p = true) :
    actTail c true p r = actTail c false p r := by
  have h1 : (p == c.marker) = false := by
    have := blt_ne _ _ h
    simp; exact fun e => this e.symm
  have h2 : blt p c.marker = false := blt_asymm _ _ h
  unfold actTail
  simp [h1, h2]

theorem actAt_pm (c : Cfg) (e : Ev) (h : blt c.marker e.epath = true) : actAt c true e = actAt c false e := by
  unfold actAt act
  split; · rfl
  cases hd : e.isDir with
  | false =>
    simp only [Bool.false_eq_true, if_false]
    have : e.epath = e.path := by simp [Ev.epath, hd]
    rw [this] at h
    exact actTail_pm c _ _ h
  | true =>
    simp only [if_true]
    have : e.epath = e.path ++ [slash] := by simp [Ev.epath, hd]
    rw [this] at h
    unfold actDir
    dsimp only
    rw [actTail_pm c _ .skipDir h, actTail_pm c _ .nil h]

theorem actObj_ne_past (c : Cfg) (k mk : Bytes) (r r' : Ret) : actObj c k mk r ≠ .past r' := by
  unfold actObj; split <;> simp

theorem actTail_past (c : Cfg) (pm : Bool) (p : Bytes) (r r' : Ret) (h : actTail c pm p r = .past r') :
    ble c.marker p = true := by
  unfold actTail at h
  split at h
  · rename_i h1
    simp only [Bool.and_eq_true, beq_iff_eq] at h1
    rw [h1.2]; exact ble_refl _
  split at h; · simp at h
  split at h; · simp at h
  rename_i hpfx
  split at h; · exact absurd h (actObj_ne_past _ _ _ _ _)
  split at h
  · exact absurd h (actObj_ne_past _ _ _ _ _)
  · rename_i before hcut
    dsimp only at h
    split at h
    · rename_i hm
      simp only [beq_iff_eq] at hm
      rw [← hm]
      apply ble_of_prefix
      -- the prefix is a prefix of `p` here
      have hP : c.pfx <+: p := by
        by_cases hn : c.pfx = []
        · rw [hn]; exact List.nil_prefix
        · simp only [hn, ne_eq, not_false_eq_true, decide_true, Bool.true_and, Bool.not_eq_true', Bool.not_eq_false] at hpfx
          exact (hasPrefix_iff _ _).1 hpfx
      obtain ⟨t, rfl⟩ := hP
      rw [trimPrefix_append] at hcut
      obtain ⟨t', ht'⟩ := (cut_some_spec _ _ _ hcut).1
      exact ⟨t', by rw [← ht']; simp [List.append_assoc]⟩
    · split at h <;> simp at h

theorem actAt_past (c : Cfg) (pm : Bool) (e : Ev) (r : Ret) (h : actAt c pm e = .past r) :
    ble c.marker e.epath = true := by
  unfold actAt act at h
  split at h; · simp at h
  cases hd : e.isDir with
  | false =>
    simp only [hd, Bool.false_eq_true, if_false] at h
    have : e.epath = e.path := by simp [Ev.epath, hd]
    rw [this]; exact actTail_past c pm _ _ _ h
  | true =>
    simp only [hd, if_true] at h
    have : e.epath = e.path ++ [slash] := by simp [Ev.epath, hd]
    rw [this]
    unfold actDir at h
    dsimp only at h
    split at h; · simp at h
    split at h; · exact actTail_past c pm _ _ _ h
    split at h; · exact absurd h (actObj_ne_past _ _ _ _ _)
    split at h; · simp at h
    exact actTail_past c pm _ _ _ h

theorem apply_pastMarker (c : Cfg) (s : St) (a : Act) (h : ∀ r, a ≠ .past r) :
    (apply c s a).1.pastMarker = s.pastMarker := by
  cases a with
  | ret r => rfl
  | past r => exact absurd rfl (h r)
  | obj o mk r => rw [apply_obj_eq]; split; · rfl
                  · exact bump_pastMarker ..
  | cp n r => rw [apply_cp_eq]; split; · rfl
              · exact bump_pastMarker ..

theorem run_eq_run0 (c : Cfg) : ∀ (evs : List Ev) (s : St),
    (evs.map Ev.epath).Pairwise (fun a b => blt a b = true) →
    (s.pastMarker = (c.marker == []) ∨ (s.pastMarker = true ∧ ∀ e ∈ evs, blt c.marker e.epath = true)) →
    run c s evs = run0 c s evs
  | [], _, _, _ => rfl
  | e :: evs, s, hsort, hinv => by
    rw [run_cons, run0_cons]
    cases ht : s.truncated with
    | true =>
      have e1 : step c s e = s := by simp [step, ht]
      have e2 : step0 c s e = s := by simp [step0, ht]
      rw [e1, e2, run_truncated c _ s ht, run0_truncated c _ s ht]
    | false =>
      have hact : actAt c s.pastMarker e = act0 c e := by
        unfold act0
        rcases hinv with h | ⟨h1, h2⟩
        · rw [h]
        · rw [h1]
          cases hm : (c.marker == []) with
          | true => rfl
          | false => exact actAt_pm c e (h2 e (by simp))
      have hstep : step c s e = step0 c s e := by simp [step, step0, ht, hact]
      rw [hstep]
      have hsort' : (∀ a ∈ evs, blt e.epath a.epath = true) ∧
          (evs.map Ev.epath).Pairwise (fun a b => blt a b = true) := by simpa using hsort
      apply run_eq_run0 c evs _ hsort'.2
      have hs0 : step0 c s e = (apply c s (act0 c e)).1 := by simp [step0, ht]
      rw [hs0]
      by_cases hp : ∃ r, act0 c e = .past r
      · obtain ⟨r, hr⟩ := hp
        right
        refine ⟨by rw [hr]; rfl, ?_⟩
        intro e' he'
        have hle := actAt_past c _ e r hr
        exact blt_of_ble_of_blt _ _ _ hle (hsort'.1 e' he')
      · have hnp : ∀ r, act0 c e ≠ .past r := fun r hr => hp ⟨r, hr⟩
        rw [apply_pastMarker c s _ hnp]
        rcases hinv with h | ⟨h1, h2⟩
        · exact Or.inl h
        · exact Or.inr ⟨h1, fun e' he' => h2 e' (by simp [he'])⟩

end Vgw.Model.Walk
