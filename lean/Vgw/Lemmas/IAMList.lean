/-
  ListUserAccounts: the sorted image is a listing of the plain map (`Spec.IAM.ListOk`), given
  that the image has one entry per key — which every image written by the gateway has.
-/
import Vgw.Lemmas.IAMCall
import Vgw.Lemmas.Order
namespace Vgw.Model.IAM
open Vgw
open Vgw.Model.Gw (Account Role)

def keysNodup (s : Store) : Prop := (s.map (·.access)).Nodup

theorem mem_insertAcct (a : Account) : ∀ (l : List Account) (x : Account), x ∈ insertAcct a l ↔ x = a ∨ x ∈ l
  | [], x => by simp [insertAcct]
  | b :: rest, x => by
    unfold insertAcct
    split
    · simp only [List.mem_cons, mem_insertAcct a rest x]
      constructor
      · rintro (h | h | h)
        · exact Or.inr (Or.inl h)
        · exact Or.inl h
        · exact Or.inr (Or.inr h)
      · rintro (h | h | h)
        · exact Or.inr (Or.inl h)
        · exact Or.inl h
        · exact Or.inr (Or.inr h)
    · simp

theorem mem_sortAccts (l : List Account) (x : Account) : x ∈ sortAccts l ↔ x ∈ l := by
  induction l with
  | nil => simp [sortAccts]
  | cons a rest ih =>
    have : sortAccts (a :: rest) = insertAcct a (sortAccts rest) := rfl
    rw [this, mem_insertAcct, ih]; simp

abbrev AccLt (a b : Account) : Prop := blt a.access b.access = true

theorem insertAcct_sorted (a : Account) : ∀ l : List Account, l.Pairwise AccLt → (∀ x ∈ l, x.access ≠ a.access) →
    (insertAcct a l).Pairwise AccLt
  | [], _, _ => by simp [insertAcct]
  | b :: rest, hs, hne => by
    unfold insertAcct
    have hs' := List.pairwise_cons.mp hs
    split
    · rename_i hba
      refine List.pairwise_cons.mpr ⟨?_, insertAcct_sorted a rest hs'.2 (fun x hx => hne x (List.mem_cons_of_mem _ hx))⟩
      intro x hx
      rcases (mem_insertAcct a rest x).mp hx with h | h
      · rw [h]; exact hba
      · exact hs'.1 x h
    · rename_i hba
      have hab : blt a.access b.access = true := by
        rcases blt_trichotomy a.access b.access with h | h | h
        · exact h
        · exact absurd h.symm (hne b (by simp))
        · exact absurd h hba
      refine List.pairwise_cons.mpr ⟨?_, hs⟩
      intro x hx
      rcases List.mem_cons.mp hx with h | h
      · rw [h]; exact hab
      · exact blt_trans _ _ _ hab (hs'.1 x h)

theorem sortAccts_sorted : ∀ l : List Account, keysNodup l → (sortAccts l).Pairwise AccLt
  | [], _ => by simp [sortAccts]
  | a :: rest, hn => by
    have : sortAccts (a :: rest) = insertAcct a (sortAccts rest) := rfl
    rw [this]
    have hn' : (a.access :: rest.map (·.access)).Nodup := hn
    have hn'' := List.nodup_cons.mp hn'
    refine insertAcct_sorted a _ (sortAccts_sorted rest hn''.2) ?_
    intro x hx hxa
    exact hn''.1 (by rw [← hxa]; exact List.mem_map_of_mem ((mem_sortAccts rest x).mp hx))

theorem find_iff_mem {l : List Account} (hn : keysNodup l) (k : Bytes) (a : Account) :
    Store.find l k = some a ↔ a ∈ l ∧ a.access = k := by
  induction l with
  | nil => simp [Store.find]
  | cons b rest ih =>
    have hn' : (b.access :: rest.map (·.access)).Nodup := hn
    have hn'' := List.nodup_cons.mp hn'
    simp only [Store.find, List.find?_cons]
    by_cases hb : b.access = k
    · simp only [hb, beq_self_eq_true, Option.some.injEq, List.mem_cons]
      constructor
      · intro h; exact ⟨Or.inl h.symm, h ▸ hb⟩
      · rintro ⟨h | h, hk⟩
        · exact h.symm
        · exact absurd (by rw [hb, ← hk]; exact List.mem_map_of_mem h) hn''.1
    · have : (b.access == k) = false := by simpa using hb
      simp only [this, List.mem_cons]
      have ih' := ih hn''.2
      simp only [Store.find] at ih'
      rw [ih']
      constructor
      · rintro ⟨h, hk⟩; exact ⟨Or.inr h, hk⟩
      · rintro ⟨h | h, hk⟩
        · exact absurd (h ▸ hk) hb
        · exact ⟨h, hk⟩

theorem keysNodup_of_sorted {l : List Account} (h : l.Pairwise AccLt) : keysNodup l := by
  unfold keysNodup
  rw [List.nodup_iff_pairwise_ne, List.pairwise_map]
  exact h.imp (fun hab => blt_ne _ _ hab)

/-- the answer of ListUserAccounts is a listing of the map -/
theorem sortAccts_listOk (s : Store) (hn : keysNodup s) : Spec.IAM.ListOk (abs s) (sortAccts s) := by
  have hs := sortAccts_sorted s hn
  refine ⟨hs, ?_⟩
  intro k
  have hn2 := keysNodup_of_sorted hs
  have e1 : Spec.IAM.Accts.ofList (sortAccts s) k = Store.find (sortAccts s) k := by
    simp only [Spec.IAM.Accts.ofList, Store.find]
    congr 1; funext a
    by_cases h : a.access = k <;> simp [h]
  rw [e1]
  simp only [abs]
  cases h1 : Store.find (sortAccts s) k with
  | some a =>
    have := (find_iff_mem hn2 k a).mp h1
    exact ((find_iff_mem hn k a).mpr ⟨(mem_sortAccts s a).mp this.1, this.2⟩).symm
  | none =>
    cases h2 : Store.find s k with
    | none => rfl
    | some a =>
      have := (find_iff_mem hn k a).mp h2
      have := (find_iff_mem hn2 k a).mpr ⟨(mem_sortAccts s a).mpr this.1, this.2⟩
      rw [h1] at this; cases this

/-! ### every image the gateway writes has one entry per key -/

theorem keysNodup_del {s : Store} (h : keysNodup s) (k : Bytes) : keysNodup (s.del k) := by
  unfold keysNodup Store.del at *
  exact (List.filter_sublist.map _).nodup h

theorem keysNodup_put {s : Store} (h : keysNodup s) (a : Account) : keysNodup (s.put a) := by
  unfold keysNodup Store.put
  simp only [List.map_cons, List.nodup_cons]
  refine ⟨?_, keysNodup_del h a.access⟩
  intro hm
  obtain ⟨x, hx, hxa⟩ := List.mem_map.mp hm
  have := (List.mem_filter.mp hx).2
  simp [hxa] at this

theorem keysNodup_mutate {b b' : Store} {op : Op} (h : keysNodup b) (hm : mutate b op = .ok b') : keysNodup b' := by
  cases op with
  | create a => simp only [mutate] at hm; split at hm <;> cases hm; exact keysNodup_put h a
  | update k p => simp only [mutate] at hm; split at hm <;> cases hm; exact keysNodup_put h _
  | delete k => simp only [mutate] at hm; cases hm; exact keysNodup_del h k
  | get k => simp only [mutate] at hm; cases hm; exact h
  | list => simp only [mutate] at hm; cases hm; exact h

theorem keysNodup_act {v : Variant} {cfg : Cfg} {σ : State} (hW : Wf cfg σ) (h : keysNodup σ.committed) (a : Act) :
    keysNodup (act v cfg σ a).committed := by
  cases a with
  | step i =>
    simp only [Model.IAM.act, Model.IAM.stepAt]
    split
    · rename_i c hi
      rcases stepCall_committed v cfg σ i c with he | ⟨b', hpc, he⟩
      · rw [he]; exact h
      · rw [he]
        have hL := (hW.l.calls i c hi).pc
        unfold PcL at hL
        rw [hpc] at hL
        exact keysNodup_mutate h hL.1
    · exact h
  | tick n => exact h
  | gc => exact h
  | invoke op => exact h

theorem keysNodup_run {v : Variant} {cfg : Cfg} {σ : State} (hW : Wf cfg σ) (h : keysNodup σ.committed) (acts : List Act) :
    keysNodup (run v cfg σ acts).committed := by
  induction acts generalizing σ with
  | nil => exact h
  | cons a rest ih => exact ih (hW.act a) (keysNodup_act hW h a)

end Vgw.Model.IAM
