/-
  Lemmas about the finite maps of Model.IAM (`Store`, `Items`), `mutate`, and their reading as
  the plain map of Spec.IAM.
-/
import Vgw.Model.IAM
import Vgw.Spec.IAM
namespace Vgw.Model.IAM
open Vgw
open Vgw.Model.Gw (Account Role)

/-! ### Store -/

theorem Store.find_some_access {s : Store} {k : Bytes} {a : Account} (h : s.find k = some a) : a.access = k := by
  unfold Store.find at h
  have := List.find?_some h
  simpa using this

theorem Store.find_del_same (s : Store) (k : Bytes) : (s.del k).find k = none := by
  unfold Store.find Store.del
  rw [List.find?_eq_none]
  intro a ha
  have := (List.mem_filter.mp ha).2
  simpa using this

theorem Store.find_del_other (s : Store) {k k' : Bytes} (h : k' ≠ k) : (s.del k).find k' = s.find k' := by
  unfold Store.find Store.del
  rw [List.find?_filter]
  congr 1
  funext a
  by_cases hk' : a.access = k'
  · have hk : ¬ a.access = k := fun e => h (hk' ▸ e)
    subst hk'
    simp [hk]
  · simp [hk']

theorem Store.find_put_same (s : Store) (a : Account) : (s.put a).find a.access = some a := by
  simp [Store.find, Store.put]

theorem Store.find_put_other (s : Store) (a : Account) {k : Bytes} (h : k ≠ a.access) : (s.put a).find k = s.find k := by
  have h' : ¬ a.access = k := fun e => h e.symm
  have := Store.find_del_other s h
  simp only [Store.find] at this
  simp [Store.find, Store.put, h', this]

/-! ### updateAcc -/

theorem updateAcc_access (a : Account) (p : Props) : (updateAcc a p).access = a.access := by
  unfold updateAcc
  cases p.secret <;> cases p.gid <;> cases p.uid <;> rfl

theorem updateAcc_idem (a : Account) (p : Props) : updateAcc (updateAcc a p) p = updateAcc a p := by
  unfold updateAcc
  cases p.secret <;> cases p.gid <;> cases p.uid <;> rfl

theorem updateAcc_eq_applyProps (a : Account) (p : Props) : updateAcc a p = Spec.IAM.applyProps a p := by
  unfold updateAcc Spec.IAM.applyProps
  cases p.secret <;> cases p.gid <;> cases p.uid <;> rfl

/-! ### mutate -/

/-- a mutation touches no key but its own -/
theorem mutate_frame {b b' : Store} {op : Op} (h : mutate b op = .ok b') {k : Bytes} (hk : k ≠ op.key) :
    b'.find k = b.find k := by
  cases op with
  | create a =>
    simp only [mutate] at h
    split at h
    · cases h
    · cases h; exact Store.find_put_other _ _ hk
  | update k' p =>
    simp only [mutate] at h
    split at h
    · cases h
    · rename_i acc hacc
      cases h
      have : (updateAcc acc p).access = k' := by rw [updateAcc_access]; exact Store.find_some_access hacc
      exact Store.find_put_other _ _ (by rw [this]; exact hk)
  | delete k' => simp only [mutate] at h; cases h; exact Store.find_del_other _ hk
  | get _ => simp only [mutate] at h; cases h; rfl
  | list => simp only [mutate] at h; cases h; rfl

theorem mutate_create_ok {b b' : Store} {a : Account} (h : mutate b (.create a) = .ok b') :
    b.find a.access = none ∧ b'.find a.access = some a := by
  simp only [mutate] at h
  split at h
  · cases h
  · rename_i hn
    cases h
    exact ⟨by simpa using hn, Store.find_put_same _ _⟩

theorem mutate_update_ok {b b' : Store} {k : Bytes} {p : Props} (h : mutate b (.update k p) = .ok b') :
    ∃ acc, b.find k = some acc ∧ b'.find k = some (updateAcc acc p) := by
  simp only [mutate] at h
  split at h
  · cases h
  · rename_i acc hacc
    cases h
    refine ⟨acc, hacc, ?_⟩
    have : (updateAcc acc p).access = k := by rw [updateAcc_access]; exact Store.find_some_access hacc
    have h2 := Store.find_put_same b (updateAcc acc p)
    rwa [this] at h2

theorem mutate_delete_ok {b b' : Store} {k : Bytes} (h : mutate b (.delete k) = .ok b') : b'.find k = none := by
  simp only [mutate] at h; cases h; exact Store.find_del_same _ _

/-- a key that is absent stays absent unless the mutation is a create of that key -/
theorem mutate_absent {b b' : Store} {op : Op} (h : mutate b op = .ok b') {k : Bytes}
    (hk : b.find k = none) (hc : ∀ a, op = .create a → a.access ≠ k) : b'.find k = none := by
  by_cases hkey : k = op.key
  · cases op with
    | create a => exact absurd hkey.symm (hc a rfl)
    | update k' p =>
      obtain ⟨acc, hacc, _⟩ := mutate_update_ok h
      simp only [Op.key] at hkey; subst hkey; rw [hk] at hacc; cases hacc
    | delete k' => simp only [Op.key] at hkey; subst hkey; exact mutate_delete_ok h
    | get _ => simp only [mutate] at h; cases h; exact hk
    | list => simp only [mutate] at h; cases h; exact hk
  · rw [mutate_frame h hkey]; exact hk

/-! ### the store read as the plain map -/

/-- abstraction function: the file image as the map of Spec.IAM -/
def abs (s : Store) : Spec.IAM.Accts := fun k => s.find k

/-- what IAMServiceInternal.GetUserAccount answers on the image `s` -/
def look (cfg : Cfg) (s : Store) (k : Bytes) : Option Account :=
  if k = cfg.root.access then some cfg.root else s.find k

theorem look_eq_spec (cfg : Cfg) (s : Store) (k : Bytes) : look cfg s k = Spec.IAM.lookup cfg.root (abs s) k := rfl

/-- `mutate`, preceded by CreateAccount's refusal of the root key: one call of the service on the
image -/
def mutateR (cfg : Cfg) (b : Store) (op : Op) : Except Res Store :=
  match op with
  | .create a => if a.access = cfg.root.access then .error .userExists else mutate b op
  | _ => mutate b op

/-- the service's mutations are the map's mutations -/
theorem mutateR_spec (cfg : Cfg) (b : Store) (op : Op) (hm : op.isMut = true) :
    match mutateR cfg b op with
    | .ok b' => Spec.IAM.apply cfg.root (abs b) op = (abs b', .ok)
    | .error e => Spec.IAM.apply cfg.root (abs b) op = (abs b, e) := by
  cases op with
  | create a =>
    simp only [mutateR]
    by_cases hr : a.access = cfg.root.access
    · simp [hr, Spec.IAM.apply]
    · simp only [hr, if_false, mutate]
      by_cases hf : (b.find a.access).isSome = true
      · simp [hf, Spec.IAM.apply, abs]
      · simp only [hf, Spec.IAM.apply, abs, hr, false_or]
        simp only [Bool.false_eq_true, if_false]
        congr 1
        funext k
        simp only [Spec.IAM.Accts.set]
        by_cases hk : k = a.access
        · subst hk; simp [abs, Store.find_put_same]
        · simp [hk, abs, Store.find_put_other _ _ hk]
  | update k p =>
    simp only [mutateR, mutate, Spec.IAM.apply, abs]
    cases hf : b.find k with
    | none => simp
    | some acc =>
      simp only
      congr 1
      funext k'
      have hacc : (updateAcc acc p).access = k := by rw [updateAcc_access]; exact Store.find_some_access hf
      simp only [Spec.IAM.Accts.set]
      by_cases hk : k' = k
      · subst hk
        have := Store.find_put_same b (updateAcc acc p)
        rw [hacc] at this
        simp only [if_true, abs]
        rw [← updateAcc_eq_applyProps]
        exact this.symm
      · have := Store.find_put_other b (updateAcc acc p) (k := k') (by rw [hacc]; exact hk)
        simp only [hk, if_false, abs, this]
  | delete k =>
    simp only [mutateR, mutate, Spec.IAM.apply, abs]
    congr 1
    funext k'
    simp only [Spec.IAM.Accts.erase]
    by_cases hk : k' = k
    · subst hk; simp only [if_true, abs, Store.find_del_same]
    · simp only [hk, if_false, abs, Store.find_del_other _ hk]
  | get _ => cases hm
  | list => cases hm

/-! ### Items -/

theorem Items.mem_del {it : Items} {k : Bytes} {e : Entry} : e ∈ it.del k ↔ e ∈ it ∧ e.key ≠ k := by
  simp [Items.del, List.mem_filter]

theorem Items.mem_set {it : Items} {k : Bytes} {v : Account} {x : Nat} {e : Entry} :
    e ∈ it.set k v x ↔ e = ⟨k, v, x⟩ ∨ (e ∈ it ∧ e.key ≠ k) := by
  simp [Items.set, Items.mem_del]

theorem Items.mem_gc {it : Items} {now : Nat} {e : Entry} (h : e ∈ it.gc now) : e ∈ it :=
  (List.mem_filter.mp h).1

theorem Items.mem_update {it : Items} {k : Bytes} {p : Props} {x : Nat} {e : Entry} (h : e ∈ it.update k p x) :
    (e ∈ it ∧ e.key ≠ k) ∨ ∃ e0 ∈ it, e0.key = k ∧ e = ⟨k, updateAcc e0.val p, x⟩ := by
  simp only [Items.update, List.mem_map] at h
  obtain ⟨e0, he0, rfl⟩ := h
  by_cases hk : e0.key = k
  · right; exact ⟨e0, he0, hk, by simp [hk]⟩
  · left; simp [hk, he0]

/-- a cache hit returns the value of some entry of that key -/
theorem Items.get_some {it : Items} {now : Nat} {k : Bytes} {a : Account} (h : it.get now k = some a) :
    ∃ e ∈ it, e.key = k ∧ e.val = a := by
  simp only [Items.get] at h
  split at h
  · rename_i e he
    split at h
    · cases h
      refine ⟨e, List.mem_of_find?_eq_some he, ?_, rfl⟩
      have := List.find?_some he
      simpa using this
    · cases h
  · cases h

end Vgw.Model.IAM
