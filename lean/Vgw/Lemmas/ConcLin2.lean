/-
  Lemmas about Model.Conc, part 7: step lemmas for the shapes of writers and DELETEs, the replay of
  the linearization order on the register.
-/
import Vgw.Lemmas.ConcLin
namespace Vgw.Model.Conc
open Vgw.Spec.Register

/-- what a writer step does to program and answer. -/
theorem execAct_wact (c : Cfg) (rq : Req) (fs : FS) (l : Local) (a : Act) (ha : a.isWAct = true) :
    ((execAct c rq fs l a).2.prog = l.prog ∧ (execAct c rq fs l a).2.result = l.result) ∨
    (a = .cstat ∧ fs.key = none ∧ (execAct c rq fs l a).2.prog = [] ∧ (execAct c rq fs l a).2.result = some .err) ∨
    (a = .linkatx ∧ fs.key ≠ none ∧ (execAct c rq fs l a).2.prog = .linktmp :: .lstat :: .rename :: l.prog ∧
      (execAct c rq fs l a).2.result = l.result) := by
  cases a with
  | wstat => left; exact ⟨rfl, rfl⟩
  | opentmp => left; exact ⟨rfl, rfl⟩
  | setattr x v => left; exact ⟨rfl, rfl⟩
  | lstat => left; exact ⟨rfl, rfl⟩
  | rename => left; exact ⟨rfl, rfl⟩
  | linktmp => left; exact ⟨rfl, rfl⟩
  | linkatx =>
    simp only [execAct]
    split
    · left; exact ⟨rfl, rfl⟩
    · right; right; rename_i h; exact ⟨trivial, by rw [h]; simp, rfl, rfl⟩
  | cstat =>
    simp only [execAct]
    split
    · right; left; rename_i h; exact ⟨trivial, h.2, rfl, rfl⟩
    · left; exact ⟨rfl, rfl⟩
  | _ => simp [Act.isWAct] at ha

theorem finalize_writer (rq : Req) (fs : FS) (l : Local) (hw : rq.kind.isWrite = true) :
    (finalize rq fs l).prog = l.prog ∧
    ((l.prog = [] ∧ l.result = none ∧ (finalize rq fs l).result = some .ok) ∨ (finalize rq fs l).result = l.result) := by
  refine ⟨finalize_prog rq fs l, ?_⟩
  unfold finalize
  split
  · rename_i h1 h2
    left
    cases hk : rq.kind <;> simp [hk, Kind.isWrite] at hw <;> exact ⟨h1, h2, rfl⟩
  · right; rfl

theorem WState_step {c : Cfg} {rq : Req} {fs fs' : FS} {l : Local} {a : Act} {rest : List Act}
    (hw : rq.kind.isWrite = true) (h : WState l) (hp : l.prog = a :: rest) :
    WState (finalize rq fs' (execAct c rq fs { l with prog := rest } a).2) := by
  have ha : a.isWAct = true := h.acts a (by rw [hp]; exact List.mem_cons_self)
  have hres0 : l.result = none := h.res.1 (by rw [hp]; simp)
  obtain ⟨fp, fr⟩ := finalize_writer rq fs' (execAct c rq fs { l with prog := rest } a).2 hw
  have nofire : ∀ (hne : (execAct c rq fs { l with prog := rest } a).2.prog ≠ [])
      (e2 : (execAct c rq fs { l with prog := rest } a).2.result = l.result),
      (finalize rq fs' (execAct c rq fs { l with prog := rest } a).2).result = none := by
    intro hne e2
    rcases fr with ⟨f1, _, _⟩ | f
    · exact absurd f1 hne
    · rw [f, e2]; exact hres0
  rcases execAct_wact c rq fs { l with prog := rest } a ha with ⟨e1', e2'⟩ | ⟨rfl, _, e1, e2⟩ | ⟨rfl, _, e1', e2'⟩
  · have e1 : (execAct c rq fs { l with prog := rest } a).2.prog = rest := e1'
    have e2 : (execAct c rq fs { l with prog := rest } a).2.result = l.result := e2'
    refine ⟨?_, ?_, ?_, ?_⟩
    · intro b hb; rw [fp, e1] at hb; exact h.acts b (by rw [hp]; exact List.mem_cons_of_mem _ hb)
    · rw [fp, e1]
      have := h.one; rw [hp, List.filter_cons] at this
      split at this
      · simp only [List.length_cons] at this; omega
      · exact this
    · intro pre post hpp; rw [fp, e1] at hpp
      exact h.clast (a :: pre) post (by rw [hp, hpp]; rfl)
    · rcases fr with ⟨f1, f2, f3⟩ | f
      · exact ⟨fun hne => by rw [fp] at hne; exact absurd f1 hne, fun _ => Or.inl f3⟩
      · constructor
        · intro _; rw [f, e2]; exact hres0
        · intro hnil
          rw [fp] at hnil
          -- the program is exhausted but finalize did not fire: impossible, the answer was none
          exfalso
          unfold finalize at f
          rw [hnil, e2, hres0] at f
          cases hk : rq.kind <;> simp [hk, Kind.isWrite] at hw <;> simp [hk, e2, hres0] at f
  · refine ⟨?_, ?_, ?_, ?_⟩
    · intro b hb; rw [fp, e1] at hb; cases hb
    · rw [fp, e1]; simp
    · intro pre post hpp; rw [fp, e1] at hpp; simp at hpp
    · rcases fr with ⟨_, f2, _⟩ | f
      · rw [e2] at f2; cases f2
      · exact ⟨fun hne => by rw [fp, e1] at hne; exact absurd rfl hne, fun _ => Or.inr (by rw [f, e2])⟩
  · -- linkat found the name taken: linkAndReplace is queued
    have e1 : (execAct c rq fs { l with prog := rest } .linkatx).2.prog = .linktmp :: .lstat :: .rename :: rest := e1'
    have e2 : (execAct c rq fs { l with prog := rest } .linkatx).2.result = l.result := e2'
    have hcount : (rest.filter Act.isRPub).length = 0 := by
      have := h.one; rw [hp] at this
      simp only [List.filter_cons, Act.isRPub, if_true, List.length_cons] at this; omega
    refine ⟨?_, ?_, ?_, ?_⟩
    · intro b hb; rw [fp, e1] at hb
      simp only [List.mem_cons] at hb
      rcases hb with rfl | rfl | rfl | hb
      · rfl
      · rfl
      · rfl
      · exact h.acts b (by rw [hp]; exact List.mem_cons_of_mem _ hb)
    · rw [fp, e1]
      have hnil : rest.filter Act.isRPub = [] := List.eq_nil_of_length_eq_zero hcount
      have : (Act.linktmp :: Act.lstat :: Act.rename :: rest).filter Act.isRPub = [Act.rename] := by
        rw [List.filter_cons, List.filter_cons, List.filter_cons, hnil]; rfl
      rw [this]; simp
    · intro pre post hpp; rw [fp, e1] at hpp
      -- the cstat is inside `rest`
      match pre, hpp with
      | [], hpp => simp at hpp
      | [_], hpp => simp at hpp
      | [_, _], hpp => simp at hpp
      | _ :: _ :: _ :: pre', hpp =>
        simp only [List.cons_append, List.cons.injEq] at hpp
        exact h.clast (.linkatx :: pre') post (by rw [hp, hpp.2.2.2]; rfl)
    · exact ⟨fun _ => nofire (by rw [e1]; simp) e2, fun hnil => by rw [fp, e1] at hnil; cases hnil⟩

theorem DState_step {c : Cfg} {rq : Req} {fs fs' : FS} {l : Local} {a : Act} {rest : List Act}
    (hd : rq.kind = .delete) (h : DState l) (hp : l.prog = a :: rest) :
    DState (finalize rq fs' (execAct c rq fs { l with prog := rest } a).2) := by
  have fin_ok : ∀ l0 : Local, l0.prog = [] → l0.result = none → (finalize rq fs' l0).prog = [] ∧ (finalize rq fs' l0).result = some .ok := by
    intro l0 h1 h2; unfold finalize; rw [h1, h2]; simp [hd]
  have fin_id : ∀ l0 : Local, (l0.prog ≠ [] ∨ l0.result ≠ none) → finalize rq fs' l0 = l0 := by
    intro l0 h0; unfold finalize
    split
    · rename_i h1 h2; rcases h0 with h0 | h0
      · exact absurd h1 h0
      · exact absurd h2 h0
    · rfl
  cases h with
  | d0 h1 h2 =>
    rw [h1] at hp; simp only [List.cons.injEq] at hp; obtain ⟨rfl, rfl⟩ := hp
    simp only [execAct]
    split
    · rw [fin_id _ (Or.inr (by simp))]; exact .d2 rfl rfl
    · rw [fin_id _ (Or.inl (by simp))]; exact .d1 rfl h2
  | d1 h1 h2 =>
    rw [h1] at hp; simp only [List.cons.injEq] at hp; obtain ⟨rfl, rfl⟩ := hp
    simp only [execAct]
    split
    · obtain ⟨f1, f2⟩ := fin_ok { l with prog := [], views := fs.key :: l.views } rfl h2
      exact .d2 f1 f2
    · rw [fin_id _ (Or.inl (by simp))]; exact .d3 rfl rfl
  | d2 h1 _ => rw [h1] at hp; cases hp
  | d3 h1 h2 =>
    rw [h1] at hp; simp only [List.cons.injEq] at hp; obtain ⟨rfl, rfl⟩ := hp
    simp only [execAct]
    rw [fin_id _ (Or.inr (by simp [h2]))]; exact .d4 rfl h2
  | d4 h1 _ => rw [h1] at hp; cases hp

/-! ### replay of a linearization order -/

def replayIds (rqs : List Req) (st : Option Inode) : List Nat → Option Inode
  | [] => st
  | i :: is => replayIds rqs (match rqs[i]? with | some rq => next st (opOf rq) | none => st) is

theorem replayIds_append (rqs : List Req) (st : Option Inode) (xs : List Nat) (i : Nat) :
    replayIds rqs st (xs ++ [i]) = match rqs[i]? with
      | some rq => next (replayIds rqs st xs) (opOf rq)
      | none => replayIds rqs st xs := by
  induction xs generalizing st with
  | nil => simp [replayIds]
  | cons x xs ih => simp only [List.cons_append, replayIds]; exact ih _

theorem append_single_split {α} {σ σ₁ σ₂ : List α} {x p : α} (h : σ ++ [x] = σ₁ ++ p :: σ₂) :
    (σ₂ = [] ∧ σ₁ = σ ∧ p = x) ∨ ∃ σ₂', σ₂ = σ₂' ++ [x] ∧ σ = σ₁ ++ p :: σ₂' := by
  induction σ₁ generalizing σ with
  | nil =>
    cases σ with
    | nil => simp at h; left; exact ⟨h.2, rfl, h.1.symm⟩
    | cons y ys => simp at h; right; exact ⟨ys, h.2.symm, by rw [h.1]; rfl⟩
  | cons z zs ih =>
    cases σ with
    | nil =>
      simp at h
    | cons y ys =>
      simp only [List.cons_append, List.cons.injEq] at h
      rcases ih h.2 with ⟨a, b, c⟩ | ⟨σ₂', a, b⟩
      · left; exact ⟨a, by rw [h.1, b], c⟩
      · right; exact ⟨σ₂', a, by rw [h.1, b]; rfl⟩

end Vgw.Model.Conc
