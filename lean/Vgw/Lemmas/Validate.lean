/-
  Lemmas for C14's validation theorems: facts about the concrete action tables (by `decide`: whole
  finite tables, these are proofs), `Action.IsValid` / `Action.IsObjectAction` / `isValidResource`
  in the Spec's terms, and the decode hooks.
-/
import Vgw.Lemmas.Policy
namespace Vgw.Lemmas.Validate
open Vgw Vgw.Go.Strings Vgw.Model.Policy Vgw.Spec.Policy Vgw.Lemmas.Policy

/-! ### the tables -/

theorem supportedActions_eq : supportedActions = supported ++ [allActions] := rfl
theorem objectActions_eq : objectActions = objectNames ++ [allActions] := rfl

theorem supported_s3 : ∀ b ∈ supported, s3Prefix <+: b := by decide
theorem supported_no_star : ∀ b ∈ supported, ¬ EndsInStar b := by decide
theorem supported_no_allprefix : ∀ b ∈ supported, ¬ allActions <+: b := by decide
theorem supported_ne_all : allActions ∉ supported := by decide
theorem actionIsValid_nil : actionIsValid [] = false := by decide

theorem mem_bucketNames (b : Bytes) : b ∈ bucketNames ↔ b ∈ supported ∧ b ∉ objectNames := by
  unfold bucketNames; rw [List.mem_filter]; simp

/-- `pre*` with the service prefix, other than `s3:*`, whose `pre` is a prefix of `s3:*` is `s3:**`. -/
theorem prefix_of_all (pre : Bytes) (h1 : pre <+: allActions) (h2 : s3Prefix <+: pre ++ [42])
    (h3 : pre ++ [42] ≠ allActions) : pre = allActions := by
  unfold allActions s3Prefix at *
  rcases pre with _ | ⟨x0, _ | ⟨x1, _ | ⟨x2, _ | ⟨x3, _ | ⟨x4, rest⟩⟩⟩⟩⟩
  · simp at h2
  · simp [List.cons_prefix_cons] at h1 h2
  · simp [List.cons_prefix_cons] at h1 h2
  · simp [List.cons_prefix_cons] at h1 h2 h3
    obtain ⟨a, b, c⟩ := h1
    exact absurd c (h3 a b)
  · simp [List.cons_prefix_cons] at h1
    obtain ⟨a, b, c, d⟩ := h1
    simp [a, b, c, d]
  · simp [List.cons_prefix_cons] at h1

/-! ### `Action.IsValid` and `Action.IsObjectAction` -/

theorem actionIsValid_iff (a : Bytes) :
    actionIsValid a = true ↔
      s3Prefix <+: a ∧ (a = allActions ∨ (EndsInStar a ∧ ∃ b ∈ supportedActions, a.dropLast <+: b) ∨
        (¬ EndsInStar a ∧ a ∈ supportedActions)) := by
  unfold actionIsValid
  by_cases hp : hasPrefix a s3Prefix = true
  · have hp' := (hasPrefix_iff a s3Prefix).1 hp
    rw [hp]
    simp only [Bool.not_true, Bool.false_eq_true, if_false]
    by_cases ha : a = allActions
    · subst ha; simp [hp']
    · rw [if_neg ha]
      by_cases he : a.getLast? = some 42
      · have he' : EndsInStar a := he
        rw [if_pos he, trimSuffix_star a he', List.any_eq_true]
        simp only [hasPrefix_iff, hp', true_and, ha, false_or, he', not_true_eq_false, false_and, or_false]
      · have he' : ¬ EndsInStar a := he
        rw [if_neg he, List.contains_iff_mem]
        simp only [hp', true_and, ha, false_or, he', false_and, not_false_eq_true]
  · have hp' : ¬ s3Prefix <+: a := fun h => hp ((hasPrefix_iff a s3Prefix).2 h)
    simp only [Bool.not_eq_true] at hp
    rw [hp]; simp [hp']

theorem valid_of_strict (a : Bytes) (h : ActionOK .strict a) : actionIsValid a = true := by
  rw [actionIsValid_iff]
  unfold ActionOK at h
  rcases h with rfl | h | ⟨he, hp, b, hb, hpre⟩ | ⟨hm, _⟩
  · exact ⟨by decide, Or.inl rfl⟩
  · have hs : a ∈ supported := h
    refine ⟨supported_s3 a hs, Or.inr (Or.inr ⟨supported_no_star a hs, ?_⟩)⟩
    rw [supportedActions_eq]; simp [hs]
  · have hs : b ∈ supported := hb
    refine ⟨hp, Or.inr (Or.inl ⟨he, b, ?_, hpre⟩)⟩
    rw [supportedActions_eq]; simp [hs]
  · cases hm

theorem dropLast_append_of_ends (a : Bytes) (h : EndsInStar a) : a.dropLast ++ [42] = a := by
  obtain ⟨ys, rfl⟩ := List.getLast?_eq_some_iff.1 h
  rw [List.dropLast_concat]

theorem lenient_of_valid (a : Bytes) (h : actionIsValid a = true) : ActionOK .lenient a := by
  rw [actionIsValid_iff] at h
  obtain ⟨hp, h⟩ := h
  unfold ActionOK
  rcases h with rfl | ⟨he, b, hb, hpre⟩ | ⟨he, hm⟩
  · exact Or.inl rfl
  · rw [supportedActions_eq, List.mem_append, List.mem_singleton] at hb
    rcases hb with hb | rfl
    · exact Or.inr (Or.inr (Or.inl ⟨he, hp, b, by simp [namesOf, hb], hpre⟩))
    · by_cases ha : a = allActions
      · exact Or.inl ha
      · have hd := dropLast_append_of_ends a he
        have := prefix_of_all a.dropLast hpre (by rw [hd]; exact hp) (by rw [hd]; exact ha)
        refine Or.inr (Or.inr (Or.inr ⟨rfl, ?_⟩))
        rw [← hd, this]; rfl
  · rw [supportedActions_eq, List.mem_append, List.mem_singleton] at hm
    rcases hm with hm | rfl
    · exact Or.inr (Or.inl (by simp [namesOf, hm]))
    · exact Or.inl rfl

/-- what `IsObjectAction` answers for an action other than `s3:*` and `""` -/
theorem actionKind_cases (a : Bytes) (hne : a ≠ allActions) (hnil : a ≠ []) :
    (actionKind a = .object ∧ ((EndsInStar a ∧ ∃ b ∈ objectActions, a.dropLast <+: b) ∨
        (¬ EndsInStar a ∧ a ∈ objectActions))) ∨
    (actionKind a = .bucket ∧ ((EndsInStar a ∧ ¬ ∃ b ∈ objectActions, a.dropLast <+: b) ∨
        (¬ EndsInStar a ∧ a ∉ objectActions))) := by
  unfold actionKind
  rw [if_neg hne]
  cases hl : a.getLast? with
  | none => exact absurd (List.getLast?_eq_none_iff.1 hl) hnil
  | some c =>
    simp only
    by_cases hc : c = 42
    · subst hc
      have he : EndsInStar a := hl
      rw [if_pos rfl, trimSuffix_star a he]
      by_cases hany : (objectActions.any fun act => hasPrefix act a.dropLast) = true
      · rw [if_pos hany]
        left
        rw [List.any_eq_true] at hany
        obtain ⟨b, hb, hpre⟩ := hany
        exact ⟨rfl, Or.inl ⟨he, b, hb, (hasPrefix_iff _ _).1 hpre⟩⟩
      · rw [if_neg hany]
        right
        refine ⟨rfl, Or.inl ⟨he, ?_⟩⟩
        rintro ⟨b, hb, hpre⟩
        apply hany
        rw [List.any_eq_true]
        exact ⟨b, hb, (hasPrefix_iff _ _).2 hpre⟩
    · have he : ¬ EndsInStar a := by
        unfold EndsInStar; rw [hl]; simpa using hc
      rw [if_neg hc]
      by_cases hm : a ∈ objectActions
      · rw [if_pos (List.contains_iff_mem.2 hm)]
        exact Or.inl ⟨rfl, Or.inr ⟨he, hm⟩⟩
      · have : objectActions.contains a = false := by
          simpa [List.contains_iff_mem] using hm
        rw [this]
        exact Or.inr ⟨rfl, Or.inr ⟨he, hm⟩⟩

theorem actionKind_all : actionKind allActions = .all := by decide

/-! ### resources -/

/-- what the theorems assume about a bucket name (true of every valid bucket name) -/
def Sane (bucket : Bytes) : Prop := bucket ≠ [] ∧ (47 : UInt8) ∉ bucket ∧ (42 : UInt8) ∉ bucket

instance (b : Bytes) : Decidable (Sane b) := by unfold Sane; infer_instance

theorem isValidResource_some (r p : Bytes) :
    isValidResource r = some p ↔ (r = arnPrefix ++ p ∧ p ≠ [] ∧ ¬ slashLit <+: p) := by
  unfold isValidResource
  by_cases hp : hasPrefix r arnPrefix = true
  · obtain ⟨t, rfl⟩ := (hasPrefix_iff r arnPrefix).1 hp
    rw [hp]
    simp only [Bool.not_true, Bool.false_eq_true, if_false, trimPrefix_append]
    by_cases ht : t = []
    · subst ht; simp; intro h1 h2; exact absurd h1 h2
    · rw [if_neg ht]
      by_cases hs : hasPrefix t slashLit = true
      · have := (hasPrefix_iff t slashLit).1 hs
        rw [if_pos hs]
        constructor
        · intro h; cases h
        · rintro ⟨e, _, hn⟩
          have := List.append_cancel_left e
          subst this; exact absurd ‹slashLit <+: t› hn
      · have hs' : ¬ slashLit <+: t := fun h => hs ((hasPrefix_iff t slashLit).2 h)
        rw [if_neg hs]
        constructor
        · intro h; cases h; exact ⟨rfl, ht, hs'⟩
        · rintro ⟨e, _, _⟩
          have := List.append_cancel_left e
          rw [this]
  · have hp' : ¬ arnPrefix <+: r := fun h => hp ((hasPrefix_iff r arnPrefix).2 h)
    simp only [Bool.not_eq_true] at hp
    rw [hp]
    simp only [Bool.not_false, if_true]
    constructor
    · intro h; cases h
    · rintro ⟨e, _, _⟩; exact absurd ⟨p, e.symm⟩ hp'

theorem not_slash_prefix (bucket k : Bytes) (hs : Sane bucket) : ¬ slashLit <+: bucket ++ k := by
  obtain ⟨hne, h47, _⟩ := hs
  cases bucket with
  | nil => exact absurd rfl hne
  | cons c cs =>
    unfold slashLit
    rw [List.cons_append, List.cons_prefix_cons]
    rintro ⟨e, _⟩
    apply h47; rw [e]; simp

/-- the pattern stored for a resource in the bucket -/
theorem inBucket_pattern (bucket r : Bytes) (hs : Sane bucket) (h : InBucket bucket r) :
    (IsBucketRes bucket r ∧ isValidResource r = some bucket) ∨
    (IsObjectRes bucket r ∧ ∃ k, isValidResource r = some (bucket ++ 47 :: k)) := by
  rcases h with h | h
  · left
    refine ⟨h, ?_⟩
    rw [isValidResource_some]
    have := not_slash_prefix bucket [] hs
    rw [List.append_nil] at this
    exact ⟨h, hs.1, this⟩
  · right
    refine ⟨h, ?_⟩
    obtain ⟨k, hk⟩ := h
    refine ⟨k, ?_⟩
    rw [isValidResource_some]
    refine ⟨by rw [← hk]; simp, by simp, not_slash_prefix bucket _ hs⟩

theorem isValidResource_inj (r p q : Bytes) (h1 : isValidResource r = some p)
    (h2 : isValidResource r = some q) : p = q := by
  rw [h1] at h2; cases h2; rfl

/-- relation between the declared resources and the stored patterns -/
def Stored (rs pats : List Bytes) : Prop :=
  ∀ p, p ∈ pats ↔ ∃ r ∈ rs, isValidResource r = some p

theorem cOP_iff (bucket : Bytes) (rs pats : List Bytes) (hs : Sane bucket)
    (hin : ∀ r ∈ rs, InBucket bucket r) (hst : Stored rs pats) :
    containsObjectPattern pats = true ↔ ∃ r ∈ rs, IsObjectRes bucket r := by
  unfold containsObjectPattern
  rw [List.any_eq_true]
  constructor
  · rintro ⟨p, hp, hk⟩
    obtain ⟨r, hr, hv⟩ := (hst p).1 hp
    rcases inBucket_pattern bucket r hs (hin r hr) with ⟨_, hb⟩ | ⟨ho, _⟩
    · have := isValidResource_inj r _ _ hv hb
      subst this
      rw [Bool.or_eq_true, containsByte_iff] at hk
      rcases hk with hk | hk
      · have : p = starLit := by simpa using hk
        exact absurd (by rw [this]; simp [starLit]) hs.2.2
      · exact absurd hk hs.2.1
    · exact ⟨r, hr, ho⟩
  · rintro ⟨r, hr, ho⟩
    rcases inBucket_pattern bucket r hs (Or.inr ho) with ⟨hb, _⟩ | ⟨_, k, hv⟩
    · obtain ⟨k, hk⟩ := ho
      unfold IsBucketRes at hb
      rw [hb] at hk
      have := congrArg List.length hk
      simp at this
    · refine ⟨_, (hst _).2 ⟨r, hr, hv⟩, ?_⟩
      rw [Bool.or_eq_true, containsByte_iff]; right; simp

theorem cBP_iff (bucket : Bytes) (rs pats : List Bytes) (hs : Sane bucket)
    (hin : ∀ r ∈ rs, InBucket bucket r) (hst : Stored rs pats) :
    containsBucketPattern pats = true ↔ ∃ r ∈ rs, IsBucketRes bucket r := by
  unfold containsBucketPattern
  rw [List.any_eq_true]
  constructor
  · rintro ⟨p, hp, hk⟩
    obtain ⟨r, hr, hv⟩ := (hst p).1 hp
    rcases inBucket_pattern bucket r hs (hin r hr) with ⟨hb, _⟩ | ⟨_, k, hb⟩
    · exact ⟨r, hr, hb⟩
    · have := isValidResource_inj r _ _ hv hb
      subst this
      rw [Bool.or_eq_true] at hk
      rcases hk with hk | hk
      · have e : bucket ++ 47 :: k = starLit := by simpa using hk
        have := congrArg List.length e
        have hne := hs.1
        cases bucket with
        | nil => exact absurd rfl hne
        | cons c cs => simp [starLit] at this
      · have : containsByte (bucket ++ 47 :: k) 47 = true := by rw [containsByte_iff]; simp
        rw [this] at hk; cases hk
  · rintro ⟨r, hr, hb⟩
    rcases inBucket_pattern bucket r hs (Or.inl hb) with ⟨_, hv⟩ | ⟨ho, _⟩
    · refine ⟨_, (hst _).2 ⟨r, hr, hv⟩, ?_⟩
      rw [Bool.or_eq_true]; right
      have : containsByte bucket 47 = false := by
        cases h : containsByte bucket 47
        · rfl
        · exact absurd ((containsByte_iff _ _).1 h) hs.2.1
      rw [this]; rfl
    · obtain ⟨k, hk⟩ := ho
      unfold IsBucketRes at hb
      rw [hb] at hk
      have := congrArg List.length hk
      simp at this

/-! ### the action/resource-kind check, one action -/

/-- outcome of one iteration of the kind loop that lets the loop go on (or `break`) -/
def StepOKb (o b : Bool) (a : Bytes) : Prop :=
  actionKind a = .all ∨ (actionKind a = .object ∧ o = true) ∨ (actionKind a = .bucket ∧ b = true)

def StepOK (pats : List Bytes) (a : Bytes) : Prop :=
  StepOKb (containsObjectPattern pats) (containsBucketPattern pats) a

theorem mem_objectActions (b : Bytes) : b ∈ objectActions ↔ b ∈ objectNames ∨ b = allActions := by
  rw [objectActions_eq, List.mem_append, List.mem_singleton]

theorem covers_prefix (a b : Bytes) (he : EndsInStar a) (hp : a.dropLast <+: b) : Covers a b :=
  Or.inr ⟨he, hp⟩

theorem step_of_strict (bucket : Bytes) (rs pats : List Bytes) (a : Bytes) (hs : Sane bucket)
    (hin : ∀ r ∈ rs, InBucket bucket r) (hst : Stored rs pats)
    (ha : ActionOK .strict a) (hk : KindOK .strict bucket rs a) : StepOK pats a := by
  by_cases hall : a = allActions
  · left; rw [hall]; exact actionKind_all
  have hnil : a ≠ [] := by
    intro e; have := valid_of_strict a ha; rw [e, actionIsValid_nil] at this; cases this
  have hk' : (ObjHit a → ∃ r ∈ rs, IsObjectRes bucket r) ∧
      (BktHit .strict a → ∃ r ∈ rs, IsBucketRes bucket r) := by
    unfold KindOK at hk
    rcases hk with h | h
    · exact absurd h hall
    · exact h
  -- what ActionOK strict gives for an action other than `s3:*`
  have hact : (¬ EndsInStar a ∧ a ∈ supported) ∨
      (EndsInStar a ∧ s3Prefix <+: a ∧ ∃ b ∈ supported, a.dropLast <+: b) := by
    unfold ActionOK at ha
    rcases ha with h | h | h | ⟨hm, _⟩
    · exact absurd h hall
    · have hsup : a ∈ supported := h
      exact Or.inl ⟨supported_no_star a hsup, hsup⟩
    · exact Or.inr h
    · cases hm
  rcases actionKind_cases a hall hnil with ⟨hkind, hc⟩ | ⟨hkind, hc⟩
  · -- object
    right; left
    refine ⟨hkind, (cOP_iff bucket rs pats hs hin hst).2 (hk'.1 ?_)⟩
    rcases hc with ⟨he, b, hb, hpre⟩ | ⟨he, hm⟩
    · rcases (mem_objectActions b).1 hb with hb | rfl
      · exact ⟨b, hb, covers_prefix a b he hpre⟩
      · exfalso
        rcases hact with ⟨hne, _⟩ | ⟨_, hp, b', hb', hpre'⟩
        · exact hne he
        · have hd := dropLast_append_of_ends a he
          have := prefix_of_all a.dropLast hpre (by rw [hd]; exact hp) (by rw [hd]; exact hall)
          rw [this] at hpre'
          exact supported_no_allprefix b' hb' hpre'
    · rcases (mem_objectActions a).1 hm with hm | hm
      · exact ⟨a, hm, Or.inl rfl⟩
      · exact absurd hm hall
  · -- bucket
    right; right
    refine ⟨hkind, (cBP_iff bucket rs pats hs hin hst).2 (hk'.2 ?_)⟩
    rcases hc with ⟨he, hno⟩ | ⟨he, hm⟩
    · rcases hact with ⟨hne, _⟩ | ⟨_, _, b', hb', hpre'⟩
      · exact absurd he hne
      · have : b' ∉ objectNames := fun h => hno ⟨b', (mem_objectActions b').2 (Or.inl h), hpre'⟩
        exact ⟨b', (mem_bucketNames b').2 ⟨hb', this⟩, covers_prefix a b' he hpre'⟩
    · rcases hact with ⟨_, hsup⟩ | ⟨he', _⟩
      · have : a ∉ objectNames := fun h => hm ((mem_objectActions a).2 (Or.inl h))
        exact ⟨a, (mem_bucketNames a).2 ⟨hsup, this⟩, Or.inl rfl⟩
      · exact absurd he' he

theorem lenient_of_step (bucket : Bytes) (rs pats : List Bytes) (a : Bytes) (hs : Sane bucket)
    (hin : ∀ r ∈ rs, InBucket bucket r) (hst : Stored rs pats)
    (hv : actionIsValid a = true) (hk : StepOK pats a) : KindOK .lenient bucket rs a := by
  unfold KindOK
  by_cases hall : a = allActions
  · exact Or.inl hall
  right
  have hnil : a ≠ [] := by
    intro e; rw [e, actionIsValid_nil] at hv; cases hv
  obtain ⟨hp, hvv⟩ := (actionIsValid_iff a).1 hv
  have hact : (¬ EndsInStar a ∧ a ∈ supported) ∨
      (EndsInStar a ∧ ∃ b ∈ supportedActions, a.dropLast <+: b) := by
    rcases hvv with h | h | ⟨hne, hm⟩
    · exact absurd h hall
    · exact Or.inr h
    · rw [supportedActions_eq, List.mem_append, List.mem_singleton] at hm
      rcases hm with hm | hm
      · exact Or.inl ⟨hne, hm⟩
      · exact absurd hm hall
  rcases actionKind_cases a hall hnil with ⟨hkind, hc⟩ | ⟨hkind, hc⟩
  · have hcop : containsObjectPattern pats = true := by
      rcases hk with h | ⟨_, h⟩ | ⟨h, _⟩
      · rw [hkind] at h; cases h
      · exact h
      · rw [hkind] at h; cases h
    have hres := (cOP_iff bucket rs pats hs hin hst).1 hcop
    rcases hc with ⟨he, b, hb, hpre⟩ | ⟨he, hm⟩
    · rcases (mem_objectActions b).1 hb with hb | rfl
      · exact Or.inl ⟨⟨b, hb, covers_prefix a b he hpre⟩, hres⟩
      · have hd := dropLast_append_of_ends a he
        have := prefix_of_all a.dropLast hpre (by rw [hd]; exact hp) (by rw [hd]; exact hall)
        refine Or.inr (Or.inr ?_)
        rw [← hd, this]; rfl
    · rcases (mem_objectActions a).1 hm with hm | hm
      · exact Or.inl ⟨⟨a, hm, Or.inl rfl⟩, hres⟩
      · exact absurd hm hall
  · have hcbp : containsBucketPattern pats = true := by
      rcases hk with h | ⟨h, _⟩ | ⟨_, h⟩
      · rw [hkind] at h; cases h
      · rw [hkind] at h; cases h
      · exact h
    have hres := (cBP_iff bucket rs pats hs hin hst).1 hcbp
    refine Or.inr (Or.inl ⟨?_, hres⟩)
    rcases hc with ⟨he, hno⟩ | ⟨he, hm⟩
    · rcases hact with ⟨hne, _⟩ | ⟨_, b', hb', hpre'⟩
      · exact absurd he hne
      · rw [supportedActions_eq, List.mem_append, List.mem_singleton] at hb'
        rcases hb' with hb' | rfl
        · have : b' ∉ objectNames := fun h => hno ⟨b', (mem_objectActions b').2 (Or.inl h), hpre'⟩
          exact ⟨b', by simp [bucketNamesOf, (mem_bucketNames b').2 ⟨hb', this⟩], covers_prefix a b' he hpre'⟩
        · exact absurd ⟨allActions, (mem_objectActions _).2 (Or.inr rfl), hpre'⟩ hno
    · rcases hact with ⟨_, hsup⟩ | ⟨he', _⟩
      · have : a ∉ objectNames := fun h => hm ((mem_objectActions a).2 (Or.inl h))
        exact ⟨a, by simp [bucketNamesOf, (mem_bucketNames a).2 ⟨hsup, this⟩], Or.inl rfl⟩
      · exact absurd he' he

/-! ### the loop over the actions -/

/-- since the loop `continue`s at `s3:*`, it succeeds exactly when every action passes -/
theorem kindLoop_ok_iff' (o b : Bool) (l : List Bytes) :
    kindLoop o b l = .ok () ↔ ∀ a ∈ l, StepOKb o b a := by
  induction l with
  | nil => simp [kindLoop]
  | cons x rest ih =>
    rw [kindLoop]
    cases hk : actionKind x with
    | all =>
      simp only
      rw [ih]
      constructor
      · intro h a ha
        rcases List.mem_cons.1 ha with rfl | ha
        · exact Or.inl hk
        · exact h a ha
      · intro h a ha; exact h a (List.mem_cons_of_mem _ ha)
    | panic =>
      simp only
      constructor
      · intro h; cases h
      · intro h
        rcases h x (by simp) with e | ⟨e, _⟩ | ⟨e, _⟩ <;> rw [hk] at e <;> cases e
    | object =>
      simp only
      cases o with
      | false =>
        simp only [Bool.not_false, if_true]
        constructor
        · intro h; cases h
        · intro h
          rcases h x (by simp) with e | ⟨_, e⟩ | ⟨e, _⟩
          · rw [hk] at e; cases e
          · cases e
          · rw [hk] at e; cases e
      | true =>
        simp only [Bool.not_true, Bool.false_eq_true, if_false]
        rw [ih]
        constructor
        · intro h a ha
          rcases List.mem_cons.1 ha with rfl | ha
          · exact Or.inr (Or.inl ⟨hk, rfl⟩)
          · exact h a ha
        · intro h a ha; exact h a (List.mem_cons_of_mem _ ha)
    | bucket =>
      simp only
      cases b with
      | false =>
        simp only [Bool.not_false, if_true]
        constructor
        · intro h; cases h
        · intro h
          rcases h x (by simp) with e | ⟨e, _⟩ | ⟨_, e⟩
          · rw [hk] at e; cases e
          · rw [hk] at e; cases e
          · cases e
      | true =>
        simp only [Bool.not_true, Bool.false_eq_true, if_false]
        rw [ih]
        constructor
        · intro h a ha
          rcases List.mem_cons.1 ha with rfl | ha
          · exact Or.inr (Or.inr ⟨hk, rfl⟩)
          · exact h a ha
        · intro h a ha; exact h a (List.mem_cons_of_mem _ ha)

/-- without the empty action string the only possible error is the kind mismatch -/
theorem kindLoop_cases (o b : Bool) (l : List Bytes) (h : ∀ a ∈ l, actionKind a ≠ .panic) :
    kindLoop o b l = .ok () ∨ kindLoop o b l = .error .resourceMismatch := by
  induction l with
  | nil => left; rfl
  | cons x rest ih =>
    have hr := ih (fun a ha => h a (List.mem_cons_of_mem _ ha))
    rw [kindLoop]
    cases hk : actionKind x with
    | all => exact hr
    | panic => exact absurd hk (h x (by simp))
    | object => cases o <;> simp [hr]
    | bucket => cases b <;> simp [hr]

theorem kindLoop_ok_iff (pats : List Bytes) (l : List Bytes) :
    kindLoop (containsObjectPattern pats) (containsBucketPattern pats) l = .ok () ↔
      ∀ a ∈ l, StepOK pats a :=
  kindLoop_ok_iff' _ _ l

/-! ### the decode hooks -/

theorem addAll_ok (f : Bytes → Except VErr Bytes) (l ks : List Bytes) (h : addAll f l = .ok ks) :
    (∀ s ∈ l, ∃ k, f s = .ok k) ∧ (∀ k, k ∈ ks ↔ ∃ s ∈ l, f s = .ok k) ∧ ks.Nodup := by
  induction l generalizing ks with
  | nil =>
    rw [addAll] at h; cases h
    simp
  | cons s rest ih =>
    rw [addAll] at h
    cases hf : f s with
    | error e => rw [hf] at h; cases h
    | ok k =>
      cases hr : addAll f rest with
      | error e => rw [hf, hr] at h; cases h
      | ok ks' =>
        rw [hf, hr] at h
        obtain ⟨h1, h2, h3⟩ := ih ks' hr
        have hks : ks = if ks'.contains k then ks' else k :: ks' := by
          cases h; rfl
        refine ⟨?_, ?_, ?_⟩
        · intro x hx
          rcases List.mem_cons.1 hx with rfl | hx
          · exact ⟨k, hf⟩
          · exact h1 x hx
        · intro k0
          rw [hks]
          by_cases hc : ks'.contains k = true
          · rw [if_pos hc, h2]
            constructor
            · rintro ⟨x, hx, hfx⟩; exact ⟨x, by simp [hx], hfx⟩
            · rintro ⟨x, hx, hfx⟩
              rcases List.mem_cons.1 hx with rfl | hx
              · rw [hf] at hfx; cases hfx
                exact (h2 k).1 (List.contains_iff_mem.1 hc)
              · exact ⟨x, hx, hfx⟩
          · rw [if_neg hc, List.mem_cons, h2]
            constructor
            · rintro (rfl | ⟨x, hx, hfx⟩)
              · exact ⟨s, by simp, hf⟩
              · exact ⟨x, by simp [hx], hfx⟩
            · rintro ⟨x, hx, hfx⟩
              rcases List.mem_cons.1 hx with rfl | hx
              · rw [hf] at hfx; cases hfx; exact Or.inl rfl
              · exact Or.inr ⟨x, hx, hfx⟩
        · rw [hks]
          by_cases hc : ks'.contains k = true
          · rw [if_pos hc]; exact h3
          · rw [if_neg hc]
            exact List.nodup_cons.2 ⟨fun hm => hc (List.contains_iff_mem.2 hm), h3⟩

theorem addAll_total (f : Bytes → Except VErr Bytes) (l : List Bytes)
    (h : ∀ s ∈ l, ∃ k, f s = .ok k) : ∃ ks, addAll f l = .ok ks := by
  induction l with
  | nil => exact ⟨[], rfl⟩
  | cons s rest ih =>
    obtain ⟨k, hk⟩ := h s (by simp)
    obtain ⟨ks, hks⟩ := ih (fun x hx => h x (by simp [hx]))
    rw [addAll, hk, hks]
    exact ⟨_, rfl⟩

theorem decodeField_of_members (empty : VErr) (add : Bytes → Except VErr Bytes) (fld : Field)
    (l : List Bytes) (hm : members fld = some l) (hne : ∀ s, fld = .str s → s ≠ []) :
    decodeField empty add fld = addAll add l := by
  cases fld with
  | missing => cases hm
  | bad => cases hm
  | str s =>
    simp only [members, Option.some.injEq] at hm
    subst hm
    rw [decodeField, if_neg (hne s rfl)]
  | arr l' =>
    cases l' with
    | nil => cases hm
    | cons x t =>
      simp only [members, Option.some.injEq] at hm
      subst hm
      rw [decodeField, if_neg (by simp)]

theorem decodeField_ok (empty : VErr) (add : Bytes → Except VErr Bytes) (fld : Field)
    (ks : List Bytes) (h : decodeField empty add fld = .ok ks) :
    (fld = .missing ∧ ks = []) ∨
    (∃ l, members fld = some l ∧ addAll add l = .ok ks ∧ ∀ s, fld = .str s → s ≠ []) := by
  cases fld with
  | missing => rw [decodeField] at h; cases h; exact Or.inl ⟨rfl, rfl⟩
  | bad => rw [decodeField] at h; cases h
  | str s =>
    rw [decodeField] at h
    by_cases hs : s = []
    · rw [if_pos hs] at h; cases h
    · rw [if_neg hs] at h
      exact Or.inr ⟨[s], rfl, h, fun s' e => by cases e; exact hs⟩
  | arr l =>
    rw [decodeField] at h
    cases l with
    | nil => rw [if_pos rfl] at h; cases h
    | cons x t =>
      rw [if_neg (by simp)] at h
      exact Or.inr ⟨x :: t, rfl, h, fun s' e => by cases e⟩

theorem members_ne_nil (fld : Field) (l : List Bytes) (h : members fld = some l) : l ≠ [] := by
  cases fld with
  | missing => cases h
  | bad => cases h
  | str s => simp only [members, Option.some.injEq] at h; subst h; simp
  | arr l' =>
    cases l' with
    | nil => cases h
    | cons x t => simp only [members, Option.some.injEq] at h; subst h; simp

/-! ### principals -/

theorem nodup_all_eq (ks : List Bytes) (c : Bytes) (hnd : ks.Nodup) (hall : ∀ x ∈ ks, x = c) :
    ks.length ≤ 1 := by
  cases ks with
  | nil => simp
  | cons a t =>
    cases t with
    | nil => simp
    | cons b u =>
      have ha := hall a (by simp)
      have hb := hall b (by simp)
      rw [List.nodup_cons] at hnd
      exact absurd (by rw [ha, hb]; simp) hnd.1

theorem principals_ok_iff (acct : Bytes → Bool) (ks l : List Bytes) (hmem : ∀ k, k ∈ ks ↔ k ∈ l)
    (hnd : ks.Nodup) (hne : l ≠ []) :
    principalsValidate acct ks = .ok () ↔ PrincipalsOK acct l := by
  unfold principalsValidate PrincipalsOK
  by_cases hc : starLit ∈ ks
  · rw [if_pos (List.contains_iff_mem.2 hc)]
    constructor
    · intro h
      by_cases hl : ks.length = 1
      · left
        intro x hx
        have hx' := (hmem x).2 hx
        match ks, hl with
        | [y], _ =>
          simp only [List.mem_singleton] at hc hx'
          rw [hx', ← hc]
      · rw [if_neg hl] at h; cases h
    · rintro (h | h)
      · have hle := nodup_all_eq ks starLit hnd (fun x hx => h x ((hmem x).1 hx))
        have hpos : 0 < ks.length := List.length_pos_of_mem hc
        rw [if_pos (by omega)]
      · exact absurd rfl (h starLit ((hmem _).1 hc)).1
  · have hcf : ks.contains starLit = false := by simpa [List.contains_iff_mem] using hc
    rw [hcf]
    simp only [Bool.false_eq_true, if_false]
    constructor
    · intro h
      right
      intro x hx
      have hx' := (hmem x).2 hx
      have hxs : x ≠ starLit := fun e => hc (e ▸ hx')
      refine ⟨hxs, ?_⟩
      cases ha : acct x
      · exfalso
        have : x ∈ (toSlice ks).filter (fun a => !acct a) := by
          unfold toSlice
          simp [List.mem_filter, hx', hxs, ha]
        have hpos := List.length_pos_of_mem this
        rw [if_pos hpos] at h; cases h
      · rfl
    · rintro (h | h)
      · obtain ⟨x, hx⟩ := List.exists_mem_of_ne_nil l hne
        have e := h x hx
        exact absurd ((hmem starLit).2 (e ▸ hx)) hc
      · have : (toSlice ks).filter (fun a => !acct a) = [] := by
          rw [List.filter_eq_nil_iff]
          intro x hx
          unfold toSlice at hx
          rw [List.mem_filter] at hx
          simp [(h x ((hmem x).1 hx.1)).2]
        rw [this]; simp

theorem effect_ok_iff (e : Bytes) : effectValidate e = .ok () ↔ (e = allowLit ∨ e = denyLit) := by
  unfold effectValidate
  by_cases h : e = allowLit ∨ e = denyLit
  · rw [if_pos h]; simp [h]
  · rw [if_neg h]; simp [h]

end Vgw.Lemmas.Validate
