/-
  The emissions of the visible events of a (sub)tree are, as a set, exactly the entries the
  specification defines for the keys of that subtree, and their names are a sublist of the
  event paths (hence ascending under OrderCompatible).
-/
import Vgw.Lemmas.WalkEmit
namespace Vgw.Model.Walk
open Vgw Vgw.Spec.List

def toEntry : Em → Entry
  | .obj o _ => .obj o.key
  | .cp n => .cp n

def Em.name (e : Em) : Bytes := (toEntry e).name

def emsOf (c : Cfg) (evs : List Ev) : List Em := ems (evs.map (act0 c))

theorem emsOf_nil (c : Cfg) : emsOf c [] = [] := rfl

theorem emsOf_append (c : Cfg) (a b : List Ev) : emsOf c (a ++ b) = emsOf c a ++ emsOf c b := by
  simp [emsOf, ems, List.filterMap_append]

theorem emsOf_cons (c : Cfg) (e : Ev) (l : List Ev) : emsOf c (e :: l) = (act0 c e).em?.toList ++ emsOf c l := by
  unfold emsOf ems
  rw [List.map_cons, List.filterMap_cons]
  cases (act0 c e).em? <;> rfl

/-- the per-key content of `Spec.List.markerClear` -/
def MC (c : Cfg) (k : Bytes) : Prop :=
  c.marker ≠ [] → c.delim ≠ [] → c.pfx <+: k → ∀ x, cut c.delim (k.drop c.pfx.length) = some x →
    (c.pfx ++ x) <+: c.marker →
      ble (c.pfx ++ x ++ c.delim) c.marker = true ∧
      ((c.pfx ++ x ++ c.delim) <+: c.marker → c.pfx ++ x ++ c.delim = c.marker)

structure Good (c : Cfg) (K : List Bytes) (E : List Em) (evp : List Bytes) : Prop where
  sound : ∀ em ∈ E, ∃ k ∈ K, c.pfx <+: k ∧ after c.pfx c.delim c.marker k = true ∧
      entry c.pfx c.delim k = toEntry em ∧
      (∀ o mk, em = .obj o mk → mk = k ∧ o.key = k ∧ c.getObj k = some (o.size, o.etag))
  complete : ∀ k ∈ K, c.pfx <+: k → after c.pfx c.delim c.marker k = true →
      ∃ em ∈ E, toEntry em = entry c.pfx c.delim k
  names : (E.map Em.name).Sublist evp

theorem Good.nil (c : Cfg) (evp : List Bytes) : Good c [] [] evp :=
  ⟨by simp, by simp, by simp⟩

theorem Good.append {c : Cfg} {K1 K2 : List Bytes} {E1 E2 : List Em} {ev1 ev2 : List Bytes}
    (h1 : Good c K1 E1 ev1) (h2 : Good c K2 E2 ev2) : Good c (K1 ++ K2) (E1 ++ E2) (ev1 ++ ev2) := by
  refine ⟨?_, ?_, ?_⟩
  · intro em hem
    rcases List.mem_append.1 hem with h | h
    · obtain ⟨k, hk, r⟩ := h1.sound em h
      exact ⟨k, List.mem_append.2 (Or.inl hk), r⟩
    · obtain ⟨k, hk, r⟩ := h2.sound em h
      exact ⟨k, List.mem_append.2 (Or.inr hk), r⟩
  · intro k hk hp ha
    rcases List.mem_append.1 hk with h | h
    · obtain ⟨em, hem, r⟩ := h1.complete k h hp ha
      exact ⟨em, List.mem_append.2 (Or.inl hem), r⟩
    · obtain ⟨em, hem, r⟩ := h2.complete k h hp ha
      exact ⟨em, List.mem_append.2 (Or.inr hem), r⟩
  · rw [List.map_append]
    exact List.Sublist.append h1.names h2.names

theorem Good.cons_ev {c : Cfg} {K : List Bytes} {E : List Em} {evp : List Bytes} (p : Bytes)
    (h : Good c K E evp) : Good c K E (p :: evp) :=
  ⟨h.sound, h.complete, List.Sublist.cons p h.names⟩

/-! ### keys -/

theorem keysNode_file (g : GetObj) (skip : List Bytes) (b n : Bytes) :
    keysNode g skip b (.file n) = if (g (b ++ n)).isSome then [b ++ n] else [] := by
  simp [keysNode]

theorem keysNode_dir (g : GetObj) (skip : List Bytes) (b n : Bytes) (cs : List Tree) :
    keysNode g skip b (.dir n cs) = if (b ++ n) ∈ skip then [] else
      (if (g (b ++ n ++ [slash])).isSome then [b ++ n ++ [slash]] else []) ++ keysList g skip (b ++ n ++ [slash]) cs := by
  simp [keysNode]

theorem keysList_cons (g : GetObj) (skip : List Bytes) (b : Bytes) (t : Tree) (ts : List Tree) :
    keysList g skip b (t :: ts) = keysNode g skip b t ++ keysList g skip b ts := by
  simp [keysList]

mutual
theorem keysNode_prefix (g : GetObj) (skip : List Bytes) : ∀ (t : Tree) (b k : Bytes),
    k ∈ keysNode g skip b t → (b ++ t.name) <+: k
  | .file n, b, k, h => by
    rw [keysNode_file] at h
    split at h
    · simp at h; rw [h]; exact List.prefix_refl _
    · simp at h
  | .dir n cs, b, k, h => by
    rw [keysNode_dir] at h
    split at h; · simp at h
    rcases List.mem_append.1 h with h | h
    · split at h
      · simp at h; rw [h]; exact ⟨[slash], by simp [Tree.name]⟩
      · simp at h
    · have := keysList_prefix g skip cs _ k h
      exact (List.prefix_append _ _).trans (by simpa [Tree.name] using this)
theorem keysList_prefix (g : GetObj) (skip : List Bytes) : ∀ (ts : List Tree) (b k : Bytes),
    k ∈ keysList g skip b ts → b <+: k
  | [], _, _, h => by simp [keysList] at h
  | t :: ts, b, k, h => by
    rw [keysList_cons] at h
    rcases List.mem_append.1 h with h | h
    · exact (List.prefix_append _ _).trans (keysNode_prefix g skip t b k h)
    · exact keysList_prefix g skip ts b k h
end

theorem populatedList_cons (g : GetObj) (skip : List Bytes) (b : Bytes) (t : Tree) (ts : List Tree) :
    populatedList g skip b (t :: ts) = true ↔ populatedNode g skip b t = true ∧ populatedList g skip b ts = true := by
  simp [populatedList]

/-! ### the three kinds of nodes -/

theorem good_file (c : Cfg) (h : Hyp c) (b n : Bytes) (hn : slash ∉ n) (hb : BaseOK c b) :
    Good c (keysNode c.getObj c.skip b (.file n)) (emsOf c (visNode c b (.file n))) (eventsNode b (.file n)) := by
  have hvis : visNode c b (.file n) = [⟨b ++ n, n, false, true⟩] := by simp [visNode]
  have hev : eventsNode b (.file n) = [b ++ n] := by simp [eventsNode]
  rw [hvis, hev, emsOf_cons, emsOf_nil, List.append_nil, em_file c h b n hn hb, keysNode_file]
  · -- facts about the key `b ++ n` when it carries the prefix
    have hent : c.pfx <+: b ++ n → entry c.pfx c.delim (b ++ n) = .obj (b ++ n) := by
      intro hP
      rcases h.delim with hd | hd
      · rw [hd]; exact entry_nil _ _
      · obtain ⟨x, hx, hxs⟩ := suffix_no_slash c.pfx b n (hb hd) hn hP
        rw [hx, hd]
        exact entry_append_none _ _ _ (cut_slash_none x hxs)
    have hncp : c.pfx <+: b ++ n → isCPName c.pfx c.delim c.marker = true → ¬ c.marker <+: b ++ n := by
      intro hP hcp hm
      obtain ⟨hD, x', hM, _⟩ := isCPName_spec _ _ _ hcp
      rcases h.delim with hd | hd
      · exact hD hd
      · obtain ⟨x, hx, hxs⟩ := suffix_no_slash c.pfx b n (hb hd) hn hP
        rw [hx, hM, hd, List.append_assoc, List.prefix_append_right_inj] at hm
        obtain ⟨t, ht⟩ := hm
        apply hxs
        rw [← ht]; simp
    cases hg : c.getObj (b ++ n) with
    | none =>
      simp only [Option.isSome_none, Bool.false_eq_true, if_false, Option.map_none]
      have : (if (c.marker = [] ∨ blt c.marker (b ++ n) = true) ∧ c.pfx <+: b ++ n then (none : Option Em) else none) = none := by
        split <;> rfl
      rw [this]; exact Good.nil c _
    | some m =>
      simp only [Option.isSome_some, if_true, Option.map_some]
      by_cases hc : (c.marker = [] ∨ blt c.marker (b ++ n) = true) ∧ c.pfx <+: b ++ n
      · rw [if_pos hc]
        refine ⟨?_, ?_, ?_⟩
        · intro em hem
          have hem' : em = Em.obj ⟨b ++ n, m.1, m.2⟩ (b ++ n) := by simpa using hem
          subst hem'
          refine ⟨b ++ n, by simp, hc.2, ?_, ?_, ?_⟩
          · rw [after_iff]
            rcases hc.1 with e | e
            · exact Or.inl e
            · exact Or.inr ⟨e, fun hh => hncp hc.2 hh.1 hh.2⟩
          · rw [hent hc.2]; rfl
          · intro o mk he
            simp at he
            obtain ⟨rfl, rfl⟩ := he
            exact ⟨rfl, rfl, hg⟩
        · intro k hk hP _
          simp at hk; subst hk
          exact ⟨Em.obj ⟨b ++ n, m.1, m.2⟩ (b ++ n), by simp, by rw [hent hP]; rfl⟩
        · simp [Em.name, toEntry, Entry.name]
      · rw [if_neg hc]
        refine ⟨by simp, ?_, by simp⟩
        intro k hk hP ha
        simp at hk; subst hk
        exfalso; apply hc
        refine ⟨?_, hP⟩
        rcases (after_iff _ _ _ _).1 ha with e | ⟨e, _⟩
        · exact Or.inl e
        · exact Or.inr e

/-- a rolled-up directory: one common prefix for all the keys below it -/
theorem good_dir_rolled (c : Cfg) (h : Hyp c) (b n : Bytes) (cs : List Tree) (hn : slash ∉ n)
    (hs : (b ++ n) ∉ c.skip) (hb : BaseOK c b)
    (hpop : keysList c.getObj c.skip (b ++ n ++ [slash]) cs ≠ [])
    (hmc : ∀ k ∈ keysList c.getObj c.skip (b ++ n ++ [slash]) cs, MC c k)
    (h2 : rolledUp c (b ++ n ++ [slash])) :
    Good c (keysNode c.getObj c.skip b (.dir n cs)) (emsOf c (visNode c b (.dir n cs))) (eventsNode b (.dir n cs)) := by
  have hd := h2.1
  have h1 : ¬ prefixPruned c (b ++ n ++ [slash]) := fun hh => hh.1 h2.2.1
  have hfl := (flagOf_dir c h (b ++ n) n cs.isEmpty hs).1 (Or.inr h2)
  have hvis : visNode c b (.dir n cs) = [⟨b ++ n, n, true, cs.isEmpty⟩] := by
    simp [visNode, hfl]
  have hPa : c.pfx <+: b ++ n := prefix_of_prefix_concat _ _ _ h2.2.1 (Ne.symm h2.2.2)
  obtain ⟨x, hx, hxs⟩ := suffix_no_slash c.pfx b n (hb hd) hn hPa
  have hK : keysNode c.getObj c.skip b (.dir n cs) = keysList c.getObj c.skip (b ++ n ++ [slash]) cs := by
    rw [keysNode_dir, if_neg hs, h.noDirObj]; simp
  have hev : eventsNode b (.dir n cs) = (b ++ n ++ [slash]) :: eventsList (b ++ n ++ [slash]) cs := by
    simp [eventsNode]
  rw [hvis, hK, hev, emsOf_cons, emsOf_nil, List.append_nil, em_dir_rolled c h (b ++ n) n _ hs h1 h2 x hx hxs]
  -- every key below is rolled up into `b ++ n ++ "/"`
  have hkey : ∀ k ∈ keysList c.getObj c.skip (b ++ n ++ [slash]) cs,
      (b ++ n ++ [slash]) <+: k ∧ entry c.pfx c.delim k = .cp (b ++ n ++ [slash]) ∧
      cut c.delim (k.drop c.pfx.length) = some x := by
    intro k hk
    have hp := keysList_prefix _ _ cs _ k hk
    obtain ⟨t, ht⟩ := hp
    have hk' : k = c.pfx ++ (x ++ slash :: t) := by rw [← ht, hx]; simp
    have hcut : cut c.delim (x ++ slash :: t) = some x := by rw [hd]; exact cut_slash_some x t hxs
    refine ⟨⟨t, ht⟩, ?_, ?_⟩
    · rw [hk', entry_append_some _ _ _ x (by rw [hd]; simp) hcut, hd, hx]
    · rw [hk']; simp only [List.drop_left']; exact hcut
  have hcpn : isCPName c.pfx c.delim (b ++ n ++ [slash]) = true := by
    have := isCPName_of_cut c.pfx c.delim (x ++ [slash]) x (by rw [hd]; simp) (by rw [hd]; exact cut_slash_some x [] hxs)
    rw [hd] at this ⊢
    rw [hx]; exact this
  have hPk : ∀ k, (b ++ n ++ [slash]) <+: k → c.pfx <+: k := fun k hk => h2.2.1.trans hk
  by_cases hc : c.marker = [] ∨ (blt c.marker (b ++ n ++ [slash]) = true ∧ ¬ (b ++ n) <+: c.marker)
  · rw [if_pos hc]
    refine ⟨?_, ?_, ?_⟩
    · intro em hem
      have hem' : em = Em.cp (b ++ n ++ [slash]) := by simpa using hem
      subst hem'
      obtain ⟨k, hk⟩ := List.exists_mem_of_ne_nil _ hpop
      obtain ⟨hpk, hek, _⟩ := hkey k hk
      refine ⟨k, hk, hPk k hpk, ?_, by rw [hek]; rfl, by intro o mk he; cases he⟩
      rw [after_iff]
      rcases hc with e | ⟨e1, e2⟩
      · exact Or.inl e
      · right
        refine ⟨blt_of_blt_of_ble _ _ _ e1 (ble_of_prefix _ _ hpk), ?_⟩
        rintro ⟨hcp, hmk⟩
        -- the marker would be a proper prefix of `b ++ n`, yet a common-prefix name
        rcases List.prefix_or_prefix_of_prefix hmk hpk with hh | hh
        · have hne : c.marker ≠ b ++ n ++ [slash] := blt_ne _ _ e1
          have hma : c.marker <+: b ++ n := prefix_of_prefix_concat _ _ _ hh hne
          obtain ⟨hD, x', hM, _⟩ := isCPName_spec _ _ _ hcp
          rw [hx, hM, hd, List.append_assoc, List.prefix_append_right_inj] at hma
          obtain ⟨t, ht⟩ := hma
          apply hxs; rw [← ht]; simp
        · have h' := ble_of_prefix _ _ hh
          rw [ble, e1] at h'; cases h'
    · intro k hk hP _
      exact ⟨Em.cp (b ++ n ++ [slash]), by simp, by rw [(hkey k hk).2.1]; rfl⟩
    · simp [Em.name, toEntry, Entry.name]
  · rw [if_neg hc]
    refine ⟨by simp, ?_, by simp⟩
    intro k hk hP ha
    exfalso; apply hc
    obtain ⟨hpk, _, hcut⟩ := hkey k hk
    obtain ⟨t, ht⟩ := hpk
    rcases (after_iff _ _ _ _).1 ha with e | ⟨e1, e2⟩
    · exact Or.inl e
    · right
      have hne : c.marker ≠ [] := by
        intro e; rw [e] at e1
        have : k ≠ [] := by rw [← ht]; simp
        -- blt [] k holds, nothing to refute; use the other disjunct instead
        exact hc (Or.inl e)
      have hmc' := hmc k hk hne (by rw [hd]; simp) hP x hcut
      rw [← hx, hd] at hmc'
      have hna : ¬ (b ++ n) <+: c.marker := by
        intro hpa
        obtain ⟨m1, m2⟩ := hmc' hpa
        by_cases heq : b ++ n ++ [slash] = c.marker
        · exact e2 ⟨heq ▸ hcpn, heq ▸ ⟨t, ht⟩⟩
        · have hnp : ¬ (b ++ n ++ [slash]) <+: c.marker := fun hp => heq (m2 hp)
          have hlt : blt (b ++ n ++ [slash]) c.marker = true := by
            rcases (ble_iff _ _).1 m1 with e | e
            · exact absurd e heq
            · exact e
          have := blt_append_of_blt_not_prefix _ _ hlt hnp t
          rw [ht] at this
          rw [blt_asymm _ _ this] at e1; cases e1
      refine ⟨?_, hna⟩
      rcases blt_trichotomy c.marker (b ++ n ++ [slash]) with e | e | e
      · exact e
      · exact absurd ⟨e ▸ hcpn, e ▸ ⟨t, ht⟩⟩ e2
      · exfalso
        by_cases hp : (b ++ n ++ [slash]) <+: c.marker
        · exact hna ((List.prefix_append _ _).trans hp)
        · have := blt_append_of_blt_not_prefix _ _ e hp t
          rw [ht] at this
          rw [blt_asymm _ _ this] at e1; cases e1

/-! ### the induction over the tree -/

mutual
theorem good_node (c : Cfg) (h : Hyp c) : ∀ (t : Tree) (b : Bytes), wfNode t = true →
    populatedNode c.getObj c.skip b t = true → BaseOK c b →
    (∀ k ∈ keysNode c.getObj c.skip b t, MC c k) →
    Good c (keysNode c.getObj c.skip b t) (emsOf c (visNode c b t)) (eventsNode b t)
  | .file n, b, hw, _, hb, _ => by
    have hv : validName n = true := by simpa [wfNode] using hw
    exact good_file c h b n (validName_no_slash n hv) hb
  | .dir n cs, b, hw, hpop, hb, hmc => by
    have hw' := (wfNode_dir n cs).1 hw
    have hns := validName_no_slash n hw'.1
    have hev : eventsNode b (.dir n cs) = (b ++ n ++ [slash]) :: eventsList (b ++ n ++ [slash]) cs := by
      simp [eventsNode]
    by_cases hs : (b ++ n) ∈ c.skip
    · -- internal bookkeeping directory: skipped, and nothing below it is a key
      have hvis : visNode c b (.dir n cs) = [⟨b ++ n, n, true, cs.isEmpty⟩] := by
        simp [visNode, flagOf_skip c _ n _ hs]
      rw [hvis, keysNode_dir, if_pos hs, emsOf_cons, emsOf_nil, em_skip c _ n _ hs]
      exact Good.nil c _
    · have hK : keysNode c.getObj c.skip b (.dir n cs) = keysList c.getObj c.skip (b ++ n ++ [slash]) cs := by
        rw [keysNode_dir, if_neg hs, h.noDirObj]; simp
      have hpop' : keysList c.getObj c.skip (b ++ n ++ [slash]) cs ≠ [] ∧
          populatedList c.getObj c.skip (b ++ n ++ [slash]) cs = true := by
        have hs' : c.skip.contains (b ++ n) = false := by simpa using hs
        simp only [populatedNode, hs', Bool.false_or, Bool.and_eq_true, Bool.not_eq_true'] at hpop
        rw [hK] at hpop
        exact ⟨by simpa using hpop.1, hpop.2⟩
      by_cases h2 : rolledUp c (b ++ n ++ [slash])
      · exact good_dir_rolled c h b n cs hns hs hb hpop'.1 (fun k hk => hmc k (by rw [hK]; exact hk)) h2
      · by_cases h1 : prefixPruned c (b ++ n ++ [slash])
        · -- nothing below can carry the prefix
          have hfl := (flagOf_dir c h (b ++ n) n cs.isEmpty hs).1 (Or.inl h1)
          have hvis : visNode c b (.dir n cs) = [⟨b ++ n, n, true, cs.isEmpty⟩] := by
            simp [visNode, hfl]
          rw [hvis, hK, emsOf_cons, emsOf_nil, em_dir_pruned c _ n _ h1]
          refine ⟨by simp, ?_, by simp⟩
          intro k hk hP _
          exfalso
          have hpk := keysList_prefix _ _ cs _ k hk
          rcases List.prefix_or_prefix_of_prefix hP hpk with hh | hh
          · exact h1.1 hh
          · exact h1.2 hh
        · have hfl := (flagOf_dir c h (b ++ n) n cs.isEmpty hs).2 h1 h2
          have hvis : visNode c b (.dir n cs) =
              ⟨b ++ n, n, true, cs.isEmpty⟩ :: visList c (b ++ n ++ [slash]) cs := by
            simp [visNode, hfl]
          rw [hvis, hK, hev, emsOf_cons, em_dir_descend c h _ n _ hs h1 h2]
          have hb' : BaseOK c (b ++ n ++ [slash]) := by
            intro hd hp
            apply Classical.byContradiction
            intro hne
            exact h2 ⟨hd, hp, hne⟩
          have ih := good_list c h cs (b ++ n ++ [slash]) hw'.2 hpop'.2 hb'
            (fun k hk => hmc k (by rw [hK]; exact hk))
          exact Good.cons_ev _ ih
theorem good_list (c : Cfg) (h : Hyp c) : ∀ (ts : List Tree) (b : Bytes), wfList ts = true →
    populatedList c.getObj c.skip b ts = true → BaseOK c b →
    (∀ k ∈ keysList c.getObj c.skip b ts, MC c k) →
    Good c (keysList c.getObj c.skip b ts) (emsOf c (visList c b ts)) (eventsList b ts)
  | [], b, _, _, _, _ => by
    simp only [keysList, visList, eventsList]
    exact Good.nil c _
  | t :: ts, b, hw, hpop, hb, hmc => by
    have hw' := (wfList_cons t ts).1 hw
    have hpop' := (populatedList_cons _ _ b t ts).1 hpop
    have hv : visList c b (t :: ts) = visNode c b t ++ visList c b ts := by simp [visList]
    have he : eventsList b (t :: ts) = eventsNode b t ++ eventsList b ts := by simp [eventsList]
    rw [keysList_cons, hv, he, emsOf_append]
    exact Good.append
      (good_node c h t b hw'.1 hpop'.1 hb (fun k hk => hmc k (by rw [keysList_cons]; exact List.mem_append.2 (Or.inl hk))))
      (good_list c h ts b hw'.2.2 hpop'.2 hb (fun k hk => hmc k (by rw [keysList_cons]; exact List.mem_append.2 (Or.inr hk))))
end

end Vgw.Model.Walk
