/-
  The signed reader and the way io.EOF arrives: together with the last bytes or on its own.
-/
import Vgw.Lemmas.ChunkMerge
namespace Vgw.Lemmas.ChunkEof
open Vgw Vgw.Model Vgw.Model.ChunkSigned Vgw.Lemmas.ChunkParse Vgw.Lemmas.ChunkMerge

/-- how the result of `parseAndRemoveChunkInfo` with io.EOF pending (`rT`) relates to the result
without (`rF`): the same — or the header parser ran out of input, which is an error at once in one
case and a stashed partial header in the other -/
def EofRel (rF rT : Res) : Prop :=
  (rT.2 = rF.2 ∧ (rF.2.status = .nil → rT.1 = setE true rF.1)) ∨
  (rF.2.status = .nil ∧ rT.2 = ⟨rF.2.out, .err .invalidFormat⟩ ∧ rF.1.chunkDataLeft = 0)

theorem EofRel.prepend {rF rT : Res} (h : EofRel rF rT) (d : Bytes) : EofRel (prepend d rF) (prepend d rT) := by
  rcases h with ⟨h1, h2⟩ | ⟨h1, h2, h3⟩
  · left
    unfold ChunkSigned.prepend
    rw [h1]
    cases hs : rF.2.status <;> simp_all
  · right
    unfold ChunkSigned.prepend
    rw [h1, h2]
    simp [h3]

theorem par_eof_mode (cfg : Cfg) : ∀ (f : Nat) (st : State) (p : Bytes), st.isEOF = false →
    ((p.length : Int) ≤ intMax) →
    EofRel (parseAndRemove cfg f st p) (parseAndRemove cfg f (setE true st) p) := by
  intro f
  induction f with
  | zero => intro st p _ _; left; simp [parseAndRemove]
  | succ f ih =>
    intro st p hE hmax
    simp only [parseAndRemove]
    unfold parStep
    simp only
    rw [checked_setE]
    cases hchk : (if st.parsedSig ≠ [] then checkSignature cfg st else Except.ok st) with
    | error x => left; simp [Except.map]
    | ok stc =>
      simp only [Except.map]
      obtain ⟨_, _, _, hes⟩ := checked_facts cfg st stc hchk
      have hEc : stc.isEOF = false := hes.trans hE
      by_cases hnm : parseHeader cfg stc.isFirstHeader (stc.stash ++ p) = .error (.rd .eof)
      · by_cases hl : stc.stash.length ≤ maxHeaderSize
        · right
          have hh := hdr_needMore cfg stc p hl hEc hnm
          have hL : parBody cfg (parseAndRemove cfg f) stc p =
              ({ stc with stash := stc.stash ++ p, chunkDataLeft := 0 }, ⟨[], .nil⟩) := by
            unfold parBody; rw [hh]
          have hR : (parBody cfg (parseAndRemove cfg f) (setE true stc) p).2 = ⟨[], .err .invalidFormat⟩ := by
            unfold parBody parseChunkHeaderBytes
            have : ¬ stc.stash.length > maxHeaderSize := by omega
            simp [setE, this, hnm, handleRdrErr]
          rw [hL]
          exact ⟨rfl, hR, rfl⟩
        · left
          have hbad : ∀ (s : State), s.stash = stc.stash →
              (parBody cfg (parseAndRemove cfg f) s p).2 = ⟨[], .err .invalidFormat⟩ := by
            intro s hs
            unfold parBody parseChunkHeaderBytes
            have : s.stash.length > maxHeaderSize := by rw [hs]; omega
            simp [this]
          refine ⟨(hbad (setE true stc) rfl).trans (hbad stc rfl).symm, ?_⟩
          intro h; rw [hbad stc rfl] at h; simp at h
      · obtain ⟨hdec, hoffle, hnoskip⟩ := hdr_decided cfg true stc p [] hnm
        rw [List.append_nil] at hdec
        cases hh : parseChunkHeaderBytes cfg stc p with
        | mk st2 res =>
        rw [hh] at hdec hoffle hnoskip
        simp only at hdec hoffle hnoskip
        have hE2 : st2.isEOF = false := by
          have := (hdr_fields cfg stc p).1
          rw [hh] at this
          exact this.trans hEc
        cases res with
        | skip => exact absurd rfl hnoskip
        | fail x =>
          left
          have h1 : parBody cfg (parseAndRemove cfg f) stc p = (st2, ⟨[], .err x⟩) := by unfold parBody; rw [hh]
          have h2 : parBody cfg (parseAndRemove cfg f) (setE true stc) p = (setE true st2, ⟨[], .err x⟩) := by
            unfold parBody; rw [hdec]
          rw [h1, h2]; simp
        | chunk size sig off =>
          by_cases hsig : sig = []
          · subst hsig
            left
            rw [parBody_nosig cfg _ stc st2 p size off hh, parBody_nosig cfg _ (setE true stc) (setE true st2) p size off hdec]
            simp
          by_cases hz : size = 0
          · subst hz
            left
            have h1 : parBody cfg (parseAndRemove cfg f) stc p = finalChunk cfg { st2 with parsedSig := sig } :=
              parBody_final cfg _ stc st2 p sig off hh hsig
            have h2 : parBody cfg (parseAndRemove cfg f) (setE true stc) p =
                finalChunk cfg (setE true { st2 with parsedSig := sig }) :=
              parBody_final cfg _ (setE true stc) (setE true st2) p sig off hdec hsig
            rw [h1, h2]
            exact ⟨finalChunk_out_setE cfg true _, fun h => absurd h (finalChunk_not_nil cfg _)⟩
          · rw [parBody_chunk cfg _ stc st2 p sig size off hh hsig hz,
              parBody_chunk cfg _ (setE true stc) (setE true st2) p sig size off hdec hsig hz]
            have e1 : ({ setE true st2 with parsedSig := sig } : State) = setE true { st2 with parsedSig := sig } := rfl
            rw [e1]
            generalize hsL : ({ st2 with parsedSig := sig } : State) = sL
            have hsLE : sL.isEOF = false := by rw [← hsL]; exact hE2
            unfold cont
            by_cases hpan : off < 0 ∨ (p.length : Int) < off
            · left; simp [hpan]
            · simp only [hpan, if_false]
              by_cases hgt : ((List.drop off.toNat p).length : Int) > size
              · simp only [hgt, if_true]
                by_cases hsn : size < 0
                · left; simp [hsn]
                · simp only [hsn, if_false]
                  have hst : hashWrite cfg { setE true sL with chunkDataLeft := 0 } (List.take size.toNat (List.drop off.toNat p)) =
                      setE true (hashWrite cfg { sL with chunkDataLeft := 0 } (List.take size.toNat (List.drop off.toNat p))) := rfl
                  rw [hst]
                  have hlen : (List.drop size.toNat (List.drop off.toNat p)).length ≤ p.length := by simp only [List.length_drop]; omega
                  have := ih (hashWrite cfg { sL with chunkDataLeft := 0 } (List.take size.toNat (List.drop off.toNat p)))
                    (List.drop size.toNat (List.drop off.toNat p)) hsLE (by omega)
                  have g1 := par_out_le cfg f (hashWrite cfg { sL with chunkDataLeft := 0 } (List.take size.toNat (List.drop off.toNat p)))
                    (List.drop size.toNat (List.drop off.toNat p))
                  have g2 := par_out_le cfg f (setE true (hashWrite cfg { sL with chunkDataLeft := 0 } (List.take size.toNat (List.drop off.toNat p))))
                    (List.drop size.toNat (List.drop off.toNat p))
                  simp only [List.length_drop] at g1 g2 hgt
                  rw [joinRec_eq_prepend _ _ _ (by omega), joinRec_eq_prepend _ _ _ (by omega)]
                  exact this.prepend _
              · left
                simp only [hgt, if_false]
                simp
                rfl

theorem read_end_setE (cfg : Cfg) (st : State) :
    ChunkSigned.read cfg (setE true st) [] true 0 = ChunkSigned.read cfg st [] true 0 := by
  unfold ChunkSigned.read setE
  simp

theorem read_end_data (cfg : Cfg) (st : State) (h : 0 ≤ st.chunkDataLeft) :
    (ChunkSigned.read cfg st [] true 0).2 = ⟨[], .err .unexpectedEOF⟩ := by
  rw [read_data cfg st [] true 0 (by simpa using h)]
  simp

/-- **io.EOF with the last bytes or after them**: the bytes handed out are the same, and so is the
outcome — except that a stream ending inside a chunk header is refused with errInvalidChunkFormat
in one case and with io.ErrUnexpectedEOF in the other. -/
theorem oneshot_eof_mode (cfg : Cfg) (st : State) (s : Bytes) (hs : s ≠ []) (hmax : (s.length : Int) ≤ intMax) :
    (runFrom cfg st [(s, true)] []).1 = (runFrom cfg st [(s, false)] []).1 ∧
    ((runFrom cfg st [(s, true)] []).2 = (runFrom cfg st [(s, false)] []).2 ∨
     ((runFrom cfg st [(s, true)] []).2 = .err .invalidFormat ∧ (runFrom cfg st [(s, false)] []).2 = .err .unexpectedEOF)) := by
  have hslen : 0 < s.length := List.length_pos_iff.2 hs
  rw [runFrom_cons, runFrom_cons]
  by_cases hneg : st.chunkDataLeft < 0
  · have h1 : ∀ b : Bool, (ChunkSigned.read cfg st s b s.length).2 = ⟨[], .panic⟩ := by
      intro b
      unfold ChunkSigned.read
      have c : st.chunkDataLeft < (s.length : Int) := by omega
      simp [c, hneg]
    unfold tail
    rw [h1 true, h1 false]
    simp
  · by_cases hin : st.chunkDataLeft < (s.length : Int)
    · rw [read_hdr cfg st s true s.length (by omega) hin, read_hdr cfg st s false s.length (by omega) hin]
      generalize hS : (if st.chunkDataLeft > 0 then hashWrite cfg (setE false st) (List.take st.chunkDataLeft.toNat s)
        else setE false st) = S
      have hS2 : (if st.chunkDataLeft > 0 then hashWrite cfg (setE true st) (List.take st.chunkDataLeft.toNat s)
          else setE true st) = setE true S := by
        rw [← hS]; split <;> rfl
      rw [hS2]
      have hSe : S.isEOF = false := by rw [← hS]; split <;> rfl
      have hrel := (par_eof_mode cfg (s.length + 1) S (List.drop st.chunkDataLeft.toNat s) hSe
        (by simp only [List.length_drop]; omega)).prepend (List.take st.chunkDataLeft.toNat s)
      generalize ChunkSigned.prepend (List.take st.chunkDataLeft.toNat s)
        (parseAndRemove cfg (s.length + 1) S (List.drop st.chunkDataLeft.toNat s)) = rF at hrel
      generalize ChunkSigned.prepend (List.take st.chunkDataLeft.toNat s)
        (parseAndRemove cfg (s.length + 1) (setE true S) (List.drop st.chunkDataLeft.toNat s)) = rT at hrel
      rcases hrel with ⟨h1, h2⟩ | ⟨h1, h2, h3⟩
      · have : tail cfg rT [] [] = tail cfg rF [] [] := by
          unfold tail
          rw [h1]
          cases hst : rF.2.status with
          | nil =>
            simp only
            rw [h2 hst]
            simp only [runFrom]
            rw [read_end_setE]
          | _ => simp
        rw [this]
        exact ⟨rfl, Or.inl rfl⟩
      · have hT : tail cfg rT [] [] = (rF.2.out, .err .invalidFormat) := by
          unfold tail; rw [h2]; simp
        have hF : tail cfg rF [] [] = (rF.2.out, .err .unexpectedEOF) := by
          unfold tail
          rw [h1]
          simp only [runFrom]
          have := read_end_data cfg rF.1 (by omega)
          generalize ChunkSigned.read cfg rF.1 [] true 0 = r at this
          obtain ⟨st', o⟩ := r
          simp only at this
          subst this
          simp
        rw [hT, hF]
        exact ⟨rfl, Or.inr ⟨rfl, rfl⟩⟩
    · rw [read_data cfg st s true s.length (by omega), read_data cfg st s false s.length (by omega)]
      simp only [tail, if_true, Bool.false_eq_true, if_false, runFrom]
      have := read_end_data cfg (hashWrite cfg { setE false st with chunkDataLeft := st.chunkDataLeft - (s.length : Int) } s)
        (by show 0 ≤ st.chunkDataLeft - (s.length : Int); omega)
      generalize ChunkSigned.read cfg (hashWrite cfg { setE false st with chunkDataLeft := st.chunkDataLeft - (s.length : Int) } s)
        [] true 0 = r at this
      obtain ⟨st', o⟩ := r
      simp only at this
      subst this
      simp

end Vgw.Lemmas.ChunkEof
