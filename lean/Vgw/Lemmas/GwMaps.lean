import Vgw.Model.Gw.Step
namespace Vgw.Model.Gw
open Vgw

theorem beq_bytes_refl (a : Bytes) : (a == a) = true := by simp

theorem find_insertBucket (bs : List Bucket) (b : Bucket) :
    (insertBucket bs b).find? (·.name == b.name) = some b := by
  induction bs with
  | nil => simp [insertBucket]
  | cons x xs ih =>
    unfold insertBucket
    split
    · simp
    · rename_i hne
      split
      · simp
      · simp only [List.find?_cons]
        have : (x.name == b.name) = false := by simpa using hne
        rw [this]; exact ih

theorem findBucket_setBucket (s : State) (b : Bucket) : findBucket (setBucket s b) b.name = some b := by
  unfold findBucket setBucket; exact find_insertBucket s.buckets b

theorem find_insertBucket_ne (bs : List Bucket) (b : Bucket) (n : Bytes) (h : (b.name == n) = false) :
    (insertBucket bs b).find? (·.name == n) = bs.find? (·.name == n) := by
  induction bs with
  | nil => simp [insertBucket, h]
  | cons x xs ih =>
    unfold insertBucket
    split
    · rename_i heq
      have hx : (x.name == n) = false := by
        have : x.name = b.name := by simpa using heq
        rw [this]; exact h
      simp [List.find?_cons, h, hx]
    · split
      · simp [List.find?_cons, h]
      · simp only [List.find?_cons]
        split
        · rfl
        · exact ih

/-- other buckets are untouched by an update of bucket `b` -/
theorem findBucket_setBucket_ne (s : State) (b : Bucket) (n : Bytes) (h : (b.name == n) = false) :
    findBucket (setBucket s b) n = findBucket s n := by
  unfold findBucket setBucket; exact find_insertBucket_ne s.buckets b n h

theorem kvFind_kvInsert {α} (m : List (Bytes × α)) (k : Bytes) (v : α) : kvFind (kvInsert m k v) k = some v := by
  induction m with
  | nil => simp [kvInsert, kvFind]
  | cons x xs ih =>
    obtain ⟨k', v'⟩ := x
    unfold kvInsert
    split
    · simp [kvFind]
    · rename_i hne
      split
      · simp [kvFind]
      · have : (k' == k) = false := by simpa using hne
        simp only [kvFind, List.find?_cons, this]
        simpa [kvFind] using ih

theorem findBucket_name (s : State) (b : Bytes) (bk : Bucket) (h : findBucket s b = some bk) : bk.name = b := by
  unfold findBucket at h
  have := List.find?_some h
  simpa using this

end Vgw.Model.Gw
