import Vgw.Model.Gw.Step
namespace Vgw.Model.Gw
open Vgw

@[simp] theorem vstatus_beq (a b : VStatus) : (a == b) = decide (a = b) := by
  cases a <;> cases b <;> rfl

@[simp] theorem vstatus_bne (a b : VStatus) : (a != b) = !decide (a = b) := by
  cases a <;> cases b <;> rfl

theorem beq_bytes_refl (a : Bytes) : (a == a) = true := by simp

theorem find_insertBucket (bs : List Bucket) (b : Bucket) :
    (insertBucket bs b).find? (·.name == b.name) = some b := by
  induction bs with
  | nil => simp [insertBucket]
  | cons x xs ih =>
    unfold insertBucket
    split
    · simp
    · rename_i hne
      split
      · simp
      · simp only [List.find?_cons]
        have : (x.name == b.name) = false := by simpa using hne
        rw [this]; exact ih

theorem findBucket_setBucket (s : State) (b : Bucket) : findBucket (setBucket s b) b.name = some b := by
  unfold findBucket setBucket; exact find_insertBucket s.buckets b

theorem find_set (s : State) (x : Bucket) (b : Bytes) (h : x.name = b) : findBucket (setBucket s x) b = some x :=
  h ▸ findBucket_setBucket s x

theorem find_insertBucket_ne (bs : List Bucket) (b : Bucket) (n : Bytes) (h : (b.name == n) = false) :
    (insertBucket bs b).find? (·.name == n) = bs.find? (·.name == n) := by
  induction bs with
  | nil => simp [insertBucket, h]
  | cons x xs ih =>
    unfold insertBucket
    split
    · rename_i heq
      have hx : (x.name == n) = false := by
        have : x.name = b.name := by simpa using heq
        rw [this]; exact h
      simp [List.find?_cons, h, hx]
    · split
      · simp [List.find?_cons, h]
      · simp only [List.find?_cons]
        split
        · rfl
        · exact ih

/-- other buckets are untouched by an update of bucket `b` -/
theorem findBucket_setBucket_ne (s : State) (b : Bucket) (n : Bytes) (h : (b.name == n) = false) :
    findBucket (setBucket s b) n = findBucket s n := by
  unfold findBucket setBucket; exact find_insertBucket_ne s.buckets b n h

theorem kvFind_kvInsert {α} (m : List (Bytes × α)) (k : Bytes) (v : α) : kvFind (kvInsert m k v) k = some v := by
  induction m with
  | nil => simp [kvInsert, kvFind]
  | cons x xs ih =>
    obtain ⟨k', v'⟩ := x
    unfold kvInsert
    split
    · simp [kvFind]
    · rename_i hne
      split
      · simp [kvFind]
      · have : (k' == k) = false := by simpa using hne
        simp only [kvFind, List.find?_cons, this]
        simpa [kvFind] using ih

theorem versions_setVersions (bk : Bucket) (k : Bytes) (vs : List Ver) (h : vs ≠ []) :
    (bk.setVersions k vs).versions k = vs := by
  unfold Bucket.setVersions Bucket.versions
  have : vs.isEmpty = false := by cases vs <;> simp_all
  simp [this, kvFind_kvInsert]

theorem setVersions_name (bk : Bucket) (k : Bytes) (vs : List Ver) : (bk.setVersions k vs).name = bk.name := by
  unfold Bucket.setVersions; split <;> rfl

theorem setVersions_uploads (bk : Bucket) (k : Bytes) (vs : List Ver) : (bk.setVersions k vs).uploads = bk.uploads := by
  unfold Bucket.setVersions; split <;> rfl

theorem guarded_some_eq (c : Option String) (s : State) (k : Unit → State × Resp) (e : String) (h : c = some e) :
    guarded c s k = (s, errR e) := by subst h; rfl

theorem guarded_none_eq (c : Option String) (s : State) (k : Unit → State × Resp) (h : c = none) :
    guarded c s k = k () := by subst h; rfl

theorem guarded_cases (c : Option String) (s : State) (k : Unit → State × Resp) (P : State × Resp → Prop)
    (h1 : ∀ e, c = some e → P (s, errR e)) (h2 : c = none → P (k ())) : P (guarded c s k) := by
  cases c with
  | some e => exact h1 e rfl
  | none => exact h2 rfl

theorem find_eq_head_dropWhile {α} (p : α → Bool) (l : List α) :
    l.find? p = (l.dropWhile (fun x => !p x)).head? := by
  induction l with
  | nil => rfl
  | cons a as ih =>
    simp only [List.find?_cons, List.dropWhile_cons]
    cases p a <;> simp [ih]

/-- the version the per-version lock operations address -/
def target (bk : Bucket) (k vid : Bytes) : Option Ver :=
  if vid.isEmpty then (bk.versions k).head? else findVer (bk.versions k) vid

/-- if a per-version lock operation succeeds, its continuation ran on the addressed version -/
theorem withLockedVersion_ok (cfg : Cfg) (s : State) (bk : Bucket) (k vid : Bytes)
    (f : Ver → List Ver → List Ver → State × Resp)
    (hok : (withLockedVersion cfg s bk k vid f).2.code = "") :
    ∃ v rest pre, target bk k vid = some v ∧ (withLockedVersion cfg s bk k vid f) = f v rest pre := by
  unfold withLockedVersion at hok ⊢
  simp only at hok ⊢
  split at hok
  · exact absurd hok (errR_code_ne _)
  · split at hok
    · exact absurd hok (errR_code_ne _)
    · rename_i h1 h2
      simp only [h1, h2, if_false]
      split at hok
      · rename_i hvid
        simp only [hvid, if_true]
        cases hvs : bk.versions k with
        | nil => simp [hvs] at h1
        | cons v rest =>
          refine ⟨v, rest, [], ?_, rfl⟩
          simp [target, hvid, hvs]
      · rename_i hvid
        simp only [hvid, if_false]
        split at hok
        · exact absurd hok (errR_code_ne _)
        · rename_i hcv
          simp only [hcv, if_false]
          cases hdw : (bk.versions k).dropWhile (fun x => x.vid != reqVid vid) with
          | nil => simp only [hdw] at hok; exact absurd hok (errR_code_ne _)
          | cons v rest =>
            refine ⟨v, rest, _, ?_, rfl⟩
            have hv : vid.isEmpty = false := by simpa using hvid
            simp only [target, hv, Bool.false_eq_true, if_false, findVer]
            rw [find_eq_head_dropWhile]
            have h3 : (fun (x : Ver) => !(x.vid == reqVid vid)) = (fun x => x.vid != reqVid vid) := by
              funext x; rfl
            rw [h3, hdw]; rfl

theorem findBucket_name (s : State) (b : Bytes) (bk : Bucket) (h : findBucket s b = some bk) : bk.name = b := by
  unfold findBucket at h
  have := List.find?_some h
  simpa using this

end Vgw.Model.Gw
