/-
  Totality of the reader models: the fuel that `Read` supplies to the recursive / looping parts is
  always enough (`Status.fuel` is never produced).
-/
import Vgw.Lemmas.Chunked
namespace Vgw.Lemmas.Fuel
open Vgw Vgw.Model

theorem readLine_shorter : ∀ (s l r : Bytes), ChunkUnsigned.readLine s = some (l, r) → r.length < s.length := by
  intro s
  induction s with
  | nil => intro l r h; simp [ChunkUnsigned.readLine] at h
  | cons b cur ih =>
    intro l r h
    unfold ChunkUnsigned.readLine at h
    split at h
    · simp at h; rw [← h.2]; simp
    · split at h
      · rename_i l' r' heq
        simp at h
        have := ih l' r' heq
        rw [← h.2]; simp; omega
      · simp at h

theorem extract_shorter (s : Bytes) (v : Int) (r : Bytes) (h : ChunkUnsigned.extractChunkSize s = some (v, r)) :
    r.length < s.length := by
  unfold ChunkUnsigned.extractChunkSize at h
  split at h
  · simp at h
  · rename_i line rest heq
    split at h
    · simp at h
    · split at h
      · simp at h
      · simp at h; rw [← h.2]; exact readLine_shorter s line rest heq

theorem readAndSkip_le : ∀ (d s r : Bytes), readAndSkip d s = .ok r → r.length ≤ s.length := by
  intro d
  induction d with
  | nil => intro s r h; simp [readAndSkip] at h; rw [h]; omega
  | cons c cs ih =>
    intro s r h
    cases s with
    | nil => simp [readAndSkip] at h
    | cons b s =>
      unfold readAndSkip at h
      split at h
      · have := ih s r h; simp; omega
      · simp at h

theorem readTrailer_no_fuel (cfg : ChunkUnsigned.Cfg) (st : ChunkUnsigned.State) :
    (ChunkUnsigned.readTrailer cfg st).2 ≠ .fuel := by
  unfold ChunkUnsigned.readTrailer
  repeat' split
  all_goals (first | (simp; done) | (simp only []; split <;> simp))

/-- the fuel `Read` gives to the chunk loop is enough: every iteration consumes a size line -/
theorem loop_no_fuel (cfg : ChunkUnsigned.Cfg) (cap : Nat) :
    ∀ (fuel : Nat) (st : ChunkUnsigned.State) (acc : Bytes), st.input.length < fuel →
      (ChunkUnsigned.loop cfg cap fuel st acc).2.status ≠ .fuel := by
  intro fuel
  induction fuel with
  | zero => intro st acc h; omega
  | succ fuel ih =>
    intro st acc h
    rw [ChunkUnsigned.loop]
    split
    · simp
    · rename_i chunkSize rest hx
      have hlt := extract_shorter _ _ _ hx
      simp only
      split
      · have hnf := readTrailer_no_fuel cfg { st with input := rest }
        generalize ChunkUnsigned.readTrailer cfg { st with input := rest } = rt at hnf ⊢
        obtain ⟨st', s⟩ := rt
        cases s <;> simp_all
      · split
        · simp
        · split
          · simp
          · rename_i rest' hsk
            split
            · simp
            · apply ih
              have h1 : rest'.length ≤ (List.drop chunkSize.toNat rest).length := by
                unfold ChunkUnsigned.skipBytes at hsk
                split at hsk
                · rename_i r hr; simp at hsk; subst hsk; exact readAndSkip_le _ _ _ hr
                · simp at hsk
                · simp at hsk
              simp only [List.length_drop] at h1
              simp only
              omega

theorem finalChunk_no_fuel (cfg : ChunkSigned.Cfg) (st : ChunkSigned.State) :
    (ChunkSigned.finalChunk cfg st).2.status ≠ .fuel := by
  unfold ChunkSigned.finalChunk
  simp only
  cases ChunkSigned.checkSignature cfg { st with chunkAcc := [] } with
  | error e => simp
  | ok st' =>
    simp only
    split
    · cases ChunkSigned.verifyChecksum cfg st' with
      | error e => simp
      | ok _ =>
        simp only
        cases ChunkSigned.verifyTrailerSignature cfg st' <;> simp
    · simp

theorem joinRec_no_fuel (c : Int) (d : Bytes) (r : ChunkSigned.State × ChunkSigned.Out) (h : r.2.status ≠ .fuel) :
    (ChunkSigned.joinRec c d r).2.status ≠ .fuel := by
  unfold ChunkSigned.joinRec
  split
  · simp
  · rename_i hs; exact absurd hs h
  · split
    · simp
    · simpa using h

theorem parBody_no_fuel (cfg : ChunkSigned.Cfg) (K : ChunkSigned.State → Bytes → ChunkSigned.State × ChunkSigned.Out)
    (st : ChunkSigned.State) (p : Bytes)
    (hK : ∀ st' p', p'.length < p.length → (K st' p').2.status ≠ .fuel) :
    (ChunkSigned.parBody cfg K st p).2.status ≠ .fuel := by
  unfold ChunkSigned.parBody
  generalize ChunkSigned.parseChunkHeaderBytes cfg st p = r
  obtain ⟨st2, res⟩ := r
  cases res with
  | skip => simp
  | fail e => simp
  | chunk size sig off =>
    simp only
    split
    · simp
    split
    · exact finalChunk_no_fuel cfg _
    · rename_i hz
      split
      · simp
      · split
        · rename_i hgt
          split
          · simp
          · apply joinRec_no_fuel
            apply hK
            simp only [List.length_drop] at hgt ⊢
            have : size ≠ 0 := by simpa using hz
            omega
        · simp

/-- the fuel `Read` gives to `parseAndRemoveChunkInfo` is enough: the recursion is on a strictly
shorter buffer -/
theorem parseAndRemove_no_fuel (cfg : ChunkSigned.Cfg) :
    ∀ (fuel : Nat) (st : ChunkSigned.State) (p : Bytes), p.length < fuel →
      (ChunkSigned.parseAndRemove cfg fuel st p).2.status ≠ .fuel := by
  intro fuel
  induction fuel with
  | zero => intro st p h; omega
  | succ fuel ih =>
    intro st p h
    rw [ChunkSigned.parseAndRemove]
    unfold ChunkSigned.parStep
    simp only
    split
    · simp
    · exact parBody_no_fuel cfg _ _ p (fun st' p' hp => ih st' p' (by omega))

end Vgw.Lemmas.Fuel
