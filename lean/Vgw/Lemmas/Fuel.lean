/-
  Totality of the reader models: the fuel that `Read` supplies to the recursive / looping parts is
  always enough (`Status.fuel` is never produced).
-/
import Vgw.Lemmas.Chunked
namespace Vgw.Lemmas.Fuel
open Vgw Vgw.Model

theorem readLine_shorter : ∀ (s l r : Bytes), ChunkUnsigned.readLine s = some (l, r) → r.length < s.length := by
  intro s
  induction s with
  | nil => intro l r h; simp [ChunkUnsigned.readLine] at h
  | cons b cur ih =>
    intro l r h
    unfold ChunkUnsigned.readLine at h
    split at h
    · simp at h; rw [← h.2]; simp
    · split at h
      · rename_i l' r' heq
        simp at h
        have := ih l' r' heq
        rw [← h.2]; simp; omega
      · simp at h

theorem extract_shorter (s : Bytes) (v : Int) (r : Bytes) (h : ChunkUnsigned.extractChunkSize s = some (v, r)) :
    r.length < s.length := by
  unfold ChunkUnsigned.extractChunkSize at h
  split at h
  · simp at h
  · rename_i line rest heq
    split at h
    · simp at h
    · simp at h; rw [← h.2]; exact readLine_shorter s line rest heq

theorem readAndSkip_le : ∀ (d s r : Bytes), readAndSkip d s = .ok r → r.length ≤ s.length := by
  intro d
  induction d with
  | nil => intro s r h; simp [readAndSkip] at h; rw [h]; omega
  | cons c cs ih =>
    intro s r h
    cases s with
    | nil => simp [readAndSkip] at h
    | cons b s =>
      unfold readAndSkip at h
      split at h
      · have := ih s r h; simp; omega
      · simp at h

theorem readTrailer_no_fuel (cfg : ChunkUnsigned.Cfg) (st : ChunkUnsigned.State) :
    (ChunkUnsigned.readTrailer cfg st).2 ≠ .fuel := by
  unfold ChunkUnsigned.readTrailer
  repeat' split
  all_goals (first | (simp; done) | (simp only []; split <;> simp))

/-- the fuel `Read` gives to the chunk loop is enough: every iteration consumes a size line -/
theorem loop_no_fuel (cfg : ChunkUnsigned.Cfg) (cap : Nat) :
    ∀ (fuel : Nat) (st : ChunkUnsigned.State) (acc : Bytes), st.input.length < fuel →
      (ChunkUnsigned.loop cfg cap fuel st acc).2.status ≠ .fuel := by
  intro fuel
  induction fuel with
  | zero => intro st acc h; omega
  | succ fuel ih =>
    intro st acc h
    rw [ChunkUnsigned.loop]
    split
    · simp
    · rename_i chunkSize rest hx
      have hlt := extract_shorter _ _ _ hx
      simp only
      split
      · have hnf := readTrailer_no_fuel cfg { st with input := rest }
        generalize ChunkUnsigned.readTrailer cfg { st with input := rest } = rt at hnf ⊢
        obtain ⟨st', s⟩ := rt
        cases s <;> simp_all
      · split
        · simp
        · split
          · split <;> simp
          · split
            · simp
            · rename_i rest' hsk
              split
              · simp
              · apply ih
                have h1 : rest'.length ≤ (List.drop chunkSize.toNat rest).length := by
                  unfold ChunkUnsigned.skipBytes at hsk
                  split at hsk
                  · rename_i r hr; simp at hsk; subst hsk; exact readAndSkip_le _ _ _ hr
                  · simp at hsk
                  · simp at hsk
                simp only [List.length_drop] at h1
                simp only
                omega
theorem finishHeader_p (cfg : ChunkSigned.Cfg) (st : ChunkSigned.State) (sl : Nat) (p header cur : Bytes) (n : Int) :
    (ChunkSigned.finishHeader cfg st sl p header cur n).2.1 = p := by
  unfold ChunkSigned.finishHeader
  repeat' split
  all_goals simp

theorem finishHeader_n (cfg : ChunkSigned.Cfg) (st : ChunkSigned.State) (sl : Nat) (p header cur : Bytes) (n : Int) :
    (ChunkSigned.finishHeader cfg st sl p header cur n).2.2.1 = n := by
  unfold ChunkSigned.finishHeader
  repeat' split
  all_goals simp

theorem shift2_length (X : Bytes) : (ChunkSigned.shift2 (13 :: 10 :: X)).length = (13 :: 10 :: X).length := by
  simp [ChunkSigned.shift2]; omega

theorem readAndSkip_crlf_shape (s r : Bytes) (h : readAndSkip [13, 10] s = .ok r) : s = 13 :: 10 :: r := by
  match s, h with
  | a :: b :: t, h =>
    simp only [readAndSkip] at h
    split at h
    · split at h
      · simp at h; subst h; simp_all
      · simp at h
    · simp at h
  | [_], h => simp [readAndSkip] at h; split at h <;> simp at h
  | [], h => simp [readAndSkip] at h

/-- `parseChunkHeaderBytes` hands back a buffer of the same length and an `n` within it -/
theorem parseChunkHeaderBytes_buf (cfg : ChunkSigned.Cfg) (st : ChunkSigned.State) (p : Bytes) :
    (ChunkSigned.parseChunkHeaderBytes cfg st p).2.1.length = p.length ∧
    (ChunkSigned.parseChunkHeaderBytes cfg st p).2.2.1 ≤ (p.length : Int) := by
  unfold ChunkSigned.parseChunkHeaderBytes
  simp only
  split
  · simp
  · split
    · split
      · simp
      · rename_i cur hrd
        simp only [finishHeader_p, finishHeader_n]
        refine ⟨?_, by omega⟩
        cases hs : st.stash with
        | none =>
          simp only [hs] at hrd ⊢
          have := readAndSkip_crlf_shape _ _ hrd
          rw [this]; simp [ChunkSigned.shift2]; omega
        | some s => simp
    · simp only [finishHeader_p, finishHeader_n]; simp

theorem finalChunk_no_fuel (cfg : ChunkSigned.Cfg) (st : ChunkSigned.State) :
    (ChunkSigned.finalChunk cfg st).2.status ≠ .fuel := by
  unfold ChunkSigned.finalChunk
  simp only
  cases ChunkSigned.checkSignature cfg { st with chunkAcc := [] } with
  | error e => simp
  | ok st' =>
    simp only
    split
    · cases ChunkSigned.verifyChecksum cfg st' with
      | error e => simp
      | ok _ =>
        simp only
        cases ChunkSigned.verifyTrailerSignature cfg st' <;> simp
    · simp

theorem joinRec_no_fuel (c : Int) (d : Bytes) (r : ChunkSigned.State × ChunkSigned.Out) (h : r.2.status ≠ .fuel) :
    (ChunkSigned.joinRec c d r).2.status ≠ .fuel := by
  unfold ChunkSigned.joinRec
  split
  · simp
  · rename_i hs; exact absurd hs h
  · split
    · simp
    · simpa using h

/-- the fuel `Read` gives to `parseAndRemoveChunkInfo` is enough: the recursion is on a strictly
shorter buffer -/
theorem parseAndRemove_no_fuel (cfg : ChunkSigned.Cfg) :
    ∀ (fuel : Nat) (st : ChunkSigned.State) (p : Bytes), p.length < fuel →
      (ChunkSigned.parseAndRemove cfg fuel st p).2.status ≠ .fuel := by
  intro fuel
  induction fuel with
  | zero => intro st p h; omega
  | succ fuel ih =>
    intro st p h
    rw [ChunkSigned.parseAndRemove]
    split
    · simp
    · rename_i st1 _
      have hbuf := parseChunkHeaderBytes_buf cfg st1 p
      split
      · simp
      · simp
      · rename_i st2 p' n' chunkSize sig off heq
        rw [heq] at hbuf
        simp only at hbuf
        split
        · exact finalChunk_no_fuel cfg _
        · split
          · simp
          · rename_i hz hoff
            by_cases hgt : n' - off > chunkSize
            · by_cases hneg : chunkSize < 0
              · simp [hgt, hneg]
              · simp only [hgt, hneg, if_true, if_false]
                apply joinRec_no_fuel
                apply ih
                simp only [List.length_drop, List.length_take]
                have : chunkSize ≠ 0 := by simpa using hz
                omega
            · simp [hgt]

end Vgw.Lemmas.Fuel
