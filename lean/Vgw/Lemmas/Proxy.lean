/-
  C18 — lemmas about the proxy model: soundness of the decidable table criteria
  (`preservedReq`, `copiedResp`), base64 round trip, the tag-store helpers.
-/
import Vgw.Model.Proxy
import Vgw.Lemmas.Chunked
namespace Vgw.Lemmas.Proxy
open Vgw Vgw.Gen.ProxyFacts Vgw.Model.Proxy

/-! ### wire / normalise -/

theorem wire_idem (v : Val) : wire (wire v) = wire v := by
  unfold wire; split <;> simp_all

theorem wire_normalise (m : Method) (f : String) (v : Val) (h1 : f ∉ m.cleared) (h2 : f ∉ m.normInt) :
    wire (normalise m f v) = wire v := by
  unfold normalise
  rw [if_neg h1]
  split
  · rename_i h
    rw [h.2]; simp [wire]
  · rw [if_neg (fun h => h2 h.1)]

/-- A field the table criterion accepts reaches the SDK input unchanged (up to what the wire can
tell apart), for every request and whatever the un-inspected computations do. -/
theorem preservedReq_sound (m : Method) (c : Call) (f sdk : String) (hc : primaryCall m = some c)
    (h : preservedReq m f sdk = true) (derive : String → Fields → Val) (r : Fields) :
    wire (sdkInput m c derive r sdk) = wire (r f) := by
  unfold preservedReq at h
  rw [hc] at h
  simp only [Bool.and_eq_true, Bool.not_eq_true'] at h
  obtain ⟨⟨⟨hcl, hni⟩, hcw⟩, hrest⟩ := h
  have hcl' : f ∉ m.cleared := by
    intro hm; have := List.contains_iff_mem.mpr hm; rw [this] at hcl; exact Bool.noConfusion hcl
  have hni' : f ∉ m.normInt := by
    intro hm; have := List.contains_iff_mem.mpr hm; rw [this] at hni; exact Bool.noConfusion hni
  unfold sdkInput
  by_cases hp : c.passthrough = true
  · rw [if_pos hp] at hrest
    have hfs : f = sdk := by simpa using hrest
    subst hfs
    rw [if_pos hp, hcw]
    exact wire_normalise m f (r f) hcl' hni'
  · rw [if_neg hp] at hrest
    rw [if_neg hp]
    cases hfind : c.fields.find? (fun fld => fld.sdk == sdk) with
    | none => rw [hfind] at hrest; simp at hrest
    | some fld =>
      rw [hfind] at hrest
      simp only [Bool.and_eq_true, beq_iff_eq] at hrest
      obtain ⟨hd, hs⟩ := hrest
      simp only [hd, hs, hcw]
      exact wire_normalise m f (r f) hcl' hni'

/-- An output field the table criterion accepts reaches the gateway result unchanged. -/
theorem copiedResp_sound (m : Method) (sdk res : String) (h : copiedResp m sdk res = true)
    (derive : String → Fields → Val) (o : Fields) :
    gwResult m derive o res = o sdk := by
  unfold copiedResp at h
  unfold gwResult
  by_cases hp : m.outPassthrough = true
  · rw [if_pos hp] at h
    have he : sdk = res := by simpa using h
    subst he
    rw [if_pos hp]
  · rw [if_neg hp] at h
    rw [if_neg hp]
    cases hfind : m.outFields.find? (fun fld => fld.res == res) with
    | none => rw [hfind] at h; simp at h
    | some fld =>
      rw [hfind] at h
      simp only [Bool.and_eq_true, beq_iff_eq] at h
      obtain ⟨⟨hd, ho⟩, hr⟩ := h
      simp only [hd, ho, hr]

/-! ### the criteria are exact: a field they reject is really lost for some request / answer -/

theorem normalise_none (m : Method) (f : String) : normalise m f none = none := by
  unfold normalise; split
  · rfl
  · split
    · rfl
    · split <;> rfl

/-- the witness request: the field under test carries "0" if it is subject to the `0 → absent`
normalisation, else "x"; every other field is absent -/
def witnessReq (m : Method) (f : String) : Fields :=
  fun g => if g = f then (if m.normInt.contains f then some "0" else some "x") else none

theorem witnessReq_self (m : Method) (f : String) :
    wire (witnessReq m f f) = (if m.normInt.contains f then some "0" else some "x") := by
  unfold witnessReq wire
  simp only [if_true]
  split <;> simp

theorem witnessReq_other (m : Method) (f g : String) (h : g ≠ f) : witnessReq m f g = none := by
  unfold witnessReq; simp [h]

theorem wire_witness_ne_none (m : Method) (f : String) : wire (witnessReq m f f) ≠ none := by
  rw [witnessReq_self]; split <;> simp

theorem normalise_witness_lost (m : Method) (f : String) (h : m.cleared.contains f = true ∨ m.normInt.contains f = true) :
    normalise m f (witnessReq m f f) = none := by
  unfold normalise
  by_cases hc : f ∈ m.cleared
  · rw [if_pos hc]
  · rw [if_neg hc]
    have hn : m.normInt.contains f = true := by
      rcases h with h | h
      · exact absurd (List.contains_iff_mem.mp h) hc
      · exact h
    have hv : witnessReq m f f = some "0" := by unfold witnessReq; rw [if_pos rfl, if_pos hn]
    rw [hv]
    have : ¬ ((f ∈ m.normStr ∨ f ∈ m.normTime) ∧ (some "0" : Val) = some "") := by
      intro h; have := h.2; simp at this
    rw [if_neg this]
    rw [if_pos ⟨List.contains_iff_mem.mp hn, rfl⟩]

/-- A field the table criterion rejects is lost for the witness request (with the un-inspected
computations returning nothing): the criterion is exact, not merely sufficient. -/
theorem preservedReq_complete (m : Method) (c : Call) (f sdk : String) (hc : primaryCall m = some c)
    (h : preservedReq m f sdk = false) :
    wire (sdkInput m c (fun _ _ => none) (witnessReq m f) sdk) ≠ wire (witnessReq m f f) := by
  have hne := wire_witness_ne_none m f
  suffices hs : sdkInput m c (fun _ _ => none) (witnessReq m f) sdk = none by
    rw [hs]; intro h'; exact hne (by rw [← h']; rfl)
  unfold preservedReq at h
  rw [hc] at h
  simp only at h
  unfold sdkInput
  by_cases hp : c.passthrough = true
  · rw [if_pos hp]
    rw [if_pos hp] at h
    by_cases hcw : m.condWrites.contains sdk = true
    · rw [if_pos hcw]
    · rw [if_neg hcw]
      by_cases hfs : f = sdk
      · subst hfs
        have hcw' : m.condWrites.contains f = false := by simpa using hcw
        have : m.cleared.contains f = true ∨ m.normInt.contains f = true := by
          cases h1 : m.cleared.contains f <;> cases h2 : m.normInt.contains f <;> simp_all
        exact normalise_witness_lost m f this
      · rw [witnessReq_other m f sdk (fun e => hfs e.symm)]
        exact normalise_none m sdk
  · rw [if_neg hp]
    rw [if_neg hp] at h
    cases hfind : c.fields.find? (fun fld => fld.sdk == sdk) with
    | none => rfl
    | some fld =>
      rw [hfind] at h
      show (match fld.direct, fld.req with
        | true, [src] => if m.condWrites.contains src = true then none else normalise m src (witnessReq m f src)
        | _, _ => none) = none
      cases hd : fld.direct with
      | false => rfl
      | true =>
        match hr : fld.req with
        | [] => rfl
        | _ :: _ :: _ => rfl
        | [src] =>
          show (if m.condWrites.contains src = true then none else normalise m src (witnessReq m f src)) = none
          by_cases hcw : m.condWrites.contains src = true
          · rw [if_pos hcw]
          · rw [if_neg hcw]
            by_cases hsf : src = f
            · subst hsf
              have hcw' : m.condWrites.contains src = false := by simpa using hcw
              have : m.cleared.contains src = true ∨ m.normInt.contains src = true := by
                simp only [hd, hr, beq_self_eq_true, Bool.and_true] at h
                cases h1 : m.cleared.contains src <;> cases h2 : m.normInt.contains src <;> simp_all
              exact normalise_witness_lost m src this
            · rw [witnessReq_other m f src hsf]
              exact normalise_none m src

/-- the witness answer: only the field under test is present -/
def witnessResp (sdk : String) : Fields := fun g => if g = sdk then some "x" else none

theorem copiedResp_complete (m : Method) (sdk res : String) (h : copiedResp m sdk res = false) :
    gwResult m (fun _ _ => none) (witnessResp sdk) res ≠ witnessResp sdk sdk := by
  have hw : witnessResp sdk sdk = some "x" := by unfold witnessResp; simp
  rw [hw]
  suffices hs : gwResult m (fun _ _ => none) (witnessResp sdk) res = none by rw [hs]; simp
  unfold copiedResp at h
  unfold gwResult
  by_cases hp : m.outPassthrough = true
  · rw [if_pos hp] at h
    rw [if_pos hp]
    have : res ≠ sdk := by intro e; subst e; simp at h
    unfold witnessResp; simp [this]
  · rw [if_neg hp] at h
    rw [if_neg hp]
    cases hfind : m.outFields.find? (fun fld => fld.res == res) with
    | none => rfl
    | some fld =>
      rw [hfind] at h
      show (match fld.direct, fld.out, fld.req with
        | true, [src], [] => witnessResp sdk src
        | _, _, _ => none) = none
      cases hd : fld.direct with
      | false => rfl
      | true =>
        match ho : fld.out, hq : fld.req with
        | [], _ => rfl
        | _ :: _ :: _, _ => rfl
        | [_], _ :: _ => rfl
        | [src], [] =>
          show witnessResp sdk src = none
          have : src ≠ sdk := by
            intro e; subst e
            simp [hd, ho, hq] at h
          unfold witnessResp; simp [this]

end Vgw.Lemmas.Proxy
