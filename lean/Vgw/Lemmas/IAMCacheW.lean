/-
  REGRESSION MODEL (the write-through cache of the code before 6f25651, `Variant.invalidate =
  false`): its cache invariant.  As long as
  (a) no change of a key is decided while a lookup of that key sits between its fetch and its
  cache.set, or while another change of that key still owes the cache its step, and (b) the entry
  that CreateAccount builds equals the account (`entryOf v a = a`: uid = gid = 0, or `copyIds`),
  the cache agrees with the store on every key that nobody is changing.  (`QuietAt` is that side
  condition; Open/C17.lean shows that each part of it is needed.)
-/
import Vgw.Lemmas.IAMCacheI
namespace Vgw.Model.IAM
open Vgw
open Vgw.Model.Gw (Account Role)

/-- all cache entries of key k (expired ones included) carry what the store answers for k -/
def Coh (cfg : Cfg) (cm : Store) (it : Items) (k : Bytes) : Prop :=
  ∀ e ∈ it, e.key = k → look cfg cm k = some e.val

/-- what makes the write-through step of a decided change restore agreement -/
def Guar (v : Variant) (cm : Store) (it : Items) : Op → Prop
  | .create a => cm.find a.access = some a ∧ entryOf v a = a
  | .update k p => ∃ x, cm.find k = some x ∧ updateAcc x p = x ∧ ∀ e ∈ it, e.key = k → updateAcc e.val p = x
  | .delete k => cm.find k = none
  | _ => True

structure CInvW (v : Variant) (cfg : Cfg) (σ : State) : Prop where
  rootFree : σ.committed.find cfg.root.access = none
  coh : ∀ k, ¬ Pending σ.calls k → Coh cfg σ.committed σ.items k
  guar : ∀ (j : Nat) (c : Call), σ.calls[j]? = some c → pend c.pc = true → Guar v σ.committed σ.items c.op
  fet : ∀ (i : Nat) (c : Call) (a : Account) (g : Nat), σ.calls[i]? = some c → c.pc = .gFetched a g →
    look cfg σ.committed c.op.key = some a

/-- the side condition at the rename of call i -/
def QuietAt (v : Variant) (σ : State) (i : Nat) (c : Call) : Prop :=
  (∀ (j : Nat) (cj : Call), j ≠ i → σ.calls[j]? = some cj → cj.op.key = c.op.key →
      pend cj.pc = false ∧ ∀ a g, cj.pc ≠ .gFetched a g) ∧
  (∀ a, c.op = .create a → entryOf v a = a)

theorem Guar.mono_items {v : Variant} {cm : Store} {it it' : Items} {op : Op}
    (hsub : ∀ e ∈ it', e ∈ it) (h : Guar v cm it op) : Guar v cm it' op := by
  cases op with
  | update k p =>
    obtain ⟨x, h1, h2, h3⟩ := h
    exact ⟨x, h1, h2, fun e he hk => h3 e (hsub e he) hk⟩
  | create a => exact h
  | delete k => exact h
  | get k => trivial
  | list => trivial

theorem CInvW.frame {v : Variant} {cfg : Cfg} {σ σ₁ : State} {i : Nat} {c : Call} {pc' : PC} (h : CInvW v cfg σ)
    (hi : σ.calls[i]? = some c)
    (hit : σ₁.items = σ.items) (hc : σ₁.committed = σ.committed) (hcalls : σ₁.calls = σ.calls)
    (hp : pend pc' = pend c.pc)
    (hf : ∀ a g, pc' = .gFetched a g → look cfg σ.committed c.op.key = some a) :
    CInvW v cfg (σ₁.setCall i ⟨c.op, pc'⟩) := by
  have hlt := (List.getElem?_eq_some_iff.mp hi).1
  have hP : ∀ k, Pending (σ₁.setCall i ⟨c.op, pc'⟩).calls k ↔ Pending σ.calls k := by
    intro k; simp only [State.setCall, hcalls]; exact pending_set_same hi rfl hp
  refine ⟨by simp only [State.setCall, hc]; exact h.rootFree, ?_, ?_, ?_⟩
  · intro k hk
    rw [hP] at hk
    simp only [State.setCall, hit, hc]; exact h.coh k hk
  · intro j cj hj hpj
    simp only [State.setCall, hcalls, List.getElem?_set] at hj
    simp only [State.setCall, hit, hc]
    by_cases hij : i = j
    · simp only [hij, if_true] at hj
      split at hj
      · cases hj
        simp only at hpj ⊢
        rw [hp] at hpj
        exact h.guar i c hi hpj
      · cases hj
    · simp only [hij, if_false] at hj; exact h.guar j cj hj hpj
  · intro j cj a g hj hpc
    simp only [State.setCall, hcalls, List.getElem?_set] at hj
    simp only [State.setCall, hc]
    by_cases hij : i = j
    · simp only [hij, if_true] at hj
      split at hj
      · cases hj; exact hf a g hpc
      · cases hj
    · simp only [hij, if_false] at hj; exact h.fet j cj a g hj hpc

theorem find_ne_root {cfg : Cfg} {cm : Store} {k : Bytes} {x : Account}
    (hr : cm.find cfg.root.access = none) (h : cm.find k = some x) : k ≠ cfg.root.access := by
  intro e; rw [e, hr] at h; cases h

/-- the rename under the side condition -/
theorem CInvW.commit {v : Variant} {cfg : Cfg} {σ σ₁ : State} {i : Nat} {c : Call} {b' : Store} (h : CInvW v cfg σ)
    (hi : σ.calls[i]? = some c) (hT : PcT cfg c) (hpc : c.pc = .mTemp b') (hm : mutate σ.committed c.op = .ok b')
    (hq : QuietAt v σ i c)
    (hit : σ₁.items = σ.items) (hc : σ₁.committed = b') (hcalls : σ₁.calls = σ.calls) :
    CInvW v cfg (σ₁.setCall i ⟨c.op, .mRenamed⟩) := by
  have hlt := (List.getElem?_eq_some_iff.mp hi).1
  have hnp : pend c.pc = false := by rw [hpc]; rfl
  have hnew : Pending (σ₁.setCall i ⟨c.op, .mRenamed⟩).calls c.op.key := by
    simp only [State.setCall, hcalls]; exact pending_set_new (c' := ⟨c.op, .mRenamed⟩) hi rfl
  have hmono : ∀ k, Pending σ.calls k → Pending (σ₁.setCall i ⟨c.op, .mRenamed⟩).calls k := by
    intro k hk; simp only [State.setCall, hcalls]; exact pending_set_mono hi hnp hk
  have hlook : ∀ k, k ≠ c.op.key → look cfg b' k = look cfg σ.committed k := by
    intro k hk; simp only [look]; rw [mutate_frame hm hk]
  have hTc := hT.1 (Or.inl (by rw [hpc]; rfl))
  have hnoP : ¬ Pending σ.calls c.op.key := by
    rintro ⟨j, cj, hj, hpj, hkey⟩
    by_cases hji : j = i
    · subst hji; rw [hi] at hj; cases hj; rw [hnp] at hpj; cases hpj
    · have := (hq.1 j cj hji hj hkey).1; rw [this] at hpj; cases hpj
  have hcohk := h.coh _ hnoP
  refine ⟨?_, ?_, ?_, ?_⟩
  · simp only [State.setCall, hc]
    exact mutate_absent hm h.rootFree hTc.2
  · intro k hk
    by_cases hkk : k = c.op.key
    · subst hkk; exact absurd hnew hk
    · have : ¬ Pending σ.calls k := fun hp => hk (hmono k hp)
      have hcoh := h.coh k this
      simp only [State.setCall, hit, hc]
      intro e he hek
      rw [hlook k hkk]; exact hcoh e he hek
  · intro j cj hj hpj
    simp only [State.setCall, hcalls, List.getElem?_set] at hj
    simp only [State.setCall, hit, hc]
    by_cases hij : i = j
    · simp only [hij, if_true] at hj
      split at hj
      · cases hj
        simp only
        -- the deciding call's own guarantee
        cases hop : c.op with
        | create a =>
          rw [hop] at hm
          exact ⟨(mutate_create_ok hm).2, hq.2 a hop⟩
        | update k p =>
          rw [hop] at hm
          obtain ⟨acc, hacc, hacc'⟩ := mutate_update_ok hm
          refine ⟨updateAcc acc p, hacc', updateAcc_idem acc p, ?_⟩
          intro e he hek
          have hk : c.op.key = k := by rw [hop]; rfl
          have := hcohk e he (by rw [hk]; exact hek)
          rw [hk, look_nonroot cfg _ (find_ne_root h.rootFree hacc), hacc] at this
          cases this; rfl
        | delete k => rw [hop] at hm; exact mutate_delete_ok hm
        | get k => trivial
        | list => trivial
      · cases hj
    · simp only [hij, if_false] at hj
      have hkj : cj.op.key ≠ c.op.key := by
        intro e
        have := (hq.1 j cj (fun e' => hij e'.symm) hj e).1
        rw [this] at hpj; cases hpj
      have hg := h.guar j cj hj hpj
      cases hop : cj.op with
      | create a =>
        rw [hop] at hg hkj
        simp only [Op.key] at hkj
        exact ⟨by rw [mutate_frame hm hkj]; exact hg.1, hg.2⟩
      | update k p =>
        rw [hop] at hg hkj
        simp only [Op.key] at hkj
        obtain ⟨x, h1, h2, h3⟩ := hg
        exact ⟨x, by rw [mutate_frame hm hkj]; exact h1, h2, h3⟩
      | delete k =>
        rw [hop] at hg hkj
        simp only [Op.key] at hkj
        simp only [Guar] at hg ⊢
        rw [mutate_frame hm hkj]; exact hg
      | get k => trivial
      | list => trivial
  · intro j cj a g hj hpcj
    simp only [State.setCall, hcalls, List.getElem?_set] at hj
    simp only [State.setCall, hc]
    by_cases hij : i = j
    · simp only [hij, if_true] at hj
      split at hj
      · cases hj; cases hpcj
      · cases hj
    · simp only [hij, if_false] at hj
      have hkj : cj.op.key ≠ c.op.key := by
        intro e
        exact (hq.1 j cj (fun e' => hij e'.symm) hj e).2 a g hpcj
      rw [hlook _ hkj]; exact h.fet j cj a g hj hpcj

/-- after `items` changed on key k only: the guarantees of the other decided changes survive, given
that every entry of k now carries what the store answers -/
theorem Guar.after {v : Variant} {cfg : Cfg} {cm : Store} {it it' : Items} {k : Bytes} {op : Op}
    (hr : cm.find cfg.root.access = none)
    (hold : ∀ e ∈ it', e.key ≠ k → e ∈ it)
    (hnew : ∀ e ∈ it', e.key = k → look cfg cm k = some e.val)
    (h : Guar v cm it op) : Guar v cm it' op := by
  cases op with
  | update kj q =>
    obtain ⟨x, h1, h2, h3⟩ := h
    refine ⟨x, h1, h2, ?_⟩
    intro e he hek
    by_cases hk : e.key = k
    · have := hnew e he hk
      rw [← hk, hek, look_nonroot cfg _ (find_ne_root hr h1), h1] at this
      cases this; exact h2
    · exact h3 e (hold e he hk) hek
  | create a => exact h
  | delete kk => exact h
  | get kk => trivial
  | list => trivial

/-- the write-through step of a decided change -/
theorem CInvW.cacheStep {v : Variant} {cfg : Cfg} {σ : State} {i : Nat} {c : Call} (h : CInvW v cfg σ)
    (hvc : v.cache = true) (hvi : v.invalidate = false)
    (hi : σ.calls[i]? = some c) (hT : PcT cfg c) (hpc : c.pc = .mCache) :
    CInvW v cfg ((cacheStep v cfg σ c.op).setCall i ⟨c.op, .done .ok⟩) := by
  have hlt := (List.getElem?_eq_some_iff.mp hi).1
  have hg := h.guar i c hi (by rw [hpc]; rfl)
  have hmut := (hT.1 (Or.inr (by rw [hpc]; rfl))).1
  -- generic conclusion from: items change only on key k := c.op.key, and every new entry of k is right
  have main : ∀ it' : Items,
      (∀ e ∈ it', e.key ≠ c.op.key → e ∈ σ.items) →
      (∀ e ∈ it', e.key = c.op.key → look cfg σ.committed c.op.key = some e.val) →
      CInvW v cfg ({ σ with items := it' }.setCall i ⟨c.op, .done .ok⟩) := by
    intro it' hold hnew
    refine ⟨h.rootFree, ?_, ?_, ?_⟩
    · intro k hk e he hek
      simp only [State.setCall] at he hk ⊢
      by_cases hkk : k = c.op.key
      · subst hkk; exact hnew e he hek
      · have hk' : ¬ Pending σ.calls k := fun hp => hk ((pending_set_other (c' := ⟨c.op, .done .ok⟩) hi rfl hkk).mpr hp)
        exact h.coh k hk' e (hold e he (by rw [hek]; exact hkk)) hek
    · intro j cj hj hpj
      simp only [State.setCall, List.getElem?_set] at hj ⊢
      by_cases hij : i = j
      · simp only [hij, if_true] at hj
        split at hj
        · cases hj; cases hpj
        · cases hj
      · simp only [hij, if_false] at hj
        exact Guar.after h.rootFree hold hnew (h.guar j cj hj hpj)
    · intro j cj a g hj hpcj
      simp only [State.setCall, List.getElem?_set] at hj ⊢
      by_cases hij : i = j
      · simp only [hij, if_true] at hj
        split at hj
        · cases hj; cases hpcj
        · cases hj
      · simp only [hij, if_false] at hj; exact h.fet j cj a g hj hpcj
  cases hop : c.op with
  | create a =>
    rw [hop] at hg main
    have : Model.IAM.cacheStep v cfg σ (.create a) = { σ with items := σ.items.set a.access (entryOf v a) (σ.now + cfg.ttl) } := by
      simp [Model.IAM.cacheStep, hvc, hvi]
    rw [this]
    apply main
    · intro e he hk
      rcases Items.mem_set.mp he with he | ⟨he, _⟩
      · subst he; exact absurd rfl hk
      · exact he
    · intro e he hk
      rcases Items.mem_set.mp he with he | ⟨_, hk'⟩
      · subst he
        simp only [Op.key]
        rw [look_nonroot cfg _ (find_ne_root h.rootFree hg.1), hg.1, hg.2]
      · exact absurd hk hk'
  | update k p =>
    rw [hop] at hg main
    have : Model.IAM.cacheStep v cfg σ (.update k p) = { σ with items := σ.items.update k p (σ.now + cfg.ttl) } := by
      simp [Model.IAM.cacheStep, hvc, hvi]
    rw [this]
    obtain ⟨x, h1, h2, h3⟩ := hg
    apply main
    · intro e he hk
      rcases Items.mem_update he with ⟨he, _⟩ | ⟨e0, _, _, rfl⟩
      · exact he
      · exact absurd rfl hk
    · intro e he hk
      simp only [Op.key] at hk ⊢
      rcases Items.mem_update he with ⟨_, hk'⟩ | ⟨e0, he0, hk0, rfl⟩
      · exact absurd hk hk'
      · simp only
        rw [look_nonroot cfg _ (find_ne_root h.rootFree h1), h1, h3 e0 he0 hk0]
  | delete k =>
    rw [hop] at main
    have : Model.IAM.cacheStep v cfg σ (.delete k) = { σ with items := σ.items.del k } := by
      simp [Model.IAM.cacheStep, hvc, hvi]
    rw [this]
    apply main
    · intro e he _; exact (Items.mem_del.mp he).1
    · intro e he hk; exact absurd hk (Items.mem_del.mp he).2
  | get k => rw [hop] at hmut; cases hmut
  | list => rw [hop] at hmut; cases hmut

/-- the miss path's cache.set -/
theorem CInvW.set {v : Variant} {cfg : Cfg} {σ : State} {i : Nat} {c : Call} {a : Account} {g x : Nat} (h : CInvW v cfg σ)
    (hi : σ.calls[i]? = some c) (hpc : c.pc = .gFetched a g) :
    CInvW v cfg ({ σ with items := σ.items.set c.op.key a x }.setCall i ⟨c.op, .done (.acct a)⟩) := by
  have hlt := (List.getElem?_eq_some_iff.mp hi).1
  have hnp : pend c.pc = false := by rw [hpc]; rfl
  have hP : ∀ k, Pending (σ.calls.set i ⟨c.op, .done (.acct a)⟩) k ↔ Pending σ.calls k :=
    fun k => pending_set_same hi rfl (by rw [hnp]; rfl)
  have hfa := h.fet i c a g hi hpc
  have hold : ∀ e ∈ σ.items.set c.op.key a x, e.key ≠ c.op.key → e ∈ σ.items := by
    intro e he hk
    rcases Items.mem_set.mp he with he | ⟨he, _⟩
    · subst he; exact absurd rfl hk
    · exact he
  have hnew : ∀ e ∈ σ.items.set c.op.key a x, e.key = c.op.key → look cfg σ.committed c.op.key = some e.val := by
    intro e he hk
    rcases Items.mem_set.mp he with he | ⟨_, hk'⟩
    · subst he; exact hfa
    · exact absurd hk hk'
  refine ⟨h.rootFree, ?_, ?_, ?_⟩
  · intro k hk e he hek
    simp only [State.setCall] at he hk ⊢
    rw [hP] at hk
    by_cases hkk : k = c.op.key
    · subst hkk; exact hnew e he hek
    · exact h.coh k hk e (hold e he (by rw [hek]; exact hkk)) hek
  · intro j cj hj hpj
    simp only [State.setCall, List.getElem?_set] at hj ⊢
    by_cases hij : i = j
    · simp only [hij, if_true] at hj
      split at hj
      · cases hj; cases hpj
      · cases hj
    · simp only [hij, if_false] at hj
      exact Guar.after h.rootFree hold hnew (h.guar j cj hj hpj)
  · intro j cj a' g' hj hpcj
    simp only [State.setCall, List.getElem?_set] at hj ⊢
    by_cases hij : i = j
    · simp only [hij, if_true] at hj
      split at hj
      · cases hj; cases hpcj
      · cases hj
    · simp only [hij, if_false] at hj; exact h.fet j cj a' g' hj hpcj

theorem CInvW.stepCall {v : Variant} {cfg : Cfg} {σ : State} {i : Nat} {c : Call}
    (hvc : v.cache = true) (hvi : v.invalidate = false)
    (hW : Wf cfg σ) (hT : TInv cfg σ) (h : CInvW v cfg σ) (hi : σ.calls[i]? = some c)
    (hq : ∀ b', c.pc = .mTemp b' → QuietAt v σ i c) :
    CInvW v cfg (stepCall v cfg σ i c) := by
  have hL := (hW.l.calls i c hi).pc
  unfold PcL at hL
  unfold Model.IAM.stepCall
  split
  · -- start
    rename_i hpc
    split
    · split
      · exact h.frame hi rfl rfl rfl (by rw [hpc]; rfl) (by intro a g e; cases e)
      · exact h.frame hi rfl rfl rfl (by rw [hpc]; rfl) (by intro a g e; cases e)
    · split
      · exact h.frame (σ₁ := { σ with readers := i :: σ.readers }) hi rfl rfl rfl (by rw [hpc]; rfl) (by intro a g e; cases e)
      · exact h
    · split
      · exact h.frame (σ₁ := { σ with log := _ }) hi rfl rfl rfl (by rw [hpc]; rfl) (by intro a g e; cases e)
      · split
        · exact h.frame (σ₁ := { σ with writer := some i }) hi rfl rfl rfl (by rw [hpc]; rfl) (by intro a g e; cases e)
        · exact h
    · split
      · exact h.frame (σ₁ := { σ with writer := some i }) hi rfl rfl rfl (by rw [hpc]; rfl) (by intro a g e; cases e)
      · exact h
  · rename_i hpc
    split
    · exact h.frame hi rfl rfl rfl (by rw [hpc]; rfl) (by intro a g e; cases e)
    · exact h
  · rename_i b hpc
    exact h.frame (σ₁ := { σ with main := none }) hi rfl rfl rfl (by rw [hpc]; rfl) (by intro a g e; cases e)
  · rename_i b hpc
    exact h.frame (σ₁ := { σ with backup := some b }) hi rfl rfl rfl (by rw [hpc]; rfl) (by intro a g e; cases e)
  · rename_i b hpc
    split
    · exact h.frame (σ₁ := { σ with main := some b, log := _ }) hi rfl rfl rfl (by rw [hpc]; rfl) (by intro a g e; cases e)
    · rename_i b' _
      exact h.frame (σ₁ := { σ with temp := some b' }) hi rfl rfl rfl (by rw [hpc]; rfl) (by intro a g e; cases e)
  · -- mTemp: the rename
    rename_i b' hpc
    rw [hpc] at hL
    exact h.commit (σ₁ := { σ with main := some b', temp := none, committed := b', log := _ }) hi (hT i c hi) hpc hL.1 (hq b' hpc) rfl rfl rfl
  · rename_i hpc
    exact h.frame (σ₁ := { σ with writer := none }) hi rfl rfl rfl (by rw [hpc]; rfl) (by intro a g e; cases e)
  · rename_i e hpc
    exact h.frame (σ₁ := { σ with writer := none }) hi rfl rfl rfl (by rw [hpc]; rfl) (by intro a g e; cases e)
  · -- mCache
    rename_i hpc
    exact h.cacheStep hvc hvi hi (hT i c hi) hpc
  · -- gMiss
    rename_i g hpc
    split
    · rename_i hroot
      exact h.frame hi rfl rfl rfl (by rw [hpc]; rfl) (by intro a g' e; cases e; exact look_root cfg _ hroot)
    · split
      · exact h.frame (σ₁ := { σ with readers := i :: σ.readers }) hi rfl rfl rfl (by rw [hpc]; rfl) (by intro a g e; cases e)
      · exact h
  · -- gRLocked
    rename_i g hpc
    split
    · exact h.frame hi rfl rfl rfl (by rw [hpc]; rfl) (by intro a g e; cases e)
    · exact h
  · -- gGot
    rename_i r g hpc
    rw [hpc] at hL
    split
    · exact h.frame (σ₁ := { σ with readers := _ }) hi rfl rfl rfl (by rw [hpc]; rfl) (by intro a g e; cases e)
    · rename_i a
      refine h.frame (σ₁ := { σ with readers := _ }) hi rfl rfl rfl (by rw [hpc]; rfl) ?_
      intro a' g' e; cases e
      rw [look_nonroot cfg _ hL.1]; exact hL.2.symm
  · -- gFetched
    rename_i a g hpc
    split
    · exact h.set hi hpc
    · exact h.frame hi rfl rfl rfl (by rw [hpc]; rfl) (by intro a g e; cases e)
  · rename_i hpc
    split
    · exact h.frame hi rfl rfl rfl (by rw [hpc]; rfl) (by intro a g e; cases e)
    · exact h
  · rename_i s hpc
    exact h.frame (σ₁ := { σ with readers := _ }) hi rfl rfl rfl (by rw [hpc]; rfl) (by intro a g e; cases e)
  · exact h

end Vgw.Model.IAM
