/-
  Root selection: `Walk` starts `fs.WalkDir` at `prefix[:LastIndex(prefix, "/")]`. Every key that
  carries the prefix lies below that node; if the node does not exist, no key carries the prefix.
-/
import Vgw.Lemmas.WalkRefine
namespace Vgw.Model.Walk
open Vgw Vgw.Spec.List

/-! ### strings.LastIndex -/

theorem lastIndexByte_spec (ch : UInt8) : ∀ (s : Bytes) (i : Nat), lastIndexByte ch s = some i →
    (s.take i ++ [ch]) <+: s
  | [], _, h => by simp [lastIndexByte] at h
  | x :: xs, i, h => by
    unfold lastIndexByte at h
    cases hl : lastIndexByte ch xs with
    | some j =>
      simp [hl] at h; subst h
      have := lastIndexByte_spec ch xs j hl
      simpa using this
    | none =>
      simp [hl] at h
      obtain ⟨rfl, rfl⟩ := h
      simp

theorem rootOf_spec (P r : Bytes) (h : rootOf P = some r) : r ≠ [] ∧ (r ++ [slash]) <+: P := by
  unfold rootOf at h
  cases hl : lastIndexByte slash P with
  | none => simp [hl] at h
  | some i =>
    cases i with
    | zero => simp [hl] at h
    | succ j =>
      simp [hl] at h
      have hp := lastIndexByte_spec slash P (j + 1) hl
      rw [h] at hp
      refine ⟨?_, hp⟩
      intro e
      rw [e] at h
      have hlen := hp.length_le
      rw [e] at hlen
      have : (List.take (j + 1) P).length = 0 := by rw [h]; rfl
      rw [List.length_take] at this
      have hlen2 := hp.length_le
      simp at hlen2
      omega

/-! ### findChild -/

theorem findChild_some : ∀ (ts : List Tree) (n : Bytes) (t : Tree), findChild n ts = some t → t ∈ ts ∧ t.name = n
  | [], _, _, h => by simp [findChild] at h
  | u :: us, n, t, h => by
    unfold findChild at h
    split at h
    · rename_i hn
      simp at h; subst h
      exact ⟨by simp, hn⟩
    · have := findChild_some us n t h
      exact ⟨by simp [this.1], this.2⟩

theorem findChild_of_mem : ∀ (ts : List Tree) (t : Tree), wfList ts = true → t ∈ ts → findChild t.name ts = some t
  | [], _, _, h => by simp at h
  | u :: us, t, hw, h => by
    have hw' := (wfList_cons u us).1 hw
    unfold findChild
    rcases List.mem_cons.1 h with rfl | h
    · simp
    · have hne : u.name ≠ t.name := blt_ne _ _ (hw'.2.1 t h)
      rw [if_neg hne]
      exact findChild_of_mem us t hw'.2.2 h

/-! ### keys of a member -/

theorem keysList_of_mem (g : GetObj) (skip : List Bytes) (b : Bytes) : ∀ (ts : List Tree) (t : Tree), t ∈ ts →
    ∀ k ∈ keysNode g skip b t, k ∈ keysList g skip b ts
  | [], _, h, _, _ => by simp at h
  | u :: us, t, h, k, hk => by
    rw [keysList_cons]
    rcases List.mem_cons.1 h with rfl | h
    · exact List.mem_append.2 (Or.inl hk)
    · exact List.mem_append.2 (Or.inr (keysList_of_mem g skip b us t h k hk))

theorem keysList_mem (g : GetObj) (skip : List Bytes) (b : Bytes) : ∀ (ts : List Tree) (k : Bytes),
    k ∈ keysList g skip b ts → ∃ t ∈ ts, k ∈ keysNode g skip b t
  | [], _, h => by simp [keysList] at h
  | u :: us, k, h => by
    rw [keysList_cons] at h
    rcases List.mem_append.1 h with h | h
    · exact ⟨u, by simp, h⟩
    · obtain ⟨t, ht, hk⟩ := keysList_mem g skip b us k h
      exact ⟨t, by simp [ht], hk⟩

/-- two '/'-terminated '/'-free prefixes of the same string are equal -/
theorem slash_prefix_unique (a a' s : Bytes) (ha : slash ∉ a) (ha' : slash ∉ a')
    (h : (a ++ [slash]) <+: s) (h' : (a' ++ [slash]) <+: s) : a = a' := by
  obtain ⟨t, ht⟩ := h
  obtain ⟨t', ht'⟩ := h'
  have e1 : cut [slash] s = some a := by rw [← ht, List.append_assoc]; exact cut_slash_some a t ha
  have e2 : cut [slash] s = some a' := by rw [← ht', List.append_assoc]; exact cut_slash_some a' t' ha'
  rw [e1] at e2
  exact Option.some.inj e2

/-- **navigation**: a key below `b/n/` is a key of the child directory named `n` -/
theorem keys_below (g : GetObj) (skip : List Bytes) (b n k : Bytes) (ts : List Tree)
    (hw : wfList ts = true) (hk : k ∈ keysList g skip b ts) (hp : (b ++ n ++ [slash]) <+: k) (hn : slash ∉ n) :
    ∃ cs, findChild n ts = some (.dir n cs) ∧ k ∈ keysNode g skip b (.dir n cs) := by
  obtain ⟨t, ht, hkt⟩ := keysList_mem g skip b ts k hk
  have hwt := wfList_mem ts hw t ht
  have hts := validName_no_slash _ (wfNode_validName t hwt)
  obtain ⟨s, rfl⟩ : b <+: k := (List.prefix_append b (n ++ [slash])).trans (by simpa [List.append_assoc] using hp)
  have hp' : (n ++ [slash]) <+: s := by
    have : b ++ (n ++ [slash]) <+: b ++ s := by simpa [List.append_assoc] using hp
    exact (List.prefix_append_right_inj b).1 this
  cases t with
  | file m =>
    exfalso
    rw [keysNode_file] at hkt
    split at hkt
    · simp at hkt
      have hs : s = m := hkt
      apply hts
      obtain ⟨r, hr⟩ := hp'
      rw [← hs, ← hr]; simp [Tree.name]
    · simp at hkt
  | dir m cs =>
    have hm : (m ++ [slash]) <+: s := by
      rw [keysNode_dir] at hkt
      split at hkt; · simp at hkt
      rcases List.mem_append.1 hkt with h | h
      · split at h
        · simp at h
          have : s = m ++ [slash] := by
            have : b ++ s = b ++ (m ++ [slash]) := by simpa [List.append_assoc] using h
            exact List.append_cancel_left this
          rw [this]; exact List.prefix_refl _
        · simp at h
      · have := keysList_prefix g skip cs _ _ h
        have : b ++ (m ++ [slash]) <+: b ++ s := by simpa [List.append_assoc] using this
        exact (List.prefix_append_right_inj b).1 this
    have : n = m := slash_prefix_unique n m s hn (by simpa [Tree.name] using hts) hp' hm
    subst this
    exact ⟨cs, findChild_of_mem ts (.dir n cs) hw ht, hkt⟩

/-! ### descending along the root's path elements -/

theorem joinWith_cons2 (sep : UInt8) (a b : Bytes) (r : List Bytes) :
    joinWith sep (a :: b :: r) = a ++ sep :: joinWith sep (b :: r) := rfl

/-- a key below `b ++ join(elems) ++ "/"` lies in the node `descend` finds; in particular that node
exists, and all `elems` are names of nodes -/
theorem descend_complete (g : GetObj) (skip : List Bytes) : ∀ (elems : List Bytes) (b k : Bytes) (ts : List Tree),
    elems ≠ [] → (∀ e ∈ elems, slash ∉ e) → wfList ts = true → k ∈ keysList g skip b ts →
    (b ++ joinWith slash elems ++ [slash]) <+: k →
    ∃ base t, descend elems b ts = some (base, t) ∧ k ∈ keysNode g skip base t ∧ (∀ e ∈ elems, validElem e = true)
  | [], _, _, _, h, _, _, _, _ => absurd rfl h
  | [n], b, k, ts, _, hs, hw, hk, hp => by
    obtain ⟨cs, hf, hkn⟩ := keys_below g skip b n k ts hw hk (by simpa [joinWith] using hp) (hs n (by simp))
    refine ⟨b, .dir n cs, by simp [descend, hf], hkn, ?_⟩
    intro e he
    simp at he; subst he
    have := wfNode_validName _ (wfList_mem ts hw _ (findChild_some ts _ _ hf).1)
    simp [validName, Tree.name] at this
    exact this.1
  | n :: m :: rest, b, k, ts, _, hs, hw, hk, hp => by
    rw [joinWith_cons2] at hp
    have hp1 : (b ++ n ++ [slash]) <+: k :=
      (show (b ++ n ++ [slash]) <+: (b ++ (n ++ slash :: joinWith slash (m :: rest)) ++ [slash]) from
        ⟨joinWith slash (m :: rest) ++ [slash], by simp⟩).trans hp
    obtain ⟨cs, hf, hkn⟩ := keys_below g skip b n k ts hw hk hp1 (hs n (by simp))
    have hwn := wfList_mem ts hw _ (findChild_some ts _ _ hf).1
    have hwcs := ((wfNode_dir n cs).1 hwn).2
    -- k is longer than `b/n/`, so it is not the directory object itself
    have hkcs : k ∈ keysList g skip (b ++ n ++ [slash]) cs := by
      rw [keysNode_dir] at hkn
      split at hkn; · simp at hkn
      rcases List.mem_append.1 hkn with h | h
      · exfalso
        split at h
        · simp at h
          have hl := hp.length_le
          rw [h] at hl
          simp at hl <;> omega
        · simp at h
      · exact h
    have hp2 : (b ++ n ++ [slash] ++ joinWith slash (m :: rest) ++ [slash]) <+: k := by
      simpa [List.append_assoc] using hp
    obtain ⟨base, t, hd, hkt, hv⟩ := descend_complete g skip (m :: rest) (b ++ n ++ [slash]) k cs (by simp)
      (fun e he => hs e (by simp [he])) hwcs hkcs hp2
    refine ⟨base, t, by rw [descend, hf]; exact hd, hkt, ?_⟩
    intro e he
    rcases List.mem_cons.1 he with rfl | he
    · have := wfNode_validName _ hwn
      simp [validName, Tree.name] at this
      exact this.1
    · exact hv e he

/-- what the node found by `descend` inherits from the forest -/
structure NodeOK (g : GetObj) (skip : List Bytes) (K : List Bytes) (base : Bytes) (t : Tree) : Prop where
  wf : wfNode t = true
  oc : ocNode t = true
  pop : populatedNode g skip base t = true
  keys : ∀ k ∈ keysNode g skip base t, k ∈ K

structure ListOK (g : GetObj) (skip : List Bytes) (K : List Bytes) (b : Bytes) (ts : List Tree) : Prop where
  wf : wfList ts = true
  oc : ocList ts = true
  pop : populatedList g skip b ts = true
  keys : ∀ k ∈ keysList g skip b ts, k ∈ K

theorem ocList_mem : ∀ (ts : List Tree), ocList ts = true → ∀ t ∈ ts, ocNode t = true
  | [], _, _, h => by simp at h
  | u :: us, ho, t, h => by
    have := (ocList_cons u us).1 ho
    rcases List.mem_cons.1 h with rfl | h
    · exact this.1
    · exact ocList_mem us this.2.2 t h

theorem populatedList_mem (g : GetObj) (skip : List Bytes) (b : Bytes) : ∀ (ts : List Tree),
    populatedList g skip b ts = true → ∀ t ∈ ts, populatedNode g skip b t = true
  | [], _, _, h => by simp at h
  | u :: us, hp, t, h => by
    have := (populatedList_cons g skip b u us).1 hp
    rcases List.mem_cons.1 h with rfl | h
    · exact this.1
    · exact populatedList_mem g skip b us this.2 t h

theorem ListOK.mem {g : GetObj} {skip K : List Bytes} {b : Bytes} {ts : List Tree} (h : ListOK g skip K b ts)
    (t : Tree) (ht : t ∈ ts) : NodeOK g skip K b t :=
  ⟨wfList_mem ts h.wf t ht, ocList_mem ts h.oc t ht, populatedList_mem g skip b ts h.pop t ht,
    fun k hk => h.keys k (keysList_of_mem g skip b ts t ht k hk)⟩

theorem NodeOK.children {g : GetObj} {skip K : List Bytes} {b n : Bytes} {cs : List Tree}
    (h : NodeOK g skip K b (.dir n cs)) (hn : (b ++ n) ∉ skip) : ListOK g skip K (b ++ n ++ [slash]) cs := by
  have hs' : skip.contains (b ++ n) = false := by simpa using hn
  refine ⟨((wfNode_dir n cs).1 h.wf).2, by simpa [ocNode] using h.oc, ?_, ?_⟩
  · have := h.pop
    simp only [populatedNode, hs', Bool.false_or, Bool.and_eq_true] at this
    exact this.2
  · intro k hk
    apply h.keys
    rw [keysNode_dir, if_neg hn]
    exact List.mem_append.2 (Or.inr hk)

theorem descend_sound (g : GetObj) (skip K : List Bytes) : ∀ (elems : List Bytes) (b : Bytes) (ts : List Tree)
    (base : Bytes) (t : Tree), descend elems b ts = some (base, t) →
    (∀ s ∈ skip, ¬ (s ++ [slash]) <+: (b ++ joinWith slash elems)) → ListOK g skip K b ts →
    NodeOK g skip K base t ∧ base ++ t.name = b ++ joinWith slash elems
  | [], _, _, _, _, h, _, _ => by simp [descend] at h
  | [n], b, ts, base, t, h, _, hok => by
    simp only [descend, Option.map_eq_some_iff, Prod.mk.injEq] at h
    obtain ⟨t', hf, rfl, rfl⟩ := h
    have := findChild_some ts n _ hf
    exact ⟨hok.mem _ this.1, by simp [joinWith, this.2]⟩
  | n :: m :: rest, b, ts, base, t, h, hsk, hok => by
    unfold descend at h
    cases hf : findChild n ts with
    | none => simp [hf] at h
    | some u =>
      cases u with
      | file x => simp [hf] at h
      | dir x cs =>
        simp only [hf] at h
        have hx := findChild_some ts n _ hf
        have hxn : x = n := hx.2
        subst hxn
        have hnode := hok.mem _ hx.1
        have hpath : b ++ joinWith slash (x :: m :: rest) = b ++ x ++ [slash] ++ joinWith slash (m :: rest) := by
          rw [joinWith_cons2]; simp
        have hns : (b ++ x) ∉ skip := fun hm =>
          hsk (b ++ x) hm (by rw [hpath]; exact List.prefix_append _ _)
        have := descend_sound g skip K (m :: rest) (b ++ x ++ [slash]) cs base t h
          (fun s hs => by rw [← hpath]; exact hsk s hs)
          (hnode.children hns)
        refine ⟨this.1, ?_⟩
        rw [this.2, joinWith_cons2]; simp

theorem descend_path : ∀ (elems : List Bytes) (b : Bytes) (ts : List Tree) (base : Bytes) (t : Tree),
    descend elems b ts = some (base, t) → base ++ t.name = b ++ joinWith slash elems
  | [], _, _, _, _, h => by simp [descend] at h
  | [n], b, ts, base, t, h => by
    simp only [descend, Option.map_eq_some_iff, Prod.mk.injEq] at h
    obtain ⟨t', hf, rfl, rfl⟩ := h
    simp [joinWith, (findChild_some ts n _ hf).2]
  | n :: m :: rest, b, ts, base, t, h => by
    unfold descend at h
    cases hf : findChild n ts with
    | none => simp [hf] at h
    | some u =>
      cases u with
      | file x => simp [hf] at h
      | dir x cs =>
        simp only [hf] at h
        have := descend_path (m :: rest) (b ++ n ++ [slash]) cs base t h
        rw [this, joinWith_cons2]; simp

/-- nothing below a skipped directory is a key -/
theorem keys_not_under_skip (g : GetObj) (skip : List Bytes) (top : List Tree) (hw : wfList top = true)
    (k s : Bytes) (hk : k ∈ keysList g skip [] top) (hs : s ∈ skip) : ¬ (s ++ [slash]) <+: k := by
  intro hp
  have hjoin : joinWith slash (splitOn slash s) = s := join_splitOn slash s
  obtain ⟨base, t, hd, hkt, _⟩ := descend_complete g skip (splitOn slash s) [] k top
    (splitOn_ne_nil slash s) (splitOn_no_sep slash s) hw hk (by rw [hjoin]; simpa using hp)
  have hpath := descend_path _ _ _ _ _ hd
  rw [hjoin] at hpath
  simp only [List.nil_append] at hpath
  cases t with
  | file n =>
    rw [keysNode_file] at hkt
    split at hkt
    · simp at hkt
      simp only [Tree.name] at hpath
      have := hp.length_le
      rw [hkt, ← hpath] at this
      simp at this
      omega
    · simp at hkt
  | dir n cs =>
    simp only [Tree.name] at hpath
    rw [keysNode_dir, if_pos (by rw [hpath]; exact hs)] at hkt
    simp at hkt

end Vgw.Model.Walk
