/-
  Serialisation along schedules, and calls that run one at a time: a call that runs alone from a
  state in which every call has returned answers what the plain map answers and leaves the
  committed image as the map prescribes.
-/
import Vgw.Lemmas.IAMSerial
import Vgw.Lemmas.IAMAfterAck
namespace Vgw.Model.IAM
open Vgw
open Vgw.Model.Gw (Account Role)

/-- a step of call i logs nothing but a decision of call i -/
theorem stepCall_log' (v : Variant) (cfg : Cfg) (σ : State) (i : Nat) (c : Call) :
    (stepCall v cfg σ i c).log = σ.log ∨ ∃ r, (stepCall v cfg σ i c).log = σ.log ++ [⟨i, c.op, r⟩] := by
  have hcs := (cacheStep_frame v cfg σ c.op).2.2.2.2.2.2.2.1
  unfold Model.IAM.stepCall
  repeat' split
  all_goals first
    | (left; rfl)
    | (left; simp only [State.setCall]; exact hcs)
    | (right; exact ⟨_, rfl⟩)

theorem stepCall_log (v : Variant) (cfg : Cfg) (σ : State) (i : Nat) (c : Call) :
    ∃ l, (stepCall v cfg σ i c).log = σ.log ++ l ∧ ∀ e ∈ l, e.id = i := by
  rcases stepCall_log' v cfg σ i c with h | ⟨r, h⟩
  · exact ⟨[], by simp [h], by simp⟩
  · exact ⟨_, h, by simp⟩

theorem act_log (v : Variant) (cfg : Cfg) (σ : State) (a : Act) :
    ∃ l, (act v cfg σ a).log = σ.log ++ l ∧ ∀ e ∈ l, ∀ i, a = .step i → e.id = i := by
  cases a with
  | step i =>
    simp only [Model.IAM.act, Model.IAM.stepAt]
    split
    · rename_i c _
      obtain ⟨l, h1, h2⟩ := stepCall_log v cfg σ i c
      exact ⟨l, h1, fun e he j hj => by cases hj; exact h2 e he⟩
    · exact ⟨[], by simp, by simp⟩
  | tick n => exact ⟨[], by simp [Model.IAM.act], by simp⟩
  | gc => exact ⟨[], by simp [Model.IAM.act], by simp⟩
  | invoke op => exact ⟨[], by simp [Model.IAM.act], by simp⟩

/-- the log only grows -/
theorem run_log_prefix (v : Variant) (cfg : Cfg) (σ : State) (acts : List Act) :
    ∃ l, (run v cfg σ acts).log = σ.log ++ l := by
  induction acts generalizing σ with
  | nil => exact ⟨[], by simp [Model.IAM.run]⟩
  | cons a rest ih =>
    obtain ⟨l1, h1, _⟩ := act_log v cfg σ a
    obtain ⟨l2, h2⟩ := ih (act v cfg σ a)
    exact ⟨l1 ++ l2, by simp only [Model.IAM.run, List.foldl_cons] at h2 ⊢; rw [h2, h1, List.append_assoc]⟩

theorem SInv.act {v : Variant} {cfg : Cfg} {s0 : Store} {σ : State} (hW : Wf cfg σ) (hT : TInv cfg σ)
    (h : SInv cfg s0 σ) (a : Act) : SInv cfg s0 (act v cfg σ a) := by
  cases a with
  | step i =>
    simp only [Model.IAM.act, Model.IAM.stepAt]
    split
    · rename_i c hi; exact h.stepCall hW hT hi
    · exact h
  | tick n => exact ⟨h.rep, h.ids, h.muts, h.own⟩
  | gc => exact ⟨h.rep, h.ids, h.muts, h.own⟩
  | invoke op =>
    refine ⟨h.rep, ?_, h.muts, ?_⟩
    · intro e he
      have := h.ids e he
      simp only [Model.IAM.act, List.length_append, List.length_singleton]; omega
    · intro j cj hj
      simp only [Model.IAM.act] at hj ⊢
      by_cases hlt : j < σ.calls.length
      · rw [List.getElem?_append_left hlt] at hj; exact h.own j cj hj
      · rw [List.getElem?_append_right (by omega)] at hj
        cases hd : j - σ.calls.length with
        | zero =>
          rw [hd] at hj; simp at hj; subst hj
          have : List.filter (fun e => e.id == j) σ.log = [] := by
            rw [List.filter_eq_nil_iff]
            intro e he
            have := h.ids e he
            simp; omega
          rw [this]
          simp only [ownLog, decided]
          split <;> rfl
        | succ n => rw [hd] at hj; simp at hj

theorem SInv.init (cfg : Cfg) (s : Store) (now : Nat) : SInv cfg s (Model.IAM.init s now) :=
  ⟨rfl, fun e he => by simp [Model.IAM.init] at he, fun e he => by simp [Model.IAM.init] at he,
   fun i c hi => by simp [Model.IAM.init] at hi⟩

/-- everything that holds in every reachable state, with the serialisation log -/
structure FullInv (v : Variant) (cfg : Cfg) (s0 : Store) (σ : State) : Prop where
  inv : Inv v cfg σ
  ser : SInv cfg s0 σ

theorem FullInv.act {v : Variant} {cfg : Cfg} {s0 : Store} {σ : State} (h : FullInv v cfg s0 σ) (a : Act)
    (hq : NeedsQuiet v → QuietStep v σ a) : FullInv v cfg s0 (act v cfg σ a) :=
  ⟨h.inv.act a hq, h.ser.act h.inv.wf h.inv.typ a⟩

theorem FullInv.run {v : Variant} {cfg : Cfg} {s0 : Store} {σ : State} (h : FullInv v cfg s0 σ) (acts : List Act)
    (hq : NeedsQuiet v → QuietRun v cfg σ acts) : FullInv v cfg s0 (run v cfg σ acts) := by
  induction acts generalizing σ with
  | nil => exact h
  | cons a rest ih => exact ih (h.act a (fun hn => (hq hn).1)) (fun hn => (hq hn).2)

theorem FullInv.init (v : Variant) (cfg : Cfg) (s : Store) (now : Nat) (hr : s.find cfg.root.access = none) :
    FullInv v cfg s (Model.IAM.init s now) :=
  ⟨Inv.init v cfg s now hr, SInv.init cfg s now⟩

/-! ### one call at a time -/

theorem stepN_eq_run (v : Variant) (cfg : Cfg) (σ : State) (n m : Nat) :
    stepN v cfg σ n m = run v cfg σ (List.replicate m (.step n)) := by
  induction m generalizing σ with
  | zero => rfl
  | succ m ih => simp only [stepN, List.replicate_succ, Model.IAM.run, List.foldl_cons, Model.IAM.act]; exact ih _

theorem call_eq_run (v : Variant) (cfg : Cfg) (σ : State) (op : Op) :
    call v cfg σ op = run v cfg σ (.invoke op :: List.replicate fuel (.step σ.calls.length)) := by
  simp only [Model.IAM.call, stepN_eq_run, Model.IAM.run, List.foldl_cons]

/-- alone, the side condition of the write-through revisions is only about the call's own create -/
theorem quietStep_alone {v : Variant} {σ : State} {n : Nat} (hA : Alone σ n)
    (hc : ∀ (c : Call) a, σ.calls[n]? = some c → c.op = .create a → entryOf v a = a) :
    QuietStep v σ (.step n) := by
  intro c b' hi hpc
  refine ⟨?_, fun a ha => hc c a hi ha⟩
  intro j cj hjn hj _
  have := hA j cj hjn hj
  cases hpc' : cj.pc <;> simp_all [isDone, pend]

theorem quietRun_alone {v : Variant} {cfg : Cfg} (m : Nat) : ∀ {σ : State} {n : Nat} {c : Call}, Alone σ n →
    σ.calls[n]? = some c → (∀ a, c.op = .create a → entryOf v a = a) →
    QuietRun v cfg σ (List.replicate m (.step n)) := by
  induction m with
  | zero => intro σ n c _ _ _; trivial
  | succ m ih =>
    intro σ n c hA hi hc
    simp only [List.replicate_succ, QuietRun]
    refine ⟨quietStep_alone hA (fun c' a hi' ha => by rw [hi] at hi'; cases hi'; exact hc a ha), ?_⟩
    obtain ⟨pc', hpc'⟩ := stepAt_op v cfg σ n c hi
    exact ih (hA.stepAt (v := v) (cfg := cfg)) hpc' hc

theorem alone_invoke {σ : State} (hQ : Quiescent σ) (op : Op) :
    Alone { σ with calls := σ.calls ++ [⟨op, .start⟩] } σ.calls.length := by
  intro j c hj hc
  simp only at hc
  by_cases hlt : j < σ.calls.length
  · rw [List.getElem?_append_left hlt] at hc; exact hQ j c hc
  · rw [List.getElem?_eq_none (by simp; omega)] at hc; cases hc

theorem quiescent_noMut {σ : State} (hQ : Quiescent σ) (k : Bytes) : NoMut σ k :=
  fun j c hj _ _ => hQ j c hj

/-- the abstract effect and answer of one call (listings: the answer is the sorted image) -/
def callSpec (cfg : Cfg) (s : Store) (op : Op) (s' : Store) (r : Res) : Prop :=
  match op with
  | .list => s' = s ∧ r = .accts (sortAccts s)
  | _ => Spec.IAM.apply cfg.root (abs s) op = (abs s', r)

theorem replay_single {cfg : Cfg} {s s' : Store} {i : Nat} {op : Op} {r : Res}
    (h : replay cfg s [⟨i, op, r⟩] = some s') :
    (mutateR cfg s op = .ok s' ∧ r = .ok) ∨ (mutateR cfg s op = .error r ∧ s' = s) := by
  simp only [replay] at h
  split at h
  · rename_i s'' hm
    split at h
    · rename_i hr; cases h; left; exact ⟨hm, hr⟩
    · cases h
  · rename_i e hm
    split at h
    · rename_i hr; cases h; right; exact ⟨by rw [hm, hr], rfl⟩
    · cases h

theorem replay_append' (cfg : Cfg) (s : Store) (l1 l2 : List LogEntry) :
    replay cfg s (l1 ++ l2) = (replay cfg s l1).bind (fun s' => replay cfg s' l2) := by
  induction l1 generalizing s with
  | nil => simp [replay]
  | cons x rest ih =>
    simp only [List.cons_append, replay]
    split
    · split
      · exact ih _
      · rfl
    · split
      · exact ih _
      · rfl

end Vgw.Model.IAM
