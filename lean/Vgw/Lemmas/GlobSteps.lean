/-
  C20: the two-pointer wildcard matcher `Model.Glob.loop` (Resources.Match, C14) does a bounded
  number of iterations: `loopSteps` counts them with the same control flow, and
  `loopSteps_le` bounds them by (|s|+1)·(|s|+|p|+1) — quadratic, whatever the number of `*`.
-/
import Vgw.Model.Glob
namespace Vgw.Model.Glob
open Vgw

/-- iterations of the first loop of `Resources.Match` from a given state (same tests as `loop`) -/
def loopSteps (p s : Bytes) (pi si : Nat) (st : Option Nat) (mi : Nat) (h : mi ≤ si) : Nat :=
  if hs : si < s.length then
    if hq : pi < p.length ∧ p[pi]? = some star then
      1 + loopSteps p s (pi + 1) si (some pi) si (by omega)
    else if hp : pi < p.length ∧ (p[pi]? = some qmark ∨ p[pi]? = some s[si]) then
      1 + loopSteps p s (pi + 1) (si + 1) st mi (by omega)
    else
      match st with
      | some k => 1 + loopSteps p s (k + 1) (mi + 1) (some k) (mi + 1) (by omega)
      | none => 1
  else 0
termination_by (s.length - mi, (s.length - si) + (p.length - pi))
decreasing_by
  · rcases Nat.lt_or_eq_of_le h with hlt | heq
    · apply Prod.Lex.left; omega
    · subst heq
      apply Prod.Lex.right'
      · omega
      · omega
  · apply Prod.Lex.right'
    · omega
    · omega
  · apply Prod.Lex.left; omega

/-- the invariant form of the bound: with B = |s| + |p| + 1,
steps + mi·B + si + pi ≤ |s|·B + |s| + |p| -/
theorem loopSteps_inv (p s : Bytes) (pi si : Nat) (st : Option Nat) (mi : Nat) (h : mi ≤ si)
    (hpi : pi ≤ p.length) (hsi : si ≤ s.length) (hst : ∀ k, st = some k → k < p.length) :
    loopSteps p s pi si st mi h + mi * (s.length + p.length + 1) + si + pi
      ≤ s.length * (s.length + p.length + 1) + s.length + p.length := by
  fun_induction loopSteps p s pi si st mi h with
  | case1 pi si st mi h hs hq ih =>
    have ih := ih (by omega) hsi (by intro k hk; cases hk; exact hq.1)
    have hm := Nat.mul_le_mul_right (s.length + p.length + 1) h
    omega
  | case2 pi si st mi h hs hq hp ih =>
    have ih := ih (by omega) (by omega) hst
    omega
  | case3 pi si mi h hs hq hp k _ ih =>
    have hk := hst k rfl
    have ih := ih (by omega) (by omega) (by intro k' hk'; cases hk'; exact hk)
    have e : (mi + 1) * (s.length + p.length + 1) = mi * (s.length + p.length + 1) + (s.length + p.length + 1) := Nat.succ_mul _ _
    omega
  | case4 pi si mi h hs hq hp _ =>
    have hm : (mi + 1) * (s.length + p.length + 1) ≤ s.length * (s.length + p.length + 1) :=
      Nat.mul_le_mul_right _ (by omega)
    have e : (mi + 1) * (s.length + p.length + 1) = mi * (s.length + p.length + 1) + (s.length + p.length + 1) := Nat.succ_mul _ _
    omega
  | case5 pi si st mi h hs =>
    have hm := Nat.mul_le_mul_right (s.length + p.length + 1) (Nat.le_trans h hsi)
    simp only [Nat.zero_add]
    omega

/-- a whole match: at most |s|·(|s|+|p|+1) + |s| + |p| iterations of the first loop -/
theorem loopSteps_le (p s : Bytes) :
    loopSteps p s 0 0 none 0 (Nat.le_refl 0) ≤ s.length * (s.length + p.length + 1) + s.length + p.length := by
  have := loopSteps_inv p s 0 0 none 0 (Nat.le_refl 0) (by omega) (by omega) (by intro k hk; cases hk)
  omega

end Vgw.Model.Glob
