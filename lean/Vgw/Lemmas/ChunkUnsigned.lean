/-
  Lemmas about Model.ChunkUnsigned on rendered (valid) streams.
-/
import Vgw.Lemmas.Chunked
namespace Vgw.Lemmas.ChunkUnsigned
open Vgw Vgw.Spec.Chunked Vgw.Model

/-! ### strings.TrimSpace on strings that start and end with a non-space ASCII byte -/

def HighFirst (pats : List Bytes) : Prop := ∀ p ∈ pats, ∃ b r, p = b :: r ∧ (128 : UInt8) ≤ b

theorem uniSpaces_high : HighFirst uniSpaces := by
  intro p hp
  simp [uniSpaces] at hp
  rcases hp with h | h | h | h | h | h | h | h | h | h | h | h | h | h | h | h | h | h | h <;> subst h <;>
    exact ⟨_, _, rfl, by decide⟩

theorem uniSpacesRev_high : HighFirst (uniSpaces.map List.reverse) := by
  intro p hp
  simp [uniSpaces] at hp
  rcases hp with h | h | h | h | h | h | h | h | h | h | h | h | h | h | h | h | h | h | h <;> subst h <;>
    exact ⟨_, _, rfl, by decide⟩

theorem find_none (pats : List Bytes) (hp : HighFirst pats) (c : UInt8) (t : Bytes) (hc : c < 128) :
    pats.find? (fun p => p.isPrefixOf (c :: t)) = none := by
  apply List.find?_eq_none.2
  intro p hpm
  obtain ⟨b, r, rfl, hb⟩ := hp p hpm
  have : b ≠ c := by
    intro e; subst e
    simp only [UInt8.le_iff_toNat_le, UInt8.lt_iff_toNat_lt, UInt8.reduceToNat] at *; omega
  simp [List.isPrefixOf, this]

theorem trimLeftFuel_stop (pats : List Bytes) (hp : HighFirst pats) (f : Nat) (c : UInt8) (t : Bytes)
    (hc : c < 128) (hs : isAsciiSpace c = false) : trimLeftFuel pats f (c :: t) = c :: t := by
  cases f with
  | zero => rfl
  | succ f => simp [trimLeftFuel, hs, find_none pats hp c t hc]

/-- a non-space ASCII byte -/
def Plain (c : UInt8) : Prop := c < 128 ∧ isAsciiSpace c = false

instance (c : UInt8) : Decidable (Plain c) := by unfold Plain; infer_instance

/-- a string with plain first and last byte is left alone, and a CRLF behind it is trimmed -/
theorem trimSpace_gen (s t u : Bytes) (c e : UInt8) (hs : s = c :: t) (hr : s.reverse = e :: u)
    (hc : Plain c) (he : Plain e) : trimSpace s = s ∧ trimSpace (s ++ [13, 10]) = s := by
  constructor
  · unfold trimSpace
    rw [hs, trimLeftFuel_stop _ uniSpaces_high _ c _ hc.1 hc.2, ← hs]
    simp only [hr]
    rw [trimLeftFuel_stop _ uniSpacesRev_high _ e _ he.1 he.2, ← hr]
    simp
  · unfold trimSpace
    have h1 : s ++ [13, 10] = c :: (t ++ [13, 10]) := by rw [hs]; rfl
    rw [h1, trimLeftFuel_stop _ uniSpaces_high _ c _ hc.1 hc.2, ← h1]
    have h2 : (s ++ [13, 10]).reverse = 10 :: 13 :: e :: u := by simp [hr]
    simp only [h2]
    have h3 : (s ++ [13, 10]).length = (u.length + 1) + 1 + 1 := by
      have := congrArg List.length hr
      simp at this ⊢; omega
    rw [h3]
    simp only [trimLeftFuel, show isAsciiSpace 10 = true from rfl, show isAsciiSpace 13 = true from rfl, if_true]
    simp only [he.2, find_none _ uniSpacesRev_high e u he.1]
    rw [← hr]
    simp

set_option maxRecDepth 8000 in
theorem hexDigit_plain_fin : ∀ n : Fin 256, isHexDigit (UInt8.ofNat n.val) = true →
    (UInt8.ofNat n.val < 128 ∧ isAsciiSpace (UInt8.ofNat n.val) = false) := by decide

theorem hexDigit_plain (c : UInt8) (h : isHexDigit c = true) : Plain c := by
  have := hexDigit_plain_fin ⟨c.toNat, c.toNat_lt⟩
  simp only [UInt8.ofNat_toNat] at this
  exact this h

/-! ### the reader on rendered streams -/

def ucfg (P : Params) : ChunkUnsigned.Cfg := { csum := P.csum, trailer := P.trailerName }

/-- side conditions on the trailer name ("x-amz-checksum-…" satisfies them) -/
structure UnsignedHyps (P : Params) : Prop where
  name_first : ∃ c t, P.trailerName = c :: t ∧ Plain c
  name_colon : (58 : UInt8) ∉ P.trailerName
  name_cr : (13 : UInt8) ∉ P.trailerName

theorem readLine_append (a r : Bytes) (h : (10 : UInt8) ∉ a) :
    ChunkUnsigned.readLine (a ++ 10 :: r) = some (a ++ [10], r) := by
  induction a with
  | nil => simp [ChunkUnsigned.readLine]
  | cons c cs ih =>
    simp at h
    have hne : c ≠ 10 := fun e => h.1 e.symm
    simp [ChunkUnsigned.readLine, hne, ih h.2]

theorem isHex_plain_ends {h : Bytes} {n : Nat} (hh : IsHex h n) :
    ∃ c t e u, h = c :: t ∧ h.reverse = e :: u ∧ Plain c ∧ Plain e := by
  have hall := isHex_all hh
  cases h with
  | nil => exact absurd rfl (isHex_ne_nil hh)
  | cons c t =>
    cases hr : (c :: t).reverse with
    | nil => simp at hr
    | cons e u =>
      refine ⟨c, t, e, u, rfl, rfl, hexDigit_plain c (hall c (by simp)), hexDigit_plain e (hall e ?_)⟩
      have : e ∈ (c :: t).reverse := by rw [hr]; simp
      simp at this; rcases this with h | h
      · simp [h]
      · simp [h]

theorem extract_hex (h rest : Bytes) (n : Nat) (hh : IsHex h n) (hn : n ≤ 5368709120) :
    ChunkUnsigned.extractChunkSize (h ++ crlf ++ rest) = some ((n : Int), rest) := by
  have e : h ++ crlf ++ rest = (h ++ [13]) ++ 10 :: rest := by simp [crlf]
  have h10 : (10 : UInt8) ∉ h ++ [13] := by
    simp only [List.mem_append, not_or]
    exact ⟨isHex_not_mem hh 10 not_hex_10, by decide⟩
  obtain ⟨c, t, e', u, hs, hr, hc, he⟩ := isHex_plain_ends hh
  unfold ChunkUnsigned.extractChunkSize
  rw [e, readLine_append _ _ h10]
  have : h ++ [13] ++ [10] = h ++ [13, 10] := by simp
  have hn' : n ≤ chunkBound := by unfold chunkBound; omega
  have hb : ¬ (((n : Nat) : Int) < 0 ∨ ((n : Nat) : Int) > ChunkUnsigned.maxUnsignedChunkSize) := by
    unfold ChunkUnsigned.maxUnsignedChunkSize; omega
  simp only [this, (trimSpace_gen h t u c e' hs hr hc he).2, parseIntHex64_of_isHex hh hn', hb, if_false]

theorem b64_plain : ∀ c : UInt8, (isB64 c = true ∨ c = 61) → Plain c := by
  intro c hc
  have key : ∀ n : Fin 256, (isB64 (UInt8.ofNat n.val) = true ∨ UInt8.ofNat n.val = 61) →
      (UInt8.ofNat n.val < 128 ∧ isAsciiSpace (UInt8.ofNat n.val) = false) := by
    set_option maxRecDepth 8000 in decide
  have := key ⟨c.toNat, c.toNat_lt⟩
  simp only [UInt8.ofNat_toNat] at this
  exact this hc

theorem readTrailer_ok (P : Params) (H : UnsignedHyps P) (st : ChunkUnsigned.State) (acc : Bytes)
    (hin : st.input = P.trailerName ++ [58] ++ checksumB64 P acc ++ crlf ++ crlf) (hh : st.hashAcc = acc) :
    (ChunkUnsigned.readTrailer (ucfg P) st).2 = .eof := by
  obtain ⟨c, t, hname, hc⟩ := H.name_first
  let line := P.trailerName ++ 58 :: checksumB64 P acc
  have hline13 : (13 : UInt8) ∉ line := by
    simp only [line, List.mem_append, List.mem_cons, not_or]
    exact ⟨H.name_cr, by decide, b64Encode_not_mem _ 13 (by decide) (by decide)⟩
  have e : st.input = line ++ 13 :: [10, 13, 10] := by simp [hin, line, crlf]
  -- the line is left alone by TrimSpace
  have htrim : trimSpace line = line := by
    cases hr : line.reverse with
    | nil => simp [line] at hr
    | cons e' u =>
      have he' : Plain e' := by
        have hrev : line.reverse = (checksumB64 P acc).reverse ++ 58 :: P.trailerName.reverse := by simp [line]
        rw [hrev] at hr
        cases hb : (checksumB64 P acc).reverse with
        | nil =>
          rw [hb] at hr; simp at hr
          rw [← hr.1]; exact ⟨by decide, by decide⟩
        | cons b bs =>
          rw [hb] at hr; simp at hr
          have hbm : b ∈ checksumB64 P acc := by
            have : b ∈ (checksumB64 P acc).reverse := by rw [hb]; simp
            simpa using this
          rw [← hr.1]
          exact b64_plain b (b64Encode_chars _ b hbm)
      exact (trimSpace_gen line (t ++ 58 :: checksumB64 P acc) u c e' (by simp [line, hname]) hr hc he').1
  unfold ChunkUnsigned.readTrailer
  rw [e, readUntil_append 13 line _ hline13]
  simp only [List.length_cons, List.length_nil]
  have hsplit : ChunkUnsigned.splitColon2 line = some (P.trailerName, checksumB64 P acc) := by
    unfold ChunkUnsigned.splitColon2
    have h58 : (58 : UInt8) ∉ checksumB64 P acc := b64Encode_not_mem _ 58 (by decide) (by decide)
    rw [show line = P.trailerName ++ 58 :: checksumB64 P acc from rfl,
      splitOn_append 58 _ _ H.name_colon, splitOn_of_not_mem 58 _ h58]
  simp [htrim, hsplit, ucfg, hh, checksumB64]

/-- the reader's position inside a rendered stream: `accp` = payload consumed from the wire so far -/
def Inv (P : Params) (hz : Bytes) (st : ChunkUnsigned.State) (accp : Bytes) (cs : List Chunk) : Prop :=
  st.input = renderUnsigned P accp cs hz ∧ st.hashAcc = accp

def ChunksOK (cs : List Chunk) : Prop :=
  ∀ c ∈ cs, IsHex c.1 c.2.length ∧ c.2 ≠ [] ∧ c.2.length ≤ 5368709120

theorem payloadOf_cons (h d : Bytes) (cs : List Chunk) : payloadOf ((h, d) :: cs) = d ++ payloadOf cs := by
  simp [payloadOf]

/-- **The chunk loop of `Read`** from a chunk boundary of a valid stream: either everything that is
left fits into the buffer (clean EOF after the verified trailer), or the buffer is filled exactly
and the rest of the chunk being copied is stashed. -/
theorem loop_spec (P : Params) (H : UnsignedHyps P) (hz : Bytes) (hhz : IsHex hz 0) (cap : Nat) :
    ∀ (cs : List Chunk) (st : ChunkUnsigned.State) (accp acc : Bytes) (fuel : Nat),
      ChunksOK cs → cs.length < fuel → Inv P hz st accp cs → acc.length ≤ cap →
      (∃ st', ChunkUnsigned.loop (ucfg P) cap fuel st acc = (st', ⟨acc ++ payloadOf cs, .eof⟩)) ∨
      (∃ st' out cs' accp', ChunkUnsigned.loop (ucfg P) cap fuel st acc = (st', ⟨acc ++ out, .nil⟩) ∧
        st'.stash ≠ [] ∧ out ++ st'.stash ++ payloadOf cs' = payloadOf cs ∧ Inv P hz st' accp' cs' ∧
        ChunksOK cs' ∧ (acc ++ out).length = cap) := by
  intro cs
  induction cs with
  | nil =>
    intro st accp acc fuel _ hfuel hinv _
    obtain ⟨fuel, rfl⟩ : ∃ f, fuel = f + 1 := ⟨fuel - 1, by omega⟩
    left
    obtain ⟨hin, hh⟩ := hinv
    have hin' : st.input = hz ++ crlf ++ (P.trailerName ++ [58] ++ checksumB64 P accp ++ crlf ++ crlf) := by
      simp [hin, renderUnsigned]
    have hx := extract_hex hz (P.trailerName ++ [58] ++ checksumB64 P accp ++ crlf ++ crlf) 0 hhz
      (by omega)
    rw [← hin'] at hx
    have ht := readTrailer_ok P H { st with input := P.trailerName ++ [58] ++ checksumB64 P accp ++ crlf ++ crlf }
      accp rfl hh
    rw [ChunkUnsigned.loop]
    simp only [hx]
    refine ⟨(ChunkUnsigned.readTrailer (ucfg P)
      { st with input := P.trailerName ++ [58] ++ checksumB64 P accp ++ crlf ++ crlf }).1, ?_⟩
    simp only [ht]
    simp [payloadOf]
  | cons c cs ih =>
    obtain ⟨h, d⟩ := c
    intro st accp acc fuel hok hfuel hinv hacc
    obtain ⟨fuel, rfl⟩ : ∃ f, fuel = f + 1 := ⟨fuel - 1, by omega⟩
    obtain ⟨hin, hh⟩ := hinv
    obtain ⟨hhd, hdne, hdmax⟩ := hok (h, d) (by simp)
    simp only at hhd hdne hdmax
    have hok' : ChunksOK cs := fun c hc => hok c (by simp [hc])
    have hdpos : 0 < d.length := List.length_pos_iff.2 hdne
    let R := renderUnsigned P (accp ++ d) cs hz
    have hin' : st.input = h ++ crlf ++ (d ++ crlf ++ R) := by simp [hin, renderUnsigned, R]
    have hx := extract_hex h (d ++ crlf ++ R) d.length hhd (by omega)
    rw [← hin'] at hx
    rw [ChunkUnsigned.loop]
    simp only [hx]
    have h0 : ¬ (((d.length : Nat) : Int) == 0) = true := by simp; omega
    have h2 : ¬ ((d ++ crlf ++ R).length < ((d.length : Nat) : Int).toNat) := by simp
    have htake : (d ++ crlf ++ R).take ((d.length : Nat) : Int).toNat = d := by simp
    have hdrop : (d ++ crlf ++ R).drop ((d.length : Nat) : Int).toNat = crlf ++ R := by simp
    have hskip : ChunkUnsigned.skipBytes [13, 10] (crlf ++ R) = .ok R := by
      simp [ChunkUnsigned.skipBytes, crlf, readAndSkip]
    simp only [h0, h2, htake, hdrop, hskip, if_false]
    by_cases hfit : min (cap - acc.length) d.length < d.length
    · -- the chunk does not fit: fill the buffer, stash the rest
      right
      simp only [hfit, if_true]
      refine ⟨_, d.take (min (cap - acc.length) d.length), cs, accp ++ d, rfl, ?_, ?_, ⟨rfl, by simp [hh]⟩, hok', ?_⟩
      · simp; omega
      · simp [payloadOf_cons]
      · simp; omega
    · -- the chunk fits: go on with the next one
      have hmin : min (cap - acc.length) d.length = d.length := by omega
      simp only [hmin, List.take_length]
      have := ih { st with input := R, hashAcc := st.hashAcc ++ d } (accp ++ d) (acc ++ d) fuel hok'
        (by simp at hfuel; omega) ⟨rfl, by simp [hh]⟩ (by simp; omega)
      rcases this with ⟨st', hl⟩ | ⟨st', out, cs', accp', hl, hs, hp, hi, hk, hlen⟩
      · left; exact ⟨st', by simp [hl, payloadOf_cons]⟩
      · right
        exact ⟨st', d ++ out, cs', accp', by simp [hl], hs, by simp [payloadOf_cons, ← hp], hi, hk, by simpa using hlen⟩

theorem renderUnsigned_length (P : Params) (cs : List Chunk) :
    ∀ (acc hz : Bytes), cs.length + 2 ≤ (renderUnsigned P acc cs hz).length := by
  induction cs with
  | nil => intro acc hz; simp [renderUnsigned, crlf]; omega
  | cons c cs ih =>
    intro acc hz
    obtain ⟨h, d⟩ := c
    have := ih (acc ++ d) hz
    simp [renderUnsigned, crlf] at this ⊢
    omega

/-- **One `Read(p)`** from a state inside a valid stream: it hands out a prefix of what is left
(pending stash + payload of the chunks still on the wire); either all of it together with a clean
EOF, or a non-empty piece (for a non-empty buffer) with the state again inside the stream. -/
theorem read_spec (P : Params) (H : UnsignedHyps P) (hz : Bytes) (hhz : IsHex hz 0) (cap : Nat)
    (cs : List Chunk) (st : ChunkUnsigned.State) (accp : Bytes) (hok : ChunksOK cs) (hinv : Inv P hz st accp cs) :
    (∃ st', ChunkUnsigned.read (ucfg P) st cap = (st', ⟨st.stash ++ payloadOf cs, .eof⟩)) ∨
    (∃ st' out cs' accp', ChunkUnsigned.read (ucfg P) st cap = (st', ⟨out, .nil⟩) ∧
      out ++ st'.stash ++ payloadOf cs' = st.stash ++ payloadOf cs ∧ Inv P hz st' accp' cs' ∧ ChunksOK cs' ∧
      (0 < cap → out ≠ [])) := by
  have hfuel : cs.length < st.input.length + 1 := by
    have := renderUnsigned_length P cs accp hz
    rw [hinv.1]; omega
  unfold ChunkUnsigned.read
  by_cases hs : st.stash = []
  · simp only [hs, ne_eq, not_true_eq_false, if_false, List.nil_append]
    rcases loop_spec P H hz hhz cap cs st accp [] _ hok hfuel hinv (by simp) with ⟨st', hl⟩ | ⟨st', out, cs', accp', hl, hs', hp, hi, hk, hlen⟩
    · left; exact ⟨st', by simpa using hl⟩
    · right
      refine ⟨st', out, cs', accp', by simpa using hl, hp, hi, hk, ?_⟩
      intro hc he; subst he; simp at hlen; omega
  · simp only [hs, ne_eq, not_false_eq_true, if_true]
    by_cases hlt : min cap st.stash.length < st.stash.length
    · right
      simp only [hlt, if_true]
      refine ⟨_, st.stash.take (min cap st.stash.length), cs, accp, rfl, by simp, hinv, hok, ?_⟩
      intro hc he
      have hpos : 0 < st.stash.length := List.length_pos_iff.2 hs
      rcases List.take_eq_nil_iff.1 he with h | h
      · rcases Nat.le_total cap st.stash.length with h' | h'
        · rw [Nat.min_eq_left h'] at h; omega
        · rw [Nat.min_eq_right h'] at h; omega
      · exact hs h
    · have hle : st.stash.length ≤ cap := by
        rcases Nat.le_total cap st.stash.length with h | h
        · rw [Nat.min_eq_left h] at hlt; omega
        · exact h
      have hmin : min cap st.stash.length = st.stash.length := Nat.min_eq_right hle
      simp only [hmin, Nat.lt_irrefl, if_false, List.take_length]
      rcases loop_spec P H hz hhz cap cs st accp st.stash _ hok hfuel hinv hle with ⟨st', hl⟩ | ⟨st', out, cs', accp', hl, hs', hp, hi, hk, hlen⟩
      · left; exact ⟨st', hl⟩
      · right
        refine ⟨st', st.stash ++ out, cs', accp', hl, by simp [← hp], hi, hk, ?_⟩
        intro _ he; simp at he; exact hs he.1

/-- **io.Copy over the unsigned reader**: from any state inside a valid stream, for every schedule of
non-empty buffers, the consumer receives exactly what is left and then a clean EOF. -/
theorem runFrom_spec (P : Params) (H : UnsignedHyps P) (hz : Bytes) (hhz : IsHex hz 0) (caps : Nat → Nat)
    (hcaps : ∀ i, 0 < caps i) :
    ∀ (m : Nat) (cs : List Chunk) (st : ChunkUnsigned.State) (accp out0 : Bytes) (fuel i : Nat),
      (st.stash ++ payloadOf cs).length ≤ m → m < fuel → ChunksOK cs → Inv P hz st accp cs →
      ChunkUnsigned.runFrom (ucfg P) caps fuel i st out0 = (out0 ++ st.stash ++ payloadOf cs, .eof) := by
  intro m
  induction m with
  | zero =>
    intro cs st accp out0 fuel i hm hf hok hinv
    obtain ⟨fuel, rfl⟩ : ∃ f, fuel = f + 1 := ⟨fuel - 1, by omega⟩
    rw [ChunkUnsigned.runFrom]
    rcases read_spec P H hz hhz (caps i) cs st accp hok hinv with ⟨st', hr⟩ | ⟨st', out, cs', accp', hr, hp, _, _, hne⟩
    · simp [hr]
    · exfalso
      have := hne (hcaps i)
      have hl := congrArg List.length hp
      simp only [List.length_append] at hl hm
      have : out.length = 0 := by omega
      exact hne (hcaps i) (List.length_eq_zero_iff.1 this)
  | succ m ih =>
    intro cs st accp out0 fuel i hm hf hok hinv
    obtain ⟨fuel, rfl⟩ : ∃ f, fuel = f + 1 := ⟨fuel - 1, by omega⟩
    rw [ChunkUnsigned.runFrom]
    rcases read_spec P H hz hhz (caps i) cs st accp hok hinv with ⟨st', hr⟩ | ⟨st', out, cs', accp', hr, hp, hi, hk, hne⟩
    · simp [hr]
    · simp only [hr]
      have hpos : 0 < out.length := List.length_pos_iff.2 (hne (hcaps i))
      have hl := congrArg List.length hp
      simp only [List.length_append] at hl hm
      rw [ih cs' st' accp' (out0 ++ out) fuel (i + 1) (by simp only [List.length_append]; omega) (by omega) hk hi]
      simp [← hp]

end Vgw.Lemmas.ChunkUnsigned
