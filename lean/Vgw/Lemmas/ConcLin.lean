/-
  Lemmas about Model.Conc, part 6: linearization points read off the trace — the rename of a
  writer, the unlink (or the stat that finds nothing) of a DELETE, the open of a reader — and the
  time facts about them.
-/
import Vgw.Lemmas.ConcFd
import Vgw.Lemmas.ConcMissing
import Vgw.Model.ConcHist
namespace Vgw.Model.Conc
open Vgw.Spec.Register

/-- is this step the linearization point of its request? -/
def isLinEv (e : Ev) : Bool :=
  match e.act with
  | .rename | .dunlink | .ropen => true
  | .dstat | .linkatx => e.saw.isNone
  | _ => false

/-- (time, request) of the linearization points, oldest first. -/
def ptsT : List Ev → List (Nat × Nat)
  | [] => []
  | e :: tr => ptsT tr ++ (if isLinEv e then [(tr.length, e.rid)] else [])

theorem ptsT_lt (tr : List Ev) : ∀ p ∈ ptsT tr, p.1 < tr.length := by
  induction tr with
  | nil => intro p hp; cases hp
  | cons e tr ih =>
    intro p hp
    simp only [ptsT, List.mem_append] at hp
    rcases hp with h | h
    · have := ih p h; simp only [List.length_cons]; omega
    · split at h
      · simp only [List.mem_singleton] at h; subst h; simp
      · cases h

theorem pairwise_append_single {l : List Nat} {x : Nat} (h : l.Pairwise (· < ·)) (hx : ∀ y ∈ l, y < x) :
    (l ++ [x]).Pairwise (· < ·) := by
  rw [List.pairwise_append]
  exact ⟨h, List.pairwise_singleton _ _, by intro a ha b hb; simp only [List.mem_singleton] at hb; subst hb; exact hx a ha⟩

theorem ptsT_sorted (tr : List Ev) : ((ptsT tr).map (·.1)).Pairwise (· < ·) := by
  induction tr with
  | nil => exact List.Pairwise.nil
  | cons e tr ih =>
    simp only [ptsT]
    split
    · rw [List.map_append]
      apply pairwise_append_single ih
      intro y hy
      obtain ⟨p, hp, rfl⟩ := List.mem_map.1 hy
      exact ptsT_lt tr p hp
    · simpa using ih

theorem invT_cons (i : Nat) (e : Ev) (tr : List Ev) :
    invT i (e :: tr) = match invT i tr with
      | some t => some t
      | none => if e.rid = i then some tr.length else none := rfl

theorem invT_lt (i : Nat) (tr : List Ev) (t : Nat) (h : invT i tr = some t) : t < tr.length := by
  induction tr with
  | nil => cases h
  | cons e tr ih =>
    rw [invT_cons] at h
    cases hi : invT i tr with
    | some t0 =>
      rw [hi] at h; simp only [Option.some.injEq] at h; subst h
      have := ih hi; simp only [List.length_cons]; omega
    | none =>
      rw [hi] at h
      by_cases he : e.rid = i
      · simp only [he, if_true, Option.some.injEq] at h; subst h; simp
      · simp [he] at h

theorem invT_cons_of_some (i : Nat) (e : Ev) (tr : List Ev) (t : Nat) (h : invT i tr = some t) : invT i (e :: tr) = some t := by
  simp [invT, h]

/-- every linearization point of request `i` lies after `i`'s first step. -/
theorem ptsT_inv (tr : List Ev) : ∀ p ∈ ptsT tr, ∃ t0, invT p.2 tr = some t0 ∧ t0 ≤ p.1 := by
  induction tr with
  | nil => intro p hp; cases hp
  | cons e tr ih =>
    intro p hp
    simp only [ptsT, List.mem_append] at hp
    rcases hp with h | h
    · obtain ⟨t0, h0, hle⟩ := ih p h
      exact ⟨t0, invT_cons_of_some _ _ _ _ h0, hle⟩
    · split at h
      · simp only [List.mem_singleton] at h; subst h
        simp only [invT]
        cases hi : invT e.rid tr with
        | some t0 => exact ⟨t0, rfl, Nat.le_of_lt (invT_lt _ _ _ hi)⟩
        | none => exact ⟨tr.length, by simp, Nat.le_refl _⟩
      · cases h

theorem retT_cons (i : Nat) (e : Ev) (tr : List Ev) :
    retT i (e :: tr) = if e.rid = i ∧ e.fin = true then some tr.length else retT i tr := rfl


/-! ### shapes of writer and DELETE requests (rename-only publication) -/

def Act.isWAct : Act → Bool
  | .wstat | .opentmp | .setattr _ _ | .lstat | .rename | .linkatx | .linktmp | .cstat => true
  | _ => false

/-- the publishing steps of the strategies that never remove the name. -/
def Act.isRPub : Act → Bool
  | .rename | .linkatx => true
  | _ => false

/-- writer: only writer steps, at most one publishing step ahead, `cstat` only as the very last
    step; no answer before the program is exhausted. -/
structure WState (l : Local) : Prop where
  acts : ∀ a ∈ l.prog, a.isWAct = true
  one : (l.prog.filter Act.isRPub).length ≤ 1
  clast : ∀ pre post, l.prog = pre ++ .cstat :: post → post = []
  res : (l.prog ≠ [] → l.result = none) ∧ (l.prog = [] → l.result = some .ok ∨ l.result = some .err)

inductive DState (l : Local) : Prop where
  | d0 : l.prog = [.dstat, .dunlink] → l.result = none → DState l
  | d1 : l.prog = [.dunlink] → l.result = none → DState l
  | d2 : l.prog = [] → l.result = some .ok → DState l
  | d3 : l.prog = [.rmdirProbe] → l.result = some .noSuchKey → DState l
  | d4 : l.prog = [] → l.result = some .noSuchKey → DState l

/-- has the request passed its linearization point? -/
def passed (rq : Req) (l : Local) : Prop :=
  match rq.kind with
  | .put | .copy | .mpu => ∀ a ∈ l.prog, a.isRPub = false
  | .delete => Act.dunlink ∉ l.prog
  | .get | .head => Act.ropen ∉ l.prog

theorem program_writer_shape (c : Cfg) (rq : Req) (hs : renameOnlyStrat c.strat) (hw : rq.kind.isWrite = true) :
    WState { prog := program c rq } := by
  have hpub : ∀ x ∈ publishProg c.strat, x.isWAct = true := by
    rcases hs with h | h | h <;> rw [h] <;> simp [publishProg, Act.isWAct]
  have hset : ∀ (l : List (Attr × Val)), ∀ x ∈ setProg l, x.isWAct = true := by
    intro l x hx; simp only [setProg, List.mem_map] at hx; obtain ⟨_, _, rfl⟩ := hx; rfl
  have hsetf : ∀ (l : List (Attr × Val)), (setProg l).filter Act.isRPub = [] := by
    intro l; simp only [setProg, List.filter_eq_nil_iff, List.mem_map]
    rintro a ⟨p, _, rfl⟩; simp [Act.isRPub]
  have hpubf : ((publishProg c.strat).filter Act.isRPub).length = 1 := by
    rcases hs with h | h | h <;> rw [h] <;> rfl
  have hsetc : ∀ (l : List (Attr × Val)), Act.cstat ∉ setProg l := by
    intro l hx; simp only [setProg, List.mem_map] at hx; obtain ⟨_, _, h⟩ := hx; cases h
  have hpubc : Act.cstat ∉ publishProg c.strat := by
    rcases hs with h | h | h <;> rw [h] <;> simp [publishProg]
  cases hk : rq.kind <;> simp [hk, Kind.isWrite] at hw
  · -- put
    refine ⟨?_, ?_, ?_, ?_⟩
    · intro a ha
      simp only [program, hk, List.mem_append, List.mem_cons, List.not_mem_nil, or_false] at ha
      rcases ha with ((rfl | rfl) | h) | h
      · rfl
      · rfl
      · exact hset _ a h
      · exact hpub a h
    · simp only [program, hk, List.filter_append, hsetf, List.length_append, hpubf]; simp [Act.isRPub]
    · intro pre post h
      simp only [program, hk] at h
      have : Act.cstat ∈ [Act.wstat, Act.opentmp] ++ setProg rq.w.attrs ++ publishProg c.strat := by rw [h]; simp
      simp only [List.mem_append, List.mem_cons, List.not_mem_nil, or_false] at this
      rcases this with ((h1 | h1) | h1) | h1
      · cases h1
      · cases h1
      · exact absurd h1 (hsetc _)
      · exact absurd h1 hpubc
    · refine ⟨fun _ => rfl, ?_⟩
      intro h; simp [program, hk] at h
  · -- copy
    refine ⟨?_, ?_, ?_, ?_⟩
    · intro a ha
      simp only [program, hk, List.mem_append, List.mem_cons, List.not_mem_nil, or_false] at ha
      rcases ha with (((rfl | rfl) | h) | h) | rfl
      · rfl
      · rfl
      · exact hset _ a h
      · exact hpub a h
      · rfl
    · simp only [program, hk, List.filter_append, hsetf, List.length_append, hpubf]; simp [Act.isRPub]
    · intro pre post h
      simp only [program, hk] at h
      -- the only cstat is the last element
      have hne : Act.cstat ∉ [Act.wstat, Act.opentmp] ++ setProg rq.w.attrs ++ publishProg c.strat := by
        simp only [List.mem_append, List.mem_cons, List.not_mem_nil, or_false]
        rintro (((h1 | h1) | h1) | h1)
        · cases h1
        · cases h1
        · exact hsetc _ h1
        · exact hpubc h1
      rcases List.append_eq_append_iff.1 h with ⟨as, h1, h2⟩ | ⟨bs, h1, h2⟩
      · cases as with
        | nil => simp at h2; exact h2
        | cons x as =>
          simp only [List.cons_append, List.cons.injEq] at h2
          have := h2.2; simp at this
      · cases bs with
        | nil => simp at h2; exact h2
        | cons x bs =>
          exfalso; apply hne; rw [h1]; simp only [List.cons_append, List.cons.injEq] at h2
          rw [h2.1]; simp
    · refine ⟨fun _ => rfl, ?_⟩
      intro h; simp [program, hk] at h
  · -- mpu
    refine ⟨?_, ?_, ?_, ?_⟩
    · intro a ha
      simp only [program, hk, List.mem_append, List.mem_cons, List.not_mem_nil, or_false] at ha
      rcases ha with (((rfl | rfl) | h) | h) | h
      · rfl
      · rfl
      · exact hset _ a h
      · exact hset _ a h
      · exact hpub a h
    · simp only [program, hk, List.filter_append, hsetf, List.length_append, hpubf]; simp [Act.isRPub]
    · intro pre post h
      simp only [program, hk] at h
      have : Act.cstat ∈ [Act.opentmp, Act.wstat] ++ setProg (rq.w.attrs.filter (·.1.isHdr)) ++
          setProg (rq.w.attrs.filter (!·.1.isHdr)) ++ publishProg c.strat := by rw [h]; simp
      simp only [List.mem_append, List.mem_cons, List.not_mem_nil, or_false] at this
      rcases this with (((h1 | h1) | h1) | h1) | h1
      · cases h1
      · cases h1
      · exact absurd h1 (hsetc _)
      · exact absurd h1 (hsetc _)
      · exact absurd h1 hpubc
    · refine ⟨fun _ => rfl, ?_⟩
      intro h; simp [program, hk] at h

end Vgw.Model.Conc
