/-
  The lock / file invariant of Model.IAM (`LInv`): who holds the store mutex, and what the files
  look like at every program point of a writer.  Holds for every variant, every schedule.
-/
import Vgw.Lemmas.IAMStore
namespace Vgw.Model.IAM
open Vgw
open Vgw.Model.Gw (Account Role)

/-- program points inside `s.Lock()` … `s.Unlock()` -/
def inW : PC → Bool
  | .mLocked | .mRead _ | .mRemoved _ | .mBackedUp _ | .mTemp _ | .mRenamed | .mFailed _ => true
  | _ => false

/-- program points inside `s.RLock()` … `s.RUnlock()` -/
def inR : PC → Bool
  | .gRLocked _ | .gGot _ _ | .lRLocked | .lGot _ => true
  | _ => false

/-- what holds at a program point, about the files and the call's local variables -/
def PcL (cfg : Cfg) (σ : State) (c : Call) : Prop :=
  match c.pc with
  | .mLocked => σ.main = some σ.committed ∧ σ.temp = none
  | .mRead b => b = σ.committed ∧ σ.main = some σ.committed ∧ σ.temp = none
  | .mRemoved b => b = σ.committed ∧ σ.main = none ∧ σ.temp = none
  | .mBackedUp b => b = σ.committed ∧ σ.main = none ∧ σ.temp = none ∧ σ.backup = some b
  | .mTemp b' => mutate σ.committed c.op = .ok b' ∧ σ.main = none ∧ σ.temp = some b'
  | .mRenamed => σ.main = some σ.committed ∧ σ.temp = none
  | .mFailed _ => σ.main = some σ.committed ∧ σ.temp = none
  | .gRLocked _ => c.op.key ≠ cfg.root.access
  | .gGot r _ => c.op.key ≠ cfg.root.access ∧ r = σ.committed.find c.op.key
  | .lGot s => s = σ.committed
  | _ => True

structure CallL (cfg : Cfg) (σ : State) (i : Nat) (c : Call) : Prop where
  w : inW c.pc = true ↔ σ.writer = some i
  r : inR c.pc = true ↔ i ∈ σ.readers
  pc : PcL cfg σ c

structure LInv (cfg : Cfg) (σ : State) : Prop where
  /-- nobody writes: users.json is the complete committed image, no temp file lies around -/
  free : σ.writer = none → σ.main = some σ.committed ∧ σ.temp = none
  excl : σ.writer ≠ none → σ.readers = []
  calls : ∀ i c, σ.calls[i]? = some c → CallL cfg σ i c

theorem CallL.of_eq {cfg : Cfg} {σ σ' : State} {j : Nat} {c : Call}
    (hw : σ'.writer = σ.writer) (hr : j ∈ σ'.readers ↔ j ∈ σ.readers)
    (hm : σ'.main = σ.main) (ht : σ'.temp = σ.temp) (hb : σ'.backup = σ.backup) (hc : σ'.committed = σ.committed)
    (h : CallL cfg σ j c) : CallL cfg σ' j c := by
  refine ⟨by rw [hw]; exact h.w, by rw [hr]; exact h.r, ?_⟩
  have := h.pc
  unfold PcL at this ⊢
  rw [hm, ht, hb, hc]
  exact this

theorem PcL.of_unlocked {cfg : Cfg} {σ' : State} {c : Call} (hw : inW c.pc = false) (hr : inR c.pc = false) :
    PcL cfg σ' c := by
  unfold PcL
  cases hpc : c.pc <;> simp_all [inW, inR]

theorem CallL.of_unlocked {cfg : Cfg} {σ' : State} {j : Nat} {c : Call}
    (hw : inW c.pc = false) (hr : inR c.pc = false) (hw' : σ'.writer ≠ some j) (hr' : j ∉ σ'.readers) :
    CallL cfg σ' j c :=
  ⟨by simp [hw, hw'], by simp [hr, hr'], PcL.of_unlocked hw hr⟩

/-- while somebody else holds the write lock, a call is outside both critical sections -/
theorem CallL.unlocked_of_writer {cfg : Cfg} {σ : State} {i j : Nat} {c : Call} (hI : LInv cfg σ)
    (hwr : σ.writer = some i) (hij : j ≠ i) (h : CallL cfg σ j c) : inW c.pc = false ∧ inR c.pc = false := by
  constructor
  · cases hw : inW c.pc
    · rfl
    · have := h.w.mp hw
      rw [hwr] at this
      exact absurd (Option.some.inj this).symm hij
  · cases hr : inR c.pc
    · rfl
    · have := h.r.mp hr
      rw [hI.excl (by rw [hwr]; simp)] at this
      cases this

theorem getElem?_setCall {σ : State} {i j : Nat} {c' : Call} :
    (σ.setCall i c').calls[j]? = if i = j then (if i < σ.calls.length then some c' else none) else σ.calls[j]? := by
  simp only [State.setCall, List.getElem?_set]

/-- the generic shape of a step: call i moves to c', the rest of the state changes to σ₁ -/
theorem LInv.step {cfg : Cfg} {σ σ₁ : State} {i : Nat} {c c' : Call}
    (hi : σ.calls[i]? = some c) (hcalls : σ₁.calls = σ.calls)
    (hfree : σ₁.writer = none → σ₁.main = some σ₁.committed ∧ σ₁.temp = none)
    (hexcl : σ₁.writer ≠ none → σ₁.readers = [])
    (hself : CallL cfg σ₁ i c')
    (hothers : ∀ j cj, j ≠ i → σ.calls[j]? = some cj → CallL cfg σ₁ j cj) :
    LInv cfg (σ₁.setCall i c') := by
  refine ⟨hfree, hexcl, ?_⟩
  intro j cj hj
  rw [getElem?_setCall, hcalls] at hj
  have key : ∀ (τ : State), CallL cfg σ₁ j cj → CallL cfg (σ₁.setCall i c') j cj := fun _ h =>
    CallL.of_eq (σ := σ₁) (σ' := σ₁.setCall i c') rfl Iff.rfl rfl rfl rfl rfl h
  by_cases hij : i = j
  · subst hij
    simp only [if_true] at hj
    split at hj
    · cases hj; exact key σ₁ hself
    · cases hj
  · simp only [hij, if_false] at hj
    exact key σ₁ (hothers j cj (fun e => hij e.symm) hj)

/-- others keep their invariant when nothing they can see changes -/
theorem LInv.others_same {cfg : Cfg} {σ σ₁ : State} {i : Nat} (hI : LInv cfg σ)
    (hw : σ₁.writer = σ.writer) (hr : ∀ j, j ≠ i → (j ∈ σ₁.readers ↔ j ∈ σ.readers))
    (hm : σ₁.main = σ.main) (ht : σ₁.temp = σ.temp) (hb : σ₁.backup = σ.backup) (hc : σ₁.committed = σ.committed) :
    ∀ j cj, j ≠ i → σ.calls[j]? = some cj → CallL cfg σ₁ j cj :=
  fun j cj hij hj => CallL.of_eq hw (hr j hij) hm ht hb hc (hI.calls j cj hj)

/-- others are outside the critical sections while call i holds the write lock -/
theorem LInv.others_writer {cfg : Cfg} {σ σ₁ : State} {i : Nat} (hI : LInv cfg σ)
    (hwr : σ.writer = some i) (hw1 : σ₁.writer = some i ∨ σ₁.writer = none) (hr1 : σ₁.readers = []) :
    ∀ j cj, j ≠ i → σ.calls[j]? = some cj → CallL cfg σ₁ j cj := by
  intro j cj hij hj
  obtain ⟨h1, h2⟩ := CallL.unlocked_of_writer hI hwr hij (hI.calls j cj hj)
  refine CallL.of_unlocked h1 h2 ?_ (by simp [hr1])
  rcases hw1 with h | h <;> rw [h] <;> simp
  exact fun e => hij e.symm

/-- others are outside the critical sections when call i can take the write lock -/
theorem LInv.others_acquire {cfg : Cfg} {σ σ₁ : State} {i : Nat} (hI : LInv cfg σ)
    (hwr : σ.writer = none) (hrd : σ.readers = []) (hw1 : σ₁.writer = some i) (hr1 : σ₁.readers = []) :
    ∀ j cj, j ≠ i → σ.calls[j]? = some cj → CallL cfg σ₁ j cj := by
  intro j cj hij hj
  have h := hI.calls j cj hj
  have h1 : inW cj.pc = false := by
    cases hw : inW cj.pc
    · rfl
    · have := h.w.mp hw; rw [hwr] at this; cases this
  have h2 : inR cj.pc = false := by
    cases hr : inR cj.pc
    · rfl
    · have := h.r.mp hr; rw [hrd] at this; cases this
  refine CallL.of_unlocked h1 h2 ?_ (by simp [hr1])
  rw [hw1]; simp
  exact fun e => hij e.symm

theorem LInv.stepCall {v : Variant} {cfg : Cfg} {σ : State} {i : Nat} {c : Call}
    (hI : LInv cfg σ) (hi : σ.calls[i]? = some c) : LInv cfg (stepCall v cfg σ i c) := by
  have hc := hI.calls i c hi
  unfold Model.IAM.stepCall
  split
  · -- start
    rename_i hpc
    have hnw : σ.writer ≠ some i := fun e => by have := hc.w.mpr e; simp [hpc, inW] at this
    have hnr : i ∉ σ.readers := fun e => by have := hc.r.mpr e; simp [hpc, inR] at this
    split
    · -- get
      split
      · exact LInv.step hi rfl hI.free hI.excl (CallL.of_unlocked rfl rfl hnw hnr)
          (hI.others_same rfl (fun _ _ => Iff.rfl) rfl rfl rfl rfl)
      · exact LInv.step hi rfl hI.free hI.excl (CallL.of_unlocked rfl rfl hnw hnr)
          (hI.others_same rfl (fun _ _ => Iff.rfl) rfl rfl rfl rfl)
    · -- list
      split
      · rename_i hw
        have hw : σ.writer = none := by simpa using hw
        refine LInv.step (σ₁ := { σ with readers := i :: σ.readers }) hi rfl hI.free (fun h => absurd hw h) ?_ ?_
        · exact ⟨by simp [inW, hnw], by simp [inR], trivial⟩
        · exact hI.others_same rfl (fun j hj => by simp [hj]) rfl rfl rfl rfl
      · exact hI
    · -- create
      split
      · exact LInv.step (σ₁ := { σ with log := _ }) hi rfl hI.free hI.excl (CallL.of_unlocked rfl rfl hnw hnr)
          (hI.others_same rfl (fun _ _ => Iff.rfl) rfl rfl rfl rfl)
      · split
        · rename_i hw
          simp only [Bool.and_eq_true, Option.isNone_iff_eq_none, List.isEmpty_iff] at hw
          have hf := hI.free hw.1
          refine LInv.step (σ₁ := { σ with writer := some i }) hi rfl (by simp) (fun _ => hw.2) ?_ ?_
          · exact ⟨by simp [inW], by simp [inR, hw.2], hf⟩
          · exact hI.others_acquire hw.1 hw.2 rfl hw.2
        · exact hI
    · -- update / delete
      split
      · rename_i hw
        simp only [Bool.and_eq_true, Option.isNone_iff_eq_none, List.isEmpty_iff] at hw
        have hf := hI.free hw.1
        refine LInv.step (σ₁ := { σ with writer := some i }) hi rfl (by simp) (fun _ => hw.2) ?_ ?_
        · exact ⟨by simp [inW], by simp [inR, hw.2], hf⟩
        · exact hI.others_acquire hw.1 hw.2 rfl hw.2
      · exact hI
  · -- mLocked
    rename_i hpc
    have hwr : σ.writer = some i := hc.w.mp (by simp [hpc, inW])
    have hrd : σ.readers = [] := hI.excl (by simp [hwr])
    have hp := hc.pc; simp only [PcL, hpc] at hp
    split
    · rename_i b hb
      have : b = σ.committed := by rw [hp.1] at hb; exact (Option.some.inj hb).symm
      refine LInv.step hi rfl hI.free hI.excl ⟨by simp [inW, hwr], by simp [inR, hrd], ?_⟩
        (hI.others_same rfl (fun _ _ => Iff.rfl) rfl rfl rfl rfl)
      simp only [PcL]; exact ⟨this, hp.1, hp.2⟩
    · exact hI
  · -- mRead
    rename_i b hpc
    have hwr : σ.writer = some i := hc.w.mp (by simp [hpc, inW])
    have hrd : σ.readers = [] := hI.excl (by simp [hwr])
    have hp := hc.pc; simp only [PcL, hpc] at hp
    refine LInv.step (σ₁ := { σ with main := none }) hi rfl (by simp [hwr]) (fun _ => hrd)
      ⟨by simp [inW, hwr], by simp [inR, hrd], ?_⟩ (hI.others_writer hwr (Or.inl hwr) hrd)
    simp only [PcL]; exact ⟨hp.1, trivial, hp.2.2⟩
  · -- mRemoved
    rename_i b hpc
    have hwr : σ.writer = some i := hc.w.mp (by simp [hpc, inW])
    have hrd : σ.readers = [] := hI.excl (by simp [hwr])
    have hp := hc.pc; simp only [PcL, hpc] at hp
    refine LInv.step (σ₁ := { σ with backup := some b }) hi rfl (by simp [hwr]) (fun _ => hrd)
      ⟨by simp [inW, hwr], by simp [inR, hrd], ?_⟩ (hI.others_writer hwr (Or.inl hwr) hrd)
    simp only [PcL]; exact ⟨hp.1, hp.2.1, hp.2.2, trivial⟩
  · -- mBackedUp
    rename_i b hpc
    have hwr : σ.writer = some i := hc.w.mp (by simp [hpc, inW])
    have hrd : σ.readers = [] := hI.excl (by simp [hwr])
    have hp := hc.pc; simp only [PcL, hpc] at hp
    split
    · rename_i e he
      refine LInv.step (σ₁ := { σ with main := some b, log := _ }) hi rfl (by simp [hwr]) (fun _ => hrd)
        ⟨by simp [inW, hwr], by simp [inR, hrd], ?_⟩ (hI.others_writer hwr (Or.inl hwr) hrd)
      simp only [PcL]; exact ⟨by rw [hp.1], hp.2.2.1⟩
    · rename_i b' hb'
      refine LInv.step (σ₁ := { σ with temp := some b' }) hi rfl (by simp [hwr]) (fun _ => hrd)
        ⟨by simp [inW, hwr], by simp [inR, hrd], ?_⟩ (hI.others_writer hwr (Or.inl hwr) hrd)
      simp only [PcL]; exact ⟨by rw [← hp.1]; exact hb', hp.2.1, trivial⟩
  · -- mTemp
    rename_i b' hpc
    have hwr : σ.writer = some i := hc.w.mp (by simp [hpc, inW])
    have hrd : σ.readers = [] := hI.excl (by simp [hwr])
    refine LInv.step (σ₁ := { σ with main := some b', temp := none, committed := b', log := _ }) hi rfl (by simp [hwr]) (fun _ => hrd)
      ⟨by simp [inW, hwr], by simp [inR, hrd], ?_⟩ (hI.others_writer hwr (Or.inl hwr) hrd)
    simp only [PcL]; exact ⟨trivial, trivial⟩
  · -- mRenamed
    rename_i hpc
    have hwr : σ.writer = some i := hc.w.mp (by simp [hpc, inW])
    have hrd : σ.readers = [] := hI.excl (by simp [hwr])
    have hp := hc.pc; simp only [PcL, hpc] at hp
    refine LInv.step (σ₁ := { σ with writer := none }) hi rfl (fun _ => hp) (fun h => absurd rfl h)
      ⟨by simp [inW], by simp [inR, hrd], trivial⟩ (hI.others_writer hwr (Or.inr rfl) hrd)
  · -- mFailed
    rename_i e hpc
    have hwr : σ.writer = some i := hc.w.mp (by simp [hpc, inW])
    have hrd : σ.readers = [] := hI.excl (by simp [hwr])
    have hp := hc.pc; simp only [PcL, hpc] at hp
    refine LInv.step (σ₁ := { σ with writer := none }) hi rfl (fun _ => hp) (fun h => absurd rfl h)
      ⟨by simp [inW], by simp [inR, hrd], trivial⟩ (hI.others_writer hwr (Or.inr rfl) hrd)
  · -- mCache
    rename_i hpc
    have hnw : σ.writer ≠ some i := fun e => by have := hc.w.mpr e; simp [hpc, inW] at this
    have hnr : i ∉ σ.readers := fun e => by have := hc.r.mpr e; simp [hpc, inR] at this
    have hcs : ∀ σ₁ : State, σ₁ = cacheStep v cfg σ c.op →
        σ₁.writer = σ.writer ∧ σ₁.readers = σ.readers ∧ σ₁.main = σ.main ∧ σ₁.temp = σ.temp ∧
        σ₁.backup = σ.backup ∧ σ₁.committed = σ.committed ∧ σ₁.calls = σ.calls := by
      intro σ₁ h
      subst h
      unfold cacheStep
      split
      · simp
      · split
        · simp
        · split <;> simp
    obtain ⟨e1, e2, e3, e4, e5, e6, e7⟩ := hcs _ rfl
    refine LInv.step hi e7 (by rw [e1, e3, e4, e6]; exact hI.free) (by rw [e1, e2]; exact hI.excl)
      (CallL.of_unlocked rfl rfl (by rw [e1]; exact hnw) (by rw [e2]; exact hnr))
      (hI.others_same e1 (fun _ _ => by rw [e2]) e3 e4 e5 e6)
  · -- gMiss
    rename_i g hpc
    have hnw : σ.writer ≠ some i := fun e => by have := hc.w.mpr e; simp [hpc, inW] at this
    have hnr : i ∉ σ.readers := fun e => by have := hc.r.mpr e; simp [hpc, inR] at this
    split
    · exact LInv.step hi rfl hI.free hI.excl (CallL.of_unlocked rfl rfl hnw hnr)
        (hI.others_same rfl (fun _ _ => Iff.rfl) rfl rfl rfl rfl)
    · rename_i hroot
      split
      · rename_i hw
        have hw : σ.writer = none := by simpa using hw
        refine LInv.step (σ₁ := { σ with readers := i :: σ.readers }) hi rfl hI.free (fun h => absurd hw h) ?_ ?_
        · refine ⟨by simp [inW, hnw], by simp [inR], ?_⟩
          simp only [PcL]; simpa using hroot
        · exact hI.others_same rfl (fun j hj => by simp [hj]) rfl rfl rfl rfl
      · exact hI
  · -- gRLocked
    rename_i g hpc
    have hrd : i ∈ σ.readers := hc.r.mp (by simp [hpc, inR])
    have hnw : σ.writer = none := by
      cases hw : σ.writer with
      | none => rfl
      | some w => have := hI.excl (by simp [hw]); rw [this] at hrd; cases hrd
    have hp := hc.pc; simp only [PcL, hpc] at hp
    split
    · rename_i s hs
      have : s = σ.committed := by rw [(hI.free hnw).1] at hs; exact (Option.some.inj hs).symm
      refine LInv.step hi rfl hI.free hI.excl ⟨by simp [inW, hnw], by simp [inR, hrd], ?_⟩
        (hI.others_same rfl (fun _ _ => Iff.rfl) rfl rfl rfl rfl)
      simp only [PcL]; exact ⟨hp, by rw [this]⟩
    · exact hI
  · -- gGot
    rename_i r g hpc
    have hrd : i ∈ σ.readers := hc.r.mp (by simp [hpc, inR])
    have hnw : σ.writer = none := by
      cases hw : σ.writer with
      | none => rfl
      | some w => have := hI.excl (by simp [hw]); rw [this] at hrd; cases hrd
    have hnw' : σ.writer ≠ some i := by rw [hnw]; simp
    have hoth : ∀ j cj, j ≠ i → σ.calls[j]? = some cj →
        CallL cfg { σ with readers := σ.readers.filter (· != i) } j cj :=
      hI.others_same rfl (fun j hj => by simp [List.mem_filter, hj]) rfl rfl rfl rfl
    have hself : ∀ pc', inW pc' = false → inR pc' = false →
        CallL cfg { σ with readers := σ.readers.filter (· != i) } i ⟨c.op, pc'⟩ := fun pc' h1 h2 =>
      CallL.of_unlocked h1 h2 hnw' (by simp [List.mem_filter])
    split
    · exact LInv.step (σ₁ := { σ with readers := σ.readers.filter (· != i) }) hi rfl hI.free (fun h => absurd hnw h)
        (hself _ rfl rfl) hoth
    · exact LInv.step (σ₁ := { σ with readers := σ.readers.filter (· != i) }) hi rfl hI.free (fun h => absurd hnw h)
        (hself _ rfl rfl) hoth
  · -- gFetched
    rename_i a g hpc
    have hnw : σ.writer ≠ some i := fun e => by have := hc.w.mpr e; simp [hpc, inW] at this
    have hnr : i ∉ σ.readers := fun e => by have := hc.r.mpr e; simp [hpc, inR] at this
    split
    · exact LInv.step (σ₁ := { σ with items := _ }) hi rfl hI.free hI.excl (CallL.of_unlocked rfl rfl hnw hnr)
        (hI.others_same rfl (fun _ _ => Iff.rfl) rfl rfl rfl rfl)
    · exact LInv.step hi rfl hI.free hI.excl (CallL.of_unlocked rfl rfl hnw hnr)
        (hI.others_same rfl (fun _ _ => Iff.rfl) rfl rfl rfl rfl)
  · -- lRLocked
    rename_i hpc
    have hrd : i ∈ σ.readers := hc.r.mp (by simp [hpc, inR])
    have hnw : σ.writer = none := by
      cases hw : σ.writer with
      | none => rfl
      | some w => have := hI.excl (by simp [hw]); rw [this] at hrd; cases hrd
    split
    · rename_i s hs
      have : s = σ.committed := by rw [(hI.free hnw).1] at hs; exact (Option.some.inj hs).symm
      refine LInv.step hi rfl hI.free hI.excl ⟨by simp [inW, hnw], by simp [inR, hrd], ?_⟩
        (hI.others_same rfl (fun _ _ => Iff.rfl) rfl rfl rfl rfl)
      simp only [PcL]; exact this
    · exact hI
  · -- lGot
    rename_i s hpc
    have hrd : i ∈ σ.readers := hc.r.mp (by simp [hpc, inR])
    have hnw : σ.writer = none := by
      cases hw : σ.writer with
      | none => rfl
      | some w => have := hI.excl (by simp [hw]); rw [this] at hrd; cases hrd
    have hnw' : σ.writer ≠ some i := by rw [hnw]; simp
    exact LInv.step (σ₁ := { σ with readers := σ.readers.filter (· != i) }) hi rfl hI.free (fun h => absurd hnw h)
      (CallL.of_unlocked rfl rfl hnw' (by simp [List.mem_filter]))
      (hI.others_same rfl (fun j hj => by simp [List.mem_filter, hj]) rfl rfl rfl rfl)
  · -- done
    exact hI

end Vgw.Model.IAM
