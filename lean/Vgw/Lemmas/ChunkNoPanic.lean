/-
  The signed reader (as of /repo cf70120) never panics: whatever bytes arrive in whatever pieces.
-/
import Vgw.Lemmas.ChunkMerge
namespace Vgw.Lemmas.ChunkNoPanic
open Vgw Vgw.Model Vgw.Model.ChunkSigned Vgw.Lemmas.ChunkParse Vgw.Lemmas.ChunkMerge

/-- what is in the stash is an incomplete header -/
def StashInv (cfg : Cfg) (st : State) : Prop :=
  st.stash = [] ∨ parseHeader cfg st.isFirstHeader st.stash = .error (.rd .eof)

/-- the invariant of the reader between two `Read`s -/
def Inv (cfg : Cfg) (st : State) : Prop := 0 ≤ st.chunkDataLeft ∧ StashInv cfg st

theorem hdr_cases (cfg : Cfg) (st : State) (p : Bytes) (hs : StashInv cfg st) :
    let r := parseChunkHeaderBytes cfg st p
    (∃ e, r.2 = .fail e) ∨
    (r.2 = .skip ∧ r.1.stash = st.stash ++ p ∧ r.1.isFirstHeader = st.isFirstHeader ∧
      parseHeader cfg st.isFirstHeader (st.stash ++ p) = .error (.rd .eof)) ∨
    (∃ sig off, r.2 = .chunk 0 sig off) ∨
    (∃ size sig off, r.2 = .chunk size sig off ∧ 0 < size ∧ 0 ≤ off ∧ off ≤ (p.length : Int) ∧ r.1.stash = []) := by
  intro r
  show _ ∨ _ ∨ _ ∨ _
  simp only [r]
  unfold parseChunkHeaderBytes
  simp only
  split
  · left; first | exact ⟨_, rfl⟩ | simp
  · rename_i hlen
    cases hp : parseHeader cfg st.isFirstHeader (st.stash ++ p) with
    | error pe =>
      cases pe with
      | rd x =>
        cases x with
        | eof =>
          simp only [handleRdrErr]
          split
          · left; first | exact ⟨_, rfl⟩ | simp
          · right; left
            refine ⟨?_, ?_, ?_, ?_⟩ <;> first | rfl | simp
        | mismatch => left; first | exact ⟨_, rfl⟩ | simp
      | fail x => left; first | exact ⟨_, rfl⟩ | simp
    | ok rr =>
      obtain ⟨pr, rest⟩ := rr
      simp only
      obtain ⟨C, hC, _, h0, hidx⟩ := parseHeader_shape cfg _ _ pr rest hp
      by_cases hz : pr.chunkSize = 0
      · right; right; left
        simp only [hz, if_true]
        exact ⟨_, _, rfl⟩
      · right; right; right
        simp only [hz, if_false]
        have i1 := hidx hz
        have l1 := congrArg List.length hC
        simp only [List.length_append] at l1
        have hsk : (if st.isFirstHeader = true then 0 else 2) = skipOf st.isFirstHeader := rfl
        refine ⟨_, _, _, rfl, by omega, ?_, ?_, trivial⟩
        · -- 0 ≤ bufOffset: the parse ends behind the stash
          simp only [hsk]
          rcases hs with hs | hs
          · rw [hs] at i1 ⊢; simp at i1 ⊢; omega
          · have := parseHeader_needMore_then_ok cfg st.isFirstHeader st.stash p pr rest hs hp
            omega
        · simp only [hsk]; omega

theorem finalChunk_not_panic (cfg : Cfg) (st : State) : (finalChunk cfg st).2.status ≠ .panic := by
  unfold finalChunk
  simp only
  cases checkSignature cfg { st with chunkAcc := [] } with
  | error e => simp
  | ok st' =>
    simp only
    split
    · cases verifyChecksum cfg st' with
      | error e => simp
      | ok _ =>
        simp only
        cases verifyTrailerSignature cfg st' <;> simp
    · simp

theorem joinRec_props (c : Int) (d : Bytes) (r : Res) (hp : r.2.status ≠ .panic) :
    (joinRec c d r).2.status ≠ .panic ∧ ((joinRec c d r).2.status = .nil → r.2.status = .nil ∧ (joinRec c d r).1 = r.1) := by
  unfold joinRec
  cases hs : r.2.status with
  | panic => exact absurd hs hp
  | fuel => simp
  | nil => simp only; split <;> simp
  | eof => simp only; split <;> simp
  | err e => simp only; split <;> simp

/-- `parseAndRemoveChunkInfo` does not panic and re-establishes the invariant -/
theorem par_no_panic (cfg : Cfg) : ∀ (f : Nat) (st : State) (p : Bytes), StashInv cfg st →
    (parseAndRemove cfg f st p).2.status ≠ .panic ∧
    ((parseAndRemove cfg f st p).2.status = .nil → Inv cfg (parseAndRemove cfg f st p).1) := by
  intro f
  induction f with
  | zero => intro st p _; simp [parseAndRemove]
  | succ f ih =>
    intro st p hs
    simp only [parseAndRemove]
    unfold parStep
    simp only
    cases hchk : (if st.parsedSig ≠ [] then checkSignature cfg st else Except.ok st) with
    | error x => simp
    | ok stc =>
      simp only
      obtain ⟨_, hss, hfs, _⟩ := checked_facts cfg st stc hchk
      have hsc : StashInv cfg stc := by unfold StashInv; rw [hss, hfs]; exact hs
      have hc := hdr_cases cfg stc p hsc
      cases hh : parseChunkHeaderBytes cfg stc p with
      | mk st2 res =>
      rw [hh] at hc
      simp only at hc
      rcases hc with ⟨e, he⟩ | ⟨he, h1, h2, h3⟩ | ⟨sig, off, he⟩ | ⟨size, sig, off, he, hpos, ho0, hol, hst2⟩
      · subst he
        have : parBody cfg (parseAndRemove cfg f) stc p = (st2, ⟨[], .err e⟩) := by unfold parBody; rw [hh]
        rw [this]; simp
      · subst he
        have : parBody cfg (parseAndRemove cfg f) stc p = ({ st2 with chunkDataLeft := 0 }, ⟨[], .nil⟩) := by
          unfold parBody; rw [hh]
        rw [this]
        refine ⟨by simp, fun _ => ⟨by simp, ?_⟩⟩
        right
        simp only [h1, h2]
        exact h3
      · subst he
        by_cases hsig : sig = []
        · subst hsig
          rw [parBody_nosig cfg _ stc st2 p 0 off hh]; simp
        have : parBody cfg (parseAndRemove cfg f) stc p = finalChunk cfg { st2 with parsedSig := sig } :=
          parBody_final cfg _ stc st2 p sig off hh hsig
        rw [this]
        exact ⟨finalChunk_not_panic cfg _, fun h => absurd h (finalChunk_not_nil cfg _)⟩
      · subst he
        by_cases hsig : sig = []
        · subst hsig
          rw [parBody_nosig cfg _ stc st2 p size off hh]; simp
        rw [parBody_chunk cfg _ stc st2 p sig size off hh hsig (by omega)]
        unfold cont
        have hpan : ¬ (off < 0 ∨ (p.length : Int) < off) := by omega
        have hsn : ¬ (size < 0) := by omega
        simp only [hpan, hsn, if_false]
        split
        · have := ih (hashWrite cfg { ({ st2 with parsedSig := sig } : State) with chunkDataLeft := 0 }
              (List.take size.toNat (List.drop off.toNat p))) (List.drop size.toNat (List.drop off.toNat p))
              (Or.inl (by simp [hashWrite, hst2]))
          obtain ⟨j1, j2⟩ := joinRec_props size (List.take size.toNat (List.drop off.toNat p)) _ this.1
          refine ⟨j1, fun h => ?_⟩
          obtain ⟨k1, k2⟩ := j2 h
          rw [k2]
          exact this.2 k1
        · rename_i hle
          refine ⟨by simp, fun _ => ⟨?_, Or.inl (by simp [hashWrite, hst2])⟩⟩
          show (0 : Int) ≤ size - ((List.drop off.toNat p).length : Int)
          omega

/-- **`Read` of the signed reader never panics** (from any state that `Read` itself can have left
behind), and it leaves such a state behind -/
theorem read_no_panic (cfg : Cfg) (st : State) (frag : Bytes) (e : Bool) (cap : Nat) (h : Inv cfg st) :
    (ChunkSigned.read cfg st frag e cap).2.status ≠ .panic ∧
    ((ChunkSigned.read cfg st frag e cap).2.status = .nil → Inv cfg (ChunkSigned.read cfg st frag e cap).1) := by
  obtain ⟨hc, hs⟩ := h
  by_cases hin : st.chunkDataLeft < (frag.length : Int)
  · rw [read_hdr cfg st frag e cap hc hin]
    have hS : StashInv cfg (if st.chunkDataLeft > 0 then hashWrite cfg (setE e st) (List.take st.chunkDataLeft.toNat frag)
        else setE e st) := by
      split <;> exact hs
    have := par_no_panic cfg (frag.length + 1) _ (List.drop st.chunkDataLeft.toNat frag) hS
    generalize parseAndRemove cfg (frag.length + 1) _ (List.drop st.chunkDataLeft.toNat frag) = r at this
    obtain ⟨st', out, s⟩ := r
    unfold ChunkSigned.prepend
    cases s <;> simp_all
  · rw [read_data cfg st frag e cap (by omega)]
    refine ⟨by cases e <;> simp, fun _ => ⟨?_, ?_⟩⟩
    · show 0 ≤ st.chunkDataLeft - (frag.length : Int); omega
    · exact hs

theorem init_inv (cfg : Cfg) (seedSig : Bytes) : Inv cfg (ChunkSigned.init seedSig) := ⟨by simp [ChunkSigned.init], Or.inl rfl⟩

/-- **A run of the signed reader never ends in a panic**: arbitrary bytes, arbitrary deliveries. -/
theorem runFrom_no_panic (cfg : Cfg) : ∀ (ds : List (Bytes × Bool)) (st : State) (acc : Bytes), Inv cfg st →
    (runFrom cfg st ds acc).2 ≠ .panic := by
  intro ds
  induction ds with
  | nil =>
    intro st acc h
    have := (read_no_panic cfg st [] true 0 h).1
    simp only [runFrom]
    generalize ChunkSigned.read cfg st [] true 0 = r at this ⊢
    obtain ⟨st', out, s⟩ := r
    cases s <;> simp_all
  | cons d ds ih =>
    intro st acc h
    obtain ⟨f, e⟩ := d
    have := read_no_panic cfg st f e f.length h
    rw [runFrom_cons]
    unfold tail
    generalize ChunkSigned.read cfg st f e f.length = r at this ⊢
    obtain ⟨st', out, s⟩ := r
    cases s with
    | nil => exact ih st' _ (this.2 rfl)
    | panic => exact absurd rfl this.1
    | eof => simp
    | err x => simp
    | fuel => simp

end Vgw.Lemmas.ChunkNoPanic
