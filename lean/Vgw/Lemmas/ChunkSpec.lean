/-
  Spec-level lemmas for C12: unique readability of rendered aws-chunked streams.
-/
import Vgw.Lemmas.Chunked
namespace Vgw.Lemmas.ChunkSpec
open Vgw Vgw.Spec.Chunked

theorem sep_unique (s : UInt8) (a a' x x' : Bytes) (h : s ∉ a) (h' : s ∉ a')
    (e : a ++ s :: x = a' ++ s :: x') : a = a' ∧ x = x' := by
  have h1 := readUntil_append s a x h
  have h2 := readUntil_append s a' x' h'
  rw [e, h2] at h1
  simp at h1
  exact ⟨h1.1.symm, h1.2.symm⟩

def ChunksWF (cs : List Chunk) : Prop := ∀ c ∈ cs, IsHex c.1 c.2.length ∧ c.2 ≠ []

theorem isHex_fun {h : Bytes} {n m : Nat} (h1 : IsHex h n) (h2 : IsHex h m) : n = m := by
  unfold IsHex at h1 h2; rw [h1] at h2; exact Option.some.inj h2

theorem sigIntro_cons : sigIntro = 59 :: sigIntro.drop 1 := by decide

theorem chunkSig_no_cr (P : Params) (prev d : Bytes) : (13 : UInt8) ∉ chunkSig P prev d :=
  hexEncode_not_mem _ 13 (Or.inl (by decide))

theorem payloadOf_cons (h d : Bytes) (cs : List Chunk) : payloadOf ((h, d) :: cs) = d ++ payloadOf cs := by
  simp [payloadOf]

/-- what follows the size of the final chunk in a signed stream -/
def finalRest (P : Params) (tr : Bool) (prev acc : Bytes) : Bytes :=
  sigIntro.drop 1 ++ chunkSig P prev [] ++ crlf ++
    (if tr then P.trailerName ++ [58] ++ checksumB64 P acc ++ crlf ++ trailerSigIntro ++
      trailerSig P (chunkSig P prev []) acc ++ crlf else []) ++ crlf

theorem renderSigned_nil (P : Params) (tr : Bool) (prev acc hz : Bytes) :
    renderSigned P tr prev acc [] hz = hz ++ 59 :: finalRest P tr prev acc := by
  have : sigIntro = 59 :: sigIntro.drop 1 := sigIntro_cons
  simp only [renderSigned, finalRest]
  rw [this]
  simp

theorem renderSigned_cons (P : Params) (tr : Bool) (prev acc hz h d : Bytes) (cs : List Chunk) :
    renderSigned P tr prev acc ((h, d) :: cs) hz =
      h ++ 59 :: (sigIntro.drop 1 ++ (chunkSig P prev d ++ 13 :: 10 :: (d ++ (crlf ++
        renderSigned P tr (chunkSig P prev d) (acc ++ d) cs hz)))) := by
  have : sigIntro = 59 :: sigIntro.drop 1 := sigIntro_cons
  simp only [renderSigned]
  rw [this]
  simp [crlf]

/-- **unique readability, signed encodings**: two well-formed chunk lists whose renderings (from
the same signature / payload context) agree up to arbitrary tails carry the same payload, and the
tails agree. -/
theorem renderSigned_inj (P : Params) (tr : Bool) :
    ∀ (cs cs' : List Chunk) (prev acc hz hz' t t' : Bytes), ChunksWF cs → ChunksWF cs' → IsHex hz 0 → IsHex hz' 0 →
      renderSigned P tr prev acc cs hz ++ t = renderSigned P tr prev acc cs' hz' ++ t' →
      payloadOf cs = payloadOf cs' ∧ t = t' := by
  intro cs
  induction cs with
  | nil =>
    intro cs' prev acc hz hz' t t' _ hwf' hhz hhz' e
    cases cs' with
    | nil =>
      rw [renderSigned_nil, renderSigned_nil] at e
      simp only [List.append_assoc, List.cons_append] at e
      obtain ⟨_, h2⟩ := sep_unique 59 _ _ _ _ (isHex_not_mem hhz 59 not_hex_59) (isHex_not_mem hhz' 59 not_hex_59) e
      exact ⟨rfl, List.append_cancel_left h2⟩
    | cons c cs' =>
      obtain ⟨h', d'⟩ := c
      have hw := hwf' (h', d') (by simp)
      rw [renderSigned_nil, renderSigned_cons] at e
      simp only [List.append_assoc, List.cons_append] at e
      obtain ⟨h1, _⟩ := sep_unique 59 _ _ _ _ (isHex_not_mem hhz 59 not_hex_59) (isHex_not_mem hw.1 59 not_hex_59) e
      subst h1
      have := isHex_fun hhz hw.1
      exact absurd (List.length_eq_zero_iff.1 this.symm) hw.2
  | cons c cs ih =>
    obtain ⟨h, d⟩ := c
    intro cs' prev acc hz hz' t t' hwf hwf' hhz hhz' e
    have hw := hwf (h, d) (by simp)
    cases cs' with
    | nil =>
      rw [renderSigned_nil, renderSigned_cons] at e
      simp only [List.append_assoc, List.cons_append] at e
      obtain ⟨h1, _⟩ := sep_unique 59 _ _ _ _ (isHex_not_mem hw.1 59 not_hex_59) (isHex_not_mem hhz' 59 not_hex_59) e
      subst h1
      have := isHex_fun hhz' hw.1
      exact absurd (List.length_eq_zero_iff.1 this.symm) hw.2
    | cons c' cs' =>
      obtain ⟨h', d'⟩ := c'
      have hw' := hwf' (h', d') (by simp)
      rw [renderSigned_cons, renderSigned_cons] at e
      simp only [List.append_assoc, List.cons_append] at e
      obtain ⟨h1, e1⟩ := sep_unique 59 _ _ _ _ (isHex_not_mem hw.1 59 not_hex_59) (isHex_not_mem hw'.1 59 not_hex_59) e
      subst h1
      have hlen : d.length = d'.length := isHex_fun hw.1 hw'.1
      have e2 := List.append_cancel_left e1
      obtain ⟨_, e3⟩ := sep_unique 13 _ _ _ _ (chunkSig_no_cr P prev d) (chunkSig_no_cr P prev d') e2
      simp only [List.cons.injEq, true_and] at e3
      obtain ⟨hd, e4⟩ := List.append_inj e3 hlen
      subst hd
      have e5 := List.append_cancel_left e4
      obtain ⟨hp, ht⟩ := ih cs' (chunkSig P prev d) (acc ++ d) hz hz' t t' (fun c hc => hwf c (by simp [hc]))
        (fun c hc => hwf' c (by simp [hc])) hhz hhz' (by simpa using e5)
      exact ⟨by rw [payloadOf_cons, payloadOf_cons, hp], ht⟩

/-- **unique readability, unsigned encoding** -/
theorem renderUnsigned_inj (P : Params) :
    ∀ (cs cs' : List Chunk) (acc hz hz' t t' : Bytes), ChunksWF cs → ChunksWF cs' → IsHex hz 0 → IsHex hz' 0 →
      renderUnsigned P acc cs hz ++ t = renderUnsigned P acc cs' hz' ++ t' →
      payloadOf cs = payloadOf cs' ∧ t = t' := by
  intro cs
  induction cs with
  | nil =>
    intro cs' acc hz hz' t t' _ hwf' hhz hhz' e
    cases cs' with
    | nil =>
      simp only [renderUnsigned, crlf, List.append_assoc, List.cons_append, List.nil_append] at e
      obtain ⟨_, h2⟩ := sep_unique 13 _ _ _ _ (isHex_not_mem hhz 13 not_hex_13) (isHex_not_mem hhz' 13 not_hex_13) e
      simp only [List.cons.injEq, true_and] at h2
      refine ⟨rfl, ?_⟩
      have h3 := List.append_cancel_left h2
      simp only [List.cons.injEq, true_and] at h3
      have h4 := List.append_cancel_left h3
      simpa using h4
    | cons c cs' =>
      obtain ⟨h', d'⟩ := c
      have hw := hwf' (h', d') (by simp)
      simp only [renderUnsigned, crlf, List.append_assoc, List.cons_append, List.nil_append] at e
      obtain ⟨h1, _⟩ := sep_unique 13 _ _ _ _ (isHex_not_mem hhz 13 not_hex_13) (isHex_not_mem hw.1 13 not_hex_13) e
      subst h1
      have := isHex_fun hhz hw.1
      exact absurd (List.length_eq_zero_iff.1 this.symm) hw.2
  | cons c cs ih =>
    obtain ⟨h, d⟩ := c
    intro cs' acc hz hz' t t' hwf hwf' hhz hhz' e
    have hw := hwf (h, d) (by simp)
    cases cs' with
    | nil =>
      simp only [renderUnsigned, crlf, List.append_assoc, List.cons_append, List.nil_append] at e
      obtain ⟨h1, _⟩ := sep_unique 13 _ _ _ _ (isHex_not_mem hw.1 13 not_hex_13) (isHex_not_mem hhz' 13 not_hex_13) e
      subst h1
      have := isHex_fun hhz' hw.1
      exact absurd (List.length_eq_zero_iff.1 this.symm) hw.2
    | cons c' cs' =>
      obtain ⟨h', d'⟩ := c'
      have hw' := hwf' (h', d') (by simp)
      simp only [renderUnsigned, crlf, List.append_assoc, List.cons_append, List.nil_append] at e
      obtain ⟨h1, e1⟩ := sep_unique 13 _ _ _ _ (isHex_not_mem hw.1 13 not_hex_13) (isHex_not_mem hw'.1 13 not_hex_13) e
      subst h1
      have hlen : d.length = d'.length := isHex_fun hw.1 hw'.1
      simp only [List.cons.injEq, true_and] at e1
      obtain ⟨hd, e4⟩ := List.append_inj e1 hlen
      subst hd
      simp only [List.cons.injEq, true_and] at e4
      obtain ⟨hp, ht⟩ := ih cs' (acc ++ d) hz hz' t t' (fun c hc => hwf c (by simp [hc]))
        (fun c hc => hwf' c (by simp [hc])) hhz hhz' e4
      exact ⟨by rw [payloadOf_cons, payloadOf_cons, hp], ht⟩

theorem render_inj (P : Params) (v : Variant) (cs cs' : List Chunk) (hz hz' t t' : Bytes)
    (h : WF cs hz) (h' : WF cs' hz') (e : render P v cs hz ++ t = render P v cs' hz' ++ t') :
    payloadOf cs = payloadOf cs' ∧ t = t' := by
  cases v with
  | signed => exact renderSigned_inj P false cs cs' _ _ hz hz' t t' h.1 h'.1 h.2.1 h'.2.1 e
  | signedTrailer => exact renderSigned_inj P true cs cs' _ _ hz hz' t t' h.1 h'.1 h.2.1 h'.2.1 e
  | unsignedTrailer => exact renderUnsigned_inj P cs cs' _ hz hz' t t' h.1 h'.1 h.2.1 h'.2.1 e

/-! ### the canonical encoder -/

theorem hexDigitVal_nibble : ∀ n : Fin 16, hexDigitVal (hexNibble n.val) = some n.val := by decide

theorem natToHexAux_val : ∀ (f n : Nat) (acc : Bytes), n < f →
    hexDigitsVal (natToHexAux f n acc) 0 = hexDigitsVal acc n := by
  intro f
  induction f with
  | zero => intro n acc h; omega
  | succ f ih =>
    intro n acc h
    unfold natToHexAux
    split
    · rename_i h16
      have := hexDigitVal_nibble ⟨n, h16⟩
      simp only at this
      simp [hexDigitsVal, this]
    · rename_i h16
      rw [ih (n / 16) _ (by omega)]
      have := hexDigitVal_nibble ⟨n % 16, by omega⟩
      simp only at this
      simp only [hexDigitsVal, this]
      congr 1
      omega

theorem natToHex_isHex (n : Nat) : IsHex (natToHex n) n := by
  unfold IsHex parseHexDigits natToHex
  have hv := natToHexAux_val (n + 1) n [] (by omega)
  cases h : natToHexAux (n + 1) n [] with
  | nil =>
    have key : ∀ (f m : Nat) (a : UInt8) (acc : Bytes), natToHexAux f m (a :: acc) ≠ [] := by
      intro f
      induction f with
      | zero => intro m a acc; simp [natToHexAux]
      | succ f ih => intro m a acc; unfold natToHexAux; split <;> simp [ih]
    unfold natToHexAux at h
    split at h
    · simp at h
    · exact absurd h (key _ _ _ _)
  | cons b bs =>
    rw [h] at hv
    simpa [hexDigitsVal] using hv

theorem splitSizes_spec : ∀ (fuel : Nat) (p : Bytes) (sizes : List Nat),
    (splitSizes fuel p sizes).flatten = p ∧ ∀ d ∈ splitSizes fuel p sizes, d ≠ [] := by
  intro fuel
  induction fuel with
  | zero =>
    intro p sizes
    cases p with
    | nil => simp [splitSizes]
    | cons a t => simp [splitSizes]
  | succ fuel ih =>
    intro p sizes
    cases p with
    | nil => simp [splitSizes]
    | cons a t =>
      cases sizes with
      | nil => simp [splitSizes]
      | cons s ss =>
        unfold splitSizes
        split
        · exact ih _ _
        · rename_i hs
          obtain ⟨h1, h2⟩ := ih ((a :: t).drop s) ss
          refine ⟨by simp [h1], ?_⟩
          intro d hd
          simp at hd
          rcases hd with rfl | hd
          · cases s with
            | zero => exact absurd rfl hs
            | succ s => simp
          · exact h2 d hd

theorem natToHexAux_len : ∀ (f n k : Nat) (acc : Bytes), 1 ≤ k → n < 16 ^ k →
    (natToHexAux f n acc).length ≤ acc.length + k := by
  intro f
  induction f with
  | zero => intro n k acc _ _; simp [natToHexAux]
  | succ f ih =>
    intro n k acc hk hn
    unfold natToHexAux
    split
    · simp; omega
    · rename_i h16
      obtain ⟨k, rfl⟩ : ∃ j, k = j + 1 := ⟨k - 1, by omega⟩
      have hk1 : 1 ≤ k := by
        cases k with
        | zero => simp at hn; omega
        | succ j => omega
      have hdiv : n / 16 < 16 ^ k := by
        rw [Nat.pow_succ] at hn
        exact Nat.div_lt_of_lt_mul (by omega)
      have := ih (n / 16) k (hexNibble (n % 16) :: acc) hk1 hdiv
      simp at this ⊢
      omega

theorem natToHex_len (n : Nat) (h : n ≤ chunkBound) : (natToHex n).length ≤ maxSizeDigits := by
  have := natToHexAux_len (n + 1) n 16 [] (by omega) (by unfold chunkBound at h; omega)
  simpa [natToHex, maxSizeDigits] using this

theorem flatten_mem_le (l : List Bytes) : ∀ d ∈ l, d.length ≤ l.flatten.length := by
  induction l with
  | nil => intro d hd; simp at hd
  | cons a l ih =>
    intro d hd
    simp at hd
    rcases hd with rfl | hd
    · simp only [List.flatten_cons, List.length_append]; omega
    · have := ih d hd; simp only [List.flatten_cons, List.length_append]; omega

/-- **The canonical encoder produces valid streams** (every variant, every chunking). -/
theorem encode_valid (P : Params) (v : Variant) (p : Bytes) (sizes : List Nat) (hp : p.length ≤ chunkBound) :
    Valid P v (encode P v p sizes) p := by
  obtain ⟨h1, h2⟩ := splitSizes_spec (sizes.length + 1) p sizes
  refine ⟨(splitSizes (sizes.length + 1) p sizes).map fun d => (natToHex d.length, d), [48], ⟨?_, by decide, ?_⟩, rfl, ?_⟩
  · intro c hc
    simp at hc
    obtain ⟨d, hd, rfl⟩ := hc
    exact ⟨natToHex_isHex _, h2 d hd⟩
  · refine ⟨by simp [payloadOf, List.map_map, Function.comp_def, h1, hp], ?_, by decide⟩
    intro c hc
    simp at hc
    obtain ⟨d, hd, rfl⟩ := hc
    have := flatten_mem_le _ d hd
    rw [h1] at this
    exact natToHex_len _ (by omega)
  · simp [payloadOf, List.map_map, Function.comp_def, h1]

/-! ### the executable checker accepts every valid stream with exactly its payload -/

theorem spanB_hex (h rest : Bytes) (stop : UInt8) (hall : ∀ c ∈ h, isHexDigit c = true)
    (hstop : isHexDigit stop = false) : spanB isHexDigit (h ++ stop :: rest) = (h, stop :: rest) := by
  induction h with
  | nil => simp [spanB, hstop]
  | cons c cs ih =>
    have hc := hall c (by simp)
    have := ih (fun x hx => hall x (by simp [hx]))
    simp [spanB, hc, this]

theorem sizeToken_strict (h rest : Bytes) (n : Nat) (stop : UInt8) (hh : IsHex h n) (hl : h.length ≤ maxSizeDigits)
    (hstop : isHexDigit stop = false) : sizeToken false false stop (h ++ stop :: rest) = .ok (n, rest) := by
  unfold sizeToken
  simp only [Bool.false_eq_true, if_false, spanB_hex h rest stop (isHex_all hh) hstop]
  unfold IsHex at hh
  have : ¬ h.length > maxSizeDigits := Nat.not_lt.2 hl
  simp [hh, this]

theorem expect_append (lit r : Bytes) : expect lit (lit ++ r) = .ok r := by
  induction lit with
  | nil => simp [expect]
  | cons c cs ih => simp [expect, ih]

theorem lineCRLF_append (l r : Bytes) (h : (13 : UInt8) ∉ l) : lineCRLF (l ++ 13 :: 10 :: r) = .ok (l, r) := by
  unfold lineCRLF
  rw [readUntil_append 13 l _ h]
  simp

theorem takeExact_append (d r : Bytes) : takeExact d.length (d ++ r) = .ok (d, r) := by
  unfold takeExact
  simp

theorem trailerSig_no_cr (P : Params) (prev d : Bytes) : (13 : UInt8) ∉ trailerSig P prev d :=
  hexEncode_not_mem _ 13 (Or.inl (by decide))

theorem take_name (name b : Bytes) : (name ++ 58 :: b).take (name.length + 1) = name ++ [58] := by
  rw [show name ++ 58 :: b = (name ++ [58]) ++ b by simp, List.take_left' (by simp)]

theorem drop_name (name b : Bytes) : (name ++ 58 :: b).drop (name.length + 1) = b := by
  rw [show name ++ 58 :: b = (name ++ [58]) ++ b by simp, List.drop_left' (by simp)]

theorem renderSigned_len (P : Params) (tr : Bool) (cs : List Chunk) :
    ∀ (prev acc hz : Bytes), cs.length + 2 ≤ (renderSigned P tr prev acc cs hz).length := by
  induction cs with
  | nil => intro prev acc hz; simp [renderSigned, crlf]; omega
  | cons c cs ih =>
    intro prev acc hz
    obtain ⟨h, d⟩ := c
    have := ih (chunkSig P prev d) (acc ++ d) hz
    simp [renderSigned, crlf] at this ⊢
    omega

theorem renderUnsigned_len (P : Params) (cs : List Chunk) :
    ∀ (acc hz : Bytes), cs.length + 2 ≤ (renderUnsigned P acc cs hz).length := by
  induction cs with
  | nil => intro acc hz; simp [renderUnsigned, crlf]; omega
  | cons c cs ih =>
    intro acc hz
    obtain ⟨h, d⟩ := c
    have := ih (acc ++ d) hz
    simp [renderUnsigned, crlf] at this ⊢
    omega

theorem checkFinalSigned_ok (P : Params) (tr : Bool) (prev acc : Bytes) (hcr : (13 : UInt8) ∉ P.trailerName) :
    checkFinalSigned P tr false prev acc (chunkSig P prev [])
      ((if tr then P.trailerName ++ [58] ++ checksumB64 P acc ++ crlf ++ trailerSigIntro ++
        trailerSig P (chunkSig P prev []) acc ++ crlf else []) ++ crlf) = .ok acc := by
  unfold checkFinalSigned
  cases tr with
  | false => simp [crlf, expect, atEnd]
  | true =>
    have hline : (13 : UInt8) ∉ P.trailerName ++ 58 :: checksumB64 P acc := by
      simp only [List.mem_append, List.mem_cons, not_or]
      exact ⟨hcr, by decide, b64Encode_not_mem _ 13 (by decide) (by decide)⟩
    have e : (if true = true then P.trailerName ++ [58] ++ checksumB64 P acc ++ crlf ++ trailerSigIntro ++
        trailerSig P (chunkSig P prev []) acc ++ crlf else []) ++ crlf =
        (P.trailerName ++ 58 :: checksumB64 P acc) ++ 13 :: 10 :: (trailerSigIntro ++
          (trailerSig P (chunkSig P prev []) acc ++ 13 :: 10 :: (crlf ++ []))) := by
      simp [crlf]
    rw [e]
    simp only [ne_eq, not_true_eq_false, if_false, if_true, lineCRLF_append _ _ hline, expect_append,
      lineCRLF_append _ _ (trailerSig_no_cr P _ acc), take_name, drop_name]
    simp [atEnd]

theorem checkSigned_complete (P : Params) (tr : Bool) (hz : Bytes) (hhz : IsHex hz 0) (hhzl : hz.length ≤ maxSizeDigits)
    (hcr : (13 : UInt8) ∉ P.trailerName) :
    ∀ (cs : List Chunk) (prev acc : Bytes) (fuel : Nat), ChunksWF cs → (∀ c ∈ cs, c.1.length ≤ maxSizeDigits) →
      cs.length < fuel →
      checkSigned P tr false fuel prev acc (renderSigned P tr prev acc cs hz) = .ok (acc ++ payloadOf cs) := by
  intro cs
  induction cs with
  | nil =>
    intro prev acc fuel _ _ hf
    obtain ⟨fuel, rfl⟩ : ∃ f, fuel = f + 1 := ⟨fuel - 1, by omega⟩
    have e : renderSigned P tr prev acc [] hz = hz ++ 59 :: (sigIntro.drop 1 ++ (chunkSig P prev [] ++ 13 :: 10 ::
        ((if tr then P.trailerName ++ [58] ++ checksumB64 P acc ++ crlf ++ trailerSigIntro ++
          trailerSig P (chunkSig P prev []) acc ++ crlf else []) ++ crlf))) := by
      rw [renderSigned_nil]; simp [finalRest, crlf]
    rw [e, checkSigned]
    simp only [sizeToken_strict hz _ 0 59 hhz hhzl not_hex_59, expect_append, lineCRLF_append _ _ (chunkSig_no_cr P prev []),
      if_true, checkFinalSigned_ok P tr prev acc hcr]
    simp [payloadOf]
  | cons c cs ih =>
    obtain ⟨h, d⟩ := c
    intro prev acc fuel hwf hdig hf
    obtain ⟨fuel, rfl⟩ : ∃ f, fuel = f + 1 := ⟨fuel - 1, by omega⟩
    have hw := hwf (h, d) (by simp)
    have hd0 : d.length ≠ 0 := fun e => hw.2 (List.length_eq_zero_iff.1 e)
    rw [renderSigned_cons, checkSigned]
    simp only [sizeToken_strict h _ d.length 59 hw.1 (hdig (h, d) (by simp)) not_hex_59, expect_append,
      lineCRLF_append _ _ (chunkSig_no_cr P prev d), hd0, if_false, takeExact_append]
    simp only [ne_eq, not_true_eq_false, if_false]
    rw [ih (chunkSig P prev d) (acc ++ d) fuel (fun c hc => hwf c (by simp [hc])) (fun c hc => hdig c (by simp [hc])) (by simp at hf; omega)]
    simp [payloadOf_cons]

theorem checkUnsigned_complete (P : Params) (hz : Bytes) (hhz : IsHex hz 0) (hhzl : hz.length ≤ maxSizeDigits)
    (hcr : (13 : UInt8) ∉ P.trailerName) :
    ∀ (cs : List Chunk) (acc : Bytes) (fuel : Nat), ChunksWF cs → (∀ c ∈ cs, c.1.length ≤ maxSizeDigits) →
      cs.length < fuel →
      checkUnsigned P false fuel acc (renderUnsigned P acc cs hz) = .ok (acc ++ payloadOf cs) := by
  intro cs
  induction cs with
  | nil =>
    intro acc fuel _ _ hf
    obtain ⟨fuel, rfl⟩ : ∃ f, fuel = f + 1 := ⟨fuel - 1, by omega⟩
    have hline : (13 : UInt8) ∉ P.trailerName ++ 58 :: checksumB64 P acc := by
      simp only [List.mem_append, List.mem_cons, not_or]
      exact ⟨hcr, by decide, b64Encode_not_mem _ 13 (by decide) (by decide)⟩
    have e : renderUnsigned P acc [] hz = hz ++ 13 :: ([10] ++ ((P.trailerName ++ 58 :: checksumB64 P acc) ++ 13 :: 10 ::
        (crlf ++ []))) := by
      simp [renderUnsigned, crlf]
    rw [e, checkUnsigned]
    simp only [sizeLine, Bool.false_eq_true, if_false, sizeToken_strict hz _ 0 13 hhz hhzl not_hex_13, expect_append, if_true,
      checkFinalUnsigned, lineCRLF_append _ _ hline, take_name, drop_name]
    simp [atEnd, payloadOf]
  | cons c cs ih =>
    obtain ⟨h, d⟩ := c
    intro acc fuel hwf hdig hf
    obtain ⟨fuel, rfl⟩ : ∃ f, fuel = f + 1 := ⟨fuel - 1, by omega⟩
    have hw := hwf (h, d) (by simp)
    have hd0 : d.length ≠ 0 := fun e => hw.2 (List.length_eq_zero_iff.1 e)
    have e : renderUnsigned P acc ((h, d) :: cs) hz = h ++ 13 :: ([10] ++ (d ++ (crlf ++ renderUnsigned P (acc ++ d) cs hz))) := by
      simp [renderUnsigned, crlf]
    rw [e, checkUnsigned]
    simp only [sizeLine, Bool.false_eq_true, if_false, sizeToken_strict h _ d.length 13 hw.1 (hdig (h, d) (by simp)) not_hex_13, expect_append, hd0,
      takeExact_append]
    rw [ih (acc ++ d) fuel (fun c hc => hwf c (by simp [hc])) (fun c hc => hdig c (by simp [hc])) (by simp at hf; omega)]
    simp [payloadOf_cons]

/-- **The oracle's checker accepts every valid stream, with exactly its payload.** -/
theorem check_complete (P : Params) (v : Variant) (s p : Bytes) (hcr : (13 : UInt8) ∉ P.trailerName)
    (hv : Valid P v s p) : check P v false s = .valid p := by
  obtain ⟨cs, hz, hwf, rfl, rfl⟩ := hv
  unfold check
  cases v with
  | signed =>
    have := renderSigned_len P false cs P.seedSig [] hz
    simp only [render]
    rw [checkSigned_complete P false hz hwf.2.1 hwf.2.2.2.2 hcr cs _ [] _ hwf.1 hwf.2.2.2.1 (by omega)]
    simp [toVerdict]
  | signedTrailer =>
    have := renderSigned_len P true cs P.seedSig [] hz
    simp only [render]
    rw [checkSigned_complete P true hz hwf.2.1 hwf.2.2.2.2 hcr cs _ [] _ hwf.1 hwf.2.2.2.1 (by omega)]
    simp [toVerdict]
  | unsignedTrailer =>
    have := renderUnsigned_len P cs [] hz
    simp only [render]
    rw [checkUnsigned_complete P hz hwf.2.1 hwf.2.2.2.2 hcr cs [] _ hwf.1 hwf.2.2.2.1 (by omega)]
    simp [toVerdict]

end Vgw.Lemmas.ChunkSpec
