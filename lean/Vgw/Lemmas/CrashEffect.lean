import Vgw.Lemmas.CrashAtomic
/-
  Lemmas.CrashEffect — what a completed PutObject leaves (xattr store, unchanged publication routine): the node
  built in the temp file — the request's body and attributes — is what the key's name holds afterwards, whatever
  the file system held before (leftovers of earlier crashes included).
-/
namespace Vgw.Model.Crash

/-! ### frame for a reference (unnamed inode or path) -/

def Step.anons : Step → List Nat
  | .otmp id _ => [id]
  | .write (.anon id) _ => [id]
  | .setx (.anon id) _ _ => [id]
  | _ => []

def Step.touches (r : Ref) (s : Step) : Bool :=
  match r with
  | .anon id => s.anons.contains id
  | .path p => s.writes.contains p

theorem FS.aget_aput_self (fs : FS) (id : Nat) (n : Node) : (fs.aput id n).aget id = some n := by
  simp [FS.aget, FS.aput]

theorem FS.aget_aput_ne (fs : FS) {id id' : Nat} (n : Node) (h : id' ≠ id) : (fs.aput id n).aget id' = fs.aget id' := by
  simp only [FS.aget, FS.aput]
  rw [List.find?_cons_of_neg (by simpa using fun hh => h hh.symm), List.find?_filter]
  congr 1
  apply find?_congr'
  intro e _
  by_cases he : e.1 = id'
  · subst he; simp [h]
  · simp [he]

theorem FS.aget_put (fs : FS) (p : Path) (n : Node) (id : Nat) : (fs.put p n).aget id = fs.aget id := rfl
theorem FS.aget_del (fs : FS) (p : Path) (id : Nat) : (fs.del p).aget id = fs.aget id := rfl
theorem FS.get_aput (fs : FS) (id : Nat) (n : Node) (p : Path) : (fs.aput id n).get p = fs.get p := rfl

theorem get_apply_of_not_writes (s : Step) (fs : FS) (p : Path) (h : s.writes.contains p = false) :
    (apply s fs).get p = fs.get p := by
  have hs : s.silent (fun q => q == p) = true := by
    simp only [Step.silent, List.all_eq_true, Bool.not_eq_eq_eq_not, Bool.not_true, beq_eq_false_iff_ne, ne_eq]
    intro q hq hqp
    subst hqp
    have : s.writes.contains q = true := List.contains_iff_mem.mpr hq
    rw [h] at this; cases this
  have := apply_restrict (fun q => q == p) s fs hs
  rw [← FS.get_restrict (fun q => q == p) (apply s fs) (by simp), this, FS.get_restrict (fun q => q == p) fs (by simp)]

theorem aget_apply_of_not_anons (s : Step) (fs : FS) (id : Nat) (h : s.anons.contains id = false) :
    (apply s fs).aget id = fs.aget id := by
  cases s with
  | otmp id' d =>
    simp only [Step.anons, List.contains_cons, List.contains_nil, Bool.or_false, beq_eq_false_iff_ne, ne_eq] at h
    exact FS.aget_aput_ne fs _ h
  | creat p => simp only [apply]; split <;> rfl
  | falloc r => rfl
  | chmod r => rfl
  | write r v =>
    cases r with
    | anon id' =>
      simp only [Step.anons, List.contains_cons, List.contains_nil, Bool.or_false, beq_eq_false_iff_ne, ne_eq] at h
      simp only [apply, FS.rget, FS.rput]
      split
      · exact FS.aget_aput_ne fs _ h
      · rfl
    | path p => simp only [apply, FS.rget, FS.rput]; split <;> rfl
  | setx r a v =>
    cases r with
    | anon id' =>
      simp only [Step.anons, List.contains_cons, List.contains_nil, Bool.or_false, beq_eq_false_iff_ne, ne_eq] at h
      simp only [apply, FS.rget, FS.rput]
      split
      · exact FS.aget_aput_ne fs _ h
      · rfl
    | path p => simp only [apply, FS.rget, FS.rput]; split <;> rfl
  | rmx p a => simp only [apply]; split <;> rfl
  | mkdir p => simp only [apply]; split <;> rfl
  | unlink p => simp only [apply]; split <;> rfl
  | rmdir p => simp only [apply]; split <;> rfl
  | link id' p =>
    simp only [apply]
    split
    · split <;> rfl
    · rfl
  | rename s d => simp only [apply]; split <;> rfl

theorem rget_apply_of_not_touches (r : Ref) (s : Step) (fs : FS) (h : s.touches r = false) :
    (apply s fs).rget r = fs.rget r := by
  cases r with
  | anon id => exact aget_apply_of_not_anons s fs id h
  | path p => exact get_apply_of_not_writes s fs p h

theorem rget_run_of_not_touches (r : Ref) (l : List Step) (fs : FS) (h : ∀ s ∈ l, s.touches r = false) :
    (run l fs).rget r = fs.rget r := by
  induction l generalizing fs with
  | nil => rfl
  | cons s t ih =>
    rw [run_cons, ih _ (fun x hx => h x (List.mem_cons_of_mem _ hx)), rget_apply_of_not_touches r s fs (h s List.mem_cons_self)]

theorem FS.rget_rput_self (fs : FS) (r : Ref) (n : Node) : (fs.rput r n).rget r = some n := by
  cases r with
  | anon id => exact FS.aget_aput_self fs id n
  | path p => exact FS.get_put_self fs p n

/-! ### attribute folds -/

def foldAttrs (a0 : Attrs) (kvs : List (String × Val)) : Attrs := kvs.foldl (fun a kv => aset a kv.1 kv.2) a0

theorem aget_aset_self (a : Attrs) (k : String) (v : Val) : aget (aset a k v) k = some v := by
  simp only [aget, aset, adel, List.find?_append]
  have : (a.filter (fun e => !(e.1 == k))).find? (fun e => e.1 == k) = none := by
    rw [List.find?_eq_none]
    intro e he
    simp only [List.mem_filter, Bool.not_eq_eq_eq_not, Bool.not_true, beq_eq_false_iff_ne, ne_eq] at he
    simpa using he.2
  simp [this]

theorem aget_aset_ne (a : Attrs) {k k' : String} (v : Val) (h : k' ≠ k) : aget (aset a k v) k' = aget a k' := by
  simp only [aget, aset, adel, List.find?_append, List.find?_filter]
  have h1 : List.find? (fun e : String × Val => e.1 == k') [(k, v)] = none := by
    have hne : (k == k') = false := by simpa using fun hh : k = k' => h hh.symm
    simp [List.find?, hne]
  rw [h1, Option.or_none]
  congr 1
  apply find?_congr'
  intro e _
  by_cases he : e.1 = k'
  · subst he; simp [h]
  · simp [he]

theorem foldAttrs_append (a0 : Attrs) (l1 l2 : List (String × Val)) : foldAttrs a0 (l1 ++ l2) = foldAttrs (foldAttrs a0 l1) l2 := by
  simp [foldAttrs, List.foldl_append]

theorem aget_foldAttrs_of_not_mem (a0 : Attrs) (l : List (String × Val)) (k : String) (h : ∀ kv ∈ l, kv.1 ≠ k) :
    aget (foldAttrs a0 l) k = aget a0 k := by
  induction l generalizing a0 with
  | nil => rfl
  | cons kv rest ih =>
    have : foldAttrs a0 (kv :: rest) = foldAttrs (aset a0 kv.1 kv.2) rest := rfl
    rw [this, ih _ (fun x hx => h x (List.mem_cons_of_mem _ hx)),
      aget_aset_ne a0 kv.2 (fun hh => h kv List.mem_cons_self hh.symm)]

/-- the value bound last to a name in an attribute list -/
def lastVal (l : List (String × Val)) (k : String) : Option Val :=
  (l.reverse.find? (fun e => e.1 == k)).map (·.2)

theorem aget_foldAttrs (a0 : Attrs) (l : List (String × Val)) (k : String) :
    aget (foldAttrs a0 l) k = (lastVal l k).or (aget a0 k) := by
  induction l generalizing a0 with
  | nil => simp [foldAttrs, lastVal]
  | cons kv rest ih =>
    have : foldAttrs a0 (kv :: rest) = foldAttrs (aset a0 kv.1 kv.2) rest := rfl
    rw [this, ih]
    simp only [lastVal, List.reverse_cons, List.find?_append, Option.map_or]
    by_cases hk : kv.1 = k
    · subst hk
      simp [aget_aset_self]
    · have hne : (kv.1 == k) = false := by simpa using hk
      rw [aget_aset_ne a0 kv.2 (fun hh => hk hh.symm)]
      simp [List.find?, hne]

theorem lastVal_append (l1 l2 : List (String × Val)) (k : String) :
    lastVal (l1 ++ l2) k = (lastVal l2 k).or (lastVal l1 k) := by
  simp [lastVal, List.reverse_append, List.find?_append, Option.map_or]

theorem lastVal_ite_ne (c : Bool) (name k : String) (v : Val) (h : name ≠ k) :
    lastVal (if c = true then [(name, v)] else []) k = none := by
  have hne : (name == k) = false := by simpa using h
  cases c <;> simp [lastVal, List.find?, hne]

theorem lastVal_ite_self (c : Bool) (k : String) (v : Val) :
    lastVal (if c = true then [(k, v)] else []) k = if c then some v else none := by
  cases c <;> simp [lastVal]

/-- the last binding of a name wins -/
theorem aget_foldAttrs_last (a0 : Attrs) (l1 l2 : List (String × Val)) (k : String) (v : Val) (h : ∀ kv ∈ l2, kv.1 ≠ k) :
    aget (foldAttrs a0 (l1 ++ (k, v) :: l2)) k = some v := by
  rw [foldAttrs_append]
  have : foldAttrs (foldAttrs a0 l1) ((k, v) :: l2) = foldAttrs (aset (foldAttrs a0 l1) k v) l2 := rfl
  rw [this, aget_foldAttrs_of_not_mem _ l2 k h, aget_aset_self]

/-- storing attributes through the xattr store on a reference that is a file: data kept, attributes folded -/
theorem rget_storeAttrs_xattr (cfg : Cfg) (hs : cfg.sidecar = false) (r : Ref) (obj : Path) (kvs : List (String × Val))
    (fs : FS) (d : Val) (a0 : Attrs) (h : fs.rget r = some (.file d a0)) :
    (run (storeAttrs cfg fs r obj kvs) fs).rget r = some (.file d (foldAttrs a0 kvs)) := by
  induction kvs generalizing fs a0 with
  | nil => unfold storeAttrs; simpa [run_nil, foldAttrs] using h
  | cons kv rest ih =>
    obtain ⟨a, v⟩ := kv
    unfold storeAttrs
    dsimp only
    rw [run_append]
    have hstep : storeAttr cfg fs r obj a v = [.setx r a v] := by unfold storeAttr; simp [hs]
    rw [hstep]
    have h1 : (run [Step.setx r a v] fs).rget r = some (.file d (aset a0 a v)) := by
      simp only [run, List.foldl, apply, h, Node.withAttrs, Node.attrs]
      exact FS.rget_rput_self fs r _
    have := ih (run [Step.setx r a v] fs) (aset a0 a v) h1
    simpa [foldAttrs] using this

/-! ### the temp file after open + write -/

theorem touches_mkdirAll_false (fs : FS) (dir : Path) (r : Ref) (hr : ∀ p ∈ r.paths, ¬ p <+: dir) :
    ∀ s ∈ mkdirAll fs dir, s.touches r = false := by
  intro s hs
  simp only [mkdirAll, List.mem_map, List.mem_filter, List.mem_range, Bool.and_eq_true, decide_eq_true_eq] at hs
  obtain ⟨x, ⟨⟨i, _, rfl⟩, _, _⟩, rfl⟩ := hs
  cases r with
  | anon id => simp [Step.touches, Step.anons]
  | path p =>
    simp only [Step.touches, Step.writes, List.contains_cons, List.contains_nil, Bool.or_false, beq_eq_false_iff_ne, ne_eq]
    intro he
    exact hr p (by simp [Ref.paths]) (he ▸ List.take_prefix i dir)

theorem not_prefix_snoc (dir : Path) (name : String) : ¬ (dir ++ [name]) <+: dir := by
  intro h
  have := h.length_le
  simp at this
  omega

theorem apply_creat_none (fs : FS) (p : Path) (h : fs.get p = none) : apply (.creat p) fs = fs.put p (.file "" []) := by
  simp [apply, h]

theorem apply_write_file (fs : FS) (r : Ref) (v d : Val) (a : Attrs) (h : fs.rget r = some (.file d a)) :
    apply (.write r v) fs = fs.rput r (.file v a) := by
  simp [apply, h]

theorem get_creat_write (fs : FS) (t : Path) (fa : Bool) (data : Val) (h : fs.get t = none) :
    (run ([.creat t] ++ (if fa then [Step.falloc (.path t)] else []) ++ [.write (.path t) data]) fs).get t
      = some (.file data []) := by
  have h1 : (apply (.creat t) fs).rget (.path t) = some (.file "" []) := by
    rw [apply_creat_none fs t h]; exact FS.get_put_self fs t _
  cases fa
  · show (apply (.write (.path t) data) (apply (.creat t) fs)).get t = _
    rw [apply_write_file _ _ _ _ _ h1]; exact FS.get_put_self _ t _
  · show (apply (.write (.path t) data) (apply (.falloc (.path t)) (apply (.creat t) fs))).get t = _
    have h2 : (apply (.falloc (.path t)) (apply (.creat t) fs)) = apply (.creat t) fs := rfl
    rw [h2, apply_write_file _ _ _ _ _ h1]; exact FS.get_put_self _ t _

theorem aget_otmp_write (fs : FS) (id : Nat) (dir : Path) (fa : Bool) (data : Val) :
    (run ([.otmp id dir] ++ (if fa then [Step.falloc (.anon id)] else []) ++ [.write (.anon id) data]) fs).aget id
      = some (.file data []) := by
  have h1 : (apply (.otmp id dir) fs).rget (.anon id) = some (.file "" []) := FS.aget_aput_self fs id _
  cases fa
  · show (apply (.write (.anon id) data) (apply (.otmp id dir) fs)).aget id = _
    rw [apply_write_file _ _ _ _ _ h1]; exact FS.aget_aput_self _ id _
  · show (apply (.write (.anon id) data) (apply (.falloc (.anon id)) (apply (.otmp id dir) fs))).aget id = _
    have h2 : (apply (.falloc (.anon id)) (apply (.otmp id dir) fs)) = apply (.otmp id dir) fs := rfl
    rw [h2, apply_write_file _ _ _ _ _ h1]; exact FS.aget_aput_self _ id _

theorem rget_open_write (cfg : Cfg) (fs : FS) (id : Nat) (dir : Path) (fa : Bool) (name : String) (data : Val)
    (hfresh : fs.get (dir ++ [name]) = none) :
    (run ((openTmp cfg fs id dir fa name).2 ++ [.write (openTmp cfg fs id dir fa name).1 data]) fs).rget
      (openTmp cfg fs id dir fa name).1 = some (.file data []) := by
  unfold openTmp
  split
  · exact aget_otmp_write fs id dir fa data
  · dsimp only
    have hmk : (run (mkdirAll fs dir) fs).get (dir ++ [name]) = none := by
      have := rget_run_of_not_touches (.path (dir ++ [name])) (mkdirAll fs dir) fs
        (touches_mkdirAll_false fs dir _ (by
          intro p hp
          simp only [Ref.paths, List.mem_singleton] at hp
          subst hp; exact not_prefix_snoc dir name))
      simpa [FS.rget, hfresh] using this
    have := get_creat_write (run (mkdirAll fs dir) fs) (dir ++ [name]) fa data hmk
    simpa [FS.rget, run_append, List.append_assoc] using this

/-! ### publication (unchanged routine): afterwards the name holds the temp file's node -/

theorem apply_link_put (fs : FS) (id : Nat) (p : Path) (n : Node) (h1 : fs.aget id = some n) (h2 : fs.get p = none) :
    apply (.link id p) fs = fs.put p n := by
  simp [apply, h1, h2]

theorem apply_rename_some (fs : FS) (s d : Path) (n : Node) (h : fs.get s = some n) :
    apply (.rename s d) fs = (fs.del s).put d n := by
  simp [apply, h]

theorem get_run_publish (fs : FS) (r : Ref) (obj : Path) (n : Node) (hr : fs.rget r = some n) (hobj : obj ≠ [])
    (hnd : fs.isDir obj = false) (hrp : ∀ p ∈ r.paths, ¬ p <+: obj) :
    (run (publish fs r obj) fs).get obj = some n := by
  unfold publish
  dsimp only
  -- state after the removal of the old object
  have hrm : (run (rmAt fs obj) fs).get obj = none ∧ (run (rmAt fs obj) fs).rget r = some n := by
    have hro : ∀ p ∈ r.paths, p ≠ obj := fun p hp he => hrp p hp (he ▸ List.prefix_refl _)
    unfold rmAt
    split
    · rename_i d a hg
      refine ⟨?_, ?_⟩
      · simp [run, apply, FS.isFile, hg, FS.get_del_self]
      · rw [rget_run_of_not_touches r _ fs, hr]
        intro s hs
        simp only [List.mem_singleton] at hs; subst hs
        cases r with
        | anon id => simp [Step.touches, Step.anons]
        | path p =>
          simp only [Step.touches, Step.writes, List.contains_cons, List.contains_nil, Bool.or_false, beq_eq_false_iff_ne, ne_eq]
          exact fun he => hro p (by simp [Ref.paths]) he
    · rename_i a hg
      simp [FS.isDir, hg] at hnd
    · rename_i hg
      exact ⟨by simpa [run_nil] using hg, by simpa [run_nil] using hr⟩
  generalize rmAt fs obj = rm at hrm
  obtain ⟨h1, h2⟩ := hrm
  rw [run_append, run_append]
  -- the parent directories
  have hmkT : ∀ s ∈ mkdirAll (run rm fs) obj.dropLast, s.touches r = false :=
    touches_mkdirAll_false _ _ r (fun p hp h => hrp p hp (h.trans (List.dropLast_prefix obj)))
  have hmkO : ∀ s ∈ mkdirAll (run rm fs) obj.dropLast, s.touches (.path obj) = false :=
    touches_mkdirAll_false _ _ (.path obj) (by
      intro p hp h
      simp only [Ref.paths, List.mem_singleton] at hp; subst hp
      have := h.length_le
      rw [List.length_dropLast] at this
      have := List.length_pos_iff.mpr hobj
      omega)
  have h3 : (run (mkdirAll (run rm fs) obj.dropLast) (run rm fs)).get obj = none := by
    have := rget_run_of_not_touches (.path obj) _ (run rm fs) hmkO
    simpa [FS.rget, h1] using this
  have h4 : (run (mkdirAll (run rm fs) obj.dropLast) (run rm fs)).rget r = some n := by
    rw [rget_run_of_not_touches r _ (run rm fs) hmkT, h2]
  generalize run (mkdirAll (run rm fs) obj.dropLast) (run rm fs) = fsm at h3 h4
  cases r with
  | anon id =>
    show (apply (.link id obj) fsm).get obj = some n
    rw [apply_link_put fsm id obj n h4 h3]; exact FS.get_put_self _ _ _
  | path t =>
    show (apply (.rename t obj) (apply (.chmod (.path t)) fsm)).get obj = some n
    have : apply (.chmod (.path t)) fsm = fsm := rfl
    rw [this, apply_rename_some fsm t obj n h4]; exact FS.get_put_self _ _ _

/-! ### which unnamed inodes the generators modify -/

def AnonsIn (S : Nat → Prop) (l : List Step) : Prop := ∀ s ∈ l, ∀ id ∈ s.anons, S id

theorem AnonsIn.append {S : Nat → Prop} {a b : List Step} (ha : AnonsIn S a) (hb : AnonsIn S b) : AnonsIn S (a ++ b) := by
  intro s hs
  rcases List.mem_append.mp hs with h | h
  · exact ha s h
  · exact hb s h

theorem AnonsIn.nil (S : Nat → Prop) : AnonsIn S [] := by intro s hs; cases hs

theorem AnonsIn.ite {S : Nat → Prop} {c : Prop} [Decidable c] {a b : List Step} (ha : AnonsIn S a) (hb : AnonsIn S b) :
    AnonsIn S (if c then a else b) := by
  split <;> assumption

theorem anons_mkdirAll (S : Nat → Prop) (fs : FS) (p : Path) : AnonsIn S (mkdirAll fs p) := by
  intro s hs id hid
  simp only [mkdirAll, List.mem_map] at hs
  obtain ⟨x, _, rfl⟩ := hs
  simp [Step.anons] at hid

theorem ref_anon_openTmp (cfg : Cfg) (fs : FS) (id : Nat) (dir : Path) (fa : Bool) (name : String) :
    (openTmp cfg fs id dir fa name).1 = .anon id ∨ (openTmp cfg fs id dir fa name).1 = .path (dir ++ [name]) := by
  unfold openTmp
  split
  · left; rfl
  · right; rfl

theorem anons_openTmp (cfg : Cfg) (fs : FS) (id : Nat) (dir : Path) (fa : Bool) (name : String) :
    AnonsIn (· = id) (openTmp cfg fs id dir fa name).2 := by
  unfold openTmp
  split
  · intro s hs i hi
    simp only [List.mem_append, List.mem_singleton] at hs
    rcases hs with rfl | hs
    · simpa [Step.anons] using hi
    · split at hs
      · simp only [List.mem_singleton] at hs; subst hs; simp [Step.anons] at hi
      · cases hs
  · dsimp only
    refine AnonsIn.append (AnonsIn.append (anons_mkdirAll _ fs dir) ?_) ?_
    · intro s hs i hi
      simp only [List.mem_singleton] at hs; subst hs; simp [Step.anons] at hi
    · intro s hs i hi
      split at hs
      · simp only [List.mem_singleton] at hs; subst hs; simp [Step.anons] at hi
      · cases hs

theorem anons_ref_step (r : Ref) (id : Nat) (hr : r = .anon id ∨ ∃ p, r = .path p) (s : Step)
    (hs : (∃ v, s = .write r v) ∨ (∃ a v, s = .setx r a v)) : ∀ i ∈ s.anons, i = id := by
  intro i hi
  rcases hr with rfl | ⟨p, rfl⟩
  · rcases hs with ⟨v, rfl⟩ | ⟨a, v, rfl⟩ <;> simpa [Step.anons] using hi
  · rcases hs with ⟨v, rfl⟩ | ⟨a, v, rfl⟩ <;> simp [Step.anons] at hi

theorem anons_storeAttrs_xattr (cfg : Cfg) (hs : cfg.sidecar = false) (r : Ref) (id : Nat)
    (hr : r = .anon id ∨ ∃ p, r = .path p) (obj : Path) (kvs : List (String × Val)) (fs : FS) :
    AnonsIn (· = id) (storeAttrs cfg fs r obj kvs) := by
  induction kvs generalizing fs with
  | nil => unfold storeAttrs; exact AnonsIn.nil _
  | cons kv rest ih =>
    obtain ⟨a, v⟩ := kv
    unfold storeAttrs
    refine AnonsIn.append ?_ (ih _)
    unfold storeAttr
    simp only [hs, Bool.false_eq_true, ↓reduceIte]
    intro s hs' i hi
    simp only [List.mem_singleton] at hs'
    exact anons_ref_step r id hr s (Or.inr ⟨a, v, hs'⟩) i hi

theorem anons_publishC (S : Nat → Prop) (cfg : Cfg) (fs : FS) (r : Ref) (obj tdir : Path) (name : String) :
    AnonsIn S (publishC cfg fs r obj tdir name) := by
  unfold publishC
  split
  · unfold publishR
    dsimp only
    refine AnonsIn.append (AnonsIn.append (anons_mkdirAll _ _ _) ?_) ?_
    · intro s hs i hi
      unfold rmDirAt at hs
      split at hs
      · simp only [List.mem_singleton] at hs; subst hs; simp [Step.anons] at hi
      · cases hs
    · intro s hs i hi
      cases r with
      | anon id =>
        dsimp only at hs
        split at hs
        · simp only [List.mem_cons, List.not_mem_nil, or_false] at hs
          rcases hs with rfl | rfl <;> simp [Step.anons] at hi
        · simp only [List.mem_singleton] at hs; subst hs; simp [Step.anons] at hi
      | path t =>
        simp only [List.mem_cons, List.not_mem_nil, or_false] at hs
        rcases hs with rfl | rfl <;> simp [Step.anons] at hi
  · unfold publish
    dsimp only
    refine AnonsIn.append (AnonsIn.append ?_ (anons_mkdirAll _ _ _)) ?_
    · intro s hs i hi
      unfold rmAt at hs
      split at hs
      · simp only [List.mem_singleton] at hs; subst hs; simp [Step.anons] at hi
      · simp only [List.mem_singleton] at hs; subst hs; simp [Step.anons] at hi
      · cases hs
    · intro s hs i hi
      cases r with
      | anon id => simp only [List.mem_singleton] at hs; subst hs; simp [Step.anons] at hi
      | path t =>
        simp only [List.mem_cons, List.not_mem_nil, or_false] at hs
        rcases hs with rfl | rfl <;> simp [Step.anons] at hi

theorem anons_archive_xattr (cfg : Cfg) (hs : cfg.sidecar = false) (rq : Req) (key : Path) (fs : FS) :
    AnonsIn (· = 1) (archive cfg rq fs key) := by
  unfold archive
  dsimp only
  split
  · rename_i data _ _
    have hr := ref_anon_openTmp cfg fs 1 (verBucket cfg ++ [".sgwtmp"]) (data != "") (rq.tmp ++ "v")
    have hr' : (openTmp cfg fs 1 (verBucket cfg ++ [".sgwtmp"]) (data != "") (rq.tmp ++ "v")).1 = .anon 1 ∨
        ∃ p, (openTmp cfg fs 1 (verBucket cfg ++ [".sgwtmp"]) (data != "") (rq.tmp ++ "v")).1 = .path p := by
      rcases hr with h | h
      · exact Or.inl h
      · exact Or.inr ⟨_, h⟩
    refine AnonsIn.append (AnonsIn.append (AnonsIn.append (AnonsIn.append (anons_openTmp cfg fs 1 _ _ _) ?_) (anons_mkdirAll _ _ _)) ?_) (anons_publishC _ _ _ _ _ _ _)
    · intro s hs' i hi
      simp only [List.mem_singleton] at hs'
      exact anons_ref_step _ 1 hr' s (Or.inl ⟨_, hs'⟩) i hi
    · exact anons_storeAttrs_xattr cfg hs _ 1 hr' _ _ _
  · exact AnonsIn.nil _

/-! ### PutObject: what the name holds after the completed request -/

theorem not_touches_of (r : Ref) (l : List Step)
    (ha : ∀ id, r = .anon id → AnonsIn (· ≠ id) l) (hp : ∀ p, r = .path p → WritesIn (· ≠ p) l) :
    ∀ s ∈ l, s.touches r = false := by
  intro s hs
  cases r with
  | anon id =>
    simp only [Step.touches]
    rw [Bool.eq_false_iff]
    intro hc
    exact ha id rfl s hs id (List.contains_iff_mem.mp hc) rfl
  | path p =>
    simp only [Step.touches]
    rw [Bool.eq_false_iff]
    intro hc
    exact hp p rfl s hs p (List.contains_iff_mem.mp hc) rfl

theorem tmp_not_prefix_obj (cfg : Cfg) (key : Path) (hk : KeyOK key) (name : String) :
    ¬ (tmpDir cfg ++ [name]) <+: objPath cfg key := by
  intro h
  have h1 : tmpDir cfg <+: objPath cfg key := (List.prefix_append _ _).trans h
  rw [tmpDir_eq, objPath_eq] at h1
  have h2 : [".sgwtmp"] <+: key := (List.prefix_cons_inj cfg.bucket).mp ((List.prefix_cons_inj "R").mp h1)
  cases key with
  | nil => exact hk.1 rfl
  | cons x t => rw [List.cons_prefix_cons] at h2; exact hk.2 (by simp [h2.1])

/-- the node of the temp file at the end of the preparation -/
theorem rget_prePut (cfg : Cfg) (hs : cfg.sidecar = false) (rq : Req) (key : Path) (hk : KeyOK key) (fs : FS) (sp : PutSpec)
    (hfresh : fs.get (tmpDir cfg ++ [rq.tmp]) = none) :
    ∃ kvs, (run (prePut cfg rq fs key sp) fs).rget (openTmp cfg fs 0 (tmpDir cfg) sp.falloc rq.tmp).1
      = some (.file sp.data (foldAttrs [] kvs)) ∧
      kvs = sp.attrs ++ (if cfg.verDir && cfg.vstatus == .enabled then [("version-id", rq.newVid)] else []) ++ sp.tailAttrs := by
  refine ⟨_, ?_, rfl⟩
  unfold prePut
  dsimp only
  rw [deleteAttrs_xattr cfg hs]
  simp only [List.append_nil, run_append, run_nil]
  have hor := ref_anon_openTmp cfg fs 0 (tmpDir cfg) sp.falloc rq.tmp
  -- the steps between open+write and the attribute writes do not touch the temp file
  have hnt : ∀ l : List Step, AnonsIn (· = 1) l ∨ AnonsIn (fun _ => False) l →
      WritesIn (fun q => ["V"] <+: q ∨ q <+: (objPath cfg key).dropLast) l →
      ∀ s ∈ l, s.touches (openTmp cfg fs 0 (tmpDir cfg) sp.falloc rq.tmp).1 = false := by
    intro l hA hW
    apply not_touches_of
    · intro id hid s hs' i hi hii
      rcases hor with h | h
      · rw [h] at hid; cases hid
        rcases hA with hA | hA
        · have := hA s hs' i hi; omega
        · exact hA s hs' i hi
      · rw [h] at hid; cases hid
    · intro p hp s hs' q hq hqp
      rcases hor with h | h
      · rw [h] at hp; cases hp
      · rw [h] at hp; cases hp
        subst hqp
        rcases hW s hs' _ hq with hv | hv
        · rw [tmpDir_eq] at hv
          exact absurd (List.cons_prefix_cons.mp hv).1 (by decide)
        · exact tmp_not_prefix_obj cfg key hk rq.tmp (hv.trans (List.dropLast_prefix _))
  have h1 := rget_open_write cfg fs 0 (tmpDir cfg) sp.falloc rq.tmp sp.data hfresh
  rw [run_append] at h1
  -- s2: archive
  have h2 : ∀ fsx : FS, fsx.rget (openTmp cfg fs 0 (tmpDir cfg) sp.falloc rq.tmp).1 = some (.file sp.data []) →
      ∀ c : Prop, [Decidable c] → (run (if c then archive cfg rq fsx key else []) fsx).rget (openTmp cfg fs 0 (tmpDir cfg) sp.falloc rq.tmp).1
        = some (.file sp.data []) := by
    intro fsx hx c _
    rw [rget_run_of_not_touches _ _ fsx, hx]
    split
    · exact hnt _ (Or.inl (anons_archive_xattr cfg hs rq key fsx)) ((writes_archive_xattr cfg hs rq key fsx).mono (fun q h => Or.inl h))
    · intro s hs'; cases hs'
  have h3 : ∀ fsx : FS, fsx.rget (openTmp cfg fs 0 (tmpDir cfg) sp.falloc rq.tmp).1 = some (.file sp.data []) →
      (run (mkdirAll fsx (objPath cfg key).dropLast) fsx).rget (openTmp cfg fs 0 (tmpDir cfg) sp.falloc rq.tmp).1 = some (.file sp.data []) := by
    intro fsx hx
    rw [rget_run_of_not_touches _ _ fsx, hx]
    exact hnt _ (Or.inr (anons_mkdirAll _ _ _)) ((writes_mkdirAll _ _).mono (fun q h => Or.inr h.1))
  have h4 : ∀ fsx : FS, fsx.rget (openTmp cfg fs 0 (tmpDir cfg) sp.falloc rq.tmp).1 = some (.file sp.data []) →
      ∀ c : Prop, [Decidable c] → (run (if c then deleteNullVersion cfg fsx key else []) fsx).rget (openTmp cfg fs 0 (tmpDir cfg) sp.falloc rq.tmp).1
        = some (.file sp.data []) := by
    intro fsx hx c _
    rw [rget_run_of_not_touches _ _ fsx, hx]
    split
    · refine hnt _ (Or.inr ?_) ((writes_deleteNullVersion cfg hs key fsx).mono (fun q h => Or.inl h))
      intro s hs' i hi
      unfold deleteNullVersion at hs'
      dsimp only at hs'
      rw [deleteAttrs_xattr cfg hs, List.append_nil] at hs'
      split at hs'
      · simp only [List.mem_singleton] at hs'; subst hs'; simp [Step.anons] at hi
      · cases hs'
    · intro s hs'; cases hs'
  exact rget_storeAttrs_xattr cfg hs _ _ _ _ _ _ (h4 _ (h3 _ (h2 _ h1 _)) _)

/-! ### publication with the replace-by-rename routine -/

theorem get_run_publishR (fs : FS) (r : Ref) (obj tdir : Path) (name : String) (n : Node) (hr : fs.rget r = some n)
    (hobj : obj ≠ []) (hnd : fs.isDir obj = false) (hrp : ∀ p ∈ r.paths, ¬ p <+: obj)
    (htn : ¬ (tdir ++ [name]) <+: obj) (hfresh : ∀ id, r = .anon id → fs.get (tdir ++ [name]) = none) :
    (run (publishR fs r obj tdir name) fs).get obj = some n := by
  unfold publishR
  dsimp only
  have hrm : rmDirAt fs obj = [] := by
    unfold rmDirAt
    unfold FS.isDir at hnd
    split <;> simp_all
  rw [hrm, List.append_nil, run_append]
  have hmkT : ∀ s ∈ mkdirAll fs obj.dropLast, s.touches r = false :=
    touches_mkdirAll_false _ _ r (fun p hp h => hrp p hp (h.trans (List.dropLast_prefix obj)))
  have hmkP : ∀ q : Path, ¬ q <+: obj.dropLast → ∀ s ∈ mkdirAll fs obj.dropLast, s.touches (.path q) = false :=
    fun q hq => touches_mkdirAll_false _ _ (.path q) (by
      intro p hp h
      simp only [Ref.paths, List.mem_singleton] at hp; subst hp; exact hq h)
  have hobjNP : ¬ obj <+: obj.dropLast := by
    intro h
    have := h.length_le
    rw [List.length_dropLast] at this
    have := List.length_pos_iff.mpr hobj
    omega
  have h3 : (run (mkdirAll fs obj.dropLast) fs).get obj = fs.get obj := by
    have := rget_run_of_not_touches (.path obj) _ fs (hmkP obj hobjNP)
    simpa [FS.rget] using this
  have h4 : (run (mkdirAll fs obj.dropLast) fs).rget r = some n := by
    rw [rget_run_of_not_touches r _ fs hmkT, hr]
  have h5 : (run (mkdirAll fs obj.dropLast) fs).get (tdir ++ [name]) = fs.get (tdir ++ [name]) := by
    have := rget_run_of_not_touches (.path (tdir ++ [name])) _ fs
      (hmkP _ (fun h => htn (h.trans (List.dropLast_prefix obj))))
    simpa [FS.rget] using this
  generalize run (mkdirAll fs obj.dropLast) fs = fsm at h3 h4 h5
  cases r with
  | anon id =>
    simp only [FS.rget] at h4
    dsimp only
    split
    · -- an object is there: link next to the temp files, rename over it
      have h6 : fsm.get (tdir ++ [name]) = none := by rw [h5]; exact hfresh id rfl
      show (apply (.rename (tdir ++ [name]) obj) (apply (.link id (tdir ++ [name])) fsm)).get obj = some n
      rw [apply_link_put fsm id _ n h4 h6,
        apply_rename_some _ _ obj n (FS.get_put_self fsm _ n)]
      exact FS.get_put_self _ _ _
    · rename_i hnf
      have hnone : fsm.get obj = none := by
        rw [h3]
        unfold FS.isFile at hnf
        unfold FS.isDir at hnd
        cases hg : fs.get obj with
        | none => rfl
        | some nd => cases nd <;> simp_all
      show (apply (.link id obj) fsm).get obj = some n
      rw [apply_link_put fsm id obj n h4 hnone]; exact FS.get_put_self _ _ _
  | path t =>
    simp only [FS.rget] at h4
    show (apply (.rename t obj) (apply (.chmod (.path t)) fsm)).get obj = some n
    have : apply (.chmod (.path t)) fsm = fsm := rfl
    rw [this, apply_rename_some fsm t obj n h4]; exact FS.get_put_self _ _ _

/-! ### where the preparation of a PutObject writes, finely -/

theorem writes_openTmp_fine (cfg : Cfg) (fs : FS) (id : Nat) (dir : Path) (fa : Bool) (name : String) :
    WritesIn (fun q => (q <+: dir ∧ 2 ≤ q.length) ∨ q ∈ (openTmp cfg fs id dir fa name).1.paths)
      (openTmp cfg fs id dir fa name).2 := by
  unfold openTmp
  split
  · intro s hs q hq
    simp only [List.mem_append, List.mem_singleton] at hs
    rcases hs with rfl | hs
    · simp [Step.writes] at hq
    · split at hs
      · simp only [List.mem_singleton] at hs; subst hs; simp [Step.writes] at hq
      · cases hs
  · apply WritesIn.append
    · apply WritesIn.append
      · exact (writes_mkdirAll fs dir).mono (fun q h => Or.inl h)
      · intro s hs q hq
        simp only [List.mem_singleton] at hs; subst hs
        simp only [Step.writes, List.mem_singleton] at hq; subst hq
        exact Or.inr (by simp [Ref.paths])
    · intro s hs q hq
      split at hs
      · simp only [List.mem_singleton] at hs; subst hs; simp [Step.writes] at hq
      · cases hs

theorem writes_prePut_fine (cfg : Cfg) (hs : cfg.sidecar = false) (rq : Req) (key : Path) (fs : FS) (sp : PutSpec) :
    WritesIn (fun q => (q <+: tmpDir cfg ∧ 2 ≤ q.length) ∨ q ∈ (openTmp cfg fs 0 (tmpDir cfg) sp.falloc rq.tmp).1.paths ∨
        ["V"] <+: q ∨ q <+: (objPath cfg key).dropLast) (prePut cfg rq fs key sp) := by
  unfold prePut
  dsimp only
  rw [deleteAttrs_xattr cfg hs]
  repeat' apply WritesIn.append
  · exact (writes_openTmp_fine cfg fs 0 _ _ _).mono (fun q h => by
      rcases h with h | h
      · exact Or.inl h
      · exact Or.inr (Or.inl h))
  · intro s hs' q hq
    simp only [List.mem_singleton] at hs'; subst hs'
    exact Or.inr (Or.inl (by simpa [Step.writes] using hq))
  · exact WritesIn.ite ((writes_archive_xattr cfg hs rq key _).mono (fun q h => Or.inr (Or.inr (Or.inl h)))) (WritesIn.nil _)
  · exact (writes_mkdirAll _ _).mono (fun q h => Or.inr (Or.inr (Or.inr h.1)))
  · exact WritesIn.ite ((writes_deleteNullVersion cfg hs key _).mono (fun q h => Or.inr (Or.inr (Or.inl h)))) (WritesIn.nil _)
  · exact WritesIn.nil _
  · exact (writes_storeAttrs_xattr cfg hs _ _ _ _).mono (fun q h => Or.inr (Or.inl h))

/-- with O_TMPFILE the preparation leaves the name of the replace link alone -/
theorem get_tmpname_prePut (cfg : Cfg) (hs : cfg.sidecar = false) (rq : Req) (key : Path) (hk : KeyOK key) (fs : FS) (sp : PutSpec)
    (id : Nat) (hanon : (openTmp cfg fs 0 (tmpDir cfg) sp.falloc rq.tmp).1 = .anon id) :
    (run (prePut cfg rq fs key sp) fs).get (tmpDir cfg ++ [rq.tmp]) = fs.get (tmpDir cfg ++ [rq.tmp]) := by
  have := rget_run_of_not_touches (.path (tmpDir cfg ++ [rq.tmp])) (prePut cfg rq fs key sp) fs (by
    apply not_touches_of
    · intro id' h; cases h
    · intro p hp s hs' q hq hqp
      cases hp
      subst hqp
      rcases writes_prePut_fine cfg hs rq key fs sp s hs' _ hq with h | h | h | h
      · exact not_prefix_snoc _ _ h.1
      · rw [hanon] at h; simp [Ref.paths] at h
      · rw [tmpDir_eq] at h
        exact absurd (List.cons_prefix_cons.mp h).1 (by decide)
      · exact tmp_not_prefix_obj cfg key hk rq.tmp (h.trans (List.dropLast_prefix _)))
  simpa [FS.rget] using this

/-- The attributes a PutObject writes, in order: onto the temp file, then by name. -/
def putAttrs (cfg : Cfg) (rq : Req) : List (String × Val) :=
  (putSpecOf cfg rq).attrs ++ (if cfg.verDir && cfg.vstatus == .enabled then [("version-id", rq.newVid)] else []) ++
  (putSpecOf cfg rq).tailAttrs ++ (putSpecOf cfg rq).postAttrs

/-- After the completed PutObject the name holds the request's body with exactly the request's attributes —
    from ANY state in which the bucket exists, the name is not a directory and the temp name is fresh. -/
theorem get_planPut (cfg : Cfg) (hs : cfg.sidecar = false) (rq : Req) (hk : KeyOK rq.key)
    (fs : FS) (hb : fs.isDir (bucketPath cfg) = true) (hnd : fs.isDir (objPath cfg rq.key) = false)
    (hfresh : fs.get (tmpDir cfg ++ [rq.tmp]) = none) :
    (run (planPut cfg rq fs) fs).get (objPath cfg rq.key) = some (.file rq.data (foldAttrs [] (putAttrs cfg rq))) := by
  unfold planPut planPutSpec
  dsimp only
  simp only [hb, hnd, Bool.not_true, Bool.or_self, Bool.false_eq_true, ↓reduceIte, run_append]
  obtain ⟨kvs, hpre, hkvs⟩ := rget_prePut cfg hs rq rq.key hk fs (putSpecOf cfg rq) hfresh
  have hsil := silent_of_aside (aside_prePut cfg hs rq rq.key hk fs (putSpecOf cfg rq)) hk
  have hnd' : (run (prePut cfg rq fs rq.key (putSpecOf cfg rq)) fs).isDir (objPath cfg rq.key) = false := by
    unfold FS.isDir at hnd ⊢
    rw [get_of_silent cfg rq.key _ fs hsil]; exact hnd
  have hobj : objPath cfg rq.key ≠ [] := by rw [objPath_eq]; simp
  have hrp : ∀ p ∈ (openTmp cfg fs 0 (tmpDir cfg) (putSpecOf cfg rq).falloc rq.tmp).1.paths, ¬ p <+: objPath cfg rq.key := by
    intro p hp
    rcases ref_anon_openTmp cfg fs 0 (tmpDir cfg) (putSpecOf cfg rq).falloc rq.tmp with h | h
    · rw [h] at hp; simp [Ref.paths] at hp
    · rw [h] at hp
      simp only [Ref.paths, List.mem_singleton] at hp
      subst hp; exact tmp_not_prefix_obj cfg rq.key hk rq.tmp
  have h7 : (run (publishC cfg (run (prePut cfg rq fs rq.key (putSpecOf cfg rq)) fs)
      (openTmp cfg fs 0 (tmpDir cfg) (putSpecOf cfg rq).falloc rq.tmp).1 (objPath cfg rq.key) (tmpDir cfg) rq.tmp)
      (run (prePut cfg rq fs rq.key (putSpecOf cfg rq)) fs)).get (objPath cfg rq.key) = some (.file (putSpecOf cfg rq).data (foldAttrs [] kvs)) := by
    unfold publishC
    split
    · refine get_run_publishR _ _ _ _ _ _ hpre hobj hnd' hrp (tmp_not_prefix_obj cfg rq.key hk rq.tmp) ?_
      intro id hid
      rw [get_tmpname_prePut cfg hs rq rq.key hk fs (putSpecOf cfg rq) id hid]; exact hfresh
    · exact get_run_publish _ _ _ _ hpre hobj hnd' hrp
  have h8 := rget_storeAttrs_xattr cfg hs (.path (objPath cfg rq.key)) (objPath cfg rq.key) (putSpecOf cfg rq).postAttrs _ _ _ h7
  simp only [FS.rget] at h8
  rw [h8, hkvs]
  have hdata : (putSpecOf cfg rq).data = rq.data := rfl
  rw [hdata]
  congr 2
  simp [foldAttrs, putAttrs, List.foldl_append]

end Vgw.Model.Crash
