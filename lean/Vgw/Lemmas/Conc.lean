/-
  Lemmas about Model.Conc: the per-request invariant of writers (the unpublished inode is complete
  when the publication step runs), reachability invariants of the filesystem state.
-/
import Vgw.Model.Conc
namespace Vgw.Model.Conc

/-! ### private / publishing steps -/

def Act.isPriv : Act → Bool
  | .opentmp | .setattr _ _ => true
  | _ => false

def Act.isPub : Act → Bool
  | .linkat | .linkatx | .rename => true
  | _ => false

/-- the temp inode after the private steps still in the program. -/
def finalTmp (rq : Req) (tmp : Inode) : List Act → Inode
  | [] => tmp
  | .opentmp :: p => finalTmp rq ⟨rq.w.blob, []⟩ p
  | .setattr a v :: p => finalTmp rq { tmp with attrs := setAttr tmp.attrs a v } p
  | _ :: p => finalTmp rq tmp p

/-- no private step after a publishing step. -/
def okOrder : List Act → Bool
  | [] => true
  | a :: p => if a.isPub then p.all (fun b => !b.isPriv) else okOrder p

theorem finalTmp_neutral (rq : Req) (tmp : Inode) (a : Act) (p : List Act) (h : a.isPriv = false) :
    finalTmp rq tmp (a :: p) = finalTmp rq tmp p := by
  cases a <;> simp_all [finalTmp, Act.isPriv]

theorem finalTmp_noPriv (rq : Req) (tmp : Inode) (p : List Act) (h : p.all (fun b => !b.isPriv) = true) :
    finalTmp rq tmp p = tmp := by
  induction p with
  | nil => rfl
  | cons a p ih =>
    simp only [List.all_cons, Bool.and_eq_true, Bool.not_eq_true'] at h
    rw [finalTmp_neutral rq tmp a p h.1]; exact ih h.2

theorem finalTmp_append_noPriv (rq : Req) (tmp : Inode) (p q : List Act) (h : p.all (fun b => !b.isPriv) = true) :
    finalTmp rq tmp (p ++ q) = finalTmp rq tmp q := by
  induction p with
  | nil => rfl
  | cons a p ih =>
    simp only [List.all_cons, Bool.and_eq_true, Bool.not_eq_true'] at h
    rw [List.cons_append, finalTmp_neutral rq tmp a _ h.1]; exact ih h.2

theorem finalTmp_setProg (rq : Req) (tmp : Inode) (l : List (Attr × Val)) (p : List Act) :
    finalTmp rq tmp (setProg l ++ p) = finalTmp rq { tmp with attrs := applySets tmp.attrs l } p := by
  induction l generalizing tmp with
  | nil => simp [setProg, applySets]
  | cons x l ih =>
    have := ih { tmp with attrs := setAttr tmp.attrs x.1 x.2 }
    simp only [setProg, List.map_cons, List.cons_append, finalTmp, applySets, List.foldl_cons] at this ⊢
    exact this

theorem finalTmp_filter (rq : Req) (tmp : Inode) (p : List Act) (f : Act → Bool)
    (h : ∀ a, f a = false → a.isPriv = false) : finalTmp rq tmp (p.filter f) = finalTmp rq tmp p := by
  induction p generalizing tmp with
  | nil => rfl
  | cons a p ih =>
    by_cases hf : f a = true
    · rw [List.filter_cons_of_pos hf]
      cases a <;> simp only [finalTmp] <;> exact ih _
    · have hf' : f a = false := by simpa using hf
      rw [List.filter_cons_of_neg (by simp [hf']), finalTmp_neutral rq tmp a p (h a hf')]; exact ih tmp

theorem okOrder_neutral (a : Act) (p : List Act) (h : a.isPub = false) : okOrder (a :: p) = okOrder p := by
  simp [okOrder, h]

theorem all_filter_of_all {α} (p : List α) (f g : α → Bool) (h : p.all g = true) : (p.filter f).all g = true := by
  simp only [List.all_eq_true, List.mem_filter] at *
  intro x hx; exact h x hx.1

theorem okOrder_filter (p : List Act) (f : Act → Bool) (h : okOrder p = true) : okOrder (p.filter f) = true := by
  induction p with
  | nil => rfl
  | cons a p ih =>
    by_cases hf : f a = true
    · rw [List.filter_cons_of_pos hf]
      by_cases hp : a.isPub = true
      · simp only [okOrder, hp, if_true] at h ⊢; exact all_filter_of_all p f _ h
      · have hp' : a.isPub = false := by simpa using hp
        rw [okOrder_neutral a _ hp'] at h ⊢; exact ih h
    · rw [List.filter_cons_of_neg hf]
      by_cases hp : a.isPub = true
      · simp only [okOrder, hp, if_true] at h
        clear ih
        induction p with
        | nil => rfl
        | cons b p ihp =>
          simp only [List.all_cons, Bool.and_eq_true] at h
          by_cases hfb : f b = true
          · rw [List.filter_cons_of_pos hfb]
            by_cases hb : b.isPub = true
            · simp only [okOrder, hb, if_true]; exact all_filter_of_all p f _ h.2
            · have hb' : b.isPub = false := by simpa using hb
              rw [okOrder_neutral b _ hb']; exact ihp h.2
          · rw [List.filter_cons_of_neg hfb]; exact ihp h.2
      · have hp' : a.isPub = false := by simpa using hp
        rw [okOrder_neutral a _ hp'] at h; exact ih h

theorem okOrder_append_neutral (p q : List Act) (h : p.all (fun b => !b.isPub) = true) : okOrder (p ++ q) = okOrder q := by
  induction p with
  | nil => rfl
  | cons a p ih =>
    simp only [List.all_cons, Bool.and_eq_true, Bool.not_eq_true'] at h
    rw [List.cons_append, okOrder_neutral a _ h.1]; exact ih h.2


theorem okOrder_of_noPriv (p : List Act) (h : p.all (fun b => !b.isPriv) = true) : okOrder p = true := by
  induction p with
  | nil => rfl
  | cons a p ih =>
    simp only [List.all_cons, Bool.and_eq_true] at h
    by_cases hp : a.isPub = true
    · simp only [okOrder, hp, if_true]; exact h.2
    · have hp' : a.isPub = false := by simpa using hp
      rw [okOrder_neutral a _ hp']; exact ih h.2

/-! ### the per-request invariant -/

def hasPub (p : List Act) : Bool := p.any Act.isPub

/-- as long as a publishing step is still ahead: the request is a write, the private steps still to
    run complete the temp inode to the write's whole object, and none of them comes after the
    publishing step. -/
def RInv (rq : Req) (l : Local) : Prop :=
  hasPub l.prog = true →
    rq.kind.isWrite = true ∧ finalTmp rq l.tmp l.prog = written rq ∧ okOrder l.prog = true

def Act.neutral (a : Act) : Bool := !a.isPriv && !a.isPub

theorem hasPub_append (p q : List Act) : hasPub (p ++ q) = (hasPub p || hasPub q) := by
  simp [hasPub]

theorem hasPub_neutral (n : List Act) (h : n.all Act.neutral = true) : hasPub n = false := by
  induction n with
  | nil => rfl
  | cons a n ih =>
    simp only [List.all_cons, Bool.and_eq_true] at h
    have : a.isPub = false := by
      have := h.1; simp only [Act.neutral, Bool.and_eq_true, Bool.not_eq_true'] at this; exact this.2
    simp only [hasPub, List.any_cons, this, Bool.false_or] at *
    exact ih h.2

theorem hasPub_filter (p : List Act) (f : Act → Bool) (h : hasPub (p.filter f) = true) : hasPub p = true := by
  simp only [hasPub, List.any_eq_true, List.mem_filter] at *
  obtain ⟨x, hx, hp⟩ := h
  exact ⟨x, hx.1, hp⟩

/-- a step that is neither private nor publishing, leaves the temp inode alone and replaces the
    rest of the program by neutral insertions in front of a neutral-only filtering of it. -/
theorem RInv_transfer {rq : Req} {l l' : Local} {a : Act} {rest n : List Act} {f : Act → Bool}
    (h : RInv rq l) (hp : l.prog = a :: rest) (ha : a.neutral = true)
    (htmp : l'.tmp = l.tmp) (hprog : l'.prog = n ++ rest.filter f)
    (hn : n.all Act.neutral = true) (hf : ∀ b, f b = false → b.neutral = true) : RInv rq l' := by
  intro hpub
  rw [hprog, hasPub_append, hasPub_neutral n hn, Bool.false_or] at hpub
  have hrest := hasPub_filter rest f hpub
  have ha' : a.isPriv = false ∧ a.isPub = false := by
    simp only [Act.neutral, Bool.and_eq_true, Bool.not_eq_true'] at ha; exact ha
  have h0 := h (by rw [hp]; simp [hasPub, hrest] at *; right; exact hrest)
  rw [hp, finalTmp_neutral rq l.tmp a rest ha'.1, okOrder_neutral a rest ha'.2] at h0
  refine ⟨h0.1, ?_, ?_⟩
  · rw [hprog, htmp, finalTmp_append_noPriv]
    · rw [finalTmp_filter]; exact h0.2.1
      intro b hb; have := hf b hb
      simp only [Act.neutral, Bool.and_eq_true, Bool.not_eq_true'] at this; exact this.1
    · simp only [List.all_eq_true] at hn ⊢
      intro x hx; have := hn x hx
      simp only [Act.neutral, Bool.and_eq_true, Bool.not_eq_true'] at this; simp [this.1]
  · rw [hprog, okOrder_append_neutral]
    · exact okOrder_filter rest f h0.2.2
    · simp only [List.all_eq_true] at hn ⊢
      intro x hx; have := hn x hx
      simp only [Act.neutral, Bool.and_eq_true, Bool.not_eq_true'] at this; simp [this.2]

theorem RInv_nil {rq : Req} {l : Local} (h : l.prog = []) : RInv rq l := by
  intro hp; rw [h] at hp; simp [hasPub] at hp


theorem finalize_prog (rq : Req) (fs : FS) (l : Local) : (finalize rq fs l).prog = l.prog := by
  unfold finalize; split <;> (try split) <;> rfl

theorem finalize_tmp (rq : Req) (fs : FS) (l : Local) : (finalize rq fs l).tmp = l.tmp := by
  unfold finalize; split <;> (try split) <;> rfl

theorem finalize_fd (rq : Req) (fs : FS) (l : Local) : (finalize rq fs l).fd = l.fd := by
  unfold finalize; split <;> (try split) <;> rfl

theorem finalize_views (rq : Req) (fs : FS) (l : Local) : (finalize rq fs l).views = l.views := by
  unfold finalize; split <;> (try split) <;> rfl

theorem dropMeta_eq (p : List Act) : dropMeta p = p.filter (fun a => !a.isMeta) := rfl

theorem isMeta_neutral (b : Act) (h : (!b.isMeta) = false) : b.neutral = true := by
  cases b <;> simp_all [Act.isMeta, Act.neutral, Act.isPriv, Act.isPub]

theorem filter_true {α} (p : List α) : p.filter (fun _ => true) = p := by simp

/-- reading steps never touch the temp inode and only reshape the program neutrally. -/
theorem readAct_shape (t : Option Inode) (l : Local) (a : Act) :
    (readAct t l a).tmp = l.tmp ∧
    ((readAct t l a).prog = [] ∨ (readAct t l a).prog = l.prog ∨ (readAct t l a).prog = dropMeta l.prog ∨
      (a = .listnames ∧ ∃ ks : List Nat, (readAct t l a).prog = ks.map Act.getmeta ++ l.prog)) := by
  cases a with
  | rstat => simp only [readAct]; split <;> simp [fail]
  | listsize => simp only [readAct]; split <;> (try split) <;> simp
  | listnames =>
    simp only [readAct]; split
    · simp
    · split
      · simp
      · exact ⟨rfl, Or.inr (Or.inr (Or.inr ⟨trivial, _, rfl⟩))⟩
  | getmeta k => simp only [readAct]; split <;> simp
  | gethdr x => simp only [readAct]; split <;> simp
  | getetag => simp [readAct]
  | gettags => simp only [readAct]; split <;> simp [fail]
  | _ => simp [readAct]

theorem getmeta_neutral (ks : List Nat) : (ks.map Act.getmeta).all Act.neutral = true := by
  simp [Act.neutral, Act.isPriv, Act.isPub]

theorem RInv_read {rq : Req} {l : Local} {a : Act} {rest : List Act} (hp : l.prog = a :: rest) (h : RInv rq l)
    (ha : a.neutral = true) (t : Option Inode) (vs : List (Option Nat)) :
    RInv rq (readAct t { l with prog := rest, views := vs } a) := by
  have sh := readAct_shape t { l with prog := rest, views := vs } a
  rcases sh with ⟨htmp, hnil | hsame | hdrop | ⟨_, ks, hins⟩⟩
  · exact RInv_nil hnil
  · exact RInv_transfer (n := []) (f := fun _ => true) h hp ha htmp (by rw [hsame, List.nil_append, filter_true]) rfl (by simp)
  · exact RInv_transfer (n := []) (f := fun a => !a.isMeta) h hp ha htmp (by rw [hdrop, dropMeta_eq]; rfl) rfl
      (fun b hb => isMeta_neutral b hb)
  · exact RInv_transfer (n := ks.map Act.getmeta) (f := fun _ => true) h hp ha htmp (by rw [hins, filter_true])
      (getmeta_neutral ks) (by simp)

theorem RInv_exec (c : Cfg) (rq : Req) (fs : FS) (l : Local) (a : Act) (rest : List Act)
    (hp : l.prog = a :: rest) (h : RInv rq l) : RInv rq (execAct c rq fs { l with prog := rest } a).2 := by
  have keep : ∀ l' : Local, a.neutral = true → l'.tmp = l.tmp → l'.prog = rest → RInv rq l' := by
    intro l' ha ht hpr
    exact RInv_transfer (n := []) (f := fun _ => true) h hp ha ht (by rw [hpr, List.nil_append, filter_true]) rfl (by simp)
  cases a with
  | wstat => exact keep _ rfl rfl rfl
  | lstat => exact keep _ rfl rfl rfl
  | rmdirProbe => exact keep _ rfl rfl rfl
  | statign => exact keep _ rfl rfl rfl
  | linktmp => exact keep _ rfl rfl rfl
  | opentmp =>
    intro hpub
    simp only [execAct] at hpub ⊢
    have h0 := h (by rw [hp]; simpa [hasPub, Act.isPub] using hpub)
    rw [hp] at h0
    exact ⟨h0.1, h0.2.1, by simpa [okOrder, Act.isPub] using h0.2.2⟩
  | setattr x v =>
    intro hpub
    simp only [execAct] at hpub ⊢
    have h0 := h (by rw [hp]; simpa [hasPub, Act.isPub] using hpub)
    rw [hp] at h0
    exact ⟨h0.1, h0.2.1, by simpa [okOrder, Act.isPub] using h0.2.2⟩
  | unlink =>
    simp only [execAct]
    split
    · exact keep _ rfl rfl rfl
    · exact RInv_transfer (n := [.rmdirProbe]) (f := fun _ => true) h hp rfl rfl (by rw [filter_true]; rfl) rfl (by simp)
  | linkat =>
    simp only [execAct]
    split
    · -- published: nothing private may follow
      intro hpub
      have h0 := h (by rw [hp]; simp [hasPub, Act.isPub])
      rw [hp] at h0
      have hnp : rest.all (fun b => !b.isPriv) = true := by simpa [okOrder, Act.isPub] using h0.2.2
      refine ⟨h0.1, ?_, okOrder_of_noPriv rest hnp⟩
      have := h0.2.1; rw [finalTmp_neutral _ _ _ _ rfl] at this; exact this
    · intro _
      have h0 := h (by rw [hp]; simp [hasPub, Act.isPub])
      rw [hp] at h0
      refine ⟨h0.1, ?_, ?_⟩
      · show finalTmp rq l.tmp (.unlink :: .linkat :: rest) = written rq
        rw [finalTmp_neutral _ _ _ _ rfl]; exact h0.2.1
      · show okOrder (.unlink :: .linkat :: rest) = true
        rw [okOrder_neutral _ _ rfl]; exact h0.2.2
  | linkatx =>
    simp only [execAct]
    split
    · -- published: nothing private may follow
      intro hpub
      have h0 := h (by rw [hp]; simp [hasPub, Act.isPub])
      rw [hp] at h0
      have hnp : rest.all (fun b => !b.isPriv) = true := by simpa [okOrder, Act.isPub] using h0.2.2
      refine ⟨h0.1, ?_, okOrder_of_noPriv rest hnp⟩
      have := h0.2.1; rw [finalTmp_neutral _ _ _ _ rfl] at this; exact this
    · -- EEXIST: linkAndReplace (link to a temp name, rename over the object)
      intro _
      have h0 := h (by rw [hp]; simp [hasPub, Act.isPub])
      rw [hp] at h0
      have hnp : rest.all (fun b => !b.isPriv) = true := by simpa [okOrder, Act.isPub] using h0.2.2
      refine ⟨h0.1, ?_, ?_⟩
      · show finalTmp rq l.tmp (.linktmp :: .lstat :: .rename :: rest) = written rq
        rw [finalTmp_neutral _ _ _ _ rfl, finalTmp_neutral _ _ _ _ rfl, finalTmp_neutral _ _ _ _ rfl]
        have := h0.2.1; rw [finalTmp_neutral _ _ _ _ rfl] at this; exact this
      · show okOrder (.linktmp :: .lstat :: .rename :: rest) = true
        rw [okOrder_neutral _ _ rfl, okOrder_neutral _ _ rfl]
        simp only [okOrder, Act.isPub, if_true]; exact hnp
  | rename =>
    intro hpub
    have h0 := h (by rw [hp]; simp [hasPub, Act.isPub])
    rw [hp] at h0
    have hnp : rest.all (fun b => !b.isPriv) = true := by simpa [okOrder, Act.isPub] using h0.2.2
    refine ⟨h0.1, ?_, okOrder_of_noPriv rest hnp⟩
    have := h0.2.1; rw [finalTmp_neutral _ _ _ _ rfl] at this; exact this
  | cstat =>
    simp only [execAct]
    split
    · exact RInv_nil rfl
    · exact keep _ rfl rfl rfl
  | dstat =>
    simp only [execAct]
    split
    · exact RInv_nil rfl
    · exact keep _ rfl rfl rfl
  | dunlink =>
    simp only [execAct]
    split
    · exact keep _ rfl rfl rfl
    · intro hpub; simp [hasPub, Act.isPub] at hpub
  | ropen =>
    simp only [execAct]
    split
    · exact RInv_nil rfl
    · exact keep _ rfl rfl rfl
  | rstat => simp only [execAct]; exact RInv_read hp h rfl _ _
  | listsize => simp only [execAct]; exact RInv_read hp h rfl _ _
  | listnames => simp only [execAct]; exact RInv_read hp h rfl _ _
  | getmeta k => simp only [execAct]; exact RInv_read hp h rfl _ _
  | gethdr x => simp only [execAct]; exact RInv_read hp h rfl _ _
  | getetag => simp only [execAct]; exact RInv_read hp h rfl _ _
  | gettags => simp only [execAct]; exact RInv_read hp h rfl _ _


/-! ### the program of a request at invocation -/

theorem setProg_noPub (l : List (Attr × Val)) : (setProg l).all (fun b => !b.isPub) = true := by
  simp [setProg, Act.isPub]

theorem publishProg_noPriv (st : Strategy) : (publishProg st).all (fun b => !b.isPriv) = true := by
  cases st <;> rfl

theorem okOrder_publishProg (st : Strategy) (tail : List Act) (h : tail.all (fun b => !b.isPriv) = true) :
    okOrder (publishProg st ++ tail) = true := by
  apply okOrder_of_noPriv
  rw [List.all_append, publishProg_noPriv, h]; rfl

theorem RInv_init (c : Cfg) (rq : Req) : RInv rq { prog := program c rq } := by
  intro hpub
  cases hk : rq.kind with
  | put =>
    simp only [program, hk]
    refine ⟨rfl, ?_, ?_⟩
    · simp only [List.cons_append, List.nil_append, finalTmp]
      rw [finalTmp_setProg, finalTmp_noPriv _ _ _ (publishProg_noPriv _)]
      simp [written, Req.sets, hk]
    · simp only [List.cons_append, List.nil_append]
      rw [okOrder_neutral _ _ rfl, okOrder_neutral _ _ rfl, okOrder_append_neutral _ _ (setProg_noPub _)]
      have := okOrder_publishProg c.strat [] rfl
      simpa using this
  | copy =>
    simp only [program, hk]
    refine ⟨rfl, ?_, ?_⟩
    · simp only [List.cons_append, List.nil_append, finalTmp, List.append_assoc]
      rw [finalTmp_setProg, finalTmp_noPriv]
      · simp [written, Req.sets, hk]
      · rw [List.all_append, publishProg_noPriv]; rfl
    · simp only [List.cons_append, List.nil_append, List.append_assoc]
      rw [okOrder_neutral _ _ rfl, okOrder_neutral _ _ rfl, okOrder_append_neutral _ _ (setProg_noPub _)]
      exact okOrder_publishProg c.strat _ rfl
  | mpu =>
    simp only [program, hk]
    refine ⟨rfl, ?_, ?_⟩
    · simp only [List.cons_append, List.nil_append, finalTmp, List.append_assoc]
      rw [finalTmp_setProg, finalTmp_setProg, finalTmp_noPriv _ _ _ (publishProg_noPriv _)]
      simp [written, Req.sets, hk, applySets]
    · simp only [List.cons_append, List.nil_append, List.append_assoc]
      rw [okOrder_neutral _ _ rfl, okOrder_neutral _ _ rfl, okOrder_append_neutral _ _ (setProg_noPub _)]
      rw [okOrder_append_neutral _ _ (setProg_noPub _)]
      have := okOrder_publishProg c.strat [] rfl
      simpa using this
  | delete => simp [program, hk, hasPub, Act.isPub] at hpub
  | get => cases hm : c.rmode <;> simp [program, hk, hm, hasPub, Act.isPub, readAttrProg, hdrAttrs] at hpub
  | head => cases hm : c.rmode <;> simp [program, hk, hm, hasPub, Act.isPub, readAttrProg, hdrAttrs] at hpub

/-! ### one step -/

theorem step_spec {c : Cfg} {s s' : State} {i : Nat} (h : step c s i = some s') :
    ∃ rq l a rest, s.reqs[i]? = some (rq, l) ∧ l.prog = a :: rest ∧
      s'.fs = (execAct c rq s.fs { l with prog := rest } a).1 ∧
      s'.reqs = s.reqs.set i (rq, finalize rq s'.fs (execAct c rq s.fs { l with prog := rest } a).2) ∧
      s'.trace = { rid := i, act := a, saw := s.fs.key, now := s'.fs.key,
                   fin := (finalize rq s'.fs (execAct c rq s.fs { l with prog := rest } a).2).done } :: s.trace := by
  unfold step at h
  split at h
  · cases h
  · rename_i rq l hr
    split at h
    · cases h
    · rename_i a rest hp
      cases h
      exact ⟨rq, l, a, rest, hr, hp, rfl, rfl, rfl⟩

/-- what a step can do to the filesystem state. -/
theorem execAct_fs (c : Cfg) (rq : Req) (fs : FS) (l : Local) (a : Act) :
    (execAct c rq fs l a).1 = fs ∨ (execAct c rq fs l a).1 = { fs with key := none } ∨
    (a.isPub = true ∧ (execAct c rq fs l a).1 = { inodes := fs.inodes ++ [l.tmp], key := some fs.inodes.length }) := by
  cases a <;> simp only [execAct] <;> (try split) <;> simp [Act.isPub]


/-- at a publishing step the temp inode is the complete object of the (write) request. -/
theorem RInv_pub {rq : Req} {l : Local} {a : Act} {rest : List Act} (h : RInv rq l) (hp : l.prog = a :: rest)
    (ha : a.isPub = true) : rq.kind.isWrite = true ∧ l.tmp = written rq := by
  have h0 := h (by rw [hp]; simp [hasPub, ha])
  rw [hp] at h0
  refine ⟨h0.1, ?_⟩
  have hnp : rest.all (fun b => !b.isPriv) = true := by
    have := h0.2.2; simpa [okOrder, ha] using this
  have hpriv : a.isPriv = false := by cases a <;> simp_all [Act.isPub, Act.isPriv]
  have := h0.2.1
  rw [finalTmp_neutral _ _ _ _ hpriv, finalTmp_noPriv _ _ _ hnp] at this
  exact this

structure GInv (fs0 : FS) (rqs : List Req) (s : State) : Prop where
  reqs : s.reqs.map (·.1) = rqs
  rinv : ∀ p ∈ s.reqs, RInv p.1 p.2
  vals : ∀ ino ∈ s.fs.inodes, ino ∈ fs0.inodes ∨ ∃ rq ∈ rqs, rq.kind.isWrite = true ∧ ino = written rq
  last : KeyLast s.fs
  grow : ∀ (k : Nat) (ino : Inode), fs0.inodes[k]? = some ino → s.fs.inodes[k]? = some ino

theorem GInv_init (c : Cfg) (fs0 : FS) (rqs : List Req) (h0 : KeyLast fs0) : GInv fs0 rqs (init c fs0 rqs) where
  reqs := by simp [init, Function.comp_def]
  rinv := by
    intro p hp
    simp only [init, List.mem_map] at hp
    obtain ⟨rq, _, rfl⟩ := hp
    exact RInv_init c rq
  vals := fun ino h => Or.inl h
  last := h0
  grow := fun _ _ h => h

theorem mem_of_getElem? {α} {l : List α} {i : Nat} {x : α} (h : l[i]? = some x) : x ∈ l := by
  exact List.mem_of_getElem? h

theorem set_same {α} : ∀ (l : List α) (i : Nat) (x : α), l[i]? = some x → l.set i x = l
  | [], _, _, h => by simp at h
  | y :: l, 0, x, h => by simp at h; simp [h]
  | y :: l, i + 1, x, h => by simp at h; simp [set_same l i x h]

theorem GInv_step {c : Cfg} {fs0 : FS} {rqs : List Req} {s s' : State} {i : Nat}
    (g : GInv fs0 rqs s) (h : step c s i = some s') : GInv fs0 rqs s' := by
  obtain ⟨rq, l, a, rest, hr, hp, hfs, hreqs, _⟩ := step_spec h
  have hmem : (rq, l) ∈ s.reqs := mem_of_getElem? hr
  have hrq : rq ∈ rqs := by rw [← g.reqs]; exact List.mem_map.2 ⟨(rq, l), hmem, rfl⟩
  have hR := g.rinv _ hmem
  have hfs' := execAct_fs c rq s.fs { l with prog := rest } a
  rw [← hfs] at hfs'
  refine ⟨?_, ?_, ?_, ?_, ?_⟩
  · rw [hreqs, List.map_set]
    have : s.reqs.map (·.1) = rqs := g.reqs
    rw [this]
    have hi : rqs[i]? = some rq := by rw [← this, List.getElem?_map, hr]; rfl
    exact set_same rqs i rq hi
  · intro p hpm
    rw [hreqs] at hpm
    rcases List.mem_or_eq_of_mem_set hpm with hold | rfl
    · exact g.rinv p hold
    · have := RInv_exec c rq s.fs l a rest hp hR
      intro hpub
      simp only [finalize_prog, finalize_tmp] at hpub ⊢
      exact this hpub
  · intro ino hino
    rcases hfs' with e | e | ⟨hpub, e⟩
    · rw [e] at hino; exact g.vals ino hino
    · rw [e] at hino; exact g.vals ino hino
    · rw [e] at hino
      simp only [List.mem_append, List.mem_singleton] at hino
      rcases hino with hold | rfl
      · exact g.vals ino hold
      · have := RInv_pub hR hp hpub
        exact Or.inr ⟨rq, hrq, this.1, this.2⟩
  · intro k hk
    rcases hfs' with e | e | ⟨_, e⟩
    · rw [e] at hk ⊢; exact g.last k hk
    · rw [e] at hk; cases hk
    · rw [e] at hk ⊢; simp at hk ⊢; omega
  · intro k ino hk
    have := g.grow k ino hk
    rcases hfs' with e | e | ⟨_, e⟩
    · rw [e]; exact this
    · rw [e]; exact this
    · rw [e]; simp only
      rw [List.getElem?_append_left]; exact this
      exact (List.getElem?_eq_some_iff.1 this).1

theorem GInv_reach {c : Cfg} {fs0 : FS} {rqs : List Req} {s : State} (h0 : KeyLast fs0)
    (h : Reach c (init c fs0 rqs) s) : GInv fs0 rqs s := by
  induction h with
  | refl => exact GInv_init c fs0 rqs h0
  | step _ hs ih => exact GInv_step ih hs

end Vgw.Model.Conc
