/-
  Lemmas about Model.Conc, part 8: what one step does with respect to the linearization — per kind
  of request (rename-only publication, reads through the descriptor).
-/
import Vgw.Lemmas.ConcLin2
namespace Vgw.Model.Conc
open Vgw.Spec.Register

/-- what a request that has passed its linearization point, with the register in state `st` just
    before that point, is committed to answer. -/
def Promise (fs : FS) (rq : Req) (l : Local) (st : Option Inode) : Prop :=
  match rq.kind with
  | .delete => l.result = some .noSuchKey → st = none
  | .get | .head => st = l.fd.bind (fs.inodes[·]?)
  | _ => True

structure StepFacts (rq : Req) (l l' : Local) (fs fs' : FS) (lin : Bool) : Prop where
  pass_after : lin = true → passed rq l'
  pass_before : lin = true → ¬ passed rq l
  pass_same : lin = false → (passed rq l' ↔ passed rq l)
  cur_lin : lin = true → fs'.cur = next fs.cur (opOf rq)
  cur_same : lin = false → fs'.cur = fs.cur
  prom_new : lin = true → Promise fs' rq l' fs.cur
  prom_keep : lin = false → ∀ st, Promise fs rq l st → Promise fs' rq l' st

theorem cur_of_key_none (fs : FS) (h : fs.key = none) : fs.cur = none := by simp [FS.cur, h]

theorem nopub_of_count {p : List Act} (h : (p.filter Act.isRPub).length = 0) : ∀ a ∈ p, a.isRPub = false := by
  have hnil : p.filter Act.isRPub = [] := List.eq_nil_of_length_eq_zero h
  intro a ha
  cases hb : a.isRPub with
  | false => rfl
  | true => have : a ∈ p.filter Act.isRPub := List.mem_filter.2 ⟨ha, hb⟩; rw [hnil] at this; cases this

theorem facts_writer {c : Cfg} {rq : Req} {fs : FS} {l : Local} {a : Act} {rest : List Act} {i : Nat} {fin : Bool}
    (hw : rq.kind.isWrite = true) (hW : WState l) (hR : RInv rq l) (hp : l.prog = a :: rest) :
    StepFacts rq l (finalize rq (execAct c rq fs { l with prog := rest } a).1 (execAct c rq fs { l with prog := rest } a).2)
      fs (execAct c rq fs { l with prog := rest } a).1
      (isLinEv ⟨i, a, fs.key, (execAct c rq fs { l with prog := rest } a).1.key, fin⟩) := by
  have ha : a.isWAct = true := hW.acts a (by rw [hp]; exact List.mem_cons_self)
  have hpass : ∀ l0 : Local, passed rq l0 ↔ ∀ b ∈ l0.prog, b.isRPub = false := by
    intro l0; unfold passed; cases hk : rq.kind <;> simp [hk, Kind.isWrite] at hw <;> rfl
  have hop : opOf rq = .write (written rq) := by
    unfold opOf; cases hk : rq.kind <;> simp [hk, Kind.isWrite] at hw <;> rfl
  have hprom : ∀ fs0 l0 st, Promise fs0 rq l0 st := by
    intro fs0 l0 st; unfold Promise; cases hk : rq.kind <;> simp [hk, Kind.isWrite] at hw <;> trivial
  -- a publishing step at the head: nothing publishing behind it
  have hrest_of_pub : a.isRPub = true → ∀ b ∈ rest, b.isRPub = false := by
    intro hap
    apply nopub_of_count
    have := hW.one; rw [hp, List.filter_cons, hap] at this
    simp only [if_true, List.length_cons] at this; omega
  -- the effect of a successful publication
  have published : a.isPub = true →
      (execAct c rq fs { l with prog := rest } a).1 = { inodes := fs.inodes ++ [l.tmp], key := some fs.inodes.length } →
      (execAct c rq fs { l with prog := rest } a).1.cur = next fs.cur (opOf rq) := by
    intro hap hfs
    have htmp := (RInv_pub hR hp hap).2
    rw [hfs, hop]
    simp only [next, FS.cur, Option.bind_some]
    rw [List.getElem?_append_right (Nat.le_refl _)]
    simp [htmp]
  by_cases hlinx : a = .linkatx
  · subst hlinx
    cases hk : fs.key with
    | none =>
      have hlin : ∀ nw, isLinEv ⟨i, .linkatx, none, nw, fin⟩ = true := fun _ => rfl
      rw [hlin]
      have e : execAct c rq fs { l with prog := rest } .linkatx =
          ({ inodes := fs.inodes ++ [l.tmp], key := some fs.inodes.length }, { l with prog := rest, views := fs.key :: l.views }) := by
        simp [execAct, hk]
      refine ⟨?_, ?_, (fun h => nomatch h), ?_, (fun h => nomatch h), fun _ => hprom _ _ _, (fun h => nomatch h)⟩
      · intro _; rw [hpass, finalize_prog, e]; exact hrest_of_pub rfl
      · intro _; rw [hpass, hp]; intro hall; have := hall .linkatx List.mem_cons_self; cases this
      · intro _; exact published rfl (by rw [e])
    | some k =>
      have hlin : ∀ nw, isLinEv ⟨i, .linkatx, some k, nw, fin⟩ = false := fun _ => rfl
      rw [hlin]
      have e : execAct c rq fs { l with prog := rest } .linkatx =
          (fs, { l with prog := .linktmp :: .lstat :: .rename :: rest, views := fs.key :: l.views }) := by
        simp [execAct, hk]
      refine ⟨(fun h => nomatch h), (fun h => nomatch h), ?_, (fun h => nomatch h), (fun _ => by rw [e]), (fun h => nomatch h),
        fun _ st _ => hprom _ _ _⟩
      intro _
      rw [hpass, hpass, finalize_prog, e, hp]
      constructor
      · intro hall; have := hall .rename (by simp); cases this
      · intro hall; have := hall .linkatx List.mem_cons_self; cases this
  · by_cases har : a = .rename
    · subst har
      have hlin : isLinEv ⟨i, .rename, fs.key, (execAct c rq fs { l with prog := rest } .rename).1.key, fin⟩ = true := rfl
      rw [hlin]
      refine ⟨?_, ?_, (fun h => nomatch h), ?_, (fun h => nomatch h), fun _ => hprom _ _ _, (fun h => nomatch h)⟩
      · intro _; rw [hpass, finalize_prog]; exact hrest_of_pub rfl
      · intro _; rw [hpass, hp]; intro hall; have := hall .rename List.mem_cons_self; cases this
      · intro _; exact published rfl rfl
    · have hnp : a.isRPub = false := by
        cases a <;> simp [Act.isWAct] at ha <;> first | rfl | exact absurd rfl har | exact absurd rfl hlinx
      have hlin : isLinEv ⟨i, a, fs.key, (execAct c rq fs { l with prog := rest } a).1.key, fin⟩ = false := by
        cases a <;> simp [Act.isWAct] at ha <;> first | rfl | exact absurd rfl har | exact absurd rfl hlinx
      rw [hlin]
      have hfs : (execAct c rq fs { l with prog := rest } a).1 = fs := by
        cases a <;> simp [Act.isWAct] at ha <;> simp only [execAct] <;>
          first | rfl | exact absurd rfl har | exact absurd rfl hlinx | (split <;> rfl)
      refine ⟨(fun h => nomatch h), (fun h => nomatch h), ?_, (fun h => nomatch h), (fun _ => by rw [hfs]), (fun h => nomatch h),
        fun _ st _ => hprom _ _ _⟩
      intro _
      rw [hpass, hpass, finalize_prog, hp]
      rcases execAct_wact c rq fs { l with prog := rest } a ha with ⟨e1, _⟩ | ⟨rfl, _, e1, _⟩ | ⟨rfl, _, _, _⟩
      · have e1' : (execAct c rq fs { l with prog := rest } a).2.prog = rest := e1
        rw [e1']
        constructor
        · intro hall b hb
          rcases List.mem_cons.1 hb with rfl | hb
          · exact hnp
          · exact hall b hb
        · intro hall b hb; exact hall b (List.mem_cons_of_mem _ hb)
      · rw [e1]
        have : rest = [] := hW.clast [] rest (by rw [hp]; rfl)
        simp [this, Act.isRPub]
      · exact absurd rfl hlinx

theorem facts_delete {c : Cfg} {rq : Req} {fs : FS} {l : Local} {a : Act} {rest : List Act} {i : Nat} {fin : Bool}
    (hd : rq.kind = .delete) (hD : DState l) (hp : l.prog = a :: rest) :
    StepFacts rq l (finalize rq (execAct c rq fs { l with prog := rest } a).1 (execAct c rq fs { l with prog := rest } a).2)
      fs (execAct c rq fs { l with prog := rest } a).1
      (isLinEv ⟨i, a, fs.key, (execAct c rq fs { l with prog := rest } a).1.key, fin⟩) := by
  have hpass : ∀ l0 : Local, passed rq l0 ↔ Act.dunlink ∉ l0.prog := by
    intro l0; unfold passed; rw [hd]
  have hop : opOf rq = .delete := by unfold opOf; rw [hd]
  have hprom : ∀ fs0 l0 st, Promise fs0 rq l0 st ↔ (l0.result = some .noSuchKey → st = none) := by
    intro fs0 l0 st; unfold Promise; rw [hd]
  have hD' := DState_step (c := c) (fs := fs) (fs' := (execAct c rq fs { l with prog := rest } a).1) hd hD hp
  cases hD with
  | d2 h1 _ => rw [h1] at hp; cases hp
  | d4 h1 _ => rw [h1] at hp; cases hp
  | d0 h1 h2 =>
    rw [h1] at hp; simp only [List.cons.injEq] at hp; obtain ⟨rfl, rfl⟩ := hp
    cases hk : fs.key with
    | none =>
      have e : execAct c rq fs { l with prog := [.dunlink] } .dstat =
          (fs, { l with prog := [], views := fs.key :: l.views, result := some .ok }) := by simp [execAct, hk]
      have hlin : ∀ nw, isLinEv ⟨i, .dstat, none, nw, fin⟩ = true := fun _ => rfl
      rw [hlin]
      refine ⟨?_, ?_, (fun h => nomatch h), ?_, (fun h => nomatch h), ?_, (fun h => nomatch h)⟩
      · intro _; rw [hpass, finalize_prog, e]; simp
      · intro _; rw [hpass, h1]; simp
      · intro _; rw [e, hop]; simp [next, cur_of_key_none fs hk]
      · intro _; rw [hprom]; intro hr; exact cur_of_key_none fs hk
    | some k =>
      have e : execAct c rq fs { l with prog := [.dunlink] } .dstat =
          (fs, { l with prog := [.dunlink], views := fs.key :: l.views }) := by simp [execAct, hk]
      have hlin : ∀ nw, isLinEv ⟨i, .dstat, some k, nw, fin⟩ = false := fun _ => rfl
      rw [hlin]
      refine ⟨(fun h => nomatch h), (fun h => nomatch h), ?_, (fun h => nomatch h), ?_, (fun h => nomatch h), ?_⟩
      · intro _; rw [hpass, hpass, finalize_prog, e, h1]; simp
      · intro _; rw [e]
      · intro _ st _
        rw [hprom]
        intro hr
        -- the answer is still open
        exfalso
        cases hD' with
        | d0 _ r => rw [r] at hr; cases hr
        | d1 _ r => rw [r] at hr; cases hr
        | d2 q _ => rw [finalize_prog, e] at q; cases q
        | d3 q _ => rw [finalize_prog, e] at q; cases q
        | d4 q _ => rw [finalize_prog, e] at q; cases q
  | d1 h1 h2 =>
    rw [h1] at hp; simp only [List.cons.injEq] at hp; obtain ⟨rfl, rfl⟩ := hp
    have hlin : isLinEv ⟨i, .dunlink, fs.key, (execAct c rq fs { l with prog := [] } .dunlink).1.key, fin⟩ = true := rfl
    rw [hlin]
    cases hk : fs.key with
    | none =>
      have e : execAct c rq fs { l with prog := [] } .dunlink =
          (fs, { l with prog := [.rmdirProbe], views := fs.key :: l.views, result := some .noSuchKey }) := by simp [execAct, hk]
      refine ⟨?_, ?_, (fun h => nomatch h), ?_, (fun h => nomatch h), ?_, (fun h => nomatch h)⟩
      · intro _; rw [hpass, finalize_prog, e]; simp
      · intro _; rw [hpass, h1]; simp
      · intro _; rw [e, hop]; simp [next, cur_of_key_none fs hk]
      · intro _; rw [hprom]; intro _; exact cur_of_key_none fs hk
    | some k =>
      have e : execAct c rq fs { l with prog := [] } .dunlink =
          ({ fs with key := none }, { l with prog := [], views := fs.key :: l.views }) := by simp [execAct, hk]
      refine ⟨?_, ?_, (fun h => nomatch h), ?_, (fun h => nomatch h), ?_, (fun h => nomatch h)⟩
      · intro _; rw [hpass, finalize_prog, e]; simp
      · intro _; rw [hpass, h1]; simp
      · intro _; rw [e, hop]; simp [next, FS.cur]
      · intro _; rw [hprom]; intro hr
        exfalso
        cases hD' with
        | d0 q _ => rw [finalize_prog, e] at q; cases q
        | d1 q _ => rw [finalize_prog, e] at q; cases q
        | d2 _ r => rw [r] at hr; cases hr
        | d3 q _ => rw [finalize_prog, e] at q; cases q
        | d4 _ r =>
          -- finalize answered ok, not NoSuchKey
          unfold finalize at r
          rw [e] at r
          simp [h2, hd] at r
  | d3 h1 h2 =>
    rw [h1] at hp; simp only [List.cons.injEq] at hp; obtain ⟨rfl, rfl⟩ := hp
    have hlin : isLinEv ⟨i, .rmdirProbe, fs.key, (execAct c rq fs { l with prog := [] } .rmdirProbe).1.key, fin⟩ = false := rfl
    rw [hlin]
    have e : execAct c rq fs { l with prog := [] } .rmdirProbe = (fs, { l with prog := [], views := fs.key :: l.views }) := rfl
    refine ⟨(fun h => nomatch h), (fun h => nomatch h), ?_, (fun h => nomatch h), ?_, (fun h => nomatch h), ?_⟩
    · intro _; rw [hpass, hpass, finalize_prog, e, h1]; simp
    · intro _; rw [e]
    · intro _ st hst
      rw [hprom] at hst ⊢
      intro _; exact hst h2


theorem facts_reader {c : Cfg} {rq : Req} {fs : FS} {l : Local} {a : Act} {rest : List Act} {i : Nat} {fin : Bool}
    (hm : c.rmode = .byFd) (hrd : rq.kind.isRead = true) (hF : FdState c fs rq l) (hp : l.prog = a :: rest) :
    StepFacts rq l (finalize rq (execAct c rq fs { l with prog := rest } a).1 (execAct c rq fs { l with prog := rest } a).2)
      fs (execAct c rq fs { l with prog := rest } a).1
      (isLinEv ⟨i, a, fs.key, (execAct c rq fs { l with prog := rest } a).1.key, fin⟩) := by
  have hpass : ∀ l0 : Local, passed rq l0 ↔ Act.ropen ∉ l0.prog := by
    intro l0; unfold passed; cases hk : rq.kind <;> simp [hk, Kind.isRead] at hrd <;> rfl
  have hop : ∃ b, opOf rq = .read b := by
    unfold opOf; cases hk : rq.kind <;> simp [hk, Kind.isRead] at hrd <;> exact ⟨_, rfl⟩
  have hprom : ∀ fs0 l0 st, Promise fs0 rq l0 st ↔ st = l0.fd.bind (fs0.inodes[·]?) := by
    intro fs0 l0 st; unfold Promise; cases hk : rq.kind <;> simp [hk, Kind.isRead] at hrd <;> rfl
  cases hF with
  | failed a1 _ _ => rw [a1] at hp; cases hp
  | answered _ _ _ _ a1 _ => rw [a1] at hp; cases hp
  | fresh a1 a2 a3 a4 =>
    rw [a1, program_byFd c rq hrd hm] at hp
    simp only [List.cons.injEq] at hp
    obtain ⟨rfl, rfl⟩ := hp
    have hlin : ∀ sw nw, isLinEv ⟨i, .ropen, sw, nw, fin⟩ = true := fun _ _ => rfl
    rw [hlin]
    have hfs : (execAct c rq fs { l with prog := afterOpen (readKindHead rq) } .ropen).1 = fs := by
      simp only [execAct]; split <;> rfl
    refine ⟨?_, ?_, (fun h => nomatch h), ?_, (fun h => nomatch h), ?_, (fun h => nomatch h)⟩
    · intro _
      rw [hpass, finalize_prog]
      simp only [execAct]
      split
      · simp [fail]
      · intro hmem; exact (afterOpen_readActs _ _ hmem).2 rfl
    · intro _; rw [hpass, a1, program_byFd c rq hrd hm]; simp
    · intro _; obtain ⟨b, hb⟩ := hop; rw [hfs, hb]; rfl
    · intro _
      rw [hprom, finalize_fd, hfs]
      simp only [execAct]
      cases hk : fs.key with
      | none => simp [fail, a4, FS.cur, hk]
      | some k => simp [FS.cur, hk]
  | running k ino a1 a2 a3 a4 a5 a6 a7 =>
    have ha_read : a.isReadAct = true := a5 a (by rw [hp]; exact List.mem_cons_self)
    have ha_ne : a ≠ .ropen := by intro e; apply a4; rw [hp, e]; exact List.mem_cons_self
    obtain ⟨e1, _⟩ := execAct_byFd_read c rq fs l a rest k ino hm a1 a2 ha_read ha_ne hp
    have hlin : ∀ sw nw, isLinEv ⟨i, a, sw, nw, fin⟩ = false := by
      intro sw nw
      cases a <;> simp [Act.isReadAct] at ha_read <;> first | rfl | exact absurd rfl ha_ne
    rw [hlin]
    have hfd : (execAct c rq fs { l with prog := rest } a).2.fd = l.fd := by
      rcases execAct_fd c rq fs { l with prog := rest } a with e | ⟨e, _⟩
      · exact e
      · exact absurd e ha_ne
    refine ⟨(fun h => nomatch h), (fun h => nomatch h), ?_, (fun h => nomatch h), (fun _ => by rw [e1]), (fun h => nomatch h), ?_⟩
    · intro _
      rw [hpass, hpass, finalize_prog]
      constructor
      · intro _; exact a4
      · intro _ hmem
        rcases execAct_prog_sub c rq fs { l with prog := rest } a _ hmem with h1 | ⟨h2, _⟩ | ⟨_, h3 | h3⟩ | ⟨_, x, h4⟩ | ⟨_, h5 | h5 | h5⟩
        · apply a4; rw [hp]; exact List.mem_cons_of_mem _ h1
        · cases h2
        · cases h3
        · cases h3
        · cases h4
        · cases h5
        · cases h5
        · cases h5
    · intro _ st hst
      rw [hprom] at hst ⊢
      rw [finalize_fd, hfd, e1]; exact hst

end Vgw.Model.Conc
