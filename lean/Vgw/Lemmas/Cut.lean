/-
  strings.Cut: `cut D s = some x` iff `x ++ D` is the shortest prefix of `s` ending in `D`.
-/
import Vgw.Lemmas.Order
namespace Vgw

theorem isPrefixOf_iff (a b : Bytes) : a.isPrefixOf b = true ↔ a <+: b := List.isPrefixOf_iff_prefix

theorem isPrefixOf_false_iff (a b : Bytes) : a.isPrefixOf b = false ↔ ¬ a <+: b := by
  rw [← isPrefixOf_iff]; cases a.isPrefixOf b <;> simp

theorem hasPrefix_iff (s p : Bytes) : hasPrefix s p = true ↔ p <+: s := isPrefixOf_iff p s

theorem trimPrefix_append (p s : Bytes) : trimPrefix (p ++ s) p = s := by
  unfold trimPrefix
  rw [(hasPrefix_iff _ _).2 (List.prefix_append p s)]
  simp

theorem cut_some_spec (D : Bytes) : ∀ (s x : Bytes), cut D s = some x →
    x ++ D <+: s ∧ ∀ y : Bytes, y ++ D <+: s → x.length ≤ y.length
  | [], x, h => by
    unfold cut at h
    split at h
    · rename_i hD
      subst hD
      simp at h; subst h
      simp
    · simp at h
  | c :: s, x, h => by
    unfold cut at h
    split at h
    · rename_i hp
      simp at h; subst h
      exact ⟨by simpa using (isPrefixOf_iff _ _).1 hp, by simp⟩
    · rename_i hp
      cases hc : cut D s with
      | none => simp [hc] at h
      | some x' =>
        simp [hc] at h; subst h
        have ih := cut_some_spec D s x' hc
        refine ⟨by simpa using ih.1, ?_⟩
        intro y hy
        cases y with
        | nil =>
          exfalso; apply hp
          exact (isPrefixOf_iff _ _).2 (by simpa using hy)
        | cons c' y' =>
          simp only [List.cons_append, List.cons_prefix_cons] at hy
          have := ih.2 y' hy.2
          simp; omega

theorem cut_none_spec (D : Bytes) : ∀ (s : Bytes), cut D s = none → ∀ y : Bytes, ¬ y ++ D <+: s
  | [], h, y, hy => by
    unfold cut at h
    split at h
    · simp at h
    · rename_i hD
      have := List.prefix_nil.1 hy
      simp at this
      exact hD this.2
  | c :: s, h, y, hy => by
    unfold cut at h
    split at h
    · simp at h
    · rename_i hp
      cases hc : cut D s with
      | some x' => simp [hc] at h
      | none =>
        cases y with
        | nil => exact hp ((isPrefixOf_iff _ _).2 (by simpa using hy))
        | cons c' y' =>
          simp only [List.cons_append, List.cons_prefix_cons] at hy
          exact cut_none_spec D s hc y' hy.2

/-- an occurrence forces `cut` to find one at least as early -/
theorem cut_of_occ (D s y : Bytes) (h : y ++ D <+: s) : ∃ x, cut D s = some x ∧ x.length ≤ y.length := by
  cases hc : cut D s with
  | none => exact absurd h (cut_none_spec D s hc y)
  | some x => exact ⟨x, rfl, (cut_some_spec D s x hc).2 y h⟩

theorem cut_eq_some_iff (D s x : Bytes) :
    cut D s = some x ↔ (x ++ D <+: s ∧ ∀ y : Bytes, y ++ D <+: s → x.length ≤ y.length) := by
  constructor
  · exact cut_some_spec D s x
  · rintro ⟨hx, hmin⟩
    obtain ⟨x', hx', hle⟩ := cut_of_occ D s x hx
    have hs := cut_some_spec D s x' hx'
    have hlen : x'.length = x.length := by
      have := hmin x' hs.1; omega
    have : x' ++ D = x ++ D := by
      have hp := List.prefix_of_prefix_length_le hs.1 hx (by simp [hlen])
      exact hp.eq_of_length (by simp [hlen])
    rw [hx', List.append_cancel_right this]

/-- the first occurrence only depends on the part of the string up to its end -/
theorem cut_stable (D x t t' : Bytes) (h : cut D (x ++ D ++ t) = some x) : cut D (x ++ D ++ t') = some x := by
  rw [cut_eq_some_iff] at h ⊢
  refine ⟨List.prefix_append _ _, ?_⟩
  intro y hy
  apply Classical.byContradiction
  intro hlt
  have hlen : (y ++ D).length ≤ (x ++ D).length := by simp; omega
  have h1 : y ++ D <+: x ++ D := List.prefix_of_prefix_length_le hy (List.prefix_append _ _) hlen
  have := h.2 y (h1.trans (List.prefix_append _ _))
  omega

theorem cut_self (D x t : Bytes) (h : cut D (x ++ D ++ t) = some x) : cut D (x ++ D) = some x := by
  have := cut_stable D x t [] h
  simpa using this

/-- `containsSub s D` in terms of occurrences -/
theorem containsSub_iff (s D : Bytes) : containsSub s D = true ↔ ∃ y, y ++ D <+: s := by
  unfold containsSub
  constructor
  · intro h
    cases hc : cut D s with
    | none => simp [hc] at h
    | some x => exact ⟨x, (cut_some_spec D s x hc).1⟩
  · rintro ⟨y, hy⟩
    obtain ⟨x, hx, _⟩ := cut_of_occ D s y hy
    simp [hx]

end Vgw
