/-
  A lookup that is invoked when no change of its key is in flight — i.e. after every change of
  that key has been acknowledged — answers what the store says, whatever else is running and
  whatever the clock shows (`After`: the invariant of the rest of the schedule).
-/
import Vgw.Lemmas.IAMCInv
namespace Vgw.Model.IAM
open Vgw
open Vgw.Model.Gw (Account Role)

def resOf : Option Account → Res
  | some a => .acct a
  | none => .noSuchUser

/-- what a new lookup of k holds in its hands, given that the store answers `val` for k -/
def NewPc (val : Option Account) : PC → Prop
  | .gFetched a _ => val = some a
  | .done r => r = resOf val
  | _ => True

structure After (v : Variant) (cfg : Cfg) (k : Bytes) (val : Option Account) (n0 : Nat) (σ : State) : Prop where
  inv : Inv v cfg σ
  nomut : NoMut σ k
  hval : look cfg σ.committed k = val
  newok : ∀ (i : Nat) (c : Call), n0 ≤ i → σ.calls[i]? = some c → c.op = .get k → NewPc val c.pc

theorem stepCall_done (v : Variant) (cfg : Cfg) (σ : State) (i : Nat) (c : Call) (hd : isDone c.pc = true) :
    stepCall v cfg σ i c = σ := by
  unfold Model.IAM.stepCall
  cases hpc : c.pc <;> simp_all [isDone]

/-- one step of a new lookup of k -/
theorem newpc_step {v : Variant} {cfg : Cfg} {σ : State} {k : Bytes} {val : Option Account} {i : Nat} {c c' : Call}
    (hI : Inv v cfg σ) (hN : NoMut σ k) (hval : look cfg σ.committed k = val)
    (hi : σ.calls[i]? = some c) (hop : c.op = .get k) (hnew : NewPc val c.pc)
    (hc' : (stepCall v cfg σ i c).calls[i]? = some c') : NewPc val c'.pc := by
  have hlt : i < σ.calls.length := (List.getElem?_eq_some_iff.mp hi).1
  have hL := (hI.wf.l.calls i c hi).pc
  unfold PcL at hL
  have hT := hI.typ i c hi
  have hcoh := coh_of_inv hI hN
  have hcs := (cacheStep_frame v cfg σ c.op).2.2.2.2.2.2.1
  have hkey : c.op.key = k := by rw [hop]; rfl
  have hnm : c.op.isMut = false := by rw [hop]; rfl
  unfold Model.IAM.stepCall at hc'
  split at hc'
  · -- start
    rename_i hpc
    split at hc'
    · rename_i k' hop'
      have : k' = k := by rw [hop] at hop'; cases hop'; rfl
      subst this
      split at hc'
      · rename_i a hget
        simp only [State.setCall, List.getElem?_set, hlt] at hc'; simp at hc'; subst hc'
        have hget' : σ.items.get σ.now k' = some a := by
          by_cases hv : v.cache = true
          · simpa [hv] using hget
          · simp [hv] at hget
        obtain ⟨e, he, hek, hev⟩ := Items.get_some hget'
        have := hcoh e he hek
        rw [hval, hev] at this
        simp only [NewPc, this, resOf]
      · simp only [State.setCall, List.getElem?_set, hlt] at hc'; simp at hc'; subst hc'; trivial
    · rename_i hop'; rw [hop] at hop'; cases hop'
    · rename_i a hop'; rw [hop] at hop'; cases hop'
    · -- update / delete branch: not a lookup
      split at hc'
      · simp only [State.setCall, List.getElem?_set, hlt] at hc'; simp at hc'; subst hc'; trivial
      · rw [hi] at hc'; cases hc'; rw [hpc]; trivial
  · rename_i hpc
    have := (hT.1 (Or.inl (by rw [hpc]; rfl))).1; rw [hnm] at this; cases this
  · rename_i b hpc
    have := (hT.1 (Or.inl (by rw [hpc]; rfl))).1; rw [hnm] at this; cases this
  · rename_i b hpc
    have := (hT.1 (Or.inl (by rw [hpc]; rfl))).1; rw [hnm] at this; cases this
  · rename_i b hpc
    have := (hT.1 (Or.inl (by rw [hpc]; rfl))).1; rw [hnm] at this; cases this
  · rename_i b hpc
    have := (hT.1 (Or.inl (by rw [hpc]; rfl))).1; rw [hnm] at this; cases this
  · rename_i hpc
    have := (hT.1 (Or.inl (by rw [hpc]; rfl))).1; rw [hnm] at this; cases this
  · rename_i e hpc
    have := (hT.1 (Or.inl (by rw [hpc]; rfl))).1; rw [hnm] at this; cases this
  · rename_i hpc
    have := (hT.1 (Or.inr (by rw [hpc]; rfl))).1; rw [hnm] at this; cases this
  · -- gMiss
    rename_i g hpc
    split at hc'
    · rename_i hroot
      simp only [State.setCall, List.getElem?_set, hlt] at hc'; simp at hc'; subst hc'
      rw [hkey] at hroot
      simp only [NewPc]; rw [← hval]; exact look_root cfg _ hroot
    · split at hc'
      · simp only [State.setCall, List.getElem?_set, hlt] at hc'; simp at hc'; subst hc'; trivial
      · rw [hi] at hc'; cases hc'; rw [hpc]; trivial
  · -- gRLocked
    rename_i g hpc
    split at hc'
    · simp only [State.setCall, List.getElem?_set, hlt] at hc'; simp at hc'; subst hc'; trivial
    · rw [hi] at hc'; cases hc'; rw [hpc]; trivial
  · -- gGot
    rename_i r g hpc
    rw [hpc, hkey] at hL
    have hlk : look cfg σ.committed k = r := by rw [look_nonroot cfg _ hL.1]; exact hL.2.symm
    split at hc'
    · simp only [State.setCall, List.getElem?_set, hlt] at hc'; simp at hc'; subst hc'
      simp only [NewPc]; rw [← hval, hlk]; rfl
    · simp only [State.setCall, List.getElem?_set, hlt] at hc'; simp at hc'; subst hc'
      simp only [NewPc]; rw [← hval, hlk]
  · -- gFetched
    rename_i a g hpc
    rw [hpc] at hnew
    simp only [NewPc] at hnew
    split at hc' <;>
      (simp only [State.setCall, List.getElem?_set, hlt] at hc'; simp at hc'; subst hc'
       simp only [NewPc, hnew, resOf])
  · rename_i hpc
    have := hT.2.1 (by rw [hpc]; rfl); rw [hop] at this; cases this
  · rename_i s hpc
    have := hT.2.1 (by rw [hpc]; rfl); rw [hop] at this; cases this
  · rename_i r hpc
    rw [hi] at hc'; cases hc'; exact hnew

theorem After.stepAt {v : Variant} {cfg : Cfg} {k : Bytes} {val : Option Account} {n0 : Nat} {σ : State}
    (h : After v cfg k val n0 σ) (i : Nat) (hq : NeedsQuiet v → QuietStep v σ (.step i)) :
    After v cfg k val n0 (stepAt v cfg σ i) := by
  have hinv' := h.inv.act (.step i) hq
  simp only [Model.IAM.act] at hinv'
  cases hi : σ.calls[i]? with
  | none => simp only [Model.IAM.stepAt, hi]; exact h
  | some c =>
    by_cases hd : isDone c.pc = true
    · rw [stepAt_done v cfg σ i c hi hd]; exact h
    · have hd : isDone c.pc = false := by simpa using hd
      -- a call that has not returned is not a change of k
      have hnk : c.op.isMut = true → c.op.key ≠ k := by
        intro hm hk; have := h.nomut i c hi hm hk; rw [hd] at this; cases this
      obtain ⟨pc', hpc'⟩ := stepAt_op v cfg σ i c hi
      refine ⟨hinv', ?_, ?_, ?_⟩
      · intro j cj hj hm hk
        by_cases hji : j = i
        · subst hji; rw [hpc'] at hj; cases hj; exact absurd hk (hnk hm)
        · rw [stepAt_other v cfg σ i j hji] at hj; exact h.nomut j cj hj hm hk
      · simp only [Model.IAM.stepAt, hi]
        rcases stepCall_committed v cfg σ i c with he | ⟨b', hpc, he⟩
        · rw [he]; exact h.hval
        · rw [he]
          have hL := (h.inv.wf.l.calls i c hi).pc
          unfold PcL at hL
          rw [hpc] at hL
          have hm := ((h.inv.typ i c hi).1 (Or.inl (by rw [hpc]; rfl))).1
          have : look cfg b' k = look cfg σ.committed k := by
            simp only [look]; rw [mutate_frame hL.1 (fun e => hnk hm e.symm)]
          rw [this]; exact h.hval
      · intro j cj hn hj hop
        by_cases hji : j = i
        · subst hji
          rw [hpc'] at hj; cases hj
          simp only at hop
          have h2 := hpc'
          simp only [Model.IAM.stepAt, hi] at h2
          exact newpc_step h.inv h.nomut h.hval hi hop (h.newok j c hn hi hop) h2
        · rw [stepAt_other v cfg σ i j hji] at hj; exact h.newok j cj hn hj hop

theorem After.act {v : Variant} {cfg : Cfg} {k : Bytes} {val : Option Account} {n0 : Nat} {σ : State}
    (h : After v cfg k val n0 σ) (a : Act) (hq : NeedsQuiet v → QuietStep v σ a)
    (hnm : ∀ op, a = .invoke op → op.isMut = true → op.key ≠ k) (hn0 : n0 ≤ σ.calls.length) :
    After v cfg k val n0 (act v cfg σ a) := by
  cases a with
  | step i => exact h.stepAt i hq
  | tick n => exact ⟨h.inv.act _ hq, h.nomut, h.hval, h.newok⟩
  | gc => exact ⟨h.inv.act _ hq, h.nomut, h.hval, h.newok⟩
  | invoke op =>
    refine ⟨h.inv.act _ hq, ?_, h.hval, ?_⟩
    · intro j cj hj hm hk
      simp only [Model.IAM.act] at hj
      by_cases hlt : j < σ.calls.length
      · rw [List.getElem?_append_left hlt] at hj; exact h.nomut j cj hj hm hk
      · rw [List.getElem?_append_right (by omega)] at hj
        cases hd : j - σ.calls.length with
        | zero => rw [hd] at hj; simp at hj; subst hj; exact absurd hk (hnm op rfl hm)
        | succ n => rw [hd] at hj; simp at hj
    · intro j cj hn hj hop
      simp only [Model.IAM.act] at hj
      by_cases hlt : j < σ.calls.length
      · rw [List.getElem?_append_left hlt] at hj; exact h.newok j cj hn hj hop
      · rw [List.getElem?_append_right (by omega)] at hj
        cases hd : j - σ.calls.length with
        | zero => rw [hd] at hj; simp at hj; subst hj; trivial
        | succ n => rw [hd] at hj; simp at hj

theorem act_length_le (v : Variant) (cfg : Cfg) (σ : State) (a : Act) : σ.calls.length ≤ (act v cfg σ a).calls.length := by
  cases a with
  | step i => simp only [Model.IAM.act]; rw [stepAt_length]; exact Nat.le_refl _
  | tick n => exact Nat.le_refl _
  | gc => exact Nat.le_refl _
  | invoke op => simp [Model.IAM.act]

theorem After.run {v : Variant} {cfg : Cfg} {k : Bytes} {val : Option Account} {n0 : Nat} {σ : State}
    (h : After v cfg k val n0 σ) (acts : List Act) (hq : NeedsQuiet v → QuietRun v cfg σ acts)
    (hnm : ∀ op, Act.invoke op ∈ acts → op.isMut = true → op.key ≠ k) (hn0 : n0 ≤ σ.calls.length) :
    After v cfg k val n0 (run v cfg σ acts) := by
  induction acts generalizing σ with
  | nil => exact h
  | cons a rest ih =>
    refine ih (h.act a (fun hn => (hq hn).1) (fun op e => hnm op (by rw [e]; simp)) hn0) (fun hn => (hq hn).2)
      (fun op hop => hnm op (by simp [hop])) (Nat.le_trans hn0 (act_length_le v cfg σ a))

/-- entering the second phase: every change of k has returned -/
theorem After.start {v : Variant} {cfg : Cfg} {k : Bytes} {σ : State} (hI : Inv v cfg σ) (hN : NoMut σ k) :
    After v cfg k (look cfg σ.committed k) σ.calls.length σ :=
  ⟨hI, hN, rfl, fun i c hn hi _ => by
    have := (List.getElem?_eq_some_iff.mp hi).1; omega⟩

end Vgw.Model.IAM
