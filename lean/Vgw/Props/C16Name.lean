/-
  C16 (bucket names) — the executable model of utils.IsValidBucketName accepts exactly the names
  the declarative specification `Spec.BucketName.Valid` allows.
-/
import Vgw.Model.BucketName
import Vgw.Spec.BucketName
namespace Vgw.Props.C16Name
open Vgw Vgw.Model.BucketName Vgw.Spec.BucketName

/-! ### character classes -/

theorem isLowerAlnum_iff (c : UInt8) : isLowerAlnum c = true ↔ alnum c := by
  simp [isLowerAlnum, alnum]

theorem isNameChar_iff (c : UInt8) : isNameChar c = true ↔ allowed c := by
  simp [isNameChar, allowed, isLowerAlnum_iff, or_assoc]

theorem alnum_allowed {c : UInt8} (h : alnum c) : allowed c := Or.inl h

theorem isDigit_ne_dot {c : UInt8} (h : isDigit c = true) : c ≠ 46 := by
  intro e; subst e; revert h; decide

/-! ### `^[a-z0-9][a-z0-9.-]+[a-z0-9]$` -/

theorem matchesNameRe_iff_shape (s : Bytes) :
    matchesNameRe s = true ↔
      ∃ c m l, s = c :: (m ++ [l]) ∧ alnum c ∧ alnum l ∧ m ≠ [] ∧ ∀ x ∈ m, allowed x := by
  cases s with
  | nil => simp [matchesNameRe]
  | cons c rest =>
    rw [matchesNameRe]
    cases hl : rest.getLast? with
    | none =>
      have hr : rest = [] := List.getLast?_eq_none_iff.mp hl
      subst hr
      simp
    | some l =>
      obtain ⟨m, rfl⟩ := List.getLast?_eq_some_iff.mp hl
      simp only [List.dropLast_concat, Bool.and_eq_true, isLowerAlnum_iff, List.all_eq_true,
        isNameChar_iff, Bool.not_eq_true', List.isEmpty_eq_false_iff]
      constructor
      · rintro ⟨hc, ⟨hl', hm⟩, hall⟩
        exact ⟨c, m, l, rfl, hc, hl', hm, hall⟩
      · rintro ⟨c', m', l', he, hc, hl', hm, hall⟩
        simp only [List.cons.injEq] at he
        obtain ⟨rfl, he⟩ := he
        have h1 : m = m' := by
          have := congrArg List.dropLast he
          simpa [List.dropLast_concat] using this
        have h2 : l = l' := by
          have := congrArg List.getLast? he
          simpa [List.getLast?_concat] using this
        subst h1; subst h2
        exact ⟨hc, ⟨hl', hm⟩, hall⟩

/-- The first regular expression in declarative form (it forces length ≥ 3 by itself). -/
theorem matchesNameRe_iff (s : Bytes) :
    matchesNameRe s = true ↔
      3 ≤ s.length ∧ (∀ c ∈ s, allowed c) ∧ (∃ c, s.head? = some c ∧ alnum c) ∧
        (∃ c, s.getLast? = some c ∧ alnum c) := by
  rw [matchesNameRe_iff_shape]
  constructor
  · rintro ⟨c, m, l, rfl, hc, hl, hm, hall⟩
    refine ⟨?_, ?_, ⟨c, rfl, hc⟩, ⟨l, ?_, hl⟩⟩
    · cases m with
      | nil => exact absurd rfl hm
      | cons x xs => simp
    · intro x hx
      simp only [List.mem_cons, List.mem_append, List.not_mem_nil, or_false] at hx
      rcases hx with rfl | hx | rfl
      · exact alnum_allowed hc
      · exact hall x hx
      · exact alnum_allowed hl
    · rw [← List.cons_append, List.getLast?_concat]
  · rintro ⟨hlen, hall, ⟨c, hhead, hc⟩, ⟨l, hlast, hl⟩⟩
    obtain ⟨ys, rfl⟩ := List.getLast?_eq_some_iff.mp hlast
    cases ys with
    | nil => simp at hlen
    | cons y m =>
      simp only [List.cons_append, List.head?_cons, Option.some.injEq] at hhead
      subst hhead
      refine ⟨y, m, l, rfl, hc, hl, ?_, ?_⟩
      · intro e; subst e; simp at hlen
      · intro x hx
        exact hall x (by simp [hx])

/-! ### adjacent periods -/

theorem hasDoubleDot_cons_cons (a b : UInt8) (r : Bytes) :
    hasDoubleDot (a :: b :: r) = ((a == 46 && b == 46) || hasDoubleDot (b :: r)) := by
  by_cases h : a = 46 ∧ b = 46
  · obtain ⟨rfl, rfl⟩ := h
    rw [hasDoubleDot.eq_1]; rfl
  · rw [hasDoubleDot.eq_2]
    · have : (a == 46 && b == 46) = false := by
        simp only [Bool.and_eq_false_iff, beq_eq_false_iff_ne, ne_eq]
        by_cases ha : a = 46
        · exact Or.inr fun hb => h ⟨ha, hb⟩
        · exact Or.inl ha
      rw [this, Bool.false_or]
    · intro t ha hb
      simp only [List.cons.injEq] at hb
      exact h ⟨ha, hb.1⟩

theorem hasDoubleDot_singleton (a : UInt8) : hasDoubleDot [a] = false := by
  rw [hasDoubleDot.eq_2, hasDoubleDot.eq_3]
  intro t _ h; simp at h

theorem hasDoubleDot_iff (s : Bytes) : hasDoubleDot s = true ↔ AdjacentPeriods s := by
  unfold AdjacentPeriods
  induction s with
  | nil => simp [hasDoubleDot.eq_3]
  | cons a rest ih =>
    cases rest with
    | nil =>
      rw [hasDoubleDot_singleton]
      constructor
      · intro h; cases h
      · rintro ⟨p, q, h⟩
        have := congrArg List.length h
        simp at this; omega
    | cons b r =>
      rw [hasDoubleDot_cons_cons, Bool.or_eq_true, ih]
      constructor
      · rintro (h | ⟨p, q, h⟩)
        · simp only [Bool.and_eq_true, beq_iff_eq] at h
          obtain ⟨rfl, rfl⟩ := h
          exact ⟨[], r, rfl⟩
        · exact ⟨a :: p, q, by rw [h]; rfl⟩
      · rintro ⟨p, q, h⟩
        cases p with
        | nil =>
          simp only [List.nil_append, List.cons.injEq] at h
          left; simp [h.1, h.2.1]
        | cons x p' =>
          simp only [List.cons_append, List.cons.injEq] at h
          exact Or.inr ⟨p', q, h.2⟩

/-! ### `^(?:[0-9]{1,3}\.){3}[0-9]{1,3}$` -/

/-- one to three digits -/
def Octet (f : Bytes) : Prop := 1 ≤ f.length ∧ f.length ≤ 3 ∧ ∀ x ∈ f, isDigit x = true

theorem isOctetShape_iff (f : Bytes) : isOctetShape f = true ↔ Octet f := by
  simp [isOctetShape, Octet, and_assoc]

theorem Octet.no_dot {f : Bytes} (h : Octet f) : (46 : UInt8) ∉ f :=
  fun hm => isDigit_ne_dot (h.2.2 46 hm) rfl

theorem IPv4Shaped_iff (s : Bytes) :
    IPv4Shaped s ↔ ∃ a b c d : Bytes, s = a ++ 46 :: (b ++ 46 :: (c ++ 46 :: d)) ∧
      Octet a ∧ Octet b ∧ Octet c ∧ Octet d := by
  unfold IPv4Shaped
  constructor
  · rintro ⟨a, b, c, d, hs, h⟩
    refine ⟨a, b, c, d, by simp [hs], h a (by simp), h b (by simp), h c (by simp), h d (by simp)⟩
  · rintro ⟨a, b, c, d, hs, ha, hb, hc, hd⟩
    refine ⟨a, b, c, d, by simp [hs], ?_⟩
    intro f hf
    simp only [List.mem_cons, List.not_mem_nil, or_false] at hf
    rcases hf with rfl | rfl | rfl | rfl <;> assumption

theorem matchesIpRe_iff (s : Bytes) : matchesIpRe s = true ↔ IPv4Shaped s := by
  rw [IPv4Shaped_iff]
  constructor
  · intro h
    unfold matchesIpRe at h
    split at h
    · rename_i a b c d hsp
      simp only [Bool.and_eq_true, isOctetShape_iff] at h
      obtain ⟨⟨⟨ha, hb⟩, hc⟩, hd⟩ := h
      have hj := join_splitOn 46 s
      rw [hsp] at hj
      exact ⟨a, b, c, d, by rw [← hj]; simp [joinWith], ha, hb, hc, hd⟩
    · cases h
  · rintro ⟨a, b, c, d, rfl, ha, hb, hc, hd⟩
    unfold matchesIpRe
    rw [splitOn_append 46 a _ ha.no_dot, splitOn_append 46 b _ hb.no_dot,
      splitOn_append 46 c _ hc.no_dot, splitOn_of_not_mem 46 d hd.no_dot]
    simp only [Bool.and_eq_true, isOctetShape_iff]
    exact ⟨⟨⟨ha, hb⟩, hc⟩, hd⟩

/-! ### the property -/

/-- **C16 (names)**: the model of `utils.IsValidBucketName` accepts exactly the valid names. -/
theorem isValidBucketName_iff (s : Bytes) : isValidBucketName s = true ↔ Valid s := by
  unfold isValidBucketName Valid
  rw [← hasDoubleDot_iff, ← matchesIpRe_iff]
  by_cases hlen : s.length < 3 ∨ s.length > 63
  · have : (decide (s.length < 3) || decide (s.length > 63)) = true := by simpa using hlen
    rw [if_pos this]
    constructor
    · intro h; cases h
    · rintro ⟨h1, h2, _⟩; omega
  · have : ¬ ((decide (s.length < 3) || decide (s.length > 63)) = true) := by simpa using hlen
    rw [if_neg this]
    have hre := matchesNameRe_iff s
    cases hm : matchesNameRe s with
    | false =>
      rw [hm] at hre
      simp only [Bool.not_false, if_true]
      constructor
      · intro h; cases h
      · rintro ⟨h1, _, h3, h4, h5, _⟩
        exact Bool.noConfusion (hre.mpr ⟨h1, h3, h4, h5⟩)
    | true =>
      rw [hm] at hre
      obtain ⟨h1, h3, h4, h5⟩ := hre.mp rfl
      simp only [Bool.not_true, Bool.false_eq_true, if_false]
      have h2 : s.length ≤ 63 := by omega
      cases hd : hasDoubleDot s with
      | true =>
        simp only [if_true]
        constructor
        · intro h; cases h
        · rintro ⟨_, _, _, _, _, h6, _⟩; exact (h6 trivial).elim
      | false =>
        simp only [Bool.false_eq_true, if_false]
        cases hi : matchesIpRe s with
        | true =>
          simp only [if_true]
          constructor
          · intro h; cases h
          · rintro ⟨_, _, _, _, _, _, h7⟩; exact (h7 trivial).elim
        | false =>
          simp only [Bool.false_eq_true, if_false, true_iff]
          exact ⟨h1, h2, h3, h4, h5, fun h => h, fun h => h⟩

/-! ### non-vacuity -/

example : isValidBucketName [97, 98, 49] = true := by decide                        -- "ab1"
example : Valid [97, 98, 49] := (isValidBucketName_iff _).mp (by decide)
example : isValidBucketName [97, 98] = false := by decide                           -- "ab"
example : isValidBucketName [97, 66, 99] = false := by decide                       -- "aBc"
example : isValidBucketName [45, 97, 98] = false := by decide                       -- "-ab"
example : isValidBucketName [97, 46, 46, 98] = false := by decide                   -- "a..b"
example : isValidBucketName [49, 46, 50, 46, 51, 46, 52] = false := by decide       -- "1.2.3.4"
example : isValidBucketName [97, 98, 46] = false := by decide                       -- "ab."
example : ¬ Valid [49, 46, 50, 46, 51, 46, 52] :=
  fun h => Bool.noConfusion ((isValidBucketName_iff _).mpr h)

end Vgw.Props.C16Name
