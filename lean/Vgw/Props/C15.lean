/-
  C15 — Read-only mode admits no mutation.
  Theorems over `Model.Gw.step`, for every state, caller and request of the modelled S3 API.
-/
import Vgw.Model.Gw.Step
namespace Vgw.Props.C15
open Vgw Vgw.Model.Gw

/-- a write permission is always refused under the read-only switch, before the root/admin
shortcut (auth.VerifyAccess) -/
theorem verifyAccess_readonly_write (cfg : Cfg) (h : cfg.readonly = true) (b : Bucket) (w : Who)
    (perm : Perm) (hp : perm.isWrite = true) (act obj : Bytes) :
    verifyAccess cfg b w perm act obj = some "AccessDenied" := by
  simp [verifyAccess, h, hp]

theorem batch_readonly (cfg : Cfg) (h : cfg.readonly = true) (bk : Bucket) (w : Who) (keys : List (Bytes × Bytes)) (act : Bytes) :
    ((if keys.isEmpty then [[]] else keys.map (·.1)).findSome? fun k => verifyAccess cfg bk w .write act k)
      = some "AccessDenied" := by
  split
  · simp [verifyAccess_readonly_write cfg h bk w .write rfl]
  · rename_i hne
    cases keys with
    | nil => simp at hne
    | cons k ks => simp [verifyAccess_readonly_write cfg h bk w .write rfl]

theorem guard_some (e : String) (s : State) (k : Unit → State × Resp) : guarded (some e) s k = (s, errR e) := rfl

theorem withBucket_fst (s : State) (b : Bytes) (k : Bucket → State × Resp)
    (hk : ∀ bk, (k bk).1 = s) : (withBucket s b k).1 = s := by
  unfold withBucket; split <;> simp [hk]

theorem guarded_fst (c : Option String) (s : State) (k : Unit → State × Resp)
    (hk : c = none → (k ()).1 = s) : (guarded c s k).1 = s := by
  unfold guarded; split
  · rfl
  · exact hk rfl

theorem withLockedVersion_fst (cfg : Cfg) (s : State) (bk : Bucket) (k vid : Bytes)
    (f : Ver → List Ver → List Ver → State × Resp) (hf : ∀ v r p, (f v r p).1 = s) :
    (withLockedVersion cfg s bk k vid f).1 = s := by
  unfold withLockedVersion
  simp only
  repeat (first | rfl | exact hf _ _ _ | split)

/-- discharges `(…).1 = s` for a handler body under the read-only switch: peel `withBucket` /
`guarded`, refute a write guard that claims to have passed, split the remaining reads -/
macro "ro_auto" cfg:ident h:ident : tactic => `(tactic| (
  repeat (first
    | rfl
    | (apply withBucket_fst; intro _)
    | (apply withLockedVersion_fst; intro _ _ _)
    | (apply guarded_fst; intro hnone;
       first
         | (rw [verifyAccess_readonly_write $cfg $h _ _ _ rfl] at hnone; cases hnone; done)
         | (rw [batch_readonly $cfg $h] at hnone; cases hnone; done)
         | (simp [$h:ident] at hnone; done)
         | skip)
    | split)))

/-- **No request changes anything when the gateway runs read-only** — whoever sends it (root and
admins included), whatever the state, for every operation of the model. -/
theorem readonly_no_mutation (cfg : Cfg) (h : cfg.readonly = true) (s : State) (r : Req) :
    (step cfg s r).1 = s := by
  unfold step
  split
  · rfl
  · rename_i w _
    rw [finish_fst]
    cases r.op <;> simp only [handle] <;> first | rfl | (simp only [h]; ro_auto cfg h) | ro_auto cfg h

/-- the operations that only read -/
def Op.isRead : Op → Bool
  | .headBucket .. | .listBuckets .. | .getBucketPolicy .. | .getBucketAcl .. | .getBucketTagging .. | .getOwnership ..
  | .getVersioning .. | .getObject .. | .headObject .. | .getObjectTagging .. | .listVersions .. | .getLockConfig ..
  | .getRetention .. | .getLegalHold .. | .listParts .. | .listUploads .. => true
  | _ => false

/-- read permissions are decided identically with and without the switch -/
theorem verifyAccess_readonly_read (cfg : Cfg) (ro : Bool) (b : Bucket) (w : Who) (perm : Perm)
    (hp : perm.isWrite = false) (act obj : Bytes) :
    verifyAccess { cfg with readonly := ro } b w perm act obj = verifyAccess cfg b w perm act obj := by
  simp [verifyAccess, hp]

/-- **Read requests keep working**: a reading operation is answered exactly as it would be
without the read-only switch. -/
theorem readonly_reads_unaffected (cfg : Cfg) (s : State) (c : Caller) (now : Int) (op : Op)
    (hr : Op.isRead op = true) :
    step { cfg with readonly := true } s ⟨c, op, now⟩ = step cfg s ⟨c, op, now⟩ := by
  have hres : resolve { cfg with readonly := true } s c = resolve cfg s c := by
    cases c <;> rfl
  simp only [step, hres]
  cases resolve cfg s c with
  | none => rfl
  | some w =>
    simp only
    rw [show ∀ x, finish { cfg with readonly := true } x = finish cfg x from fun _ => rfl]
    congr 1
    cases op <;> simp [Op.isRead] at hr <;>
      simp only [handle, withLockedVersion, verifyAccess_readonly_read cfg true _ w .read rfl,
        verifyAccess_readonly_read cfg true _ w .readAcp rfl]

theorem withBucket_code (s : State) (b : Bytes) (k : Bucket → State × Resp)
    (hk : ∀ bk, (k bk).2.code ≠ "") : (withBucket s b k).2.code ≠ "" := by
  unfold withBucket; split
  · exact errR_code_ne _
  · exact hk _

/-- **Every mutating request is refused** (never answered with success) in read-only mode. -/
theorem readonly_refuses_mutations (cfg : Cfg) (h : cfg.readonly = true) (s : State) (c : Caller)
    (now : Int) (op : Op) (hw : Op.isRead op = false) :
    (step cfg s ⟨c, op, now⟩).2.code ≠ "" := by
  simp only [step]
  cases resolve cfg s c with
  | none => exact errR_code_ne _
  | some w =>
    simp only [finish_code]
    cases op <;> simp [Op.isRead] at hw <;> simp only [handle]
    case createBucket b acl own lock validName =>
      simp only [h]; split <;> simp [errR_code_ne]
    case putBucketAcl b a =>
      apply withBucket_code; intro bk; split
      · exact errR_code_ne _
      · simp [verifyAccess_readonly_write cfg h bk w .writeAcp rfl, guard_some, errR_code_ne]
    case putBucketAclGrants b gs =>
      apply withBucket_code; intro bk; split
      · exact errR_code_ne _
      · simp [verifyAccess_readonly_write cfg h bk w .writeAcp rfl, guard_some, errR_code_ne]
    case deleteObjects b keys bp nvs =>
      apply withBucket_code; intro bk
      rw [batch_readonly cfg h]; simp [guard_some, errR_code_ne]
    all_goals
      apply withBucket_code; intro bk
      simp [verifyAccess_readonly_write cfg h bk w .write rfl, batch_readonly cfg h, guard_some, errR_code_ne, h]

/-! Non-vacuity: a concrete state in which the same request succeeds read-write and is refused
read-only. -/
def demoBucket : Bucket := { name := [98], acl := ⟨[114], [⟨[114], .fullControl, false⟩]⟩ }
def demoState : State := { buckets := [demoBucket] }
def demoReq : Req := ⟨.root, .putBucketTagging [98] [([97], [98])], 0⟩
example : (step { rootAccess := [114] } demoState demoReq).1 ≠ demoState := by decide
example : (step { rootAccess := [114], readonly := true } demoState demoReq) = (demoState, errR "AccessDenied") := by decide

end Vgw.Props.C15
