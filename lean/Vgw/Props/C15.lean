/-
  C15 — Read-only mode admits no mutation.
  Theorems over `Model.Gw.step`, for every state, caller and request of the modelled S3 API.
-/
import Vgw.Model.Gw.Step
namespace Vgw.Props.C15
open Vgw Vgw.Model.Gw

/-- a write permission is always refused under the read-only switch, before the root/admin
shortcut (auth.VerifyAccess) -/
theorem verifyAccess_readonly_write (cfg : Cfg) (h : cfg.readonly = true) (b : Bucket) (w : Who)
    (perm : Perm) (hp : perm.isWrite = true) (act obj : Bytes) :
    verifyAccess cfg b w perm act obj = some "AccessDenied" := by
  simp [verifyAccess, h, hp]

theorem guard_some (e : String) (s : State) (k : Unit → State × Resp) : guarded (some e) s k = (s, errR e) := rfl

theorem withBucket_fst (s : State) (b : Bytes) (k : Bucket → State × Resp)
    (hk : ∀ bk, (k bk).1 = s) : (withBucket s b k).1 = s := by
  unfold withBucket; split <;> simp [hk]

theorem guard_fst (c : Option String) (s : State) (k : Unit → State × Resp)
    (hk : c = none → (k ()).1 = s) : (guarded c s k).1 = s := by
  unfold guarded; split
  · rfl
  · exact hk rfl

/-- **No request changes anything when the gateway runs read-only** — whoever sends it (root and
admins included), whatever the state, for every operation of the model. -/
theorem readonly_no_mutation (cfg : Cfg) (h : cfg.readonly = true) (s : State) (r : Req) :
    (step cfg s r).1 = s := by
  unfold step
  split
  · rfl
  · rename_i w _
    cases hop : r.op <;> simp only [handle]
    case createBucket b acl own lock validName =>
      simp only [h]
      split <;> simp
    case deleteBucket b =>
      apply withBucket_fst; intro bk
      simp [verifyAccess_readonly_write cfg h bk w .write rfl, guard_some]
    case headBucket b =>
      apply withBucket_fst; intro bk; apply guard_fst; intro _; rfl
    case putBucketPolicy b p valid =>
      apply withBucket_fst; intro bk
      simp [verifyAccess_readonly_write cfg h bk w .write rfl, guard_some]
    case getBucketPolicy b =>
      apply withBucket_fst; intro bk; apply guard_fst; intro _; split <;> rfl
    case deleteBucketPolicy b =>
      apply withBucket_fst; intro bk
      simp [verifyAccess_readonly_write cfg h bk w .write rfl, guard_some]
    case putBucketAcl b acl =>
      apply withBucket_fst; intro bk
      split
      · rfl
      · simp [verifyAccess_readonly_write cfg h bk w .writeAcp rfl, guard_some]
    case getBucketAcl b =>
      apply withBucket_fst; intro bk; apply guard_fst; intro _; rfl
    case putBucketTagging b tags =>
      apply withBucket_fst; intro bk
      simp [verifyAccess_readonly_write cfg h bk w .write rfl, guard_some]
    case getBucketTagging b =>
      apply withBucket_fst; intro bk; apply guard_fst; intro _; split <;> rfl
    case deleteBucketTagging b =>
      apply withBucket_fst; intro bk
      simp [verifyAccess_readonly_write cfg h bk w .write rfl, guard_some]
    case putOwnership b o =>
      apply withBucket_fst; intro bk
      simp [verifyAccess_readonly_write cfg h bk w .write rfl, guard_some]
    case getOwnership b =>
      apply withBucket_fst; intro bk; apply guard_fst; intro _; split <;> rfl
    case deleteOwnership b =>
      apply withBucket_fst; intro bk
      simp [verifyAccess_readonly_write cfg h bk w .write rfl, guard_some]
    case putVersioning b e =>
      apply withBucket_fst; intro bk
      simp [verifyAccess_readonly_write cfg h bk w .write rfl, guard_some]
    case getVersioning b =>
      apply withBucket_fst; intro bk; apply guard_fst; intro _
      split
      · rfl
      · split <;> rfl
    case putObject b k p nv =>
      apply withBucket_fst; intro bk
      simp [verifyAccess_readonly_write cfg h bk w .write rfl, guard_some]
    case getObject b k vid =>
      apply withBucket_fst; intro bk; apply guard_fst; intro _; split <;> rfl
    case headObject b k vid =>
      apply withBucket_fst; intro bk; apply guard_fst; intro _; split <;> rfl
    case deleteObject b k vid bp nv =>
      apply withBucket_fst; intro bk
      simp [verifyAccess_readonly_write cfg h bk w .write rfl, guard_some]
    case deleteObjects b keys bp nvs =>
      apply withBucket_fst; intro bk
      have : ((if keys.isEmpty then [[]] else keys.map (·.1)).findSome? fun k => verifyAccess cfg bk w .write actDeleteObject k)
          = some "AccessDenied" := by
        split
        · simp [verifyAccess_readonly_write cfg h bk w .write rfl]
        · rename_i hne
          cases keys with
          | nil => simp at hne
          | cons k ks => simp [verifyAccess_readonly_write cfg h bk w .write rfl]
      rw [this]; rfl
    case copyObject sb sk svid b k rep nv =>
      apply withBucket_fst; intro bk
      simp [h, guard_some]
    case putObjectTagging b k t =>
      apply withBucket_fst; intro bk
      simp [verifyAccess_readonly_write cfg h bk w .write rfl, guard_some]
    case getObjectTagging b k =>
      apply withBucket_fst; intro bk; apply guard_fst; intro _
      split
      · split <;> rfl
      · rfl
    case deleteObjectTagging b k =>
      apply withBucket_fst; intro bk
      simp [verifyAccess_readonly_write cfg h bk w .write rfl, guard_some]

/-- the operations that only read -/
def Op.isRead : Op → Bool
  | .headBucket .. | .listBuckets | .getBucketPolicy .. | .getBucketAcl .. | .getBucketTagging .. | .getOwnership ..
  | .getVersioning .. | .getObject .. | .headObject .. | .getObjectTagging .. => true
  | _ => false

/-- read permissions are decided identically with and without the switch -/
theorem verifyAccess_readonly_read (cfg : Cfg) (ro : Bool) (b : Bucket) (w : Who) (perm : Perm)
    (hp : perm.isWrite = false) (act obj : Bytes) :
    verifyAccess { cfg with readonly := ro } b w perm act obj = verifyAccess cfg b w perm act obj := by
  simp [verifyAccess, hp]

/-- **Read requests keep working**: a reading operation is answered exactly as it would be
without the read-only switch. -/
theorem readonly_reads_unaffected (cfg : Cfg) (s : State) (c : Caller) (now : Int) (op : Op)
    (hr : Op.isRead op = true) :
    step { cfg with readonly := true } s ⟨c, op, now⟩ = step cfg s ⟨c, op, now⟩ := by
  have hres : resolve { cfg with readonly := true } s c = resolve cfg s c := by
    cases c <;> rfl
  simp only [step, hres]
  cases resolve cfg s c with
  | none => rfl
  | some w =>
    cases op <;> simp [Op.isRead] at hr <;>
      simp only [handle, verifyAccess_readonly_read cfg true _ w .read rfl,
        verifyAccess_readonly_read cfg true _ w .readAcp rfl]

/-- **Every mutating request is refused** (never answered with success) in read-only mode. -/
theorem readonly_refuses_mutations (cfg : Cfg) (h : cfg.readonly = true) (s : State) (c : Caller)
    (now : Int) (op : Op) (hw : Op.isRead op = false) :
    (step cfg s ⟨c, op, now⟩).2.code ≠ "" := by
  simp only [step]
  cases resolve cfg s c with
  | none => simp [errR_code_ne]
  | some w =>
    have wb : ∀ (b : Bytes) (k : Bucket → State × Resp), (∀ bk, (k bk).2.code ≠ "") → (withBucket s b k).2.code ≠ "" := by
      intro b k hk; unfold withBucket; split
      · simp [errR_code_ne]
      · exact hk _
    cases op <;> simp [Op.isRead] at hw <;> simp only [handle]
    case createBucket b acl own lock validName =>
      simp only [h]; split <;> simp [errR_code_ne]
    case deleteBucket b => apply wb; intro bk; simp [verifyAccess_readonly_write cfg h bk w .write rfl, guard_some, errR_code_ne]
    case putBucketPolicy b p v => apply wb; intro bk; simp [verifyAccess_readonly_write cfg h bk w .write rfl, guard_some, errR_code_ne]
    case deleteBucketPolicy b => apply wb; intro bk; simp [verifyAccess_readonly_write cfg h bk w .write rfl, guard_some, errR_code_ne]
    case putBucketAcl b a =>
      apply wb; intro bk; split
      · simp [errR_code_ne]
      · simp [verifyAccess_readonly_write cfg h bk w .writeAcp rfl, guard_some, errR_code_ne]
    case putBucketTagging b t => apply wb; intro bk; simp [verifyAccess_readonly_write cfg h bk w .write rfl, guard_some, errR_code_ne]
    case deleteBucketTagging b => apply wb; intro bk; simp [verifyAccess_readonly_write cfg h bk w .write rfl, guard_some, errR_code_ne]
    case putOwnership b o => apply wb; intro bk; simp [verifyAccess_readonly_write cfg h bk w .write rfl, guard_some, errR_code_ne]
    case deleteOwnership b => apply wb; intro bk; simp [verifyAccess_readonly_write cfg h bk w .write rfl, guard_some, errR_code_ne]
    case putVersioning b e => apply wb; intro bk; simp [verifyAccess_readonly_write cfg h bk w .write rfl, guard_some, errR_code_ne]
    case putObject b k p nv => apply wb; intro bk; simp [verifyAccess_readonly_write cfg h bk w .write rfl, guard_some, errR_code_ne]
    case deleteObject b k v bp nv => apply wb; intro bk; simp [verifyAccess_readonly_write cfg h bk w .write rfl, guard_some, errR_code_ne]
    case deleteObjects b keys bp nvs =>
      apply wb; intro bk
      have : ((if keys.isEmpty then [[]] else keys.map (·.1)).findSome? fun k => verifyAccess cfg bk w .write actDeleteObject k)
          = some "AccessDenied" := by
        split
        · simp [verifyAccess_readonly_write cfg h bk w .write rfl]
        · rename_i hne
          cases keys with
          | nil => simp at hne
          | cons k ks => simp [verifyAccess_readonly_write cfg h bk w .write rfl]
      rw [this]; simp [guard_some, errR]
    case copyObject sb sk sv b k rep nv => apply wb; intro bk; simp [h, guard_some, errR_code_ne]
    case putObjectTagging b k t => apply wb; intro bk; simp [verifyAccess_readonly_write cfg h bk w .write rfl, guard_some, errR_code_ne]
    case deleteObjectTagging b k => apply wb; intro bk; simp [verifyAccess_readonly_write cfg h bk w .write rfl, guard_some, errR_code_ne]

/-! Non-vacuity: a concrete state in which the same request succeeds read-write and is refused
read-only. -/
def demoBucket : Bucket := { name := [98], acl := ⟨[114], [⟨[114], .fullControl, false⟩]⟩ }
def demoState : State := { buckets := [demoBucket] }
def demoReq : Req := ⟨.root, .putBucketTagging [98] [([97], [98])], 0⟩
example : (step { rootAccess := [114] } demoState demoReq).1 ≠ demoState := by decide
example : (step { rootAccess := [114], readonly := true } demoState demoReq) = (demoState, errR "AccessDenied") := by decide

end Vgw.Props.C15
