/-
  C12 — aws-chunked decoding is independent of stream fragmentation.

  Theorems about `Model.ChunkSigned` / `Model.ChunkUnsigned` (the models of the two readers in
  s3api/utils as of /repo commit cf70120) against `Spec.Chunked.Valid`, for EVERY hash family
  (SHA-256, HMAC and the trailing checksum are function parameters) and all three encodings.

    signed_fragmentation_independent   ARBITRARY bytes (valid or not): the run over any list of
                                       deliveries = the run that hands the same bytes over in one Read
                                       (decoded bytes AND error value), as long as the reader's 1024-byte
                                       limit on a stashed partial header does not strike
    decode_complete                    a valid stream decodes to exactly its payload, then EOF, for
                                       every partition into reads / every schedule of buffer sizes
                                       (signed, signed+trailer, unsigned+trailer) — full strength
    truncation_rejected_signed         every proper truncation of a valid signed stream is refused
                                       under every fragmentation (io.EOF after the last bytes)
    signed_eof_delivery_independent    io.EOF with the last bytes or after them: same bytes, same outcome
                                       (only errInvalidChunkFormat / io.ErrUnexpectedEOF may swap)
    signed_outcome_independent         both together: any two ways of delivering the same bytes
    signed_never_panics                arbitrary bytes, arbitrary deliveries: no run ends in a panic
    valid_functional, valid_prefix_free, truncation_invalid, encode_valid, oracle_on_valid   spec level
    signed_fuel_suffices, unsigned_fuel_suffices   totality of the models

  Not proved (tested only, by the oracle on every observation of the harness): soundness for
  arbitrary invalid streams (wrong signatures, malformed bytes).
-/
import Vgw.Lemmas.ChunkSigned
import Vgw.Lemmas.ChunkUnsigned
import Vgw.Lemmas.ChunkSpec
import Vgw.Lemmas.Fuel
import Vgw.Lemmas.ChunkEof
import Vgw.Lemmas.ChunkNoPanic
namespace Vgw.Props.C12
open Vgw Vgw.Spec.Chunked Vgw.Model
open Vgw.Lemmas.ChunkSigned (signedCfg SignedHyps variantOf)
open Vgw.Lemmas.ChunkUnsigned (ucfg UnsignedHyps)
open Vgw.Lemmas.ChunkMerge (flat lastFlag Good StashOK)

/-- `ds` (fragment, delivered-together-with-io.EOF) is a way the underlying reader can hand the
stream `s` to the signed reader: non-empty fragments in order, io.EOF at most with the last one
(`ChunkSigned.run` supplies the bare `(0, io.EOF)` after the last delivery). -/
def Partition (s : Bytes) (ds : List (Bytes × Bool)) : Prop :=
  (ds.map (·.1)).flatten = s ∧ (∀ d ∈ ds, d.1 ≠ []) ∧ (∀ d ∈ ds.dropLast, d.2 = false)

instance (s : Bytes) (ds : List (Bytes × Bool)) : Decidable (Partition s ds) := by
  unfold Partition; infer_instance

/-- 5 GiB: the largest chunk the unsigned reader buffers (`maxUnsignedChunkSize`) -/
def chunkLimit : Nat := 5368709120

/-! ### the signed reader does not see how the stream is cut into reads -/

/-- **Fragmentation independence of the signed reader, for arbitrary bytes.**  Whatever the bytes
are — a valid stream, a truncated one, one with wrong signatures, garbage — and however they are cut
into non-empty deliveries (io.EOF with the last one or afterwards), the run hands out the same bytes
and ends with the same error value as the run that delivers everything in one `Read`.
`StashOK` is the reader's own resource limit: a partial chunk header waiting in the stash never
exceeds 1024 bytes (`Open.C12.stash_limit_matters`: the limit is real). -/
theorem signed_fragmentation_independent (cfg : ChunkSigned.Cfg) (seedSig : Bytes) (ds : List (Bytes × Bool))
    (hne : ds ≠ []) (hgood : Good ds) (hmax : ((flat ds).length : Int) ≤ ChunkSigned.intMax)
    (hst : StashOK cfg (ChunkSigned.init seedSig) ds) :
    ChunkSigned.run cfg seedSig ds = ChunkSigned.run cfg seedSig [(flat ds, lastFlag ds)] :=
  Lemmas.ChunkMerge.run_merge cfg ds.length ds (Nat.le_refl _) _ [] hne hgood hmax hst

/-- the two error values an invalid stream can be refused with depending on how io.EOF arrives -/
def EofErrPair (a b : ChunkSigned.Status) : Prop :=
  (a = .err .invalidFormat ∧ b = .err .unexpectedEOF) ∨ (a = .err .unexpectedEOF ∧ b = .err .invalidFormat)

/-- **io.EOF together with the last bytes or on its own afterwards** (arbitrary bytes): the bytes
handed out are the same and the outcome is the same — a stream that ends inside a chunk header is
refused with errInvalidChunkFormat in one case and io.ErrUnexpectedEOF in the other. -/
theorem signed_eof_delivery_independent (cfg : ChunkSigned.Cfg) (seedSig s : Bytes) (hs : s ≠ [])
    (hmax : (s.length : Int) ≤ ChunkSigned.intMax) :
    (ChunkSigned.run cfg seedSig [(s, true)]).1 = (ChunkSigned.run cfg seedSig [(s, false)]).1 ∧
    ((ChunkSigned.run cfg seedSig [(s, true)]).2 = (ChunkSigned.run cfg seedSig [(s, false)]).2 ∨
     EofErrPair (ChunkSigned.run cfg seedSig [(s, true)]).2 (ChunkSigned.run cfg seedSig [(s, false)]).2) := by
  have := Lemmas.ChunkEof.oneshot_eof_mode cfg (ChunkSigned.init seedSig) s hs hmax
  exact ⟨this.1, this.2.imp id (fun h => Or.inl h)⟩

/-- **The outcome does not depend on the delivery at all** (arbitrary bytes): two lists of
deliveries of the same wire bytes — cut differently, io.EOF attached or not — hand out the same
bytes and both accept or both refuse (with the same error value up to the swap above). -/
theorem signed_outcome_independent (cfg : ChunkSigned.Cfg) (seedSig : Bytes) (ds ds' : List (Bytes × Bool))
    (hne : ds ≠ []) (hne' : ds' ≠ []) (hgood : Good ds) (hgood' : Good ds') (hflat : flat ds = flat ds')
    (hmax : ((flat ds).length : Int) ≤ ChunkSigned.intMax)
    (hst : StashOK cfg (ChunkSigned.init seedSig) ds) (hst' : StashOK cfg (ChunkSigned.init seedSig) ds') :
    (ChunkSigned.run cfg seedSig ds).1 = (ChunkSigned.run cfg seedSig ds').1 ∧
    ((ChunkSigned.run cfg seedSig ds).2 = (ChunkSigned.run cfg seedSig ds').2 ∨
     EofErrPair (ChunkSigned.run cfg seedSig ds).2 (ChunkSigned.run cfg seedSig ds').2) := by
  rw [signed_fragmentation_independent cfg seedSig ds hne hgood hmax hst,
    signed_fragmentation_independent cfg seedSig ds' hne' hgood' (hflat ▸ hmax) hst', ← hflat]
  have hs : flat ds ≠ [] := by
    cases ds with
    | nil => exact absurd rfl hne
    | cons d ds => have := hgood.1 d (by simp); simp [flat, this]
  have h := signed_eof_delivery_independent cfg seedSig (flat ds) hs hmax
  cases h1 : lastFlag ds <;> cases h2 : lastFlag ds'
  · exact ⟨rfl, Or.inl rfl⟩
  · refine ⟨h.1.symm, ?_⟩
    rcases h.2 with e | ⟨a, b⟩ | ⟨a, b⟩
    · exact Or.inl e.symm
    · exact Or.inr (Or.inr ⟨b, a⟩)
    · exact Or.inr (Or.inl ⟨b, a⟩)
  · exact h
  · exact ⟨rfl, Or.inl rfl⟩

/-- **The signed reader never panics**: arbitrary bytes, arbitrary deliveries. -/
theorem signed_never_panics (cfg : ChunkSigned.Cfg) (seedSig : Bytes) (ds : List (Bytes × Bool)) :
    (ChunkSigned.run cfg seedSig ds).2 ≠ .panic :=
  Lemmas.ChunkNoPanic.runFrom_no_panic cfg ds _ [] (Lemmas.ChunkNoPanic.init_inv cfg seedSig)

theorem flat_take_drop (ds : List (Bytes × Bool)) (k : Nat) : flat (ds.take k) ++ flat (ds.drop k) = flat ds := by
  simp only [flat, ← List.flatten_append, ← List.map_append, List.take_append_drop]

theorem flat_ne_nil (ds : List (Bytes × Bool)) (hne : ds ≠ []) (hg : ∀ d ∈ ds, d.1 ≠ []) : flat ds ≠ [] := by
  cases ds with
  | nil => exact absurd rfl hne
  | cons d ds =>
    have := hg d (by simp)
    simp [flat, this]

/-- the stash limit is never reached on (prefixes of) valid streams -/
theorem stashOK_of_prefix (P : Params) (tr : Bool) (L : Nat) (H : SignedHyps P tr L) (cs : List Chunk) (hz : Bytes)
    (hwf : WF cs hz) (ds : List (Bytes × Bool)) (G : Bytes)
    (hs : flat ds ++ G = renderSigned P tr P.seedSig [] cs hz) (hgood : Good ds)
    (hmax : ((flat ds).length : Int) ≤ ChunkSigned.intMax) :
    StashOK (signedCfg P tr L) (ChunkSigned.init P.seedSig) ds := by
  intro k hk0 hkl _
  have hF : flat (ds.take k) ≠ [] := flat_ne_nil _ (by
    intro e
    rcases List.take_eq_nil_iff.1 e with h | h
    · omega
    · subst h; simp at hkl) (fun d hd => hgood.1 d (List.mem_of_mem_take hd))
  have hD : flat (ds.drop k) ≠ [] := flat_ne_nil _ (by
    intro e
    have := List.drop_eq_nil_iff.1 e
    omega) (fun d hd => hgood.1 d (List.mem_of_mem_drop hd))
  have hsplit := flat_take_drop ds k
  have hl := congrArg List.length hsplit
  simp only [List.length_append] at hl
  exact (Lemmas.ChunkSigned.read_prefix P tr L H cs hz hwf (flat (ds.take k)) (flat (ds.drop k) ++ G) hF (by simp [hD])
    (by rw [← List.append_assoc, hsplit]; exact hs) (by omega) _).2

/-- **C12, completeness, signed encodings, full strength**: a valid signed (or signed-with-trailer)
stream decodes to exactly its payload, then a clean EOF, for EVERY partition of the wire bytes into
reads (and so for every schedule of destination buffers: a smaller buffer only cuts finer). -/
theorem decode_complete_signed (P : Params) (tr : Bool) (L : Nat) (H : SignedHyps P tr L) (s p : Bytes)
    (hv : Valid P (variantOf tr) s p) (hlen : s.length ≤ chunkBound) (ds : List (Bytes × Bool))
    (hpart : Partition s ds) : ChunkSigned.run (signedCfg P tr L) P.seedSig ds = (p, .eof) := by
  obtain ⟨cs, hz, hwf, rfl, rfl⟩ := hv
  rw [Lemmas.ChunkSigned.render_variantOf] at hpart hlen
  obtain ⟨hflat, hne, hflags⟩ := hpart
  have hfl : flat ds = renderSigned P tr P.seedSig [] cs hz := hflat
  have hdsne : ds ≠ [] := by
    intro e; subst e
    have := Lemmas.ChunkSigned.renderSigned_length P tr cs P.seedSig [] hz
    rw [← hfl] at this; simp [flat] at this
  have hmax : ((flat ds).length : Int) ≤ ChunkSigned.intMax := by
    rw [hfl]; unfold ChunkSigned.intMax; unfold chunkBound at hlen; omega
  rw [signed_fragmentation_independent _ _ ds hdsne ⟨hne, hflags⟩ hmax
    (stashOK_of_prefix P tr L H cs hz hwf ds [] (by simpa using hfl) ⟨hne, hflags⟩ hmax), hfl]
  obtain ⟨st', h⟩ := Lemmas.ChunkSigned.read_whole P tr L H cs hz hwf (lastFlag ds)
    (renderSigned P tr P.seedSig [] cs hz).length
  simp [ChunkSigned.run, ChunkSigned.runFrom, h]

theorem read_end_not_eof (cfg : ChunkSigned.Cfg) (st : ChunkSigned.State) :
    (ChunkSigned.read cfg st [] true 0).2.status ≠ .eof := by
  unfold ChunkSigned.read
  simp only [List.length_nil]
  split
  · split
    · simp
    · rename_i h1 h2; exact absurd h1 (by simpa using h2)
  · simp

/-- **Every proper truncation of a valid signed stream is refused, however it is fragmented**
(io.EOF delivered after the last bytes): the run never ends in a clean EOF. -/
theorem truncation_rejected_signed (P : Params) (tr : Bool) (L : Nat) (H : SignedHyps P tr L) (s p : Bytes)
    (hv : Valid P (variantOf tr) s p) (hlen : s.length ≤ chunkBound) (k : Nat) (hk : k < s.length)
    (ds : List (Bytes × Bool)) (hpart : Partition (s.take k) ds) (hnoeof : ∀ d ∈ ds, d.2 = false) :
    (ChunkSigned.run (signedCfg P tr L) P.seedSig ds).2 ≠ .eof := by
  obtain ⟨cs, hz, hwf, rfl, rfl⟩ := hv
  rw [Lemmas.ChunkSigned.render_variantOf] at hpart hlen hk
  obtain ⟨hflat, hne, hflags⟩ := hpart
  have hfl : flat ds = (renderSigned P tr P.seedSig [] cs hz).take k := hflat
  by_cases hds : ds = []
  · subst hds
    simp only [ChunkSigned.run, ChunkSigned.runFrom]
    have := read_end_not_eof (signedCfg P tr L) (ChunkSigned.init P.seedSig)
    generalize ChunkSigned.read (signedCfg P tr L) (ChunkSigned.init P.seedSig) [] true 0 = r at this ⊢
    obtain ⟨st', out, s⟩ := r
    cases s <;> simp_all
  · have hG : (renderSigned P tr P.seedSig [] cs hz).drop k ≠ [] := by
      intro e; have := congrArg List.length e; simp at this; omega
    have hsplit : flat ds ++ (renderSigned P tr P.seedSig [] cs hz).drop k = renderSigned P tr P.seedSig [] cs hz := by
      rw [hfl, List.take_append_drop]
    have hmax : ((flat ds).length : Int) ≤ ChunkSigned.intMax := by
      rw [hfl]; simp only [List.length_take]; unfold ChunkSigned.intMax; unfold chunkBound at hlen; omega
    rw [signed_fragmentation_independent _ _ ds hds ⟨hne, hflags⟩ hmax
      (stashOK_of_prefix P tr L H cs hz hwf ds _ hsplit ⟨hne, hflags⟩ hmax)]
    have hlf : lastFlag ds = false := by
      unfold lastFlag
      cases hl : ds.getLast? with
      | none => rfl
      | some d => exact hnoeof d (List.mem_of_getLast? hl)
    rw [hlf]
    have hF : flat ds ≠ [] := flat_ne_nil ds hds hne
    have hp := Lemmas.ChunkSigned.read_prefix P tr L H cs hz hwf (flat ds) _ hF hG hsplit hmax (flat ds).length
    simp only [ChunkSigned.run, ChunkSigned.runFrom]
    generalize ChunkSigned.read (signedCfg P tr L) (ChunkSigned.init P.seedSig) (flat ds) false (flat ds).length = r at hp ⊢
    obtain ⟨st1, out1, s1⟩ := r
    simp only at hp
    rw [hp.1]
    simp only
    have := read_end_not_eof (signedCfg P tr L) st1
    generalize ChunkSigned.read (signedCfg P tr L) st1 [] true 0 = r2 at this ⊢
    obtain ⟨st2, out2, s2⟩ := r2
    cases s2 <;> simp_all

/-! ### unsigned reader: complete for every fragmentation and buffer schedule -/

theorem payload_chunk_le (cs : List Chunk) : ∀ c ∈ cs, c.2.length ≤ (payloadOf cs).length := by
  induction cs with
  | nil => intro c hc; simp at hc
  | cons a cs ih =>
    intro c hc
    simp only [payloadOf, List.map_cons, List.flatten_cons, List.length_append] at ih ⊢
    simp at hc
    rcases hc with rfl | hc
    · omega
    · have := ih c hc; omega

theorem payload_le_render (P : Params) (cs : List Chunk) :
    ∀ (acc hz : Bytes), (payloadOf cs).length ≤ (renderUnsigned P acc cs hz).length := by
  induction cs with
  | nil => intro acc hz; simp [payloadOf]
  | cons c cs ih =>
    intro acc hz
    have := ih (acc ++ c.2) hz
    simp [payloadOf, renderUnsigned] at this ⊢
    omega

/-- **The unsigned reader decodes every valid stream, for every fragmentation and every schedule of
non-empty destination buffers**; side condition: no chunk exceeds the 5 GiB the reader is willing to
buffer.  (`bufio.Reader` is the trusted parameter that makes the fragmentation of the underlying
reads invisible.) -/
theorem decode_complete_unsigned_chunks (P : Params) (H : UnsignedHyps P) (cs : List Chunk) (hz : Bytes)
    (hwf : WF cs hz) (hlim : ∀ c ∈ cs, c.2.length ≤ chunkLimit)
    (frags : List Bytes) (caps : Nat → Nat) (hfr : frags.flatten = render P .unsignedTrailer cs hz)
    (hcaps : ∀ i, 0 < caps i) : ChunkUnsigned.run (ucfg P) frags caps = (payloadOf cs, .eof) := by
  have hok : Lemmas.ChunkUnsigned.ChunksOK cs := by
    intro c hc
    exact ⟨(hwf.1 c hc).1, (hwf.1 c hc).2, hlim c hc⟩
  unfold ChunkUnsigned.run
  rw [hfr]
  have := Lemmas.ChunkUnsigned.runFrom_spec P H hz hwf.2.1 caps hcaps (payloadOf cs).length cs
    (ChunkUnsigned.init (render P .unsignedTrailer cs hz)) [] []
    (2 * (render P .unsignedTrailer cs hz).length + 2) 0 (by simp [ChunkUnsigned.init])
    (by have := payload_le_render P cs [] hz; simp only [render]; omega) hok ⟨rfl, rfl⟩
  simpa [ChunkUnsigned.init] using this

theorem decode_complete_unsigned (P : Params) (H : UnsignedHyps P) (s p : Bytes)
    (hv : Valid P .unsignedTrailer s p) (hlen : p.length ≤ chunkLimit)
    (frags : List Bytes) (caps : Nat → Nat) (hfr : frags.flatten = s) (hcaps : ∀ i, 0 < caps i) :
    ChunkUnsigned.run (ucfg P) frags caps = (p, .eof) := by
  obtain ⟨cs, hz, hwf, rfl, rfl⟩ := hv
  exact decode_complete_unsigned_chunks P H cs hz hwf
    (fun c hc => Nat.le_trans (payload_chunk_le cs c hc) hlen) frags caps hfr hcaps

/-- **C12, completeness, full strength, all three encodings.** -/
theorem decode_complete :
    (∀ (P : Params) (tr : Bool) (L : Nat), SignedHyps P tr L → ∀ s p, Valid P (variantOf tr) s p →
      s.length ≤ chunkBound → ∀ ds, Partition s ds → ChunkSigned.run (signedCfg P tr L) P.seedSig ds = (p, .eof)) ∧
    (∀ (P : Params), UnsignedHyps P → ∀ s p, Valid P .unsignedTrailer s p → p.length ≤ chunkLimit →
      ∀ (frags : List Bytes) (caps : Nat → Nat), frags.flatten = s → (∀ i, 0 < caps i) →
        ChunkUnsigned.run (ucfg P) frags caps = (p, .eof)) :=
  ⟨fun P tr L H s p hv hl ds hp => decode_complete_signed P tr L H s p hv hl ds hp,
   fun P H s p hv hl frags caps hf hc => decode_complete_unsigned P H s p hv hl frags caps hf hc⟩

/-! ### spec level: a stream determines its payload; valid streams are prefix-free -/

/-- **A stream is a valid encoding of at most one payload** (all three encodings, all hash families). -/
theorem valid_functional (P : Params) (v : Variant) (s p p' : Bytes)
    (h : Valid P v s p) (h' : Valid P v s p') : p = p' := by
  obtain ⟨cs, hz, hwf, rfl, rfl⟩ := h
  obtain ⟨cs', hz', hwf', e, rfl⟩ := h'
  exact (Lemmas.ChunkSpec.render_inj P v cs cs' hz hz' [] [] hwf hwf' (by simpa using e)).1

/-- **No valid stream is a proper prefix of a valid stream**: every proper truncation of a valid
stream is invalid, and so is a valid stream with anything appended. -/
theorem valid_prefix_free (P : Params) (v : Variant) (s t p p' : Bytes)
    (h : Valid P v s p) (h' : Valid P v (s ++ t) p') : t = [] := by
  obtain ⟨cs, hz, hwf, rfl, rfl⟩ := h
  obtain ⟨cs', hz', hwf', e, rfl⟩ := h'
  exact (Lemmas.ChunkSpec.render_inj P v cs cs' hz hz' t [] hwf hwf' (by simpa using e)).2

/-- every proper prefix of a valid stream is invalid (for every payload) -/
theorem truncation_invalid (P : Params) (v : Variant) (s p : Bytes) (h : Valid P v s p) (k : Nat)
    (hk : k < s.length) (p' : Bytes) : ¬ Valid P v (s.take k) p' := by
  intro h'
  have e : s = s.take k ++ s.drop k := (List.take_append_drop k s).symm
  have := valid_prefix_free P v (s.take k) (s.drop k) p' p h' (e ▸ h)
  have hl := congrArg List.length this
  simp at hl; omega

/-- **The canonical encoder yields valid streams**: `Valid` is inhabited for every payload, every
chunking and every encoding (non-vacuity of everything above). -/
theorem encode_valid (P : Params) (v : Variant) (p : Bytes) (sizes : List Nat) (hp : p.length ≤ chunkBound) :
    Valid P v (encode P v p sizes) p :=
  Lemmas.ChunkSpec.encode_valid P v p sizes hp

/-- **The executable oracle agrees with `Valid` on valid streams**: it admits exactly "the payload,
then a clean EOF" — no rejection, no crash, no other payload. -/
theorem oracle_on_valid (P : Params) (v : Variant) (s p : Bytes) (hcr : (13 : UInt8) ∉ P.trailerName)
    (hv : Valid P v s p) (o : Obs) : admitsB P v s o = true ↔ o = .ok p := by
  have hc := Lemmas.ChunkSpec.check_complete P v s p hcr hv
  unfold admitsB classify
  simp only [hc]
  cases o with
  | ok q => simp only [beq_iff_eq, Obs.ok.injEq]; exact eq_comm
  | rejected => simp
  | crashed => simp

/-- the oracle never admits a crash, whatever the stream -/
theorem oracle_never_admits_crash (P : Params) (v : Variant) (s : Bytes) : admitsB P v s .crashed = false := by
  unfold admitsB
  split <;> simp_all

/-! ### a chunk that nothing signs is refused

`parseAndRemoveChunkInfo` verifies the signature of a chunk only when it reaches the next header and
only if one is pending; a header whose `chunk-signature=` value is empty would therefore pass
unverified and stand outside the signature chain. The reader refuses it at the header
(repo fix 7242bc4), for every state, buffer, size and offset. -/

/-- whatever the reader state and the buffer: once the pending check has passed and the header parser
has delivered a chunk header whose signature value is empty, the activation ends in
SignatureDoesNotMatch, hands out no byte, and does not record the empty signature -/
theorem empty_chunk_signature_refused (cfg : ChunkSigned.Cfg) (fuel : Nat) (st st1 st2 : ChunkSigned.State)
    (p : Bytes) (size off : Int)
    (hchk : (if st.parsedSig ≠ [] then ChunkSigned.checkSignature cfg st else .ok st) = .ok st1)
    (hhdr : ChunkSigned.parseChunkHeaderBytes cfg st1 p = (st2, .chunk size [] off)) :
    ChunkSigned.parseAndRemove cfg (fuel + 1) st p = (st2, ⟨[], .err .sigMismatch⟩) := by
  rw [ChunkSigned.parseAndRemove]
  unfold ChunkSigned.parStep
  simp only [hchk]
  exact Lemmas.ChunkMerge.parBody_nosig cfg _ st1 st2 p size off hhdr

/-- no data byte is ever handed out by an activation that met an empty chunk signature, even if the
pending check failed first -/
theorem empty_chunk_signature_no_output (cfg : ChunkSigned.Cfg) (fuel : Nat) (st : ChunkSigned.State) (p : Bytes)
    (h : ∀ st1, ∃ st2 size off, ChunkSigned.parseChunkHeaderBytes cfg st1 p = (st2, .chunk size [] off)) :
    (ChunkSigned.parseAndRemove cfg (fuel + 1) st p).2.out = [] ∧
      (ChunkSigned.parseAndRemove cfg (fuel + 1) st p).2.status ≠ .nil ∧
      (ChunkSigned.parseAndRemove cfg (fuel + 1) st p).2.status ≠ .eof := by
  rw [ChunkSigned.parseAndRemove]
  unfold ChunkSigned.parStep
  simp only
  split
  · simp
  · rename_i st1 _
    obtain ⟨st2, size, off, hh⟩ := h st1
    rw [Lemmas.ChunkMerge.parBody_nosig cfg _ st1 st2 p size off hh]
    simp

/-! ### totality of the models

The models are total functions; the only artefact is the fuel of the recursive parts, and it is
never exhausted. -/

/-- `Read` of the signed reader never runs out of fuel -/
theorem signed_fuel_suffices (cfg : ChunkSigned.Cfg) (st : ChunkSigned.State) (frag : Bytes) (isEOF : Bool) (cap : Nat) :
    (ChunkSigned.read cfg st frag isEOF cap).2.status ≠ .fuel := by
  unfold ChunkSigned.read
  simp only
  split
  · split
    · simp
    · have := Lemmas.Fuel.parseAndRemove_no_fuel cfg (frag.length + 1)
        (if st.chunkDataLeft > 0 then ChunkSigned.hashWrite cfg { st with isEOF := isEOF } (frag.take st.chunkDataLeft.toNat)
         else { st with isEOF := isEOF }) (frag.drop st.chunkDataLeft.toNat) (by simp; omega)
      generalize ChunkSigned.parseAndRemove cfg _ _ _ = r at this ⊢
      obtain ⟨st', out, s⟩ := r
      unfold ChunkSigned.prepend
      cases s <;> simp_all
  · split <;> simp

/-- `Read` of the unsigned reader never runs out of fuel -/
theorem unsigned_fuel_suffices (cfg : ChunkUnsigned.Cfg) (st : ChunkUnsigned.State) (cap : Nat) :
    (ChunkUnsigned.read cfg st cap).2.status ≠ .fuel := by
  unfold ChunkUnsigned.read
  split
  · simp only []
    split
    · simp
    · exact Lemmas.Fuel.loop_no_fuel cfg cap _ st _ (by omega)
  · exact Lemmas.Fuel.loop_no_fuel cfg cap _ st _ (by omega)

/-! ### non-vacuity: the hypotheses of every theorem are met by non-trivial inputs

A toy hash family keeps the examples kernel-checkable (`decide`); the harness runs the same shapes
with real SHA-256 / HMAC / CRC32 against the real readers. -/

/-- a toy hash family: every digest is empty, every MAC is the byte 01 (so every signature is "01") -/
def toy : Params :=
  { sha := fun _ => [], hmac := fun _ _ => [1], csum := fun _ => [], key := [], amzDate := [], scope := [],
    seedSig := [], trailerName := [120] }

theorem toy_signed_hyps (tr : Bool) : SignedHyps toy tr 0 :=
  ⟨by intro _ _; simp [toy], by simp [toy], by decide, by intro _; rfl,
   by intro prev d acc; simp [toy, chunkSig, trailerSig, checksumB64, hexEncode, b64Encode, maxSizeDigits, sigIntro,
        trailerSigIntro, ChunkSigned.maxHeaderSize]⟩

theorem toy_unsigned_hyps : UnsignedHyps toy :=
  ⟨⟨120, [], rfl, by decide⟩, by decide, by decide⟩

/-- `1;chunk-signature=01 CRLF A CRLF 0;chunk-signature=01 CRLF CRLF` — payload "A" in one chunk -/
def s1 : Bytes :=
  [49] ++ sigIntro ++ [48, 49] ++ [13, 10] ++ [65] ++ [13, 10] ++ [48] ++ sigIntro ++ [48, 49] ++ [13, 10] ++ [13, 10]

theorem s1_valid : Valid toy (variantOf false) s1 [65] :=
  ⟨[([49], [65])], [48], ⟨by decide, by decide, by decide, by decide, by decide⟩, by decide, by decide⟩

/-- payload "ABC" in chunks of 2 + 1, unsigned with trailer -/
def u3 : Bytes := encode toy .unsignedTrailer [65, 66, 67] [2]

example : ChunkUnsigned.run (ucfg toy) [u3.take 5, u3.drop 5] (fun i => i % 3 + 1) = ([65, 66, 67], .eof) :=
  decode_complete_unsigned toy toy_unsigned_hyps u3 [65, 66, 67] (encode_valid toy _ _ _ (by decide)) (by decide)
    _ _ (by simp) (by intro i; omega)

-- (test) the same run evaluated by the kernel
example : ChunkUnsigned.run (ucfg toy) [u3.take 5, u3.drop 5] (fun i => i % 3 + 1) = ([65, 66, 67], .eof) := by decide

/-- `s1` cut inside its first header, inside the final header (after the CR of its leading CRLF) and
inside the final signature; io.EOF with the last bytes -/
def ds1 : List (Bytes × Bool) :=
  [(s1.take 7, false), ((s1.drop 7).take 17, false), ((s1.drop 24).take 10, false), (s1.drop 34, true)]

theorem ds1_partition : Partition s1 ds1 := by decide

example : ChunkSigned.run (signedCfg toy false 0) toy.seedSig ds1 = ([65], .eof) :=
  decode_complete_signed toy false 0 (toy_signed_hyps false) s1 [65] s1_valid (by decide) ds1 ds1_partition

-- (test) the same run evaluated by the kernel
example : ChunkSigned.run (signedCfg toy false 0) toy.seedSig ds1 = ([65], .eof) := by decide

/-- payload "ABC" in chunks of 1 + 2, signed with trailer -/
def t3 : Bytes := encode toy .signedTrailer [65, 66, 67] [1]

example : ChunkSigned.run (signedCfg toy true 0) toy.seedSig [(t3.take 30, false), (t3.drop 30, false)] = ([65, 66, 67], .eof) :=
  decode_complete_signed toy true 0 (toy_signed_hyps true) t3 [65, 66, 67]
    (encode_valid toy .signedTrailer _ _ (by decide)) (by decide) _ (by decide)

-- garbage, too, is treated alike however it is cut (here: rejected alike)
example : ChunkSigned.run (signedCfg toy false 0) [] [([49, 59, 99], false), ([0, 0], true)] =
    ChunkSigned.run (signedCfg toy false 0) [] [([49, 59, 99, 0, 0], true)] :=
  signed_fragmentation_independent _ _ _ (by decide) (by unfold Good; decide) (by decide) (by
    intro k hk0 hkl
    have : k = 1 := by simp at hkl; omega
    subst this
    decide)

example (ds : List (Bytes × Bool)) (h : Partition (s1.take 30) ds) (hn : ∀ d ∈ ds, d.2 = false) :
    (ChunkSigned.run (signedCfg toy false 0) toy.seedSig ds).2 ≠ .eof :=
  truncation_rejected_signed toy false 0 (toy_signed_hyps false) s1 [65] s1_valid (by decide) 30 (by decide) ds h hn

example : (ChunkSigned.run (signedCfg toy false 0) toy.seedSig [(s1.take 30, true)]).1 =
    (ChunkSigned.run (signedCfg toy false 0) toy.seedSig [(s1.take 30, false)]).1 :=
  (signed_eof_delivery_independent _ _ _ (by decide) (by decide)).1

example : (ChunkSigned.run (signedCfg toy false 0) toy.seedSig ds1).1 =
    (ChunkSigned.run (signedCfg toy false 0) toy.seedSig [(s1, false)]).1 :=
  (signed_outcome_independent _ _ ds1 [(s1, false)] (by decide) (by decide) (by unfold Good; decide) (by unfold Good; decide)
    (by decide) (by decide)
    (stashOK_of_prefix toy false 0 (toy_signed_hyps false) [([49], [65])] [48]
      ⟨by decide, by decide, by decide, by decide, by decide⟩ ds1 [] (by decide) (by unfold Good; decide) (by decide))
    (by intro k h0 hl; simp at hl; omega)).1

-- a negative chunk size, a header split behind a CR, garbage: no panic
example : (ChunkSigned.run (signedCfg toy false 0) [] [([45, 49, 59, 99], false), ([13], false), ([10, 0, 255], true)]).2 ≠ .panic :=
  signed_never_panics _ _ _

example (p : Bytes) (h : Valid toy (variantOf false) s1 p) : p = [65] := valid_functional toy _ s1 p [65] h s1_valid
example (p : Bytes) : ¬ Valid toy (variantOf false) (s1 ++ [13, 10]) p :=
  fun h => absurd (valid_prefix_free toy _ s1 [13, 10] [65] p s1_valid h) (by decide)
example (p : Bytes) : ¬ Valid toy (variantOf false) (s1.take 30) p :=
  truncation_invalid toy _ s1 [65] s1_valid 30 (by decide) p
example : admitsB toy (variantOf false) s1 (.ok [65]) = true :=
  (oracle_on_valid toy _ s1 [65] (by decide) s1_valid _).2 rfl
example : admitsB toy (variantOf false) s1 .rejected = false := by
  have := oracle_on_valid toy _ s1 [65] (by decide) s1_valid .rejected
  cases h : admitsB toy (variantOf false) s1 .rejected with
  | false => rfl
  | true => exact absurd (this.1 h) (by decide)
example : (ChunkSigned.read (signedCfg toy false 0) (ChunkSigned.init []) s1 false 64).2.status ≠ .fuel :=
  signed_fuel_suffices _ _ _ _ _
example : (ChunkUnsigned.read (ucfg toy) (ChunkUnsigned.init u3) 2).2.status ≠ .fuel :=
  unsigned_fuel_suffices _ _ _

/-- `1;chunk-signature= CRLF A CRLF 0;chunk-signature=01 CRLF CRLF`: the data chunk carries no signature -/
def s1nosig : Bytes :=
  [49] ++ sigIntro ++ [13, 10] ++ [65] ++ [13, 10] ++ [48] ++ sigIntro ++ [48, 49] ++ [13, 10] ++ [13, 10]

-- (test) the hypotheses of `empty_chunk_signature_refused` are met by a real stream: the run is refused
example : ChunkSigned.run (signedCfg toy false 0) toy.seedSig [(s1nosig, true)] = ([], .err .sigMismatch) := by decide
example : (match (ChunkSigned.parseChunkHeaderBytes (signedCfg toy false 0) (ChunkSigned.init toy.seedSig) s1nosig).2 with
    | .chunk 1 [] _ => true
    | _ => false) = true := by decide

end Vgw.Props.C12
