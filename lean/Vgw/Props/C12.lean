/-
  C12 — aws-chunked decoding is independent of stream fragmentation.

  Theorems about `Model.ChunkSigned` / `Model.ChunkUnsigned` (the models of the two readers in
  s3api/utils) against `Spec.Chunked.Valid`, for EVERY hash family (SHA-256, HMAC and the trailing
  checksum are function parameters) and all three encodings.

  On the unchanged tree the full statements are FALSE for the signed reader (a chunk header after
  the first that is split across two reads is mis-parsed; a bare io.EOF of the underlying stream is
  handed through as a clean end) and `decode_sound_full` is also false for the unsigned reader (EOF
  right after a chunk-size line).  They are kept as `def … : Prop`, refuted in `Vgw/Open/C12.lean`,
  and the parts that hold are proved here:

    decode_complete_unsigned          every fragmentation, every schedule of non-empty buffers
    decode_complete_partial_signed    the stream arrives in ONE read (the hypothesis excludes every
                                      cut; the harness shows that cuts inside the first header and
                                      inside chunk data are harmless too and that exactly the cuts
                                      strictly inside a later header break the reader)
    valid_functional, valid_prefix_free   a stream determines its payload; no valid stream is a
                                      proper prefix of another (so every truncation is invalid)
-/
import Vgw.Lemmas.ChunkSigned
import Vgw.Lemmas.ChunkUnsigned
import Vgw.Lemmas.ChunkSpec
import Vgw.Lemmas.Fuel
namespace Vgw.Props.C12
open Vgw Vgw.Spec.Chunked Vgw.Model
open Vgw.Lemmas.ChunkSigned (signedCfg SignedHyps variantOf)
open Vgw.Lemmas.ChunkUnsigned (ucfg UnsignedHyps)

/-- `ds` (fragment, delivered-together-with-io.EOF) is a way the underlying reader can hand the
stream `s` to the signed reader: non-empty fragments in order, io.EOF at most with the last one
(`ChunkSigned.run` supplies the bare `(0, io.EOF)` after the last delivery). -/
def Partition (s : Bytes) (ds : List (Bytes × Bool)) : Prop :=
  (ds.map (·.1)).flatten = s ∧ (∀ d ∈ ds, d.1 ≠ []) ∧ (∀ d ∈ ds.dropLast, d.2 = false)

instance (s : Bytes) (ds : List (Bytes × Bool)) : Decidable (Partition s ds) := by
  unfold Partition; infer_instance

/-- 2^48: above it `make([]byte, n)` panics -/
def allocBound : Nat := 281474976710656

/-- **C12, completeness, full strength**: a valid stream decodes to exactly its payload, then EOF,
for every partition into read fragments and every schedule of (non-empty) destination buffers. -/
def decode_complete_full : Prop :=
  (∀ (P : Params) (tr : Bool) (L : Nat), SignedHyps P tr L → ∀ s p, Valid P (variantOf tr) s p →
      ∀ ds, Partition s ds → ChunkSigned.run (signedCfg P tr L) P.seedSig ds = (p, .eof)) ∧
  (∀ (P : Params), UnsignedHyps P → ∀ s p, Valid P .unsignedTrailer s p → p.length ≤ allocBound →
      ∀ (frags : List Bytes) (caps : Nat → Nat), frags.flatten = s → (∀ i, 0 < caps i) →
        ChunkUnsigned.run (ucfg P) frags caps = (p, .eof))

/-- **C12, soundness, full strength**: whatever the reader hands out followed by a clean EOF, for
some fragmentation, is the payload of a valid stream — in particular nothing truncated, malformed
or wrongly signed is ever accepted. -/
def decode_sound_full : Prop :=
  (∀ (P : Params) (tr : Bool) (L : Nat), SignedHyps P tr L → ∀ s p ds, Partition s ds →
      ChunkSigned.run (signedCfg P tr L) P.seedSig ds = (p, .eof) → Valid P (variantOf tr) s p) ∧
  (∀ (P : Params), UnsignedHyps P → ∀ s p (frags : List Bytes) (caps : Nat → Nat), frags.flatten = s →
      (∀ i, 0 < caps i) → ChunkUnsigned.run (ucfg P) frags caps = (p, .eof) → Valid P .unsignedTrailer s p)

/-! ### unsigned reader: complete for every fragmentation and buffer schedule -/

theorem payload_chunk_le (cs : List Chunk) : ∀ c ∈ cs, c.2.length ≤ (payloadOf cs).length := by
  induction cs with
  | nil => intro c hc; simp at hc
  | cons a cs ih =>
    intro c hc
    simp only [payloadOf, List.map_cons, List.flatten_cons, List.length_append] at ih ⊢
    simp at hc
    rcases hc with rfl | hc
    · omega
    · have := ih c hc; omega

theorem payload_le_render (P : Params) (cs : List Chunk) :
    ∀ (acc hz : Bytes), (payloadOf cs).length ≤ (renderUnsigned P acc cs hz).length := by
  induction cs with
  | nil => intro acc hz; simp [payloadOf]
  | cons c cs ih =>
    intro acc hz
    have := ih (acc ++ c.2) hz
    simp [payloadOf, renderUnsigned] at this ⊢
    omega

/-- **The unsigned reader is fragmentation-independent on valid streams.**  (`bufio.Reader` is the
trusted parameter that makes the fragmentation of the underlying reads invisible; what varies is
the schedule of destination buffer sizes.) -/
theorem decode_complete_unsigned (P : Params) (H : UnsignedHyps P) (s p : Bytes)
    (hv : Valid P .unsignedTrailer s p) (hlen : p.length ≤ allocBound)
    (frags : List Bytes) (caps : Nat → Nat) (hfr : frags.flatten = s) (hcaps : ∀ i, 0 < caps i) :
    ChunkUnsigned.run (ucfg P) frags caps = (p, .eof) := by
  obtain ⟨cs, hz, ⟨hwf, hhz, _⟩, rfl, rfl⟩ := hv
  have hok : Lemmas.ChunkUnsigned.ChunksOK cs := by
    intro c hc
    refine ⟨(hwf c hc).1, (hwf c hc).2, ?_⟩
    have := payload_chunk_le cs c hc
    unfold allocBound at hlen; omega
  unfold ChunkUnsigned.run
  rw [hfr]
  have := Lemmas.ChunkUnsigned.runFrom_spec P H hz hhz caps hcaps (payloadOf cs).length cs
    (ChunkUnsigned.init (render P .unsignedTrailer cs hz)) [] []
    (2 * (render P .unsignedTrailer cs hz).length + 2) 0 (by simp [ChunkUnsigned.init])
    (by have := payload_le_render P cs [] hz; simp only [render]; omega) hok ⟨rfl, rfl⟩
  simpa [ChunkUnsigned.init] using this

/-! ### signed reader: complete when the stream arrives in one read -/

/-- **The signed reader decodes every valid stream that arrives in a single read** (signed and
signed-with-trailer encodings; io.EOF together with the bytes or on its own afterwards). -/
theorem decode_complete_partial_signed (P : Params) (tr : Bool) (L : Nat) (H : SignedHyps P tr L) (s p : Bytes)
    (hv : Valid P (variantOf tr) s p) (eof : Bool) :
    ChunkSigned.run (signedCfg P tr L) P.seedSig [(s, eof)] = (p, .eof) := by
  obtain ⟨cs, hz, hwf, rfl, rfl⟩ := hv
  rw [Lemmas.ChunkSigned.render_variantOf]
  obtain ⟨st', h⟩ := Lemmas.ChunkSigned.read_whole P tr L H cs hz hwf eof
    (renderSigned P tr P.seedSig [] cs hz).length
  simp [ChunkSigned.run, ChunkSigned.runFrom, h]

/-- a single fragment is a partition -/
theorem partition_single (s : Bytes) (hs : s ≠ []) (eof : Bool) : Partition s [(s, eof)] := by
  refine ⟨by simp, ?_, ?_⟩
  · intro d hd; simp at hd; subst hd; exact hs
  · intro d hd; simp at hd

/-! ### spec level: a stream determines its payload; valid streams are prefix-free -/

/-- **A stream is a valid encoding of at most one payload** (all three encodings, all hash families). -/
theorem valid_functional (P : Params) (v : Variant) (s p p' : Bytes)
    (h : Valid P v s p) (h' : Valid P v s p') : p = p' := by
  obtain ⟨cs, hz, hwf, rfl, rfl⟩ := h
  obtain ⟨cs', hz', hwf', e, rfl⟩ := h'
  exact (Lemmas.ChunkSpec.render_inj P v cs cs' hz hz' [] [] hwf hwf' (by simpa using e)).1

/-- **No valid stream is a proper prefix of a valid stream**: every proper truncation of a valid
stream is invalid, and so is a valid stream with anything appended. -/
theorem valid_prefix_free (P : Params) (v : Variant) (s t p p' : Bytes)
    (h : Valid P v s p) (h' : Valid P v (s ++ t) p') : t = [] := by
  obtain ⟨cs, hz, hwf, rfl, rfl⟩ := h
  obtain ⟨cs', hz', hwf', e, rfl⟩ := h'
  exact (Lemmas.ChunkSpec.render_inj P v cs cs' hz hz' t [] hwf hwf' (by simpa using e)).2

/-- every proper prefix of a valid stream is invalid (for every payload) -/
theorem truncation_invalid (P : Params) (v : Variant) (s p : Bytes) (h : Valid P v s p) (k : Nat)
    (hk : k < s.length) (p' : Bytes) : ¬ Valid P v (s.take k) p' := by
  intro h'
  have e : s = s.take k ++ s.drop k := (List.take_append_drop k s).symm
  have := valid_prefix_free P v (s.take k) (s.drop k) p' p h' (e ▸ h)
  have hl := congrArg List.length this
  simp at hl; omega

/-- **The canonical encoder yields valid streams**: `Valid` is inhabited for every payload, every
chunking and every encoding (non-vacuity of everything above). -/
theorem encode_valid (P : Params) (v : Variant) (p : Bytes) (sizes : List Nat) (hp : p.length ≤ chunkBound) :
    Valid P v (encode P v p sizes) p :=
  Lemmas.ChunkSpec.encode_valid P v p sizes hp

/-- **The executable oracle agrees with `Valid` on valid streams**: it admits exactly "the payload,
then a clean EOF" — no rejection, no crash, no other payload. -/
theorem oracle_on_valid (P : Params) (v : Variant) (s p : Bytes) (hcr : (13 : UInt8) ∉ P.trailerName)
    (hv : Valid P v s p) (o : Obs) : admitsB P v s o = true ↔ o = .ok p := by
  have hc := Lemmas.ChunkSpec.check_complete P v s p hcr hv
  unfold admitsB classify
  simp only [hc]
  cases o with
  | ok q => simp only [beq_iff_eq, Obs.ok.injEq]; exact eq_comm
  | rejected => simp
  | crashed => simp

/-- the oracle never admits a crash, whatever the stream -/
theorem oracle_never_admits_crash (P : Params) (v : Variant) (s : Bytes) : admitsB P v s .crashed = false := by
  unfold admitsB
  split <;> simp_all

/-! ### totality of the models (no_panic-style)

The models are total functions; the only artefact is the fuel of the recursive parts, and it is
never exhausted.  `Status.panic` on the other hand IS reachable (negative / oversized chunk sizes,
`Open/C12.lean`): it is the Go runtime panic, not a modelling artefact. -/

/-- `Read` of the signed reader never runs out of fuel -/
theorem signed_fuel_suffices (cfg : ChunkSigned.Cfg) (st : ChunkSigned.State) (frag : Bytes) (isEOF : Bool) (cap : Nat) :
    (ChunkSigned.read cfg st frag isEOF cap).2.status ≠ .fuel := by
  unfold ChunkSigned.read
  simp only
  split
  · split
    · simp
    · have := Lemmas.Fuel.parseAndRemove_no_fuel cfg (frag.length + 1)
        (if st.chunkDataLeft > 0 then ChunkSigned.hashWrite cfg { st with isEOF := isEOF } (frag.take st.chunkDataLeft.toNat)
         else { st with isEOF := isEOF }) (frag.drop st.chunkDataLeft.toNat) (by simp; omega)
      generalize ChunkSigned.parseAndRemove cfg _ _ _ = r at this ⊢
      obtain ⟨st', out, s⟩ := r
      cases s <;> simp_all
  · split <;> simp

/-- `Read` of the unsigned reader never runs out of fuel -/
theorem unsigned_fuel_suffices (cfg : ChunkUnsigned.Cfg) (st : ChunkUnsigned.State) (cap : Nat) :
    (ChunkUnsigned.read cfg st cap).2.status ≠ .fuel := by
  unfold ChunkUnsigned.read
  split
  · simp only []
    split
    · simp
    · exact Lemmas.Fuel.loop_no_fuel cfg cap _ st _ (by omega)
  · exact Lemmas.Fuel.loop_no_fuel cfg cap _ st _ (by omega)

/-- on valid streams the readers do not panic (corollaries of completeness) -/
theorem unsigned_no_panic_on_valid (P : Params) (H : UnsignedHyps P) (s p : Bytes)
    (hv : Valid P .unsignedTrailer s p) (hlen : p.length ≤ allocBound)
    (frags : List Bytes) (caps : Nat → Nat) (hfr : frags.flatten = s) (hcaps : ∀ i, 0 < caps i) :
    (ChunkUnsigned.run (ucfg P) frags caps).2 ≠ .panic := by
  rw [decode_complete_unsigned P H s p hv hlen frags caps hfr hcaps]; simp

/-! ### non-vacuity: the hypotheses of every theorem are met by non-trivial inputs

A toy hash family keeps the examples kernel-checkable (`decide`); the harness runs the same shapes
with real SHA-256 / HMAC / CRC32 against the real readers. -/

/-- a toy hash family: every digest is empty, every MAC is the byte 01 (so every signature is "01") -/
def toy : Params :=
  { sha := fun _ => [], hmac := fun _ _ => [1], csum := fun _ => [], key := [], amzDate := [], scope := [],
    seedSig := [], trailerName := [120] }

theorem toy_signed_hyps : SignedHyps toy false 0 :=
  ⟨by intro _ _; simp [toy], by simp [toy], by decide, by intro _; rfl⟩

theorem toy_unsigned_hyps : UnsignedHyps toy :=
  ⟨⟨120, [], rfl, by decide⟩, by decide, by decide⟩

/-- `1;chunk-signature=01 CRLF A CRLF 0;chunk-signature=01 CRLF CRLF` — payload "A" in one chunk -/
def s1 : Bytes :=
  [49] ++ sigIntro ++ [48, 49] ++ [13, 10] ++ [65] ++ [13, 10] ++ [48] ++ sigIntro ++ [48, 49] ++ [13, 10] ++ [13, 10]

theorem s1_valid : Valid toy (variantOf false) s1 [65] :=
  ⟨[([49], [65])], [48], ⟨by decide, by decide, by decide⟩, by decide, by decide⟩

theorem toy_signed_hyps_tr : SignedHyps toy true 0 :=
  ⟨by intro _ _; simp [toy], by simp [toy], by decide, by intro _; rfl⟩

/-- payload "ABC" in chunks of 2 + 1, unsigned with trailer -/
def u3 : Bytes := encode toy .unsignedTrailer [65, 66, 67] [2]

example : ChunkUnsigned.run (ucfg toy) [u3.take 5, u3.drop 5] (fun i => i % 3 + 1) = ([65, 66, 67], .eof) :=
  decode_complete_unsigned toy toy_unsigned_hyps u3 [65, 66, 67] (encode_valid toy _ _ _ (by decide)) (by decide)
    _ _ (by simp) (by intro i; omega)

-- (test) the same run evaluated by the kernel
example : ChunkUnsigned.run (ucfg toy) [u3.take 5, u3.drop 5] (fun i => i % 3 + 1) = ([65, 66, 67], .eof) := by decide

example : ChunkSigned.run (signedCfg toy false 0) toy.seedSig [(s1, true)] = ([65], .eof) :=
  decode_complete_partial_signed toy false 0 toy_signed_hyps s1 [65] s1_valid true

/-- payload "ABC" in chunks of 1 + 2, signed with trailer -/
def t3 : Bytes := encode toy .signedTrailer [65, 66, 67] [1]

example : ChunkSigned.run (signedCfg toy true 0) toy.seedSig [(t3, false)] = ([65, 66, 67], .eof) :=
  decode_complete_partial_signed toy true 0 toy_signed_hyps_tr t3 [65, 66, 67]
    (encode_valid toy .signedTrailer _ _ (by decide)) false

example : Partition s1 [(s1, true)] := partition_single s1 (by decide) true
example (p : Bytes) (h : Valid toy (variantOf false) s1 p) : p = [65] := valid_functional toy _ s1 p [65] h s1_valid
example (p : Bytes) : ¬ Valid toy (variantOf false) (s1 ++ [13, 10]) p :=
  fun h => absurd (valid_prefix_free toy _ s1 [13, 10] [65] p s1_valid h) (by decide)
example (p : Bytes) : ¬ Valid toy (variantOf false) (s1.take 30) p :=
  truncation_invalid toy _ s1 [65] s1_valid 30 (by decide) p
example : admitsB toy (variantOf false) s1 (.ok [65]) = true :=
  (oracle_on_valid toy _ s1 [65] (by decide) s1_valid _).2 rfl
example : admitsB toy (variantOf false) s1 .rejected = false := by
  have := oracle_on_valid toy _ s1 [65] (by decide) s1_valid .rejected
  cases h : admitsB toy (variantOf false) s1 .rejected with
  | false => rfl
  | true => exact absurd (this.1 h) (by decide)
example : (ChunkSigned.read (signedCfg toy false 0) (ChunkSigned.init []) s1 false 64).2.status ≠ .fuel :=
  signed_fuel_suffices _ _ _ _ _
example : (ChunkUnsigned.read (ucfg toy) (ChunkUnsigned.init u3) 2).2.status ≠ .fuel :=
  unsigned_fuel_suffices _ _ _

end Vgw.Props.C12
