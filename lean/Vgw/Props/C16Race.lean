/-
  C16, race clause: "no object whose upload was acknowledged is ever lost to a concurrent DeleteBucket:
  either the delete fails as not empty or the upload fails as no such bucket" — for EVERY interleaving of
  the filesystem steps of one or more DeleteBucket, any number of uploads and CreateBucket requests on the
  same bucket (Model.BucketRace, repaired variant = the code as it is now).
  The pinned code (recursive removal, MkdirAll re-creating the bucket) violated it: `pinned_loses_upload`.
-/
import Vgw.Model.BucketRace
namespace Vgw.Props.C16Race
open Vgw Vgw.Model.BucketRace

/-- every acknowledged upload is a published entry of an existing bucket -/
def Inv (s : Sys) : Prop := ∀ k ∈ acked s.reqs, s.fs.exists_ = true ∧ k ∈ s.fs.entries

theorem mem_setNth (rs : List Req) (i : Nat) (r' x : Req) (h : x ∈ setNth rs i r') : x ∈ rs ∨ x = r' := by
  induction rs generalizing i with
  | nil => simp [setNth] at h
  | cons y rs ih =>
    cases i with
    | zero =>
      simp only [setNth, List.mem_cons] at h ⊢
      rcases h with h | h
      · right; exact h
      · left; right; exact h
    | succ n =>
      simp only [setNth, List.mem_cons] at h ⊢
      rcases h with h | h
      · left; left; exact h
      · rcases ih n h with h' | h'
        · left; right; exact h'
        · right; exact h'

theorem ackKey_some (r : Req) (k : Nat) (h : ackKey r = some k) : ∃ pc, r = .upload k pc .ok := by
  unfold ackKey at h
  split at h
  · rename_i k' pc
    simp only [Option.some.injEq] at h
    exact ⟨pc, by rw [h]⟩
  · simp at h

theorem mem_acked_setNth (rs : List Req) (i : Nat) (r' : Req) (k : Nat)
    (h : k ∈ acked (setNth rs i r')) : k ∈ acked rs ∨ ∃ pc, r' = .upload k pc .ok := by
  simp only [acked, List.mem_filterMap] at h ⊢
  obtain ⟨x, hx, hk⟩ := h
  rcases mem_setNth rs i r' x hx with h' | h'
  · left; exact ⟨x, h', hk⟩
  · right; subst h'; exact ackKey_some x k hk

/-- one step of one request keeps every acknowledged upload published -/
theorem stepReq_keeps (fs : FS) (r : Req) (k : Nat) (hE : fs.exists_ = true) (hk : k ∈ fs.entries) :
    (stepReq .repaired fs r).1.exists_ = true ∧ k ∈ (stepReq .repaired fs r).1.entries := by
  unfold stepReq
  repeat' split
  all_goals first
    | (simp_all; done)
    | (simp_all [List.mem_filter]; omega)

/-- an upload that becomes acknowledged by this step is published -/
theorem stepReq_new_ack (fs : FS) (r : Req) (k pc : Nat)
    (h : (stepReq .repaired fs r).2 = .upload k pc .ok) (hne : r ≠ .upload k pc .ok) :
    (stepReq .repaired fs r).1.exists_ = true ∧ k ∈ (stepReq .repaired fs r).1.entries := by
  unfold stepReq at h ⊢
  repeat' split at h
  all_goals first
    | (simp_all; done)
    | (simp_all [List.mem_filter]; done)

theorem step_inv (s : Sys) (i : Nat) (h : Inv s) : Inv (step .repaired s i) := by
  unfold step
  split
  · exact h
  · rename_i r hr
    intro k hk
    simp only at hk ⊢
    rcases mem_acked_setNth s.reqs i _ k hk with hk' | ⟨pc, hpc⟩
    · exact stepReq_keeps s.fs r k (h k hk').1 (h k hk').2
    · by_cases hsame : r = .upload k pc .ok
      · -- the request had already been acknowledged: it was in `acked` before
        have hmem : k ∈ acked s.reqs := by
          have : r ∈ s.reqs := List.mem_of_getElem? hr
          simp only [acked, List.mem_filterMap]
          exact ⟨r, this, by simp [hsame, ackKey]⟩
        exact stepReq_keeps s.fs r k (h k hmem).1 (h k hmem).2
      · exact stepReq_new_ack s.fs r k pc hpc hsame

/-- **C16, race clause.** From any state in which the acknowledged uploads are published (in particular
from any state where all requests are still to begin), under every schedule of the steps of any number
of DeleteBucket, upload and CreateBucket requests, every acknowledged upload is a published entry of the
existing bucket: none is ever lost. -/
theorem no_acknowledged_upload_lost (s : Sys) (sched : List Nat) (h : Inv s) :
    Inv (run .repaired s sched) := by
  unfold run
  induction sched generalizing s with
  | nil => exact h
  | cons i rest ih => exact ih (step .repaired s i) (step_inv s i h)

/-- the wording of the property: when the bucket is gone in the end (the delete won), no upload was
acknowledged — every upload failed -/
theorem bucket_gone_implies_no_ack (s : Sys) (sched : List Nat) (h : Inv s)
    (hgone : (run .repaired s sched).fs.exists_ = false) : acked (run .repaired s sched).reqs = [] := by
  have hinv := no_acknowledged_upload_lost s sched h
  cases hk : acked (run .repaired s sched).reqs with
  | nil => rfl
  | cons k _ =>
    have := hinv k (by simp [hk])
    simp [hgone] at this

/-- non-vacuity: a fresh system (one delete, two uploads, one create, all about to start) meets the hypothesis -/
example : Inv { fs := {}, reqs := [.delete 0 .running, .upload 7 0 .running, .upload 8 0 .running, .create 0 .running] } := by
  intro k hk; simp [acked, ackKey] at hk

/-- the race as the pinned code ran it: DeleteBucket checks emptiness, the upload runs to its acknowledgement,
DeleteBucket removes the tree — the acknowledged object is gone. (regression example about the OLD code) -/
theorem pinned_loses_upload :
    let s : Sys := { fs := {}, reqs := [.delete 0 .running, .upload 7 0 .running] }
    let e := run .pinned s [0, 1, 1, 1, 0, 0]
    acked e.reqs = [7] ∧ deleted e.reqs = true ∧ e.fs.entries = [] := by decide

/-- the same schedule on the repaired code: the delete is refused as not empty -/
example :
    let s : Sys := { fs := {}, reqs := [.delete 0 .running, .upload 7 0 .running] }
    let e := run .repaired s [0, 1, 1, 1, 0, 0]
    acked e.reqs = [7] ∧ deleted e.reqs = false ∧ e.fs.entries = [7] := by decide

/-- the other window as the pinned code ran it: the upload passes its bucket check, DeleteBucket completes,
the upload re-creates the bucket directory and is acknowledged (regression example about the OLD code) -/
theorem pinned_resurrects_bucket :
    let s : Sys := { fs := {}, reqs := [.delete 0 .running, .upload 7 0 .running] }
    let e := run .pinned s [1, 0, 0, 0, 1, 1]
    acked e.reqs = [7] ∧ deleted e.reqs = true := by decide

example :
    let s : Sys := { fs := {}, reqs := [.delete 0 .running, .upload 7 0 .running] }
    let e := run .repaired s [1, 0, 0, 0, 1, 1]
    acked e.reqs = [] ∧ deleted e.reqs = true := by decide

end Vgw.Props.C16Race
