/-
  C05 in a bucket with versioning Enabled — theorems about `Model.ConcVer` (any number of overlapping
  writes of one key, every interleaving of their atomic steps: `sched` is an arbitrary list of request
  indices; requests served by one gateway process or by several on the same storage have the same
  steps, the posix backend keeps no in-process state).

  What holds for the code as it is (`Variant.byFd`, no lock; unconditional):
    archive_complete, archive_one_file_per_id, version_ids_distinct, acked_was_published,
    read_by_version_single_write — whatever a GET by version id returns is the complete object
    (data, size, attribute names and values) of exactly one write, the one that was published under
    that id.
  What does NOT hold for the code as it is: that every acknowledged version id can still be read
  (`NoLostVersion`). The negation is proved with a concrete interleaving in `Open/C05.lean`
  (`acked_version_lost`), it is the recorded finding `conc:versioned:version-not-retrievable:*`, and the
  PARTIAL theorem `no_lost_version_serialized_partial` shows what is missing: with the writers of a key
  serialised between opening the current file and publishing (`runL` — a per-key lock the code does
  not have), every version ever published stays retrievable.
-/
import Vgw.Lemmas.ConcVer
namespace Vgw.Props.C05Ver
open Vgw.Model.ConcVer

/-- **Every file in the versioning directory is the complete copy of one published object**: id,
data, size, attribute names and values all come from the one file `createObjVersion` opened. -/
theorem archive_complete (c : Option Obj) (ws sched : List Nat) :
    ∀ v ∈ (run .byFd (init c ws) sched).arch,
      v.complete = true ∧ v.src ∈ (run .byFd (init c ws) sched).hist :=
  (Inv_run (Inv_init c ws) sched).arch

/-- two overlapping writes that archive the same object leave ONE file of that id. -/
theorem archive_one_file_per_id (c : Option Obj) (ws sched : List Nat) :
    ((run .byFd (init c ws) sched).arch.map (·.src.vid)).Nodup :=
  (Inv_run (Inv_init c ws) sched).one

/-- every publication carries a version id no other publication carries. -/
theorem version_ids_distinct (c : Option Obj) (ws sched : List Nat) :
    ((run .byFd (init c ws) sched).hist.map (·.vid)).Nodup :=
  (Inv_run (Inv_init c ws) sched).nodup

/-- a version id is acknowledged only after the object was published under it. -/
theorem acked_was_published (c : Option Obj) (ws sched : List Nat) (v : Nat)
    (hv : v ∈ acked (run .byFd (init c ws) sched)) :
    ∃ o ∈ (run .byFd (init c ws) sched).hist, o.vid = v := by
  unfold acked at hv
  rcases List.mem_filterMap.mp hv with ⟨r, hr, hm⟩
  split at hm
  · rename_i v' hpc
    cases hm
    exact ⟨⟨r.w, v⟩, (Inv_run (Inv_init c ws) sched).pub r hr v (Or.inr hpc), rfl⟩
  · cases hm

/-- **GET by version id returns the complete object of exactly one write — the one published under
that id** (never a mixture, a prefix or a padded copy), in every interleaving. -/
theorem read_by_version_single_write (c : Option Obj) (ws sched : List Nat) (v : Nat) (e : Ver)
    (h : readVer (run .byFd (init c ws) sched) v = some e) :
    e.complete = true ∧ e.src.vid = v ∧ e.src ∈ (run .byFd (init c ws) sched).hist := by
  have inv := Inv_run (Inv_init c ws) sched
  unfold readVer at h
  split at h
  · rename_i o ho
    split at h
    · rename_i hv
      cases h
      exact ⟨by simp [Ver.complete], hv, inv.cur o ho⟩
    · have := find_vid h
      exact ⟨(inv.arch e this.1).1, this.2, (inv.arch e this.1).2⟩
  · have := find_vid h
    exact ⟨(inv.arch e this.1).1, this.2, (inv.arch e this.1).2⟩

/-- the full statement for version ids: every acknowledged version id can be read back.
    FALSE for the code as it is (`Open/C05.acked_version_lost`). -/
def NoLostVersion (s : Sys) : Prop := ∀ v ∈ acked s, ∃ e, readVer s v = some e

theorem eq_of_src_vid_eq {l : List Ver} (hnd : (l.map (·.src.vid)).Nodup) {a b : Ver} (ha : a ∈ l) (hb : b ∈ l)
    (h : a.src.vid = b.src.vid) : a = b := by
  induction l with
  | nil => cases ha
  | cons x t ih =>
    simp only [List.map_cons, List.nodup_cons] at hnd
    rcases List.mem_cons.mp ha with rfl | ha' <;> rcases List.mem_cons.mp hb with rfl | hb'
    · rfl
    · exact absurd (List.mem_map.mpr ⟨b, hb', h.symm⟩) hnd.1
    · exact absurd (List.mem_map.mpr ⟨a, ha', h⟩) hnd.1
    · exact ih hnd.2 ha' hb'

/-- PARTIAL (writers serialised between openCur and publish — `runL`; the code has no such lock):
**every object ever published stays retrievable, byte-exact, under its version id.** -/
theorem no_lost_version_serialized_partial (c : Option Obj) (ws sched : List Nat) :
    ∀ o ∈ (runL .byFd (init c ws) sched).hist,
      readVer (runL .byFd (init c ws) sched) o.vid = some ⟨o, o⟩ := by
  intro o ho
  have inv := InvL_runL (InvL_init c ws) sched
  generalize runL .byFd (init c ws) sched = s at *
  have harch : (⟨o, o⟩ : Ver) ∈ s.arch →
      s.arch.find? (fun e => e.src.vid == o.vid) = some ⟨o, o⟩ := by
    intro hin
    cases hf : s.arch.find? (fun e => e.src.vid == o.vid) with
    | none =>
      have := List.find?_eq_none.mp hf ⟨o, o⟩ hin
      simp at this
    | some e =>
      have he := find_vid hf
      rw [eq_of_src_vid_eq inv.base.one he.1 hin he.2]
  unfold readVer
  rcases inv.retr o ho with hc | hin
  · simp [hc]
  · split
    · rename_i c' hc'
      split
      · rename_i hv
        have : c' = o := eq_of_vid_eq inv.base.nodup (inv.base.cur c' hc') ho hv
        rw [this]
      · exact harch hin
    · exact harch hin

/-- … in particular every acknowledged version id (serialised writers). -/
theorem no_lost_acked_serialized_partial (c : Option Obj) (ws sched : List Nat) :
    NoLostVersion (runL .byFd (init c ws) sched) := by
  intro v hv
  have inv := InvL_runL (InvL_init c ws) sched
  unfold acked at hv
  rcases List.mem_filterMap.mp hv with ⟨r, hr, hm⟩
  split at hm
  · rename_i v' hpc
    cases hm
    have ho := inv.base.pub r hr v (Or.inr hpc)
    exact ⟨_, no_lost_version_serialized_partial c ws sched ⟨r.w, v⟩ ho⟩
  · cases hm

/-! ## non-vacuity: concrete runs meet the hypotheses and exercise the conclusions -/

/-- three writers, fully overlapping: all three archive object 0 — one complete file of id 1. -/
example : (run .byFd (init (some ⟨0, 1⟩) [1, 2, 3]) [0, 1, 0, 2, 1, 0, 1, 2, 2, 0, 1, 2]).arch
    = [⟨⟨0, 1⟩, ⟨0, 1⟩⟩] := by decide

/-- writer 0 finishes, then writers 1 and 2 overlap: two complete files, one per id. -/
example : (run .byFd (init (some ⟨0, 1⟩) [1, 2, 3]) [0, 0, 0, 0, 1, 2, 1, 2, 1, 2, 1, 2]).arch
    = [⟨⟨1, 2⟩, ⟨1, 2⟩⟩, ⟨⟨0, 1⟩, ⟨0, 1⟩⟩] := by decide

/-- serialised: writer 1 waits until writer 0 has published; all three objects readable. -/
example : let s := runL .byFd (init (some ⟨0, 1⟩) [1, 2]) [0, 1, 0, 1, 0, 1, 1, 1, 0, 1]
    acked s = [2, 3] ∧ readVer s 1 = some ⟨⟨0, 1⟩, ⟨0, 1⟩⟩ ∧ readVer s 2 = some ⟨⟨1, 2⟩, ⟨1, 2⟩⟩ ∧
      readVer s 3 = some ⟨⟨2, 3⟩, ⟨2, 3⟩⟩ := by decide

end Vgw.Props.C05Ver
