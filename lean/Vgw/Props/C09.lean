/-
  C09 — Version history is preserved exactly in versioned buckets.
  Theorems over the version-stack operations of `Model.Gw` (`putVersions`, `deleteOne`,
  `findVer`, the rendering of ListObjectVersions). A stack is the list of versions of one key,
  newest first; the null version has the empty id. Version ids are inputs chosen by the
  environment; freshness of a new id is a hypothesis where it matters.
-/
import Vgw.Lemmas.GwMaps
namespace Vgw.Props.C09
open Vgw Vgw.Model.Gw

/-- **Every write in an enabled bucket pushes a new version and keeps every existing one.** -/
theorem put_pushes (cfg : Cfg) (b : Bucket) (hc : cfg.versioning = true) (he : b.versioning = .enabled)
    (vs : List Ver) (p : PutSpec) (nv : Bytes) :
    putVersions cfg b vs p nv = (mkVer p nv :: vs, nv) := by
  simp [putVersions, hc, he]

/-- the same for a completed multipart upload -/
theorem complete_pushes (cfg : Cfg) (b : Bucket) (hc : cfg.versioning = true) (he : b.versioning = .enabled)
    (vs : List Ver) (p : PutSpec) (nv : Bytes) :
    completeVersions cfg b vs p nv = (mkVer p nv :: vs, nv) := by
  simp [completeVersions, hc, he]

def enabledCfg (cfg : Cfg) (b : Bucket) (k : Bytes) : Prop :=
  cfg.versioning = true ∧ b.versioning = .enabled ∧ isDirKey k = false

/-- **A delete without a version id only adds a delete marker** (the key then reads as
missing): every existing version stays, the new top is a marker with the new id. -/
theorem delete_adds_marker (cfg : Cfg) (b : Bucket) (k nv : Bytes) (h : enabledCfg cfg b k)
    (hne : b.versions k ≠ []) :
    (deleteOne cfg b k [] nv).1.versions k = markerOf (b.versions k) nv :: b.versions k ∧
    currentVer ((deleteOne cfg b k [] nv).1.versions k) = none := by
  obtain ⟨hc, he, hd⟩ := h
  have hemp : (b.versions k).isEmpty = false := by
    cases hv : b.versions k with
    | nil => exact absurd hv hne
    | cons _ _ => rfl
  unfold deleteOne
  simp only [hc, he, hd, hemp, Bool.true_and, Bool.not_false, List.isEmpty_nil, if_true, if_false,
    show (VStatus.enabled != VStatus.unset) = true from rfl, show (VStatus.enabled == VStatus.enabled) = true from rfl,
    Bool.false_eq_true]
  rw [versions_setVersions b k _ (by simp)]
  refine ⟨rfl, ?_⟩
  have hm : (markerOf (b.versions k) nv).marker = true := by unfold markerOf; split <;> rfl
  simp [currentVer, hm]

/-- **A delete by version id removes exactly the (first) version with that id** and leaves all
others, in order; with distinct ids (`erase_eq_filter`) that is: exactly the versions with another
id remain. -/
theorem delete_by_id (cfg : Cfg) (b : Bucket) (k vid nv : Bytes) (h : enabledCfg cfg b k)
    (hv : vid ≠ []) (v : Ver) (hf : findVer (b.versions k) vid = some v) :
    (deleteOne cfg b k vid nv).1 = b.setVersions k ((b.versions k).eraseP (·.vid == v.vid)) ∧
    (deleteOne cfg b k vid nv).2.code = "" := by
  obtain ⟨hc, he, hd⟩ := h
  have hvid : vid.isEmpty = false := by cases vid <;> simp_all
  unfold deleteOne
  simp only [hc, he, hd, hvid, hf, Bool.true_and, Bool.not_false, if_true, if_false,
    show (VStatus.enabled != VStatus.unset) = true from rfl]
  exact ⟨rfl, rfl⟩

/-- deleting an id that does not exist changes nothing -/
theorem delete_unknown_id (cfg : Cfg) (b : Bucket) (k vid nv : Bytes) (h : enabledCfg cfg b k)
    (hv : vid ≠ []) (hf : findVer (b.versions k) vid = none) :
    (deleteOne cfg b k vid nv).1 = b ∧ (deleteOne cfg b k vid nv).2.code ≠ "" := by
  obtain ⟨hc, he, hd⟩ := h
  have hvid : vid.isEmpty = false := by cases vid <;> simp_all
  unfold deleteOne
  simp only [hc, he, hd, hvid, hf, Bool.true_and, Bool.not_false, if_true, if_false,
    show (VStatus.enabled != VStatus.unset) = true from rfl]
  exact ⟨rfl, errR_code_ne _⟩

/-- ids of a stack are pairwise distinct -/
def Distinct (vs : List Ver) : Prop := (vs.map (·.vid)).Nodup

/-- **A fresh id keeps ids distinct** (a new version or marker never collides with an old one). -/
theorem distinct_push (vs : List Ver) (v : Ver) (h : Distinct vs) (hf : ∀ u ∈ vs, u.vid ≠ v.vid) :
    Distinct (v :: vs) := by
  unfold Distinct at *
  simp only [List.map_cons, List.nodup_cons, List.mem_map, not_exists, not_and]
  exact ⟨fun u hu e => hf u hu e, h⟩

theorem distinct_filter (vs : List Ver) (p : Ver → Bool) (h : Distinct vs) : Distinct (vs.filter p) := by
  unfold Distinct at *
  exact (List.Nodup.sublist ((List.filter_sublist).map _) h)

/-- with distinct ids, removing the first version with an id removes every version with it -/
theorem erase_eq_filter (vs : List Ver) (h : Distinct vs) (x : Bytes) :
    vs.eraseP (fun u => u.vid == x) = vs.filter (fun u => u.vid != x) := by
  induction vs with
  | nil => rfl
  | cons v rest ih =>
    have hd : Distinct rest := by
      unfold Distinct at h ⊢; simp only [List.map_cons, List.nodup_cons] at h; exact h.2
    by_cases hv : v.vid = x
    · have hb : (v.vid == x) = true := by simpa using hv
      have hn : (v.vid != x) = false := by simp [hv]
      simp only [List.eraseP_cons, hb, if_true, List.filter_cons, hn, Bool.false_eq_true, if_false, cond_true]
      symm
      apply List.filter_eq_self.mpr
      intro u hu
      unfold Distinct at h
      simp only [List.map_cons, List.nodup_cons, List.mem_map, not_exists, not_and] at h
      have := h.1 u hu
      have hne : u.vid ≠ x := fun e => this (by rw [e, hv])
      simpa using hne
    · have hb : (v.vid == x) = false := by simpa using hv
      have hn : (v.vid != x) = true := by simpa using hv
      simp only [List.eraseP_cons, hb, Bool.false_eq_true, if_false, List.filter_cons, hn, if_true, ih hd, cond_false]

/-- **Every version stays retrievable under its own id**: with distinct ids, looking a version of
the stack up by its (wire) id finds exactly that version. -/
theorem findVer_mem (vs : List Ver) (h : Distinct vs) (v : Ver) (hm : v ∈ vs) (hnn : v.vid ≠ nullVid) :
    findVer vs (wireVid v.vid) = some v := by
  have hreq : reqVid (wireVid v.vid) = v.vid := by
    unfold reqVid wireVid
    by_cases he : v.vid.isEmpty
    · have : v.vid = [] := by cases hv : v.vid <;> simp_all
      simp [he, this]
    · simp only [he, Bool.false_eq_true, if_false]
      have : (v.vid == nullVid) = false := by simpa using hnn
      simp [this]
  unfold findVer
  rw [hreq]
  induction vs with
  | nil => cases hm
  | cons u us ih =>
    simp only [List.find?_cons]
    cases hm with
    | head => simp
    | tail _ hm' =>
      have hne : (u.vid == v.vid) = false := by
        unfold Distinct at h
        simp only [List.map_cons, List.nodup_cons, List.mem_map, not_exists, not_and] at h
        have := h.1 v hm'
        have hne' : u.vid ≠ v.vid := fun e => this e.symm
        simpa using hne' 
      rw [hne]
      exact ih (by unfold Distinct at h ⊢; simp only [List.map_cons, List.nodup_cons] at h; exact h.2) hm'

/-- **Deleting the newest version or marker re-exposes the previous one.** -/
theorem delete_top_reexposes (v u : Ver) (rest : List Ver) (hd : Distinct (v :: u :: rest)) :
    ((v :: u :: rest).filter (·.vid != v.vid)) = u :: rest.filter (·.vid != v.vid) ∧
    ((v :: u :: rest).filter (·.vid != v.vid)).head? = some u := by
  unfold Distinct at hd
  simp only [List.map_cons, List.nodup_cons, List.mem_cons, List.mem_map, not_or, not_exists, not_and] at hd
  have huv : (u.vid != v.vid) = true := by
    have : u.vid ≠ v.vid := fun e => hd.1.1 e.symm
    simpa using this
  simp [List.filter_cons, huv]

/-- in the ListObjectVersions rendering exactly the first entry of a key is flagged latest -/
theorem exactly_one_latest (vs : List Ver) :
    (vs.zipIdx.map fun (p : Ver × Nat) => decide (p.2 = 0)) = (List.range vs.length).map (fun i => decide (i = 0)) := by
  rw [List.zipIdx_eq_zip_range']
  induction vs with
  | nil => rfl
  | cons v vs _ =>
    apply List.ext_getElem <;> simp

/-! non-vacuity -/
def v1 : Ver := { vid := [49], data := [⟨1, 0, 3⟩] }
def v2 : Ver := { vid := [50], data := [⟨2, 0, 4⟩] }
example : Distinct [v2, v1] := by unfold Distinct; decide
example : findVer [v2, v1] (wireVid v1.vid) = some v1 := by decide
example : ([v2, v1].filter (·.vid != v2.vid)).head? = some v1 := by decide

end Vgw.Props.C09
