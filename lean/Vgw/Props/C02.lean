/-
  C02 — No request takes effect without a valid signature.
  In `Model.Gw` the outcome of SigV4 verification is the `Caller` of a request: `.unauthentic`
  stands for every credential defect (missing/malformed authorization, wrong secret, altered
  signature/header/query/payload, date outside the window, wrong scope, expired or modified
  presigned URL), `.acct a` for a valid proof by account `a`. The theorems state what the model
  does with such a request; that the real middleware chain behaves like this for every endpoint
  shape, defect and body kind is what the correspondence (shape probe + programs) checks.
-/
import Vgw.Model.Gw.Step
namespace Vgw.Props.C02
open Vgw Vgw.Model.Gw

/-- **A request without a valid proof changes nothing, is answered with an error and carries no
data** — for every operation, state and configuration. -/
theorem unauthentic_no_effect (cfg : Cfg) (s : State) (op : Op) (now : Int) :
    step cfg s ⟨.unauthentic, op, now⟩ = (s, errR "AccessDenied") := rfl

/-- **An access key that names no account is refused in the same way**, whatever signature comes
with it (a deleted account, a never-created one). -/
theorem unknown_account_no_effect (cfg : Cfg) (s : State) (a : Bytes) (op : Op) (now : Int)
    (h : ∀ acc ∈ s.accounts, acc.access ≠ a) :
    step cfg s ⟨.acct a, op, now⟩ = (s, errR "AccessDenied") := by
  have : s.accounts.find? (·.access == a) = none := by
    rw [List.find?_eq_none]
    intro acc hacc; simpa using h acc hacc
  simp [step, resolve, this]

/-- the refusal discloses nothing and triggers no notification -/
theorem refusal_is_empty (code : String) : (errR code).fields = [] ∧ (errR code).events = [] ∧ (errR code).code ≠ "" :=
  ⟨rfl, rfl, errR_code_ne code⟩

/-- Only a resolved caller ever reaches a handler: if a request changes the state or is answered
with success, then its caller resolved to an existing identity. -/
theorem effect_implies_authentic (cfg : Cfg) (s : State) (r : Req)
    (h : (step cfg s r).1 ≠ s ∨ (step cfg s r).2.code = "") : (resolve cfg s r.caller).isSome = true := by
  unfold step at h
  cases hres : resolve cfg s r.caller with
  | some w => rfl
  | none =>
    simp only [hres] at h
    rcases h with h | h
    · exact absurd rfl h
    · exact absurd h (errR_code_ne _)

/-! non-vacuity: the same write succeeds for root and is refused without a proof -/
def demoState : State := { buckets := [{ name := [98], acl := ⟨[114], []⟩ }] }
example : (step { rootAccess := [114] } demoState ⟨.root, .putBucketTagging [98] [], 0⟩).1 ≠ demoState := by decide
example : (step { rootAccess := [114] } demoState ⟨.unauthentic, .putBucketTagging [98] [], 0⟩).1 = demoState := by decide

end Vgw.Props.C02
