/-
  C01 — Stored objects read back byte-identical with their metadata.
  Theorems over `Model.Gw` (the gateway model has no per-process component at all: its state is
  the storage, so nothing in it can depend on which process serves a request or on restarts —
  that part of C01 is a property of the model's *shape*; the correspondence runs spread requests
  over several real processes).
-/
import Vgw.Lemmas.GwMaps
namespace Vgw.Props.C01
open Vgw Vgw.Model.Gw

/-- what GET shows of an object stored from `p` -/
def stored (p : PutSpec) (vid : Bytes) : Ver := mkVer p vid

/-- **GET after an acknowledged PUT returns exactly what was put** (unversioned configuration):
body segments, size, ETag (the digest the environment computed over the body), content type,
user metadata, content headers, tag count. For every state, key, body and metadata set, every
writer and every reader that is allowed to read. -/
theorem get_after_put (cfg : Cfg) (hv : cfg.versioning = false) (s : State) (w w' : Who) (now : Int)
    (b k : Bytes) (p : PutSpec) (nv : Bytes)
    (hput : (handle cfg s w now (.putObject b k p nv)).2.code = "") :
    ∃ bk', findBucket (handle cfg s w now (.putObject b k p nv)).1 b = some bk' ∧
      (verifyAccess cfg bk' w' .read actGetObject k = none →
        (handle cfg (handle cfg s w now (.putObject b k p nv)).1 w' now (.getObject b k [])).2
          = okR (verFields [] (stored p []) true)) := by
  simp only [handle] at hput ⊢
  unfold withBucket at hput ⊢
  cases hb : findBucket s b with
  | none => simp only [hb] at hput; exact absurd hput (errR_code_ne _)
  | some bk =>
    simp only [hb] at hput ⊢
    have hname := findBucket_name s b bk hb
    unfold guarded at hput ⊢
    cases hchk : verifyAccess cfg bk w .write actPutObject k with
    | some e => simp only [hchk] at hput; exact absurd hput (errR_code_ne _)
    | none =>
      simp only [hchk] at hput ⊢
      cases hlk : lockCheck bk w now true k [] with
      | some e => simp only [hlk] at hput; exact absurd hput (errR_code_ne _)
      | none =>
      simp only [hlk, putVersions, hv, Bool.false_and, Bool.false_eq_true, if_false]
      have hfind : findBucket (setBucket s (bk.setVersions k [mkVer p []])) b = some (bk.setVersions k [mkVer p []]) := by
        have := findBucket_setBucket s (bk.setVersions k [mkVer p []])
        have hn : (bk.setVersions k [mkVer p []]).name = b := by
          unfold Bucket.setVersions; simp [hname]
        rw [hn] at this; exact this
      refine ⟨_, hfind, ?_⟩
      intro hread
      simp only [hfind, List.isEmpty_nil, if_true, hread]
      rw [versions_setVersions bk k [mkVer p []] (by simp)]
      simp [currentVer, mkVer, stored]

/-- **HEAD agrees with GET** on size, ETag, content type, metadata and headers: both are rendered
from the same stored version. -/
theorem head_agrees_with_get (v : Ver) :
    (verFields [] v false).filter (fun f => f.1 ≠ "tagcount") =
    ((verFields [] v true).filter (fun f => f.1 ≠ "body" ∧ f.1 ≠ "tagcount")) := by
  simp [verFields]

/-- **A PUT to one key leaves every other bucket exactly as it was.** -/
theorem put_other_bucket_untouched (cfg : Cfg) (s : State) (w : Who) (now : Int) (b k : Bytes) (p : PutSpec)
    (nv : Bytes) (n : Bytes) (hn : (b == n) = false) :
    findBucket (handle cfg s w now (.putObject b k p nv)).1 n = findBucket s n := by
  simp only [handle]
  unfold withBucket
  cases hb : findBucket s b with
  | none => rfl
  | some bk =>
    simp only
    unfold guarded
    cases verifyAccess cfg bk w .write actPutObject k with
    | some e => rfl
    | none =>
      simp only
      cases lockCheck bk w now true k [] with
      | some e => rfl
      | none =>
      simp only
      apply findBucket_setBucket_ne
      have hname := findBucket_name s b bk hb
      unfold Bucket.setVersions
      split <;> simp [hname, hn]

/-! non-vacuity -/
def bkt : Bucket := { name := [98], acl := ⟨[114], []⟩ }
def st : State := { buckets := [bkt] }
def spec : PutSpec := { data := [⟨7, 0, 5⟩], etag := [34, 97, 34], umeta := [([99], [100])] }
def root : Who := ⟨[114], true, .admin⟩
example : (handle {} st root 0 (.putObject [98] [107] spec [])).2.code = "" := by decide
example : (handle {} (handle {} st root 0 (.putObject [98] [107] spec [])).1 root 0 (.getObject [98] [107] [])).2
    = okR (verFields [] (stored spec []) true) := by decide

end Vgw.Props.C01
