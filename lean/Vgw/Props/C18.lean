/-
  C18 — the S3-proxy backend is transparent: theorems about the translation layer
  (backend/s3proxy/s3.go) over the table REGENERATED from the source (`Vgw.Gen.ProxyFacts`).

  * `proxy_resp_fields_preserved` — FULL: for every proxied method and EVERY backend answer, every
    property-relevant SDK output field is copied into the gateway's result (`droppedResp = []`).
  * `proxy_fields_preserved_partial` — for every proxied method and EVERY request, every
    property-relevant request field reaches the SDK input unchanged — except exactly the fields
    listed in `lossyReq` (`lossyReq_exact`: the list is the precise failure set of the table, so
    a new drop — or a repaired one — breaks the build). The full statement for requests is
    refuted in Open/C18.lean (Expires, lock headers, ListBuckets owner).
  * `zero_limits_reach_backend` — max-keys / max-uploads / max-parts / mp-object-size 0 arrive as 0.
  * `error_mapping_preserves`, `errors_leave_through_handleError`
  * `no_panic_on_error` — FULL: no method touches the SDK output of a failed call;
    `listings_never_panic`; `no_panic_partial` (full statement refuted in Open/C18.lean)
  * `acl_tag_roundtrip`, `acl_put_keeps_other_tags`, `acl_fits_partial`
  * `acl_tag_isolated`, `bucket_tagging_transparent` (the client tagging methods of `*S3Proxy`)

  `decide` is used over the WHOLE finite generated table (a proof), never over samples.
-/
import Vgw.Lemmas.Proxy
import Vgw.Lemmas.ProxyAcl
namespace Vgw.Props.C18
open Vgw Vgw.Gen.ProxyFacts Vgw.Model.Proxy Vgw.Lemmas.Proxy Vgw.Lemmas.ProxyAcl

def look (n : String) : Option Method := methods.find? (fun m => m.name == n)

def reqOk (e : String × String × String) : Bool :=
  match look e.1 with
  | none => false
  | some M => preservedReq M e.2.1 e.2.2

def respOk (e : String × String × String) : Bool :=
  match look e.1 with
  | none => false
  | some M => copiedResp M e.2.1 e.2.2

/-- "request field `e.2.1` of method `e.1` reaches SDK input field `e.2.2`", for every request -/
def ReqPreserved (e : String × String × String) : Prop :=
  ∃ M c, M ∈ methods ∧ M.name = e.1 ∧ primaryCall M = some c ∧
    ∀ (derive : String → Fields → Val) (r : Fields), wire (sdkInput M c derive r e.2.2) = wire (r e.2.1)

/-- "SDK output field `e.2.1` of method `e.1` reaches result field `e.2.2`", for every answer -/
def RespCopied (e : String × String × String) : Prop :=
  ∃ M, M ∈ methods ∧ M.name = e.1 ∧
    ∀ (derive : String → Fields → Val) (o : Fields), gwResult M derive o e.2.2 = o e.2.1

theorem look_some {n : String} {M : Method} (h : look n = some M) : M ∈ methods ∧ M.name = n := by
  unfold look at h
  exact ⟨List.mem_of_find?_eq_some h, by simpa using List.find?_some h⟩

theorem reqOk_sound (e : String × String × String) (h : reqOk e = true) : ReqPreserved e := by
  unfold reqOk at h
  cases hl : look e.1 with
  | none => rw [hl] at h; exact Bool.noConfusion h
  | some M =>
    have h' : preservedReq M e.2.1 e.2.2 = true := by rw [hl] at h; exact h
    obtain ⟨hm, hn⟩ := look_some hl
    cases hc : primaryCall M with
    | none => unfold preservedReq at h'; rw [hc] at h'; exact Bool.noConfusion h'
    | some c => exact ⟨M, c, hm, hn, hc, fun derive r => preservedReq_sound M c _ _ hc h' derive r⟩

theorem respOk_sound (e : String × String × String) (h : respOk e = true) : RespCopied e := by
  unfold respOk at h
  cases hl : look e.1 with
  | none => rw [hl] at h; exact Bool.noConfusion h
  | some M =>
    have h' : copiedResp M e.2.1 e.2.2 = true := by rw [hl] at h; exact h
    obtain ⟨hm, hn⟩ := look_some hl
    exact ⟨M, hm, hn, fun derive o => copiedResp_sound M _ _ h' derive o⟩

/-! ## the specification tables against the regenerated tables -/

/-- every relevant request field of a struct-typed request is one the front end really fills in -/
theorem relevantReq_exposed :
    relevantReq.all (fun e =>
      match look e.1, frontendSets.find? (fun p => p.1 == e.1) with
      | some M, some p => M.reqKind != "struct" || p.2.contains e.2.1
      | _, _ => false) = true := by decide

/-- … and a field of the method's request type / one of its parameters -/
theorem relevantReq_wellformed :
    relevantReq.all (fun e => match look e.1 with
      | some M => M.reqFields.contains e.2.1
      | none => false) = true := by decide

/-- the relevant request fields the table does NOT certify are exactly `lossyReq` -/
theorem lossyReq_exact :
    (relevantReq.filter (fun e => !reqOk e)).map (fun e => (e.1, e.2.1)) = lossyReq := by decide

/-- the relevant output fields the table does NOT certify are exactly `droppedResp` -/
theorem droppedResp_exact :
    (relevantResp.filter (fun e => !respOk e)).map (fun e => (e.1, e.2.1)) = droppedResp := by decide

/-! ## proxy_fields_preserved -/

/-- FULL statement (its request half is false: Open/C18.lean). -/
def proxy_fields_preserved_full : Prop :=
  (∀ e ∈ relevantReq, ReqPreserved e) ∧ (∀ e ∈ relevantResp, RespCopied e)

theorem req_table_certified : relevantReq.all (fun e => lossyReq.contains (e.1, e.2.1) || reqOk e) = true := by decide
theorem resp_table_certified : relevantResp.all (fun e => droppedResp.contains (e.1, e.2.1) || respOk e) = true := by decide

/-- For every proxied method, every request r and every backend answer o: the SDK input agrees
with r on every relevant request field, and the gateway's result agrees with o on every relevant
output field — outside the listed drops. -/
theorem proxy_fields_preserved_partial :
    (∀ e ∈ relevantReq, (e.1, e.2.1) ∉ lossyReq → ReqPreserved e) ∧
    (∀ e ∈ relevantResp, (e.1, e.2.1) ∉ droppedResp → RespCopied e) := by
  constructor
  · intro e he hl
    have h := List.all_eq_true.mp req_table_certified e he
    rcases Bool.or_eq_true _ _ ▸ h with h | h
    · exact absurd (List.contains_iff_mem.mp h) hl
    · exact reqOk_sound e h
  · intro e he hl
    have h := List.all_eq_true.mp resp_table_certified e he
    rcases Bool.or_eq_true _ _ ▸ h with h | h
    · exact absurd (List.contains_iff_mem.mp h) hl
    · exact respOk_sound e h

/-- FULL for answers: every property-relevant field of every backend answer reaches the result. -/
theorem proxy_resp_fields_preserved : ∀ e ∈ relevantResp, RespCopied e := by
  intro e he
  exact proxy_fields_preserved_partial.2 e he (by simp [droppedResp])

/-- The limits a client may set to 0 arrive at the backend as 0 (they were turned into "absent",
i.e. the endpoint's default of 1000, until the normalisations were removed from s3.go). -/
theorem zero_limits_reach_backend :
    [("ListObjects", "MaxKeys", "MaxKeys"), ("ListObjectsV2", "MaxKeys", "MaxKeys"),
     ("ListObjectVersions", "MaxKeys", "MaxKeys"), ("ListParts", "MaxParts", "MaxParts"),
     ("GetObjectAttributes", "MaxParts", "MaxParts"), ("ListMultipartUploads", "MaxUploads", "MaxUploads"),
     ("CompleteMultipartUpload", "MpuObjectSize", "MpuObjectSize")].all
      (fun e => relevantReq.contains e && reqOk e) = true := by decide

/-- The lift asked for: "for every request r, the backend request `translate r` agrees with r on
the relevant fields". `translate` = `sdkInput` of the method's primary call. -/
theorem backend_request_agrees (m : String) (f sdk : String) (he : (m, f, sdk) ∈ relevantReq)
    (hl : (m, f) ∉ lossyReq) :
    ∃ M c, M ∈ methods ∧ M.name = m ∧ primaryCall M = some c ∧
      ∀ derive r, wire (sdkInput M c derive r sdk) = wire (r f) :=
  proxy_fields_preserved_partial.1 (m, f, sdk) he hl

/-- `0 → absent` is harmless where the front end cannot produce 0, a transcribed faithful
computation is not a loss, an empty body replaced by an empty body neither: the remaining
`lossyReq` entries are the findings. -/
def lossyReqFindings : List (String × String) :=
  lossyReq.filter (fun e => !zeroUnreachable.contains e && !faithfulDerivation.contains e && !emptyBodyRewrite.contains e)

/-- the argued rewrites are exactly what the regenerated table reports as conditional writes -/
theorem emptyBodyRewrite_exact :
    (methods.flatMap (fun m => m.condWrites.map (fun f => (m.name, f)))).all (fun e => emptyBodyRewrite.contains e) = true ∧
    emptyBodyRewrite.all (fun e => match look e.1 with
      | some M => M.condWrites.contains e.2
      | none => false) = true := by decide

theorem lossyReqFindings_eq : lossyReqFindings = [
    ("ListBuckets", "Owner"), ("ListBuckets", "IsAdmin"),
    ("PutObject", "Expires"), ("PutObject", "ObjectLockMode"), ("PutObject", "ObjectLockRetainUntilDate"),
    ("PutObject", "ObjectLockLegalHoldStatus"), ("CopyObject", "Expires"),
    ("CreateMultipartUpload", "Expires")] := by decide

/-- `PutObjectTagging`: the TagSet handed to the SDK holds exactly the entries of the tag map. -/
theorem tagset_faithful (tags : List (String × String)) : toTagSet tags = tags := by
  unfold toTagSet; induction tags with
  | nil => rfl
  | cons kv rest ih => simp [ih]

/-! ## errors -/

/-- the transcription of `handleError` was made from the shape the extractor sees today -/
theorem handleError_shape : Vgw.Gen.ProxyFacts.handleError = handleErrorShape := by decide

/-- Code, message and HTTP status of an API error answered by the backend survive `handleError`. -/
theorem error_mapping_preserves (code msg : String) (status : Nat) :
    Model.Proxy.handleError (.api code msg (some status)) = .api code msg status := rfl

/-- …and nothing else is turned into an API error -/
theorem error_mapping_only_api (e : SdkErr) (code desc : String) (st : Nat)
    (h : Model.Proxy.handleError e = .api code desc st) :
    ∃ o, e = .api code desc o ∧ (o = some st ∨ (o = none ∧ st = 0)) := by
  cases e with
  | api c m o => cases o <;> simp_all [Model.Proxy.handleError]
  | other t => simp [Model.Proxy.handleError] at h

/-- Every method that calls the SDK returns the SDK's errors through `handleError`; the only other
error results are the two `fmt.Errorf` of ListParts (unparsable part-number markers), the errors
the three bucket tagging methods pass on from their helper `reservedTags` / from
`PutBucketTagging` (which went through `handleError` there), and those of the two admin-only calls
that do not go through the SDK. -/
theorem errors_leave_through_handleError :
    methods.all (fun m => m.errWrapped) = true ∧
    (methods.filter (fun m => !m.errOther.isEmpty)).map (fun m => m.name) =
      ["ListParts", "GetBucketTagging", "PutBucketTagging", "DeleteBucketTagging", "ChangeBucketOwner",
       "ListBucketsAndOwners"] := by decide

/-- `GetBucketAcl` alone answers success for some backend errors (no tag set = empty ACL). -/
theorem swallowed_errors :
    (methods.filter (fun m => !m.swallows.isEmpty)).map (fun m => (m.name, m.swallows)) =
      [("GetBucketAcl", ["NoSuchTagSet", "NotImplemented"])] := by decide

/-! ## panics -/

/-- FULL statement (false: Open/C18.lean): no backend answer makes a proxied method panic. -/
def no_panic_full : Prop :=
  ∀ M ∈ methods, ∀ (failed : Bool) (present : String → Bool), panics M failed present = false

/-- A method does not panic when the call succeeded and the answer carries every member the
method dereferences, or when the call failed and the method tests the error first. -/
theorem no_panic_partial (M : Method) (failed : Bool) (present : String → Bool)
    (h1 : failed = true → M.useBeforeErrCheck = false)
    (h2 : failed = false → ∀ p ∈ M.derefUnguarded, present p = true) :
    panics M failed present = false := by
  unfold panics
  cases failed with
  | true => simp [h1 rfl]
  | false =>
    simp only [Bool.false_and, Bool.not_false, Bool.true_and, Bool.false_or]
    rw [List.any_eq_false]
    intro p hp
    simp [h2 rfl p hp]

/-- no method reads the output before testing the error (GetBucketVersioning and
GetObjectAttributes did, until s3.go tested the error first) -/
theorem use_before_error_check :
    (methods.filter (fun m => m.useBeforeErrCheck)).map (fun m => m.name) = [] := by decide

/-- FULL: a failed SDK call never makes a proxied method panic, whatever the method. -/
theorem no_panic_on_error (M : Method) (hM : M ∈ methods) (present : String → Bool) :
    panics M true present = false := by
  have h : methods.all (fun m => !m.useBeforeErrCheck) = true := by decide
  have := List.all_eq_true.mp h M hM
  unfold panics
  simp only [Bool.not_eq_true'] at this
  simp [this]

/-- ListMultipartUploads and ListParts translate every answer, however sparse, without a panic
(their dereferences of optional members were unguarded until they went through nil-tolerant
getters). -/
theorem listings_never_panic (failed : Bool) (present : String → Bool) :
    panics mListMultipartUploads failed present = false ∧ panics mListParts failed present = false := by
  have h1 : mListMultipartUploads.derefUnguarded = [] ∧ mListMultipartUploads.useBeforeErrCheck = false := by decide
  have h2 : mListParts.derefUnguarded = [] ∧ mListParts.useBeforeErrCheck = false := by decide
  unfold panics
  simp [h1.1, h1.2, h2.1, h2.2]

/-! ## the ACL in a reserved bucket tag -/

/-- What `PutBucketAcl` stored is what `GetBucketAcl` reads, for every ACL byte string (the JSON
document the front end marshals: `json.Marshal`/`Unmarshal` of `auth.ACL` are outside the proxy;
ASSUMPTION stated for the end-to-end reading: the front end's `ParseACL ∘ json.Marshal` is the
identity on ACLs — the harness checks it on every ACL it generates). -/
theorem acl_tag_roundtrip (store : Option Tags) (acl : Bytes) (store' : Tags)
    (h : putBucketAcl store acl = .ok store') : getBucketAcl (some store') = .ok acl := by
  unfold putBucketAcl at h
  cases store with
  | none => simp at h
  | some tags =>
    simp only [endpointPutTags] at h
    split at h
    · simp at h
    · have e : store' = setTag aclKeyB (b64Encode acl) tags := by
        injection h with h; exact h.symm
      subst e
      unfold getBucketAcl
      simp only [find_setTag, b64_roundtrip]

/-- the same for the tag written by `CreateBucket` -/
theorem acl_tag_roundtrip_create (acl : Bytes) (store' : Tags)
    (h : createBucketTags acl = .ok store') : getBucketAcl (some store') = .ok acl := by
  unfold createBucketTags endpointPutTags at h
  split at h
  · simp at h
  · have e : store' = [(aclKeyB, b64Encode acl)] := by injection h with h; exact h.symm
    subst e
    unfold getBucketAcl
    simp [b64_roundtrip]

/-- `PutBucketAcl` leaves every other tag of the bucket as it was. -/
theorem acl_put_keeps_other_tags (tags : Tags) (acl : Bytes) (store' : Tags)
    (h : putBucketAcl (some tags) acl = .ok store') :
    store'.filter (fun kv => kv.1 != aclKeyB) = tags.filter (fun kv => kv.1 != aclKeyB) := by
  simp only [putBucketAcl, endpointPutTags] at h
  split at h
  · simp at h
  · have e : store' = setTag aclKeyB (b64Encode acl) tags := by injection h with h; exact h.symm
    subst e
    exact filter_setTag _ _ _

/-- FULL statement (false: Open/C18.lean): every ACL can be stored. -/
def acl_fits_full : Prop := ∀ acl : Bytes, ∃ t, createBucketTags acl = .ok t

/-- An ACL document of at most 192 bytes fits the 256-character tag value. -/
theorem acl_fits_partial (acl : Bytes) (h : acl.length ≤ 192) : ∃ t, createBucketTags acl = .ok t := by
  unfold createBucketTags endpointPutTags
  have hl : (b64Encode acl).length ≤ maxTagValue := by
    rw [b64Encode_length]; unfold maxTagValue; omega
  refine ⟨[(aclKeyB, b64Encode acl)], ?_⟩
  have : ([(aclKeyB, b64Encode acl)] : Tags).any (fun kv => decide (kv.2.length > maxTagValue)) = false := by
    simp; omega
  simp [this]

/-- …and a longer one never does: the bucket is created at the endpoint and then refused its ACL -/
theorem acl_too_long_refused (acl : Bytes) (h : acl.length > 192) : createBucketTags acl = .error .invalidTag := by
  unfold createBucketTags endpointPutTags
  have hl : (b64Encode acl).length > maxTagValue := by
    rw [b64Encode_length]; unfold maxTagValue; omega
  have : ([(aclKeyB, b64Encode acl)] : Tags).any (fun kv => decide (kv.2.length > maxTagValue)) = true := by
    simp; omega
  simp [this]

/-! ## client tagging calls and the reserved tag -/

/-- the three client-facing tagging calls are defined by `*S3Proxy`; what it leaves to
`BackendUnsupported` is exactly this list (regenerated) -/
theorem client_tagging_implemented :
    unimplemented = ["PutBucketCors", "GetBucketCors", "DeleteBucketCors", "GetObjectAcl", "PutObjectAcl",
      "RestoreObject", "SelectObjectContent"] := by decide

/-- the reserved tag is only named by the three ACL-carrying methods and by PutBucketTagging, which
refuses it as a client key (GetBucketTagging / DeleteBucketTagging see it through the helper
`reservedTags`) (regenerated) -/
theorem aclKey_users : (methods.filter (fun m => m.usesAclKey)).map (fun m => m.name) =
    ["CreateBucket", "GetBucketAcl", "PutBucketAcl", "PutBucketTagging"] := by decide

/-- Client Put/Get/DeleteBucketTagging through the proxy — as the code is (`impl = true`) and as it
was before the methods existed (`impl = false`: NotImplemented) — neither change nor reveal the
reserved tag: the stored ACL reads back the same, and the answer does not mention it. -/
theorem acl_tag_isolated (impl : Bool) (store : Option Tags) (op : TagOp) :
    getBucketAcl (clientTagging impl store op).2 = getBucketAcl store ∧
    (∀ vis, (clientTagging impl store op).1 = .ok (some vis) → ∀ kv ∈ vis, kv.1 ≠ aclKeyB) := by
  cases impl with
  | false => simp [clientTagging]
  | true =>
    cases op with
    | get =>
      cases store with
      | none => simp [clientTagging]
      | some t =>
        simp only [clientTagging, Bool.not_true, Bool.false_eq_true, if_false]
        split
        · simp
        · refine ⟨rfl, ?_⟩
          intro vis h kv hkv
          have : vis = t.filter (fun kv => kv.1 != aclKeyB) := by
            injection h with h; injection h with h; exact h.symm
          subst this
          have := (List.mem_filter.mp hkv).2
          simpa using this
    | put new =>
      simp only [clientTagging, Bool.not_true, Bool.false_eq_true, if_false]
      split
      · simp
      · rename_i hnew
        have hnew' : ∀ kv ∈ new, (kv.1 == aclKeyB) = false := by
          intro kv hkv
          cases hb : (kv.1 == aclKeyB) with
          | false => rfl
          | true => exact absurd (List.any_eq_true.mpr ⟨kv, hkv, hb⟩) hnew
        cases hput : endpointPutTags (new ++ List.filter (fun kv => kv.1 == aclKeyB) (store.getD [])) with
        | error e => simp
        | ok t =>
          refine ⟨?_, by simp⟩
          have et : t = new ++ List.filter (fun kv => kv.1 == aclKeyB) (store.getD []) := by
            unfold endpointPutTags at hput
            split at hput
            · simp at hput
            · injection hput with h; exact h.symm
          subst et
          simp only
          unfold getBucketAcl
          have hf : (new ++ List.filter (fun kv => kv.1 == aclKeyB) (store.getD [])).find? (fun kv => kv.1 == aclKeyB)
              = (store.getD []).find? (fun kv => kv.1 == aclKeyB) := by
            rw [List.find?_append]
            have : new.find? (fun kv => kv.1 == aclKeyB) = none := by
              rw [List.find?_eq_none]; intro kv hkv; simp [hnew' kv hkv]
            rw [this]
            simp only [Option.none_or]
            generalize store.getD [] = l
            induction l with
            | nil => rfl
            | cons x xs ih =>
              by_cases hx : (x.1 == aclKeyB) = true
              · simp [hx]
              · have hx' : (x.1 == aclKeyB) = false := by simpa using hx
                simp [hx', ih]
          simp only [hf]
          cases store with
          | none => simp
          | some s => simp
    | delete =>
      cases store with
      | none => simp [clientTagging]
      | some t =>
        simp only [clientTagging, Bool.not_true, Bool.false_eq_true, if_false]
        refine ⟨?_, by simp⟩
        have hfind : ∀ l : Tags, (l.filter (fun kv => kv.1 == aclKeyB)).find? (fun kv => kv.1 == aclKeyB)
            = l.find? (fun kv => kv.1 == aclKeyB) := by
          intro l
          induction l with
          | nil => rfl
          | cons x xs ih =>
            by_cases hx : (x.1 == aclKeyB) = true
            · simp [hx]
            · have hx' : (x.1 == aclKeyB) = false := by simpa using hx
              simp [hx', ih]
        split
        · rename_i hemp
          unfold getBucketAcl
          have : t.find? (fun kv => kv.1 == aclKeyB) = none := by
            rw [← hfind t]
            have : List.filter (fun kv => kv.1 == aclKeyB) t = [] := by simpa using hemp
            rw [this]; rfl
          simp [this]
        · unfold getBucketAcl
          simp only [hfind t]

/-- What a client put is what it gets back (the other half of
transparency for bucket tags), whatever the reserved tag holds. -/
theorem fixed_tagging_transparent (store : Option Tags) (new : Tags) (store' : Option Tags)
    (hne : new ≠ []) (hk : ∀ kv ∈ new, kv.1 ≠ aclKeyB)
    (h : clientTagging true store (.put new) = (.ok none, store')) :
    (clientTagging true store' .get).1 = .ok (some new) := by
  simp only [clientTagging, Bool.not_true, Bool.false_eq_true, if_false] at h
  have hany : new.any (fun kv => kv.1 == aclKeyB) = false := by
    rw [List.any_eq_false]; intro kv hkv; simpa using hk kv hkv
  rw [hany] at h
  simp only [Bool.false_eq_true, if_false] at h
  cases hput : endpointPutTags (new ++ List.filter (fun kv => kv.1 == aclKeyB) (store.getD [])) with
  | error e => rw [hput] at h; simp at h
  | ok t =>
    rw [hput] at h
    have et : t = new ++ List.filter (fun kv => kv.1 == aclKeyB) (store.getD []) := by
      unfold endpointPutTags at hput
      split at hput
      · simp at hput
      · injection hput with h'; exact h'.symm
    have es : store' = some t := by
      injection h with _ h2; exact h2.symm
    subst es; subst et
    simp only [clientTagging, Bool.not_true, Bool.false_eq_true, if_false]
    have hfil : (new ++ List.filter (fun kv => kv.1 == aclKeyB) (store.getD [])).filter (fun kv => kv.1 != aclKeyB) = new := by
      rw [List.filter_append]
      have h1 : new.filter (fun kv => kv.1 != aclKeyB) = new := by
        rw [List.filter_eq_self]; intro kv hkv; simpa using hk kv hkv
      have h2 : (List.filter (fun kv => kv.1 == aclKeyB) (store.getD [])).filter (fun kv => kv.1 != aclKeyB) = [] := by
        rw [List.filter_filter, List.filter_eq_nil_iff]
        intro kv _; simp
      rw [h1, h2, List.append_nil]
    rw [hfil]
    have : new.isEmpty = false := by
      cases new with
      | nil => exact absurd rfl hne
      | cons _ _ => rfl
    simp [this]

/-- Bucket tagging through the proxy is transparent: a tag set the endpoint accepts directly
(every value within the limit) and that does not use the reserved key is accepted through the
proxy, and reads back as it was put — whatever ACL the gateway keeps in the same tag store
(`hstore`: what is stored was accepted by the endpoint before). -/
theorem bucket_tagging_transparent (store : Option Tags) (new : Tags) (hne : new ≠ [])
    (hdirect : endpointPutTags new = .ok new) (hk : ∀ kv ∈ new, kv.1 ≠ aclKeyB)
    (hstore : ∀ kv ∈ store.getD [], kv.2.length ≤ maxTagValue) :
    ∃ store', clientTagging true store (.put new) = (.ok none, store') ∧
      (clientTagging true store' .get).1 = .ok (some new) := by
  have hany : new.any (fun kv => kv.1 == aclKeyB) = false := by
    rw [List.any_eq_false]; intro kv hkv; simpa using hk kv hkv
  have hnew : new.any (fun kv => decide (kv.2.length > maxTagValue)) = false := by
    unfold endpointPutTags at hdirect
    split at hdirect
    · simp at hdirect
    · rename_i h; simpa using h
  have hall : (new ++ List.filter (fun kv => kv.1 == aclKeyB) (store.getD [])).any
      (fun kv => decide (kv.2.length > maxTagValue)) = false := by
    rw [List.any_append, hnew, Bool.false_or, List.any_eq_false]
    intro kv hkv
    have := hstore kv (List.mem_filter.mp hkv).1
    simp; omega
  have hput : endpointPutTags (new ++ List.filter (fun kv => kv.1 == aclKeyB) (store.getD [])) =
      .ok (new ++ List.filter (fun kv => kv.1 == aclKeyB) (store.getD [])) := by
    unfold endpointPutTags; simp [hall]
  have hres : clientTagging true store (.put new) =
      (.ok none, some (new ++ List.filter (fun kv => kv.1 == aclKeyB) (store.getD []))) := by
    simp only [clientTagging, Bool.not_true, Bool.false_eq_true, if_false, hany, hput]
  exact ⟨_, hres, fixed_tagging_transparent store new _ hne hk hres⟩

/-! ## non-vacuity (tests over samples, labelled as such) -/

-- the table is not empty and the criteria accept/reject concrete entries
example : methods.length = 45 := by decide
example : reqOk ("PutObject", "ContentLanguage", "ContentLanguage") = true := by decide
example : reqOk ("PutObject", "Expires", "Expires") = false := by decide
example : respOk ("ListObjectsV2", "NextContinuationToken", "NextContinuationToken") = true := by decide
example : respOk ("ListObjectsV2", "StartAfter", "StartAfter") = true := by decide
example : copiedResp mPutObject "ETag" "VersionID" = false := by decide
-- max-keys=0 arrives as 0
example : (primaryCall mListObjectsV2).map (fun c => sdkInput mListObjectsV2 c (fun _ _ => none)
    (fun f => if f = "MaxKeys" then some "0" else none) "MaxKeys") = some (some "0") := by decide
-- a request whose relevant field really has a value: the SDK input carries it
example : (primaryCall mPutObject).map (fun c => sdkInput mPutObject c (fun _ _ => none)
    (fun f => if f = "ContentLanguage" then some "en" else none) "ContentLanguage") = some (some "en") := by decide
example : gwResult mPutObject (fun _ _ => none) (fun f => if f = "ETag" then some "\"abc\"" else none) "ETag" = some "\"abc\"" := by decide
example : Model.Proxy.handleError (.api "NoSuchKey" "The specified key does not exist." (some 404)) = .api "NoSuchKey" "The specified key does not exist." 404 := rfl
-- ACL round trip on a concrete small ACL document `{"Owner":"a"}` (bytes written literally)
example : (match putBucketAcl (some [("team", [120])]) [123, 34, 79, 119, 110, 101, 114, 34, 58, 34, 97, 34, 125] with
    | .ok t => t == [("team", [120]), (aclKeyB, b64Encode [123, 34, 79, 119, 110, 101, 114, 34, 58, 34, 97, 34, 125])]
    | .error _ => false) = true := by decide
example : (clientTagging true (some [(aclKeyB, [65, 65, 65, 65])]) (.put [("team", [120])])).2 =
    some [("team", [120]), (aclKeyB, [65, 65, 65, 65])] := by decide
example : panics mHeadObject true (fun _ => false) = false := by decide

end Vgw.Props.C18
