/-
  C04 — Requests stay confined to the bucket and object they name.
  The posix backend builds every path as filepath.Join(bucket, key[, …]). These theorems are about
  the lexical model of Clean/Join (`Go.Path`) and of the two validators the gateway applies to
  client-supplied names before any handler runs (`utils.IsPathComponentValid`,
  `utils.IsObjectNameValid`): a name that passes is never resolved — the joined path is the
  bucket, a slash, and the key's own segments in order.
-/
import Vgw.Go.Path
namespace Vgw.Props.C04
open Vgw Vgw.Go.Path

def Normal (s : Bytes) : Prop := s ≠ [] ∧ s ≠ dot ∧ s ≠ dotdot

theorem cleanSegs_normal (r : Bool) : ∀ (segs out : List Bytes), (∀ s ∈ segs, Normal s) →
    cleanSegs r segs out = out.reverse ++ segs
  | [], out, _ => by simp [cleanSegs]
  | s :: rest, out, h => by
    have hs := h s (by simp)
    unfold cleanSegs
    rw [if_neg (by intro hc; rcases hc with hc | hc; exact hs.1 hc; exact hs.2.1 hc), if_neg hs.2.2]
    rw [cleanSegs_normal r rest (s :: out) (fun x hx => h x (by simp [hx]))]
    simp

theorem cleanSegs_normal_trailing (r : Bool) (ns out : List Bytes) (h : ∀ s ∈ ns, Normal s) :
    cleanSegs r (ns ++ [[]]) out = out.reverse ++ ns := by
  induction ns generalizing out with
  | nil => simp [cleanSegs]
  | cons s rest ih =>
    have hs := h s (by simp)
    simp only [List.cons_append]
    unfold cleanSegs
    rw [if_neg (by intro hc; rcases hc with hc | hc; exact hs.1 hc; exact hs.2.1 hc), if_neg hs.2.2]
    rw [ih (s :: out) (fun x hx => h x (by simp [hx]))]
    simp

/-- what `segsValid` accepts: normal segments, optionally followed by one empty segment (the
trailing slash of a directory object), and never starting with the empty segment -/
theorem segsValid_shape : ∀ (segs : List Bytes) (first : Bool), segsValid segs first = true →
    ∃ ns, (∀ s ∈ ns, Normal s) ∧ (segs = ns ∨ (segs = ns ++ [[]] ∧ (first = true → ns ≠ [])))
  | [], _, _ => ⟨[], by simp, Or.inl rfl⟩
  | s :: rest, first, h => by
    unfold segsValid at h
    split at h
    · cases h
    · rename_i hnd
      split at h
      · rename_i hs
        simp only [Bool.and_eq_true, List.isEmpty_iff, Bool.not_eq_true'] at h
        refine ⟨[], by simp, Or.inr ⟨by rw [hs, h.1]; rfl, ?_⟩⟩
        intro hf; rw [hf] at h; cases h.2
      · rename_i hne
        obtain ⟨ns, hn, hshape⟩ := segsValid_shape rest false h
        have hsn : Normal s := ⟨hne, fun e => hnd (Or.inl e), fun e => hnd (Or.inr e)⟩
        refine ⟨s :: ns, ?_, ?_⟩
        · intro x hx
          simp at hx
          rcases hx with rfl | hx
          · exact hsn
          · exact hn x hx
        · rcases hshape with rfl | ⟨rfl, _⟩
          · exact Or.inl rfl
          · exact Or.inr ⟨rfl, fun _ => by simp⟩

theorem joinWith_trailing : ∀ (ns : List Bytes), ns ≠ [] → joinWith 47 (ns ++ [[]]) = joinWith 47 ns ++ [47]
  | [], h => absurd rfl h
  | [n], _ => by simp [joinWith]
  | n :: m :: more, _ => by
    have ih := joinWith_trailing (m :: more) (by simp)
    simp only [List.cons_append] at ih ⊢
    simp only [joinWith] at ih ⊢
    rw [ih]; simp

theorem component_normal (b : Bytes) (h : isPathComponentValid b = true) : Normal b ∧ (47 : UInt8) ∉ b := by
  unfold isPathComponentValid at h
  simp only [Bool.and_eq_true, Bool.not_eq_true', bne_iff_ne, ne_eq, List.isEmpty_eq_false_iff] at h
  obtain ⟨⟨⟨⟨h1, h2⟩, h3⟩, h4⟩, _⟩ := h
  refine ⟨⟨h1, h2, h3⟩, ?_⟩
  intro hm
  have : b.contains 47 = true := by simpa using hm
  rw [this] at h4; cases h4

/-- **A validated name is never resolved.** For a bucket name that passes
`IsPathComponentValid` and a key that passes `IsObjectNameValid`, the path the backend builds,
`Clean(bucket + "/" + key)`, is exactly `bucket/` followed by the key's own segments joined by
slashes (the key itself, minus one trailing slash if it has one): no segment is dropped, merged
or climbed over, so the path stays lexically below the bucket it names. -/
theorem confined (b k : Bytes) (hb : isPathComponentValid b = true) (hk : isObjectNameValid k = true) :
    ∃ ns : List Bytes, ns ≠ [] ∧ (∀ s ∈ ns, Normal s) ∧
      clean (b ++ 47 :: k) = b ++ 47 :: joinWith 47 ns ∧
      (k = joinWith 47 ns ∨ k = joinWith 47 ns ++ [47]) := by
  obtain ⟨hbn, hb47⟩ := component_normal b hb
  unfold isObjectNameValid at hk
  simp only [Bool.and_eq_true, Bool.not_eq_true', List.isEmpty_eq_false_iff] at hk
  obtain ⟨⟨hkne, _⟩, hsv⟩ := hk
  obtain ⟨ns, hns, hshape⟩ := segsValid_shape (splitOn 47 k) true hsv
  have hjoin := join_splitOn 47 k
  have hsplit : splitOn 47 (b ++ 47 :: k) = b :: splitOn 47 k := splitOn_append 47 b k hb47
  -- the path is relative: it starts with the first byte of the bucket name
  obtain ⟨c, cs, hbc⟩ : ∃ c cs, b = c :: cs := by
    cases b with
    | nil => exact absurd rfl hbn.1
    | cons c cs => exact ⟨c, cs, rfl⟩
  have hc47 : (c == 47) = false := by
    have : (47 : UInt8) ≠ c := by
      intro e; apply hb47; rw [hbc, ← e]; simp
    cases hcc : (c == 47) with
    | false => rfl
    | true => exact absurd (by simpa using hcc : c = 47).symm this
  have hnsne : ns ≠ [] := by
    rcases hshape with h | ⟨_, h⟩
    · intro e; rw [e] at h; exact absurd h (splitOn_ne_nil 47 k)
    · exact h rfl
  have hall : ∀ s ∈ b :: ns, Normal s := by
    intro s hs; simp at hs
    rcases hs with rfl | hs
    · exact hbn
    · exact hns s hs
  have hsegs : cleanSegs false (splitOn 47 (b ++ 47 :: k)) [] = b :: ns := by
    rw [hsplit]
    rcases hshape with h | ⟨h, _⟩
    · rw [h]; simpa using cleanSegs_normal false (b :: ns) [] hall
    · rw [h]
      have := cleanSegs_normal_trailing false (b :: ns) [] hall
      simpa using this
  refine ⟨ns, hnsne, hns, ?_, ?_⟩
  · have hjn : joinWith 47 (b :: ns) = b ++ 47 :: joinWith 47 ns := by
      cases ns with
      | nil => exact absurd rfl hnsne
      | cons n rest => simp [joinWith]
    have hne : (joinWith 47 (b :: ns)).isEmpty = false := by
      rw [hjn, hbc]; rfl
    show clean (b ++ 47 :: k) = _
    rw [show b ++ 47 :: k = c :: (cs ++ 47 :: k) by rw [hbc]; rfl]
    unfold clean
    simp only [hc47, Bool.false_eq_true, if_false]
    rw [show c :: (cs ++ 47 :: k) = b ++ 47 :: k by rw [hbc]; rfl, hsegs, hne]
    simp only [Bool.false_eq_true, if_false]
    exact hjn
  · rcases hshape with h | ⟨h, _⟩
    · left; rw [← hjoin, h]
    · right
      rw [← hjoin, h]
      exact joinWith_trailing ns hnsne

/-- the version id and upload id become single path components the same way -/
theorem component_confined (dir id : Bytes) (hd : isPathComponentValid dir = true) (hi : isPathComponentValid id = true) :
    clean (dir ++ 47 :: id) = dir ++ 47 :: id := by
  have hname : isObjectNameValid id = true := by
    obtain ⟨hn, h47⟩ := component_normal id hi
    unfold isPathComponentValid at hi
    simp only [Bool.and_eq_true, Bool.not_eq_true', List.isEmpty_eq_false_iff] at hi
    unfold isObjectNameValid
    have hs : splitOn 47 id = [id] := splitOn_of_not_mem 47 id h47
    simp only [hs, Bool.and_eq_true, Bool.not_eq_true', List.isEmpty_eq_false_iff]
    refine ⟨⟨hn.1, hi.2⟩, ?_⟩
    unfold segsValid
    rw [if_neg (by intro hc; rcases hc with hc | hc; exact hn.2.1 hc; exact hn.2.2 hc), if_neg hn.1]
    rfl
  obtain ⟨ns, _, hns, hcl, hk⟩ := confined dir id hd hname
  obtain ⟨_, h47⟩ := component_normal id hi
  rcases hk with hk | hk
  · rw [hcl, ← hk]
  · exfalso; apply h47; rw [hk]; simp

/-! What the validators are there for — without them the join resolves (kernel-evaluated):
`b/../x` is `x`, `b/./x` and `b//x` are `b/x`, `b/a/../../..` leaves the bucket. -/
example : clean ([98, 47] ++ dotdot ++ [47, 120]) = [120] := by decide
example : clean ([98, 47] ++ dot ++ [47, 120]) = [98, 47, 120] := by decide
example : clean [98, 47, 47, 120] = [98, 47, 120] := by decide
example : clean ([98, 47, 97, 47] ++ dotdot ++ [47] ++ dotdot ++ [47] ++ dotdot) = dotdot := by decide
example : isObjectNameValid ([97, 47] ++ dotdot ++ [47, 120]) = false := by decide
example : isObjectNameValid [97, 47, 47, 120] = false := by decide
example : isObjectNameValid [100, 105, 114, 47] = true := by decide        -- "dir/"
example : isPathComponentValid dotdot = false := by decide
/-- non-vacuity of `confined`: bucket "b", key "d/k" -/
example : clean ([98] ++ 47 :: [100, 47, 107]) = [98, 47, 100, 47, 107] := by decide

end Vgw.Props.C04
