/-
  C10 — Object Lock protections cannot be circumvented.
  Theorems over the lock part of `Model.Gw`.

  `Protected b w now k v` : version `v` of key `k` is protected against caller `w` at time `now`
  even if `w` sends the bypass header — legal hold, unexpired COMPLIANCE retention, or unexpired
  GOVERNANCE retention while the bucket policy does not give `w` s3:BypassGovernanceRetention.
-/
import Vgw.Lemmas.GwMaps
namespace Vgw.Props.C10
open Vgw Vgw.Model.Gw

def Protected (b : Bucket) (w : Who) (now : Int) (k : Bytes) (v : Ver) : Prop :=
  verLocked b w now true k v = true

def lockOn (b : Bucket) : Prop := ∃ c, b.lock = some c ∧ c.enabled = true

/-- a version protected with the bypass header is protected without it as well -/
theorem protected_mono (b : Bucket) (w : Who) (now : Int) (k : Bytes) (v : Ver)
    (h : Protected b w now k v) (bypass : Bool) : verLocked b w now bypass k v = true := by
  unfold Protected verLocked at *
  cases bypass
  · simp only [Bool.false_and, Bool.true_and] at *
    cases hr : v.retention with
    | none => simp [hr] at h ⊢; exact h
    | some r =>
      simp only [hr] at h ⊢
      cases hm : r.mode
      · simp only [hm, Bool.not_false, Bool.and_true, Bool.or_eq_true, decide_eq_true_eq, Bool.and_eq_true,
          Bool.not_eq_true'] at h ⊢
        rcases h with ⟨h1, _⟩ | h2
        · exact Or.inl h1
        · exact Or.inr h2
      · simpa [hm] using h
  · exact h

/-- **The lock check refuses whenever its target is protected** — for the current version
(empty id) and for a version addressed by id. -/
theorem lockCheck_refuses (b : Bucket) (hl : lockOn b) (w : Who) (now : Int) (bypass : Bool) (k vid : Bytes)
    (v : Ver)
    (ht : target b k vid = some v)
    (hp : Protected b w now k v) :
    lockCheck b w now bypass k vid = some "InvalidRequest" := by
  obtain ⟨c, hc, hen⟩ := hl
  unfold lockCheck
  unfold target at ht
  simp only [hc, hen, Bool.not_true, Bool.false_eq_true, if_false, ht, protected_mono b w now k v hp bypass,
    Bool.true_or, if_true]

/-- **DELETE of a protected version is refused and changes nothing** (by any caller, with or
without the bypass header, with or without a version id). -/
theorem delete_protected_refused (cfg : Cfg) (s : State) (w : Who) (now : Int) (b k vid : Bytes)
    (bypass : Bool) (nv : Bytes) (bk : Bucket) (hb : findBucket s b = some bk) (hl : lockOn bk) (v : Ver)
    (ht : target bk k vid = some v)
    (hp : Protected bk w now k v) :
    (handle cfg s w now (.deleteObject b k vid bypass nv)).1 = s ∧
    (handle cfg s w now (.deleteObject b k vid bypass nv)).2.code ≠ "" := by
  simp only [handle, withBucket, hb]
  apply guarded_cases (P := fun r => r.1 = s ∧ r.2.code ≠ "")
  · intro e _; exact ⟨rfl, errR_code_ne _⟩
  · intro _
    rw [guarded_some_eq _ _ _ _ (lockCheck_refuses bk hl w now bypass k vid v ht hp)]
    exact ⟨rfl, errR_code_ne _⟩

/-- **Overwriting a protected current version by PUT is refused and changes nothing.** -/
theorem put_onto_protected_refused (cfg : Cfg) (s : State) (w : Who) (now : Int) (b k : Bytes)
    (p : PutSpec) (nv : Bytes) (bk : Bucket) (hb : findBucket s b = some bk) (hl : lockOn bk) (v : Ver)
    (ht : (bk.versions k).head? = some v) (hp : Protected bk w now k v) :
    (handle cfg s w now (.putObject b k p nv)).1 = s ∧
    (handle cfg s w now (.putObject b k p nv)).2.code ≠ "" := by
  simp only [handle, withBucket, hb]
  apply guarded_cases (P := fun r => r.1 = s ∧ r.2.code ≠ "")
  · intro e _; exact ⟨rfl, errR_code_ne _⟩
  · intro _
    rw [guarded_some_eq _ _ _ _ (lockCheck_refuses bk hl w now true k [] v (by simpa [target] using ht) hp)]
    exact ⟨rfl, errR_code_ne _⟩

/-- **Copying onto a protected current version is refused and changes nothing.** -/
theorem copy_onto_protected_refused (cfg : Cfg) (s : State) (w : Who) (now : Int) (sb sk svid b k : Bytes)
    (rep : Option PutSpec) (nv : Bytes) (bk : Bucket) (hb : findBucket s b = some bk) (hl : lockOn bk) (v : Ver)
    (ht : (bk.versions k).head? = some v) (hp : Protected bk w now k v) :
    (handle cfg s w now (.copyObject sb sk svid b k rep nv)).1 = s ∧
    (handle cfg s w now (.copyObject sb sk svid b k rep nv)).2.code ≠ "" := by
  simp only [handle, withBucket, hb]
  apply guarded_cases (P := fun r => r.1 = s ∧ r.2.code ≠ "")
  · intro e _; exact ⟨rfl, errR_code_ne _⟩
  · intro _
    rw [guarded_some_eq _ _ _ _ (lockCheck_refuses bk hl w now true k [] v (by simpa [target] using ht) hp)]
    exact ⟨rfl, errR_code_ne _⟩

/-- **Completing a multipart upload onto a protected current version is refused and changes nothing**
(the upload itself stays in progress). -/
theorem complete_onto_protected_refused (cfg : Cfg) (s : State) (w : Who) (now : Int) (b k id : Bytes)
    (parts : List (Nat × Bytes)) (mpEtag nv : Bytes) (bk : Bucket) (hb : findBucket s b = some bk) (hl : lockOn bk) (v : Ver)
    (ht : (bk.versions k).head? = some v) (hp : Protected bk w now k v) :
    (handle cfg s w now (.completeUpload b k id parts mpEtag nv)).1 = s ∧
    (handle cfg s w now (.completeUpload b k id parts mpEtag nv)).2.code ≠ "" := by
  simp only [handle, withBucket, hb]
  apply guarded_cases (P := fun r => r.1 = s ∧ r.2.code ≠ "")
  · intro e _; exact ⟨rfl, errR_code_ne _⟩
  · intro _
    rw [guarded_some_eq _ _ _ _ (lockCheck_refuses bk hl w now true k [] v (by simpa [target] using ht) hp)]
    exact ⟨rfl, errR_code_ne _⟩

/-- **A batch delete that names a protected version is refused as a whole.** -/
theorem batch_with_protected_refused (cfg : Cfg) (s : State) (w : Who) (now : Int) (b : Bytes)
    (keys : List (Bytes × Bytes)) (bypass : Bool) (nvs : List Bytes) (bk : Bucket)
    (hb : findBucket s b = some bk) (hl : lockOn bk) (k vid : Bytes) (hk : (k, vid) ∈ keys) (v : Ver)
    (ht : target bk k vid = some v)
    (hp : Protected bk w now k v) :
    (handle cfg s w now (.deleteObjects b keys bypass nvs)).1 = s ∧
    (handle cfg s w now (.deleteObjects b keys bypass nvs)).2.code ≠ "" := by
  simp only [handle, withBucket, hb]
  apply guarded_cases (P := fun r => r.1 = s ∧ r.2.code ≠ "")
  · intro e _; exact ⟨rfl, errR_code_ne _⟩
  · intro _
    have : (keys.findSome? fun (kv : Bytes × Bytes) => lockCheck bk w now bypass kv.1 kv.2).isSome = true := by
      rw [List.findSome?_isSome_iff]
      exact ⟨(k, vid), hk, by simp [lockCheck_refuses bk hl w now bypass k vid v ht hp]⟩
    cases hfs : (keys.findSome? fun (kv : Bytes × Bytes) => lockCheck bk w now bypass kv.1 kv.2) with
    | none => simp [hfs] at this
    | some e =>
      rw [guarded_some_eq _ _ _ e (by simpa using hfs)]
      exact ⟨rfl, errR_code_ne _⟩

/-- **A COMPLIANCE retention can never be removed, shortened or downgraded; a GOVERNANCE
retention only by a caller that holds the bypass permission and sends the header**: whenever
PutObjectRetention succeeds on a version that already has a retention, that retention was
GOVERNANCE and the caller's bypass was effective. -/
theorem retention_change_rule (cfg : Cfg) (s : State) (w : Who) (now : Int) (b k vid : Bytes) (r : Retention)
    (bypass : Bool) (bk : Bucket) (hb : findBucket s b = some bk) (v : Ver) (old : Retention)
    (ht : target bk k vid = some v)
    (hold : v.retention = some old)
    (hok : (handle cfg s w now (.putRetention b k vid r bypass)).2.code = "") :
    old.mode = .governance ∧ bypass = true ∧ bypassGranted bk w k = true := by
  simp only [handle, withBucket, hb] at hok
  cases hchk : verifyAccess cfg bk w .write actPutRetention k with
  | some e => rw [guarded_some_eq _ _ _ e hchk] at hok; exact absurd hok (errR_code_ne _)
  | none =>
    rw [guarded_none_eq _ _ _ hchk] at hok
    split at hok
    · exact absurd hok (errR_code_ne _)
    · obtain ⟨v', rest, pre, ht', heq⟩ := withLockedVersion_ok cfg s bk k vid _ hok
      rw [heq] at hok
      have : v' = v := by rw [ht] at ht'; exact (Option.some.inj ht').symm
      subst this
      simp only [hold] at hok
      by_cases hcond : (old.mode == .compliance || !(bypass && bypassGranted bk w k)) = true
      · simp only [hcond, if_true] at hok; exact absurd hok (errR_code_ne _)
      · simp only [Bool.or_eq_true, beq_iff_eq, Bool.not_eq_true', not_or, Bool.not_eq_false] at hcond
        refine ⟨?_, ?_⟩
        · cases hm : old.mode
          · rfl
          · rw [hm] at hcond; exact absurd hcond.1 (by decide)
        · have hb2 := hcond.2
          simp only [Bool.and_eq_true] at hb2
          exact ⟨hb2.1, hb2.2⟩

/-- **Object lock cannot be switched off**: whatever PutObjectLockConfiguration does, a bucket
whose lock is enabled stays enabled. -/
theorem lock_stays_on (cfg : Cfg) (s : State) (w : Who) (now : Int) (b : Bytes) (en : Bool)
    (m : Option LockMode) (d : Nat) (bk : Bucket) (hb : findBucket s b = some bk) (hl : lockOn bk) :
    ∃ bk', findBucket (handle cfg s w now (.putLockConfig b en m d)).1 b = some bk' ∧ lockOn bk' := by
  have hname := findBucket_name s b bk hb
  obtain ⟨c, hc, hen⟩ := hl
  simp only [handle, withBucket, hb]
  unfold guarded
  split
  · exact ⟨bk, hb, c, hc, hen⟩
  · split
    · exact ⟨bk, hb, c, hc, hen⟩
    · simp only [hc, hen, Bool.not_true, Bool.false_eq_true, if_false]
      exact ⟨_, find_set s _ b hname, _, rfl, rfl⟩

/-- **Versioning of a lock bucket cannot be suspended.** -/
theorem suspend_refused (cfg : Cfg) (s : State) (w : Who) (now : Int) (b : Bytes) (bk : Bucket)
    (hb : findBucket s b = some bk) (hl : lockOn bk) :
    (handle cfg s w now (.putVersioning b false)).1 = s := by
  obtain ⟨c, hc, hen⟩ := hl
  simp only [handle, withBucket, hb]
  unfold guarded
  split
  · rfl
  · split
    · rfl
    · simp [hc, hen]

/-- **A bucket that still holds anything cannot be deleted.** -/
theorem deleteBucket_needs_empty (cfg : Cfg) (s : State) (w : Who) (now : Int) (b : Bytes) (bk : Bucket)
    (hb : findBucket s b = some bk) (hne : bk.objects ≠ []) :
    (handle cfg s w now (.deleteBucket b)).1 = s := by
  simp only [handle, withBucket, hb]
  unfold guarded
  split
  · rfl
  · have : bk.objects.isEmpty = false := by cases h : bk.objects <;> simp_all
    simp [this]

/-! non-vacuity: a version under legal hold, a COMPLIANCE version, and the refusal computed -/
def held : Ver := { vid := [49], data := [⟨1, 0, 3⟩], hold := true, holdSet := true }
def bkt : Bucket := { name := [98], acl := ⟨[114], []⟩, lock := some { enabled := true }, objects := [([107], [held])] }
def st : State := { buckets := [bkt] }
def rootW : Who := ⟨[114], true, .admin⟩
example : Protected bkt rootW 0 [107] held := by unfold Protected; decide
example : lockOn bkt := ⟨{ enabled := true }, rfl, rfl⟩
example : (handle {} st rootW 0 (.deleteObject [98] [107] [] true [])).2.code = "InvalidRequest" := by decide

end Vgw.Props.C10
