/-
  C20 — no request can crash or wedge the gateway: panic-freedom and allocation bounds of the
  modelled request-path sites (`Model/Robust.lean`, `Model/RobustHandlers.lean`).

  Every model returns `Chk α = Except Panic α`; `noPanic x = true` says the Go code at that site
  returns normally.  Sites where the code as it is panics on some input carry a `fixed : Bool`
  parameter (`false` = as it is, `true` = with the proposed minimal repair): the full statement
  `C20_full fixed` is PROVED for `fixed = true` (`C20_fixed`) and REFUTED for `fixed = false`
  (`Open/C20.lean`, concrete witnesses); for `fixed = false` each defect site gets its exact
  panic condition (`…_asis_…`) and the remaining sites are proved unconditionally.

  What the theorems do not cover: any site listed as unmodelled in the evidence, bounded latency,
  goroutine leaks, whole-program memory safety (runtime behaviour the models cannot exhibit).
-/
import Vgw.Lemmas.RobustHandlers
import Vgw.Lemmas.GlobSteps
import Vgw.Props.C12
namespace Vgw.Props.C20
open Vgw Vgw.Go Vgw.Model.Robust

/-! ## sites without a defect: for EVERY input the model returns a value -/

/-- backend.ParseCopySource returns normally on every non-empty header … -/
theorem no_panic_parseCopySource (h : Bytes) (hne : h ≠ []) : noPanic (parseCopySource h) = true :=
  Model.Robust.no_panic_parseCopySource h hne

/-- … the empty string is its only panicking input … -/
theorem parseCopySource_panics_iff (h : Bytes) : noPanic (parseCopySource h) = false ↔ h = [] := by
  constructor
  · intro hp
    refine Decidable.byContradiction fun hne => ?_
    rw [Model.Robust.no_panic_parseCopySource h hne] at hp
    simp at hp
  · rintro rfl; rfl

/-- … and no X-Amz-Copy-Source header value makes the handlers pass it the empty string: PutActions
strips one leading "/" and takes the copy branches only for a non-empty rest. -/
theorem no_panic_copySourceOfRequest (hdr : Bytes) : noPanic (copySourceOfRequest hdr) = true :=
  Model.Robust.no_panic_copySourceOfRequest hdr

/-- backend.ParseObjectTags (x-amz-tagging, percent-decoded keys and values): every string -/
theorem no_panic_parseObjectTags (t : Bytes) : noPanic (parseObjectTags t) = true :=
  Model.Robust.no_panic_parseObjectTags t

/-- backend.ParseCopySourceRange: every object size and header -/
theorem no_panic_parseCopySourceRange (size : Int) (r : Bytes) : noPanic (parseCopySourceRange size r) = true :=
  Model.Robust.no_panic_parseCopySourceRange size r

/-- backend.ParseGetObjectRange with every index checked never panics and IS the existing model
`Model.Range.parseGetObjectRange` (C13): corollary over the existing definition -/
theorem getObjectRange_refines (size : Int) (r : Bytes) :
    parseGetObjectRange size r = .ok (ofParse (Vgw.Model.Range.parseGetObjectRange size r)) :=
  Model.Robust.getObjectRange_refines size r

theorem no_panic_parseGetObjectRange (size : Int) (r : Bytes) : noPanic (parseGetObjectRange size r) = true := by
  rw [getObjectRange_refines]; rfl

/-- utils.ParseAuthorization: every Authorization header value (whatever removeSpace does) -/
theorem no_panic_parseAuthorization (rs : Bytes → Bytes) (a : Bytes) : noPanic (parseAuthorization rs a) = true :=
  Model.Robust.no_panic_parseAuthorization rs a

/-- utils.ParsePresignedURIParts: every combination of the six query values -/
theorem no_panic_parsePresigned (q : PresignQuery) (region : Bytes) (passed : Int) :
    noPanic (parsePresigned q region passed) = true :=
  Model.Robust.no_panic_parsePresigned q region passed

/-- VerifyV4Signature: `date[:8]` after a successful time.Parse, every X-Amz-Date value -/
theorem no_panic_v4Date (date credDate : Bytes) : noPanic (v4Date date credDate) = true :=
  Model.Robust.no_panic_v4Date date credDate

/-- the fact about time.Parse both callers rely on -/
theorem timeParse_compact_length (s : Bytes) (h : Time.parseCompact s = true) : 8 ≤ s.length :=
  Time.parseCompact_length s h

/-- isPathConfined: the slices of the unescaped X-Amz-Copy-Source -/
theorem no_panic_copySourceConfined (src : Bytes) : noPanic (copySourceConfined src) = true :=
  Model.Robust.no_panic_copySourceConfined src

/-- utils.IsBigDataAction: every path -/
theorem no_panic_bigDataHasKey (path : Bytes) : noPanic (bigDataHasKey path) = true :=
  Model.Robust.no_panic_bigDataHasKey path

/-- `path[len(path)-1:] == "/" && key[len(key)-1:] != "/"` in the five object handlers: safe for
a non-empty path and key (the route `/:bucket/:key/*` matched: assumption about the router) … -/
theorem no_panic_trailingSlashFix (path key : Bytes) (hp : path ≠ []) (hk : key ≠ []) :
    noPanic (trailingSlashFix path key) = true :=
  Model.Robust.no_panic_trailingSlashFix path key hp hk

/-- … and the empty path is a panicking input of the expression itself -/
theorem trailingSlashFix_empty_path_panics (key : Bytes) : noPanic (trailingSlashFix [] key) = false := rfl

/-- posix.ListParts paging: every part list, every max-parts (0 and negative included) -/
theorem no_panic_listPartsPage (parts : List Int) (maxParts : Int) : noPanic (listPartsPage parts maxParts) = true :=
  Model.Robust.no_panic_listPartsPage parts maxParts

/-- ListBuckets: whatever max-buckets value the client sends, the controller either refuses it or
hands posix.ListBuckets a value on which `buckets[len(buckets)-1]` is in range -/
theorem no_panic_listBuckets (q token : Bytes) (names : List Bytes) (n : Int) (h : maxBucketsOf q = some n) :
    noPanic (listBucketsLoop n token names []) = true :=
  no_panic_listBucketsLoop n (maxBucketsOf_range q n h).1 token names []

/-- (the crasher repaired by 3030b05: MaxBuckets = 0 reaching the backend) -/
theorem listBuckets_zero_panics : noPanic (listBucketsLoop 0 [] [[97]] []) = false := by decide

/-- posix.CompleteMultipartUpload: every part list (empty, unsorted, nil or non-positive or huge
part numbers, nil ETags), whatever is stored -/
theorem no_panic_completeParts (stored : Int → Option (Int × Bytes)) (parts : List CPart) (minPart : Int) :
    noPanic (completeParts stored parts minPart) = true :=
  Model.Robust.no_panic_completeParts stored parts minPart

/-- GetBucketVersioning `vData[0]`: the attribute is written by PutBucketVersioning only, for the
two Status values the controller lets through, as one byte -/
theorem no_panic_versioning_roundtrip (status v : Bytes) (h : versioningAttr status = some v) :
    noPanic (versioningOf v) = true :=
  Model.Robust.no_panic_versioning_roundtrip status v h

/-- GetObjectLegalHold `data[0]` on what PutObjectLegalHold stores -/
theorem no_panic_legalHold_roundtrip (status : Bool) : noPanic (legalHoldOf (legalHoldAttr status)) = true :=
  Model.Robust.no_panic_legalHold_roundtrip status

/-- ValidatePolicyDocument `policyBin[0]`: every body, the empty one included -/
theorem no_panic_policyFirstChar (bin : Bytes) : noPanic (policyFirstCharBad bin) = true :=
  Model.Robust.no_panic_policyFirstCharBad bin

/-- Action.IsValid `a[len(a)-1]`: every action string -/
theorem no_panic_actionIsValid (sup psup : Bytes → Bool) (a : Bytes) : noPanic (actionIsValid sup psup a) = true :=
  Model.Robust.no_panic_actionIsValid sup psup a

/-- Action.IsObjectAction `a[len(a)-1]`: every action that passed IsValid (the only ones Actions.Add
lets into a statement); the empty action would panic -/
theorem no_panic_isObjectAction_of_valid (sup psup osup opsup : Bytes → Bool) (a : Bytes)
    (h : actionIsValid sup psup a = .ok true) : noPanic (isObjectAction osup opsup a) = true :=
  Model.Robust.no_panic_isObjectAction_of_valid sup psup osup opsup a h

/-- backend.Walk `prefix[:idx]`: never panics and IS `Model.Walk.rootOf` (C07): corollary over the
existing definition -/
theorem walkRoot_refines (pfx : Bytes) : walkRoot pfx = .ok (Vgw.Model.Walk.rootOf pfx) :=
  Model.Robust.walkRoot_refines pfx

/-! ## sites with a defect in the code as it is: proved for the repaired variant, exact panic
condition for the variant as it is -/

/-- AclParser `pathParts[1]`: panics exactly on paths without a "/" -/
theorem aclParser_no_panic_iff (path : Bytes) : noPanic (aclParserBucket path) = true ↔ (47 : UInt8) ∈ path :=
  Model.Robust.aclParser_no_panic_iff path

/-- fix 1 (DecodeURL refuses targets that are not in origin form): no request target reaches a panic -/
theorem no_panic_aclParser_fixed (u : Bytes) : noPanic (decodeThenAclParser true u) = true :=
  Model.Robust.no_panic_aclParser_fixed u

/-- as it is: safe exactly when DecodeURL refuses the target or it contains a "/" -/
theorem aclParser_asis_partial (u : Bytes) (h : (47 : UInt8) ∈ u) : noPanic (decodeThenAclParser false u) = true := by
  unfold decodeThenAclParser
  split
  · rfl
  · rename_i p hp
    rw [noPanic_map]
    have : p = u := by
      unfold decodeURL at hp
      simp only [Bool.false_and, Bool.false_eq_true, if_false] at hp
      split at hp
      · simp at hp
      · simpa using hp.symm
    subst this
    exact (aclParser_no_panic_iff p).mpr h

/-- fix 2: PutBucketOwnershipControls never panics … -/
theorem no_panic_putOwnershipControls_fixed (valid : Bytes → Bool) (rules : List Bytes) :
    noPanic (putOwnershipControls true valid rules) = true :=
  Model.Robust.no_panic_putOwnershipControls_fixed valid rules

/-- … as it is: panics exactly when the document has no Rule -/
theorem putOwnershipControls_asis_panics_iff (valid : Bytes → Bool) (rules : List Bytes) :
    noPanic (putOwnershipControls false valid rules) = false ↔ rules = [] :=
  Model.Robust.putOwnershipControls_asis_panics_iff valid rules

/-- the repair changes nothing else: same answer on every document that has a Rule -/
theorem putOwnershipControls_fix_conservative (valid : Bytes → Bool) (rules : List Bytes) (h : rules ≠ []) :
    putOwnershipControls true valid rules = putOwnershipControls false valid rules := by
  unfold putOwnershipControls
  match rules, h with
  | [r], _ =>
    simp only [if_true, List.length_cons, List.length_nil, idx_zero_cons, Except.bind]
    by_cases hv : valid r = true <;> simp [hv]
  | r :: r' :: t, _ =>
    simp only [if_true, List.length_cons, idx_zero_cons, Except.bind]
    simp

/-- fix 4: AccessControlPolicy.Validate never panics … -/
theorem no_panic_acpValidate_fixed (grants : List Grant) (owner : Option (Option Bytes)) :
    noPanic (acpValidate true grants owner) = true :=
  Model.Robust.no_panic_acpValidate_fixed grants owner

/-- … as it is: safe when every Grant has a Grantee -/
theorem acpValidate_asis_partial (grants : List Grant) (owner : Option (Option Bytes))
    (h : ∀ g ∈ grants, g.grantee.isSome = true) : noPanic (acpValidate false grants owner) = true :=
  Model.Robust.no_panic_acpValidate_of_grantees false grants owner h

/-- fix 5: the PutObjectAcl conversion loop never panics … -/
theorem no_panic_putObjectAclGrants_fixed (l : List Grant) : noPanic (putObjectAclGrants true l) = true :=
  Model.Robust.no_panic_putObjectAclGrants_fixed l

/-- … as it is: exactly when every Grant has a Grantee -/
theorem putObjectAclGrants_asis_iff (l : List Grant) :
    noPanic (putObjectAclGrants false l) = true ↔ ∀ g ∈ l, g.grantee.isSome = true :=
  Model.Robust.putObjectAclGrants_asis_iff l

/-- fix 6: SelectObjectContent's progress test never panics … -/
theorem no_panic_selectProgress_fixed (p : Option (Option Bool)) : noPanic (selectProgressEnabled true p) = true :=
  Model.Robust.no_panic_selectProgress_fixed p

/-- … as it is: panics exactly on `<RequestProgress>` without `<Enabled>` -/
theorem selectProgress_asis_panics_iff (p : Option (Option Bool)) :
    noPanic (selectProgressEnabled false p) = false ↔ p = some none :=
  Model.Robust.selectProgress_asis_panics_iff p

/-- fix 3: ListMultipartUploads paging never panics: every upload list, key-marker position,
max-uploads (0, negative, huge), markers … -/
theorem no_panic_listMultipartUploads_fixed (uploads : List Upload) (keyMarkerInd maxUploads : Int)
    (keyMarker uploadIdMarker : Bytes) (h : -1 ≤ keyMarkerInd) :
    noPanic (listMultipartUploadsPage true uploads keyMarkerInd maxUploads keyMarker uploadIdMarker) = true :=
  Model.Robust.no_panic_listMultipartUploads_fixed uploads keyMarkerInd maxUploads keyMarker uploadIdMarker h

/-- … as it is: safe without a key-marker -/
theorem listMultipartUploads_asis_partial (uploads : List Upload) (maxUploads : Int) (uploadIdMarker : Bytes) :
    noPanic (listMultipartUploadsPage false uploads (-1) maxUploads [] uploadIdMarker) = true :=
  Model.Robust.no_panic_listMultipartUploads_asis_no_key_marker uploads maxUploads uploadIdMarker

/-! ## allocation -/

/-- the chunk size the unsigned reader accepts from the wire is within [0, 5 GiB] … -/
theorem chunkSize_range (line : Bytes) (n : Int) (h : extractChunkSize line = some n) :
    0 ≤ n ∧ n ≤ maxUnsignedChunkSize :=
  extractChunkSize_range line n h

/-- … so `make([]byte, chunkSize)` never panics and is bounded by the stated constant 5 GiB (as it is) … -/
theorem alloc_bounded_unsignedChunk (line : Bytes) (n : Int) (arrived : Nat) (h : extractChunkSize line = some n) :
    ∃ m, chunkAlloc false n arrived = .ok m ∧ (m : Int) ≤ maxUnsignedChunkSize :=
  Model.Robust.alloc_bounded_unsignedChunk line n arrived h

/-- … and with fix 7 by twice the bytes that really arrived (+512), whatever the wire announces -/
theorem alloc_bounded_unsignedChunk_fixed (n : Int) (arrived : Nat) :
    ∃ m, chunkAlloc true n arrived = .ok m ∧ m ≤ 2 * arrived + 512 :=
  Model.Robust.alloc_bounded_unsignedChunk_fixed n arrived

/-- utils.escapePath (runs on the request path before the signature is known): at most three times
the length of the string it escapes -/
theorem alloc_bounded_escapePath (esc : UInt8 → Bool) (s : Bytes) : escapeRequired esc s ≤ 3 * s.length := by
  unfold escapeRequired
  have := List.length_filter_le esc s
  omega

/-- signed chunk reader: the re-assembled header buffer is at most 1024 bytes longer than the bytes read -/
theorem alloc_bounded_chunkHeaderStash (stashLen headerLen n : Nat) (h : stashAlloc stashLen headerLen = some n) :
    n ≤ maxHeaderSize + headerLen := by
  unfold stashAlloc at h
  split at h
  · simp at h
  · simp at h; omega

/-- SendXMLResponse: at most 4 MiB -/
theorem alloc_bounded_xmlResponse (hdrLen bodyLen n : Nat) (h : xmlResponseAlloc hdrLen bodyLen = some n) :
    n ≤ maxXMLBodyLen := by
  unfold xmlResponseAlloc at h
  split at h
  · simp at h
  · simp at h; omega

/-! ## no spinning: the loop of UnsignedChunkReader.Read makes progress or ends -/

theorem readLine_progress : ∀ (s l r : Bytes), readLine s = some (l, r) → r.length < s.length := by
  intro s
  induction s with
  | nil => intro l r h; simp [readLine] at h
  | cons c s ih =>
    intro l r h
    unfold readLine at h
    split at h
    · simp at h; obtain ⟨_, rfl⟩ := h; simp
    · cases hr : readLine s with
      | none => simp [hr] at h
      | some p =>
        obtain ⟨l', r'⟩ := p
        simp [hr] at h
        obtain ⟨_, rfl⟩ := h
        have := ih l' r' hr
        simp; omega

/-- every size line that `Read`'s loop accepts consumes at least one byte of the stream: the number
of remaining bytes is a measure of the loop (one extractChunkSize per iteration) -/
theorem no_spin_extractChunkSize (s : Bytes) (n : Int) (r : Bytes) (h : extractChunkSizeOf s = some (n, r)) :
    r.length < s.length := by
  unfold extractChunkSizeOf at h
  cases hl : readLine s with
  | none => simp [hl] at h
  | some p =>
    obtain ⟨l, rest⟩ := p
    simp only [hl] at h
    cases he : extractChunkSize l with
    | none => simp [he] at h
    | some m =>
      simp [he] at h
      obtain ⟨_, rfl⟩ := h
      exact readLine_progress s l rest hl

/-- where the stream has no further line break — in particular at its clean end, whatever came
before — extractChunkSize returns the error: it does not wait, skip or retry -/
theorem extractChunkSize_at_end (s : Bytes) (h : (10 : UInt8) ∉ s) : extractChunkSizeOf s = none := by
  have : readLine s = none := by
    induction s with
    | nil => rfl
    | cons c s ih =>
      simp at h
      unfold readLine
      rw [if_neg (fun e => h.1 e.symm), ih h.2]
  unfold extractChunkSizeOf
  rw [this]

/-! ## corollaries over the models of other properties -/

/-- the signed aws-chunked reader (Model.ChunkSigned, C12) never panics: arbitrary bytes — any chunk
size token, 2^63 and above included — in arbitrary deliveries (Props.C12.signed_never_panics,
restated here because a panic in the body reader ends the process); tied to
utils.NewSignedChunkReader in-process on boundary chunk sizes and end to end in both signed modes -/
theorem no_panic_signedChunkReader (cfg : Vgw.Model.ChunkSigned.Cfg) (seedSig : Bytes) (ds : List (Bytes × Bool)) :
    (Vgw.Model.ChunkSigned.run cfg seedSig ds).2 ≠ .panic :=
  Vgw.Props.C12.signed_never_panics cfg seedSig ds

/-- the policy resource matcher (Model.Glob, C14: Resources.Match) runs its first loop at most
|s|·(|s|+|p|+1) + |s| + |p| times, whatever the number of `*` in the pattern: an access check cannot
be made to spin by a many-star resource and a long key. (`loopSteps` counts the iterations of
`Model.Glob.loop` with the same tests; the second loop is bounded by |p|.) -/
theorem glob_steps_bounded (p s : Bytes) :
    Vgw.Model.Glob.loopSteps p s 0 0 none 0 (Nat.le_refl 0) ≤ s.length * (s.length + p.length + 1) + s.length + p.length :=
  Vgw.Model.Glob.loopSteps_le p s

/-! ## the property over all modelled sites -/

/-- every modelled defect site, in variant `fixed`, returns normally on every input -/
def NoPanicAtDefectSites (fixed : Bool) : Prop :=
  (∀ u, noPanic (decodeThenAclParser fixed u) = true) ∧
  (∀ valid rules, noPanic (putOwnershipControls fixed valid rules) = true) ∧
  (∀ grants owner, noPanic (acpValidate fixed grants owner) = true) ∧
  (∀ grants, noPanic (putObjectAclGrants fixed grants) = true) ∧
  (∀ p, noPanic (selectProgressEnabled fixed p) = true) ∧
  (∀ uploads kmi mx km um, -1 ≤ kmi → noPanic (listMultipartUploadsPage fixed uploads kmi mx km um) = true)

/-- no allocation is sized by the wire alone: what is allocated for a chunk is bounded by what arrived -/
def AllocTracksArrival (fixed : Bool) : Prop :=
  ∀ line n arrived, extractChunkSize line = some n → ∃ m, chunkAlloc fixed n arrived = .ok m ∧ m ≤ 2 * arrived + 512

/-- C20 on the modelled sites that have a variant (the others are the unconditional theorems above) -/
def C20_full (fixed : Bool) : Prop := NoPanicAtDefectSites fixed ∧ AllocTracksArrival fixed

/-- with the seven proposed repairs the full statement holds -/
theorem C20_fixed : C20_full true :=
  ⟨⟨no_panic_aclParser_fixed, no_panic_putOwnershipControls_fixed, no_panic_acpValidate_fixed,
    no_panic_putObjectAclGrants_fixed, no_panic_selectProgress_fixed,
    fun u k m km um h => no_panic_listMultipartUploads_fixed u k m km um h⟩,
   fun _ n arrived _ => alloc_bounded_unsignedChunk_fixed n arrived⟩

/-! ## non-vacuity (tests on concrete inputs, not proofs of anything general) -/

-- "/b/k?versionId=v" parses into its three parts
example : parseCopySource [47, 98, 47, 107, 63, 118, 101, 114, 115, 105, 111, 110, 73, 100, 61, 118] = .ok (.ok [98] [107] [118]) := by decide
-- "a=b&c=d"
example : parseObjectTags [97, 61, 98, 38, 99, 61, 100] = .ok (some [([97], [98]), ([99], [100])]) := by decide
-- "t=a%20b+c" is stored decoded: "a b c"; "t=%zz" is an invalid tag
example : parseObjectTags [116, 61, 97, 37, 50, 48, 98, 43, 99] = .ok (some [([116], [97, 32, 98, 32, 99])]) := by decide
example : parseObjectTags [116, 61, 37, 122, 122] = .ok none := by decide
-- "bytes=1-2" of a 10 byte object
example : parseCopySourceRange 10 [98, 121, 116, 101, 115, 61, 49, 45, 50] = .ok (.ok 1 2) := by decide
-- "20060102T150405Z" parses, "20060102T150405" does not, a fractional second is accepted
example : Time.parseCompact [50, 48, 48, 54, 48, 49, 48, 50, 84, 49, 53, 48, 52, 48, 53, 90] = true := by decide
example : Time.parseCompact [50, 48, 48, 54, 48, 49, 48, 50, 84, 49, 53, 48, 52, 48, 53] = false := by decide
example : Time.parseCompact [50, 48, 48, 54, 48, 49, 48, 50, 84, 49, 53, 48, 52, 48, 53, 46, 53, 90] = true := by decide
-- the date test reaches `date[:8]` and compares
example : v4Date [50, 48, 48, 54, 48, 49, 48, 50, 84, 49, 53, 48, 52, 48, 53, 90] [50, 48, 48, 54, 48, 49, 48, 50] = .ok .proceed := by decide
-- a key gets its trailing slash back
example : trailingSlashFix [47, 98, 47, 107, 47] [107] = .ok [107, 47] := by decide
-- one valid rule goes through in both variants; two rules are refused in both
example : putOwnershipControls true (fun _ => true) [[1]] = .ok true := by decide
example : putOwnershipControls false (fun _ => true) [[1], [2]] = .ok false := by decide
-- a well-formed ACL validates; a Grant without Grantee is refused by the repaired code
example : acpValidate false [⟨some ⟨canonicalUserLit, [1]⟩, [82, 69, 65, 68]⟩] (some (some [1])) = .ok true := by decide
example : acpValidate true [⟨none, [82, 69, 65, 68]⟩] (some (some [1])) = .ok false := by decide
example : putObjectAclGrants true [⟨none, [82, 69, 65, 68]⟩] = .ok none := by decide
example : selectProgressEnabled false (some (some true)) = .ok true := by decide
-- paging with a key marker works in the repaired code and reports the last returned upload
example : listMultipartUploadsPage true [⟨[97], [1]⟩, ⟨[98], [2]⟩, ⟨[99], [3]⟩, ⟨[100], [4]⟩] 0 1 [97] [] =
    .ok ⟨[⟨[98], [2]⟩], true, [98], [2]⟩ := by decide
example : listPartsPage [1, 2, 3] 2 = .ok ([1, 2], true, 2) := by decide
example : maxBucketsOf [48] = none := by decide                    -- "0" is refused by the controller
example : maxBucketsOf [53] = some 5 := by decide
example : completeParts (fun n => if n = 1 then some (3, [7]) else none) [⟨some 1, some [7]⟩] 5 = .ok (.ok 3) := by decide
example : versioningAttr [69, 110, 97, 98, 108, 101, 100] = some [1] := by decide
example : extractChunkSize [49, 52, 48, 48, 48, 48, 48, 48, 48] = some 5368709120 := by decide   -- "140000000"
example : extractChunkSize [49, 52, 48, 48, 48, 48, 48, 48, 49] = none := by decide              -- one more
example : actionIsValid (fun _ => true) (fun _ => true) [115, 51, 58, 71] = .ok true := by decide
example : walkRoot [97, 47, 98, 47, 99] = .ok (some [97, 47, 98]) := by decide
example : escapeRequired (fun c => c = 32) [97, 32, 98] = 5 := by decide
example : extractChunkSizeOf [53, 13, 10, 104] = some (5, [104]) := by decide     -- "5\r\nh"
-- "*a*b" on "aaa": at most 3·(3+4+1)+3+4 = 31 iterations
example : Vgw.Model.Glob.loopSteps [42, 97, 42, 98] [97, 97, 97] 0 0 none 0 (Nat.le_refl 0) ≤ 31 := glob_steps_bounded [42, 97, 42, 98] [97, 97, 97]
example : extractChunkSizeOf [] = none := by decide                                -- clean end of the stream
example : extractChunkSizeOf [13, 10, 53, 13, 10] = none := by decide              -- an empty line is malformed, not skipped
example : stashAlloc 10 20 = some 30 := by decide
example : xmlResponseAlloc 38 100 = some 138 := by decide

end Vgw.Props.C20
