/-
  C03 — Access decisions are enforced on every operation.
  `required` is the specification table: which (bucket, permission, S3 action, object) each
  operation needs.  The theorems say that `Model.Gw.step` succeeds only if every requirement is
  granted by `verifyAccess`, that a refusal changes nothing and discloses nothing, and what
  `verifyAccess` means in terms of policy and ACL.
-/
import Vgw.Model.Gw.Step
namespace Vgw.Props.C03
open Vgw Vgw.Model.Gw

structure Need where
  bucket : Bytes
  perm : Perm
  action : Bytes
  object : Bytes
  deriving DecidableEq

/-- **Specification**: the S3 action on the exact resource that each operation needs
(per key for batch delete; source and destination for copy). `none` = not governed by bucket
policy / ACL (CreateBucket: role check; ListBuckets: owner filter). -/
def required : Op → Option (List Need)
  | .createBucket .. | .listBuckets .. => none
  | .deleteBucket b => some [⟨b, .write, actDeleteBucket, []⟩]
  | .headBucket b => some [⟨b, .read, actListBucket, []⟩]
  | .putBucketPolicy b _ _ => some [⟨b, .write, actPutBucketPolicy, []⟩]
  | .getBucketPolicy b => some [⟨b, .read, actGetBucketPolicy, []⟩]
  | .deleteBucketPolicy b => some [⟨b, .write, actDeleteBucketPolicy, []⟩]
  | .putBucketAcl b _ => some [⟨b, .writeAcp, actPutBucketAcl, []⟩]
  | .putBucketAclGrants b _ => some [⟨b, .writeAcp, actPutBucketAcl, []⟩]
  | .getBucketAcl b => some [⟨b, .readAcp, actGetBucketAcl, []⟩]
  | .putBucketTagging b _ => some [⟨b, .write, actPutBucketTagging, []⟩]
  | .getBucketTagging b => some [⟨b, .read, actGetBucketTagging, []⟩]
  | .deleteBucketTagging b => some [⟨b, .write, actPutBucketTagging, []⟩]
  | .putOwnership b _ => some [⟨b, .write, actPutOwnership, []⟩]
  | .getOwnership b => some [⟨b, .read, actGetOwnership, []⟩]
  | .deleteOwnership b => some [⟨b, .write, actPutOwnership, []⟩]
  | .putVersioning b _ => some [⟨b, .write, actPutVersioning, []⟩]
  | .getVersioning b => some [⟨b, .read, actGetVersioning, []⟩]
  | .putObject b k _ _ => some [⟨b, .write, actPutObject, k⟩]
  | .getObject b k vid => some [⟨b, .read, if vid.isEmpty then actGetObject else actGetObjectVersion, k⟩]
  | .headObject b k _ => some [⟨b, .read, actGetObject, k⟩]
  | .deleteObject b k _ _ _ => some [⟨b, .write, actDeleteObject, k⟩]
  | .deleteObjects b keys _ _ => some (keys.map fun (k, _) => ⟨b, .write, actDeleteObject, k⟩)
  | .copyObject sb sk _ b k _ _ => some [⟨b, .write, actPutObject, k⟩, ⟨sb, .read, actGetObject, sk⟩]
  | .putObjectTagging b k _ => some [⟨b, .write, actPutObjectTagging, k⟩]
  | .getObjectTagging b k => some [⟨b, .read, actGetObjectTagging, k⟩]
  | .deleteObjectTagging b k => some [⟨b, .write, actDeleteObjectTagging, k⟩]
  | .listVersions b => some [⟨b, .read, actListVersions, []⟩]
  | .putLockConfig b _ _ _ => some [⟨b, .write, actPutLockCfg, []⟩]
  | .getLockConfig b => some [⟨b, .read, actGetLockCfg, []⟩]
  | .putRetention b k _ _ _ => some [⟨b, .write, actPutRetention, k⟩]
  | .getRetention b k _ => some [⟨b, .read, actGetRetention, k⟩]
  | .putLegalHold b k _ _ => some [⟨b, .write, actPutLegalHold, k⟩]
  | .getLegalHold b k _ => some [⟨b, .read, actGetLegalHold, k⟩]
  | .createUpload b k _ _ => some [⟨b, .write, actPutObject, k⟩]
  | .uploadPart b k _ _ _ _ => some [⟨b, .write, actPutObject, k⟩]
  | .uploadPartCopy b k _ _ sb sk _ _ _ => some [⟨b, .write, actPutObject, k⟩, ⟨sb, .read, actGetObject, sk⟩]
  | .listParts b k _ => some [⟨b, .read, actListParts, k⟩]
  | .listUploads b => some [⟨b, .read, actListUploads, []⟩]
  | .completeUpload b k _ _ _ _ => some [⟨b, .write, actPutObject, k⟩]
  | .abortUpload b k _ => some [⟨b, .write, actAbortUpload, k⟩]

/-- the requirement is granted in state `s` -/
def Granted (cfg : Cfg) (s : State) (w : Who) (n : Need) : Prop :=
  ∃ bk, findBucket s n.bucket = some bk ∧ verifyAccess cfg bk w n.perm n.action n.object = none

theorem withBucket_ok (s : State) (b : Bytes) (k : Bucket → State × Resp) (h : (withBucket s b k).2.code = "") :
    ∃ bk, findBucket s b = some bk ∧ (k bk).2.code = "" := by
  unfold withBucket at h
  split at h
  · exact absurd h (errR_code_ne _)
  · rename_i bk hb; exact ⟨bk, hb, h⟩

theorem guarded_ok (c : Option String) (s : State) (k : Unit → State × Resp) (h : (guarded c s k).2.code = "") :
    c = none := by
  unfold guarded at h
  split at h
  · exact absurd h (errR_code_ne _)
  · rfl

/-- the access check of both copy paths (VerifyObjectCopyAccess): passing it means destination
write and source read were granted -/
theorem copy_chk (cfg : Cfg) (s : State) (w : Who) (bk : Bucket) (b k sb sk : Bytes)
    (hnr : w.isRoot = false) (hna : (w.role == .admin) = false) (hb : findBucket s b = some bk)
    (hnone : (if cfg.readonly then some "AccessDenied" else
      if w.isRoot || w.role == .admin then none else
      match verifyAccess cfg bk w .write actPutObject k with
      | some e => some e
      | none =>
        match findBucket s sb with
        | none => some "NoSuchBucket"
        | some sbk => verifyAccess cfg sbk w .read actGetObject sk) = none) :
    ∀ n ∈ [(⟨b, .write, actPutObject, k⟩ : Need), ⟨sb, .read, actGetObject, sk⟩], Granted cfg s w n := by
  simp only [hnr, hna, Bool.or_self, Bool.false_eq_true, if_false] at hnone
  split at hnone
  · simp at hnone
  · split at hnone
    · simp at hnone
    · rename_i hdst
      split at hnone
      · simp at hnone
      · rename_i sbk hsb
        intro n hn; simp at hn
        rcases hn with rfl | rfl
        · exact ⟨bk, hb, hdst⟩
        · exact ⟨sbk, hsb, hnone⟩

/-- **The source half of a copy is decided for the source KEY, whatever version of it the request
names**: when the caller may write the destination but is refused `s3:GetObject` on the source key,
CopyObject answers that refusal and changes nothing, for every version id in the copy source (the
defect repaired by 9e8e2c2 decided for the resource `key?versionId=id`). -/
theorem copy_source_refused_any_version (cfg : Cfg) (hro : cfg.readonly = false) (s : State) (w : Who) (now : Int)
    (bk sbk : Bucket) (b k sb sk : Bytes) (e : String)
    (hnr : w.isRoot = false) (hna : (w.role == .admin) = false)
    (hb : findBucket s b = some bk) (hsb : findBucket s sb = some sbk)
    (hdst : verifyAccess cfg bk w .write actPutObject k = none)
    (hsrc : verifyAccess cfg sbk w .read actGetObject sk = some e) :
    ∀ (svid : Bytes) (rep : Option PutSpec) (nv : Bytes),
      handle cfg s w now (.copyObject sb sk svid b k rep nv) = (s, errR e) := by
  intro svid rep nv
  simp only [handle, withBucket, hb, hro, hnr, hna, hdst, hsb, hsrc, guarded, Bool.or_self,
    Bool.false_eq_true, if_false]

/-- the same for UploadPartCopy. -/
theorem partcopy_source_refused_any_version (cfg : Cfg) (hro : cfg.readonly = false) (s : State) (w : Who) (now : Int)
    (bk sbk : Bucket) (b k id sb sk : Bytes) (num : Nat) (e : String)
    (hnr : w.isRoot = false) (hna : (w.role == .admin) = false)
    (hb : findBucket s b = some bk) (hsb : findBucket s sb = some sbk)
    (hdst : verifyAccess cfg bk w .write actPutObject k = none)
    (hsrc : verifyAccess cfg sbk w .read actGetObject sk = some e) :
    ∀ (svid : Bytes) (range : Option (Nat × Nat)) (etag : Bytes),
      handle cfg s w now (.uploadPartCopy b k id num sb sk svid range etag) = (s, errR e) := by
  intro svid range etag
  simp only [handle, withBucket, hb, hro, hnr, hna, hdst, hsb, hsrc, guarded, Bool.or_self,
    Bool.false_eq_true, if_false]

/-- **Success implies every requirement was granted.** For every caller that is neither root nor
an admin (those are exempt by design), every state and every operation: if the answer is a
success, then each (action, resource) the specification table demands was granted by
`verifyAccess` on the bucket it names. -/
theorem success_implies_granted (cfg : Cfg) (s : State) (w : Who) (now : Int) (op : Op) (needs : List Need)
    (hreq : required op = some needs) (hnr : w.isRoot = false) (hna : (w.role == .admin) = false)
    (hok : (handle cfg s w now op).2.code = "") :
    ∀ n ∈ needs, Granted cfg s w n := by
  cases op <;> simp only [required, Option.some.injEq, reduceCtorEq] at hreq <;> subst hreq <;> simp only [handle] at hok
  case putBucketAcl b a =>
    obtain ⟨bk, hb, h⟩ := withBucket_ok _ _ _ hok
    intro n hn; simp at hn; subst hn
    split at h
    · exact absurd h (errR_code_ne _)
    · exact ⟨bk, hb, guarded_ok _ _ _ h⟩
  case putBucketAclGrants b gs =>
    obtain ⟨bk, hb, h⟩ := withBucket_ok _ _ _ hok
    intro n hn; simp at hn; subst hn
    split at h
    · exact absurd h (errR_code_ne _)
    · exact ⟨bk, hb, guarded_ok _ _ _ h⟩
  case deleteObjects b keys bp nvs =>
    obtain ⟨bk, hb, h⟩ := withBucket_ok _ _ _ hok
    have hnone := guarded_ok _ _ _ h
    intro n hn
    simp only [List.mem_map] at hn
    obtain ⟨⟨k, v⟩, hkv, rfl⟩ := hn
    refine ⟨bk, hb, ?_⟩
    have hne : keys.isEmpty = false := by
      cases keys with
      | nil => simp at hkv
      | cons _ _ => rfl
    simp only [hne, Bool.false_eq_true, if_false, List.findSome?_eq_none_iff, List.mem_map] at hnone
    exact hnone k ⟨(k, v), hkv, rfl⟩
  case copyObject sb sk svid b k rep nv =>
    obtain ⟨bk, hb, h⟩ := withBucket_ok _ _ _ hok
    exact copy_chk cfg s w bk b k sb sk hnr hna hb (guarded_ok _ _ _ h)
  case uploadPartCopy b k id num sb sk svid rg et =>
    obtain ⟨bk, hb, h⟩ := withBucket_ok _ _ _ hok
    exact copy_chk cfg s w bk b k sb sk hnr hna hb (guarded_ok _ _ _ h)
  all_goals
    obtain ⟨bk, hb, h⟩ := withBucket_ok _ _ _ hok
    intro n hn; simp only [List.mem_singleton] at hn; subst hn
    exact ⟨bk, hb, guarded_ok _ _ _ h⟩

/-- **What a grant means** for a caller that is neither root nor admin, outside read-only mode:
with a policy set, exactly the policy decides (some Allow statement matches caller, action and
resource and no Deny statement matches); with no policy, exactly the ACL decides. -/
theorem verifyAccess_iff (cfg : Cfg) (hro : cfg.readonly = false) (b : Bucket) (w : Who)
    (hnr : w.isRoot = false) (hna : (w.role == .admin) = false) (perm : Perm) (act obj : Bytes) :
    verifyAccess cfg b w perm act obj = none ↔
      (match b.policy with
       | some p => (∃ st ∈ p.stmts, st.allow = true ∧ stmtMatch st w.access act (resourceOf b.name obj) = true) ∧
                   ¬ (∃ st ∈ p.stmts, st.allow = false ∧ stmtMatch st w.access act (resourceOf b.name obj) = true)
       | none => aclGrants b.acl w.access perm = true) := by
  unfold verifyAccess
  simp only [hro, hnr, hna, Bool.false_and, Bool.false_eq_true, if_false]
  cases hp : b.policy with
  | none => simp only; split <;> simp_all
  | some p =>
    simp only [policyAllows]
    have hA : (p.stmts.any fun st => st.allow && stmtMatch st w.access act (resourceOf b.name obj)) = true ↔
        ∃ st ∈ p.stmts, st.allow = true ∧ stmtMatch st w.access act (resourceOf b.name obj) = true := by
      simp [List.any_eq_true]
    have hD : (p.stmts.any fun st => !st.allow && stmtMatch st w.access act (resourceOf b.name obj)) = true ↔
        ∃ st ∈ p.stmts, st.allow = false ∧ stmtMatch st w.access act (resourceOf b.name obj) = true := by
      simp [List.any_eq_true]
    rw [← hA, ← hD]
    rcases Bool.eq_false_or_eq_true (p.stmts.any fun st => st.allow && stmtMatch st w.access act (resourceOf b.name obj)) with h1 | h1 <;>
      rcases Bool.eq_false_or_eq_true (p.stmts.any fun st => !st.allow && stmtMatch st w.access act (resourceOf b.name obj)) with h2 | h2 <;>
      simp [h1, h2]

/-- **A refusal changes nothing and discloses nothing.** -/
theorem refusal_no_effect (cfg : Cfg) (s : State) (b : Bytes) (bk : Bucket) (hb : findBucket s b = some bk)
    (e : String) (chk : Option String) (hchk : chk = some e) (k : Unit → State × Resp) :
    (withBucket s b fun _ => guarded chk s k) = (s, errR e) := by
  subst hchk; simp [withBucket, hb, guarded]

/-- **Access to one bucket never confers access to another**: the decision for a request on bucket
`b` is a function of that bucket's own policy/ACL alone — two states that hold the same bucket `b`
give the same decision, whatever policies and ACLs their other buckets carry. -/
theorem decision_depends_on_own_bucket (cfg : Cfg) (s s' : State) (w : Who) (n : Need)
    (h : findBucket s n.bucket = findBucket s' n.bucket) : Granted cfg s w n ↔ Granted cfg s' w n := by
  unfold Granted; rw [h]

/-- non-vacuity: a user who is granted GetObject by policy on `b/k` only -/
def pol : Policy := ⟨1, [⟨true, [[117]], [actGetObject], [[98, 47, 107]]⟩]⟩
def bkt : Bucket := { name := [98], acl := ⟨[114], []⟩, policy := some pol }
example : verifyAccess {} bkt ⟨[117], false, .user⟩ .read actGetObject [107] = none := by decide
example : verifyAccess {} bkt ⟨[117], false, .user⟩ .read actGetObject [108] = some "AccessDenied" := by decide
example : verifyAccess {} bkt ⟨[118], false, .user⟩ .read actGetObject [107] = some "AccessDenied" := by decide

/-- non-vacuity of `copy_source_refused_any_version`: user `u` may write `b/d` and read `b/k`, not `b/s`;
copying `b/s` (any version) to `b/d` is refused, copying `b/k` is not refused for access. -/
def pol2 : Policy := ⟨2, [⟨true, [[117]], [actGetObject], [[98, 47, 107]]⟩, ⟨true, [[117]], [actPutObject], [[98, 47, 100]]⟩]⟩
def bkt2 : Bucket := { name := [98], acl := ⟨[114], []⟩, policy := some pol2 }
example : verifyAccess {} bkt2 ⟨[117], false, .user⟩ .write actPutObject [100] = none ∧
    verifyAccess {} bkt2 ⟨[117], false, .user⟩ .read actGetObject [115] = some "AccessDenied" ∧
    verifyAccess {} bkt2 ⟨[117], false, .user⟩ .read actGetObject [107] = none := by decide

end Vgw.Props.C03
