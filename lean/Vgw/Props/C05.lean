/-
  C05 — per-key reads and writes are atomic and linearizable.

  Theorems about the transition system `Model.Conc` (any number of concurrent PUT / COPY /
  multipart-complete / DELETE / GET / HEAD requests on one key, every interleaving of their atomic
  filesystem steps: `Reach` quantifies over all step sequences, the request pool `rqs` is arbitrary).
  There is no process structure in the model (the posix backend keeps no in-process state about
  objects), so the statements cover one gateway process as well as several on the same storage.

  The MAIN theorems (section "the code as it is") are unconditional statements about
  `cur otmp = codeVariant.cfg otmp`, the configuration of the code under test with and without
  O_TMPFILE (the tag set is one of the attributes of an object: `Attr.tags`, observed by GET): inode_complete_inv, linked_inode_complete, get_body_single_write, get_single_write,
  overwrite_never_missing, linearizable (refinement to the atomic register of Spec.Register),
  acked_write_published, read_after_ack_fresh. They are instances of theorems by code SHAPE
  (`…_of_shape`, hypotheses on `Cfg`), which also cover the non-Linux build (`portable`).

  The REGRESSION models (`Variant.old`: publication by remove-then-link, reads by path, CopyObject
  failing on its final stat — the code before 4399f3e / 109ae9c / 4e82e48) violate the clauses; the
  witnesses are `example`s in `Open/C05.lean`, and the check reports such behaviour of the real
  gateway as a violation.
-/
import Vgw.Lemmas.ConcMissing
import Vgw.Lemmas.ConcFd
import Vgw.Lemmas.ConcLin5
import Vgw.Lemmas.ConcAck
import Vgw.Model.ConcHist
import Vgw.Spec.Register
namespace Vgw.Props.C05
open Vgw.Model.Conc

/-- the objects that can legitimately be read: what the key held at the start and the complete
    object of every write request. -/
def IsValue (fs0 : FS) (rqs : List Req) (ino : Inode) : Prop :=
  ino ∈ fs0.inodes ∨ ∃ rq ∈ rqs, rq.kind.isWrite = true ∧ ino = written rq

/-! ## invariants that hold for every variant and every interleaving -/

/-- **Every inode ever published under the key carries the data and ALL attributes of exactly one
write**: the attributes are written through the descriptor before the publication step. -/
theorem inode_complete_inv (c : Cfg) (fs0 : FS) (rqs : List Req) (s : State) (h0 : KeyLast fs0)
    (h : Reach c (init c fs0 rqs) s) : ∀ ino ∈ s.fs.inodes, IsValue fs0 rqs ino :=
  (GInv_reach h0 h).vals

/-- … in particular the inode the key is linked to. -/
theorem linked_inode_complete (c : Cfg) (fs0 : FS) (rqs : List Req) (s : State) (h0 : KeyLast fs0)
    (h : Reach c (init c fs0 rqs) s) (k : Nat) (hk : s.fs.key = some k) :
    ∃ ino, s.fs.inodes[k]? = some ino ∧ IsValue fs0 rqs ino := by
  have g := GInv_reach h0 h
  have := g.last k hk
  have hlt : k < s.fs.inodes.length := by omega
  exact ⟨s.fs.inodes[k], List.getElem?_eq_getElem hlt, g.vals _ (List.getElem_mem hlt)⟩

theorem resp_spec {s : State} {i : Nat} {r : Resp} (h : s.resp i = some r) :
    ∃ rq l, s.reqs[i]? = some (rq, l) ∧ l.result = some r := by
  unfold State.resp at h
  split at h
  · rename_i rq l hr
    split at h
    · exact ⟨rq, l, hr, h⟩
    · cases h
  · cases h

/-- **The file a successful GET streams is the complete data of exactly one write** — never bytes
of two writes. (How many of its bytes reach the client is decided by the Content-Length, which
comes from a separate `stat`: see `get_single_write_full`.) -/
theorem get_body_single_write (c : Cfg) (fs0 : FS) (rqs : List Req) (s : State) (h0 : KeyLast fs0)
    (h : Reach c (init c fs0 rqs) s) (i : Nat) (r : ReadResp) (b : Blob)
    (hr : s.resp i = some (.read r)) (hb : r.body = some b) :
    ∃ ino, IsValue fs0 rqs ino ∧ b = ino.data := by
  obtain ⟨rq, l, hi, hres⟩ := resp_spec hr
  obtain ⟨ino, hm, e⟩ := (BodyInv_reach h (rq, l) (List.mem_of_getElem? hi)).2 r b hres hb
  exact ⟨ino, inode_complete_inv c fs0 rqs s h0 h ino hm, e⟩

/-! ## the clauses of the property at full strength -/

/-- a successful GET/HEAD answers body (GET), length, ETag and metadata of one and the same write. -/
def get_single_write_full (c : Cfg) : Prop :=
  ∀ (fs0 : FS) (rqs : List Req) (s : State) (i : Nat) (rq : Req) (r : ReadResp),
    KeyLast fs0 → Reach c (init c fs0 rqs) s →
    rqs[i]? = some rq → s.resp i = some (.read r) →
    ∃ ino, IsValue fs0 rqs ino ∧ r = observe ino (rq.kind == .head)

/-- a key that exists and is only being overwritten (no DELETE among the requests) never appears missing. -/
def overwrite_never_missing_full (c : Cfg) : Prop :=
  ∀ (fs0 : FS) (rqs : List Req) (s : State) (i : Nat) (rq : Req),
    KeyLast fs0 → fs0.key ≠ none → (∀ rq ∈ rqs, rq.kind ≠ .delete) → Reach c (init c fs0 rqs) s →
    rqs[i]? = some rq → rq.kind.isRead = true → s.resp i ≠ some .noSuchKey

/-- a read that starts (takes its first step) in a state `s` never looks at an inode older than the
    newest one published up to `s`. -/
def read_views_fresh_full (c : Cfg) : Prop :=
  ∀ (fs0 : FS) (rqs : List Req) (s s' : State) (i : Nat) (rq rq' : Req) (l l' : Local),
    KeyLast fs0 → Reach c (init c fs0 rqs) s → Reach c s s' →
    s.reqs[i]? = some (rq, l) → l.views = [] → s'.reqs[i]? = some (rq', l') →
    (∀ v, some v ∈ l'.views → s.fs.inodes.length ≤ v + 1) ∧
    (∀ k, l'.fd = some k → l.fd = none → s.fs.inodes.length ≤ k + 1)

/-- a read that starts after a write was acknowledged never returns older data: if write `j` has
    answered 200 in state `s` and reader `i` has not taken a step yet in `s`, then whatever `i`
    answers later is the whole object of an inode published not before `j`'s (inode ids are in
    publication order). -/
def read_after_ack_fresh_full (c : Cfg) : Prop :=
  ∀ (fs0 : FS) (rqs : List Req) (s s' : State) (i j : Nat) (rqi rqj : Req) (r : ReadResp),
    KeyLast fs0 → Reach c (init c fs0 rqs) s → Reach c s s' →
    rqs[j]? = some rqj → rqj.kind.isWrite = true → s.resp j = some .ok →
    s.reqs[i]? = some (rqi, { prog := program c rqi }) → s'.resp i = some (.read r) →
    ∃ (p k : Nat) (ino : Inode), s.fs.inodes[p]? = some (written rqj) ∧ s'.fs.inodes[k]? = some ino ∧ p ≤ k ∧
      r = observe ino (rqi.kind == .head)

/-- an acknowledged write has been published: its complete object is in the inode table. -/
def acked_write_published_full (c : Cfg) : Prop :=
  ∀ (fs0 : FS) (rqs : List Req) (s : State) (j : Nat) (rqj : Req),
    KeyLast fs0 → Reach c (init c fs0 rqs) s → rqs[j]? = some rqj → rqj.kind.isWrite = true →
    s.resp j = some .ok → written rqj ∈ s.fs.inodes

/-- the answers of all requests are explained by ONE order that respects real time: the history of
    every run (operations, invocation = first step, response = last step, answers) is linearizable
    with respect to the atomic register holding the complete object of one write (Spec.Register);
    a reader's answer must be `observe` of the register's value. -/
def linearizable_full (c : Cfg) : Prop :=
  ∀ (fs0 : FS) (rqs : List Req) (s : State), KeyLast fs0 → Reach c (init c fs0 rqs) s →
    Vgw.Spec.Register.Linearizable observe fs0.cur (histOf rqs s)

/-! ## theorems by code shape -/

/-- Never missing, by shape: publication that never removes the name (`otmp`: linkat into a free name,
else link to a temp name and rename over the object; `mktemp`: rename; `portable`), whatever the read
mode. -/
theorem overwrite_never_missing_of_shape (c : Cfg) (hs : c.strat = .otmp ∨ c.strat = .mktemp ∨ c.strat = .portable) :
    overwrite_never_missing_full c := by
  intro fs0 rqs s i rq h0 hk hd hreach hi hrd hresp
  obtain ⟨nm, g⟩ := NMInv_reach hs h0 hk hd hreach
  obtain ⟨rq', l, hi', hres⟩ := resp_spec hresp
  have hmem : (rq', l) ∈ s.reqs := List.mem_of_getElem? hi'
  have : rq' = rq := by
    have := g.reqs
    have h2 : (s.reqs.map (·.1))[i]? = some rq' := by rw [List.getElem?_map, hi']; rfl
    rw [this, hi] at h2; exact (Option.some.inj h2).symm
  subst this
  exact (nm.rd _ hmem hrd).2.1 hres

theorem req_of_index {fs0 : FS} {rqs : List Req} {s : State} (g : GInv fs0 rqs s) {i : Nat} {rq rq' : Req} {l : Local}
    (hi : rqs[i]? = some rq) (hi' : s.reqs[i]? = some (rq', l)) : rq' = rq := by
  have h2 : (s.reqs.map (·.1))[i]? = some rq' := by rw [List.getElem?_map, hi']; rfl
  rw [g.reqs, hi] at h2; exact (Option.some.inj h2).symm

/-- Single write, by shape: reads through the descriptor (open first, then fstat and the attributes of
the opened file), with every publication strategy. -/
theorem get_single_write_of_shape (c : Cfg) (hm : c.rmode = .byFd) : get_single_write_full c := by
  intro fs0 rqs s i rq r h0 hreach hi hresp
  obtain ⟨fd, g⟩ := FdInv_reach hm h0 hreach
  obtain ⟨rq', l, hi', hres⟩ := resp_spec hresp
  have hmem : (rq', l) ∈ s.reqs := List.mem_of_getElem? hi'
  have := req_of_index g hi hi'
  subst this
  have hrd := ResKindInv_reach hreach _ hmem r hres
  cases fd _ hmem hrd with
  | fresh _ _ a3 _ => rw [a3] at hres; cases hres
  | running _ _ _ _ a3 => rw [a3] at hres; cases hres
  | failed _ a2 _ => rw [a2] at hres; cases hres
  | answered k ino _ a2 _ a4 =>
    rw [a4] at hres
    simp only [Option.some.injEq, Resp.read.injEq] at hres
    exact ⟨ino, g.vals ino (List.mem_of_getElem? a2), by rw [← hres]; rfl⟩

/-- Linearizable, by shape: publication that never removes the name and reads through the descriptor.
Linearization points: a successful linkat or the rename of a write, the unlink (or the stat that
finds nothing) of a DELETE, the open of a read. -/
theorem linearizable_of_shape (c : Cfg) (hs : c.strat = .otmp ∨ c.strat = .mktemp ∨ c.strat = .portable) (hm : c.rmode = .byFd) :
    linearizable_full c := by
  intro fs0 rqs s h0 hreach
  obtain ⟨L, fd, g⟩ := LInv_reach hs hm h0 hreach
  exact linearizable_of_inv g fd L

/-- Freshness of what a read looks at, for every variant: whatever a read looks at is the key's current
entry at that moment, and that is always the newest inode. -/
theorem read_views_fresh (c : Cfg) : read_views_fresh_full c := by
  intro fs0 rqs s s' i rq rq' l l' h0 hr hr' hi hv hi'
  have key : ∀ s2, Reach c s s2 → FreshInv s.fs.inodes.length i s2 ∧
      (∀ rq2 l2, s2.reqs[i]? = some (rq2, l2) → ∀ k, l2.fd = some k → l.fd = none → s.fs.inodes.length ≤ k + 1) := by
    intro s2 h2
    induction h2 with
    | refl =>
      refine ⟨⟨Nat.le_refl _, ?_⟩, ?_⟩
      · intro rq2 l2 h2 v hv2
        rw [hi] at h2; cases h2; rw [hv] at hv2; cases hv2
      · intro rq2 l2 h2 k hk hn
        rw [hi] at h2; cases h2; rw [hn] at hk; cases hk
    | step hprev hs ih =>
      rename_i sa sb j
      have ga := GInv_reach h0 (Reach.trans hr hprev)
      refine ⟨FreshInv_step ga.last ih.1 hs, ?_⟩
      intro rq2 l2 h2 k hk hn
      obtain ⟨rqj, lj, a, rest, hrj, hp, hfs, hreqs, _⟩ := step_spec hs
      rw [hreqs] at h2
      by_cases hji : j = i
      · subst hji
        have hlt : j < sa.reqs.length := (List.getElem?_eq_some_iff.1 hrj).1
        rw [List.getElem?_set_self hlt] at h2
        simp only [Option.some.injEq, Prod.mk.injEq] at h2
        obtain ⟨rfl, rfl⟩ := h2
        rw [finalize_fd] at hk
        rcases execAct_fd c rqj sa.fs { lj with prog := rest } a with e | ⟨_, e, _⟩
        · rw [e] at hk; exact ih.2 rqj lj hrj k hk hn
        · rw [e] at hk
          have := ga.last k hk
          have := ih.1.1
          omega
      · rw [List.getElem?_set_ne hji] at h2
        exact ih.2 rq2 l2 h2 k hk hn
  obtain ⟨f, g⟩ := key s' hr'
  exact ⟨f.2 rq' l' hi', g rq' l' hi'⟩

/-- Acknowledged ⇒ published, by shape. -/
theorem acked_write_published_of_shape (c : Cfg) (hs : c.strat = .otmp ∨ c.strat = .mktemp ∨ c.strat = .portable)
    (hm : c.rmode = .byFd) : acked_write_published_full c := by
  intro fs0 rqs s j rqj h0 hreach hj hw hresp
  obtain ⟨A, _, _, g⟩ := AckInv_reach hs hm h0 hreach
  obtain ⟨rq', l, hi', hdone, _⟩ := resp_done hresp
  have := req_of_index g hj hi'
  subst this
  exact A _ (List.mem_of_getElem? hi') hw (passed_of_done rq' l hdone)

/-- Read-after-acknowledge freshness, by shape. -/
theorem read_after_ack_fresh_of_shape (c : Cfg) (hs : c.strat = .otmp ∨ c.strat = .mktemp ∨ c.strat = .portable)
    (hm : c.rmode = .byFd) : read_after_ack_fresh_full c := by
  intro fs0 rqs s s' i j rqi rqj r h0 hr hr' hj hw hack hi hresp
  have hpub := acked_write_published_of_shape c hs hm fs0 rqs s j rqj h0 hr hj hw hack
  obtain ⟨p, hp⟩ := List.getElem?_of_mem hpub
  have hplt : p < s.fs.inodes.length := (List.getElem?_eq_some_iff.1 hp).1
  have hreach' := Reach.trans hr hr'
  obtain ⟨fd, g'⟩ := FdInv_reach hm h0 hreach'
  obtain ⟨rq', l', hi', hres⟩ := resp_spec hresp
  have hmem : (rq', l') ∈ s'.reqs := List.mem_of_getElem? hi'
  have hrd := ResKindInv_reach hreach' _ hmem r hres
  -- the request at index i is the same request in s and s'
  have g := GInv_reach h0 hr
  have hrqi : rqs[i]? = some rqi := by rw [← g.reqs, List.getElem?_map, hi]; rfl
  have := req_of_index g' hrqi hi'
  subst this
  cases fd _ hmem hrd with
  | fresh _ _ a3 _ => rw [a3] at hres; cases hres
  | running _ _ _ _ a3 => rw [a3] at hres; cases hres
  | failed _ a2 _ => rw [a2] at hres; cases hres
  | answered k ino a1 a2 _ a4 =>
    rw [a4] at hres
    simp only [Option.some.injEq, Resp.read.injEq] at hres
    have hfresh := (read_views_fresh c fs0 rqs s s' i rq' rq' _ l' h0 hr hr' hi rfl hi').2 k a1 rfl
    exact ⟨p, k, ino, hp, a2, by omega, by rw [← hres]; rfl⟩

/-! ## the code as it is — the main theorems -/

/-- the configuration of the code under test, with (`true`) and without (`false`, `--disableotmp`) O_TMPFILE. -/
def cur (otmp : Bool) : Cfg := codeVariant.cfg otmp

theorem cur_shape (otmp : Bool) :
    ((cur otmp).strat = .otmp ∨ (cur otmp).strat = .mktemp ∨ (cur otmp).strat = .portable) ∧ (cur otmp).rmode = .byFd := by
  cases otmp <;> simp [cur, codeVariant, Variant.cfg]

/-- **Every successful GET/HEAD answers body, length, ETag and metadata of one and the same write** —
for any number of concurrent writers, deleters and readers of the key and every interleaving. -/
theorem get_single_write (otmp : Bool) : get_single_write_full (cur otmp) :=
  get_single_write_of_shape _ (cur_shape otmp).2

/-- **A key that exists and is only being overwritten never appears missing.** -/
theorem overwrite_never_missing (otmp : Bool) : overwrite_never_missing_full (cur otmp) :=
  overwrite_never_missing_of_shape _ (cur_shape otmp).1

/-- **All outcomes are explained by one order that respects real time**: every run's history is
linearizable with respect to the atomic register holding the complete object of one write. -/
theorem linearizable (otmp : Bool) : linearizable_full (cur otmp) :=
  linearizable_of_shape _ (cur_shape otmp).1 (cur_shape otmp).2

/-- **An acknowledged write has been published** (its complete object is in the inode table). -/
theorem acked_write_published (otmp : Bool) : acked_write_published_full (cur otmp) :=
  acked_write_published_of_shape _ (cur_shape otmp).1 (cur_shape otmp).2

/-- **A read that starts after a write was acknowledged never returns older data.** -/
theorem read_after_ack_fresh (otmp : Bool) : read_after_ack_fresh_full (cur otmp) :=
  read_after_ack_fresh_of_shape _ (cur_shape otmp).1 (cur_shape otmp).2

/-! ## non-vacuity (tests on concrete runs, not proofs of the clauses) -/

/-- a PUT over an existing object, a GET after it: the published inode is B's whole object and the
    GET answers exactly B. -/
example :
    let wA : Write := { blob := ⟨1, 3⟩, attrs := [(.umeta 0, 1), (.etag, 1)] }
    let wB : Write := { blob := ⟨2, 5⟩, attrs := [(.umeta 0, 2), (.checksums, 2), (.etag, 2), (.ctype, 2)] }
    let c : Cfg := cur true
    let s := run c (init c { inodes := [inodeOf wA], key := some 0 } [{ kind := .put, w := wB }, { kind := .get }])
              (List.replicate 12 0 ++ List.replicate 16 1)
    s.fs.inodes[1]? = some (inodeOf wB) ∧ s.resp 1 = some (.read (observe (inodeOf wB) false)) := by decide

/-- tags are part of the object: an upload with a tag set against a write without one — whichever is
    published last, the GET answers body, ETag, metadata AND tag set of that one write. -/
example :
    let wA : Write := { blob := ⟨1, 3⟩, attrs := [(.etag, 1)] }
    let wM : Write := { blob := ⟨2, 5⟩, attrs := [(.umeta 0, 2), (.tags, 2), (.etag, 2)] }
    let wP : Write := { blob := ⟨3, 4⟩, attrs := [(.checksums, 3), (.etag, 3)] }
    let c : Cfg := cur true
    let s := run c (init c { inodes := [inodeOf wA], key := some 0 }
                  [{ kind := .mpu, w := wM }, { kind := .put, w := wP }, { kind := .get }])
              (List.replicate 8 0 ++ List.replicate 9 1 ++ [0, 0, 0] ++ List.replicate 16 2)
    s.resp 2 = some (.read (observe (written { kind := .mpu, w := wM }) false)) ∧
    (observe (written { kind := .mpu, w := wM }) false).tags = some 2 := by decide

/-- the code's publication: a GET between any two steps of the overwrite still finds the key. -/
example :
    let wA : Write := { blob := ⟨1, 3⟩, attrs := [(.etag, 1)] }
    let wB : Write := { blob := ⟨2, 5⟩, attrs := [(.etag, 2)] }
    let c : Cfg := cur true
    let s := run c (init c { inodes := [inodeOf wA], key := some 0 } [{ kind := .put, w := wB }, { kind := .get }])
              ([0, 0, 0, 0, 0, 0] ++ List.replicate 16 1)
    s.resp 1 = some (.read (observe (inodeOf wA) false)) := by decide

/-- the schedule that tears a by-path read (Open/C05): the code as it is answers exactly A, and the
    read is linearized before the overwrite. -/
example :
    let wA : Write := { blob := ⟨1, 1⟩, attrs := [(.umeta 0, 1), (.etag, 1)] }
    let wB : Write := { blob := ⟨2, 1⟩, attrs := [(.umeta 0, 2), (.etag, 2)] }
    let c : Cfg := cur true
    let s := run c (init c { inodes := [inodeOf wA], key := some 0 } [{ kind := .put, w := wB }, { kind := .get }])
              ([1, 1, 1, 1] ++ List.replicate 12 0 ++ List.replicate 12 1)
    s.resp 1 = some (.read (observe (inodeOf wA) false)) ∧ s.resp 0 = some .ok ∧
    (ptsT s.trace).map (·.2) = [1, 0] := by decide

end Vgw.Props.C05
