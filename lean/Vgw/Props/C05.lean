/-
  C05 — per-key reads and writes are atomic and linearizable.

  Theorems about the transition system `Model.Conc` (any number of concurrent PUT / COPY /
  multipart-complete / DELETE / GET / HEAD requests on one key, every interleaving of their atomic
  filesystem steps: `Reach` quantifies over all step sequences, the request pool `rqs` is arbitrary).
  There is no process structure in the model (the posix backend keeps no in-process state about
  objects), so the statements cover one gateway process as well as several on the same storage.

  `Cfg` says which code shape is meant (`Model.Conc.Variant.cfg`, one constant `codeVariant`):
  `strat ∈ {otmp, mktemp}` with `rmode = byPath` is the code as it is (Linux build, with and without
  O_TMPFILE); `portable` is the non-Linux build's publication; `otmpOld` / `mktempOld` are the
  REGRESSION variants (publication by remove-then-link, the code before commit 4399f3e); `byFd` is
  the proposed fix of GetObject/HeadObject (docs/C05-fix-2.diff).

  Each clause of the property is a `def …_full (c : Cfg) : Prop`. Where the code as it is violates a
  clause the negation is proved in `Open/C05.lean` from a concrete schedule, and the `_partial`
  theorem here carries the hypothesis under which the clause does hold.
-/
import Vgw.Lemmas.ConcMissing
import Vgw.Lemmas.ConcFd
import Vgw.Lemmas.ConcLin5
import Vgw.Model.ConcHist
import Vgw.Spec.Register
namespace Vgw.Props.C05
open Vgw.Model.Conc

/-- the objects that can legitimately be read: what the key held at the start and the complete
    object of every write request. -/
def IsValue (fs0 : FS) (rqs : List Req) (ino : Inode) : Prop :=
  ino ∈ fs0.inodes ∨ ∃ rq ∈ rqs, rq.kind.isWrite = true ∧ ino = written rq

/-! ## what holds for the code as it is, for every strategy and every interleaving -/

/-- **Every inode ever published under the key carries the data and ALL attributes of exactly one
write**: the attributes are written through the descriptor before the publication step. -/
theorem inode_complete_inv (c : Cfg) (fs0 : FS) (rqs : List Req) (s : State) (h0 : KeyLast fs0)
    (h : Reach c (init c fs0 rqs) s) : ∀ ino ∈ s.fs.inodes, IsValue fs0 rqs ino :=
  (GInv_reach h0 h).vals

/-- … in particular the inode the key is linked to. -/
theorem linked_inode_complete (c : Cfg) (fs0 : FS) (rqs : List Req) (s : State) (h0 : KeyLast fs0)
    (h : Reach c (init c fs0 rqs) s) (k : Nat) (hk : s.fs.key = some k) :
    ∃ ino, s.fs.inodes[k]? = some ino ∧ IsValue fs0 rqs ino := by
  have g := GInv_reach h0 h
  have := g.last k hk
  have hlt : k < s.fs.inodes.length := by omega
  exact ⟨s.fs.inodes[k], List.getElem?_eq_getElem hlt, g.vals _ (List.getElem_mem hlt)⟩

theorem resp_spec {s : State} {i : Nat} {r : Resp} (h : s.resp i = some r) :
    ∃ rq l, s.reqs[i]? = some (rq, l) ∧ l.result = some r := by
  unfold State.resp at h
  split at h
  · rename_i rq l hr
    split at h
    · exact ⟨rq, l, hr, h⟩
    · cases h
  · cases h

/-- **The file a successful GET streams is the complete data of exactly one write** — never bytes
of two writes. (How many of its bytes reach the client is decided by the Content-Length, which
comes from a separate `stat`: see `get_single_write_full`.) -/
theorem get_body_single_write (c : Cfg) (fs0 : FS) (rqs : List Req) (s : State) (h0 : KeyLast fs0)
    (h : Reach c (init c fs0 rqs) s) (i : Nat) (r : ReadResp) (b : Blob)
    (hr : s.resp i = some (.read r)) (hb : r.body = some b) :
    ∃ ino, IsValue fs0 rqs ino ∧ b = ino.data := by
  obtain ⟨rq, l, hi, hres⟩ := resp_spec hr
  obtain ⟨ino, hm, e⟩ := (BodyInv_reach h (rq, l) (List.mem_of_getElem? hi)).2 r b hres hb
  exact ⟨ino, inode_complete_inv c fs0 rqs s h0 h ino hm, e⟩

/-! ## the clauses of the property at full strength -/

/-- a successful GET/HEAD answers body (GET), length, ETag and metadata of one and the same write. -/
def get_single_write_full (c : Cfg) : Prop :=
  ∀ (fs0 : FS) (rqs : List Req) (s : State) (i : Nat) (rq : Req) (r : ReadResp),
    KeyLast fs0 → Reach c (init c fs0 rqs) s →
    rqs[i]? = some rq → s.resp i = some (.read r) →
    ∃ ino, IsValue fs0 rqs ino ∧ r = observe ino (rq.kind == .head)

/-- a key that exists and is only being overwritten (no DELETE among the requests) never appears missing. -/
def overwrite_never_missing_full (c : Cfg) : Prop :=
  ∀ (fs0 : FS) (rqs : List Req) (s : State) (i : Nat) (rq : Req),
    KeyLast fs0 → fs0.key ≠ none → (∀ rq ∈ rqs, rq.kind ≠ .delete) → Reach c (init c fs0 rqs) s →
    rqs[i]? = some rq → rq.kind.isRead = true → s.resp i ≠ some .noSuchKey

/-- a read that starts (takes its first step) in a state `s` never looks at an inode older than the
    newest one published up to `s` — in particular none older than any write acknowledged by then. -/
def read_after_ack_fresh_full (c : Cfg) : Prop :=
  ∀ (fs0 : FS) (rqs : List Req) (s s' : State) (i : Nat) (rq rq' : Req) (l l' : Local),
    KeyLast fs0 → Reach c (init c fs0 rqs) s → Reach c s s' →
    s.reqs[i]? = some (rq, l) → l.views = [] → s'.reqs[i]? = some (rq', l') →
    (∀ v, some v ∈ l'.views → s.fs.inodes.length ≤ v + 1) ∧
    (∀ k, l'.fd = some k → l.fd = none → s.fs.inodes.length ≤ k + 1)

/-- the answers of all requests are explained by ONE order that respects real time: the history of
    every run (operations, invocation = first step, response = last step, answers) is linearizable
    with respect to the atomic register holding the complete object of one write (Spec.Register);
    a reader's answer must be `observe` of the register's value. -/
def linearizable_full (c : Cfg) : Prop :=
  ∀ (fs0 : FS) (rqs : List Req) (s : State), KeyLast fs0 → Reach c (init c fs0 rqs) s →
    Vgw.Spec.Register.Linearizable observe fs0.cur (histOf rqs s)

/-! ## `_partial` theorems and the clauses that hold in full -/

/-- **Never missing — holds for the code as it is** (`otmp`: linkat into a free name, else link to
a temp name and rename over the object; `mktemp`: rename; also the non-Linux build), whatever the read
mode, under every interleaving of any number of writers and readers: a key that exists and is only
being overwritten is found by every GET/HEAD. (The regression variants `otmpOld` / `mktempOld`, which
remove the name first, violate it: witness in `Open/C05.lean`; the check reports that window as a
violation should it ever return.) -/
theorem overwrite_never_missing (c : Cfg) (hs : c.strat = .otmp ∨ c.strat = .mktemp ∨ c.strat = .portable) :
    overwrite_never_missing_full c := by
  intro fs0 rqs s i rq h0 hk hd hreach hi hrd hresp
  obtain ⟨nm, g⟩ := NMInv_reach hs h0 hk hd hreach
  obtain ⟨rq', l, hi', hres⟩ := resp_spec hresp
  have hmem : (rq', l) ∈ s.reqs := List.mem_of_getElem? hi'
  have : rq' = rq := by
    have := g.reqs
    have h2 : (s.reqs.map (·.1))[i]? = some rq' := by rw [List.getElem?_map, hi']; rfl
    rw [this, hi] at h2; exact (Option.some.inj h2).symm
  subst this
  exact (nm.rd _ hmem hrd).2.1 hres

/-- … instantiated for the variant the code under test has. -/
theorem overwrite_never_missing_code (otmp : Bool) : overwrite_never_missing_full (codeVariant.cfg otmp) := by
  apply overwrite_never_missing
  cases otmp <;> simp [codeVariant, Variant.cfg]

theorem req_of_index {fs0 : FS} {rqs : List Req} {s : State} (g : GInv fs0 rqs s) {i : Nat} {rq rq' : Req} {l : Local}
    (hi : rqs[i]? = some rq) (hi' : s.reqs[i]? = some (rq', l)) : rq' = rq := by
  have h2 : (s.reqs.map (·.1))[i]? = some rq' := by rw [List.getElem?_map, hi']; rfl
  rw [g.reqs, hi] at h2; exact (Option.some.inj h2).symm

/-- **Single write, for reads through the descriptor** (the shape of the proposed fix of
GetObject/HeadObject: open first, then fstat and the attributes of the opened file): under every
interleaving, with every publication strategy, a successful GET/HEAD answers body, length, ETag and
metadata of one and the same write. False for the code as it is (stat, attributes and open each by
path): `Open.C05.get_single_write_false`. -/
theorem get_single_write_byFd (c : Cfg) (hm : c.rmode = .byFd) : get_single_write_full c := by
  intro fs0 rqs s i rq r h0 hreach hi hresp
  obtain ⟨fd, g⟩ := FdInv_reach hm h0 hreach
  obtain ⟨rq', l, hi', hres⟩ := resp_spec hresp
  have hmem : (rq', l) ∈ s.reqs := List.mem_of_getElem? hi'
  have := req_of_index g hi hi'
  subst this
  have hrd := ResKindInv_reach hreach _ hmem r hres
  cases fd _ hmem hrd with
  | fresh _ _ a3 _ => rw [a3] at hres; cases hres
  | running _ _ _ _ a3 => rw [a3] at hres; cases hres
  | failed _ a2 _ => rw [a2] at hres; cases hres
  | answered k ino _ a2 _ a4 =>
    rw [a4] at hres
    simp only [Option.some.injEq, Resp.read.injEq] at hres
    exact ⟨ino, g.vals ino (List.mem_of_getElem? a2), by rw [← hres]; rfl⟩

/-- **Linearizable, for the code's publication and reads through the descriptor** (the code as it is
plus the proposed fix of GetObject/HeadObject, `Variant.proposed`): for any number of concurrent PUT / COPY / multipart-complete /
DELETE / GET / HEAD requests and every interleaving of their filesystem steps, the answers are
explained by one order that respects real time — refinement to the atomic register of
Spec.Register, linearization points: the rename of a write, the unlink (or the stat that finds
nothing) of a DELETE, the open of a read. False for the code as it is: `Open.C05.linearizable_false`. -/
theorem linearizable_partial (c : Cfg) (hs : c.strat = .otmp ∨ c.strat = .mktemp ∨ c.strat = .portable) (hm : c.rmode = .byFd) :
    linearizable_full c := by
  intro fs0 rqs s h0 hreach
  obtain ⟨L, fd, g⟩ := LInv_reach hs hm h0 hreach
  exact linearizable_of_inv g fd L

/-- … instantiated for the proposed variant: with docs/C05-fix-2 applied every clause holds. -/
theorem proposed_variant_all_clauses (otmp : Bool) :
    get_single_write_full (Variant.proposed.cfg otmp) ∧ overwrite_never_missing_full (Variant.proposed.cfg otmp) ∧
    linearizable_full (Variant.proposed.cfg otmp) := by
  have hs : (Variant.proposed.cfg otmp).strat = .otmp ∨ (Variant.proposed.cfg otmp).strat = .mktemp ∨
      (Variant.proposed.cfg otmp).strat = .portable := by cases otmp <;> simp [Variant.cfg]
  exact ⟨get_single_write_byFd _ rfl, overwrite_never_missing _ hs, linearizable_partial _ hs rfl⟩

/-- **Read-after-acknowledge freshness holds for the code as it is** (every strategy, both read
modes): whatever a read looks at is the key's current entry at that moment, and that is always the
newest inode. -/
theorem read_after_ack_fresh (c : Cfg) : read_after_ack_fresh_full c := by
  intro fs0 rqs s s' i rq rq' l l' h0 hr hr' hi hv hi'
  have key : ∀ s2, Reach c s s2 → FreshInv s.fs.inodes.length i s2 ∧
      (∀ rq2 l2, s2.reqs[i]? = some (rq2, l2) → ∀ k, l2.fd = some k → l.fd = none → s.fs.inodes.length ≤ k + 1) := by
    intro s2 h2
    induction h2 with
    | refl =>
      refine ⟨⟨Nat.le_refl _, ?_⟩, ?_⟩
      · intro rq2 l2 h2 v hv2
        rw [hi] at h2; cases h2; rw [hv] at hv2; cases hv2
      · intro rq2 l2 h2 k hk hn
        rw [hi] at h2; cases h2; rw [hn] at hk; cases hk
    | step hprev hs ih =>
      rename_i sa sb j
      have ga := GInv_reach h0 (Reach.trans hr hprev)
      refine ⟨FreshInv_step ga.last ih.1 hs, ?_⟩
      intro rq2 l2 h2 k hk hn
      obtain ⟨rqj, lj, a, rest, hrj, hp, hfs, hreqs, _⟩ := step_spec hs
      rw [hreqs] at h2
      by_cases hji : j = i
      · subst hji
        have hlt : j < sa.reqs.length := (List.getElem?_eq_some_iff.1 hrj).1
        rw [List.getElem?_set_self hlt] at h2
        simp only [Option.some.injEq, Prod.mk.injEq] at h2
        obtain ⟨rfl, rfl⟩ := h2
        rw [finalize_fd] at hk
        rcases execAct_fd c rqj sa.fs { lj with prog := rest } a with e | ⟨_, e, _⟩
        · rw [e] at hk; exact ih.2 rqj lj hrj k hk hn
        · rw [e] at hk
          have := ga.last k hk
          have := ih.1.1
          omega
      · rw [List.getElem?_set_ne hji] at h2
        exact ih.2 rq2 l2 h2 k hk hn
  obtain ⟨f, g⟩ := key s' hr'
  exact ⟨f.2 rq' l' hi', g rq' l' hi'⟩

/-! ## non-vacuity (tests on concrete runs, not proofs of the clauses) -/

/-- a PUT over an existing object, a GET after it: the published inode is B's whole object and the
    GET answers exactly B. -/
example :
    let wA : Write := { blob := ⟨1, 3⟩, attrs := [(.umeta 0, 1), (.etag, 1)] }
    let wB : Write := { blob := ⟨2, 5⟩, attrs := [(.umeta 0, 2), (.checksums, 2), (.etag, 2), (.ctype, 2)] }
    let c : Cfg := ⟨.otmp, .byPath⟩
    let s := run c (init c { inodes := [inodeOf wA], key := some 0 } [{ kind := .put, w := wB }, { kind := .get }])
              (List.replicate 12 0 ++ List.replicate 16 1)
    s.fs.inodes[1]? = some (inodeOf wB) ∧ s.resp 1 = some (.read (observe (inodeOf wB) false)) := by decide

/-- the code's publication: a GET between any two steps of the overwrite still finds the key. -/
example :
    let wA : Write := { blob := ⟨1, 3⟩, attrs := [(.etag, 1)] }
    let wB : Write := { blob := ⟨2, 5⟩, attrs := [(.etag, 2)] }
    let c : Cfg := ⟨.otmp, .byPath⟩
    let s := run c (init c { inodes := [inodeOf wA], key := some 0 } [{ kind := .put, w := wB }, { kind := .get }])
              ([0, 0, 0, 0, 0, 0] ++ List.replicate 16 1)
    s.resp 1 = some (.read (observe (inodeOf wA) false)) := by decide

/-- the fixed shapes on the two schedules that break the code as it is: the answers are those of one
    write and the history is accepted by the executable oracle. -/
example :
    let wA : Write := { blob := ⟨1, 1⟩, attrs := [(.umeta 0, 1), (.etag, 1)] }
    let wB : Write := { blob := ⟨2, 1⟩, attrs := [(.umeta 0, 2), (.etag, 2)] }
    let c : Cfg := ⟨.otmp, .byFd⟩
    let s := run c (init c { inodes := [inodeOf wA], key := some 0 } [{ kind := .put, w := wB }, { kind := .get }])
              ([1, 1, 1, 1] ++ List.replicate 12 0 ++ List.replicate 12 1)
    s.resp 1 = some (.read (observe (inodeOf wA) false)) ∧ s.resp 0 = some .ok ∧
    (ptsT s.trace).map (·.2) = [1, 0] := by decide

end Vgw.Props.C05
