/-
  C19 — Event notifications match committed changes.
  Theorems over `Model.Gw.step`: what is handed to the event sender (the record is built
  synchronously, before the asynchronous delivery; delivery itself is runtime behaviour observed
  only by the correspondence check).
-/
import Vgw.Lemmas.GwMaps
namespace Vgw.Props.C19
open Vgw Vgw.Model.Gw

/-- **A request that failed results in no notification**, for every operation, caller, state and
filter configuration. -/
theorem no_event_on_error (cfg : Cfg) (s : State) (r : Req) (h : (step cfg s r).2.code ≠ "") :
    (step cfg s r).2.events = [] := by
  unfold step at h ⊢
  split
  · rfl
  · rename_i w hw
    simp only [hw, finish_code] at h
    simp only [finish, h, if_false]

/-- **Filter semantics**: the exact event name decides when it is listed; otherwise its `…:*`
wildcard decides when that is listed; otherwise the event is dropped. No filter file: everything
passes. -/
theorem filter_exact (m : List (String × Bool)) (name : String) (v : Bool)
    (h : m.find? (·.1 == name) = some (name, v)) : filterPass (some m) name = v := by
  simp [filterPass, h]

theorem filter_wildcard (m : List (String × Bool)) (name : String) (v : Bool)
    (h : m.find? (·.1 == name) = none)
    (hw : m.find? (·.1 == ":".intercalate ((name.splitOn ":").dropLast ++ ["*"])) =
      some (":".intercalate ((name.splitOn ":").dropLast ++ ["*"]), v)) :
    filterPass (some m) name = v := by
  simp [filterPass, h, hw]

theorem filter_drop (m : List (String × Bool)) (name : String)
    (h : m.find? (·.1 == name) = none)
    (hw : m.find? (·.1 == ":".intercalate ((name.splitOn ":").dropLast ++ ["*"])) = none) :
    filterPass (some m) name = false := by
  simp [filterPass, h, hw]

theorem filter_none (name : String) : filterPass none name = true := rfl

/-- every record that leaves `step` passed the filter -/
theorem events_pass_filter (cfg : Cfg) (s : State) (r : Req) :
    ∀ e ∈ (step cfg s r).2.events, filterPass cfg.eventFilter e.name = true := by
  unfold step
  split
  · intro e he; cases he
  · simp only [finish]
    split
    · intro e he; exact (List.mem_filter.mp he).2
    · intro e he; cases he

/-- **A successful PUT hands over exactly one record, naming that bucket and key, the size of the
stored body and its ETag.** -/
theorem put_one_event (cfg : Cfg) (s : State) (w : Who) (now : Int) (b k : Bytes) (p : PutSpec) (nv : Bytes)
    (hok : (handle cfg s w now (.putObject b k p nv)).2.code = "") :
    (handle cfg s w now (.putObject b k p nv)).2.events = [⟨"s3:ObjectCreated:Put", b, k, p.data.size, p.etag⟩] := by
  simp only [handle] at hok ⊢
  unfold withBucket at hok ⊢
  split
  · rename_i h; simp only [h] at hok; exact absurd hok (errR_code_ne _)
  · rename_i bk h
    simp only [h] at hok
    simp only []
    cases h1 : verifyAccess cfg bk w .write actPutObject k with
    | some e => rw [h1] at hok; exact absurd hok (errR_code_ne e)
    | none =>
      rw [h1] at hok
      simp only [guarded] at hok ⊢
      cases h2 : lockCheck bk w now true k [] with
      | some e => rw [h2] at hok; exact absurd hok (errR_code_ne e)
      | none => rfl

/-- **A successful DELETE hands over exactly one record for that key.** -/
theorem delete_one_event (cfg : Cfg) (s : State) (w : Who) (now : Int) (b k vid : Bytes) (bp : Bool) (nv : Bytes)
    (hok : (handle cfg s w now (.deleteObject b k vid bp nv)).2.code = "") :
    (handle cfg s w now (.deleteObject b k vid bp nv)).2.events = [⟨"s3:ObjectRemoved:Delete", b, k, 0, []⟩] := by
  simp only [handle] at hok ⊢
  unfold withBucket at hok ⊢
  split
  · rename_i h; simp only [h] at hok; exact absurd hok (errR_code_ne _)
  · rename_i bk h
    simp only [h] at hok
    simp only []
    cases h1 : verifyAccess cfg bk w .write actDeleteObject k with
    | some e => rw [h1] at hok; exact absurd hok (errR_code_ne e)
    | none =>
      rw [h1] at hok
      simp only [guarded] at hok ⊢
      cases h2 : lockCheck bk w now bp k vid with
      | some e => rw [h2] at hok; exact absurd hok (errR_code_ne e)
      | none =>
        rw [h2] at hok
        simp only at hok ⊢
        have : ((deleteOne cfg bk k vid nv).2.code == "") = true := by simpa using hok
        simp [this, evt]

/-- **A batch delete hands over one record per key it deleted** (none for a key whose deletion
failed), each naming that key. -/
theorem batch_events_name_deleted_keys (cfg : Cfg) (s : State) (w : Who) (now : Int) (b : Bytes)
    (keys : List (Bytes × Bytes)) (bp : Bool) (nvs : List Bytes) :
    ∀ e ∈ (handle cfg s w now (.deleteObjects b keys bp nvs)).2.events,
      e.name = "s3:ObjectRemoved:DeleteObjects" ∧ e.bucket = b ∧ ∃ v, (e.key, v) ∈ keys := by
  simp only [handle]
  unfold withBucket
  split
  · intro e he; cases he
  · rename_i bk _
    apply guarded_cases (P := fun r => ∀ e ∈ r.2.events, e.name = "s3:ObjectRemoved:DeleteObjects" ∧ e.bucket = b ∧ ∃ v, (e.key, v) ∈ keys)
    · intro _ _ e he; cases he
    · intro _
      apply guarded_cases (P := fun r => ∀ e ∈ r.2.events, e.name = "s3:ObjectRemoved:DeleteObjects" ∧ e.bucket = b ∧ ∃ v, (e.key, v) ∈ keys)
      · intro _ _ e he; cases he
      · intro _ e he
        simp only [okR, List.mem_map, List.mem_filter] at he
        obtain ⟨⟨k, c⟩, ⟨hmem, _⟩, rfl⟩ := he
        refine ⟨rfl, rfl, ?_⟩
        -- the outcome list lists requested keys only
        have hsub : ∀ (ks : List (Bytes × Bytes)) (acc : Bucket × List (Bytes × String) × List Bytes),
            ∀ x ∈ (ks.foldl (fun (acc : Bucket × List (Bytes × String) × List Bytes) (kv : Bytes × Bytes) =>
                (((deleteOne cfg acc.1 kv.1 kv.2 (acc.2.2.head?.getD [])).1),
                 acc.2.1 ++ [(kv.1, (deleteOne cfg acc.1 kv.1 kv.2 (acc.2.2.head?.getD [])).2.code)],
                 if ((deleteOne cfg acc.1 kv.1 kv.2 (acc.2.2.head?.getD [])).2.fields.any (fun f => f.1 == "deletemarker" && f.2 == "true") && kv.2.isEmpty) then acc.2.2.drop 1 else acc.2.2))
              acc).2.1, x ∈ acc.2.1 ∨ ∃ v, (x.1, v) ∈ ks := by
          intro ks
          induction ks with
          | nil => intro acc x hx; exact Or.inl hx
          | cons kv rest ih =>
            intro acc x hx
            simp only [List.foldl_cons] at hx
            rcases ih _ x hx with h1 | ⟨v, hv⟩
            · simp only [List.mem_append, List.mem_singleton] at h1
              rcases h1 with h1 | h1
              · exact Or.inl h1
              · exact Or.inr ⟨kv.2, by rw [h1]; exact List.mem_cons_self⟩
            · exact Or.inr ⟨v, List.mem_cons_of_mem _ hv⟩
        rcases hsub keys (bk, [], nvs) (k, c) hmem with h1 | h2
        · cases h1
        · exact h2

/-! non-vacuity (the wildcard branch goes through `String.splitOn`, which the kernel does not
unfold; it is exercised by the correspondence check's filter configurations) -/
example : filterPass (some [("s3:ObjectCreated:*", true), ("s3:ObjectCreated:Copy", false)]) "s3:ObjectCreated:Copy" = false := by decide
example : filterPass none "s3:ObjectRemoved:Delete" = true := rfl

end Vgw.Props.C19
