import Vgw.Lemmas.CrashAtomic
/-
  Property C11 — a gateway crash never leaves a half-written or vanished object.

  The theorems are about Model.Crash: the step lists of PutObject, CopyObject, CompleteMultipartUpload,
  UploadPart and DeleteObject (both temp-file strategies, both metadata stores, every versioning status),
  a kill between any two steps, and the view the API shows after the restart.  They hold for EVERY file
  system, every request and every crash point — not for sampled ones.

  proved for all configurations
    * `others_untouched`, `acked_persists`  no crash of any request changes what the API shows for a key that
                                            is unrelated to the request's key; a kill loses nothing named
    * `leftovers_invisible`                 names below `.sgwtmp` are never listed; no crash makes an unrelated key
                                            appear in or disappear from the listing
    * `plan_writes_owned`                   where a request can write at all
  proved for the class `Safe` (the requests for which the UNCHANGED backend is atomic)
    * `crash_atomic_partial`, `listing_atomic_partial`
  full statements that the unchanged backend violates (negations in Open/C11.lean, replayed by the harness)
    * `crash_atomic_full`  — overwrite = remove, then link; tags written after publication; sidecar store
-/
namespace Vgw.Props.C11
open Vgw.Model.Crash

/-- FULL STATEMENT (clause 1 of C11). For every configuration, request, file system and crash point the view of the
    request's key after the restart is the complete previous one or the complete new one. -/
def crash_atomic_full : Prop :=
  ∀ (cfg : Cfg) (rq : Req) (fs : FS) (n : Nat), KeyOK rq.key →
    view cfg (crashAt n (plan cfg rq fs) fs) rq.key = view cfg fs rq.key ∨
    view cfg (crashAt n (plan cfg rq fs) fs) rq.key = view cfg (run (plan cfg rq fs) fs) rq.key

def keyOKB (key : Path) : Bool := !key.isEmpty && key.head? != some ".sgwtmp"

theorem keyOK_of_B {key : Path} (h : keyOKB key = true) : KeyOK key := by
  simp only [keyOKB, Bool.and_eq_true, Bool.not_eq_eq_eq_not, Bool.not_true, List.isEmpty_eq_false_iff, ne_eq,
    bne_iff_ne] at h
  exact h

/-- The class for which the unchanged backend is crash-atomic (decidable). Excluded, and shown to fail in
    Open/C11.lean: overwriting an existing key (remove, then link), attributes written by name after the
    publication (tags; legal hold and retention alike), the sidecar metadata store, DeleteObject in a versioned
    bucket (archive copy, then two attribute writes on the live file). -/
def SafeB (cfg : Cfg) (rq : Req) (fs : FS) : Bool :=
  !cfg.sidecar && keyOKB rq.key &&
  match rq.op with
  | .put => (fs.get (objPath cfg rq.key)).isNone && !rq.tags
  | .copy => (fs.get (objPath cfg rq.key)).isNone && (readAttr cfg fs (objPath cfg rq.src) "X-Amz-Tagging").isNone
  | .delete => !(cfg.verDir && cfg.vstatus != .off)
  | .uploadPart => true
  | .complete => (fs.get (objPath cfg rq.key)).isNone

/-- at most one step of a safe request's plan writes anything its key's view reads -/
theorem safe_one_commit (cfg : Cfg) (rq : Req) (fs : FS) (h : SafeB cfg rq fs = true) :
    (plan cfg rq fs).countP (fun s => !s.silent (reads cfg rq.key)) ≤ 1 := by
  simp only [SafeB, Bool.and_eq_true, Bool.not_eq_eq_eq_not, Bool.not_true] at h
  obtain ⟨⟨hs, hkB⟩, hop⟩ := h
  have hk := keyOK_of_B hkB
  unfold plan
  split <;> rename_i hopEq <;> rw [hopEq] at hop <;>
    simp only [Bool.and_eq_true, Option.isNone_iff_eq_none, Bool.not_eq_eq_eq_not, Bool.not_true] at hop
  · -- put
    exact countP_planPutSpec_new cfg hs rq rq.key hk fs _ (by simp [putSpecOf, hop.2]) hop.1
  · -- copy
    unfold planCopy
    dsimp only
    split
    · split
      · simp
      · refine countP_planPutSpec_new cfg hs rq rq.key hk fs _ ?_ hop.1
        simp [hop.2]
    · simp
  · exact countP_planDelete_unversioned cfg hs (by simpa using hop) rq hk fs
  · exact Nat.le_trans (Nat.le_of_eq (countP_zero_of_silent (silent_of_aside (aside_planUploadPart cfg hs rq hk fs) hk))) (Nat.zero_le 1)
  · exact countP_planComplete_new cfg hs rq hk fs hop

/-- C11, clause 1, for the safe class: killed at ANY step, the key shows its complete previous state or the
    complete new state (data, ETag, content type, user metadata, version id, tags: all from the same side). -/
theorem crash_atomic_partial (cfg : Cfg) (rq : Req) (fs : FS) (n : Nat) (h : SafeB cfg rq fs = true) :
    view cfg (crashAt n (plan cfg rq fs) fs) rq.key = view cfg fs rq.key ∨
    view cfg (crashAt n (plan cfg rq fs) fs) rq.key = view cfg (run (plan cfg rq fs) fs) rq.key :=
  view_atomic_of_countP cfg rq.key _ fs (safe_one_commit cfg rq fs h) n

/-- … and so does its ListObjects entry. -/
theorem listing_atomic_partial (cfg : Cfg) (rq : Req) (fs : FS) (n : Nat) (h : SafeB cfg rq fs = true) :
    listed cfg (crashAt n (plan cfg rq fs) fs) rq.key = listed cfg fs rq.key ∨
    listed cfg (crashAt n (plan cfg rq fs) fs) rq.key = listed cfg (run (plan cfg rq fs) fs) rq.key :=
  listed_atomic_of_countP cfg rq.key _ fs (safe_one_commit cfg rq fs h) n

/-- The class that is crash-atomic once docs/C11-fix-1.diff is applied (`cfg.atomicReplace`): overwrites included.
    With docs/C11-fix-2.diff (`cfg.tagsFirst`) tagged PutObject requests are included as well. -/
def SafeFixedB (cfg : Cfg) (rq : Req) (fs : FS) : Bool :=
  cfg.atomicReplace && !cfg.sidecar && keyOKB rq.key &&
  match rq.op with
  | .put => !rq.tags || cfg.tagsFirst
  | .copy => (readAttr cfg fs (objPath cfg rq.src) "X-Amz-Tagging").isNone
  | .delete => !(cfg.verDir && cfg.vstatus != .off)
  | .uploadPart => true
  | .complete => true

theorem fixed_one_commit (cfg : Cfg) (rq : Req) (fs : FS) (h : SafeFixedB cfg rq fs = true) :
    (plan cfg rq fs).countP (fun s => !s.silent (reads cfg rq.key)) ≤ 1 := by
  simp only [SafeFixedB, Bool.and_eq_true, Bool.not_eq_eq_eq_not, Bool.not_true] at h
  obtain ⟨⟨⟨har, hs⟩, hkB⟩, hop⟩ := h
  have hk := keyOK_of_B hkB
  unfold plan
  split <;> rename_i hopEq <;> rw [hopEq] at hop <;>
    simp only [Bool.or_eq_true, Option.isNone_iff_eq_none, Bool.not_eq_eq_eq_not, Bool.not_true] at hop
  · refine countP_planPutSpec_fixed cfg hs har rq rq.key hk fs _ ?_
    rcases hop with hop | hop <;> simp [putSpecOf, hop]
  · unfold planCopy
    dsimp only
    split
    · split
      · simp
      · refine countP_planPutSpec_fixed cfg hs har rq rq.key hk fs _ ?_
        simp [hop]
    · simp
  · exact countP_planDelete_unversioned cfg hs (by simpa using hop) rq hk fs
  · exact Nat.le_trans (Nat.le_of_eq (countP_zero_of_silent (silent_of_aside (aside_planUploadPart cfg hs rq hk fs) hk))) (Nat.zero_le 1)
  · exact countP_planComplete_fixed cfg hs har rq hk fs

/-- What the proposed repair buys: with `tmpfile.link` replacing by rename (docs/C11-fix-1.diff) every PutObject,
    CopyObject and CompleteMultipartUpload — onto a new OR an existing key — is crash-atomic in the xattr store. -/
theorem crash_atomic_fixed (cfg : Cfg) (rq : Req) (fs : FS) (n : Nat) (h : SafeFixedB cfg rq fs = true) :
    view cfg (crashAt n (plan cfg rq fs) fs) rq.key = view cfg fs rq.key ∨
    view cfg (crashAt n (plan cfg rq fs) fs) rq.key = view cfg (run (plan cfg rq fs) fs) rq.key :=
  view_atomic_of_countP cfg rq.key _ fs (fixed_one_commit cfg rq fs h) n

/-- Where a request can write at all (every configuration): temp areas, the versioning area, the key's own entry
    and its ancestors, the key's sidecar entries and their ancestors. -/
theorem plan_writes_owned (cfg : Cfg) (rq : Req) (fs : FS) : WritesOwned cfg rq.key (plan cfg rq fs) :=
  owned_plan cfg rq fs

/-- C11 "every other key": for EVERY configuration (both stores, both strategies, versioned or not), request and
    crash point, a key unrelated to the request's key reads and lists exactly as before. -/
theorem others_untouched (cfg : Cfg) (rq : Req) (fs : FS) (n : Nat) (k' : Path) (hu : Unrelated rq.key k') :
    view cfg (crashAt n (plan cfg rq fs) fs) k' = view cfg fs k' ∧
    listed cfg (crashAt n (plan cfg rq fs) fs) k' = listed cfg fs k' := by
  have hs : ∀ s ∈ (plan cfg rq fs).take n, s.silent (reads cfg k') = true :=
    fun s hs => silent_of_owned (plan_writes_owned cfg rq fs) hu s (List.mem_of_mem_take hs)
  exact ⟨view_of_silent cfg k' _ fs hs, listed_of_silent cfg k' _ fs hs⟩

/-- C11 "every operation acknowledged before the crash is still in effect": (1) a kill loses nothing the API
    reads; (2) whatever an acknowledged request `rq₁` left for its key survives a later request on an unrelated key
    that is killed at any step. (For a later request on the SAME key, `crash_atomic_partial` gives: the acknowledged
    state or the complete new one.) -/
theorem acked_persists (cfg : Cfg) (fs : FS) (rq₁ rq₂ : Req) (n : Nat) (hu : Unrelated rq₂.key rq₁.key) :
    view cfg (crash (run (plan cfg rq₁ fs) fs)) rq₁.key = view cfg (run (plan cfg rq₁ fs) fs) rq₁.key ∧
    view cfg (crashAt n (plan cfg rq₂ (run (plan cfg rq₁ fs) fs)) (run (plan cfg rq₁ fs) fs)) rq₁.key
      = view cfg (run (plan cfg rq₁ fs) fs) rq₁.key :=
  ⟨view_crash cfg _ _, (others_untouched cfg rq₂ _ n rq₁.key hu).1⟩

/-- C11 "leftover temporary data is never visible through the API": no name below `.sgwtmp` is ever listed, in any
    state; and no crash of any request makes a key unrelated to the request's key appear or disappear. -/
theorem leftovers_invisible (cfg : Cfg) (rq : Req) (fs : FS) (n : Nat) :
    (∀ (fs' : FS) (k : Path), k.head? = some ".sgwtmp" → listed cfg fs' k = none) ∧
    (∀ k', Unrelated rq.key k' → listed cfg (crashAt n (plan cfg rq fs) fs) k' = listed cfg fs k') := by
  refine ⟨fun fs' k hk => ?_, fun k' hu => (others_untouched cfg rq fs n k' hu).2⟩
  unfold listed
  simp [hk]

/-! ### further full statements the unchanged backend violates (negations in Open/C11.lean; no `_partial` is
    proved for them: where they hold is established by the crash enumeration on the real code only) -/

/-- FULL STATEMENT: the key's ListObjectVersions entries after a crash are the previous ones or the new ones. -/
def versions_atomic_full : Prop :=
  ∀ (cfg : Cfg) (rq : Req) (fs : FS) (n : Nat), KeyOK rq.key →
    versions cfg (crashAt n (plan cfg rq fs) fs) rq.key = versions cfg fs rq.key ∨
    versions cfg (crashAt n (plan cfg rq fs) fs) rq.key = versions cfg (run (plan cfg rq fs) fs) rq.key

/-- FULL STATEMENT: an upload that the completed request consumes is not listed next to the object it produced. -/
def upload_consumed_full : Prop :=
  ∀ (cfg : Cfg) (rq : Req) (fs : FS) (n : Nat), KeyOK rq.key → rq.op = .complete →
    uploads cfg (run (plan cfg rq fs) fs) rq.key = [] →
    view cfg (crashAt n (plan cfg rq fs) fs) rq.key = view cfg (run (plan cfg rq fs) fs) rq.key →
    view cfg fs rq.key ≠ view cfg (run (plan cfg rq fs) fs) rq.key →
    uploads cfg (crashAt n (plan cfg rq fs) fs) rq.key = []

/-- FULL STATEMENT: leftovers block nothing — if the bucket could be emptied and deleted before the request and after
    the completed request, it can be after a crash. -/
def not_blocked_full : Prop :=
  ∀ (cfg : Cfg) (rq : Req) (fs : FS) (n : Nat), KeyOK rq.key →
    blocked cfg fs = false → blocked cfg (run (plan cfg rq fs) fs) = false →
    blocked cfg (crashAt n (plan cfg rq fs) fs) = false

/-! ### non-vacuity -/

def fs0 : FS := { ents := [(["R", "b"], .dir [("acl", "x")]), (["R", "b", ".sgwtmp"], .dir []),
                           (["R", "b", "zz"], .file "other" [("etag", "e0")])] }
def putK : Req := { op := .put, key := ["k"], metaKeys := ["a"], ctype := true }

-- a safe request with a non-trivial plan (7 steps), whose completed run shows the new object
example : SafeB {} putK fs0 = true := by decide
example : (plan {} putK fs0).length = 8 := by decide
example : (view {} (run (plan {} putK fs0) fs0) ["k"]).map (·.data) = some "new" := by decide
example : view {} fs0 ["k"] = none := by decide
-- unrelated keys exist
example : Unrelated ["k"] ["zz"] := by
  refine ⟨?_, ?_, by decide⟩ <;> (intro h; exact absurd (List.cons_prefix_cons.mp h).1 (by decide))
-- safe deletes, completes and part uploads exist as well
example : SafeB {} { op := .delete, key := ["zz"] } fs0 = true := by decide
-- the repaired variant: an overwrite is in the safe class, its plan renames over the object (no unlink)
example : SafeFixedB { atomicReplace := true } { op := .put, key := ["zz"] } fs0 = true := by decide
example : (plan { atomicReplace := true } { op := .put, key := ["zz"] } fs0).length = 7 := by decide
example : (plan { atomicReplace := true } { op := .put, key := ["zz"] } fs0).contains (.unlink ["R", "b", "zz"]) = false := by decide
example : (plan {} { op := .delete, key := ["zz"] } fs0).length = 1 := by decide

end Vgw.Props.C11
