import Vgw.Lemmas.CrashEffect
/-
  Property C11 — a gateway crash never leaves a half-written or vanished object.

  The theorems are about Model.Crash: the step lists of PutObject, CopyObject, CompleteMultipartUpload,
  UploadPart and DeleteObject (both temp-file strategies, both metadata stores, every versioning status),
  a kill between any two steps, and the view the API shows after the restart.  They hold for EVERY file
  system, every request and every crash point — not for sampled ones.

  proved for all configurations
    * `others_untouched`, `acked_persists`  no crash of any request changes what the API shows for a key that
                                            is unrelated to the request's key; a kill loses nothing named
    * `leftovers_invisible`                 names below `.sgwtmp` are never listed; no crash makes an unrelated key
                                            appear in or disappear from the listing
    * `plan_writes_owned`                   where a request can write at all
    * `put_effect`                          (xattr store) a completed PutObject takes full effect from any state, leftovers or not
  proved for the class `Safe` (the requests for which the UNCHANGED backend is atomic)
    * `crash_atomic_partial`, `listing_atomic_partial`
  full statements that the unchanged backend violates (negations in Open/C11.lean, replayed by the harness)
    * `crash_atomic_full`  — overwrite = remove, then link; tags written after publication; sidecar store
-/
namespace Vgw.Props.C11
open Vgw.Model.Crash

/-- FULL STATEMENT (clause 1 of C11). For every configuration, request, file system and crash point the view of the
    request's key after the restart is the complete previous one or the complete new one. -/
def crash_atomic_full : Prop :=
  ∀ (cfg : Cfg) (rq : Req) (fs : FS) (n : Nat), KeyOK rq.key →
    view cfg (crashAt n (plan cfg rq fs) fs) rq.key = view cfg fs rq.key ∨
    view cfg (crashAt n (plan cfg rq fs) fs) rq.key = view cfg (run (plan cfg rq fs) fs) rq.key

def keyOKB (key : Path) : Bool := !key.isEmpty && key.head? != some ".sgwtmp"

theorem keyOK_of_B {key : Path} (h : keyOKB key = true) : KeyOK key := by
  simp only [keyOKB, Bool.and_eq_true, Bool.not_eq_eq_eq_not, Bool.not_true, List.isEmpty_eq_false_iff, ne_eq,
    bne_iff_ne] at h
  exact h

/-- The class for which the unchanged backend is crash-atomic (decidable). Excluded, and shown to fail in
    Open/C11.lean: overwriting an existing key (remove, then link), attributes written by name after the
    publication (tags before the repairs; the legal hold — `rq.hold` — still), the sidecar metadata store, DeleteObject in a versioned
    bucket (archive copy, then two attribute writes on the live file). -/
def SafeB (cfg : Cfg) (rq : Req) (fs : FS) : Bool :=
  !cfg.sidecar && keyOKB rq.key &&
  match rq.op with
  | .put => (fs.get (objPath cfg rq.key)).isNone && (!rq.tags || cfg.tagsFirst) && (!rq.hold || cfg.holdFirst)
  | .copy => (fs.get (objPath cfg rq.key)).isNone &&
             ((readAttr cfg fs (objPath cfg rq.src) "X-Amz-Tagging").isNone || cfg.copyTagsFirst) && (!rq.hold || cfg.holdFirst)
  | .delete => !(cfg.verDir && cfg.vstatus != .off)
  | .uploadPart => true
  | .complete => (fs.get (objPath cfg rq.key)).isNone

/-- at most one step of a safe request's plan writes anything its key's view reads -/
theorem safe_one_commit (cfg : Cfg) (rq : Req) (fs : FS) (h : SafeB cfg rq fs = true) :
    (plan cfg rq fs).countP (fun s => !s.silent (reads cfg rq.key)) ≤ 1 := by
  simp only [SafeB, Bool.and_eq_true, Bool.not_eq_eq_eq_not, Bool.not_true] at h
  obtain ⟨⟨hs, hkB⟩, hop⟩ := h
  have hk := keyOK_of_B hkB
  unfold plan
  split <;> rename_i hopEq <;> rw [hopEq] at hop <;>
    simp only [Bool.and_eq_true, Bool.or_eq_true, Option.isNone_iff_eq_none, Bool.not_eq_eq_eq_not, Bool.not_true] at hop
  · -- put
    refine countP_planPutSpec_new cfg hs rq rq.key hk fs _ ?_ hop.1.1
    rcases hop.1.2 with h2 | h2 <;> rcases hop.2 with h3 | h3 <;> simp [putSpecOf, holdAttr, h2, h3]
  · -- copy
    unfold planCopy
    dsimp only
    split
    · split
      · simp
      · refine countP_planPutSpec_new cfg hs rq rq.key hk fs _ ?_ hop.1.1
        rcases hop.1.2 with h2 | h2 <;> rcases hop.2 with h3 | h3 <;> simp [holdAttr, h2, h3]
    · simp
  · exact countP_planDelete_unversioned cfg hs (by simpa using hop) rq hk fs
  · exact Nat.le_trans (Nat.le_of_eq (countP_zero_of_silent (silent_of_aside (aside_planUploadPart cfg hs rq hk fs) hk))) (Nat.zero_le 1)
  · exact countP_planComplete_new cfg hs rq hk fs hop

/-- C11, clause 1, for the safe class: killed at ANY step, the key shows its complete previous state or the
    complete new state (data, ETag, content type, user metadata, version id, tags: all from the same side). -/
theorem crash_atomic_partial (cfg : Cfg) (rq : Req) (fs : FS) (n : Nat) (h : SafeB cfg rq fs = true) :
    view cfg (crashAt n (plan cfg rq fs) fs) rq.key = view cfg fs rq.key ∨
    view cfg (crashAt n (plan cfg rq fs) fs) rq.key = view cfg (run (plan cfg rq fs) fs) rq.key :=
  view_atomic_of_countP cfg rq.key _ fs (safe_one_commit cfg rq fs h) n

/-- … and so does its ListObjects entry. -/
theorem listing_atomic_partial (cfg : Cfg) (rq : Req) (fs : FS) (n : Nat) (h : SafeB cfg rq fs = true) :
    listed cfg (crashAt n (plan cfg rq fs) fs) rq.key = listed cfg fs rq.key ∨
    listed cfg (crashAt n (plan cfg rq fs) fs) rq.key = listed cfg (run (plan cfg rq fs) fs) rq.key :=
  listed_atomic_of_countP cfg rq.key _ fs (safe_one_commit cfg rq fs h) n

/-- The class that is crash-atomic once docs/C11-fix-1.diff is applied (`cfg.atomicReplace`): overwrites included.
    With docs/C11-fix-2.diff (`cfg.tagsFirst`) tagged PutObject requests are included as well, with
    docs/C05-fix-4.diff (`cfg.copyTagsFirst`) CopyObject from a tagged source too. With all three switches on — the
    backend as committed — the class is: xattr store, every PutObject / CopyObject / UploadPart /
    CompleteMultipartUpload (tags and legal hold requested at CreateMultipartUpload included: they are written onto
    the temp file), DeleteObject in an unversioned bucket — EXCEPT PutObject / CopyObject with
    `x-amz-object-lock-legal-hold` (`rq.hold`): PutObjectLegalHold still runs by name after the publication
    (Open.C11.hold_after_publication) unless docs/C11-fix-3.diff is applied (`cfg.holdFirst`). -/
def SafeFixedB (cfg : Cfg) (rq : Req) (fs : FS) : Bool :=
  cfg.atomicReplace && !cfg.sidecar && keyOKB rq.key &&
  match rq.op with
  | .put => (!rq.tags || cfg.tagsFirst) && (!rq.hold || cfg.holdFirst)
  | .copy => ((readAttr cfg fs (objPath cfg rq.src) "X-Amz-Tagging").isNone || cfg.copyTagsFirst) && (!rq.hold || cfg.holdFirst)
  | .delete => !(cfg.verDir && cfg.vstatus != .off)
  | .uploadPart => true
  | .complete => true

theorem fixed_one_commit (cfg : Cfg) (rq : Req) (fs : FS) (h : SafeFixedB cfg rq fs = true) :
    (plan cfg rq fs).countP (fun s => !s.silent (reads cfg rq.key)) ≤ 1 := by
  simp only [SafeFixedB, Bool.and_eq_true, Bool.not_eq_eq_eq_not, Bool.not_true] at h
  obtain ⟨⟨⟨har, hs⟩, hkB⟩, hop⟩ := h
  have hk := keyOK_of_B hkB
  unfold plan
  split <;> rename_i hopEq <;> rw [hopEq] at hop <;>
    simp only [Bool.and_eq_true, Bool.or_eq_true, Option.isNone_iff_eq_none, Bool.not_eq_eq_eq_not, Bool.not_true] at hop
  · refine countP_planPutSpec_fixed cfg hs har rq rq.key hk fs _ ?_
    rcases hop.1 with h1 | h1 <;> rcases hop.2 with h3 | h3 <;> simp [putSpecOf, holdAttr, h1, h3]
  · unfold planCopy
    dsimp only
    split
    · split
      · simp
      · refine countP_planPutSpec_fixed cfg hs har rq rq.key hk fs _ ?_
        rcases hop.1 with h1 | h1 <;> rcases hop.2 with h3 | h3 <;> simp [holdAttr, h1, h3]
    · simp
  · exact countP_planDelete_unversioned cfg hs (by simpa using hop) rq hk fs
  · exact Nat.le_trans (Nat.le_of_eq (countP_zero_of_silent (silent_of_aside (aside_planUploadPart cfg hs rq hk fs) hk))) (Nat.zero_le 1)
  · exact countP_planComplete_fixed cfg hs har rq hk fs

/-- What the proposed repair buys: with `tmpfile.link` replacing by rename (docs/C11-fix-1.diff) every PutObject,
    CopyObject and CompleteMultipartUpload — onto a new OR an existing key — is crash-atomic in the xattr store. -/
theorem crash_atomic_fixed (cfg : Cfg) (rq : Req) (fs : FS) (n : Nat) (h : SafeFixedB cfg rq fs = true) :
    view cfg (crashAt n (plan cfg rq fs) fs) rq.key = view cfg fs rq.key ∨
    view cfg (crashAt n (plan cfg rq fs) fs) rq.key = view cfg (run (plan cfg rq fs) fs) rq.key :=
  view_atomic_of_countP cfg rq.key _ fs (fixed_one_commit cfg rq fs h) n

/-- Where a request can write at all (every configuration): temp areas, the versioning area, the key's own entry
    and its ancestors, the key's sidecar entries and their ancestors. -/
theorem plan_writes_owned (cfg : Cfg) (rq : Req) (fs : FS) : WritesOwned cfg rq.key (plan cfg rq fs) :=
  owned_plan cfg rq fs

/-- C11 "every other key": for EVERY configuration (both stores, both strategies, versioned or not), request and
    crash point, a key unrelated to the request's key reads and lists exactly as before. -/
theorem others_untouched (cfg : Cfg) (rq : Req) (fs : FS) (n : Nat) (k' : Path) (hu : Unrelated rq.key k') :
    view cfg (crashAt n (plan cfg rq fs) fs) k' = view cfg fs k' ∧
    listed cfg (crashAt n (plan cfg rq fs) fs) k' = listed cfg fs k' := by
  have hs : ∀ s ∈ (plan cfg rq fs).take n, s.silent (reads cfg k') = true :=
    fun s hs => silent_of_owned (plan_writes_owned cfg rq fs) hu s (List.mem_of_mem_take hs)
  exact ⟨view_of_silent cfg k' _ fs hs, listed_of_silent cfg k' _ fs hs⟩

/-- C11 "every operation acknowledged before the crash is still in effect": (1) a kill loses nothing the API
    reads; (2) whatever an acknowledged request `rq₁` left for its key survives a later request on an unrelated key
    that is killed at any step. (For a later request on the SAME key, `crash_atomic_partial` gives: the acknowledged
    state or the complete new one.) -/
theorem acked_persists (cfg : Cfg) (fs : FS) (rq₁ rq₂ : Req) (n : Nat) (hu : Unrelated rq₂.key rq₁.key) :
    view cfg (crash (run (plan cfg rq₁ fs) fs)) rq₁.key = view cfg (run (plan cfg rq₁ fs) fs) rq₁.key ∧
    view cfg (crashAt n (plan cfg rq₂ (run (plan cfg rq₁ fs) fs)) (run (plan cfg rq₁ fs) fs)) rq₁.key
      = view cfg (run (plan cfg rq₁ fs) fs) rq₁.key :=
  ⟨view_crash cfg _ _, (others_untouched cfg rq₂ _ n rq₁.key hu).1⟩

/-- C11 "leftover temporary data is never visible through the API": no name below `.sgwtmp` is ever listed, in any
    state; and no crash of any request makes a key unrelated to the request's key appear or disappear. -/
theorem leftovers_invisible (cfg : Cfg) (rq : Req) (fs : FS) (n : Nat) :
    (∀ (fs' : FS) (k : Path), k.head? = some ".sgwtmp" → listed cfg fs' k = none) ∧
    (∀ k', Unrelated rq.key k' → listed cfg (crashAt n (plan cfg rq fs) fs) k' = listed cfg fs k') := by
  refine ⟨fun fs' k hk => ?_, fun k' hu => (others_untouched cfg rq fs n k' hu).2⟩
  unfold listed
  simp [hk]

/-- C11 "leftovers never prevent later operations on that key" (model part; the retry itself is exercised on the real
    gateway at every crash point): after a kill at any step of a safe request EITHER the request had already taken
    full effect OR the crashed state is again in the safe class — whatever the kill left behind (temp files, parent
    directories, archive copies), re-issuing the request is again crash-atomic (`crash_atomic_partial` applies to it). -/
theorem leftovers_harmless (cfg : Cfg) (rq : Req) (fs : FS) (n : Nat) (h : SafeB cfg rq fs = true)
    (hsrc : rq.op = .copy → Unrelated rq.key rq.src) :
    view cfg (crashAt n (plan cfg rq fs) fs) rq.key = view cfg (run (plan cfg rq fs) fs) rq.key ∨
    SafeB cfg rq (crashAt n (plan cfg rq fs) fs) = true := by
  unfold crashAt
  rcases atomic_of_countP (reads cfg rq.key) (plan cfg rq fs) fs (safe_one_commit cfg rq fs h) n with h1 | h1
  · right
    have hget : (crash (run ((plan cfg rq fs).take n) fs)).get (objPath cfg rq.key) = fs.get (objPath cfg rq.key) := by
      rw [← FS.get_restrict (reads cfg rq.key) _ (reads_obj cfg rq.key), FS.restrict_crash, h1,
        FS.get_restrict (reads cfg rq.key) fs (reads_obj cfg rq.key)]
    have hsrcAttr : rq.op = .copy →
        readAttr cfg (crash (run ((plan cfg rq fs).take n) fs)) (objPath cfg rq.src) "X-Amz-Tagging"
          = readAttr cfg fs (objPath cfg rq.src) "X-Amz-Tagging" := by
      intro hc
      have hs : ∀ s ∈ (plan cfg rq fs).take n, s.silent (reads cfg rq.src) = true :=
        fun s hs => silent_of_owned (plan_writes_owned cfg rq fs) (hsrc hc) s (List.mem_of_mem_take hs)
      have hr : (crash (run ((plan cfg rq fs).take n) fs)).restrict (reads cfg rq.src) = fs.restrict (reads cfg rq.src) := by
        rw [FS.restrict_crash, run_restrict _ _ fs hs]
      have hside : ∀ q : Path, (sideOf (objPath cfg rq.src)).isPrefixOf q = true → reads cfg rq.src q = true := by
        intro q hq; simp [reads, hq]
      rw [← readAttr_restrict (reads cfg rq.src) cfg _ (objPath cfg rq.src) (reads_obj cfg rq.src) hside, hr,
        readAttr_restrict (reads cfg rq.src) cfg fs (objPath cfg rq.src) (reads_obj cfg rq.src) hside]
    unfold SafeB at h ⊢
    rw [hget]
    cases hop : rq.op <;> rw [hop] at h <;> simp only [] at h ⊢
    · exact h
    · rw [hsrcAttr hop]; exact h
    · exact h
    · exact h
    · exact h
  · left
    rw [← view_restrict, FS.restrict_crash, h1, view_restrict]

/-- What "the complete new state" is, and C11's "leftovers never prevent later operations on that key" for PutObject
    (xattr store): from ANY state in which the bucket exists and the key's name is not a directory — whatever earlier
    crashes left behind in `.sgwtmp`, in the versioning directory, as parent directories or as a half-replaced
    object — a completed PutObject leaves the key reading the request's body with the request's ETag (and tags, when
    supplied; and the legal hold, when asked for): the (re-)issued request takes full effect. Holds for every
    variant of the backend the model knows — the publication by rename-over as committed, and the earlier
    remove-then-link. (`tmp` is the name os.CreateTemp / the replace link picks: fresh.) -/
theorem put_effect (cfg : Cfg) (hs : cfg.sidecar = false) (hv : cfg.verDir = false)
    (rq : Req) (hk : KeyOK rq.key) (fs : FS)
    (hb : fs.isDir (bucketPath cfg) = true) (hnd : fs.isDir (objPath cfg rq.key) = false)
    (hfresh : fs.get (tmpDir cfg ++ [rq.tmp]) = none) :
    ∃ v, view cfg (run (planPut cfg rq fs) fs) rq.key = some v ∧ v.data = rq.data ∧ v.etag = some "new" ∧
      (rq.tags = true → v.tags = some "new") ∧ (rq.hold = true → v.hold = some "new") := by
  have hget := get_planPut cfg hs rq hk fs hb hnd hfresh
  have hattr : ∀ a, readAttr cfg (run (planPut cfg rq fs) fs) (objPath cfg rq.key) a = aget (foldAttrs [] (putAttrs cfg rq)) a := by
    intro a; unfold readAttr; simp [hs, hget, Node.attrs]
  have hlast : ∀ k, aget (foldAttrs [] (putAttrs cfg rq)) k = lastVal (putAttrs cfg rq) k := by
    intro k; rw [aget_foldAttrs]; simp [aget]
  have hetag : lastVal (putAttrs cfg rq) "etag" = some "new" := by
    cases hh : rq.hold <;> cases ht : rq.tags <;> cases hc : rq.ctype <;> cases hf : cfg.tagsFirst <;> cases hhf : cfg.holdFirst <;>
      simp [putAttrs, putSpecOf, holdAttr, lastVal, hv, hh, ht, hc, hf, hhf, List.reverse_append, List.find?]
  have hview : view cfg (run (planPut cfg rq fs) fs) rq.key = some
      { data := rq.data
        etag := (readAttr cfg (run (planPut cfg rq fs) fs) (objPath cfg rq.key) "etag").filter (· != "")
        ctype := (readAttr cfg (run (planPut cfg rq fs) fs) (objPath cfg rq.key) "content-type").filter (· != "")
        umeta := (listAttrs cfg (run (planPut cfg rq fs) fs) (objPath cfg rq.key)).filter isMetaAttr |>.filterMap
          (fun a => (readAttr cfg (run (planPut cfg rq fs) fs) (objPath cfg rq.key) a).map (fun v => (a, v)))
        vid := none
        tags := readAttr cfg (run (planPut cfg rq fs) fs) (objPath cfg rq.key) "X-Amz-Tagging"
        hold := (readAttr cfg (run (planPut cfg rq fs) fs) (objPath cfg rq.key) "object-legal-hold").filter (· != "") } := by
    unfold view
    simp only [hget, hv, Bool.false_and, Bool.false_eq_true, ↓reduceIte]
  refine ⟨_, hview, rfl, ?_, ?_, ?_⟩
  · show (readAttr cfg _ _ "etag").filter _ = _
    rw [hattr, hlast, hetag]; rfl
  · intro ht
    show readAttr cfg _ _ "X-Amz-Tagging" = _
    rw [hattr, hlast]
    cases hh : rq.hold <;> cases hf : cfg.tagsFirst <;> cases hhf : cfg.holdFirst <;>
      simp [putAttrs, putSpecOf, holdAttr, lastVal, hv, hh, ht, hf, hhf, List.reverse_append, List.find?]
  · intro hh
    show (readAttr cfg _ _ "object-legal-hold").filter _ = _
    rw [hattr, hlast]
    cases hhf : cfg.holdFirst <;> cases hf : cfg.tagsFirst <;> cases ht : rq.tags <;>
      simp [putAttrs, putSpecOf, holdAttr, lastVal, hv, hh, hhf, hf, ht, List.reverse_append, List.find?]

/-! ### further full statements the unchanged backend violates (negations in Open/C11.lean; no `_partial` is
    proved for them: where they hold is established by the crash enumeration on the real code only) -/

/-- FULL STATEMENT: the key's ListObjectVersions entries after a crash are the previous ones or the new ones. -/
def versions_atomic_full : Prop :=
  ∀ (cfg : Cfg) (rq : Req) (fs : FS) (n : Nat), KeyOK rq.key →
    versions cfg (crashAt n (plan cfg rq fs) fs) rq.key = versions cfg fs rq.key ∨
    versions cfg (crashAt n (plan cfg rq fs) fs) rq.key = versions cfg (run (plan cfg rq fs) fs) rq.key

/-- FULL STATEMENT: an upload that the completed request consumes is not listed next to the object it produced. -/
def upload_consumed_full : Prop :=
  ∀ (cfg : Cfg) (rq : Req) (fs : FS) (n : Nat), KeyOK rq.key → rq.op = .complete →
    uploads cfg (run (plan cfg rq fs) fs) rq.key = [] →
    view cfg (crashAt n (plan cfg rq fs) fs) rq.key = view cfg (run (plan cfg rq fs) fs) rq.key →
    view cfg fs rq.key ≠ view cfg (run (plan cfg rq fs) fs) rq.key →
    uploads cfg (crashAt n (plan cfg rq fs) fs) rq.key = []

/-- FULL STATEMENT: leftovers block nothing — if the bucket could be emptied and deleted before the request and after
    the completed request, it can be after a crash. -/
def not_blocked_full : Prop :=
  ∀ (cfg : Cfg) (rq : Req) (fs : FS) (n : Nat), KeyOK rq.key →
    blocked cfg fs = false → blocked cfg (run (plan cfg rq fs) fs) = false →
    blocked cfg (crashAt n (plan cfg rq fs) fs) = false

/-! ### non-vacuity -/

def fs0 : FS := { ents := [(["R", "b"], .dir [("acl", "x")]), (["R", "b", ".sgwtmp"], .dir []),
                           (["R", "b", "zz"], .file "other" [("etag", "e0")])] }
def putK : Req := { op := .put, key := ["k"], metaKeys := ["a"], ctype := true }

-- a safe request with a non-trivial plan (7 steps), whose completed run shows the new object
example : SafeB {} putK fs0 = true := by decide
example : (plan {} putK fs0).length = 8 := by decide
example : (view {} (run (plan {} putK fs0) fs0) ["k"]).map (·.data) = some "new" := by decide
example : view {} fs0 ["k"] = none := by decide
-- unrelated keys exist
example : Unrelated ["k"] ["zz"] := by
  refine ⟨?_, ?_, by decide⟩ <;> (intro h; exact absurd (List.cons_prefix_cons.mp h).1 (by decide))
-- safe deletes, completes and part uploads exist as well
example : SafeB {} { op := .delete, key := ["zz"] } fs0 = true := by decide
-- put_effect: a state full of leftovers (a stale named temp file, a stray parent directory, an existing object)
-- meets its hypotheses
def fsLeft : FS := { ents := [(["R", "b"], .dir []), (["R", "b", ".sgwtmp"], .dir []),
                              (["R", "b", ".sgwtmp", "TMPold"], .file "junk" [("etag", "junk")]), (["R", "b", "d"], .dir []),
                              (["R", "b", "d", "k"], .file "old" [("etag", "old")])] }
example : fsLeft.isDir (bucketPath {}) = true ∧ fsLeft.isDir (objPath {} ["d", "k"]) = false ∧
    fsLeft.get (tmpDir {} ++ ["TMP"]) = none ∧ KeyOK ["d", "k"] := by
  refine ⟨by decide, by decide, by decide, by decide, by decide⟩
-- the repaired variant: an overwrite is in the safe class, its plan renames over the object (no unlink)
example : SafeFixedB { atomicReplace := true } { op := .put, key := ["zz"] } fs0 = true := by decide
example : (plan { atomicReplace := true } { op := .put, key := ["zz"] } fs0).length = 7 := by decide
example : (plan { atomicReplace := true } { op := .put, key := ["zz"] } fs0).contains (.unlink ["R", "b", "zz"]) = false := by decide
example : (plan {} { op := .delete, key := ["zz"] } fs0).length = 1 := by decide
-- the backend as committed (all three repairs): a copy from a TAGGED source over an existing TAGGED object is in the
-- safe class; its plan writes the tags onto the temp file and ends with the rename over the object
def nowCfg : Cfg := { atomicReplace := true, tagsFirst := true, copyTagsFirst := true }
def fsSrc : FS := { ents := [(["R", "b"], .dir []), (["R", "b", ".sgwtmp"], .dir []),
                             (["R", "b", "src"], .file "new" [("etag", "e"), ("X-Amz-Tagging", "tg")]),
                             (["R", "b", "k"], .file "old" [("etag", "old"), ("X-Amz-Tagging", "told")])] }
def cpK : Req := { op := .copy, key := ["k"], src := ["src"] }
example : SafeFixedB nowCfg cpK fsSrc = true := by decide
-- (the copy plan itself inspects attribute names with String.isPrefixOf, which `decide` does not evaluate: the plan's
-- shape is pinned by the harness' step conformance; a tagged PutObject over the same object shows the shape)
def putT : Req := { op := .put, key := ["k"], tags := true }
example : SafeFixedB nowCfg putT fsSrc = true := by decide
example : (plan nowCfg putT fsSrc).getLast? = some (.rename ["R", "b", ".sgwtmp", "TMP"] ["R", "b", "k"]) := by decide
example : (plan nowCfg putT fsSrc).contains (.setx (.anon 0) "X-Amz-Tagging" "new") = true := by decide
example : (view nowCfg (run (plan nowCfg putT fsSrc) fsSrc) ["k"]).map (fun v => (v.data, v.tags)) = some ("new", some "new") := by decide
-- a PutObject asking for a legal hold is outside the class (PutObjectLegalHold follows the publication) unless
-- docs/C11-fix-3.diff is applied
example : SafeFixedB nowCfg { putT with hold := true } fsSrc = false := by decide
example : SafeFixedB { nowCfg with holdFirst := true } { putT with hold := true } fsSrc = true := by decide
-- without the CopyObject repair the same request is outside the class (tags follow the publication)
example : SafeFixedB { nowCfg with copyTagsFirst := false } cpK fsSrc = false := by decide

end Vgw.Props.C11
