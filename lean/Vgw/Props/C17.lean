/-
  C17 — account changes take effect immediately and completely.

  All statements are about `Model.IAM` (auth/iam_cache.go over auth/iam_internal.go, one gateway
  process), for EVERY start image, EVERY history and EVERY interleaving (`List Act`: invocations,
  atomic steps of any in-flight call, clock advances, cache pruning), proved by invariants over
  `run` — nothing is decided over samples.  No side condition on histories, schedules or clock.

  `Variant.current` is /repo as it is (account changes invalidate the cache entry and bump a
  generation; the miss path stores what it fetched only under the generation it saw);
  `Variant.cacheDisabled` is --iam-cache-disable.

  * `seq_refines_map`          sequential histories behave like the plain map access → account
  * `lookup_after_ack`         a lookup invoked when every change of its key has been acknowledged
                               answers the store's state — all attributes — at any clock value,
                               whatever else is in flight
  * `mutations_serialised`     concurrent changes are applied one after the other to the image the
                               predecessor left (none lost), the file is a complete image whenever
                               the lock is free, no temp file stays
  * `serial_respects_real_time`, `reader_sees_complete_image`, `call_returns`

  The `_gen` forms are stated for every `Variant`, i.e. also for the REGRESSION MODEL
  `Variant.oldWriteThrough` (the code before 6f25651), for which they need the side condition
  `QuietRun` / `CreatesOk`; the harness uses that model only to explain the schedules that fail
  when the old behaviour comes back.  Nothing here or in Open/C17.lean says that the current code
  violates C17.
-/
import Vgw.Lemmas.IAMQuietB
namespace Vgw.Props.C17
open Vgw Vgw.Model.IAM
open Vgw.Model.Gw (Account Role)

/-- a gateway starts on a complete image with one entry per key that does not contain the root
account's key (CreateAccount refuses it, so no gateway ever writes one) -/
structure Start (cfg : Cfg) (s : Store) : Prop where
  rootFree : s.find cfg.root.access = none
  nodup : keysNodup s

/-! ## sequential histories refine the plain map -/

/-- the answers of a sequential history are the plain map's answers; a listing is a listing of
the map (`Spec.IAM.ListOk`: sorted by access, exactly the map's accounts) -/
def SeqRefines (cfg : Cfg) : Spec.IAM.Accts → List SeqAct → List (Option Res) → Prop
  | _, [], [] => True
  | m, .call op :: rest, r :: rs =>
    (match op with
     | .list => ∃ l, r = some (.accts l) ∧ Spec.IAM.ListOk m l
     | _ => r = some (Spec.IAM.apply cfg.root m op).2) ∧
    SeqRefines cfg (Spec.IAM.apply cfg.root m op).1 rest rs
  | m, .tick _ :: rest, rs => SeqRefines cfg m rest rs
  | m, .gc :: rest, rs => SeqRefines cfg m rest rs
  | _, _, _ => False

/-- regression model only: the entries its CreateAccount caches are the accounts (void for the
current code: `NeedsQuiet .current` is false) -/
def CreatesOk (v : Variant) (h : List SeqAct) : Prop :=
  NeedsQuiet v → ∀ a, SeqAct.call (.create a) ∈ h → entryOf v a = a

theorem seqRun_call (v : Variant) (cfg : Cfg) (σ : State) (op : Op) (rest : List SeqAct) :
    seqRun v cfg σ (.call op :: rest) =
      (call v cfg σ op).result σ.calls.length :: seqRun v cfg (call v cfg σ op) rest := rfl

theorem seqRefines_call (cfg : Cfg) (m : Spec.IAM.Accts) (op : Op) (rest : List SeqAct) (r : Option Res) (rs : List (Option Res)) :
    SeqRefines cfg m (.call op :: rest) (r :: rs) =
      ((match op with
        | .list => ∃ l, r = some (.accts l) ∧ Spec.IAM.ListOk m l
        | _ => r = some (Spec.IAM.apply cfg.root m op).2) ∧
       SeqRefines cfg (Spec.IAM.apply cfg.root m op).1 rest rs) := rfl

attribute [local irreducible] Model.IAM.call in
theorem seq_refines_aux {v : Variant} {cfg : Cfg} {s0 : Store} (h : List SeqAct) : ∀ {σ : State},
    FullInv v cfg s0 σ → Quiescent σ → keysNodup σ.committed → CreatesOk v h →
    SeqRefines cfg (abs σ.committed) h (seqRun v cfg σ h) := by
  induction h with
  | nil => intro σ _ _ _ _; trivial
  | cons a rest ih =>
    intro σ hF hQ hN hC
    have hCrest : CreatesOk v rest := fun hn b hb => hC hn b (List.mem_cons_of_mem _ hb)
    cases a with
    | call op =>
      obtain ⟨r, hres, hspec, hF', hQ'⟩ := call_spec hF hQ op (fun hn b hb => hC hn b (by rw [hb]; simp))
      have hN' : keysNodup (call v cfg σ op).committed := by
        rw [call_eq_run]; exact keysNodup_run hF.inv.wf hN _
      have ihh := ih hF' hQ' hN' hCrest
      rw [seqRun_call, seqRefines_call, hres]
      cases op with
      | list =>
        have h1 : (call v cfg σ .list).committed = σ.committed := hspec.1
        have h2 : r = .accts (sortAccts σ.committed) := hspec.2
        refine ⟨⟨_, by rw [h2], sortAccts_listOk _ hN⟩, ?_⟩
        rw [h1] at ihh
        exact ihh
      | create b =>
        have h1 : Spec.IAM.apply cfg.root (abs σ.committed) (.create b) = (abs (call v cfg σ (.create b)).committed, r) := hspec
        rw [h1]; refine ⟨rfl, ?_⟩; simp only []; exact ihh
      | update k p =>
        have h1 : Spec.IAM.apply cfg.root (abs σ.committed) (.update k p) = (abs (call v cfg σ (.update k p)).committed, r) := hspec
        rw [h1]; refine ⟨rfl, ?_⟩; simp only []; exact ihh
      | delete k =>
        have h1 : Spec.IAM.apply cfg.root (abs σ.committed) (.delete k) = (abs (call v cfg σ (.delete k)).committed, r) := hspec
        rw [h1]; refine ⟨rfl, ?_⟩; simp only []; exact ihh
      | get k =>
        have h1 : Spec.IAM.apply cfg.root (abs σ.committed) (.get k) = (abs (call v cfg σ (.get k)).committed, r) := hspec
        rw [h1]; refine ⟨rfl, ?_⟩; simp only []; exact ihh
    | tick n =>
      exact ih (hF.act (.tick n) (fun _ => trivial)) (fun j c hj => hQ j c hj) hN hCrest
    | gc =>
      exact ih (hF.act .gc (fun _ => trivial)) (fun j c hj => hQ j c hj) hN hCrest

/-- general form (every `Variant`, the regression model included, for which `CreatesOk` is a real
condition; for the current code it is void: `createsOk_of_invalidate`) -/
theorem seq_refines_map_gen (v : Variant) (cfg : Cfg) (s : Store) (now : Nat) (hs : Start cfg s)
    (h : List SeqAct) (hC : CreatesOk v h) :
    SeqRefines cfg (abs s) h (seqRun v cfg (init s now) h) :=
  seq_refines_aux h (FullInv.init v cfg s now hs.rootFree)
    (fun j c hj => by simp [Model.IAM.init] at hj) hs.nodup hC

/-- variants without side condition: everything but the write-through regression model -/
theorem createsOk_of_invalidate {v : Variant} (hv : v.invalidate = true ∨ v.cache = false) (h : List SeqAct) :
    CreatesOk v h := by
  intro hn a _
  rcases hv with h1 | h1
  · rw [hn.2] at h1; cases h1
  · rw [hn.1] at h1; cases h1

/-- SEQUENTIAL REFINEMENT of the current code: on every start image, for every sequential history
of create / get / update / delete / list calls, clock advances and pruning runs, every answer is
the plain map's answer (a new account with all its attributes at once, a changed secret, a
deleted account), and listings are listings of the map. -/
theorem seq_refines_map (cfg : Cfg) (s : Store) (now : Nat) (h : List SeqAct) (hs : Start cfg s) :
    SeqRefines cfg (abs s) h (seqRun .current cfg (init s now) h) :=
  seq_refines_map_gen .current cfg s now hs h (createsOk_of_invalidate (Or.inl rfl) h)

/-- the same with --iam-cache-disable -/
theorem seq_refines_map_cache_disabled (cfg : Cfg) (s : Store) (now : Nat) (h : List SeqAct) (hs : Start cfg s) :
    SeqRefines cfg (abs s) h (seqRun .cacheDisabled cfg (init s now) h) :=
  seq_refines_map_gen .cacheDisabled cfg s now hs h (createsOk_of_invalidate (Or.inr rfl) h)

theorem seqRefines_some (cfg : Cfg) : ∀ (h : List SeqAct) (m : Spec.IAM.Accts) (rs : List (Option Res)),
    SeqRefines cfg m h rs → ∀ r ∈ rs, r ≠ none
  | [], _, [], _ => by simp
  | [], _, _ :: _, h => by simp [SeqRefines] at h
  | .call op :: rest, m, [], h => by simp [SeqRefines] at h
  | .call op :: rest, m, r :: rs, h => by
    rw [seqRefines_call] at h
    intro x hx
    rcases List.mem_cons.mp hx with hx | hx
    · subst hx
      cases op with
      | list => obtain ⟨⟨l, hl, _⟩, _⟩ := h; rw [hl]; simp
      | create a => rw [h.1]; simp
      | update k p => rw [h.1]; simp
      | delete k => rw [h.1]; simp
      | get k => rw [h.1]; simp
    · exact seqRefines_some cfg rest _ rs h.2 x hx
  | .tick _ :: rest, m, rs, h => seqRefines_some cfg rest m rs h
  | .gc :: rest, m, rs, h => seqRefines_some cfg rest m rs h

/-- every call of a sequential history returns (no call is left blocked on the store mutex) -/
theorem call_returns (cfg : Cfg) (s : Store) (now : Nat) (hs : Start cfg s) (h : List SeqAct) :
    ∀ r ∈ seqRun .current cfg (init s now) h, r ≠ none :=
  seqRefines_some cfg h _ _ (seq_refines_map cfg s now h hs)

/-! ## a lookup after the acknowledgement sees the new state -/

/-- Once every change of key k has been acknowledged (`NoMut`: none is in flight after `acts₁`)
and as long as no further change of k is invoked, EVERY lookup of k that is invoked from then on
and returns — whatever else is in flight (lookups of k that started earlier included), whatever
the clock and the pruning goroutine do — answers exactly what the plain map answers on the
committed image: the account with every attribute, or "no such user". -/
def LookupAfterAck (v : Variant) (cfg : Cfg) (s : Store) (now : Nat) (acts₁ acts₂ : List Act) : Prop :=
  ∀ k, NoMut (run v cfg (init s now) acts₁) k → (∀ op, Act.invoke op ∈ acts₂ → op.isMut = true → op.key ≠ k) →
  ∀ i r, (run v cfg (init s now) acts₁).calls.length ≤ i →
    (run v cfg (run v cfg (init s now) acts₁) acts₂).calls[i]? = some ⟨.get k, .done r⟩ →
    r = (Spec.IAM.apply cfg.root (abs (run v cfg (init s now) acts₁).committed) (.get k)).2

theorem lookup_after_ack_gen (v : Variant) (cfg : Cfg) (s : Store) (now : Nat) (acts₁ acts₂ : List Act)
    (hs : Start cfg s) (hq : NeedsQuiet v → QuietRun v cfg (init s now) (acts₁ ++ acts₂)) :
    LookupAfterAck v cfg s now acts₁ acts₂ := by
  intro k hN hnm i r hi hget
  generalize hσ : run v cfg (init s now) acts₁ = σ₁ at hN hi hget ⊢
  have hI : Inv v cfg σ₁ := by
    rw [← hσ]; exact (Inv.init v cfg s now hs.rootFree).run acts₁ (fun hn => (quietRun_append.mp (hq hn)).1)
  have hA := (After.start hI hN).run acts₂ (fun hn => by rw [← hσ]; exact (quietRun_append.mp (hq hn)).2) hnm (Nat.le_refl _)
  have := hA.newok i _ hi hget rfl
  simp only [NewPc] at this
  rw [this]
  simp only [Spec.IAM.apply, ← look_eq_spec]
  cases look cfg σ₁.committed k <;> rfl

/-- LOOKUP AFTER ACKNOWLEDGEMENT, current code, every schedule: no side condition. -/
theorem lookup_after_ack (cfg : Cfg) (s : Store) (now : Nat) (acts₁ acts₂ : List Act) (hs : Start cfg s) :
    LookupAfterAck .current cfg s now acts₁ acts₂ :=
  lookup_after_ack_gen .current cfg s now acts₁ acts₂ hs (fun hn => by cases hn.2)

/-- the same with --iam-cache-disable -/
theorem lookup_after_ack_cache_disabled (cfg : Cfg) (s : Store) (now : Nat) (acts₁ acts₂ : List Act) (hs : Start cfg s) :
    LookupAfterAck .cacheDisabled cfg s now acts₁ acts₂ :=
  lookup_after_ack_gen .cacheDisabled cfg s now acts₁ acts₂ hs (fun hn => by cases hn.1)

/-! ## concurrent changes are serialised; the store file is always a complete image -/

/-- the logged changes applied to the plain map one after the other, each answering what the map
answers at its turn -/
inductive SpecSerial (root : Account) : Spec.IAM.Accts → List LogEntry → Spec.IAM.Accts → Prop
  | nil (m) : SpecSerial root m [] m
  | cons {m e rest m'} : (Spec.IAM.apply root m e.op).2 = e.res →
      SpecSerial root (Spec.IAM.apply root m e.op).1 rest m' → SpecSerial root m (e :: rest) m'

theorem specSerial_of_replay (cfg : Cfg) : ∀ (l : List LogEntry) (s s' : Store),
    (∀ e ∈ l, e.op.isMut = true) → replay cfg s l = some s' → SpecSerial cfg.root (abs s) l (abs s')
  | [], s, s', _, h => by simp only [replay, Option.some.injEq] at h; subst h; exact .nil _
  | e :: rest, s, s', hm, h => by
    have hsp := mutateR_spec cfg s e.op (hm e (by simp))
    simp only [replay] at h
    split at h
    · rename_i s'' hmr
      rw [hmr] at hsp
      split at h
      · rename_i hr
        refine .cons (by rw [hsp, hr]) ?_
        rw [hsp]; exact specSerial_of_replay cfg rest s'' s' (fun x hx => hm x (List.mem_cons_of_mem _ hx)) h
      · cases h
    · rename_i r hmr
      rw [hmr] at hsp
      split at h
      · rename_i hr
        refine .cons (by rw [hsp, hr]) ?_
        rw [hsp]; exact specSerial_of_replay cfg rest s s' (fun x hx => hm x (List.mem_cons_of_mem _ hx)) h
      · cases h

/-- lock / file invariant, typing and serialisation log along any schedule (no side condition) -/
structure Base (cfg : Cfg) (s0 : Store) (σ : State) : Prop where
  wf : Wf cfg σ
  typ : TInv cfg σ
  ser : SInv cfg s0 σ

theorem Base.run {v : Variant} {cfg : Cfg} {s0 : Store} {σ : State} (h : Base cfg s0 σ) (acts : List Act) :
    Base cfg s0 (run v cfg σ acts) := by
  induction acts generalizing σ with
  | nil => exact h
  | cons a rest ih => exact ih ⟨h.wf.act a, h.typ.act a, h.ser.act h.wf h.typ a⟩

theorem Base.init (cfg : Cfg) (s : Store) (now : Nat) : Base cfg s (init s now) :=
  ⟨Wf.init cfg s now, fun i c hi => by simp [Model.IAM.init] at hi, SInv.init cfg s now⟩

/-- MUTATIONS ARE SERIALISED (every revision, every schedule): at every reachable state
(1) the committed image is the start image with the logged changes applied one after the other,
    each to the image its predecessor left and each answering what the plain map answers there —
    no update is lost, none applied to a stale image;
(2) every change that has returned is in that log exactly once, with the answer it returned;
(3) the image has one entry per key;
(4) whenever nobody holds the write lock, users.json is exactly that image and no temp file is
    left behind. -/
theorem mutations_serialised (v : Variant) (cfg : Cfg) (s : Store) (now : Nat) (acts : List Act) (hs : Start cfg s) :
    let σ := run v cfg (init s now) acts
    SpecSerial cfg.root (abs s) σ.log (abs σ.committed) ∧
    (∀ i op r, σ.calls[i]? = some ⟨op, .done r⟩ → op.isMut = true →
      σ.log.filter (fun e => e.id == i) = [⟨i, op, r⟩]) ∧
    keysNodup σ.committed ∧
    (σ.writer = none → σ.main = some σ.committed ∧ σ.temp = none) := by
  intro σ
  have hB : Base cfg s σ := (Base.init cfg s now).run acts
  refine ⟨specSerial_of_replay cfg _ _ _ hB.ser.muts hB.ser.rep, ?_, keysNodup_run (Wf.init cfg s now) hs.nodup acts, hB.wf.l.free⟩
  intro i op r hi hm
  have := hB.ser.own i _ hi
  simpa [ownLog, hm, decided] using this

/-- the serial order respects real time: the log only grows, and what was logged before a call
was invoked stays in front of that call's entry -/
theorem serial_respects_real_time (v : Variant) (cfg : Cfg) (s : Store) (now : Nat) (acts₁ acts₂ : List Act) :
    let σ₁ := run v cfg (init s now) acts₁
    (∃ l, (run v cfg (init s now) (acts₁ ++ acts₂)).log = σ₁.log ++ l) ∧ ∀ e ∈ σ₁.log, e.id < σ₁.calls.length := by
  intro σ₁
  refine ⟨?_, ((Base.init cfg s now).run acts₁).ser.ids⟩
  rw [run_append]
  exact run_log_prefix v cfg σ₁ acts₂

/-- whoever reads the store under the read lock reads the complete committed image -/
theorem reader_sees_complete_image (v : Variant) (cfg : Cfg) (s : Store) (now : Nat) (acts : List Act) :
    let σ := run v cfg (init s now) acts
    (σ.readers ≠ [] → σ.main = some σ.committed) ∧
    ∀ (i : Nat) (c : Call), σ.calls[i]? = some c →
      (∀ r g, c.pc = .gGot r g → r = σ.committed.find c.op.key) ∧ (∀ s', c.pc = .lGot s' → s' = σ.committed) := by
  intro σ
  have hW : Wf cfg σ := (Wf.init cfg s now).run acts
  refine ⟨?_, ?_⟩
  · intro hr
    cases hw : σ.writer with
    | none => exact (hW.l.free hw).1
    | some w => exact absurd (hW.l.excl (by rw [hw]; simp)) hr
  · intro i c hi
    have hp := (hW.l.calls i c hi).pc
    unfold PcL at hp
    refine ⟨?_, ?_⟩
    · intro r g hpc; rw [hpc] at hp; exact hp.2
    · intro s' hpc; rw [hpc] at hp; exact hp

/-! ## non-vacuity (tests: concrete instances, evaluated by the kernel) -/

section Examples

def rootA : Account := { access := [114], secret := [1], role := .admin }
def cfgA : Cfg := { root := rootA, ttl := 5 }
/-- account `a`: secret 2, role userplus, uid 5, gid 1000 -/
def accB : Account := { access := [97], secret := [2], role := .userplus, uid := 5, gid := 1000 }
def accA : Account := { access := [97], secret := [7], role := .user, uid := 1, gid := 2 }
def accC : Account := { access := [98], secret := [4], role := .admin }

theorem startA : Start cfgA [accB, accC] := ⟨by decide, by simp [keysNodup, accB, accC]⟩

def histA : List SeqAct := [.call (.create accB), .call (.get [97]), .tick 6, .call (.update [97] { secret := some [3], uid := some 9 }),
  .call (.get [97]), .call .list, .call (.delete [97]), .call (.get [97])]

/-- `seq_refines_map` on a history with create (uid/gid ≠ 0), expiry, update, delete (instance) -/
example : SeqRefines cfgA (abs []) histA (seqRun .current cfgA (init []) histA) :=
  seq_refines_map cfgA [] 0 histA ⟨by decide, by simp [keysNodup]⟩

/-- the answers of that history, computed: the fresh account answers with ALL its attributes, the
update shows at once, the deleted account is gone (test) -/
example : seqRun .current cfgA (init []) histA
    = [some .ok, some (.acct accB), some .ok, some (.acct { accB with secret := [3], uid := 9 }),
       some (.accts [{ accB with secret := [3], uid := 9 }]), some .ok, some .noSuchUser] := by decide

/-- `lookup_after_ack`, a racy instance: lookup 0 of `a` is parked between its fetch and its
cache.set (it holds the OLD account), delete 1 of `a` runs to its acknowledgement, lookup 0
continues, the clock moves — lookup 2, invoked after the acknowledgement, answers "no such user"
(the hypotheses are met, the conclusion is computed; test) -/
def acts1 : List Act := [.invoke (.get [97]), .step 0, .step 0, .step 0, .step 0, .invoke (.delete [97])] ++ List.replicate 9 (.step 1)
def acts2 : List Act := [.step 0, .tick 3, .invoke (.get [97]), .step 2, .step 2, .step 2, .step 2]

example : (run .current cfgA (init [accB, accC]) acts1).calls[0]? = some ⟨.get [97], .gFetched accB 0⟩ := by decide
example : (run .current cfgA (init [accB, accC]) acts1).calls[1]? = some ⟨.delete [97], .done .ok⟩ := by decide
example : NoMut (run .current cfgA (init [accB, accC]) acts1) [97] := noMutB_sound (by decide)
example : (run .current cfgA (run .current cfgA (init [accB, accC]) acts1) acts2).calls[2]? = some ⟨.get [97], .done .noSuchUser⟩ := by decide
/-- … and that is what `lookup_after_ack` says about it (instance of the theorem) -/
example : (Spec.IAM.apply cfgA.root (abs (run .current cfgA (init [accB, accC]) acts1).committed) (.get [97])).2 = .noSuchUser :=
  (lookup_after_ack cfgA [accB, accC] 0 acts1 acts2 startA [97] (noMutB_sound (by decide))
    (by intro op hop hm; simp [acts2] at hop; subst hop; cases hm) 2 .noSuchUser (by decide) (by decide)).symm

/-- `mutations_serialised`: two creates of the same key race; exactly one wins, the log says which (test) -/
example : (run .current cfgA (init []) [.invoke (.create accA), .invoke (.create accB), .step 1, .step 0, .step 1, .step 1, .step 1,
    .step 1, .step 1, .step 1, .step 1, .step 0, .step 0, .step 0, .step 0, .step 0, .step 0]).log
    = [⟨1, .create accB, .ok⟩, ⟨0, .create accA, .userExists⟩] := by decide

end Examples

end Vgw.Props.C17
