/-
  C08 — Multipart uploads assemble exactly the chosen parts and stay isolated.
  Theorems over the multipart part of `Model.Gw`.
-/
import Vgw.Lemmas.GwMaps
namespace Vgw.Props.C08
open Vgw Vgw.Model.Gw

/-- a successful validation returns one stored part per listed entry, in the listed order, with
that number and that ETag -/
theorem validateParts_spec (stored : List Part) :
    ∀ (listed : List (Nat × Bytes)) (prev : Nat) (chosen : List Part),
      validateParts stored listed prev = .ok chosen →
      chosen.map (fun p => (p.num, p.etag)) = listed ∧ (∀ p ∈ chosen, p ∈ stored)
  | [], _, chosen, h => by
    simp [validateParts] at h; subst h; simp
  | (num, etag) :: rest, prev, chosen, h => by
    unfold validateParts at h
    split at h
    · cases h
    · split at h
      · cases h
      · split at h
        · cases h
        · rename_i p hp
          split at h
          · cases h
          · split at h
            · cases h
            · rename_i hetag
              split at h
              · cases h
              · rename_i ps hps
                injection h with h; subst h
                have ih := validateParts_spec stored rest num ps hps
                have hmem := List.mem_of_find?_eq_some hp
                have hnum : p.num = num := by simpa using List.find?_some hp
                have he : p.etag = etag := by simpa using hetag
                refine ⟨by simp [ih.1, hnum, he], ?_⟩
                intro q hq
                simp at hq
                rcases hq with rfl | hq
                · exact hmem
                · exact ih.2 q hq

/-- listed part numbers are ≥ 1 and strictly ascending, otherwise completion is refused -/
theorem validateParts_ascending (stored : List Part) :
    ∀ (listed : List (Nat × Bytes)) (prev : Nat) (chosen : List Part),
      validateParts stored listed prev = .ok chosen →
      (listed.map (·.1)).Pairwise (· < ·) ∧ ∀ n ∈ listed.map (·.1), prev < n ∧ 1 ≤ n
  | [], _, _, _ => by simp
  | (num, etag) :: rest, prev, chosen, h => by
    unfold validateParts at h
    split at h
    · cases h
    · rename_i h1
      split at h
      · cases h
      · rename_i h2
        split at h
        · cases h
        · split at h
          · cases h
          · split at h
            · cases h
            · split at h
              · cases h
              · rename_i ps hps
                have ih := validateParts_ascending stored rest num ps hps
                simp only [List.map_cons, List.pairwise_cons, List.mem_cons, forall_eq_or_imp]
                refine ⟨⟨fun n hn => (ih.2 n hn).1, ih.1⟩, ⟨by omega, by omega⟩, ?_⟩
                intro n hn
                have := ih.2 n hn
                omega

/-- every part but the last is at least the minimum part size -/
theorem validateParts_sizes (stored : List Part) :
    ∀ (listed : List (Nat × Bytes)) (prev : Nat) (chosen : List Part),
      validateParts stored listed prev = .ok chosen →
      ∀ p ∈ chosen.dropLast, minPartSize ≤ p.data.size
  | [], _, chosen, h => by simp [validateParts] at h; subst h; simp
  | (num, etag) :: rest, prev, chosen, h => by
    unfold validateParts at h
    split at h
    · cases h
    · split at h
      · cases h
      · split at h
        · cases h
        · rename_i p hp
          split at h
          · cases h
          · rename_i hsize
            split at h
            · cases h
            · split at h
              · cases h
              · rename_i ps hps
                injection h with h; subst h
                have ih := validateParts_sizes stored rest num ps hps
                have hlen := (validateParts_spec stored rest num ps hps).1
                intro q hq
                cases ps with
                | nil => simp at hq
                | cons r rs =>
                  simp only [List.dropLast_cons_cons, List.mem_cons] at hq
                  rcases hq with rfl | hq
                  · have hne : rest.isEmpty = false := by
                      cases rest with
                      | nil => simp at hlen
                      | cons _ _ => rfl
                    simp only [hne, Bool.not_false, Bool.true_and, decide_eq_true_eq, Nat.not_lt] at hsize
                    exact hsize
                  · exact ih q hq

/-- re-uploading a part number replaces the earlier upload of that number and nothing else -/
theorem insertPart_find (ps : List Part) (p : Part) : (insertPart ps p).find? (·.num == p.num) = some p := by
  induction ps with
  | nil => simp [insertPart]
  | cons q qs ih =>
    unfold insertPart
    split
    · simp
    · rename_i hne
      split
      · simp
      · have : (q.num == p.num) = false := by simpa using hne
        simp only [List.find?_cons, this]; exact ih

theorem insertPart_find_ne (ps : List Part) (p : Part) (n : Nat) (h : p.num ≠ n) :
    (insertPart ps p).find? (·.num == n) = ps.find? (·.num == n) := by
  have hp : (p.num == n) = false := by simpa using h
  induction ps with
  | nil => simp [insertPart, hp]
  | cons q qs ih =>
    unfold insertPart
    split
    · rename_i heq
      have : q.num = p.num := by simpa using heq
      have hq : (q.num == n) = false := by rw [this]; exact hp
      simp [List.find?_cons, hp, hq]
    · split
      · simp [List.find?_cons, hp]
      · simp only [List.find?_cons]
        split
        · rfl
        · exact ih

/-- **Completion assembles exactly the chosen parts**: on success the new current version's data
is the concatenation (in canonical segment form), in listed order, of the stored parts with the
listed numbers and ETags; it carries the multipart ETag handed in by the environment and the
metadata given at initiation; and the upload is gone. -/
theorem complete_concat (cfg : Cfg) (s : State) (w : Who) (now : Int) (b k id : Bytes)
    (parts : List (Nat × Bytes)) (mpEtag nv : Bytes) (bk : Bucket) (up : Upload)
    (hb : findBucket s b = some bk)
    (hup : bk.uploads.find? (fun u => u.key == k && u.id == id) = some up)
    (hok : (handle cfg s w now (.completeUpload b k id parts mpEtag nv)).2.code = "") :
    ∃ chosen bk',
      validateParts up.parts parts 0 = .ok chosen ∧
      findBucket (handle cfg s w now (.completeUpload b k id parts mpEtag nv)).1 b = some bk' ∧
      (bk'.versions k).head?.map (fun v => (v.data, v.etag, v.umeta, v.ctype, v.hdrs, v.tags)) =
        some (Data.norm (chosen.flatMap fun p => p.data), mpEtag, up.umeta, up.ctype, up.hdrs, up.tags) ∧
      bk'.uploads.find? (fun u => u.key == k && u.id == id) = none := by
  have hname := findBucket_name s b bk hb
  simp only [handle, withBucket, hb] at hok ⊢
  unfold guarded at hok ⊢
  cases hchk : verifyAccess cfg bk w .write actPutObject k with
  | some e => simp only [hchk] at hok; exact absurd hok (errR_code_ne _)
  | none =>
    simp only [hchk] at hok ⊢
    cases hlk : lockCheck bk w now true k [] with
    | some e => simp only [hlk] at hok; exact absurd hok (errR_code_ne _)
    | none =>
    simp only [hlk, hup] at hok ⊢
    cases hv : validateParts up.parts parts 0 with
    | error e => simp only [hv] at hok; exact absurd hok (errR_code_ne _)
    | ok chosen =>
      simp only [hv]
      generalize hcv : completeVersions cfg bk (bk.versions k) (assembled up chosen mpEtag) nv = cv
      obtain ⟨vs, vid⟩ := cv
      have hvs : ∃ rest, vs = mkVer (assembled up chosen mpEtag) vid :: rest := by
        unfold completeVersions at hcv
        split at hcv <;> (injection hcv with h1 h2; subst h1; subst h2; exact ⟨_, rfl⟩)
      obtain ⟨rest, rfl⟩ := hvs
      let bk' : Bucket := { (bk.setVersions k (mkVer (assembled up chosen mpEtag) vid :: rest)) with
        uploads := bk.uploads.filter fun u => !(u.key == k && u.id == id) }
      have hn : bk'.name = b := by show (bk.setVersions k _).name = b; rw [setVersions_name, hname]
      have hfind := findBucket_setBucket s bk'
      rw [hn] at hfind
      refine ⟨chosen, bk', rfl, hfind, ?_, ?_⟩
      · show ((bk.setVersions k (mkVer (assembled up chosen mpEtag) vid :: rest)).versions k).head?.map _ = _
        rw [versions_setVersions bk k _ (by simp)]
        simp [mkVer, assembled]
      · show (bk.uploads.filter fun u => !(u.key == k && u.id == id)).find? _ = none
        simp [List.find?_filter]
        intro x _ h hk
        cases h with
        | inl h => exact absurd hk h
        | inr h => exact h

/-- **Uploads do not affect one another**: uploading a part to one upload leaves every other
upload of the bucket (other id, or other key) exactly as it was. -/
theorem uploadPart_isolated (cfg : Cfg) (s : State) (w : Who) (now : Int) (b k id : Bytes) (num : Nat)
    (data : Data) (etag : Bytes) (bk : Bucket) (hb : findBucket s b = some bk)
    (hok : (handle cfg s w now (.uploadPart b k id num data etag)).2.code = "") :
    ∃ bk', findBucket (handle cfg s w now (.uploadPart b k id num data etag)).1 b = some bk' ∧
      bk'.objects = bk.objects ∧
      ∀ u ∈ bk.uploads, ¬ (u.key == k && u.id == id) = true → u ∈ bk'.uploads := by
  have hname := findBucket_name s b bk hb
  simp only [handle, withBucket, hb] at hok ⊢
  unfold guarded at hok ⊢
  cases hchk : verifyAccess cfg bk w .write actPutObject k with
  | some e => simp only [hchk] at hok; exact absurd hok (errR_code_ne _)
  | none =>
    simp only [hchk] at hok ⊢
    cases hup : bk.uploads.find? (fun u => u.key == k && u.id == id) with
    | none => simp only [hup] at hok; exact absurd hok (errR_code_ne _)
    | some up =>
      simp only [hup]
      refine ⟨_, find_set s _ b hname, rfl, ?_⟩
      intro u hu hne
      simp only [List.mem_map]
      exact ⟨u, hu, by simp [hne]⟩

/-- **A part is accepted only for an upload that exists**: an id that names no upload in progress of
that key — in particular the EMPTY id, whatever uploads the key has (every id issued is non-empty) — is
answered NoSuchUpload and nothing changes (the defect repaired by 0eb26d4 stored such a part). -/
theorem uploadPart_unknown_id_refused (cfg : Cfg) (s : State) (w : Who) (now : Int) (b k id : Bytes) (num : Nat)
    (data : Data) (etag : Bytes) (bk : Bucket) (hb : findBucket s b = some bk)
    (hacc : verifyAccess cfg bk w .write actPutObject k = none)
    (hno : ∀ u ∈ bk.uploads, ¬ (u.key == k && u.id == id) = true) :
    handle cfg s w now (.uploadPart b k id num data etag) = (s, errR "NoSuchUpload") := by
  have hf : bk.uploads.find? (fun u => u.key == k && u.id == id) = none :=
    List.find?_eq_none.mpr (fun u hu => by simpa using hno u hu)
  simp only [handle, withBucket, hb, guarded, hacc, hf]

/-- parts and uploads in progress are not objects: the operations on uploads never change the
bucket's object map (only completion does) -/
theorem createUpload_no_object (cfg : Cfg) (s : State) (w : Who) (now : Int) (b k : Bytes) (p : PutSpec) (nid : Bytes)
    (bk : Bucket) (hb : findBucket s b = some bk)
    (hok : (handle cfg s w now (.createUpload b k p nid)).2.code = "") :
    ∃ bk', findBucket (handle cfg s w now (.createUpload b k p nid)).1 b = some bk' ∧ bk'.objects = bk.objects := by
  have hname := findBucket_name s b bk hb
  simp only [handle, withBucket, hb] at hok ⊢
  unfold guarded at hok ⊢
  cases hchk : verifyAccess cfg bk w .write actPutObject k with
  | some e => simp only [hchk] at hok; exact absurd hok (errR_code_ne _)
  | none =>
    simp only [hchk] at hok ⊢
    split at hok
    · exact absurd hok (errR_code_ne _)
    · rename_i hl
      simp only [hl]
      exact ⟨_, find_set s _ b hname, rfl⟩

/-- a refused CreateMultipartUpload changes nothing: in particular the other uploads in progress for the
same key, their parts and metadata stay exactly as they were -/
theorem createUpload_refused_no_effect (cfg : Cfg) (s : State) (w : Who) (now : Int) (b k : Bytes) (p : PutSpec) (nid : Bytes)
    (hrf : (handle cfg s w now (.createUpload b k p nid)).2.code ≠ "") :
    (handle cfg s w now (.createUpload b k p nid)).1 = s := by
  simp only [handle, withBucket] at hrf ⊢
  split
  · rfl
  · rename_i bk hb
    simp only [hb] at hrf
    unfold guarded at hrf ⊢
    split
    · rfl
    · rename_i hchk
      simp only [hchk] at hrf
      split
      · rfl
      · rename_i hl
        simp only [hl] at hrf
        exact absurd rfl hrf

/-- after an abort the upload id is gone -/
theorem abort_removes (cfg : Cfg) (s : State) (w : Who) (now : Int) (b k id : Bytes)
    (bk : Bucket) (hb : findBucket s b = some bk)
    (hok : (handle cfg s w now (.abortUpload b k id)).2.code = "") :
    ∃ bk', findBucket (handle cfg s w now (.abortUpload b k id)).1 b = some bk' ∧
      bk'.uploads.find? (fun u => u.key == k && u.id == id) = none ∧ bk'.objects = bk.objects := by
  have hname := findBucket_name s b bk hb
  simp only [handle, withBucket, hb] at hok ⊢
  unfold guarded at hok ⊢
  cases hchk : verifyAccess cfg bk w .write actAbortUpload k with
  | some e => simp only [hchk] at hok; exact absurd hok (errR_code_ne _)
  | none =>
    simp only [hchk] at hok ⊢
    cases hup : bk.uploads.find? (fun u => u.key == k && u.id == id) with
    | none => simp only [hup] at hok; exact absurd hok (errR_code_ne _)
    | some up =>
      simp only [hup]
      refine ⟨_, find_set s _ b hname, ?_, rfl⟩
      simp [List.find?_filter]
      intro x _ h hk
      cases h with
      | inl h => exact absurd hk h
      | inr h => exact h

/-! non-vacuity: two 1-byte parts cannot be completed (first part too small); a single part can -/
def ps : List Part := [⟨1, [⟨1, 0, 1⟩], [97]⟩, ⟨2, [⟨2, 0, 1⟩], [98]⟩]
example : validateParts ps [(1, [97]), (2, [98])] 0 = .error "EntityTooSmall" := by rfl
example : validateParts ps [(2, [98])] 0 = .ok [⟨2, [⟨2, 0, 1⟩], [98]⟩] := by rfl
example : validateParts ps [(2, [98]), (1, [97])] 0 = .error "EntityTooSmall" := by rfl
example : validateParts ps [(1, [99])] 0 = .error "InvalidPart" := by rfl

end Vgw.Props.C08
