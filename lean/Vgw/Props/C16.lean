/-
  C16 — Bucket lifecycle and settings are faithful; deletion never loses data (sequential part).
  Theorems over `Model.Gw`. The name predicate is in `Props/C16Name.lean`; the DeleteBucket races
  are in the concurrent model.
-/
import Vgw.Lemmas.GwMaps
namespace Vgw.Props.C16
open Vgw Vgw.Model.Gw

/-- **Creating a bucket that already exists fails and leaves everything untouched** (owner, ACL,
settings, contents): the state is the same state. -/
theorem create_existing_noop (cfg : Cfg) (s : State) (w : Who) (now : Int) (b : Bytes) (acl : CannedAcl)
    (own : Option Ownership) (lock valid : Bool) (bk : Bucket) (hb : findBucket s b = some bk) :
    (handle cfg s w now (.createBucket b acl own lock valid)).1 = s ∧
    (handle cfg s w now (.createBucket b acl own lock valid)).2.code ≠ "" := by
  simp only [handle]
  repeat (first | exact ⟨rfl, errR_code_ne _⟩ | split)
  all_goals simp_all

/-- **DeleteBucket succeeds only on a bucket without objects, versions or uploads in progress.** -/
theorem deleteBucket_only_if_empty (cfg : Cfg) (s : State) (w : Who) (now : Int) (b : Bytes) (bk : Bucket)
    (hb : findBucket s b = some bk) (hok : (handle cfg s w now (.deleteBucket b)).2.code = "") :
    bk.objects = [] ∧ bk.uploads = [] := by
  simp only [handle, withBucket, hb] at hok
  cases hchk : verifyAccess cfg bk w .write actDeleteBucket [] with
  | some e => rw [hchk] at hok; exact absurd hok (errR_code_ne e)
  | none =>
    rw [hchk] at hok; simp only [guarded] at hok
    split at hok
    · exact absurd hok (errR_code_ne _)
    · rename_i h
      simp only [Bool.or_eq_true, Bool.not_eq_true', not_or, Bool.not_eq_false, List.isEmpty_iff] at h
      exact h

/-- shape of the settings operations: a guarded update of one bucket -/
theorem put_then_find (cfg : Cfg) (s : State) (b : Bytes) (bk bk' : Bucket) (w : Who) (perm : Perm) (act : Bytes)
    (hb : findBucket s b = some bk) (hn : bk'.name = b) (r : Resp)
    (hok : (withBucket s b fun bk0 => guarded (verifyAccess cfg bk0 w perm act []) s fun _ =>
              (setBucket s (if bk0 = bk then bk' else bk0), r)).2.code = "") :
    findBucket (withBucket s b fun bk0 => guarded (verifyAccess cfg bk0 w perm act []) s fun _ =>
              (setBucket s (if bk0 = bk then bk' else bk0), r)).1 b = some bk' := by
  simp only [withBucket, hb] at hok ⊢
  cases hchk : verifyAccess cfg bk w perm act [] with
  | some e => rw [hchk] at hok; exact absurd hok (errR_code_ne e)
  | none =>
    simp only [guarded]
    simp only [if_true]
    exact find_set s bk' b hn

/-- **Tags read back exactly as last written.** -/
theorem tagging_roundtrip (cfg : Cfg) (s : State) (w w' : Who) (now : Int) (b : Bytes) (tags : KVs) (bk : Bucket)
    (hb : findBucket s b = some bk)
    (hok : (handle cfg s w now (.putBucketTagging b tags)).2.code = "")
    (hread : ∀ bk', bk'.name = b → bk'.acl = bk.acl → bk'.policy = bk.policy →
      verifyAccess cfg bk' w' .read actGetBucketTagging [] = none) :
    (handle cfg (handle cfg s w now (.putBucketTagging b tags)).1 w' now (.getBucketTagging b)).2 =
      okR [("tags", showKVs tags)] := by
  have hname := findBucket_name s b bk hb
  simp only [handle, withBucket, hb] at hok ⊢
  cases hchk : verifyAccess cfg bk w .write actPutBucketTagging [] with
  | some e => rw [hchk] at hok; exact absurd hok (errR_code_ne e)
  | none =>
    simp only [guarded]
    have hr := hread { bk with tags := some tags } hname rfl rfl
    simp only [find_set s { bk with tags := some tags } b hname, hr]

/-- … and are gone once deleted. -/
theorem tagging_deleted (cfg : Cfg) (s : State) (w w' : Who) (now : Int) (b : Bytes) (bk : Bucket)
    (hb : findBucket s b = some bk)
    (hok : (handle cfg s w now (.deleteBucketTagging b)).2.code = "")
    (hread : ∀ bk', bk'.name = b → bk'.acl = bk.acl → bk'.policy = bk.policy →
      verifyAccess cfg bk' w' .read actGetBucketTagging [] = none) :
    (handle cfg (handle cfg s w now (.deleteBucketTagging b)).1 w' now (.getBucketTagging b)).2 =
      errR "NoSuchTagSet" := by
  have hname := findBucket_name s b bk hb
  simp only [handle, withBucket, hb] at hok ⊢
  cases hchk : verifyAccess cfg bk w .write actPutBucketTagging [] with
  | some e => rw [hchk] at hok; exact absurd hok (errR_code_ne e)
  | none =>
    simp only [guarded]
    have hr := hread { bk with tags := none } hname rfl rfl
    simp only [find_set s { bk with tags := none } b hname, hr]

/-- **The policy reads back as the document last written** (identified by its document id). -/
theorem policy_roundtrip (cfg : Cfg) (s : State) (w w' : Who) (now : Int) (b : Bytes) (p : Policy) (bk : Bucket)
    (hb : findBucket s b = some bk)
    (hok : (handle cfg s w now (.putBucketPolicy b p true)).2.code = "")
    (hread : ∀ bk', bk'.name = b → bk'.acl = bk.acl → bk'.policy = some p →
      verifyAccess cfg bk' w' .read actGetBucketPolicy [] = none) :
    (handle cfg (handle cfg s w now (.putBucketPolicy b p true)).1 w' now (.getBucketPolicy b)).2 =
      okR [("policy", toString p.docId)] := by
  have hname := findBucket_name s b bk hb
  simp only [handle, withBucket, hb] at hok ⊢
  cases hchk : verifyAccess cfg bk w .write actPutBucketPolicy [] with
  | some e => rw [hchk] at hok; exact absurd hok (errR_code_ne e)
  | none =>
    simp only [guarded]
    have hr := hread { bk with policy := some p } hname rfl rfl
    simp only [Bool.not_true, Bool.false_eq_true, if_false, find_set s { bk with policy := some p } b hname, hr]

/-- **A refused policy leaves the previous one in force**: an invalid document never changes the
state. -/
theorem refused_policy_keeps_previous (cfg : Cfg) (s : State) (w : Who) (now : Int) (b : Bytes) (p : Policy) :
    (handle cfg s w now (.putBucketPolicy b p false)).1 = s := by
  simp only [handle]
  unfold withBucket
  split
  · rfl
  · apply guarded_cases (P := fun r => r.1 = s)
    · intro e _; rfl
    · intro _; rfl

/-- **Ownership controls read back as last written.** -/
theorem ownership_roundtrip (cfg : Cfg) (s : State) (w w' : Who) (now : Int) (b : Bytes) (o : Ownership) (bk : Bucket)
    (hb : findBucket s b = some bk)
    (hok : (handle cfg s w now (.putOwnership b o)).2.code = "")
    (hread : ∀ bk', bk'.name = b → bk'.acl = bk.acl → bk'.policy = bk.policy →
      verifyAccess cfg bk' w' .read actGetOwnership [] = none) :
    (handle cfg (handle cfg s w now (.putOwnership b o)).1 w' now (.getOwnership b)).2 =
      okR [("ownership", showOwnership o)] := by
  have hname := findBucket_name s b bk hb
  simp only [handle, withBucket, hb] at hok ⊢
  cases hchk : verifyAccess cfg bk w .write actPutOwnership [] with
  | some e => rw [hchk] at hok; exact absurd hok (errR_code_ne e)
  | none =>
    simp only [guarded]
    have hr := hread { bk with ownership := some o } hname rfl rfl
    simp only [find_set s { bk with ownership := some o } b hname, hr]

/-- **A canned ACL reads back as last written** (owner unchanged). -/
theorem acl_roundtrip (cfg : Cfg) (s : State) (w w' : Who) (now : Int) (b : Bytes) (acl : CannedAcl) (bk : Bucket)
    (hb : findBucket s b = some bk)
    (hok : (handle cfg s w now (.putBucketAcl b acl)).2.code = "")
    (hread : ∀ bk', bk'.name = b → bk'.policy = bk.policy →
      verifyAccess cfg bk' w' .readAcp actGetBucketAcl [] = none) :
    (handle cfg (handle cfg s w now (.putBucketAcl b acl)).1 w' now (.getBucketAcl b)).2 =
      okR [("acl", showAcl ⟨bk.acl.owner, cannedGrantees bk.acl.owner acl⟩)] := by
  have hname := findBucket_name s b bk hb
  simp only [handle, withBucket, hb] at hok ⊢
  split at hok
  · exact absurd hok (errR_code_ne _)
  · rename_i hown
    simp only [hown, if_false]
    cases hchk : verifyAccess cfg bk w .writeAcp actPutBucketAcl [] with
    | some e => rw [hchk] at hok; exact absurd hok (errR_code_ne e)
    | none =>
      rw [hchk] at hok; simp only [guarded] at hok ⊢
      split at hok
      · exact absurd hok (errR_code_ne _)
      · rename_i hacl
        have hr := hread { bk with acl := ⟨bk.acl.owner, cannedGrantees bk.acl.owner acl⟩ } hname rfl
        simp only [hacl, Bool.false_eq_true, if_false, find_set s { bk with acl := ⟨bk.acl.owner, cannedGrantees bk.acl.owner acl⟩ } b hname, hr]

/-- **An ACL given by grant headers reads back as last written**: the owner's full control followed by
exactly the granted (account, permission) pairs, in order — none merged, none dropped, whatever the
combination (the same account may hold several permissions). -/
theorem aclGrants_roundtrip (cfg : Cfg) (s : State) (w w' : Who) (now : Int) (b : Bytes) (gs : List (Perm × Bytes)) (bk : Bucket)
    (hb : findBucket s b = some bk)
    (hok : (handle cfg s w now (.putBucketAclGrants b gs)).2.code = "")
    (hread : ∀ bk', bk'.name = b → bk'.policy = bk.policy →
      verifyAccess cfg bk' w' .readAcp actGetBucketAcl [] = none) :
    (handle cfg (handle cfg s w now (.putBucketAclGrants b gs)).1 w' now (.getBucketAcl b)).2 =
      okR [("acl", showAcl ⟨bk.acl.owner, ⟨bk.acl.owner, .fullControl, false⟩ :: gs.map fun (p, a) => ⟨a, p, false⟩⟩)] := by
  have hname := findBucket_name s b bk hb
  simp only [handle, withBucket, hb] at hok ⊢
  split at hok
  · exact absurd hok (errR_code_ne _)
  · rename_i hown
    simp only [hown, if_false]
    cases hchk : verifyAccess cfg bk w .writeAcp actPutBucketAcl [] with
    | some e => rw [hchk] at hok; exact absurd hok (errR_code_ne e)
    | none =>
      simp only [guarded]
      have hr := hread { bk with acl := ⟨bk.acl.owner, ⟨bk.acl.owner, .fullControl, false⟩ :: gs.map fun (p, a) => ⟨a, p, false⟩⟩ } hname rfl
      simp only [Bool.false_eq_true, if_false, find_set s { bk with acl := ⟨bk.acl.owner, ⟨bk.acl.owner, .fullControl, false⟩ :: gs.map fun (p, a) => ⟨a, p, false⟩⟩ } b hname, hr]

/-- **A non-admin's ListBuckets shows only buckets it owns** (and an admin's only existing
buckets): every listed name is a bucket of the state whose owner is the caller, unless the caller
is an admin. -/
theorem listBuckets_owned (w : Who) (pfx token : Bytes) (max : Nat) :
    ∀ (bs : List Bucket) (acc : List Bytes),
      ∀ n ∈ (listBucketsLoop w pfx token max bs acc).1,
        n ∈ acc ∨ ∃ bk ∈ bs, bk.name = n ∧ ((w.role == .admin) = true ∨ bk.acl.owner = w.access ) ∧ pfx.isPrefixOf n = true
  | [], acc, n, h => by simp [listBucketsLoop] at h; exact Or.inl h
  | bk :: rest, acc, n, h => by
    unfold listBucketsLoop at h
    split at h
    · rcases listBuckets_owned w pfx token max rest acc n h with h1 | ⟨b', hb', hp⟩
      · exact Or.inl h1
      · exact Or.inr ⟨b', List.mem_cons_of_mem _ hb', hp⟩
    · rename_i hpfx
      split at h
      · exact Or.inl h
      · split at h
        · rcases listBuckets_owned w pfx token max rest acc n h with h1 | ⟨b', hb', hp⟩
          · exact Or.inl h1
          · exact Or.inr ⟨b', List.mem_cons_of_mem _ hb', hp⟩
        · split at h
          · rename_i hown
            rcases listBuckets_owned w pfx token max rest (acc ++ [bk.name]) n h with h1 | ⟨b', hb', hp⟩
            · simp only [List.mem_append, List.mem_singleton] at h1
              rcases h1 with h1 | h1
              · exact Or.inl h1
              · refine Or.inr ⟨bk, List.mem_cons_self, h1.symm, ?_, ?_⟩
                · simp only [Bool.or_eq_true, beq_iff_eq] at hown
                  exact hown
                · subst h1; simpa using hpfx
            · exact Or.inr ⟨b', List.mem_cons_of_mem _ hb', hp⟩
          · rcases listBuckets_owned w pfx token max rest acc n h with h1 | ⟨b', hb', hp⟩
            · exact Or.inl h1
            · exact Or.inr ⟨b', List.mem_cons_of_mem _ hb', hp⟩

/-- a page never exceeds max-buckets -/
theorem listBuckets_bounded (w : Who) (pfx token : Bytes) (max : Nat) :
    ∀ (bs : List Bucket) (acc : List Bytes), acc.length ≤ max →
      (listBucketsLoop w pfx token max bs acc).1.length ≤ max
  | [], acc, h => by simpa [listBucketsLoop] using h
  | bk :: rest, acc, h => by
    unfold listBucketsLoop
    split
    · exact listBuckets_bounded w pfx token max rest acc h
    · split
      · exact h
      · rename_i hfull
        split
        · exact listBuckets_bounded w pfx token max rest acc h
        · split
          · apply listBuckets_bounded
            simp only [List.length_append, List.length_singleton]
            have : acc.length ≠ max := by simpa using hfull
            omega
          · exact listBuckets_bounded w pfx token max rest acc h

/-! non-vacuity -/
def b1 : Bucket := { name := [97], acl := ⟨[117], []⟩ }
def b2 : Bucket := { name := [98], acl := ⟨[118], []⟩ }
example : (listBucketsLoop ⟨[117], false, .user⟩ [] [] 10 [b1, b2] []).1 = [[97]] := by decide
example : (listBucketsLoop ⟨[120], false, .admin⟩ [] [] 10 [b1, b2] []).1 = [[97], [98]] := by decide

end Vgw.Props.C16
