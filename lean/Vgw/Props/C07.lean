/-
  C07 — Listings are complete, ordered, correctly grouped and paginate without loss.

  Spec level (any key set, prefix, delimiter — multi-byte too —, marker):
    * `entries_ascending`, `entries_complete`, `entries_nodup` — what is listed, in which order;
    * `restart_after_next`, `paginate_complete` — following the next markers terminates and yields
      every entry exactly once.
  Model level (`Model.Walk.walk`, the model of backend.Walk):
    * `walk_refines_spec_full` — the property at full strength, a `def … : Prop`: the unchanged code
      violates it (negation and one witness per dropped hypothesis in Vgw/Open/C07.lean);
    * `events_sorted` — the traversal order is the key order iff sibling names are OrderCompatible;
    * `emissions_are_entries` — pruning (SkipDir) is sound, what the callback adds is the entry set;
    * `walk_refines_spec_partial` (and `…_toplevel`) — the model returns exactly the specified page
      when: delimiter "" or "/", sibling names order-compatible, no explicit directory objects, no
      phantom directories, and (delimiter "/") the marker is clear of the common prefixes
      (`Spec.List.markerClear`); files named like a skipped directory and prefixes reaching below
      a skipped directory are covered (findings repaired by C07-fix-1/2: regression examples below);
    * `server_issued_marker_clear`, `walk_pages_eq_spec`, `walk_paginate_complete` — markers the
      server issues itself are clear, so the model's own pagination terminates and yields every
      entry exactly once;
    * `listed_objects_are_keys`, `listed_prefixes_are_rollups` — true sizes/ETags, no internal names.
  Not reached: delimiters other than "" and "/" (the code is wrong there even for its own markers:
  `Open.C07.delim_second_page_rejected`), explicit directory objects (wrong for "" and for "/" with
  children; childless ones with "/" are only covered by the differential runs).
-/
import Vgw.Lemmas.WalkFinal
import Vgw.Lemmas.WalkRoot
import Vgw.Lemmas.WalkMarker
namespace Vgw.Props.C07
open Vgw Vgw.Model.Walk Vgw.Spec.List

/-! ## Spec level -/

/-- **Entry names are strictly ascending** — for every key set, prefix, delimiter and marker. -/
theorem entries_ascending (K : List Bytes) (P D M : Bytes) :
    (entries K P D M).Pairwise (fun a b => blt a.name b.name = true) :=
  entries_sorted K P D M

/-- **Exactly the entries of the keys with the prefix that are after the marker are listed.** -/
theorem entries_complete (K : List Bytes) (P D M : Bytes) (e : Entry) :
    e ∈ entries K P D M ↔ ∃ k, k ∈ K ∧ P <+: k ∧ after P D M k = true ∧ entry P D k = e :=
  mem_entries K P D M e

/-- **Restarting from a truncated page's next marker yields exactly the entries cut off.** -/
theorem restart_after_next (K : List Bytes) (P D M : Bytes) (hK : [] ∉ K) (N : Nat) (hN : 0 < N)
    (hl : N ≤ (entries K P D M).length) :
    entries K P D (lastName ((entries K P D M).take N)) = (entries K P D M).drop N := by
  have hne : (entries K P D M).take N ≠ [] := by
    intro h
    have := congrArg List.length h
    rw [List.length_take, List.length_nil] at this; omega
  have hlast : lastName ((entries K P D M).take N) = (((entries K P D M).take N).getLast hne).name := by
    unfold lastName
    rw [List.getLast?_eq_some_getLast hne]; rfl
  have hmem : ((entries K P D M).take N).getLast hne ∈ entries K P D M :=
    List.mem_of_mem_take (List.getLast_mem hne)
  rw [hlast, entries_restart K P D M hK _ hmem, ← hlast]
  exact filter_gt_last_take _ (entries_sorted K P D M) N hN hl

/-- follow the next markers, at most `fuel` pages -/
def paginate (K : List Bytes) (P D : Bytes) (N : Nat) : Nat → Bytes → List Page
  | 0, _ => []
  | fuel + 1, M =>
    let pg := list K P D M N
    if pg.truncated then pg :: paginate K P D N fuel pg.next else [pg]

/-- **Following the returned next markers terminates (after at most |entries| + 1 pages, the last
one not truncated) and yields every entry exactly once, in order** — any key set without the empty
key, any prefix, delimiter, start marker and page size ≥ 1. -/
theorem paginate_complete (K : List Bytes) (P D : Bytes) (hK : [] ∉ K) (N : Nat) (hN : 0 < N) :
    ∀ (fuel : Nat) (M : Bytes), (entries K P D M).length < fuel →
      ((paginate K P D N fuel M).flatMap (·.items) = entries K P D M) ∧
      (∃ pg, (paginate K P D N fuel M).getLast? = some pg ∧ pg.truncated = false) ∧
      (paginate K P D N fuel M).length ≤ (entries K P D M).length + 1
  | 0, _, h => by omega
  | fuel + 1, M, h => by
    have hN0 : ¬ N = 0 := by omega
    unfold paginate
    dsimp only
    by_cases ht : (entries K P D M).length > N
    · have hpg : list K P D M N = ⟨(entries K P D M).take N, true, lastName ((entries K P D M).take N)⟩ := by
        unfold list; rw [if_neg hN0]; dsimp only; rw [if_pos ht]
      rw [hpg]
      simp only [if_true]
      have hnext := restart_after_next K P D M hK N hN (by omega)
      have ih := paginate_complete K P D hK N hN fuel (lastName ((entries K P D M).take N))
        (by rw [hnext, List.length_drop]; omega)
      rw [hnext] at ih
      obtain ⟨ih1, ⟨pg, ih2, ih3⟩, ih4⟩ := ih
      refine ⟨?_, ⟨pg, ?_, ih3⟩, ?_⟩
      · rw [List.flatMap_cons, ih1]; exact List.take_append_drop N _
      · rw [List.getLast?_cons, ih2]; rfl
      · rw [List.length_cons, List.length_drop] at *; omega
    · have hpg : list K P D M N = ⟨entries K P D M, false, []⟩ := by
        unfold list; rw [if_neg hN0]; dsimp only; rw [if_neg ht]
      rw [hpg]
      simp

/-- no entry is listed twice (a consequence of `entries_ascending`) -/
theorem entries_nodup (K : List Bytes) (P D M : Bytes) : (entries K P D M).Nodup := by
  have := entries_sorted K P D M
  exact this.imp (fun {a b} hab he => by rw [he, blt_irrefl] at hab; cases hab)

/-! ## Model level -/

/-- the model of backend.Walk returns exactly the page the specification defines for the keys
stored in the tree (those outside skipped directories) -/
def Refines (top : List Tree) (g : GetObj) (skip : List Bytes) (P D M : Bytes) (N : Nat) : Prop :=
  walk ⟨P, D, M, (N : Int), g, skip⟩ top = result g (keysList g skip [] top) P D M N

/-- **C07 at full strength** for the model: every well-formed tree, every size/ETag callback, skip
list, prefix, delimiter, marker and page size. FALSE for the unchanged code — see Vgw/Open/C07.lean. -/
def walk_refines_spec_full : Prop :=
  ∀ (top : List Tree) (g : GetObj) (skip : List Bytes) (P D M : Bytes) (N : Nat),
    wfList top = true → Refines top g skip P D M N

/-- **events_sorted**: the pre-order in which `fs.WalkDir` hands paths to the callback is the
ascending byte order of those paths exactly when sibling names are order-compatible. -/
theorem events_sorted (top : List Tree) (base : Bytes) (hwf : wfList top = true) :
    (eventsList base top).Pairwise (fun a b => blt a b = true) ↔ ocList top = true :=
  ⟨oc_of_eventsList_sorted top base, eventsList_sorted top base hwf⟩

/-- **pruning is sound and the emissions are the specified entries** (the core of the refinement):
for the visible events of a forest, what the callback adds is, as a set, exactly
`{entry k | k a key of the forest with the prefix, after the marker}`, with true sizes/ETags. -/
theorem emissions_are_entries (c : Cfg) (h : Hyp c) (ts : List Tree) (b : Bytes) (hwf : wfList ts = true)
    (hpop : populatedList c.getObj c.skip b ts = true) (hb : BaseOK c b)
    (hmc : ∀ k ∈ keysList c.getObj c.skip b ts, MC c k) :
    Good c (keysList c.getObj c.skip b ts) (emsOf c (visList c b ts)) (eventsList b ts) :=
  good_list c h ts b hwf hpop hb hmc

theorem mc_of_markerClear (c : Cfg) (K : List Bytes) (h : markerClear K c.pfx c.delim c.marker = true) :
    ∀ k ∈ K, MC c k := by
  intro k hk hM hD hP x hcut hpm
  unfold markerClear at h
  have hM' : (c.marker == []) = false := by simpa using hM
  have hD' : (c.delim == []) = false := by simpa using hD
  rw [hM', hD'] at h
  simp only [Bool.false_or, List.all_eq_true] at h
  have := h k hk
  rw [(isPrefixOf_iff _ _).2 hP, hcut] at this
  simp only [Bool.not_true, Bool.false_or] at this
  rw [(isPrefixOf_iff _ _).2 hpm] at this
  simp only [Bool.not_true, Bool.false_or, Bool.and_eq_true, Bool.or_eq_true, Bool.not_eq_true',
    beq_iff_eq] at this
  refine ⟨this.1, fun hp => ?_⟩
  rcases this.2 with h' | h'
  · rw [(isPrefixOf_iff _ _).2 hp] at h'; cases h'
  · exact h'

/-- the prefix does not select a root below the top level (no '/' in it after position 0), or the
root is "." -/
def topLevelPrefix (P : Bytes) : Bool := rootOf P == none || rootOf P == some [46]

theorem insideSkip_dot (skip : List Bytes) (h : [46] ∉ skip) : insideSkip skip [46] = false := by
  unfold insideSkip
  rw [List.any_eq_false]
  intro s hs
  have h1 : ([46] == s) = false := by
    have : ([46] : Bytes) ≠ s := fun e => h (e ▸ hs)
    simpa using this
  have h2 : hasPrefix [46] (s ++ [slash]) = false := by
    cases hh : hasPrefix [46] (s ++ [slash]) with
    | false => rfl
    | true =>
      exfalso
      have hp := (hasPrefix_iff _ _).1 hh
      have hl := hp.length_le
      rw [List.length_append] at hl
      simp only [List.length_singleton, List.length_cons, List.length_nil] at hl
      have : s = [] := List.eq_nil_of_length_eq_zero (by omega)
      subst this
      simp [slash] at hp
  simp [h1, h2]

/-- **walk_refines_spec_partial, prefixes resolved at the top level** -/
theorem walk_refines_spec_partial_toplevel (top : List Tree) (g : GetObj) (skip : List Bytes)
    (P D M : Bytes) (N : Nat)
    (hwf : wfList top = true) (hoc : ocList top = true) (hD : D = [] ∨ D = [slash])
    (hnd : ∀ p : Bytes, g (p ++ [slash]) = none)
    (hpop : populatedList g skip [] top = true)
    (hdot : [46] ∉ skip)
    (hmc : markerClear (keysList g skip [] top) P D M = true)
    (hP : topLevelPrefix P = true) : Refines top g skip P D M N := by
  unfold Refines
  by_cases hN : N = 0
  · subst hN
    simp [walk, result, list, Page.toResult, Result.empty, objsOf, cpsOf]
  · let c : Cfg := ⟨P, D, M, (N : Int), g, skip⟩
    have hwalk : walk c top = finish (walkList c [] (init c) top).1 := by
      unfold walk
      have : ¬ c.max = 0 := by show ¬ ((N : Int) = 0); omega
      rw [if_neg this]
      have hdot' : insideSkip c.skip [46] = false := insideSkip_dot skip hdot
      unfold topLevelPrefix at hP
      cases hr : rootOf c.pfx with
      | none => simp [hdot']
      | some r =>
        have hr' : rootOf P = some r := hr
        rw [hr'] at hP
        simp at hP
        subst hP
        simp [hdot']
    show walk c top = _
    rw [hwalk, walkList_eq_run c top [] (init c) rfl]
    exact finish_of_good c N (by omega) rfl (visList c [] top) _ (eventsList [] top)
      (good_list c ⟨hD, hnd⟩ top [] hwf hpop
        (fun _ hp => (List.prefix_nil.1 hp).symm)
        (mc_of_markerClear c _ hmc))
      (eventsList_sorted top [] hwf hoc)
      (visList_epath_sublist c top [])

/-! ### prefixes that select a root below the top level -/

/-- only the keys carrying the prefix matter -/
theorem entries_congr (K1 K2 : List Bytes) (P D M : Bytes) (h : ∀ k, P <+: k → (k ∈ K1 ↔ k ∈ K2)) :
    entries K1 P D M = entries K2 P D M := by
  apply sorted_ext _ _ (entries_sorted K1 P D M) (entries_sorted K2 P D M)
  intro e
  rw [mem_entries, mem_entries]
  constructor
  · rintro ⟨k, h1, h2, h3⟩; exact ⟨k, (h k h2).1 h1, h2, h3⟩
  · rintro ⟨k, h1, h2, h3⟩; exact ⟨k, (h k h2).2 h1, h2, h3⟩

theorem result_congr (g : GetObj) (K1 K2 : List Bytes) (P D M : Bytes) (N : Nat)
    (h : entries K1 P D M = entries K2 P D M) : result g K1 P D M N = result g K2 P D M N := by
  unfold result list
  rw [h]

theorem result_empty (g : GetObj) (K : List Bytes) (P D M : Bytes) (N : Nat)
    (h : ∀ k ∈ K, ¬ P <+: k) : result g K P D M N = Result.empty := by
  have he : entries K P D M = [] := by
    apply List.eq_nil_iff_forall_not_mem.2
    intro e he
    obtain ⟨k, h1, h2, _⟩ := (mem_entries K P D M e).1 he
    exact h k h1 h2
  unfold result list
  rw [he]
  by_cases hN : N = 0
  · simp [hN, Page.toResult, Result.empty, objsOf, cpsOf]
  · simp [hN, Page.toResult, Result.empty, objsOf, cpsOf]

/-- **walk_refines_spec_partial** — for every well-formed tree, size/ETag callback, skip list,
prefix, marker and page size N ≥ 0, the model of backend.Walk returns exactly the page
`Spec.List.list` defines (objects in order with the callback's sizes and ETags, common prefixes in
order, truncation flag, next marker), provided
  * `hD`   the delimiter is "" or "/",
  * `hoc`  no directory has a sibling whose name extends the directory's name by a byte < '/',
  * `hnd`  no directory is an explicit directory object,
  * `hpop` every directory (outside skipped ones) holds at least one key,
  * `hdot` "." is not in the skip list (a sanity condition on the configuration),
  * `hmc`  (delimiter "/") the marker is clear of the common prefixes.
Files named like a skipped directory are ordinary keys, a prefix reaching below a skipped directory
selects nothing (both were findings before the repairs C07-fix-1/2). The hypotheses hD … hpop, hmc
are each necessary: see Vgw/Open/C07.lean. -/
theorem walk_refines_spec_partial (top : List Tree) (g : GetObj) (skip : List Bytes)
    (P D M : Bytes) (N : Nat)
    (hwf : wfList top = true) (hoc : ocList top = true) (hD : D = [] ∨ D = [slash])
    (hnd : ∀ p : Bytes, g (p ++ [slash]) = none)
    (hpop : populatedList g skip [] top = true)
    (hdot : [46] ∉ skip)
    (hmc : markerClear (keysList g skip [] top) P D M = true) : Refines top g skip P D M N := by
  by_cases htop : topLevelPrefix P = true
  · exact walk_refines_spec_partial_toplevel top g skip P D M N hwf hoc hD hnd hpop hdot hmc htop
  · unfold Refines
    by_cases hN : N = 0
    · subst hN
      simp [walk, result, list, Page.toResult, Result.empty, objsOf, cpsOf]
    · obtain ⟨r, hr, hr46⟩ : ∃ r, rootOf P = some r ∧ r ≠ [46] := by
        unfold topLevelPrefix at htop
        cases hr : rootOf P with
        | none => simp [hr] at htop
        | some r =>
          refine ⟨r, rfl, ?_⟩
          intro e; subst e; simp [hr] at htop
      let c : Cfg := ⟨P, D, M, (N : Int), g, skip⟩
      have hrs := rootOf_spec P r hr
      have helems_ne : splitOn slash r ≠ [] := splitOn_ne_nil slash r
      have helems_ns : ∀ e ∈ splitOn slash r, slash ∉ e := splitOn_no_sep slash r
      have hjoin : joinWith slash (splitOn slash r) = r := join_splitOn slash r
      have hnz : ¬ ((N : Int) = 0) := by omega
      have hr' : rootOf c.pfx = some r := hr
      -- a root inside a skipped directory: nothing is listed, and nothing there is a key
      by_cases hin : insideSkip skip r = true
      · have hwalkE : walk c top = Result.empty := by
          unfold walk
          rw [if_neg (show ¬ c.max = 0 from hnz), hr']
          simp only [Option.getD_some]
          rw [if_pos (show insideSkip c.skip r = true from hin)]
        show walk c top = _
        rw [hwalkE]
        symm
        apply result_empty
        intro k hk hp
        unfold insideSkip at hin
        rw [List.any_eq_true] at hin
        obtain ⟨s, hs, hcond⟩ := hin
        apply keys_not_under_skip g skip top hwf k s hk hs
        have hrk : (r ++ [slash]) <+: k := hrs.2.trans hp
        simp only [Bool.or_eq_true, beq_iff_eq] at hcond
        rcases hcond with e | e
        · rw [← e]; exact hrk
        · exact ((hasPrefix_iff _ _).1 e).trans ((List.prefix_append r [slash]).trans hrk)
      have hin' : insideSkip skip r = false := by
        cases h : insideSkip skip r with
        | true => exact absurd h hin
        | false => rfl
      have hclean : ∀ s ∈ skip, ¬ (s ++ [slash]) <+: ([] ++ joinWith slash (splitOn slash r)) := by
        intro s hs hp
        rw [hjoin, List.nil_append] at hp
        unfold insideSkip at hin'
        rw [List.any_eq_false] at hin'
        have := hin' s hs
        rw [(hasPrefix_iff _ _).2 hp] at this
        simp at this
      -- every key carrying the prefix lies in the node `descend` finds
      have hKF : ∀ k ∈ keysList g skip [] top, P <+: k →
          ∃ base t, descend (splitOn slash r) [] top = some (base, t) ∧ k ∈ keysNode g skip base t ∧
            (∀ e ∈ splitOn slash r, validElem e = true) := by
        intro k hk hp
        apply descend_complete g skip (splitOn slash r) [] k top helems_ne helems_ns hwf hk
        rw [hjoin]
        exact (by simpa using hrs.2 : ([] ++ r ++ [slash]) <+: P).trans hp
      have hwalk : walk c top =
          if !(splitOn slash r).all validElem then Result.empty else
          match descend (splitOn slash r) [] top with
          | none => Result.empty
          | some (base, t) => finish (walkNode c base (init c) t).1 := by
        unfold walk
        rw [if_neg (show ¬ c.max = 0 from hnz), hr']
        simp only [Option.getD_some]
        rw [if_neg (by rw [show insideSkip c.skip r = false from hin']; simp)]
        simp only [hr46, if_false]
        rfl
      show walk c top = _
      rw [hwalk]
      by_cases hval : (splitOn slash r).all validElem = true
      · rw [hval]
        simp only [Bool.not_true, Bool.false_eq_true, if_false]
        cases hd : descend (splitOn slash r) [] top with
        | none =>
          simp only
          symm
          apply result_empty
          intro k hk hp
          obtain ⟨base, t, hd', _⟩ := hKF k hk hp
          rw [hd] at hd'; cases hd'
        | some bt =>
          obtain ⟨base, t⟩ := bt
          simp only
          have hlist : ListOK g skip (keysList g skip [] top) [] top := ⟨hwf, hoc, hpop, fun _ h => h⟩
          obtain ⟨hnode, hpath⟩ := descend_sound g skip _ _ [] top base t hd hclean hlist
          rw [hjoin] at hpath
          have hbase : BaseOK c base := by
            intro _ hp
            exfalso
            have l1 := hp.length_le
            have l2 := hrs.2.length_le
            have l3 := congrArg List.length hpath
            simp at l2 l3
            have : c.pfx = P := rfl
            rw [this] at l1
            omega
          rw [walkNode_eq_run c t base (init c) rfl]
          rw [finish_of_good c N (by omega) rfl (visNode c base t) _ (eventsNode base t)
            (good_node c ⟨hD, hnd⟩ t base hnode.wf hnode.pop hbase
              (fun k hk => mc_of_markerClear c _ hmc k (hnode.keys k hk)))
            (eventsNode_sorted t base hnode.wf hnode.oc)
            (visNode_epath_sublist c t base)]
          apply result_congr
          apply entries_congr
          intro k hp
          constructor
          · exact hnode.keys k
          · intro hk
            obtain ⟨base', t', hd', hk', _⟩ := hKF k hk hp
            rw [hd] at hd'
            cases hd'
            exact hk'
      · have hval' : (splitOn slash r).all validElem = false := by
          cases h : (splitOn slash r).all validElem with
          | true => exact absurd h hval
          | false => rfl
        rw [hval']
        simp only [Bool.not_false, if_true]
        symm
        apply result_empty
        intro k hk hp
        obtain ⟨_, _, _, _, hv⟩ := hKF k hk hp
        apply hval
        rw [List.all_eq_true]
        exact hv

/-! ### pagination at model level -/

/-- **markers the server issues itself are safe**: the name of any entry (what a truncated page
returns as its next marker) is clear of every common prefix, in an order-compatible tree without
directory objects. -/
theorem server_issued_marker_clear (top : List Tree) (g : GetObj) (skip : List Bytes) (P D M : Bytes)
    (hwf : wfList top = true) (hoc : ocList top = true) (hD : D = [] ∨ D = [slash])
    (hnd : ∀ p : Bytes, g (p ++ [slash]) = none)
    (hsi : serverIssued (keysList g skip [] top) P D M = true) :
    markerClear (keysList g skip [] top) P D M = true := by
  rcases hD with rfl | rfl
  · unfold markerClear; simp
  · exact serverIssued_markerClear top g skip P M hwf hoc hnd hsi

/-- follow the MODEL's own next markers, at most `fuel` pages -/
def walkPages (top : List Tree) (g : GetObj) (skip : List Bytes) (P D : Bytes) (N : Nat) : Nat → Bytes → List Result
  | 0, _ => []
  | fuel + 1, M =>
    let r := walk ⟨P, D, M, (N : Int), g, skip⟩ top
    if r.truncated then r :: walkPages top g skip P D N fuel r.next else [r]

theorem keysList_ne_nil (g : GetObj) (skip : List Bytes) (top : List Tree) (hwf : wfList top = true) :
    [] ∉ keysList g skip [] top := by
  intro h
  obtain ⟨t, ht, hk⟩ := keysList_mem g skip [] top [] h
  have hp := keysNode_prefix g skip t [] [] hk
  have hne := validName_ne_nil _ (wfNode_validName t (wfList_mem top hwf t ht))
  have := List.prefix_nil.1 hp
  simp at this
  exact hne this

theorem lastName_take_serverIssued (K : List Bytes) (P D M : Bytes) (N : Nat) (hN : 0 < N)
    (hl : N ≤ (entries K P D M).length) :
    serverIssued K P D (lastName ((entries K P D M).take N)) = true := by
  have hne : (entries K P D M).take N ≠ [] := by
    intro h
    have := congrArg List.length h
    rw [List.length_take, List.length_nil] at this; omega
  have hlast : lastName ((entries K P D M).take N) = (((entries K P D M).take N).getLast hne).name := by
    unfold lastName
    rw [List.getLast?_eq_some_getLast hne]; rfl
  have hmem : ((entries K P D M).take N).getLast hne ∈ entries K P D M :=
    List.mem_of_mem_take (List.getLast_mem hne)
  obtain ⟨k, hk, hp, _, he⟩ := (mem_entries K P D M _).1 hmem
  unfold serverIssued
  rw [hlast]
  apply Bool.or_eq_true_iff.2
  right
  rw [List.any_eq_true]
  exact ⟨k, hk, by simp [(isPrefixOf_iff _ _).2 hp, he]⟩

/-- **the model's pagination is the specification's pagination**: starting from any marker that is
clear of the common prefixes (in particular no marker, or any marker when there is no delimiter),
every page the model returns while following its own next markers is the specified page. -/
theorem walk_pages_eq_spec (top : List Tree) (g : GetObj) (skip : List Bytes) (P D : Bytes) (N : Nat)
    (hN : 0 < N)
    (hwf : wfList top = true) (hoc : ocList top = true) (hD : D = [] ∨ D = [slash])
    (hnd : ∀ p : Bytes, g (p ++ [slash]) = none)
    (hpop : populatedList g skip [] top = true)
    (hdot : [46] ∉ skip) :
    ∀ (fuel : Nat) (M : Bytes), markerClear (keysList g skip [] top) P D M = true →
      walkPages top g skip P D N fuel M =
        (paginate (keysList g skip [] top) P D N fuel M).map (Page.toResult g)
  | 0, _, _ => rfl
  | fuel + 1, M, hmc => by
    have href : Refines top g skip P D M N :=
      walk_refines_spec_partial top g skip P D M N hwf hoc hD hnd hpop hdot hmc
    unfold Refines result at href
    unfold walkPages paginate
    dsimp only
    rw [href]
    have hN0 : ¬ N = 0 := by omega
    by_cases ht : (entries (keysList g skip [] top) P D M).length > N
    · have hpg : list (keysList g skip [] top) P D M N =
          ⟨(entries (keysList g skip [] top) P D M).take N, true,
            lastName ((entries (keysList g skip [] top) P D M).take N)⟩ := by
        unfold list; rw [if_neg hN0]; dsimp only; rw [if_pos ht]
      rw [hpg]
      simp only [Page.toResult, if_true, List.map_cons]
      congr 1
      apply walk_pages_eq_spec top g skip P D N hN hwf hoc hD hnd hpop hdot fuel
      exact server_issued_marker_clear top g skip P D _ hwf hoc hD hnd
        (lastName_take_serverIssued _ P D M N hN (by omega))
    · have hpg : list (keysList g skip [] top) P D M N =
          ⟨entries (keysList g skip [] top) P D M, false, []⟩ := by
        unfold list; rw [if_neg hN0]; dsimp only; rw [if_neg ht]
      rw [hpg]
      simp [Page.toResult]

theorem flatMap_objects_toResult (g : GetObj) : ∀ pages : List Page,
    (pages.map (Page.toResult g)).flatMap (·.objects) = objsOf g (pages.flatMap (·.items))
  | [] => rfl
  | p :: ps => by
    simp only [List.map_cons, List.flatMap_cons, flatMap_objects_toResult g ps]
    simp [Page.toResult, objsOf, List.filterMap_append]

theorem flatMap_cps_toResult (g : GetObj) : ∀ pages : List Page,
    (pages.map (Page.toResult g)).flatMap (·.cps) = cpsOf (pages.flatMap (·.items))
  | [] => rfl
  | p :: ps => by
    simp only [List.map_cons, List.flatMap_cons, flatMap_cps_toResult g ps]
    simp [Page.toResult, cpsOf, List.filterMap_append]

/-- **walk_paginate_complete**: following the model's own next markers terminates (at most
|entries| + 1 pages, the last one not truncated) and the pages together hold every specified entry
exactly once, in order: the objects (with the callback's sizes/ETags) and the common prefixes of
`Spec.List.entries`. -/
theorem walk_paginate_complete (top : List Tree) (g : GetObj) (skip : List Bytes) (P D M : Bytes) (N : Nat)
    (hN : 0 < N)
    (hwf : wfList top = true) (hoc : ocList top = true) (hD : D = [] ∨ D = [slash])
    (hnd : ∀ p : Bytes, g (p ++ [slash]) = none)
    (hpop : populatedList g skip [] top = true)
    (hdot : [46] ∉ skip)
    (hmc : markerClear (keysList g skip [] top) P D M = true)
    (fuel : Nat) (hfuel : (entries (keysList g skip [] top) P D M).length < fuel) :
    (walkPages top g skip P D N fuel M).flatMap (·.objects) = objsOf g (entries (keysList g skip [] top) P D M) ∧
    (walkPages top g skip P D N fuel M).flatMap (·.cps) = cpsOf (entries (keysList g skip [] top) P D M) ∧
    (∃ r, (walkPages top g skip P D N fuel M).getLast? = some r ∧ r.truncated = false) ∧
    (walkPages top g skip P D N fuel M).length ≤ (entries (keysList g skip [] top) P D M).length + 1 := by
  rw [walk_pages_eq_spec top g skip P D N hN hwf hoc hD hnd hpop hdot fuel M hmc]
  obtain ⟨h1, ⟨pg, h2, h3⟩, h4⟩ :=
    paginate_complete (keysList g skip [] top) P D (keysList_ne_nil g skip top hwf) N hN fuel M hfuel
  refine ⟨?_, ?_, ?_, ?_⟩
  · rw [flatMap_objects_toResult, h1]
  · rw [flatMap_cps_toResult, h1]
  · refine ⟨pg.toResult g, ?_, h3⟩
    rw [List.getLast?_map, h2]; rfl
  · simpa using h4

/-! ### corollaries: true sizes/ETags, no internal names -/

theorem mem_objsOf (g : GetObj) : ∀ (es : List Entry) (o : Obj), o ∈ objsOf g es →
    Entry.obj o.key ∈ es ∧ g o.key = some (o.size, o.etag)
  | [], o, h => by simp [objsOf] at h
  | .cp n :: es, o, h => by
    have : o ∈ objsOf g es := by simpa [objsOf] using h
    have := mem_objsOf g es o this
    exact ⟨by simp [this.1], this.2⟩
  | .obj k :: es, o, h => by
    simp only [objsOf, List.filterMap_cons] at h
    cases hg : g k with
    | none =>
      simp only [hg, Option.map_none] at h
      have := mem_objsOf g es o h
      exact ⟨by simp [this.1], this.2⟩
    | some m =>
      simp only [hg, Option.map_some, List.mem_cons] at h
      rcases h with rfl | h
      · exact ⟨by simp, hg⟩
      · have := mem_objsOf g es o h
        exact ⟨by simp [this.1], this.2⟩

theorem list_items_sub (K : List Bytes) (P D M : Bytes) (N : Nat) :
    ∀ e ∈ (list K P D M N).items, e ∈ entries K P D M := by
  intro e he
  unfold list at he
  split at he
  · simp at he
  · dsimp only at he
    split at he
    · exact List.mem_of_mem_take he
    · exact he

/-- **size_etag_true / no_internal_names**: whenever the model returns the specified page, every
object on it is a key stored in the tree OUTSIDE the skipped (bookkeeping) directories, carries the
prefix, and has the size and ETag the callback reports for it. -/
theorem listed_objects_are_keys (top : List Tree) (g : GetObj) (skip : List Bytes) (P D M : Bytes) (N : Nat)
    (h : Refines top g skip P D M N) :
    ∀ o ∈ (walk ⟨P, D, M, (N : Int), g, skip⟩ top).objects,
      o.key ∈ keysList g skip [] top ∧ P <+: o.key ∧ g o.key = some (o.size, o.etag) := by
  intro o ho
  rw [h] at ho
  have := mem_objsOf g _ o ho
  obtain ⟨k, hk, hp, _, he⟩ := (mem_entries _ P D M _).1 (list_items_sub _ P D M N _ this.1)
  have := entry_obj_eq P D k o.key hp he
  rw [this]
  exact ⟨hk, hp, by rw [← this]; exact ‹Entry.obj o.key ∈ _ ∧ g o.key = some (o.size, o.etag)›.2⟩

/-- every common prefix on the page is the roll-up of a key stored outside the skipped directories -/
theorem listed_prefixes_are_rollups (top : List Tree) (g : GetObj) (skip : List Bytes) (P D M : Bytes) (N : Nat)
    (h : Refines top g skip P D M N) :
    ∀ n ∈ (walk ⟨P, D, M, (N : Int), g, skip⟩ top).cps,
      ∃ k ∈ keysList g skip [] top, P <+: k ∧ entry P D k = .cp n := by
  intro n hn
  rw [h] at hn
  have hmem : Entry.cp n ∈ (list (keysList g skip [] top) P D M N).items := by
    have : n ∈ cpsOf (list (keysList g skip [] top) P D M N).items := hn
    unfold cpsOf at this
    obtain ⟨e, he, hen⟩ := List.mem_filterMap.1 this
    cases e with
    | obj k => simp at hen
    | cp m => simp at hen; subst hen; exact he
  obtain ⟨k, hk, hp, _, he⟩ := (mem_entries _ P D M _).1 (list_items_sub _ P D M N _ hmem)
  exact ⟨k, hk, hp, he⟩

/-! ## Non-vacuity: concrete inputs meeting the hypotheses (kernel-evaluated; these are tests)

Bytes: a=97 b=98 c=99 s=115 x=120, '.'=46, '/'=47. -/

/-- every file is an object (size = length of its key, ETag = its key); no directory is -/
def fileOnly : GetObj := fun k => if k.getLast? = some 47 then none else some (k.length, k)

theorem fileOnly_noDirObj (p : Bytes) : fileOnly (p ++ [slash]) = none := by
  simp [fileOnly, slash]

/-- `.s/x` (internal), `a/b`, `a/c`, `ab`, `b` -/
def sampleTree : List Tree :=
  [.dir [46, 115] [.file [120]], .dir [97] [.file [98], .file [99]], .file [97, 98], .file [98]]

/-- prefix `a/`, delimiter `/`, first page of size 1 -/
example : Refines sampleTree fileOnly [[46, 115]] [97, 47] [47] [] 1 :=
  walk_refines_spec_partial sampleTree fileOnly [[46, 115]] [97, 47] [47] [] 1 (by decide) (by decide)
    (Or.inr rfl) fileOnly_noDirObj (by decide) (by decide) (by decide)
example : walk ⟨[97, 47], [47], [], 1, fileOnly, [[46, 115]]⟩ sampleTree =
    ⟨[⟨[97, 47, 98], 3, [97, 47, 98]⟩], [], true, [97, 47, 98]⟩ := by decide
/-- continuing from the returned marker `a/b` (a key: clear of every common prefix) -/
example : Refines sampleTree fileOnly [[46, 115]] [97, 47] [47] [97, 47, 98] 1 :=
  walk_refines_spec_partial sampleTree fileOnly [[46, 115]] [97, 47] [47] [97, 47, 98] 1 (by decide) (by decide)
    (Or.inr rfl) fileOnly_noDirObj (by decide) (by decide) (by decide)
/-- no prefix, delimiter `/`, marker = the common prefix `a/` an earlier page returned -/
example : Refines sampleTree fileOnly [[46, 115]] [] [47] [97, 47] 5 :=
  walk_refines_spec_partial sampleTree fileOnly [[46, 115]] [] [47] [97, 47] 5 (by decide) (by decide)
    (Or.inr rfl) fileOnly_noDirObj (by decide) (by decide) (by decide)
example : walk ⟨[], [47], [97, 47], 5, fileOnly, [[46, 115]]⟩ sampleTree =
    ⟨[⟨[97, 98], 2, [97, 98]⟩, ⟨[98], 1, [98]⟩], [], false, []⟩ := by decide
/-- no delimiter, arbitrary marker `a/bb` (not a key) -/
example : Refines sampleTree fileOnly [[46, 115]] [] [] [97, 47, 98, 98] 2 :=
  walk_refines_spec_partial sampleTree fileOnly [[46, 115]] [] [] [97, 47, 98, 98] 2 (by decide) (by decide)
    (Or.inl rfl) fileOnly_noDirObj (by decide) (by decide) (by decide)
example : walk ⟨[], [], [97, 47, 98, 98], 2, fileOnly, [[46, 115]]⟩ sampleTree =
    ⟨[⟨[97, 47, 99], 3, [97, 47, 99]⟩, ⟨[97, 98], 2, [97, 98]⟩], [], true, [97, 98]⟩ := by decide
example : (eventsList [] sampleTree).Pairwise (fun a b => blt a b = true) :=
  (events_sorted sampleTree [] (by decide)).2 (by decide)
/-- the model's own pagination of `sampleTree` with delimiter `/`, page size 1: [ab]… pages a/, ab, b -/
example : (walkPages sampleTree fileOnly [[46, 115]] [] [47] 1 5 []).map (fun r => (r.objects.map (·.key), r.cps, r.truncated)) =
    [([], [[97, 47]], true), ([[97, 98]], [], true), ([[98]], [], false)] := by decide
example : (walkPages sampleTree fileOnly [[46, 115]] [] [47] 1 5 []).flatMap (·.objects) =
    objsOf fileOnly (entries (keysList fileOnly [[46, 115]] [] sampleTree) [] [47] []) :=
  (walk_paginate_complete sampleTree fileOnly [[46, 115]] [] [47] [] 1 (by decide) (by decide) (by decide)
    (Or.inr rfl) fileOnly_noDirObj (by decide) (by decide) (by decide) 5 (by decide)).1
example : serverIssued (keysList fileOnly [[46, 115]] [] sampleTree) [] [47] [97, 47] = true := by decide
/-- spec level: three keys, page size 1, delimiter `-` (= 45): pages [a-], [b] -/
example : (paginate [[97, 45, 98], [97, 45, 99], [98]] [] [45] 1 4 []).map (·.items) =
    [[.cp [97, 45]], [.obj [98]]] := by decide
example : [] ∉ [[97, 45, 98], [97, 45, 99], ([98] : Bytes)] := by decide
example : topLevelPrefix [97] = true ∧ topLevelPrefix [97, 47] = false := by decide

/-! ### regression examples: former findings, repaired in backend/walk.go (C07-fix-1/2/3)

Bytes: m=109 x=120 y=121 z=122, '0'=48 plays the role of `.sgwtmp`. -/

/-- skip list [`0`], keys `x/0`, `x/z`: a FILE named like the skipped directory is an ordinary key and
does not end the walk of its directory (was `walk:skip-name-below-top-level`) -/
def tSkipFile : List Tree := [.dir [120] [.file [48], .file [122]]]
example : Refines tSkipFile fileOnly [[48]] [] [] [] 10 :=
  walk_refines_spec_partial tSkipFile fileOnly [[48]] [] [] [] 10 (by decide) (by decide)
    (Or.inl rfl) fileOnly_noDirObj (by decide) (by decide) (by decide)
example : walk ⟨[], [], [], 10, fileOnly, [[48]]⟩ tSkipFile =
    ⟨[⟨[120, 47, 48], 3, [120, 47, 48]⟩, ⟨[120, 47, 122], 3, [120, 47, 122]⟩], [], false, []⟩ := by decide
/-- a DIRECTORY named `0` below the top level is not internal either: `x/0/y` is listed -/
example : walk ⟨[], [], [], 10, fileOnly, [[48]]⟩ [.dir [120] [.dir [48] [.file [121]]]] =
    ⟨[⟨[120, 47, 48, 47, 121], 5, [120, 47, 48, 47, 121]⟩], [], false, []⟩ := by decide

/-- skip list [`0`], internal path `0/m/x`, key `y`, prefix `0/m/`: nothing is listed (was
`walk:prefix-below-skipdir`) -/
def tBelow : List Tree := [.dir [48] [.dir [109] [.file [120]]], .file [121]]
example : Refines tBelow fileOnly [[48]] [48, 47, 109, 47] [] [] 10 :=
  walk_refines_spec_partial tBelow fileOnly [[48]] [48, 47, 109, 47] [] [] 10 (by decide) (by decide)
    (Or.inl rfl) fileOnly_noDirObj (by decide) (by decide) (by decide)
example : walk ⟨[48, 47, 109, 47], [], [], 10, fileOnly, [[48]]⟩ tBelow = Result.empty ∧
    keysList fileOnly [[48]] [] tBelow = [[121]] ∧
    walk ⟨[48, 47], [], [], 10, fileOnly, [[48]]⟩ tBelow = Result.empty ∧
    walk ⟨[], [], [], 10, fileOnly, [[48]]⟩ tBelow = ⟨[⟨[121], 1, [121]⟩], [], false, []⟩ := by decide

/-- prefix `x//` (root `x/` is not a valid path): the empty listing (was `walk:invalid-root-prefix`
end to end: os.DirFS answers fs.ErrInvalid, now suppressed like fs.ErrNotExist) -/
example : Refines tSkipFile fileOnly [[48]] [120, 47, 47] [] [] 10 :=
  walk_refines_spec_partial tSkipFile fileOnly [[48]] [120, 47, 47] [] [] 10 (by decide) (by decide)
    (Or.inl rfl) fileOnly_noDirObj (by decide) (by decide) (by decide)
example : walk ⟨[120, 47, 47], [], [], 10, fileOnly, [[48]]⟩ tSkipFile = Result.empty := by decide

end Vgw.Props.C07
