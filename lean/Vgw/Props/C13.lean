/-
  C13 — Range reads return exactly the requested bytes.
  Theorems about `Model.Range.respond` (the model of ParseGetObjectRange + posix.GetObject's
  range handling + the controller's status choice), for every object size and every header.
-/
import Vgw.Lemmas.Range
namespace Vgw.Props.C13
open Vgw Vgw.Model.Range Vgw.Spec.Range

theorem split_wellformed (a b : Bytes) (ha : (61 : UInt8) ∉ a ∧ (45 : UInt8) ∉ a)
    (hb : (61 : UInt8) ∉ b ∧ (45 : UInt8) ∉ b) :
    splitOn 61 (prefixLit ++ a ++ 45 :: b) = [bytesLit, a ++ 45 :: b] ∧
    splitOn 45 (a ++ 45 :: b) = [a, b] := by
  constructor
  · have h1 : (61 : UInt8) ∉ a ++ 45 :: b := by
      simp [ha.1, hb.1]
    have : prefixLit ++ a ++ 45 :: b = bytesLit ++ 61 :: (a ++ 45 :: b) := by
      simp [prefixLit]
    rw [this, splitOn_append 61 bytesLit _ (by decide), splitOn_of_not_mem 61 _ h1]
  · rw [splitOn_append 45 a b ha.2, splitOn_of_not_mem 45 b hb.2]

theorem prefix_ne_nil (a b : Bytes) : prefixLit ++ a ++ 45 :: b ≠ [] := by
  simp [prefixLit, bytesLit]

/-- **Well-formed closed and open ranges get exactly the prescribed answer**: 416 iff the first
position is at or beyond the end, otherwise 206 with the interval clipped to the object. -/
theorem wellformed_range (size : Int) (a b : Bytes) (first : Nat) (last : Option Nat)
    (ha : IsDigits a first) (hf : (first : Int) ≤ int64Max)
    (hb : (b = [] ∧ last = none) ∨
          (∃ l, IsDigits b l ∧ last = some l ∧ first ≤ l ∧ (l : Int) ≤ int64Max)) :
    respond size (prefixLit ++ a ++ 45 :: b) = prescribed size first last := by
  have hna := digits_not_mem a first ha
  have hnb : (61 : UInt8) ∉ b ∧ (45 : UInt8) ∉ b := by
    rcases hb with ⟨rfl, _⟩ | ⟨l, hl, _⟩
    · simp
    · have := digits_not_mem b l hl; exact ⟨this.2, this.1⟩
  have hs := split_wellformed a b ⟨hna.2, hna.1⟩ hnb
  have hpa := parseInt64_digits a first ha
  rw [if_pos hf] at hpa
  unfold respond parseGetObjectRange
  rw [if_neg (prefix_ne_nil a b), hs.1]
  simp only [ne_eq, not_true_eq_false, if_false, hs.2, hpa]
  by_cases hge : (first : Int) ≥ size
  · simp [hge, prescribed, unsatisfiable]
  · simp only [hge, if_false]
    rcases hb with ⟨rfl, rfl⟩ | ⟨l, hl, rfl, hfl, hlm⟩
    · simp [prescribed, hge, partial_, prefix_ne_nil]
      omega
    · have hbne : b ≠ [] := (parseDigits_digits b l hl).1
      have hpb := parseInt64_digits b l hl
      rw [if_pos hlm] at hpb
      have hnlt : ¬ ((l : Int) < (first : Int)) := by omega
      simp only [hbne, if_false, hpb, hnlt]
      by_cases hle : (l : Int) ≥ size
      · simp [hle, prescribed, hge, partial_, prefix_ne_nil]
        have : min (l : Int) (size - 1) = size - 1 := by omega
        rw [this]; omega
      · simp [hle, prescribed, hge, partial_, prefix_ne_nil]
        have : min (l : Int) (size - 1) = l := by omega
        rw [this]; omega

/-- **Reversed ranges are ignored** (whole object, 200), except that a first position at or
beyond the end may already have been answered 416 (grey zone: the statement prescribes both). -/
theorem reversed_range (size : Int) (a b : Bytes) (first l : Nat)
    (ha : IsDigits a first) (hl : IsDigits b l) (hrev : l < first) :
    respond size (prefixLit ++ a ++ 45 :: b) = whole size ∨
    ((first : Int) ≥ size ∧ respond size (prefixLit ++ a ++ 45 :: b) = unsatisfiable) := by
  have hna := digits_not_mem a first ha
  have hnb := digits_not_mem b l hl
  have hs := split_wellformed a b ⟨hna.2, hna.1⟩ ⟨hnb.2, hnb.1⟩
  have hpa := parseInt64_digits a first ha
  have hpb := parseInt64_digits b l hl
  have hbne : b ≠ [] := (parseDigits_digits b l hl).1
  unfold respond parseGetObjectRange
  rw [if_neg (prefix_ne_nil a b), hs.1]
  simp only [ne_eq, not_true_eq_false, if_false, hs.2, hpa]
  by_cases hf : (first : Int) ≤ int64Max
  · simp only [hf, if_true]
    by_cases hge : (first : Int) ≥ size
    · right; simp [hge, unsatisfiable]
    · left
      simp only [hge, if_false, hbne, hpb]
      by_cases hlm : (l : Int) ≤ int64Max
      · have : (l : Int) < (first : Int) := by omega
        simp [hlm, this, whole]
      · simp [hlm, whole]
  · left; simp [hf, whole]

/-- the tail of ParseGetObjectRange once the first number has been read -/
def inner (size start : Int) (b : Bytes) : Parse :=
  if start ≥ size then ⟨0, 0, false, true⟩ else
  if b = [] then ⟨start, size - start, true, false⟩ else
  match parseInt64 b with
  | none => ⟨0, size, false, false⟩
  | some endOffset =>
    if endOffset < start then ⟨0, size, false, false⟩ else
    if endOffset ≥ size then ⟨start, size - start, true, false⟩ else
    ⟨start, endOffset - start + 1, true, false⟩

theorem parse_shape (size : Int) (r : Bytes) :
    parseGetObjectRange size r = ⟨0, size, false, false⟩ ∨
    ∃ a b start, r = prefixLit ++ a ++ 45 :: b ∧ (45 : UInt8) ∉ a ∧ (45 : UInt8) ∉ b ∧
      parseInt64 a = some start ∧ parseGetObjectRange size r = inner size start b := by
  unfold parseGetObjectRange
  split
  · left; rfl
  · rename_i hr
    split
    · rename_i unit spec h1
      split
      · left; rfl
      · rename_i hu
        simp only [ne_eq, Decidable.not_not] at hu
        split
        · rename_i a b h2
          split
          · left; rfl
          · rename_i start hpa
            right
            refine ⟨a, b, start, ?_, ?_, ?_, hpa, rfl⟩
            · have hj := join_splitOn 61 r
              have hj2 := join_splitOn 45 spec
              rw [h1] at hj; rw [h2] at hj2
              simp [joinWith] at hj hj2
              rw [← hj, ← hj2, hu]; simp [prefixLit]
            · exact splitOn_no_sep 45 spec a (by simp [h2])
            · exact splitOn_no_sep 45 spec b (by simp [h2])
        · left; rfl
    · left; rfl

theorem respond_of_invalid (size : Int) (r : Bytes)
    (h : parseGetObjectRange size r = ⟨0, size, false, false⟩) : respond size r = whole size := by
  unfold respond; rw [h]; simp [whole]

/-- **Everything else is the whole object**: if the answer is not `200 whole object`, then the
header is `bytes=`[+]DIGITS`-`[[+]DIGITS] with first ≤ last, and the answer is the prescribed one.
Hence absent headers, other units, multi-ranges, suffix ranges `-n`, whitespace, garbage and
numbers beyond int64 all yield 200 with the entire object. -/
theorem not_whole_inv (size : Int) (r : Bytes) (h : respond size r ≠ whole size) :
    ∃ a b first, r = prefixLit ++ a ++ 45 :: b ∧ IsPlusDigits a first ∧ (first : Int) ≤ int64Max ∧
      (((first : Int) ≥ size ∧ respond size r = unsatisfiable) ∨
       ((first : Int) < size ∧ b = [] ∧ respond size r = prescribed size first none) ∨
       ((first : Int) < size ∧ ∃ l, IsPlusDigits b l ∧ first ≤ l ∧
          respond size r = prescribed size first (some l))) := by
  rcases parse_shape size r with hinv | ⟨a, b, start, hr, ha45, hb45, hpa, hparse⟩
  · exact absurd (respond_of_invalid size r hinv) h
  · obtain ⟨first, hfa, hsv, hfm⟩ := parseInt64_some_inv a start hpa ha45
    subst hsv
    refine ⟨a, b, first, hr, hfa, hfm, ?_⟩
    have hrne : r ≠ [] := by rw [hr]; exact prefix_ne_nil a b
    by_cases hge : (first : Int) ≥ size
    · left
      refine ⟨hge, ?_⟩
      unfold respond; rw [hparse]; simp [inner, hge, unsatisfiable]
    · right
      have hlt : (first : Int) < size := by omega
      by_cases hb : b = []
      · left
        refine ⟨hlt, hb, ?_⟩
        unfold respond; rw [hparse]
        simp [inner, hge, hb, hrne, prescribed, partial_]; omega
      · right
        refine ⟨hlt, ?_⟩
        cases hpb : parseInt64 b with
        | none =>
          exfalso; apply h
          unfold respond; rw [hparse]; simp [inner, hge, hb, hpb, whole]
        | some e =>
          obtain ⟨l, hlb, hev, hlm⟩ := parseInt64_some_inv b e hpb hb45
          subst hev
          by_cases hrev : (l : Int) < (first : Int)
          · exfalso; apply h
            unfold respond; rw [hparse]; simp [inner, hge, hb, hpb, hrev, whole]
          · refine ⟨l, hlb, by omega, ?_⟩
            unfold respond; rw [hparse]
            by_cases hle : (l : Int) ≥ size
            · simp [inner, hge, hb, hpb, hrev, hle, hrne, prescribed, partial_]
              have : min (l : Int) (size - 1) = size - 1 := by omega
              rw [this]; omega
            · simp [inner, hge, hb, hpb, hrev, hle, hrne, prescribed, partial_]
              have : min (l : Int) (size - 1) = l := by omega
              rw [this]; omega

/-- **The body never leaves the object and always agrees with status, Content-Length and
Content-Range** — for every size ≥ 0 and every header string whatsoever. -/
theorem consistent (size : Int) (hs : 0 ≤ size) (r : Bytes) : Consistent size (respond size r) := by
  by_cases h : respond size r = whole size
  · rw [h]; left; simp [whole]
  · obtain ⟨a, b, first, _, _, _, hcase⟩ := not_whole_inv size r h
    rcases hcase with ⟨_, he⟩ | ⟨hlt, _, he⟩ | ⟨hlt, l, _, hfl, he⟩
    · rw [he]; right; right; simp [unsatisfiable]
    · rw [he]; right; left
      have : ¬ ((first : Int) ≥ size) := by omega
      simp [prescribed, this, partial_]; omega
    · rw [he]; right; left
      have : ¬ ((first : Int) ≥ size) := by omega
      simp [prescribed, this, partial_]
      omega

/-- No value computed on the way leaves the int64 range (so Go's wrapping arithmetic never
occurs): offsets and lengths are within [0, size]. -/
theorem no_overflow (size : Int) (hs : 0 ≤ size) (hmax : size ≤ int64Max) (r : Bytes) :
    let p := respond size r
    0 ≤ p.bodyOff ∧ 0 ≤ p.bodyLen ∧ p.bodyOff + p.bodyLen ≤ int64Max := by
  have := consistent size hs r
  rcases this with ⟨_, h1, h2, _⟩ | ⟨_, h1, h2, h3, _⟩ | ⟨h0, h2, _⟩
  · simp only; omega
  · simp only; omega
  · simp only
    by_cases h : respond size r = whole size
    · rw [h] at h0; simp [whole] at h0
    · obtain ⟨a, b, first, _, _, _, hcase⟩ := not_whole_inv size r h
      rcases hcase with ⟨_, he⟩ | ⟨hlt, _, he⟩ | ⟨hlt, l, _, hfl, he⟩
      · rw [he]; simp [unsatisfiable]; unfold int64Max; omega
      · rw [he] at h0
        have : ¬ ((first : Int) ≥ size) := by omega
        simp [prescribed, this, partial_] at h0
      · rw [he] at h0
        have : ¬ ((first : Int) ≥ size) := by omega
        simp [prescribed, this, partial_] at h0

/-! Non-vacuity: concrete headers meeting the hypotheses, evaluated by the kernel.
`2` = [50], `4` = [52], `-` = 45, `,` = 44. -/
example : IsDigits [50] 2 := by unfold IsDigits; decide
example : respond 10 (prefixLit ++ [50] ++ 45 :: [52]) = prescribed 10 2 (some 4) :=
  wellformed_range 10 [50] [52] 2 (some 4) (by unfold IsDigits; decide) (by decide)
    (Or.inr ⟨4, by unfold IsDigits; decide, rfl, by decide, by decide⟩)
example : respond 10 (prefixLit ++ [50] ++ 45 :: [52]) = ⟨206, 2, 3, 3, some (2, 4, 10)⟩ := by decide
example : respond 10 (prefixLit ++ [55] ++ 45 :: []) = ⟨206, 7, 3, 3, some (7, 9, 10)⟩ := by decide
example : respond 10 (prefixLit ++ [49, 48] ++ 45 :: []) = unsatisfiable := by decide
example : respond 0 (prefixLit ++ [48] ++ 45 :: [48]) = unsatisfiable := by decide
example : respond 10 (prefixLit ++ [] ++ 45 :: [51]) = whole 10 := by decide       -- bytes=-3
example : respond 10 (prefixLit ++ [49] ++ 45 :: [50, 44, 52, 45, 53]) = whole 10 := by decide  -- 1-2,4-5
example : respond 10 (prefixLit ++ [53] ++ 45 :: [50]) = whole 10 := by decide     -- bytes=5-2
example : respond 10 [103, 97, 114] = whole 10 := by decide                         -- gar

end Vgw.Props.C13
