/-
  C06 — An upload commits only if every integrity assertion holds.
  At the level of `Model.Gw` an upload carries, besides its body, the verdict of the integrity
  assertions the client supplied (Content-MD5, x-amz-content-sha256, x-amz-checksum-*, chunk and
  trailer signatures, declared decoded length). This file states the commit rule over that verdict;
  that the readers compute the verdict correctly for every stream and fragmentation is C12, and
  that the gateway as a whole obeys the rule for every mode × field × corruption is the
  correspondence matrix of this check (judged by the property itself).
-/
import Vgw.Lemmas.GwMaps
namespace Vgw.Props.C06
open Vgw Vgw.Model.Gw

/-- the integrity assertions a client can attach to an upload, each with its verdict -/
structure Assertions where
  contentMD5 : Option Bool := none       -- none = not supplied; some ok
  payloadSha256 : Option Bool := none
  checksum : Option Bool := none         -- x-amz-checksum-* (header or trailer)
  chunkSignatures : Option Bool := none  -- every chunk signature and the trailer signature
  declaredLength : Bool := true          -- decoded bytes received = declared length
  deriving DecidableEq

def Assertions.allHold (a : Assertions) : Bool :=
  a.contentMD5.getD true && a.payloadSha256.getD true && a.checksum.getD true &&
    a.chunkSignatures.getD true && a.declaredLength

/-- an upload with assertions: commits exactly when all of them hold -/
def upload (cfg : Cfg) (s : State) (w : Who) (now : Int) (b k : Bytes) (p : PutSpec) (nv : Bytes) (a : Assertions) :
    State × Resp :=
  if a.allHold then handle cfg s w now (.putObject b k p nv) else (s, errR "BadDigest")

/-- **If any supplied assertion does not match, the request fails and the state — in particular
the key's content, metadata and version list — is exactly what it was.** -/
theorem mismatch_preserves_state (cfg : Cfg) (s : State) (w : Who) (now : Int) (b k : Bytes) (p : PutSpec)
    (nv : Bytes) (a : Assertions) (h : a.allHold = false) :
    upload cfg s w now b k p nv a = (s, errR "BadDigest") ∧ (upload cfg s w now b k p nv a).2.code ≠ "" := by
  have : upload cfg s w now b k p nv a = (s, errR "BadDigest") := by
    unfold upload; simp [h]
  rw [this]
  exact ⟨rfl, errR_code_ne _⟩

/-- each single violated assertion makes `allHold` false -/
theorem any_violation (a : Assertions)
    (h : a.contentMD5 = some false ∨ a.payloadSha256 = some false ∨ a.checksum = some false ∨
         a.chunkSignatures = some false ∨ a.declaredLength = false) : a.allHold = false := by
  unfold Assertions.allHold
  rcases h with h | h | h | h | h <;> simp [h]

/-- **When all assertions hold the stored object consists of exactly the received bytes** (the
canonical form of the body), never padded, truncated or extended: its size is the body's size. -/
theorem commit_stores_exactly (cfg : Cfg) (hv : cfg.versioning = false) (s : State) (w : Who) (now : Int)
    (b k : Bytes) (p : PutSpec) (nv : Bytes) (a : Assertions) (h : a.allHold = true)
    (hok : (upload cfg s w now b k p nv a).2.code = "") :
    ∃ bk', findBucket (upload cfg s w now b k p nv a).1 b = some bk' ∧
      (bk'.versions k).map (·.data) = [p.data.norm] := by
  unfold upload at hok ⊢
  simp only [h, if_true] at hok ⊢
  simp only [handle] at hok ⊢
  unfold withBucket at hok ⊢
  cases hb : findBucket s b with
  | none => simp only [hb] at hok; exact absurd hok (errR_code_ne _)
  | some bk =>
    simp only [hb] at hok ⊢
    have hname := findBucket_name s b bk hb
    cases h1 : verifyAccess cfg bk w .write actPutObject k with
    | some e => rw [h1] at hok; exact absurd hok (errR_code_ne e)
    | none =>
      rw [h1] at hok
      simp only [guarded] at hok ⊢
      cases h2 : lockCheck bk w now true k [] with
      | some e => rw [h2] at hok; exact absurd hok (errR_code_ne e)
      | none =>
        simp only [putVersions, hv, Bool.false_and, Bool.false_eq_true, if_false]
        refine ⟨_, find_set s _ b (by rw [setVersions_name]; exact hname), ?_⟩
        rw [versions_setVersions bk k [mkVer p []] (by simp)]
        simp [mkVer]

/-! non-vacuity -/
example : ({ contentMD5 := some false } : Assertions).allHold = false := by decide
example : ({ contentMD5 := some true, checksum := some true } : Assertions).allHold = true := by decide

end Vgw.Props.C06
