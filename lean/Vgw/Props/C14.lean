/-
  C14 — Bucket policy evaluation follows the policy language exactly.

  Theorems about Model.Glob.match (= Resources.Match), Model.Policy (Actions.FindMatch,
  Principals.Contains, Resources.FindMatch, BucketPolicy.isAllowed, VerifyBucketPolicy,
  ValidatePolicyDocument) against Spec.Glob.G and Spec.Policy.

  After the fixes in /repo (matcher order, exact bucket component, `continue` at `s3:*`, required
  Principal/Action/Resource members) every statement of the property holds at full strength: there is
  no `_partial` theorem and nothing in Open/C14.lean.
-/
import Vgw.Lemmas.Policy
import Vgw.Lemmas.ValidateOrder
namespace Vgw.Props.C14
open Vgw Vgw.Model.Policy Vgw.Spec.Policy Vgw.Spec.Glob Vgw.Lemmas.Glob Vgw.Lemmas.Policy Vgw.Lemmas.Validate

/-! ## the matcher -/

/-- The two-pointer backtracking matcher equals the declarative glob semantics (`*` any run of
bytes, `?` exactly one byte) for EVERY pattern and EVERY subject. -/
theorem match_iff_glob (p s : Bytes) : Model.Glob.match p s = G p s := by
  have h := loop_correct p s 0 0 none 0 (Nat.le_refl 0) (inv_init p s)
  have e : Model.Glob.match p s = accept p (Model.Glob.loop p s 0 0 none 0 (Nat.le_refl 0)) := by
    unfold Model.Glob.match accept
    cases Model.Glob.loop p s 0 0 none 0 (Nat.le_refl 0) <;> rfl
  rw [e]
  cases hg : G p s
  · cases ha : accept p (Model.Glob.loop p s 0 0 none 0 (Nat.le_refl 0))
    · rfl
    · rw [h.1 ha] at hg; cases hg
  · exact h.2 hg

/-! ## statement matching -/

/-- `Actions.FindMatch` = `s3:*` ∈ actions ∨ action ∈ actions ∨ some member `pre*` with `pre` a prefix
of the action — for every action set and every action string. -/
theorem action_match_iff (st : Stmt) (act : Bytes) :
    actionsFindMatch st.actions act = true ↔ ActionHit st act := actions_iff st act

/-- `Principals.Contains` = `*` ∈ principals ∨ caller ∈ principals. -/
theorem principal_match_iff (st : Stmt) (who : Bytes) :
    principalsContains st.principals who = true ↔ PrincipalHit st who := principals_iff st who

/-- `Resources.FindMatch` = some pattern matches by `G` — for every resource string. -/
theorem resource_match_iff (st : Stmt) (res : Bytes) :
    resourcesFindMatch st.resources res = true ↔ ResourceHit st res := by
  unfold resourcesFindMatch ResourceHit
  rw [List.any_eq_true]
  constructor
  · rintro ⟨r, hr, hm⟩; exact ⟨r, hr, by rw [← match_iff_glob r res]; exact hm⟩
  · rintro ⟨r, hr, hm⟩; exact ⟨r, hr, by rw [match_iff_glob r res]; exact hm⟩

theorem stmt_match_iff (st : Stmt) (who act res : Bytes) :
    stmtFindMatch st who act res = true ↔ Hit st who act res := by
  unfold stmtFindMatch Hit
  rw [Bool.and_eq_true, Bool.and_eq_true, principal_match_iff, action_match_iff,
    resource_match_iff st res, and_assoc]

/-! ## the decision -/

/-- `BucketPolicy.isAllowed` is deny-overrides with default deny over the statements that
`findMatch`, for any number and any order of statements. -/
theorem isAllowed_deny_overrides (pol : Policy) (who act res : Bytes) :
    isAllowed pol who act res = true ↔
      ((∃ st ∈ pol, st.effect = allowLit ∧ stmtFindMatch st who act res = true) ∧
        ¬ ∃ st ∈ pol, st.effect = denyLit ∧ stmtFindMatch st who act res = true) := by
  unfold isAllowed
  rw [loop_iff]; simp

/-- A request is allowed exactly when at least one Allow statement matches caller, action and
resource and no Deny statement does — for every policy (any number and order of statements),
caller, action and resource string. -/
theorem isAllowed_iff (pol : Policy) (who act res : Bytes) :
    isAllowed pol who act res = true ↔ Allows pol who act res := by
  rw [isAllowed_deny_overrides]
  unfold Allows
  constructor
  · rintro ⟨⟨st, hst, he, hm⟩, hd⟩
    refine ⟨⟨st, hst, he, (stmt_match_iff st who act res).1 hm⟩, ?_⟩
    rintro ⟨st', hst', he', hm'⟩
    exact hd ⟨st', hst', he', (stmt_match_iff st' who act res).2 hm'⟩
  · rintro ⟨⟨st, hst, he, hm⟩, hd⟩
    refine ⟨⟨st, hst, he, (stmt_match_iff st who act res).2 hm⟩, ?_⟩
    rintro ⟨st', hst', he', hm'⟩
    exact hd ⟨st', hst', he', (stmt_match_iff st' who act res).1 hm'⟩

/-- `VerifyBucketPolicy` asks about the bucket itself or about `bucket/object`. -/
theorem verify_resource (bucket object : Bytes) :
    verifyResource bucket object = requestResource bucket object := by
  unfold verifyResource requestResource
  cases object with
  | nil => simp
  | cons c o => simp [slashLit]

theorem verify_iff (pol : Policy) (who bucket object act : Bytes) :
    verify pol who bucket object act = true ↔ Allows pol who act (requestResource bucket object) := by
  unfold verify
  rw [verify_resource]
  exact isAllowed_iff pol who act _

/-! ## validation

`validateDocument ord bucket acct doc` is `ValidatePolicyDocument` on a document of generic shape
`doc`, where `ord` is the order in which Go happens to iterate each statement's action map.
`Sane bucket`: non-empty, no `/`, no `*` (true of every bucket name).  `acct [] = false`: no account
has the empty access key. -/

theorem ordOK_of_perm (ord : List Bytes → List Bytes) (h : ∀ l, (ord l).Perm l) : OrdOK ord :=
  fun l _ => (h l).mem_iff

/-- Validation is deterministic: the outcome (acceptance, or which error) is the same for every
order in which the action maps are iterated. -/
theorem validate_order_independent (ord₁ ord₂ : List Bytes → List Bytes) (bucket : Bytes)
    (acct : Bytes → Bool) (doc : RawDoc) (h₁ : ∀ l, (ord₁ l).Perm l) (h₂ : ∀ l, (ord₂ l).Perm l) :
    validateDocument ord₁ bucket acct doc = validateDocument ord₂ bucket acct doc :=
  validateDocument_order bucket acct doc ord₁ ord₂ (ordOK_of_perm ord₁ h₁) (ordOK_of_perm ord₂ h₂)

/-- The accept half: every well-formed policy document for the bucket is accepted, in every map
iteration order. -/
theorem validate_accepts_wellformed (ord : List Bytes → List Bytes) (bucket : Bytes)
    (acct : Bytes → Bool) (doc : RawDoc) (hs : Sane bucket) (hacct : acct [] = false)
    (hord : ∀ l, (ord l).Perm l) (hwf : WellFormed .strict bucket acct doc) :
    validateDocument ord bucket acct doc = .ok () :=
  doc_accept ord bucket acct hs hacct (ordOK_of_perm ord hord) doc hwf

/-- Must-accept documents are accepted and must-refuse documents are refused, whatever the map
order: documents that are not valid policies for the bucket — bad JSON, no or empty statement list,
bad effect, a statement lacking Principal, Action or Resource, empty members, unknown action or
principal, `*` mixed with accounts, resource outside the bucket (also `bucket2/*`, `bucket*`),
action/resource kind mismatch (also next to `s3:*`) — are refused. -/
theorem validate_iff_wellformed (ord : List Bytes → List Bytes) (bucket : Bytes)
    (acct : Bytes → Bool) (doc : RawDoc) (hs : Sane bucket) (hacct : acct [] = false)
    (hord : ∀ l, (ord l).Perm l) :
    (WellFormed .strict bucket acct doc → validateDocument ord bucket acct doc = .ok ()) ∧
    (¬ WellFormed .lenient bucket acct doc → validateDocument ord bucket acct doc ≠ .ok ()) :=
  ⟨validate_accepts_wellformed ord bucket acct doc hs hacct hord,
   fun hn hok => hn (doc_accepted_wellformed ord bucket acct hs (ordOK_of_perm ord hord) doc hok)⟩

/-! ## Non-vacuity and regression examples: concrete inputs (tests, not proofs of the properties).
`a*b?c` = [97,42,98,63,99]; `axxbbybzc` = [97,120,120,98,98,121,98,122,99]. -/

example : Model.Glob.match [97, 42, 98, 63, 99] [97, 120, 120, 98, 98, 121, 98, 122, 99] = true := by
  rw [match_iff_glob]; simp [G, star, qmark]
example : G [97, 42, 98, 63, 99] [97, 120, 120, 98, 98, 121, 98, 122] = false := by simp [G, star, qmark]
/-- former witness of `glob:subject-contains-star` (pattern `*`, subject `*a`): now a match -/
example : Model.Glob.match [42] [42, 97] = true := by
  simp [Model.Glob.match, Model.Glob.loop, Model.Glob.skipStars, Model.Glob.star, Model.Glob.qmark]
example : Model.Glob.match [42] [42, 97] = G [42] [42, 97] := match_iff_glob _ _

def exGetObject : Bytes := [115, 51, 58, 71, 101, 116, 79, 98, 106, 101, 99, 116]   -- s3:GetObject
def exGetStar : Bytes := [115, 51, 58, 71, 101, 116, 42]                              -- s3:Get*
def exAlice : Bytes := [97, 108, 105, 99, 101]
def exBucket : Bytes := [98, 117, 99, 107, 101, 116]                                  -- bucket
/-- Allow alice s3:Get* on `bucket/*` -/
def exStmt : Stmt := ⟨allowLit, [exAlice], [exGetStar], [exBucket ++ [47, 42]]⟩

example : ActionHit exStmt exGetObject := by decide
example : actionsFindMatch exStmt.actions exGetObject = true := (action_match_iff _ _).2 (by decide)
example : PrincipalHit exStmt exAlice ∧ ¬ PrincipalHit exStmt [98, 111, 98] := by decide
example : principalsContains exStmt.principals exAlice = true := (principal_match_iff _ _).2 (by decide)
/-- the object key is `*k`: a resource string containing `*` -/
example : isAllowed [exStmt] exAlice exGetObject (requestResource exBucket [42, 107]) = true := by
  rw [isAllowed_iff]
  refine ⟨⟨exStmt, by simp, rfl, by decide, by decide, ?_⟩, ?_⟩
  · exact ⟨exBucket ++ [47, 42], by simp [exStmt], by simp [G, star, qmark, exBucket, requestResource]⟩
  · rintro ⟨st, hst, he, _⟩
    simp only [List.mem_singleton] at hst
    subst hst
    exact absurd he (by decide)
example : verify [exStmt] exAlice exBucket [107] exGetObject = true := by
  rw [verify_iff]
  refine ⟨⟨exStmt, by simp, rfl, by decide, by decide, ?_⟩, ?_⟩
  · exact ⟨exBucket ++ [47, 42], by simp [exStmt], by simp [G, star, qmark, exBucket, requestResource]⟩
  · rintro ⟨st, hst, he, _⟩
    simp only [List.mem_singleton] at hst
    subst hst
    exact absurd he (by decide)

/-- former witness at the level of the decision: Allow `b/?x`, Deny `b/*`, request `b/*x` — the Deny
now applies -/
example : isAllowed [⟨allowLit, [starLit], [exGetObject], [[98, 47, 63, 120]]⟩,
    ⟨denyLit, [starLit], [exGetObject], [[98, 47, 42]]⟩] exAlice exGetObject [98, 47, 42, 120] = false := by
  have m1 : Model.Glob.match [98, 47, 63, 120] [98, 47, 42, 120] = true := by
    simp [Model.Glob.match, Model.Glob.loop, Model.Glob.skipStars, Model.Glob.star, Model.Glob.qmark]
  have m2 : Model.Glob.match [98, 47, 42] [98, 47, 42, 120] = true := by
    simp [Model.Glob.match, Model.Glob.loop, Model.Glob.skipStars, Model.Glob.star, Model.Glob.qmark]
  simp [isAllowed, isAllowedLoop, stmtFindMatch, principalsContains, actionsFindMatch,
    resourcesFindMatch, m1, m2, starLit, allowLit, denyLit, exGetObject, allActions]

/-- `{"Statement":[{"Effect":"Allow","Principal":"*","Action":["s3:Get*"],"Resource":["arn:aws:s3:::bucket","arn:aws:s3:::bucket/*"]}]}` -/
def exDocOK : RawDoc := .stmts [⟨.str allowLit, .str starLit, .arr [exGetStar],
    .arr [arnPrefix ++ exBucket, arnPrefix ++ exBucket ++ [47, 42]]⟩]
/-- the same with only the bucket resource and the object action `s3:GetObject`: kind mismatch -/
def exDocBad : RawDoc := .stmts [⟨.str allowLit, .str starLit, .str exGetObject, .str (arnPrefix ++ exBucket)⟩]
/-- former witness `validate:resource-prefix-of-other-bucket`: Resource `arn:aws:s3:::bucket2/*` -/
def exDocPrefix : RawDoc := .stmts [⟨.str allowLit, .str starLit, .str exGetObject,
    .str (arnPrefix ++ exBucket ++ [50, 47, 42])⟩]
/-- former witness `validate:map-order-dependent`: Action `["s3:*","s3:GetObject"]`, Resource `arn:aws:s3:::bucket` -/
def exDocOrder : RawDoc := .stmts [⟨.str allowLit, .str starLit, .arr [allActions, exGetObject],
    .str (arnPrefix ++ exBucket)⟩]

example : Sane exBucket := by decide
example : WellFormed .strict exBucket (fun _ => false) exDocOK := by decide
example : validateDocument id exBucket (fun _ => false) exDocOK = .ok () :=
  validate_accepts_wellformed id _ _ _ (by decide) rfl (fun l => List.Perm.refl l) (by decide)
example : ¬ WellFormed .lenient exBucket (fun _ => false) exDocBad := by decide
example : validateDocument id exBucket (fun _ => false) exDocBad ≠ .ok () :=
  (validate_iff_wellformed id _ _ _ (by decide) rfl (fun l => List.Perm.refl l)).2 (by decide)
example : validateDocument id exBucket (fun _ => false) exDocBad = .error .resourceMismatch := by rfl
example : validateDocument id exBucket (fun _ => false) exDocPrefix = .error .invalidResource := by rfl
example : validateDocument id exBucket (fun _ => false) exDocOrder = .error .resourceMismatch := by rfl
example : validateDocument List.reverse exBucket (fun _ => false) exDocOrder = .error .resourceMismatch :=
  (validate_order_independent List.reverse id _ _ _ (fun l => List.reverse_perm l) (fun l => List.Perm.refl l)).trans
    (by rfl)

/-- former witnesses `validate:missing-field`: `{"Statement":[{"Effect":"Allow"}]}` and a statement with
Principal `*` and Action `s3:*` but no Resource — not well-formed, and refused -/
def exDocMissing : RawDoc := .stmts [⟨.str allowLit, .missing, .missing, .missing⟩]
def exDocNoResource : RawDoc := .stmts [⟨.str allowLit, .str starLit, .str allActions, .missing⟩]
example : ¬ WellFormed .lenient exBucket (fun _ => false) exDocMissing := by decide
example : ¬ WellFormed .lenient exBucket (fun _ => false) exDocNoResource := by decide
example : validateDocument id exBucket (fun _ => false) exDocMissing = .error .missingPrincipal := by rfl
example : validateDocument id exBucket (fun _ => false) exDocNoResource = .error .missingResource := by rfl
example : validateDocument id exBucket (fun _ => false) exDocMissing ≠ .ok () :=
  (validate_iff_wellformed id _ _ _ (by decide) rfl (fun l => List.Perm.refl l)).2 (by decide)

end Vgw.Props.C14
