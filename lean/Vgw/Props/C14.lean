/-
  C14 — Bucket policy evaluation follows the policy language exactly.

  Theorems about Model.Glob.match (= Resources.Match), Model.Policy (Actions.FindMatch,
  Principals.Contains, Resources.FindMatch, BucketPolicy.isAllowed, VerifyBucketPolicy,
  ValidatePolicyDocument) against Spec.Glob.G and Spec.Policy.

  On the unchanged tree four statements do not hold at full strength; each is kept visible as a
  `def …_full : Prop`, proved as `…_partial` under a decidable hypothesis that excludes exactly the
  failing class, and refuted from a concrete witness in Open/C14.lean.
-/
import Vgw.Lemmas.Policy
import Vgw.Lemmas.ValidateOrder
namespace Vgw.Props.C14
open Vgw Vgw.Model.Policy Vgw.Spec.Policy Vgw.Spec.Glob Vgw.Lemmas.Glob Vgw.Lemmas.Policy Vgw.Lemmas.Validate

/-! ## the matcher -/

/-- FULL statement: the real matcher is the declarative glob, for all patterns and subjects.
FALSE on the unchanged tree (Open.C14.match_iff_glob_full_false): signature `glob:subject-contains-star`. -/
def match_iff_glob_full : Prop := ∀ p s : Bytes, Model.Glob.match p s = G p s

/-- The two-pointer backtracking matcher equals the declarative glob semantics for EVERY pattern and
every subject that does not itself contain the byte `*`. -/
theorem match_iff_glob_partial (p s : Bytes) (hs : star ∉ s) : Model.Glob.match p s = G p s := by
  have h := loop_correct p s hs 0 0 none 0 (Nat.le_refl 0) (inv_init p s)
  have e : Model.Glob.match p s = accept p (Model.Glob.loop p s 0 0 none 0 (Nat.le_refl 0)) := by
    unfold Model.Glob.match accept
    cases Model.Glob.loop p s 0 0 none 0 (Nat.le_refl 0) <;> rfl
  rw [e]
  cases hg : G p s
  · cases ha : accept p (Model.Glob.loop p s 0 0 none 0 (Nat.le_refl 0))
    · rfl
    · rw [h.1 ha] at hg; cases hg
  · exact h.2 hg

/-- Soundness holds for ALL subjects (also those containing `*`): the real matcher never matches
something the glob does not — the deviation is only ever a missed match. -/
theorem match_sound (p s : Bytes) (h : Model.Glob.match p s = true) : G p s = true := by
  have e : Model.Glob.match p s = accept p (Model.Glob.loop p s 0 0 none 0 (Nat.le_refl 0)) := by
    unfold Model.Glob.match accept
    cases Model.Glob.loop p s 0 0 none 0 (Nat.le_refl 0) <;> rfl
  rw [e] at h
  exact loop_sound p s 0 0 none 0 (Nat.le_refl 0) (sinv_init p s) h

/-! ## statement matching -/

/-- `Actions.FindMatch` = `s3:*` ∈ actions ∨ action ∈ actions ∨ some member `pre*` with `pre` a prefix
of the action — for every action set and every action string. -/
theorem action_match_iff (st : Stmt) (act : Bytes) :
    actionsFindMatch st.actions act = true ↔ ActionHit st act := actions_iff st act

/-- `Principals.Contains` = `*` ∈ principals ∨ caller ∈ principals. -/
theorem principal_match_iff (st : Stmt) (who : Bytes) :
    principalsContains st.principals who = true ↔ PrincipalHit st who := principals_iff st who

/-- `Resources.FindMatch` = some pattern matches by `G` — for star-free resource strings. -/
theorem resource_match_iff_partial (st : Stmt) (res : Bytes) (hs : star ∉ res) :
    resourcesFindMatch st.resources res = true ↔ ResourceHit st res := by
  unfold resourcesFindMatch ResourceHit
  rw [List.any_eq_true]
  constructor
  · rintro ⟨r, hr, hm⟩; exact ⟨r, hr, by rw [← match_iff_glob_partial r res hs]; exact hm⟩
  · rintro ⟨r, hr, hm⟩; exact ⟨r, hr, by rw [match_iff_glob_partial r res hs]; exact hm⟩

theorem stmt_match_iff_partial (st : Stmt) (who act res : Bytes) (hs : star ∉ res) :
    stmtFindMatch st who act res = true ↔ Hit st who act res := by
  unfold stmtFindMatch Hit
  rw [Bool.and_eq_true, Bool.and_eq_true, principal_match_iff, action_match_iff,
    resource_match_iff_partial st res hs, and_assoc]

/-! ## the decision -/

/-- `BucketPolicy.isAllowed` is deny-overrides with default deny over the statements that
`findMatch`, for any number and any order of statements (no hypothesis). -/
theorem isAllowed_deny_overrides (pol : Policy) (who act res : Bytes) :
    isAllowed pol who act res = true ↔
      ((∃ st ∈ pol, st.effect = allowLit ∧ stmtFindMatch st who act res = true) ∧
        ¬ ∃ st ∈ pol, st.effect = denyLit ∧ stmtFindMatch st who act res = true) := by
  unfold isAllowed
  rw [loop_iff]; simp

/-- FULL statement. FALSE on the unchanged tree (Open.C14.isAllowed_iff_full_false). -/
def isAllowed_iff_full : Prop :=
  ∀ (pol : Policy) (who act res : Bytes), isAllowed pol who act res = true ↔ Allows pol who act res

/-- A request is allowed exactly when at least one Allow statement matches caller, action and
resource and no Deny statement does — for every policy, caller, action and star-free resource. -/
theorem isAllowed_iff_partial (pol : Policy) (who act res : Bytes) (hs : star ∉ res) :
    isAllowed pol who act res = true ↔ Allows pol who act res := by
  rw [isAllowed_deny_overrides]
  unfold Allows
  constructor
  · rintro ⟨⟨st, hst, he, hm⟩, hd⟩
    refine ⟨⟨st, hst, he, (stmt_match_iff_partial st who act res hs).1 hm⟩, ?_⟩
    rintro ⟨st', hst', he', hm'⟩
    exact hd ⟨st', hst', he', (stmt_match_iff_partial st' who act res hs).2 hm'⟩
  · rintro ⟨⟨st, hst, he, hm⟩, hd⟩
    refine ⟨⟨st, hst, he, (stmt_match_iff_partial st who act res hs).2 hm⟩, ?_⟩
    rintro ⟨st', hst', he', hm'⟩
    exact hd ⟨st', hst', he', (stmt_match_iff_partial st' who act res hs).1 hm'⟩

/-- `VerifyBucketPolicy` asks about the bucket itself or about `bucket/object`. -/
theorem verify_resource (bucket object : Bytes) :
    verifyResource bucket object = requestResource bucket object := by
  unfold verifyResource requestResource
  cases object with
  | nil => simp
  | cons c o => simp [slashLit]

theorem verify_iff_partial (pol : Policy) (who bucket object act : Bytes)
    (hs : star ∉ requestResource bucket object) :
    verify pol who bucket object act = true ↔ Allows pol who act (requestResource bucket object) := by
  unfold verify
  rw [verify_resource]
  exact isAllowed_iff_partial pol who act _ hs

/-- Even for resources containing `*`, a Deny that the real code applies is a Deny of the policy
language, and an Allow it finds is an Allow (consequence of `match_sound`): every statement the
code matches is a statement that hits. -/
theorem stmt_match_sound (st : Stmt) (who act res : Bytes)
    (h : stmtFindMatch st who act res = true) : Hit st who act res := by
  unfold stmtFindMatch at h
  rw [Bool.and_eq_true, Bool.and_eq_true, principal_match_iff, action_match_iff] at h
  refine ⟨h.1.1, h.1.2, ?_⟩
  have := h.2
  unfold resourcesFindMatch at this
  rw [List.any_eq_true] at this
  obtain ⟨r, hr, hm⟩ := this
  exact ⟨r, hr, match_sound r res hm⟩

/-! ## validation

`validateDocument ord bucket acct doc` is `ValidatePolicyDocument` on a document of generic shape
`doc`, where `ord` is the order in which Go happens to iterate each statement's action map.
`Sane bucket`: non-empty, no `/`, no `*` (true of every bucket name).  `acct [] = false`: no account
has the empty access key. -/

theorem ordOK_of_perm (ord : List Bytes → List Bytes) (h : ∀ l, (ord l).Perm l) : OrdOK ord :=
  fun l _ => (h l).mem_iff

/-- FULL statement: must-accept documents are accepted and must-refuse documents are refused,
whatever the map order.  FALSE on the unchanged tree (Open.C14.validate_iff_wellformed_full_false,
and three separate witnesses, one per excluded class). -/
def validate_iff_wellformed_full : Prop :=
  ∀ (ord : List Bytes → List Bytes) (bucket : Bytes) (acct : Bytes → Bool) (doc : RawDoc),
    Sane bucket → acct [] = false → (∀ l, (ord l).Perm l) →
    (WellFormed .strict bucket acct doc → validateDocument ord bucket acct doc = .ok ()) ∧
    (¬ WellFormed .lenient bucket acct doc → validateDocument ord bucket acct doc ≠ .ok ())

/-- The accept half holds at full strength: every well-formed policy document for the bucket is
accepted, in every map iteration order. -/
theorem validate_accepts_wellformed (ord : List Bytes → List Bytes) (bucket : Bytes)
    (acct : Bytes → Bool) (doc : RawDoc) (hs : Sane bucket) (hacct : acct [] = false)
    (hord : ∀ l, (ord l).Perm l) (hwf : WellFormed .strict bucket acct doc) :
    validateDocument ord bucket acct doc = .ok () :=
  doc_accept ord bucket acct hs hacct (ordOK_of_perm ord hord) doc hwf

/-- Documents that are not valid policies for the bucket — bad JSON, no or empty statement list,
bad effect, unknown action or principal, `*` mixed with accounts, empty members, resource outside
the bucket, action/resource kind mismatch — are refused in every map iteration order, PROVIDED the
document is outside the three failing classes: a statement lacking Principal/Action/Resource
(`validate:missing-field`), a resource that merely starts with the bucket name
(`validate:resource-prefix-of-other-bucket`), `s3:*` listed next to an action without a resource of
its kind (`validate:map-order-dependent`). -/
theorem validate_iff_wellformed_partial (ord : List Bytes → List Bytes) (bucket : Bytes)
    (acct : Bytes → Bool) (doc : RawDoc) (hs : Sane bucket) (hacct : acct [] = false)
    (hord : ∀ l, (ord l).Perm l)
    (h1 : DocHyp StmtNoMissing doc) (h2 : DocHyp (StmtNoForeignPrefix bucket) doc)
    (h3 : DocHyp (StmtOrderIndependent bucket) doc) :
    (WellFormed .strict bucket acct doc → validateDocument ord bucket acct doc = .ok ()) ∧
    (¬ WellFormed .lenient bucket acct doc → validateDocument ord bucket acct doc ≠ .ok ()) :=
  ⟨validate_accepts_wellformed ord bucket acct doc hs hacct hord,
   fun hn hok => hn (doc_accepted_wellformed ord bucket acct hs (ordOK_of_perm ord hord) doc h1 h2 h3 hok)⟩

/-- the two iteration orders the driver uses to predict the set of possible outcomes are orders -/
theorem allFirst_perm (l : List Bytes) : (allFirst l).Perm l := by
  unfold allFirst
  have := List.filter_append_perm (fun x => decide (x = allActions)) l
  simpa using this

theorem allLast_perm (l : List Bytes) : (allLast l).Perm l := by
  unfold allLast
  have := List.filter_append_perm (fun x => decide (x = allActions)) l
  exact (List.perm_append_comm.trans (by simpa using this))

/-- Whether a document is accepted can depend on the map order, but only between two extremes: if
ANY order accepts, the order "`s3:*` first" accepts; if the order "`s3:*` last" accepts, EVERY order
accepts.  (The driver evaluates these two orders to tell the harness which observations of the
real validator are admissible.) -/
theorem validate_order_span (ord : List Bytes → List Bytes) (bucket : Bytes) (acct : Bytes → Bool)
    (doc : RawDoc) (hord : ∀ l, (ord l).Perm l) :
    (validateDocument ord bucket acct doc = .ok () → validateDocument allFirst bucket acct doc = .ok ()) ∧
    (validateDocument allLast bucket acct doc = .ok () → validateDocument ord bucket acct doc = .ok ()) :=
  ⟨validateDocument_order bucket acct doc ord allFirst
      (fun o b l => kindLoop_allFirst o b ord (ordOK_of_perm ord hord) l),
   validateDocument_order bucket acct doc allLast ord
      (fun o b l => kindLoop_allLast o b ord (ordOK_of_perm ord hord) l)⟩

/-! ## Non-vacuity: concrete inputs meeting the hypotheses (tests, not proofs of the properties).
`a*b?c` = [97,42,98,63,99]; `axxbbybzc` = [97,120,120,98,98,121,98,122,99]. -/

example : star ∉ ([97, 120, 120, 98, 98, 121, 98, 122, 99] : Bytes) := by decide
example : Model.Glob.match [97, 42, 98, 63, 99] [97, 120, 120, 98, 98, 121, 98, 122, 99] = true := by
  rw [match_iff_glob_partial _ _ (by decide)]; simp [G, star, qmark]
example : G [97, 42, 98, 63, 99] [97, 120, 120, 98, 98, 121, 98, 122] = false := by simp [G, star, qmark]
/-- `*a` against `*a`: a subject with a star on which the matcher does answer `true` (match_sound applies) -/
example : Model.Glob.match [42, 97] [42, 97] = true := by
  simp [Model.Glob.match, Model.Glob.loop, Model.Glob.skipStars, Model.Glob.star, Model.Glob.qmark]

def exGetObject : Bytes := [115, 51, 58, 71, 101, 116, 79, 98, 106, 101, 99, 116]   -- s3:GetObject
def exGetStar : Bytes := [115, 51, 58, 71, 101, 116, 42]                              -- s3:Get*
def exAlice : Bytes := [97, 108, 105, 99, 101]
def exBucket : Bytes := [98, 117, 99, 107, 101, 116]                                  -- bucket
/-- Allow alice s3:Get* on `bucket/*` -/
def exStmt : Stmt := ⟨allowLit, [exAlice], [exGetStar], [exBucket ++ [47, 42]]⟩

example : ActionHit exStmt exGetObject := by decide
example : actionsFindMatch exStmt.actions exGetObject = true := (action_match_iff _ _).2 (by decide)
example : PrincipalHit exStmt exAlice ∧ ¬ PrincipalHit exStmt [98, 111, 98] := by decide
example : principalsContains exStmt.principals exAlice = true := (principal_match_iff _ _).2 (by decide)
example : star ∉ requestResource exBucket [107] := by decide
example : isAllowed [exStmt] exAlice exGetObject (requestResource exBucket [107]) = true := by
  rw [isAllowed_iff_partial _ _ _ _ (by decide)]
  refine ⟨⟨exStmt, by simp, rfl, by decide, by decide, ?_⟩, ?_⟩
  · exact ⟨exBucket ++ [47, 42], by simp [exStmt], by simp [G, star, qmark, exBucket, requestResource]⟩
  · rintro ⟨st, hst, he, _⟩
    simp only [List.mem_singleton] at hst
    subst hst
    exact absurd he (by decide)
example : verify [exStmt] exAlice exBucket [107] exGetObject = true := by
  rw [verify_iff_partial _ _ _ _ _ (by decide)]
  refine ⟨⟨exStmt, by simp, rfl, by decide, by decide, ?_⟩, ?_⟩
  · exact ⟨exBucket ++ [47, 42], by simp [exStmt], by simp [G, star, qmark, exBucket, requestResource]⟩
  · rintro ⟨st, hst, he, _⟩
    simp only [List.mem_singleton] at hst
    subst hst
    exact absurd he (by decide)

/-- `{"Statement":[{"Effect":"Allow","Principal":"*","Action":["s3:Get*"],"Resource":["arn:aws:s3:::bucket","arn:aws:s3:::bucket/*"]}]}` -/
def exDocOK : RawDoc := .stmts [⟨.str allowLit, .str starLit, .arr [exGetStar],
    .arr [arnPrefix ++ exBucket, arnPrefix ++ exBucket ++ [47, 42]]⟩]
/-- the same with only the bucket resource and the object action `s3:GetObject`: kind mismatch -/
def exDocBad : RawDoc := .stmts [⟨.str allowLit, .str starLit, .str exGetObject, .str (arnPrefix ++ exBucket)⟩]

example : Sane exBucket := by decide
example : WellFormed .strict exBucket (fun _ => false) exDocOK := by decide
example : validateDocument id exBucket (fun _ => false) exDocOK = .ok () :=
  validate_accepts_wellformed id _ _ _ (by decide) rfl (fun l => List.Perm.refl l) (by decide)
example : ¬ WellFormed .lenient exBucket (fun _ => false) exDocBad := by decide
example : DocHyp StmtNoMissing exDocBad ∧ DocHyp (StmtNoForeignPrefix exBucket) exDocBad ∧
    DocHyp (StmtOrderIndependent exBucket) exDocBad := by decide
example : validateDocument id exBucket (fun _ => false) exDocBad ≠ .ok () :=
  (validate_iff_wellformed_partial id _ _ _ (by decide) rfl (fun l => List.Perm.refl l)
    (by decide) (by decide) (by decide)).2 (by decide)
example : validateDocument id exBucket (fun _ => false) exDocBad = .error .resourceMismatch := by rfl
example : allFirst [exGetObject, allActions] = [allActions, exGetObject] := by decide
example : allLast [allActions, exGetObject] = [exGetObject, allActions] := by decide
example : validateDocument allFirst exBucket (fun _ => false) exDocOK = .ok () :=
  (validate_order_span id _ _ _ (fun l => List.Perm.refl l)).1
    (validate_accepts_wellformed id _ _ _ (by decide) rfl (fun l => List.Perm.refl l) (by decide))

end Vgw.Props.C14
