/-
  Spec.Glob — the declarative meaning of a resource pattern (DESIGN appendix B.1 / F.2).

  `G pattern subject`, by structural recursion on the pattern:
    * `*`  matches any run of bytes: either skip the `*`, or consume one subject byte and stay;
    * `?`  matches exactly one byte;
    * any other byte matches itself.
  There is no escape mechanism: `*` and `?` in the PATTERN are always wildcards; a `*` or `?` in the
  SUBJECT is an ordinary byte (both are legal in object keys).  The unit of `?` is the byte (as in
  the code); for ASCII subjects that is the character — an assumption of this formalisation.
  `G` is executable and is its own oracle.  Core-only.
-/
import Vgw.Go.Bytes
namespace Vgw.Spec.Glob
open Vgw

def star : UInt8 := 42    -- '*'
def qmark : UInt8 := 63   -- '?'

def G : Bytes → Bytes → Bool
  | [], s => s.isEmpty
  | a :: p, s =>
    if a = star then
      G p s || (match s with
                | [] => false
                | _ :: s' => G (a :: p) s')
    else
      match s with
      | [] => false
      | c :: s' => (a = qmark || a = c) && G p s'
termination_by p s => p.length + s.length

end Vgw.Spec.Glob
