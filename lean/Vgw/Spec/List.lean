/-
  Spec.List — the formal reading of property C07 (DESIGN appendix F.1), independent of Walk.

  `K` finite set of keys (byte strings; an explicit directory object is a key ending in '/';
  nothing below an internal bookkeeping directory is a key), prefix `P`, delimiter `D`, marker `M`,
  page size `N`.
    entry k    = CP (P ++ x ++ D)  if D ≠ "" and x ++ D is the shortest prefix of k − P ending in D
               = Obj k             otherwise
    after M k  = M = "" ∨ (k > M ∧ ¬ (M is itself a common-prefix name for (P, D) ∧ M ≤ₚ k))
    entries    = dedupAdjacent (map entry (filter (P ≤ₚ k ∧ after M k) (sort K)))
    page       = take N entries; truncated = |entries| > N; next = name (last page) if truncated
    N = 0      : the empty, non-truncated page.          V2: M = max startAfter token.

  What an observed page is judged on (`pageOkB`): its objects (key, size, ETag, in order), its
  common prefixes (in order), and its continuation: when the page says "truncated", listing again
  from the returned marker must give exactly the entries that were cut off; when it does not,
  nothing may have been cut off. The VALUE of the marker is not prescribed (the property speaks
  about following it), only where it leads.

  Grey zone (both behaviours admitted; the only one): a non-empty page may say "truncated" although
  nothing remains, provided the continuation from its marker is empty (Walk does this when the
  entry that would overflow the page rolls up into a common prefix already on the page).
-/
import Vgw.Go.StrOrder
import Vgw.Model.Walk
namespace Vgw.Spec.List
open Vgw
open Vgw.Model.Walk (Obj GetObj Result)

inductive Entry where
  | obj (key : Bytes)
  | cp (name : Bytes)
  deriving Repr, DecidableEq

def Entry.name : Entry → Bytes
  | .obj k => k
  | .cp n => n

/-- S3's roll-up rule -/
def entry (P D k : Bytes) : Entry :=
  if D = [] then .obj k else
  match cut D (k.drop P.length) with
  | some x => .cp (P ++ x ++ D)
  | none => .obj k

/-- `M` is a common-prefix name for `(P, D)`: `M = P ++ x ++ D` with no earlier `D` in `x ++ D` -/
def isCPName (P D M : Bytes) : Bool :=
  D ≠ [] && P.isPrefixOf M &&
    match cut D (M.drop P.length) with
    | some x => M == P ++ x ++ D
    | none => false

def after (P D M k : Bytes) : Bool :=
  M == [] || (blt M k && !(isCPName P D M && M.isPrefixOf k))

def dedupAdjacent {α : Type} [DecidableEq α] : List α → List α
  | [] => []
  | [e] => [e]
  | e :: f :: r => if e = f then dedupAdjacent (f :: r) else e :: dedupAdjacent (f :: r)

/-- keys that take part in the listing, ascending -/
def selected (K : List Bytes) (P D M : Bytes) : List Bytes :=
  (sortDedup K).filter (fun k => P.isPrefixOf k && after P D M k)

def entries (K : List Bytes) (P D M : Bytes) : List Entry :=
  dedupAdjacent ((selected K P D M).map (entry P D))

structure Page where
  items : List Entry
  truncated : Bool
  next : Bytes
  deriving Repr, DecidableEq

def lastName (l : List Entry) : Bytes := (l.getLast?.map Entry.name).getD []

def list (K : List Bytes) (P D M : Bytes) (N : Nat) : Page :=
  if N = 0 then ⟨[], false, []⟩ else
  let es := entries K P D M
  if es.length > N then ⟨es.take N, true, lastName (es.take N)⟩ else ⟨es, false, []⟩

/-- ListObjectsV2: the listing starts after the larger of start-after and continuation token -/
def markerV2 (startAfter token : Bytes) : Bytes := if blt token startAfter then startAfter else token

/-- `k` lies below an internal bookkeeping directory (a path of the skip list, `.sgwtmp`): such
paths are not keys. A file, or a directory elsewhere, that merely has the same name is ordinary. -/
def internal (skip : List Bytes) (k : Bytes) : Bool := skip.any fun s => (s ++ [47]).isPrefixOf k

/-! ### Observation format shared with the model: objects with size/ETag, common prefixes -/

def objsOf (g : GetObj) (es : List Entry) : List Obj :=
  es.filterMap fun
    | .obj k => (g k).map fun (sz, et) => ⟨k, sz, et⟩
    | .cp _ => none

def cpsOf (es : List Entry) : List Bytes :=
  es.filterMap fun
    | .obj _ => none
    | .cp n => some n

def Page.toResult (g : GetObj) (p : Page) : Result :=
  ⟨objsOf g p.items, cpsOf p.items, p.truncated, p.next⟩

/-- what the property prescribes, in the observation format -/
def result (g : GetObj) (K : List Bytes) (P D M : Bytes) (N : Nat) : Result :=
  (list K P D M N).toResult g

/-! ### Executable oracle for pages produced by the IMPLEMENTATION -/

def pageOkB (g : GetObj) (K : List Bytes) (P D M : Bytes) (N : Nat) (r : Result) : Bool :=
  if N = 0 then r.objects.isEmpty && r.cps.isEmpty && !r.truncated else
  let es := entries K P D M
  let page := es.take N
  r.objects == objsOf g page && r.cps == cpsOf page &&
  if r.truncated then
    (decide (es.length > N) || !page.isEmpty) && entries K P D r.next == es.drop N
  else decide (es.length ≤ N)

/-- a whole pagination run: every page admitted for the marker the previous page returned, all
pages but the last truncated, and the pages together are the full listing, each entry once -/
def runPagesOkB (g : GetObj) (K : List Bytes) (P D : Bytes) (N : Nat) : Bytes → List Result → Bool
  | _, [] => false
  | M, [r] => pageOkB g K P D M N r && !r.truncated
  | M, r :: r' :: rs => pageOkB g K P D M N r && r.truncated && runPagesOkB g K P D N r.next (r' :: rs)

def runOkB (g : GetObj) (K : List Bytes) (P D M : Bytes) (N : Nat) (pages : List Result) : Bool :=
  runPagesOkB g K P D N M pages &&
  (N = 0 ||
    ((pages.flatMap (·.objects)) == objsOf g (entries K P D M) &&
     (pages.flatMap (·.cps)) == cpsOf (entries K P D M)))

/-! ### Input classes (decidable on the key set): the hypotheses of `walk_refines_spec_partial` -/

/-- the marker is neither strictly inside the key range of a common prefix `c = P ++ x ++ D` of `K`
nor between `P ++ x` and `c` -/
def markerClear (K : List Bytes) (P D M : Bytes) : Bool :=
  M == [] || D == [] || K.all fun k =>
    !P.isPrefixOf k ||
    match cut D (k.drop P.length) with
    | none => true
    | some x =>
      let c := P ++ x ++ D
      !(P ++ x).isPrefixOf M || (ble c M && (!c.isPrefixOf M || c == M))

/-- `M` is "" or the name of an entry an earlier page (same `K`, `P`, `D`) can have returned -/
def serverIssued (K : List Bytes) (P D M : Bytes) : Bool :=
  M == [] || K.any fun k => P.isPrefixOf k && (entry P D k).name == M

def isDirObj (k : Bytes) : Bool := k.getLast? == some 47

def hasDirObj (K : List Bytes) : Bool := K.any isDirObj

def hasDirObjWithChildren (K : List Bytes) : Bool :=
  K.any fun k => isDirObj k && K.any fun k' => k' != k && k.isPrefixOf k'

end Vgw.Spec.List
