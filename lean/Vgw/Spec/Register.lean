/-
  Spec.Register — the formal reading of C05, independent of the code: one key is an atomic register
  holding either nothing or the complete object of exactly one write.

  * `Op` / `Res` / `next` / `admits`: the sequential register. A read answers the whole value
    (body, length, ETag, metadata of ONE write) or "missing"; an answer that is not the value of one
    write (`garbled`: a mixture, a prefix, attributes of another write) is never admitted.
  * `Linearizable init h`: the history `h` (operations with invocation and response times and their
    answers) is explained by ONE order that respects real time: every answered operation gets a
    linearization time inside its own interval, times are distinct, and replaying the operations in
    that order on the register admits every answer. Operations without an answer (still running,
    or failed) may or may not take effect.
  * `linearizableB`: the executable oracle (search with memoisation over the order), run by the
    driver on recorded histories of the implementation.

  Grey zones (both behaviours admitted): a DELETE answered `NoSuchKey` is admitted where the key is
  absent (S3 would answer 204; the property only asks that the outcome be explainable by the order);
  an operation that failed with a server error or a broken transport is "no answer".
-/
import Std.Data.HashSet
namespace Vgw.Spec.Register

/-- `K` = kinds of readers (GET / HEAD see different projections of the value). -/
inductive Op (V K : Type) where
  | write (v : V) | delete | read (k : K)
deriving DecidableEq, Repr, Inhabited

/-- `O` = what a read answers (an observation of the value). -/
inductive Res (O : Type) where
  | ok | missing | value (o : O) | garbled
deriving DecidableEq, Repr, Inhabited

def next {V K : Type} (s : Option V) : Op V K → Option V
  | .write v => some v
  | .delete => none
  | .read _ => s

/-- is the answer `r` to `op` admissible in register state `s`? `obs v k` = what a `k`-reader sees of `v`. -/
def admits {V K O : Type} [DecidableEq O] (obs : V → K → O) (s : Option V) : Op V K → Res O → Bool
  | .write _, .ok => true
  | .delete, .ok => true
  | .delete, .missing => s.isNone
  | .read _, .missing => s.isNone
  | .read k, .value o => (s.map (obs · k)) = some o
  | _, _ => false

structure Event (V K O : Type) where
  op  : Op V K
  inv : Nat
  ret : Option Nat      -- `none`: no answer
  res : Res O           -- meaningful when `ret` is `some`
deriving DecidableEq, Repr, Inhabited

/-- replay a sequence of operations; answered operations must be admitted. -/
def accepts {V K O : Type} [DecidableEq O] (obs : V → K → O) : Option V → List (Event V K O) → Bool
  | _, [] => true
  | s, e :: es => (e.ret.isNone || admits obs s e.op e.res) && accepts obs (next s e.op) es

/-- `pts` = (linearization time, index into `h`) in linearization order. -/
def IsLinearization {V K O : Type} [DecidableEq O] (obs : V → K → O) (init : Option V) (h : List (Event V K O))
    (pts : List (Nat × Nat)) : Prop :=
  (pts.map (·.1)).Pairwise (· < ·) ∧
  (pts.map (·.2)).Nodup ∧
  (∀ p ∈ pts, ∃ e, h[p.2]? = some e ∧ e.inv ≤ p.1 ∧ (∀ r, e.ret = some r → p.1 ≤ r)) ∧
  (∀ i e, h[i]? = some e → e.ret ≠ none → i ∈ pts.map (·.2)) ∧
  accepts obs init (pts.filterMap (fun p => h[p.2]?)) = true

def Linearizable {V K O : Type} [DecidableEq O] (obs : V → K → O) (init : Option V) (h : List (Event V K O)) : Prop :=
  ∃ pts, IsLinearization obs init h pts

/-! ### executable oracle

Events are held in an array sorted by invocation time. A search node is the set of operations
already linearized — everything below `lo` plus the indices in `extra` — and the register value.
An operation may be linearized next iff no unlinearized ANSWERED operation returned before it was
invoked. The search succeeds when no answered operation is left. -/

structure Node (V : Type) where
  lo    : Nat
  extra : List Nat      -- linearized indices > lo, ascending
  val   : Option V
deriving BEq, Hashable, Repr

variable {V : Type} [DecidableEq V] [Hashable V]

/-- the oracle's instance: readers see the whole value. -/
abbrev Ev (V : Type) := Event V Unit V
def obsId (v : V) (_ : Unit) : V := v


def insertSorted (x : Nat) : List Nat → List Nat
  | [] => [x]
  | y :: ys => if x < y then x :: y :: ys else y :: insertSorted x ys

/-- advance `lo` over already linearized indices. -/
def normalize (fuel : Nat) (lo : Nat) (extra : List Nat) : Nat × List Nat :=
  match fuel, extra with
  | fuel + 1, x :: xs => if x = lo then normalize fuel (lo + 1) xs else (lo, extra)
  | _, _ => (lo, extra)

/-- the smallest response time among unlinearized answered operations from index `i` on
    (`none` = there is none). The scan stops once invocation times exceed the bound found. -/
def minRet (h : Array (Ev V)) (extra : List Nat) (fuel i : Nat) (best : Option Nat) : Option Nat :=
  match fuel with
  | 0 => best
  | fuel + 1 =>
    match h[i]? with
    | none => best
    | some e =>
      match best with
      | some b => if e.inv > b then best else
        let best' := if extra.contains i then best else match e.ret with
          | some r => some (min b r)
          | none => best
        minRet h extra fuel (i + 1) best'
      | none =>
        let best' := if extra.contains i then best else e.ret
        minRet h extra fuel (i + 1) best'

/-- candidates: unlinearized operations invoked not later than `bound`. -/
def candidates (h : Array (Ev V)) (extra : List Nat) (bound : Nat) (fuel i : Nat) (acc : List Nat) : List Nat :=
  match fuel with
  | 0 => acc.reverse
  | fuel + 1 =>
    match h[i]? with
    | none => acc.reverse
    | some e =>
      if e.inv > bound then acc.reverse
      else candidates h extra bound fuel (i + 1) (if extra.contains i then acc else i :: acc)

/-- search result: 0 = no linearization below this node, 1 = found, 2 = budget exhausted. -/
abbrev Verdict := Nat

mutual
def search (h : Array (Ev V)) (budget fuel : Nat) (n : Node V) (seen : Std.HashSet (Node V)) : Verdict × Std.HashSet (Node V) :=
  match fuel with
  | 0 => (2, seen)
  | fuel + 1 =>
    if seen.contains n then (0, seen) else
    if seen.size ≥ budget then (2, seen) else
    let seen := seen.insert n
    match minRet h n.extra (h.size + 1) n.lo none with
    | none => (1, seen)                        -- no answered operation left
    | some bound =>
      tryAll h budget fuel n (candidates h n.extra bound (h.size + 1) n.lo []) seen
def tryAll (h : Array (Ev V)) (budget fuel : Nat) (n : Node V) (cs : List Nat) (seen : Std.HashSet (Node V)) : Verdict × Std.HashSet (Node V) :=
  match fuel with
  | 0 => (2, seen)
  | fuel + 1 =>
    match cs with
    | [] => (0, seen)
    | i :: cs =>
      match h[i]? with
      | none => tryAll h budget fuel n cs seen
      | some e =>
        if e.ret.isNone || admits obsId n.val e.op e.res then
          let (lo, extra) := normalize (h.size + 1) n.lo (insertSorted i n.extra)
          let r := search h budget fuel { lo := lo, extra := extra, val := next n.val e.op } seen
          if r.1 = 0 then tryAll h budget fuel n cs r.2 else r
        else tryAll h budget fuel n cs seen
end

/-- insertion sort by invocation time (stable). -/
def insertEv (e : Ev V) : List (Ev V) → List (Ev V)
  | [] => [e]
  | f :: fs => if e.inv < f.inv then e :: f :: fs else f :: insertEv e fs

def sortByInv (h : List (Ev V)) : List (Ev V) := h.foldr insertEv []

/-- the oracle; `budget` bounds the number of distinct search nodes (`none` = budget exhausted, no verdict). -/
def linearizableB (init : Option V) (h : List (Ev V)) (budget : Nat := 2000000) : Option Bool :=
  let a := (sortByInv h).toArray
  let r := search a budget ((a.size + 2) * (a.size + 2)) { lo := 0, extra := [], val := init } {}
  if r.1 = 1 then some true else if r.1 = 0 then some false else none

end Vgw.Spec.Register
