/-
  Spec.Crash — the reading of property C11 as a judgement on what the API shows after a restart,
  independent of how the backend is written.

  An observation of one key (tokens stand for concrete bytes; the harness maps them):
    get    the GetObject/HeadObject/GetObjectTagging answer (`404` or data,etag,content-type,metadata,version id,tags
           [,legal hold — object-lock buckets])
    list   the key's ListObjectsV2 entry (`-` = not listed)
    ver    the key's ListObjectVersions entries
    up     the key's multipart uploads (ListMultipartUploads) with their parts (ListParts)
    other  the answers for an unrelated key of the same bucket
    blocked  DeleteBucket is refused although everything the API lists has been deleted

  C11: after a kill during a request the observation of the affected key is EITHER the one before the
  request OR the one after the completed request — all of get/list/ver from the same side (that is the
  mutual consistency of data, size, ETag and metadata) —, the multipart state likewise, an upload that
  the completed request would have consumed is not shown next to the object it produced (temporary data
  is not visible), every other key reads as before (acknowledged operations persist), and the bucket can
  still be emptied and deleted (leftovers block nothing).

  Grey zone (both behaviours accepted): nothing is demanded of what lies on disk as long as no API answer shows it; while the
  key observation is neither old nor new (already a defect) the upload state is only required to be old or new.
-/
namespace Vgw.Spec.Crash

structure Obs where
  get : String
  list : String
  ver : String
  up : String
  other : String
  blocked : Bool
deriving DecidableEq, Repr, Inhabited

def keySide (a : Obs) : String × String × String := (a.get, a.list, a.ver)

/-- Field-by-field provenance of a GetObject answer that is neither the old nor the new one:
    `o` = the old value, `n` = the new value, `=` = old and new agree and so does the answer, `?` = neither.
    Fields: data, etag, content-type, metadata, version id, tags — and, in an object-lock bucket, the legal hold.
    (Names the defect class in signatures.) -/
def provenance (old new o : String) : String :=
  let fo := old.splitOn ","
  let fn := new.splitOn ","
  let fx := o.splitOn ","
  if fx.length != 6 && fx.length != 7 then o else
  String.join ((List.range fx.length).map (fun i =>
    let x := fx.getD i ""
    let a := fo.getD i "<absent>"
    let b := fn.getD i "<absent>"
    if x == a && x == b then "=" else if x == a then "o" else if x == b then "n" else "?"))

/-- The defects of an observation `o` made after a crash, given the observation `old` before the request and
    `new` after the completed request.  `[]` = C11 holds for this crash. -/
def defects (old new o : Obs) : List String :=
  let keyOld := keySide o == keySide old
  let keyNew := keySide o == keySide new
  let k : List String :=
    if keyOld || keyNew then []
    else if o.get == "404" && old.get != "404" && new.get != "404" then ["vanished"]
    else if o.get != old.get && o.get != new.get then ["mixed-object:" ++ provenance old.get new.get o.get]
    else if o.list != old.list && o.list != new.list then ["mixed-listing"]
    else if o.ver != old.ver && o.ver != new.ver then ["mixed-versions"]
    else ["mixed-sides"]
  let u : List String :=
    if o.up == old.up && o.up == new.up then []
    else if o.up == old.up then (if keyNew && !keyOld then ["leftover-upload-visible"] else [])
    else if o.up == new.up then (if keyOld && !keyNew then ["upload-lost"] else [])
    else ["mixed-upload"]
  let t : List String := if o.other == old.other then [] else ["other-key-changed"]
  let b : List String := if o.blocked then ["delete-bucket-blocked"] else []
  k ++ u ++ t ++ b

def admissibleB (old new o : Obs) : Bool := (defects old new o).isEmpty

end Vgw.Spec.Crash
