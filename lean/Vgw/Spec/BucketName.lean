/-
  Spec.BucketName — the S3 bucket naming rules C16 refers to (general-purpose buckets):
  3–63 characters; only lower-case letters, digits, periods and hyphens; begins and ends with a
  letter or digit; no two adjacent periods; not formatted as an IPv4 address.
  (The AWS-reserved prefixes/suffixes `xn--`, `sthree-`, `amzn-s3-demo-`, `-s3alias`, `--ol-s3`,
  `.mrap`, `--x-s3`, `--table-s3` are service-specific and left out: grey zone, either answer.)
-/
import Vgw.Go.Strconv
namespace Vgw.Spec.BucketName
open Vgw

def alnum (c : UInt8) : Prop := (97 ≤ c ∧ c ≤ 122) ∨ (48 ≤ c ∧ c ≤ 57)
def allowed (c : UInt8) : Prop := alnum c ∨ c = 46 ∨ c = 45

/-- four dot-separated groups of one to three digits -/
def IPv4Shaped (s : Bytes) : Prop :=
  ∃ a b c d : Bytes, s = a ++ 46 :: b ++ 46 :: c ++ 46 :: d ∧
    ∀ f ∈ [a, b, c, d], 1 ≤ f.length ∧ f.length ≤ 3 ∧ ∀ x ∈ f, isDigit x = true

def AdjacentPeriods (s : Bytes) : Prop := ∃ p q : Bytes, s = p ++ 46 :: 46 :: q

def Valid (s : Bytes) : Prop :=
  3 ≤ s.length ∧ s.length ≤ 63 ∧ (∀ c ∈ s, allowed c) ∧
  (∃ c, s.head? = some c ∧ alnum c) ∧ (∃ c, s.getLast? = some c ∧ alnum c) ∧
  ¬ AdjacentPeriods s ∧ ¬ IPv4Shaped s

end Vgw.Spec.BucketName
