/-
  Spec.Chunked — the formal reading of property C12: what an aws-chunked body IS and which payload
  it carries, for the three encodings the gateway accepts:

    signed           STREAMING-AWS4-HMAC-SHA256-PAYLOAD
    signedTrailer    STREAMING-AWS4-HMAC-SHA256-PAYLOAD-TRAILER
    unsignedTrailer  STREAMING-UNSIGNED-PAYLOAD-TRAILER

  (https://docs.aws.amazon.com/AmazonS3/latest/API/sigv4-streaming.html, …-trailers.html).
  Independent of the reader code: a stream is the rendering of a list of chunks.

    signed chunk      HEX ";chunk-signature=" SIG CRLF DATA CRLF          (DATA non-empty, HEX = |DATA|)
    signed final      HEX0 ";chunk-signature=" SIG CRLF [TRAILER] CRLF    (HEX0 has value 0)
      TRAILER         NAME ":" BASE64(csum payload) CRLF "x-amz-trailer-signature:" TSIG CRLF
    unsigned chunk    HEX CRLF DATA CRLF
    unsigned final    HEX0 CRLF NAME ":" BASE64(csum payload) CRLF CRLF

  HEX = one to sixteen hex digits of either case (leading zeros allowed; sixteen digits spell every
  size that fits the int64 the wire format is read into).
  SIG_i = hex(hmac(key, "AWS4-HMAC-SHA256-PAYLOAD\n" date "\n" scope "\n" SIG_{i-1} "\n" hex(sha "") "\n" hex(sha DATA_i)))
  with SIG_0 the seed signature; the final chunk signs the empty data; TSIG signs the trailer line.
  SHA-256 / HMAC / checksum are parameters: validity is DEFINED with the same functions the reader
  is given, so no cryptographic assumption is involved anywhere.

  Explicit assumption: the payload is shorter than 2^63 bytes (every size fits the int64 the wire
  format is read into).

  Grey zones (the property statement does not decide; the oracle admits rejection as well as the
  payload of the lenient reading, never anything else): a `+`/`-0` sign on a chunk size or more than
  sixteen digits (leading zeros; the signed reader buffers at most 1024 bytes of a header that is
  split across reads, so absurdly long spellings are accepted or refused depending on the split); in the
  unsigned encoding white space around a chunk size or around the trailer line and a bare LF after
  the size; any bytes after the terminating CRLF (the HTTP layer, not the decoder, delimits the body).
-/
import Vgw.Go.Encoding
namespace Vgw.Spec.Chunked
open Vgw

inductive Variant where
  | signed | signedTrailer | unsignedTrailer
  deriving DecidableEq, Repr

structure Params where
  sha : Bytes → Bytes
  hmac : Bytes → Bytes → Bytes
  csum : Bytes → Bytes
  key : Bytes            -- SigV4 signing key
  amzDate : Bytes        -- "20240102T030405Z"
  scope : Bytes          -- "20240102/us-east-1/s3/aws4_request"
  seedSig : Bytes        -- signature of the request headers
  trailerName : Bytes    -- "x-amz-checksum-crc32"

def crlf : Bytes := [13, 10]
def sigIntro : Bytes := [59, 99, 104, 117, 110, 107, 45, 115, 105, 103, 110, 97, 116, 117, 114, 101, 61]  -- ";chunk-signature="
def trailerSigIntro : Bytes := [120, 45, 97, 109, 122, 45, 116, 114, 97, 105, 108, 101, 114, 45, 115, 105, 103, 110, 97, 116, 117, 114, 101, 58]  -- "x-amz-trailer-signature:"
def payloadAlgo : Bytes := [65, 87, 83, 52, 45, 72, 77, 65, 67, 45, 83, 72, 65, 50, 53, 54, 45, 80, 65, 89, 76, 79, 65, 68]
def trailerAlgo : Bytes := [65, 87, 83, 52, 45, 72, 77, 65, 67, 45, 83, 72, 65, 50, 53, 54, 45, 84, 82, 65, 73, 76, 69, 82]
/-- hex(SHA-256("")) — a constant of the wire format -/
def emptyHashHex : Bytes := [101, 51, 98, 48, 99, 52, 52, 50, 57, 56, 102, 99, 49, 99, 49, 52, 57, 97, 102, 98, 102, 52,
  99, 56, 57, 57, 54, 102, 98, 57, 50, 52, 50, 55, 97, 101, 52, 49, 101, 52, 54, 52, 57, 98, 57, 51, 52, 99, 97,
  52, 57, 53, 57, 57, 49, 98, 55, 56, 53, 50, 98, 56, 53, 53]

def chunkSig (P : Params) (prev data : Bytes) : Bytes :=
  hexEncode (P.hmac P.key (payloadAlgo ++ [10] ++ P.amzDate ++ [10] ++ P.scope ++ [10] ++ prev ++ [10] ++
    emptyHashHex ++ [10] ++ hexEncode (P.sha data)))

def checksumB64 (P : Params) (payload : Bytes) : Bytes := b64Encode (P.csum payload)

def trailerSig (P : Params) (prev payload : Bytes) : Bytes :=
  hexEncode (P.hmac P.key (trailerAlgo ++ [10] ++ P.amzDate ++ [10] ++ P.scope ++ [10] ++ prev ++ [10] ++
    hexEncode (P.sha (P.trailerName ++ [58] ++ checksumB64 P payload ++ [10]))))

/-- a chunk as written on the wire: the spelling of its size, and its data -/
abbrev Chunk := Bytes × Bytes

/-- `h` spells the number `n` in hex -/
def IsHex (h : Bytes) (n : Nat) : Prop := parseHexDigits h = some n

instance (h : Bytes) (n : Nat) : Decidable (IsHex h n) := by unfold IsHex; infer_instance

def chunkBound : Nat := 9223372036854775807

/-- a chunk size is spelled with at most sixteen hex digits -/
def maxSizeDigits : Nat := 16

def payloadOf (cs : List Chunk) : Bytes := (cs.map (·.2)).flatten

/-- well-formed chunk list: sizes spelled right, no empty data chunk, final chunk spelled as zero,
payload shorter than 2^63 bytes -/
def WF (cs : List Chunk) (hz : Bytes) : Prop :=
  (∀ c ∈ cs, IsHex c.1 c.2.length ∧ c.2 ≠ []) ∧ IsHex hz 0 ∧ (payloadOf cs).length ≤ chunkBound ∧
  (∀ c ∈ cs, c.1.length ≤ maxSizeDigits) ∧ hz.length ≤ maxSizeDigits

/-- signed encodings; `prev` = previous signature, `acc` = payload before these chunks -/
def renderSigned (P : Params) (tr : Bool) : Bytes → Bytes → List Chunk → Bytes → Bytes
  | prev, acc, [], hz =>
    let sig := chunkSig P prev []
    hz ++ sigIntro ++ sig ++ crlf ++
      (if tr then P.trailerName ++ [58] ++ checksumB64 P acc ++ crlf ++ trailerSigIntro ++ trailerSig P sig acc ++ crlf
       else []) ++ crlf
  | prev, acc, (h, d) :: cs, hz =>
    let sig := chunkSig P prev d
    h ++ sigIntro ++ sig ++ crlf ++ d ++ crlf ++ renderSigned P tr sig (acc ++ d) cs hz

def renderUnsigned (P : Params) : Bytes → List Chunk → Bytes → Bytes
  | acc, [], hz => hz ++ crlf ++ P.trailerName ++ [58] ++ checksumB64 P acc ++ crlf ++ crlf
  | acc, (h, d) :: cs, hz => h ++ crlf ++ d ++ crlf ++ renderUnsigned P (acc ++ d) cs hz

def render (P : Params) : Variant → List Chunk → Bytes → Bytes
  | .signed, cs, hz => renderSigned P false P.seedSig [] cs hz
  | .signedTrailer, cs, hz => renderSigned P true P.seedSig [] cs hz
  | .unsignedTrailer, cs, hz => renderUnsigned P [] cs hz

/-- **`stream` is a valid aws-chunked encoding (variant `v`) of `payload`.** -/
def Valid (P : Params) (v : Variant) (stream payload : Bytes) : Prop :=
  ∃ cs hz, WF cs hz ∧ stream = render P v cs hz ∧ payload = payloadOf cs

/-- cut `p` into pieces of the given sizes (non-positive sizes skipped, remainder as last piece) -/
def splitSizes : Nat → Bytes → List Nat → List Bytes
  | _, [], _ => []
  | 0, p, _ => [p]
  | _, p, [] => [p]
  | fuel + 1, p, s :: ss =>
    if s = 0 then splitSizes fuel p ss else p.take s :: splitSizes fuel (p.drop s) ss

/-- the canonical encoder: lower-case sizes without leading zeros -/
def encode (P : Params) (v : Variant) (payload : Bytes) (sizes : List Nat) : Bytes :=
  let cs := (splitSizes (sizes.length + 1) payload sizes).map fun d => (natToHex d.length, d)
  render P v cs [48]

/-! ### Executable checker = the oracle

A recursive-descent reading of the grammar that re-computes every signature and checksum.
`lenient = false` is the grammar above; `lenient = true` additionally admits the grey-zone
spellings.  Written independently of the reader models (no stash, no buffer, no state machine). -/

inductive Verdict where
  | valid (payload : Bytes)
  | truncated            -- the input ended where the grammar demands more bytes
  | malformed            -- a byte the grammar does not allow
  | badSignature         -- a chunk or trailer signature is not the prescribed one
  | badChecksum          -- the trailing checksum is not the checksum of the payload
  deriving DecidableEq, Repr

/-- expect the literal `lit` -/
def expect : Bytes → Bytes → Except Verdict Bytes
  | [], s => .ok s
  | _ :: _, [] => .error .truncated
  | c :: cs, b :: s => if b = c then expect cs s else .error .malformed

/-- maximal run of bytes satisfying `ok` -/
def spanB (ok : UInt8 → Bool) : Bytes → Bytes × Bytes
  | [] => ([], [])
  | b :: s => if ok b then let (a, r) := spanB ok s; (b :: a, r) else ([], b :: s)

/-- a size token followed by `stop`; lenient: Go's ParseInt reading of everything before `stop`
(after TrimSpace when `ws`) -/
def sizeToken (lenient ws : Bool) (stop : UInt8) (s : Bytes) : Except Verdict (Nat × Bytes) :=
  if lenient then
    match readUntil stop s with
    | none => .error .truncated
    | some (tok, rest) =>
      match parseIntHex64 (if ws then trimSpace tok else tok) with
      | some v => if v < 0 then .error .malformed else .ok (v.toNat, rest)
      | none => .error .malformed
  else
    let (h, rest) := spanB isHexDigit s
    match rest with
    | [] => .error .truncated
    | b :: rest =>
      if b ≠ stop then .error .malformed else
      if h.length > maxSizeDigits then .error .malformed else
      match parseHexDigits h with
      | some n => .ok (n, rest)
      | none => .error .malformed

/-- everything up to (excluding) the next CR, which must be followed by LF -/
def lineCRLF (s : Bytes) : Except Verdict (Bytes × Bytes) :=
  match readUntil 13 s with
  | none => .error .truncated
  | some (l, rest) =>
    match rest with
    | [] => .error .truncated
    | b :: rest => if b = 10 then .ok (l, rest) else .error .malformed

def takeExact (n : Nat) (s : Bytes) : Except Verdict (Bytes × Bytes) :=
  if s.length < n then .error .truncated else .ok (s.take n, s.drop n)

def atEnd (lenient : Bool) (s : Bytes) : Except Verdict Unit :=
  if s.isEmpty || lenient then .ok () else .error .malformed

/-- the final chunk of a signed stream, after its signature line -/
def checkFinalSigned (P : Params) (tr lenient : Bool) (prev acc sig s : Bytes) : Except Verdict Bytes :=
  if sig ≠ chunkSig P prev [] then .error .badSignature else
  if tr then
    match lineCRLF s with
    | .error v => .error v
    | .ok (line, s) =>
    match expect trailerSigIntro s with
    | .error v => .error v
    | .ok s =>
    match lineCRLF s with
    | .error v => .error v
    | .ok (tsig, s) =>
    match expect crlf s with
    | .error v => .error v
    | .ok s =>
    if line.take (P.trailerName.length + 1) ≠ P.trailerName ++ [58] then .error .malformed else
    if line.drop (P.trailerName.length + 1) ≠ checksumB64 P acc then .error .badChecksum else
    if tsig ≠ trailerSig P sig acc then .error .badSignature else
    match atEnd lenient s with
    | .error v => .error v
    | .ok _ => .ok acc
  else
    match expect crlf s with
    | .error v => .error v
    | .ok s =>
    match atEnd lenient s with
    | .error v => .error v
    | .ok _ => .ok acc

def checkSigned (P : Params) (tr lenient : Bool) : Nat → Bytes → Bytes → Bytes → Except Verdict Bytes
  | 0, _, _, _ => .error .truncated
  | fuel + 1, prev, acc, s =>
    match sizeToken lenient false 59 s with
    | .error v => .error v
    | .ok (n, s) =>
    match expect (sigIntro.drop 1) s with
    | .error v => .error v
    | .ok s =>
    match lineCRLF s with
    | .error v => .error v
    | .ok (sig, s) =>
    if n = 0 then checkFinalSigned P tr lenient prev acc sig s else
    match takeExact n s with
    | .error v => .error v
    | .ok (d, s) =>
    match expect crlf s with
    | .error v => .error v
    | .ok s =>
    if sig ≠ chunkSig P prev d then .error .badSignature else
    checkSigned P tr lenient fuel sig (acc ++ d) s

/-- a chunk-size line of the unsigned encoding -/
def sizeLine (lenient : Bool) (s : Bytes) : Except Verdict (Nat × Bytes) :=
  if lenient then sizeToken true true 10 s
  else
    match sizeToken false false 13 s with
    | .error v => .error v
    | .ok (n, s) =>
    match expect [10] s with
    | .error v => .error v
    | .ok s => .ok (n, s)

/-- the trailer of an unsigned stream, after the final chunk-size line -/
def checkFinalUnsigned (P : Params) (lenient : Bool) (acc s : Bytes) : Except Verdict Bytes :=
  match lineCRLF s with
  | .error v => .error v
  | .ok (line, s) =>
  match expect crlf s with
  | .error v => .error v
  | .ok s =>
  let line := if lenient then trimSpace line else line
  if line.take (P.trailerName.length + 1) ≠ P.trailerName ++ [58] then .error .malformed else
  if line.drop (P.trailerName.length + 1) ≠ checksumB64 P acc then .error .badChecksum else
  match atEnd lenient s with
  | .error v => .error v
  | .ok _ => .ok acc

def checkUnsigned (P : Params) (lenient : Bool) : Nat → Bytes → Bytes → Except Verdict Bytes
  | 0, _, _ => .error .truncated
  | fuel + 1, acc, s =>
    match sizeLine lenient s with
    | .error v => .error v
    | .ok (n, s) =>
    if n = 0 then checkFinalUnsigned P lenient acc s else
    match takeExact n s with
    | .error v => .error v
    | .ok (d, s) =>
    match expect crlf s with
    | .error v => .error v
    | .ok s => checkUnsigned P lenient fuel (acc ++ d) s

def toVerdict : Except Verdict Bytes → Verdict
  | .ok p => .valid p
  | .error v => v

/-- the strict checker: decides `Valid` and computes the payload (`check_iff_valid`) -/
def check (P : Params) (v : Variant) (lenient : Bool) (s : Bytes) : Verdict :=
  toVerdict <| match v with
    | .signed => checkSigned P false lenient (s.length + 1) P.seedSig [] s
    | .signedTrailer => checkSigned P true lenient (s.length + 1) P.seedSig [] s
    | .unsignedTrailer => checkUnsigned P lenient (s.length + 1) [] s

/-- What the implementation was seen to do with a stream. -/
inductive Obs where
  | ok (payload : Bytes)     -- decoded bytes, then a clean io.EOF
  | rejected                 -- any non-EOF error
  | crashed                  -- panic
  deriving DecidableEq, Repr

inductive Class where
  | valid | grey | invalid (why : Verdict)
  deriving DecidableEq, Repr

def classify (P : Params) (v : Variant) (s : Bytes) : Class × Option Bytes :=
  match check P v false s with
  | .valid p => (.valid, some p)
  | why =>
    match check P v true s with
    | .valid p => (.grey, some p)
    | _ => (.invalid why, none)

/-- **The oracle.**  valid ⇒ exactly the payload; grey ⇒ the lenient payload or a rejection;
anything else ⇒ a rejection.  A crash is never admitted. -/
def admitsB (P : Params) (v : Variant) (s : Bytes) (o : Obs) : Bool :=
  match classify P v s, o with
  | (.valid, some p), .ok q => p == q
  | (.grey, some p), .ok q => p == q
  | (.grey, _), .rejected => true
  | (.invalid _, _), .rejected => true
  | _, _ => false

end Vgw.Spec.Chunked
