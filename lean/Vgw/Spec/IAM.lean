/-
  Specification for C17, independent of cache, file and locks: the account service of one gateway
  behaves like a plain map `access → account` (plus the configured root account), and calls take
  effect in an order that respects real time:

  * sequentially, every call answers what the map answers (`seqSpec`);
  * concurrently, a history of calls (a call that has not returned yet counts as "may or may not
    have happened") with their invocation/return instants is admissible iff it
    is LINEARIZABLE w.r.t. the map (`linearizableB`, the executable oracle): there is a total
    order of the calls that respects "returned before the other was invoked" and in which every
    call returns what the map returns.  In particular a lookup invoked after a change was
    acknowledged sees that change — with every attribute of the account — and never an older
    state, whatever the clock says.

  Grey zones (admitted either way): while a change is in flight (invoked, not yet acknowledged) a
  lookup or listing may already see it or not yet, independently of other lookups / listings that
  overlap the same change (`mustPrecede`); once it is acknowledged everybody sees it.  Otherwise
  none for accounts other than root.  Calls naming the root
  account's access key follow the same map rules with root absent from the map, except that a
  lookup answers the root account and a create is refused; the S3 request path never asks the
  service about root (s3api/middlewares/authentication.go getAccount).

  End-to-end a lookup is only observed through an authentication outcome (and role-dependent
  behaviour, file ownership): `ResPat.found` states what was observed of the account.
-/
import Vgw.Model.IAM
namespace Vgw.Spec.IAM
open Vgw
open Vgw.Model.Gw (Account Role)
open Vgw.Model.IAM (Props Op Res)

/-- the plain map -/
abbrev Accts := Bytes → Option Account

def Accts.set (m : Accts) (k : Bytes) (a : Account) : Accts := fun k' => if k' = k then some a else m k'
def Accts.erase (m : Accts) (k : Bytes) : Accts := fun k' => if k' = k then none else m k'
def Accts.ofList (l : List Account) : Accts := fun k => l.find? (fun a => a.access = k)

/-- an update replaces exactly the properties that are present -/
def applyProps (a : Account) (p : Props) : Account :=
  { a with secret := p.secret.getD a.secret, uid := p.uid.getD a.uid, gid := p.gid.getD a.gid }

def lookup (root : Account) (m : Accts) (k : Bytes) : Option Account :=
  if k = root.access then some root else m k

/-- Ownership oracle (end to end, `posix --chuid --chgid`): every file-system object that a request
authenticated as account `a` creates — bucket directory, parent directories of the key, object
file, multipart part file, completed multipart object — is owned by exactly these ids, whatever
the gateway process's own effective uid / gid are.  `a` is what the lookup of that request answers
(`lookup`), so an account's ids count from the acknowledgement of the create-user / update-user
that set them. -/
def expectedOwner (a : Account) : Int × Int := (a.uid, a.gid)

/-- new map and answer of one call (`list`: the answer is judged by `ListOk`) -/
def apply (root : Account) (m : Accts) : Op → Accts × Res
  | .create a =>
    if a.access = root.access ∨ (m a.access).isSome then (m, .userExists) else (m.set a.access a, .ok)
  | .update k p =>
    match m k with
    | none => (m, .noSuchUser)
    | some a => (m.set k (applyProps a p), .ok)
  | .delete k => (m.erase k, .ok)
  | .get k => (m, match lookup root m k with | some a => .acct a | none => .noSuchUser)
  | .list => (m, .accts [])

/-- a listing of the map: strictly ascending by access (Go string order), exactly the map's
accounts -/
def ListOk (m : Accts) (l : List Account) : Prop :=
  l.Pairwise (fun a b => blt a.access b.access = true) ∧ ∀ k, Accts.ofList l k = m k

/-- answers of a sequential history on the plain map (`none` for listings) -/
def seqSpec (root : Account) : Accts → List Op → List Res
  | _, [] => []
  | m, op :: rest => (apply root m op).2 :: seqSpec root (apply root m op).1 rest

/-! ### executable oracle for concurrent histories -/

/-- what was observed of a call's answer -/
inductive ResPat where
  | exact (r : Res)
  /-- the lookup found an account; observed: whether its secret equals `secret`, its role, uid, gid -/
  | found (secret : Option (Bytes × Bool)) (role : Option Role) (uid gid : Option Int)
  /-- the call had not returned when the observation ended: it may have taken effect, with any
  answer, or not at all -/
  | pending
  deriving Repr

def ResPat.isPending : ResPat → Bool
  | .pending => true
  | _ => false

structure Rec where
  op : Op
  res : ResPat
  /-- instants of invocation and return on a common clock (`inv < ret`) -/
  inv : Nat
  ret : Nat
  deriving Repr

def sortedB : List Account → Bool
  | a :: b :: rest => blt a.access b.access && sortedB (b :: rest)
  | _ => true

/-- `ListOk` over the finite universe of keys that occur in the history -/
def listOkB (univ : List Bytes) (m : Accts) (l : List Account) : Bool :=
  sortedB l && (univ ++ l.map (·.access)).all fun k => Accts.ofList l k == m k

def optOk {α} [BEq α] (want : Option α) (have_ : α) : Bool :=
  match want with | none => true | some w => w == have_

def resOkB (root : Account) (univ : List Bytes) (m : Accts) (op : Op) : ResPat → Bool
  | .exact (.accts l) => (match op with | .list => listOkB univ m l | _ => false)
  | .exact r => (match op with | .list => false | _ => decide ((apply root m op).2 = r))
  | .found sec role uid gid =>
    match op with
    | .get k =>
      (match lookup root m k with
       | some a => (match sec with | none => true | some (s, eq) => (a.secret == s) == eq) &&
                   optOk role a.role && optOk uid a.uid && optOk gid a.gid
       | none => false)
    | _ => false
  | .pending => true

/-- removes the i-th element -/
def dropAt {α} : List α → Nat → List α
  | [], _ => []
  | _ :: xs, 0 => xs
  | x :: xs, i + 1 => x :: dropAt xs i

def overlaps (m x : Rec) : Bool := decide (m.inv < x.ret) && decide (x.inv < m.ret)

/-- `r'` returned before `r` was invoked, and the order of the two is prescribed: always, except
for two reads (lookup / listing) that both overlap one and the same change — the property speaks
about ACKNOWLEDGED changes; while a change is in flight a read may already see it or not yet,
independently of other reads -/
def mustPrecede (all : List Rec) (r' r : Rec) : Bool :=
  decide (r'.ret < r.inv) &&
  !(!r'.op.isMut && !r.op.isMut && all.any fun m => m.op.isMut && overlaps m r' && overlaps m r)

/-- Wing–Gong search: some call that no other pending call must precede comes next and answers
what the map answers; recurse on the rest. -/
def linSearch (root : Account) (univ : List Bytes) (all : List Rec) : Nat → Accts → List Rec → Bool
  | _, _, [] => true
  | 0, _, _ :: _ => false
  | fuel + 1, m, pending =>
    pending.all (·.res.isPending) ||      -- what has not returned need not have happened
    (List.range pending.length).any fun i =>
      match pending[i]? with
      | none => false
      | some r =>
        pending.all (fun r' => !mustPrecede all r' r) &&
        resOkB root univ m r.op r.res &&
        linSearch root univ all fuel (apply root m r.op).1 (dropAt pending i)

def keysOf (h : List Rec) : List Bytes := h.map (·.op.key)

/-- the oracle: is the observed history admissible for a gateway that started on `init`? -/
def linearizableB (root : Account) (init : List Account) (h : List Rec) : Bool :=
  linSearch root (keysOf h ++ init.map (·.access)) h h.length (Accts.ofList init) h

end Vgw.Spec.IAM
