/-
  Spec.Range — the formal reading of property C13 (DESIGN appendix F.3).

  A Range header is *well-formed* when it is `bytes=` DIGITS `-` [DIGITS]; DIGITS is a
  non-empty string of ASCII digits whose value is an unbounded natural number.
  Grey zones (either answer admitted, because the property statement does not decide):
    * numbers written with a leading `+` (Go's ParseInt accepts them, RFC 7233 does not);
    * numbers above 2^63-1 (no object has such a position; the code reads them as malformed).
-/
import Vgw.Go.Strconv
import Vgw.Model.Range
namespace Vgw.Spec.Range
open Vgw Vgw.Model.Range

/-- `"bytes="` -/
def prefixLit : Bytes := bytesLit ++ [61]

/-- `s` is DIGITS with value `n`. -/
def IsDigits (s : Bytes) (n : Nat) : Prop := parseDigits s = some n

/-- `s` is DIGITS, possibly preceded by one `+` (grey zone). -/
def IsPlusDigits (s : Bytes) (n : Nat) : Prop := IsDigits s n ∨ ∃ d, s = 43 :: d ∧ IsDigits d n

/-- whole object, status 200, no Content-Range -/
def whole (size : Int) : Resp := ⟨200, 0, size, size, none⟩

/-- 206 for the inclusive interval [a, b] of an object of `size` bytes -/
def partial_ (size a b : Int) : Resp := ⟨206, a, b - a + 1, b - a + 1, some (a, b, size)⟩

def unsatisfiable : Resp := ⟨416, 0, 0, 0, none⟩

/-- The answer the property prescribes for `bytes=first-[last]` on an object of `size` bytes. -/
def prescribed (size : Int) (first : Nat) (last : Option Nat) : Resp :=
  if (first : Int) ≥ size then unsatisfiable else
  match last with
  | none => partial_ size first (size - 1)
  | some l => partial_ size first (min (l : Int) (size - 1))

/-- Status, length and range headers describe exactly the body, and the body lies inside the
object. -/
def Consistent (size : Int) (r : Resp) : Prop :=
  (r.status = 200 ∧ r.bodyOff = 0 ∧ r.bodyLen = size ∧ r.contentLength = size ∧ r.contentRange = none) ∨
  (r.status = 206 ∧ 0 ≤ r.bodyOff ∧ 1 ≤ r.bodyLen ∧ r.bodyOff + r.bodyLen ≤ size ∧
     r.contentLength = r.bodyLen ∧
     r.contentRange = some (r.bodyOff, r.bodyOff + r.bodyLen - 1, size)) ∨
  (r.status = 416 ∧ r.bodyLen = 0 ∧ r.contentRange = none)

end Vgw.Spec.Range

/-! ### Executable oracle (used on the IMPLEMENTATION's observations)

An independent reading of the header (prefix test, `takeWhile` over digits) that does not go
through the model's split/ParseInt route. -/
namespace Vgw.Spec.Range
open Vgw Vgw.Model.Range

def decVal (s : Bytes) : Nat := s.foldl (fun acc c => acc * 10 + (c.toNat - 48)) 0

/-- optional `+`, then the maximal digit run: (hadPlus, digits, rest) -/
def takeNumber (s : Bytes) : Bool × Bytes × Bytes :=
  match s with
  | 43 :: t => (true, t.takeWhile isDigit, t.dropWhile isDigit)
  | _ => (false, s.takeWhile isDigit, s.dropWhile isDigit)

inductive Shape where
  | other                                                   -- not a range the gateway supports
  | range (first : Nat) (last : Option Nat) (grey : Bool)   -- grey: `+` used, or a number > int64
  | firstThenJunk (first : Nat)                             -- `bytes=DIGITS-` followed by junk
  deriving Repr, DecidableEq

def shape (r : Bytes) : Shape :=
  if prefixLit.isPrefixOf r then
    let rest := r.drop prefixLit.length
    let (p1, a, rest1) := takeNumber rest
    if a.isEmpty then .other else
    match rest1 with
    | 45 :: t =>
      let (p2, b, rest2) := takeNumber t
      let huge1 := decide ((decVal a : Int) > int64Max)
      if t.isEmpty then .range (decVal a) none (p1 || huge1)
      else if b.isEmpty || !rest2.isEmpty then
        .firstThenJunk (decVal a)
      else .range (decVal a) (some (decVal b)) (p1 || p2 || huge1 || decide ((decVal b : Int) > int64Max))
    | _ => .other
  else .other

instance : DecidableEq Resp := inferInstance

def consistentB (size : Int) (r : Resp) : Bool :=
  (r.status == 200 && r.bodyOff == 0 && r.bodyLen == size && r.contentLength == size && r.contentRange == none) ||
  (r.status == 206 && decide (0 ≤ r.bodyOff) && decide (1 ≤ r.bodyLen) && decide (r.bodyOff + r.bodyLen ≤ size) &&
     r.contentLength == r.bodyLen && r.contentRange == some (r.bodyOff, r.bodyOff + r.bodyLen - 1, size)) ||
  (r.status == 416 && r.bodyLen == 0 && r.contentRange == none)

/-- Is `resp` an answer the property admits for header `r` on an object of `size` bytes? -/
def admissibleB (size : Int) (r : Bytes) (resp : Resp) : Bool :=
  consistentB size resp &&
  match shape r with
  | .other => resp == whole size
  | .firstThenJunk first =>
      resp == whole size || (decide ((first : Int) ≥ size) && resp == unsatisfiable)
  | .range first last grey =>
      let reversed := match last with | some l => decide (l < first) | none => false
      if reversed then
        resp == whole size || (decide ((first : Int) ≥ size) && resp == unsatisfiable)
      else if grey then resp == whole size || resp == prescribed size first last
      else resp == prescribed size first last

end Vgw.Spec.Range
