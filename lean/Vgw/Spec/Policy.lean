/-
  Spec.Policy — the formal reading of property C14 (DESIGN appendix F.2), independent of the code's
  algorithms.  It shares only the data structures (`Stmt`, `RawDoc`, `Field`) and the string
  constants with Model.Policy.

  EVALUATION.  `Allows pol who act res` := some Allow statement hits ∧ no Deny statement hits, where a
  statement hits when its principals contain `*` or the caller, its actions contain `s3:*`, the
  action itself, or a member `pre*` with `pre` a prefix of the action, and one of its resource
  patterns matches the resource by `Spec.Glob.G`.

  WELL-FORMEDNESS of a document for a bucket (`WellFormed`): JSON object with a non-empty statement
  list; every effect `Allow`/`Deny`; Principal, Action, Resource all present and non-empty (string or
  array of strings); principals `*` alone or existing accounts; every action `s3:*`, a supported
  action or `pre*` with `s3:` ≤ `pre` ≤ a supported action; every resource
  `arn:aws:s3:::bucket` or `arn:aws:s3:::bucket/…`; every action has a resource of its kind.

  GREY ZONES (the property statement does not decide; both behaviours are admitted — `WellFormed`
  takes a `Mode`: a document is *must-accept* when `WellFormed strict`, *must-refuse* when
  `¬ WellFormed lenient`, grey otherwise):
    * a wildcard action `pre*` covering both object and bucket actions: strict wants a resource of
      both kinds, lenient is content with one that some covered action applies to;
    * `s3:GetBucketObjectLockConfiguration` (declared and enforced by the gateway, absent from its
      list of actions a policy may name) and `s3:**` (`pre = s3:*` is a prefix of the name `s3:*`):
      not well-formed strictly, tolerated leniently;
    * JSON member-name case and duplicate members, ignored unknown members (`Condition`, `Version`,
      `Sid`), a single statement object instead of an array: encoding/json's and the gateway's
      choices are taken as given (they are below the level of `RawDoc`).
  Core-only.
-/
import Vgw.Model.Policy
import Vgw.Spec.Glob
namespace Vgw.Spec.Policy
open Vgw Vgw.Model.Policy Vgw.Spec.Glob

/-! ### evaluation -/

/-- `a` is `pre*` -/
def EndsInStar (a : Bytes) : Prop := a.getLast? = some 42

/-- the action pattern `a` (exact name or `pre*`) covers the action name `b` -/
def Covers (a b : Bytes) : Prop := a = b ∨ (EndsInStar a ∧ a.dropLast <+: b)

def PrincipalHit (st : Stmt) (who : Bytes) : Prop := starLit ∈ st.principals ∨ who ∈ st.principals

def ActionHit (st : Stmt) (act : Bytes) : Prop :=
  allActions ∈ st.actions ∨ act ∈ st.actions ∨ ∃ a ∈ st.actions, EndsInStar a ∧ a.dropLast <+: act

def ResourceHit (st : Stmt) (res : Bytes) : Prop := ∃ r ∈ st.resources, G r res = true

def Hit (st : Stmt) (who act res : Bytes) : Prop :=
  PrincipalHit st who ∧ ActionHit st act ∧ ResourceHit st res

/-- deny overrides; default deny -/
def Allows (pol : Policy) (who act res : Bytes) : Prop :=
  (∃ st ∈ pol, st.effect = allowLit ∧ Hit st who act res) ∧
  ¬ (∃ st ∈ pol, st.effect = denyLit ∧ Hit st who act res)

instance (a : Bytes) : Decidable (EndsInStar a) := by unfold EndsInStar; infer_instance
instance (a b : Bytes) : Decidable (Covers a b) := by unfold Covers; infer_instance
instance (st : Stmt) (who : Bytes) : Decidable (PrincipalHit st who) := by
  unfold PrincipalHit; infer_instance
instance (st : Stmt) (act : Bytes) : Decidable (ActionHit st act) := by
  unfold ActionHit; infer_instance
instance (st : Stmt) (res : Bytes) : Decidable (ResourceHit st res) := by
  unfold ResourceHit; infer_instance
instance (st : Stmt) (who act res : Bytes) : Decidable (Hit st who act res) := by
  unfold Hit; infer_instance
instance (pol : Policy) (who act res : Bytes) : Decidable (Allows pol who act res) := by
  unfold Allows; infer_instance

/-- executable oracles -/
def principalHitB (ps : List Bytes) (who : Bytes) : Bool := decide (PrincipalHit ⟨[], ps, [], []⟩ who)
def actionHitB (acts : List Bytes) (act : Bytes) : Bool := decide (ActionHit ⟨[], [], acts, []⟩ act)
def resourceHitB (rs : List Bytes) (res : Bytes) : Bool := decide (ResourceHit ⟨[], [], [], rs⟩ res)
def allowsB (pol : Policy) (who act res : Bytes) : Bool := decide (Allows pol who act res)

/-- the resource a request for (bucket, object) is about: the bucket itself, or `bucket/object` -/
def requestResource (bucket object : Bytes) : Bytes :=
  match object with
  | [] => bucket
  | _ :: _ => bucket ++ 47 :: object

/-! ### well-formedness -/

inductive Mode where
  | strict | lenient
  deriving Repr, DecidableEq

/-- the action names a policy may use (the gateway's documented list), without `s3:*` -/
def supported : List Bytes := [
    [115, 51, 58, 71, 101, 116, 66, 117, 99, 107, 101, 116, 65, 99, 108],  -- s3:GetBucketAcl
    [115, 51, 58, 67, 114, 101, 97, 116, 101, 66, 117, 99, 107, 101, 116],  -- s3:CreateBucket
    [115, 51, 58, 80, 117, 116, 66, 117, 99, 107, 101, 116, 65, 99, 108],  -- s3:PutBucketAcl
    [115, 51, 58, 68, 101, 108, 101, 116, 101, 66, 117, 99, 107, 101, 116],  -- s3:DeleteBucket
    [115, 51, 58, 80, 117, 116, 66, 117, 99, 107, 101, 116, 86, 101, 114, 115, 105, 111, 110, 105, 110, 103],  -- s3:PutBucketVersioning
    [115, 51, 58, 71, 101, 116, 66, 117, 99, 107, 101, 116, 86, 101, 114, 115, 105, 111, 110, 105, 110, 103],  -- s3:GetBucketVersioning
    [115, 51, 58, 80, 117, 116, 66, 117, 99, 107, 101, 116, 80, 111, 108, 105, 99, 121],  -- s3:PutBucketPolicy
    [115, 51, 58, 71, 101, 116, 66, 117, 99, 107, 101, 116, 80, 111, 108, 105, 99, 121],  -- s3:GetBucketPolicy
    [115, 51, 58, 68, 101, 108, 101, 116, 101, 66, 117, 99, 107, 101, 116, 80, 111, 108, 105, 99, 121],  -- s3:DeleteBucketPolicy
    [115, 51, 58, 65, 98, 111, 114, 116, 77, 117, 108, 116, 105, 112, 97, 114, 116, 85, 112, 108, 111, 97, 100],  -- s3:AbortMultipartUpload
    [115, 51, 58, 76, 105, 115, 116, 77, 117, 108, 116, 105, 112, 97, 114, 116, 85, 112, 108, 111, 97, 100, 80, 97, 114, 116, 115],  -- s3:ListMultipartUploadParts
    [115, 51, 58, 76, 105, 115, 116, 66, 117, 99, 107, 101, 116, 77, 117, 108, 116, 105, 112, 97, 114, 116, 85, 112, 108, 111, 97, 100, 115],  -- s3:ListBucketMultipartUploads
    [115, 51, 58, 80, 117, 116, 79, 98, 106, 101, 99, 116],  -- s3:PutObject
    [115, 51, 58, 71, 101, 116, 79, 98, 106, 101, 99, 116],  -- s3:GetObject
    [115, 51, 58, 71, 101, 116, 79, 98, 106, 101, 99, 116, 86, 101, 114, 115, 105, 111, 110],  -- s3:GetObjectVersion
    [115, 51, 58, 68, 101, 108, 101, 116, 101, 79, 98, 106, 101, 99, 116],  -- s3:DeleteObject
    [115, 51, 58, 71, 101, 116, 79, 98, 106, 101, 99, 116, 65, 99, 108],  -- s3:GetObjectAcl
    [115, 51, 58, 71, 101, 116, 79, 98, 106, 101, 99, 116, 65, 116, 116, 114, 105, 98, 117, 116, 101, 115],  -- s3:GetObjectAttributes
    [115, 51, 58, 80, 117, 116, 79, 98, 106, 101, 99, 116, 65, 99, 108],  -- s3:PutObjectAcl
    [115, 51, 58, 82, 101, 115, 116, 111, 114, 101, 79, 98, 106, 101, 99, 116],  -- s3:RestoreObject
    [115, 51, 58, 71, 101, 116, 66, 117, 99, 107, 101, 116, 84, 97, 103, 103, 105, 110, 103],  -- s3:GetBucketTagging
    [115, 51, 58, 80, 117, 116, 66, 117, 99, 107, 101, 116, 84, 97, 103, 103, 105, 110, 103],  -- s3:PutBucketTagging
    [115, 51, 58, 71, 101, 116, 79, 98, 106, 101, 99, 116, 84, 97, 103, 103, 105, 110, 103],  -- s3:GetObjectTagging
    [115, 51, 58, 80, 117, 116, 79, 98, 106, 101, 99, 116, 84, 97, 103, 103, 105, 110, 103],  -- s3:PutObjectTagging
    [115, 51, 58, 68, 101, 108, 101, 116, 101, 79, 98, 106, 101, 99, 116, 84, 97, 103, 103, 105, 110, 103],  -- s3:DeleteObjectTagging
    [115, 51, 58, 76, 105, 115, 116, 66, 117, 99, 107, 101, 116, 86, 101, 114, 115, 105, 111, 110, 115],  -- s3:ListBucketVersions
    [115, 51, 58, 76, 105, 115, 116, 66, 117, 99, 107, 101, 116],  -- s3:ListBucket
    [115, 51, 58, 80, 117, 116, 66, 117, 99, 107, 101, 116, 79, 98, 106, 101, 99, 116, 76, 111, 99, 107, 67, 111, 110, 102, 105, 103, 117, 114, 97, 116, 105, 111, 110],  -- s3:PutBucketObjectLockConfiguration
    [115, 51, 58, 71, 101, 116, 79, 98, 106, 101, 99, 116, 76, 101, 103, 97, 108, 72, 111, 108, 100],  -- s3:GetObjectLegalHold
    [115, 51, 58, 80, 117, 116, 79, 98, 106, 101, 99, 116, 76, 101, 103, 97, 108, 72, 111, 108, 100],  -- s3:PutObjectLegalHold
    [115, 51, 58, 71, 101, 116, 79, 98, 106, 101, 99, 116, 82, 101, 116, 101, 110, 116, 105, 111, 110],  -- s3:GetObjectRetention
    [115, 51, 58, 80, 117, 116, 79, 98, 106, 101, 99, 116, 82, 101, 116, 101, 110, 116, 105, 111, 110],  -- s3:PutObjectRetention
    [115, 51, 58, 66, 121, 112, 97, 115, 115, 71, 111, 118, 101, 114, 110, 97, 110, 99, 101, 82, 101, 116, 101, 110, 116, 105, 111, 110],  -- s3:BypassGovernanceRetention
    [115, 51, 58, 80, 117, 116, 66, 117, 99, 107, 101, 116, 79, 119, 110, 101, 114, 115, 104, 105, 112, 67, 111, 110, 116, 114, 111, 108, 115],  -- s3:PutBucketOwnershipControls
    [115, 51, 58, 71, 101, 116, 66, 117, 99, 107, 101, 116, 79, 119, 110, 101, 114, 115, 104, 105, 112, 67, 111, 110, 116, 114, 111, 108, 115],  -- s3:GetBucketOwnershipControls
    [115, 51, 58, 80, 117, 116, 66, 117, 99, 107, 101, 116, 67, 79, 82, 83],  -- s3:PutBucketCORS
    [115, 51, 58, 71, 101, 116, 66, 117, 99, 107, 101, 116, 67, 79, 82, 83]  -- s3:GetBucketCORS
  ]

/-- those of them that act on objects; the others act on the bucket -/
def objectNames : List Bytes := [
    [115, 51, 58, 65, 98, 111, 114, 116, 77, 117, 108, 116, 105, 112, 97, 114, 116, 85, 112, 108, 111, 97, 100],  -- s3:AbortMultipartUpload
    [115, 51, 58, 76, 105, 115, 116, 77, 117, 108, 116, 105, 112, 97, 114, 116, 85, 112, 108, 111, 97, 100, 80, 97, 114, 116, 115],  -- s3:ListMultipartUploadParts
    [115, 51, 58, 80, 117, 116, 79, 98, 106, 101, 99, 116],  -- s3:PutObject
    [115, 51, 58, 71, 101, 116, 79, 98, 106, 101, 99, 116],  -- s3:GetObject
    [115, 51, 58, 71, 101, 116, 79, 98, 106, 101, 99, 116, 86, 101, 114, 115, 105, 111, 110],  -- s3:GetObjectVersion
    [115, 51, 58, 68, 101, 108, 101, 116, 101, 79, 98, 106, 101, 99, 116],  -- s3:DeleteObject
    [115, 51, 58, 71, 101, 116, 79, 98, 106, 101, 99, 116, 65, 99, 108],  -- s3:GetObjectAcl
    [115, 51, 58, 71, 101, 116, 79, 98, 106, 101, 99, 116, 65, 116, 116, 114, 105, 98, 117, 116, 101, 115],  -- s3:GetObjectAttributes
    [115, 51, 58, 80, 117, 116, 79, 98, 106, 101, 99, 116, 65, 99, 108],  -- s3:PutObjectAcl
    [115, 51, 58, 82, 101, 115, 116, 111, 114, 101, 79, 98, 106, 101, 99, 116],  -- s3:RestoreObject
    [115, 51, 58, 71, 101, 116, 79, 98, 106, 101, 99, 116, 84, 97, 103, 103, 105, 110, 103],  -- s3:GetObjectTagging
    [115, 51, 58, 80, 117, 116, 79, 98, 106, 101, 99, 116, 84, 97, 103, 103, 105, 110, 103],  -- s3:PutObjectTagging
    [115, 51, 58, 68, 101, 108, 101, 116, 101, 79, 98, 106, 101, 99, 116, 84, 97, 103, 103, 105, 110, 103],  -- s3:DeleteObjectTagging
    [115, 51, 58, 71, 101, 116, 79, 98, 106, 101, 99, 116, 76, 101, 103, 97, 108, 72, 111, 108, 100],  -- s3:GetObjectLegalHold
    [115, 51, 58, 80, 117, 116, 79, 98, 106, 101, 99, 116, 76, 101, 103, 97, 108, 72, 111, 108, 100],  -- s3:PutObjectLegalHold
    [115, 51, 58, 71, 101, 116, 79, 98, 106, 101, 99, 116, 82, 101, 116, 101, 110, 116, 105, 111, 110],  -- s3:GetObjectRetention
    [115, 51, 58, 80, 117, 116, 79, 98, 106, 101, 99, 116, 82, 101, 116, 101, 110, 116, 105, 111, 110],  -- s3:PutObjectRetention
    [115, 51, 58, 66, 121, 112, 97, 115, 115, 71, 111, 118, 101, 114, 110, 97, 110, 99, 101, 82, 101, 116, 101, 110, 116, 105, 111, 110]  -- s3:BypassGovernanceRetention
  ]

def bucketNames : List Bytes := supported.filter (· ∉ objectNames)

/-- `s3:GetBucketObjectLockConfiguration` -/
def getBucketOLC : Bytes :=
  [115, 51, 58, 71, 101, 116, 66, 117, 99, 107, 101, 116, 79, 98, 106, 101, 99, 116, 76, 111, 99, 107, 67,
   111, 110, 102, 105, 103, 117, 114, 97, 116, 105, 111, 110]
/-- `s3:**` -/
def doubleStar : Bytes := [115, 51, 58, 42, 42]

def namesOf : Mode → List Bytes
  | .strict => supported
  | .lenient => supported ++ [getBucketOLC]

def bucketNamesOf : Mode → List Bytes
  | .strict => bucketNames
  | .lenient => bucketNames ++ [getBucketOLC]

/-- `s3:*`, a supported action, or `pre*` with `s3:` ≤ `pre*` and `pre` ≤ a supported action -/
def ActionOK (m : Mode) (a : Bytes) : Prop :=
  a = allActions ∨ a ∈ namesOf m ∨
  (EndsInStar a ∧ s3Prefix <+: a ∧ ∃ b ∈ namesOf m, a.dropLast <+: b) ∨
  (m = .lenient ∧ a = doubleStar)

def IsBucketRes (bucket r : Bytes) : Prop := r = arnPrefix ++ bucket
def IsObjectRes (bucket r : Bytes) : Prop := (arnPrefix ++ bucket ++ [47]) <+: r
/-- the resource's bucket component is exactly `bucket` -/
def InBucket (bucket r : Bytes) : Prop := IsBucketRes bucket r ∨ IsObjectRes bucket r

def ObjHit (a : Bytes) : Prop := ∃ b ∈ objectNames, Covers a b
def BktHit (m : Mode) (a : Bytes) : Prop := ∃ b ∈ bucketNamesOf m, Covers a b

/-- every action has a resource of its kind -/
def KindOK (m : Mode) (bucket : Bytes) (rs : List Bytes) (a : Bytes) : Prop :=
  a = allActions ∨
  match m with
  | .strict => (ObjHit a → ∃ r ∈ rs, IsObjectRes bucket r) ∧ (BktHit .strict a → ∃ r ∈ rs, IsBucketRes bucket r)
  | .lenient => (ObjHit a ∧ ∃ r ∈ rs, IsObjectRes bucket r) ∨ (BktHit .lenient a ∧ ∃ r ∈ rs, IsBucketRes bucket r) ∨
                a = doubleStar

/-- `*` alone, or existing accounts only -/
def PrincipalsOK (acct : Bytes → Bool) (ps : List Bytes) : Prop :=
  (∀ x ∈ ps, x = starLit) ∨ (∀ x ∈ ps, x ≠ starLit ∧ acct x = true)

/-- the members of a present, non-empty string-or-array field -/
def members : Field → Option (List Bytes)
  | .str s => some [s]
  | .arr (x :: l) => some (x :: l)
  | _ => none

def StmtWF (m : Mode) (bucket : Bytes) (acct : Bytes → Bool) (st : RawStmt) : Prop :=
  (st.effect = .str allowLit ∨ st.effect = .str denyLit) ∧
  match members st.principal, members st.action, members st.resource with
  | some ps, some acts, some rs =>
      PrincipalsOK acct ps ∧ (∀ a ∈ acts, ActionOK m a) ∧ (∀ r ∈ rs, InBucket bucket r) ∧
      (∀ a ∈ acts, KindOK m bucket rs a)
  | _, _, _ => False

def WellFormed (m : Mode) (bucket : Bytes) (acct : Bytes → Bool) : RawDoc → Prop
  | .stmts (x :: l) => ∀ st ∈ x :: l, StmtWF m bucket acct st
  | _ => False

instance (m : Mode) (a : Bytes) : Decidable (ActionOK m a) := by unfold ActionOK; infer_instance
instance (b r : Bytes) : Decidable (IsBucketRes b r) := by unfold IsBucketRes; infer_instance
instance (b r : Bytes) : Decidable (IsObjectRes b r) := by unfold IsObjectRes; infer_instance
instance (b r : Bytes) : Decidable (InBucket b r) := by unfold InBucket; infer_instance
instance (a : Bytes) : Decidable (ObjHit a) := by unfold ObjHit; infer_instance
instance (m : Mode) (a : Bytes) : Decidable (BktHit m a) := by unfold BktHit; infer_instance
instance (m : Mode) (b : Bytes) (rs : List Bytes) (a : Bytes) : Decidable (KindOK m b rs a) := by
  unfold KindOK; cases m <;> infer_instance
instance (acct : Bytes → Bool) (ps : List Bytes) : Decidable (PrincipalsOK acct ps) := by
  unfold PrincipalsOK; infer_instance
instance (m : Mode) (b : Bytes) (acct : Bytes → Bool) (st : RawStmt) : Decidable (StmtWF m b acct st) := by
  unfold StmtWF; split <;> infer_instance
instance (m : Mode) (b : Bytes) (acct : Bytes → Bool) (d : RawDoc) : Decidable (WellFormed m b acct d) := by
  unfold WellFormed; split <;> infer_instance

/-- what the property prescribes for a put of `doc` -/
inductive Verdict where
  | accept | refuse | grey
  deriving Repr, DecidableEq

def verdict (bucket : Bytes) (acct : Bytes → Bool) (doc : RawDoc) : Verdict :=
  if WellFormed .strict bucket acct doc then .accept
  else if WellFormed .lenient bucket acct doc then .grey
  else .refuse

end Vgw.Spec.Policy
