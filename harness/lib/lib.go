// Package lib: shared plumbing of the correspondence harness — seeded PRNG, the pipe to the Lean
// driver, result records.
package lib

import (
	"bufio"
	"crypto/sha256"
	"encoding/hex"
	"encoding/json"
	"fmt"
	"io"
	"os"
	"os/exec"
	"sort"
	"strings"
	"sync"
)

// ---------------------------------------------------------------- PRNG (splitmix64; one state)

type Rand struct{ s uint64 }

// NewRand: the seed is mixed (splitmix64 finaliser) so that neighbouring seeds give unrelated
// streams (a plain multiple of the increment would make seed+1 the same stream shifted by one).
func NewRand(seed int64) *Rand {
	z := uint64(seed) + 0x632BE59BD9B4E019
	z = (z ^ (z >> 30)) * 0xBF58476D1CE4E5B9
	z = (z ^ (z >> 27)) * 0x94D049BB133111EB
	return &Rand{s: z ^ (z >> 31)}
}

// NewRandStream derives the PRNG of sub-check `stream` from the run seed; different (seed, stream)
// pairs never share a state, whatever their sums are.
func NewRandStream(seed int64, stream int64) *Rand {
	a := NewRand(seed).U64()
	b := NewRand(stream ^ 0x5bd1e995).U64()
	return &Rand{s: a ^ (b<<1 | b>>63)}
}

func (r *Rand) U64() uint64 {
	r.s += 0x9E3779B97F4A7C15
	z := r.s
	z = (z ^ (z >> 30)) * 0xBF58476D1CE4E5B9
	z = (z ^ (z >> 27)) * 0x94D049BB133111EB
	return z ^ (z >> 31)
}
func (r *Rand) Intn(n int) int {
	if n <= 0 {
		return 0
	}
	return int(r.U64() % uint64(n))
}
func (r *Rand) Bool() bool              { return r.U64()&1 == 1 }
func (r *Rand) Chance(p int) bool       { return r.Intn(100) < p }
func (r *Rand) Pick(xs []string) string { return xs[r.Intn(len(xs))] }
func (r *Rand) Bytes(n int) []byte {
	b := make([]byte, n)
	for i := range b {
		b[i] = byte(r.U64())
	}
	return b
}
func (r *Rand) Fork() *Rand { return &Rand{s: r.U64()} }

// Clone returns an independent copy at the same position of the stream.
func (r *Rand) Clone() *Rand { return &Rand{s: r.s} }

// ---------------------------------------------------------------- hex args of the line protocol

func Hex(b []byte) string {
	if len(b) == 0 {
		return "-"
	}
	return hex.EncodeToString(b)
}
func HexS(s string) string { return Hex([]byte(s)) }

// ---------------------------------------------------------------- Lean driver

// Driver runs the compiled Lean model driver; Ask sends lines and returns one answer per line.
type Driver struct {
	Path string
}

func (d *Driver) Ask(lines []string) ([]string, error) {
	if len(lines) == 0 {
		return nil, nil
	}
	cmd := exec.Command(d.Path)
	stdin, err := cmd.StdinPipe()
	if err != nil {
		return nil, err
	}
	stdout, err := cmd.StdoutPipe()
	if err != nil {
		return nil, err
	}
	cmd.Stderr = os.Stderr
	if err := cmd.Start(); err != nil {
		return nil, err
	}
	var wg sync.WaitGroup
	wg.Add(1)
	go func() {
		defer wg.Done()
		w := bufio.NewWriterSize(stdin, 1<<20)
		for _, l := range lines {
			w.WriteString(l)
			w.WriteByte('\n')
		}
		w.Flush()
		stdin.Close()
	}()
	out := make([]string, 0, len(lines))
	sc := bufio.NewScanner(stdout)
	sc.Buffer(make([]byte, 1<<20), 1<<28)
	for sc.Scan() {
		out = append(out, sc.Text())
	}
	wg.Wait()
	io.Copy(io.Discard, stdout)
	if err := cmd.Wait(); err != nil {
		return out, fmt.Errorf("lean driver: %w", err)
	}
	if len(out) != len(lines) {
		return out, fmt.Errorf("lean driver answered %d lines for %d requests", len(out), len(lines))
	}
	return out, nil
}

// AskParallel splits the lines over n driver processes.
func (d *Driver) AskParallel(lines []string, n int) ([]string, error) {
	if n <= 1 || len(lines) < 2000 {
		return d.Ask(lines)
	}
	out := make([]string, len(lines))
	errs := make([]error, n)
	var wg sync.WaitGroup
	per := (len(lines) + n - 1) / n
	for i := 0; i < n; i++ {
		lo, hi := i*per, (i+1)*per
		if lo >= len(lines) {
			break
		}
		if hi > len(lines) {
			hi = len(lines)
		}
		wg.Add(1)
		go func(i, lo, hi int) {
			defer wg.Done()
			res, err := d.Ask(lines[lo:hi])
			errs[i] = err
			copy(out[lo:hi], res)
		}(i, lo, hi)
	}
	wg.Wait()
	for _, e := range errs {
		if e != nil {
			return out, e
		}
	}
	return out, nil
}

// ---------------------------------------------------------------- results

// Failure is one input on which the IMPLEMENTATION's observation violates the property oracle
// (Kind "property"), or on which model and implementation disagree while the oracle still
// accepts the implementation (Kind "correspondence").
type Failure struct {
	Kind      string      `json:"kind"`
	Signature string      `json:"signature"` // input class / call site, matched against known_findings.json
	What      string      `json:"what"`
	Input     interface{} `json:"input"`
	Impl      string      `json:"impl"`
	Model     string      `json:"model"`
}

type Result struct {
	Property           string         `json:"property"`
	Check              string         `json:"check"`
	Evaluations        int            `json:"evaluations"`
	DistinctNontrivial int            `json:"distinct_nontrivial"`
	Rule               string         `json:"rule"`
	Samples            []interface{}  `json:"samples"`
	Histogram          map[string]int `json:"histogram"`
	Exhaustive         bool           `json:"exhaustive"`
	Failures           []Failure      `json:"failures"`
	EnvFault           string         `json:"env_fault,omitempty"` // the machine refused storage (ENOSPC) to a gateway during the run
	Notes              []string       `json:"notes,omitempty"`

	distinct map[[8]byte]struct{}
	mu       sync.Mutex
}

func NewResult(prop, check, rule string) *Result {
	return &Result{Property: prop, Check: check, Rule: rule, Histogram: map[string]int{},
		distinct: map[[8]byte]struct{}{}, Failures: []Failure{}, Samples: []interface{}{}}
}

// Count records one evaluation; canonical is the canonical text of the input, nontrivial says
// whether it is non-trivial by the check's rule; classes are histogram buckets.
func (r *Result) Count(canonical string, nontrivial bool, classes ...string) {
	r.mu.Lock()
	defer r.mu.Unlock()
	r.Evaluations++
	for _, c := range classes {
		r.Histogram[c]++
	}
	if nontrivial {
		h := sha256.Sum256([]byte(canonical))
		var k [8]byte
		copy(k[:], h[:8])
		r.distinct[k] = struct{}{}
	}
}
func (r *Result) Sample(s interface{}) {
	r.mu.Lock()
	defer r.mu.Unlock()
	if len(r.Samples) < 8 {
		r.Samples = append(r.Samples, s)
	}
}
func (r *Result) Fail(f Failure) {
	r.mu.Lock()
	defer r.mu.Unlock()
	// keep at most 5 witnesses per (kind, signature)
	n := 0
	for _, g := range r.Failures {
		if g.Kind == f.Kind && g.Signature == f.Signature {
			n++
		}
	}
	r.Histogram["fail:"+f.Kind+":"+f.Signature]++
	if n < 5 {
		r.Failures = append(r.Failures, f)
	}
}
func (r *Result) Note(format string, a ...interface{}) {
	r.mu.Lock()
	defer r.mu.Unlock()
	r.Notes = append(r.Notes, fmt.Sprintf(format, a...))
}
func (r *Result) Merge(o *Result) {
	r.Evaluations += o.Evaluations
	for k, v := range o.Histogram {
		r.Histogram[k] += v
	}
	for k := range o.distinct {
		r.distinct[k] = struct{}{}
	}
	for _, s := range o.Samples {
		r.Sample(s)
	}
	r.Failures = append(r.Failures, o.Failures...)
	r.Notes = append(r.Notes, o.Notes...)
}
func (r *Result) Write(path string) error {
	r.DistinctNontrivial = len(r.distinct)
	sort.SliceStable(r.Failures, func(i, j int) bool {
		if r.Failures[i].Kind != r.Failures[j].Kind {
			return r.Failures[i].Kind > r.Failures[j].Kind // "property" first
		}
		return r.Failures[i].Signature < r.Failures[j].Signature
	})
	b, err := json.MarshalIndent(r, "", " ")
	if err != nil {
		return err
	}
	return os.WriteFile(path, b, 0o644)
}

// Args common to all sub-checks.
type Args struct {
	Tier   string
	Seed   int64
	Driver *Driver
	Out    string
	Replay string
	Work   string // scratch directory (removed by the caller)
	GwBin  string // path of the versitygw binary built from /repo
}

func (a Args) Thorough() bool { return strings.EqualFold(a.Tier, "thorough") }

// ReplayInput returns the "input" object of the failure stored in a replay file, or nil.
func (a Args) ReplayInput() map[string]interface{} {
	if a.Replay == "" {
		return nil
	}
	b, err := os.ReadFile(a.Replay)
	if err != nil {
		return nil
	}
	var doc struct {
		Failure struct {
			Input map[string]interface{} `json:"input"`
		} `json:"failure"`
	}
	if json.Unmarshal(b, &doc) != nil {
		return nil
	}
	return doc.Failure.Input
}

// Shuffle: Fisher–Yates driven by this stream.
func (r *Rand) Shuffle(n int, swap func(i, j int)) {
	for i := n - 1; i > 0; i-- {
		swap(i, r.Intn(i+1))
	}
}
