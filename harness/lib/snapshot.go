package lib

import (
	"crypto/sha256"
	"encoding/hex"
	"fmt"
	"io/fs"
	"os"
	"path/filepath"
	"sort"
	"strings"

	"github.com/pkg/xattr"
)

// Snapshot is a byte-exact picture of directory trees: every path with its type, permission
// bits, content hash and extended attributes (mtime/atime are deliberately left out).
type Snapshot map[string]string

func TakeSnapshot(dirs ...string) Snapshot {
	s := Snapshot{}
	for _, root := range dirs {
		if root == "" {
			continue
		}
		filepath.WalkDir(root, func(p string, d fs.DirEntry, err error) error {
			if err != nil {
				return nil
			}
			rel := p
			var desc strings.Builder
			info, err := d.Info()
			if err != nil {
				return nil
			}
			fmt.Fprintf(&desc, "%s %o", info.Mode().Type().String(), info.Mode().Perm())
			if info.Mode().IsRegular() {
				b, _ := os.ReadFile(p)
				h := sha256.Sum256(b)
				fmt.Fprintf(&desc, " %d %s", len(b), hex.EncodeToString(h[:8]))
			}
			if names, err := xattr.LList(p); err == nil {
				sort.Strings(names)
				for _, n := range names {
					v, _ := xattr.LGet(p, n)
					h := sha256.Sum256(v)
					fmt.Fprintf(&desc, " %s=%s", n, hex.EncodeToString(h[:6]))
				}
			}
			s[rel] = desc.String()
			return nil
		})
	}
	return s
}

// Diff lists the paths that were added, removed or changed between two snapshots.
func (a Snapshot) Diff(b Snapshot) []string {
	var out []string
	for p, d := range a {
		if e, ok := b[p]; !ok {
			out = append(out, "removed "+p)
		} else if e != d {
			out = append(out, "changed "+p+": "+d+" -> "+e)
		}
	}
	for p := range b {
		if _, ok := a[p]; !ok {
			out = append(out, "added "+p+": "+b[p])
		}
	}
	sort.Strings(out)
	return out
}
