package gw

import (
	"crypto/sha1"
	"crypto/sha256"
	"encoding/base64"
	"encoding/binary"
	"hash/crc32"
	"hash/crc64"
)

// ChecksumB64 computes the base64 S3 checksum of data for the given algorithm name.
func ChecksumB64(algo string, data []byte) string {
	switch algo {
	case "crc32":
		var b [4]byte
		binary.BigEndian.PutUint32(b[:], crc32.ChecksumIEEE(data))
		return base64.StdEncoding.EncodeToString(b[:])
	case "crc32c":
		var b [4]byte
		binary.BigEndian.PutUint32(b[:], crc32.Checksum(data, crc32.MakeTable(crc32.Castagnoli)))
		return base64.StdEncoding.EncodeToString(b[:])
	case "sha1":
		s := sha1.Sum(data)
		return base64.StdEncoding.EncodeToString(s[:])
	case "sha256":
		s := sha256.Sum256(data)
		return base64.StdEncoding.EncodeToString(s[:])
	case "crc64nvme":
		var b [8]byte
		binary.BigEndian.PutUint64(b[:], crc64.Checksum(data, crc64.MakeTable(0x9a6c9329ac4bc9b5)))
		return base64.StdEncoding.EncodeToString(b[:])
	}
	return ""
}
