package gw

import (
	"bufio"
	"bytes"
	"crypto/tls"
	"fmt"
	"io"
	"net"
	"net/http"
	"time"
)

// DoTLS is Do over TLS (certificate not verified): the same raw, hand-signed request written to a
// fresh connection. Used to talk to a gateway started with --cert/--key.
func DoTLS(addr string, r Req) Resp {
	if r.Region == "" {
		r.Region = "us-east-1"
	}
	wire := r.prepare(addr)
	applyDefect(&r, &wire)
	var b bytes.Buffer
	target := r.Path
	if r.Query != "" {
		target += "?" + r.Query
	}
	fmt.Fprintf(&b, "%s %s HTTP/1.1\r\nHost: %s\r\n", r.Method, target, addr)
	for _, h := range r.Headers {
		fmt.Fprintf(&b, "%s: %s\r\n", h.K, h.V)
	}
	if !r.NoContLen && r.Get("Content-Length") == "" && (len(wire) > 0 || r.Method == "PUT" || r.Method == "POST") {
		fmt.Fprintf(&b, "Content-Length: %d\r\n", len(wire))
	}
	b.WriteString("Connection: close\r\n\r\n")
	b.Write(wire)
	to := r.Timeout
	if to == 0 {
		to = 20 * time.Second
	}
	conn, err := tls.DialWithDialer(&net.Dialer{Timeout: 2 * time.Second}, "tcp", addr, &tls.Config{InsecureSkipVerify: true})
	if err != nil {
		return Resp{Err: err}
	}
	defer conn.Close()
	conn.SetDeadline(time.Now().Add(to))
	conn.Write(b.Bytes())
	resp, err := http.ReadResponse(bufio.NewReader(conn), &http.Request{Method: r.Method})
	if err != nil {
		return Resp{Err: err}
	}
	defer resp.Body.Close()
	body, err := io.ReadAll(resp.Body)
	if err != nil {
		return Resp{Status: resp.StatusCode, Headers: resp.Header, Body: body, Err: err}
	}
	return Resp{Status: resp.StatusCode, Headers: resp.Header, Body: body}
}
