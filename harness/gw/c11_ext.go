package gw

import "bytes"

// Argv is the command line (without the binary) Start would use for this configuration on the
// given ports. The C11 crash check launches the gateway under its own ptrace tracer and needs the
// same flags as every other check.
func (c Config) Argv(port, adminPort int) []string { return c.args(port, adminPort) }

// StartOn launches a gateway on ports chosen by the caller. Start picks free ports from the kernel's
// ephemeral range and releases them before the gateway binds; a check that starts thousands of
// gateways from several goroutines, next to other checks doing the same, then now and again reaches
// a foreign gateway through the port it believed to be its own. The C11 check allocates its ports
// below the ephemeral range instead.
func StartOn(cfg Config, port, adminPort int) (*Gateway, error) {
	g := &Gateway{Cfg: cfg, Port: port, AdminPort: adminPort, Log: &bytes.Buffer{}}
	err := g.launch()
	return g, err
}
