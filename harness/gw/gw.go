// Package gw launches real versitygw processes (the binary built from /repo's working tree) on
// scratch storage and talks to them with raw, hand-signed HTTP requests.
package gw

import (
	"bytes"
	"fmt"
	"io"
	"net"
	"os"
	"os/exec"
	"path/filepath"
	"strconv"
	"strings"
	"sync/atomic"
	"syscall"
	"time"
)

type Config struct {
	Bin           string
	Work          string // parent of all directories of this gateway set
	Root          string // storage root (shared between processes of one set)
	IAMDir        string
	VersioningDir string // "" = off
	Sidecar       string // "" = xattr
	NoOTmp        bool
	Readonly      bool
	EventURL      string
	EventFilter   string
	Region        string
	Access        string
	Secret        string
	IAMCacheOff   bool
	IAMCacheTTL   int
	ExtraArgs     []string // before the backend sub-command
	BackendArgs   []string // s3 proxy etc.: full backend sub-command, replaces posix
	Strace        []string // when set: run under `strace <args…> --`
	Env           []string
}

type Gateway struct {
	Cfg       Config
	Port      int
	AdminPort int
	cmd       *exec.Cmd
	Log       *bytes.Buffer
	exited    chan struct{}
	ExitErr   error
}

func FreePort() int {
	l, err := net.Listen("tcp", "127.0.0.1:0")
	if err != nil {
		panic(err)
	}
	defer l.Close()
	return l.Addr().(*net.TCPAddr).Port
}

// NewStorage creates the directories of a gateway set below work and fills in cfg.
func NewStorage(cfg Config, versioning, sidecar bool) (Config, error) {
	if cfg.Region == "" {
		cfg.Region = "us-east-1"
	}
	if cfg.Access == "" {
		cfg.Access, cfg.Secret = "rootaccess", "rootsecretkey"
	}
	cfg.Root = filepath.Join(cfg.Work, "root")
	cfg.IAMDir = filepath.Join(cfg.Work, "iam")
	dirs := []string{cfg.Root, cfg.IAMDir}
	if versioning {
		cfg.VersioningDir = filepath.Join(cfg.Work, "versions")
		dirs = append(dirs, cfg.VersioningDir)
	}
	if sidecar {
		cfg.Sidecar = filepath.Join(cfg.Work, "sidecar")
		dirs = append(dirs, cfg.Sidecar)
	}
	for _, d := range dirs {
		if err := os.MkdirAll(d, 0o755); err != nil {
			return cfg, err
		}
	}
	return cfg, nil
}

func (c Config) args(port, adminPort int) []string {
	a := []string{"--port", "127.0.0.1:" + strconv.Itoa(port), "--admin-port", "127.0.0.1:" + strconv.Itoa(adminPort),
		"--access", c.Access, "--secret", c.Secret, "--region", c.Region, "--iam-dir", c.IAMDir, "--quiet"}
	if c.Readonly {
		a = append(a, "--readonly")
	}
	if c.EventURL != "" {
		a = append(a, "--event-webhook-url", c.EventURL)
	}
	if c.EventFilter != "" {
		a = append(a, "--event-filter", c.EventFilter)
	}
	if c.IAMCacheOff {
		a = append(a, "--iam-cache-disable")
	}
	if c.IAMCacheTTL > 0 {
		a = append(a, "--iam-cache-ttl", strconv.Itoa(c.IAMCacheTTL))
	}
	a = append(a, c.ExtraArgs...)
	if len(c.BackendArgs) > 0 {
		return append(a, c.BackendArgs...)
	}
	a = append(a, "posix")
	if c.VersioningDir != "" {
		a = append(a, "--versioning-dir", c.VersioningDir)
	}
	if c.Sidecar != "" {
		a = append(a, "--sidecar", c.Sidecar)
	}
	if c.NoOTmp {
		a = append(a, "--disableotmp")
	}
	return append(a, c.Root)
}

// Start launches one gateway process on cfg's storage and waits until it accepts connections.
func Start(cfg Config) (*Gateway, error) {
	var g *Gateway
	var err error
	// the ports are picked before the gateway binds them: retry when somebody else took one
	for try := 0; try < 6; try++ {
		g = &Gateway{Cfg: cfg, Port: FreePort(), AdminPort: FreePort(), Log: &bytes.Buffer{}}
		err = g.launch()
		if err == nil || !strings.Contains(err.Error(), "address already in use") {
			return g, err
		}
	}
	return g, err
}

func (g *Gateway) launch() error {
	args := g.Cfg.args(g.Port, g.AdminPort)
	var cmd *exec.Cmd
	if len(g.Cfg.Strace) > 0 {
		sa := append(append([]string{}, g.Cfg.Strace...), "--", g.Cfg.Bin)
		cmd = exec.Command("strace", append(sa, args...)...)
	} else {
		cmd = exec.Command(g.Cfg.Bin, args...)
	}
	cmd.Env = append(os.Environ(), g.Cfg.Env...)
	cmd.Stdout = envTee{g.Log}
	cmd.Stderr = envTee{g.Log}
	cmd.Dir = g.Cfg.Work
	cmd.SysProcAttr = &syscall.SysProcAttr{Setpgid: true, Pdeathsig: syscall.SIGKILL}
	if err := cmd.Start(); err != nil {
		return err
	}
	g.cmd = cmd
	g.exited = make(chan struct{})
	go func(c *exec.Cmd, ch chan struct{}) {
		g.ExitErr = c.Wait()
		close(ch)
	}(cmd, g.exited)
	deadline := time.Now().Add(15 * time.Second)
	for time.Now().Before(deadline) {
		select {
		case <-g.exited:
			return fmt.Errorf("gateway exited at start: %v\n%s", g.ExitErr, g.Log.String())
		default:
		}
		c, err := net.DialTimeout("tcp", g.Addr(), 200*time.Millisecond)
		if err == nil {
			c.Close()
			return nil
		}
		time.Sleep(20 * time.Millisecond)
	}
	g.Kill()
	return fmt.Errorf("gateway did not come up\n%s", g.Log.String())
}

func (g *Gateway) Addr() string      { return "127.0.0.1:" + strconv.Itoa(g.Port) }
func (g *Gateway) AdminAddr() string { return "127.0.0.1:" + strconv.Itoa(g.AdminPort) }
func (g *Gateway) Pid() int          { return g.cmd.Process.Pid }

// Alive reports whether the process is still running.
func (g *Gateway) Alive() bool {
	select {
	case <-g.exited:
		return false
	default:
		return true
	}
}

func (g *Gateway) WaitExit(d time.Duration) bool {
	select {
	case <-g.exited:
		return true
	case <-time.After(d):
		return false
	}
}

// Kill sends SIGKILL to the whole process group (strace included) and waits.
func (g *Gateway) Kill() {
	if g.cmd == nil || g.cmd.Process == nil {
		return
	}
	syscall.Kill(-g.cmd.Process.Pid, syscall.SIGKILL)
	<-g.exited
}

// Restart kills the process and starts a fresh one on the same storage and ports.
func (g *Gateway) Restart() error {
	g.Kill()
	var err error
	for try := 0; try < 6; try++ {
		g.Log.Reset()
		err = g.launch()
		if err == nil || !strings.Contains(err.Error(), "address already in use") {
			return err
		}
		time.Sleep(50 * time.Millisecond) // the old socket may still be closing
	}
	return err
}

// ---------------------------------------------------------------- environment faults
//
// A gateway that logs ENOSPC was refused storage by the machine it runs on (observed in this sandbox under
// load although the filesystem had plenty of free space). Its 500 answers then say nothing about the
// property under test; the runner re-runs a check whose failures coincide with such a fault.

var envFault atomic.Value // string: first offending log line

type envTee struct{ w io.Writer }

func (t envTee) Write(p []byte) (int, error) {
	if i := bytes.Index(p, []byte("no space left on device")); i >= 0 && envFault.Load() == nil {
		start := bytes.LastIndexByte(p[:i], '\n') + 1
		end := len(p)
		if j := bytes.IndexByte(p[i:], '\n'); j >= 0 {
			end = i + j
		}
		envFault.Store(string(p[start:end]))
	}
	return t.w.Write(p)
}

// EnvFault returns the first gateway log line that reported ENOSPC during this harness run ("" = none).
func EnvFault() string {
	if v := envFault.Load(); v != nil {
		return v.(string)
	}
	return ""
}
