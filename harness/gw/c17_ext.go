package gw

import (
	"bufio"
	"bytes"
	"fmt"
	"io"
	"net"
	"net/http"
	"os"
	"os/exec"
	"strings"
	"syscall"
	"time"
)

// DoCompactAuth is Do with the Authorization header written without blanks after the commas
// (`Credential=…,SignedHeaders=…,Signature=…`), a form that SigV4 admits and some clients send.
// The gateway's ParseAuthorization copies the header only when it contains blanks; in this form
// the access key it extracts is a view into fasthttp's request memory (C17: cache keys).
func DoCompactAuth(addr string, r Req) Resp {
	if r.Region == "" {
		r.Region = "us-east-1"
	}
	wire := r.prepare(addr)
	auth := r.Get("Authorization")
	r.Set("Authorization", compactAuth(auth))
	var b bytes.Buffer
	target := r.Path
	if r.Query != "" {
		target += "?" + r.Query
	}
	fmt.Fprintf(&b, "%s %s HTTP/1.1\r\nHost: %s\r\n", r.Method, target, addr)
	for _, h := range r.Headers {
		fmt.Fprintf(&b, "%s: %s\r\n", h.K, h.V)
	}
	if r.Get("Content-Length") == "" && (len(wire) > 0 || r.Method == "PUT" || r.Method == "POST") {
		fmt.Fprintf(&b, "Content-Length: %d\r\n", len(wire))
	}
	b.WriteString("Connection: close\r\n\r\n")
	b.Write(wire)
	conn, err := net.DialTimeout("tcp", addr, 2*time.Second)
	if err != nil {
		return Resp{Err: err}
	}
	defer conn.Close()
	conn.SetDeadline(time.Now().Add(20 * time.Second))
	conn.Write(b.Bytes())
	resp, err := http.ReadResponse(bufio.NewReader(conn), &http.Request{Method: r.Method})
	if err != nil {
		return Resp{Err: err}
	}
	defer resp.Body.Close()
	body, err := io.ReadAll(resp.Body)
	return Resp{Status: resp.StatusCode, Headers: resp.Header, Body: body, Err: err}
}

func compactAuth(a string) string {
	out := make([]byte, 0, len(a))
	for i := 0; i < len(a); i++ {
		if a[i] == ' ' && i > 0 && a[i-1] == ',' {
			continue
		}
		out = append(out, a[i])
	}
	return string(out)
}

// StartCred is Start with the gateway child running under the given effective uid / gid (the
// harness runs as root): C17 checks --chuid/--chgid ownership against a gateway whose effective
// gid differs from its effective uid.  The work directory must be accessible to that identity.
// (Restart on such a gateway falls back to the harness's own identity: not used.)
func StartCred(cfg Config, uid, gid uint32) (*Gateway, error) {
	var g *Gateway
	var err error
	for try := 0; try < 6; try++ {
		g = &Gateway{Cfg: cfg, Port: FreePort(), AdminPort: FreePort(), Log: &bytes.Buffer{}}
		err = g.launchCred(uid, gid)
		if err == nil || !strings.Contains(err.Error(), "address already in use") {
			return g, err
		}
	}
	return g, err
}

func (g *Gateway) launchCred(uid, gid uint32) error {
	cmd := exec.Command(g.Cfg.Bin, g.Cfg.args(g.Port, g.AdminPort)...)
	cmd.Env = append(os.Environ(), g.Cfg.Env...)
	cmd.Stdout = envTee{g.Log}
	cmd.Stderr = envTee{g.Log}
	cmd.Dir = g.Cfg.Work
	cmd.SysProcAttr = &syscall.SysProcAttr{Setpgid: true, Pdeathsig: syscall.SIGKILL,
		Credential: &syscall.Credential{Uid: uid, Gid: gid, NoSetGroups: false, Groups: []uint32{gid}}}
	if err := cmd.Start(); err != nil {
		return err
	}
	g.cmd = cmd
	g.exited = make(chan struct{})
	go func(c *exec.Cmd, ch chan struct{}) {
		g.ExitErr = c.Wait()
		close(ch)
	}(cmd, g.exited)
	deadline := time.Now().Add(15 * time.Second)
	for time.Now().Before(deadline) {
		select {
		case <-g.exited:
			return fmt.Errorf("gateway exited at start: %v\n%s", g.ExitErr, g.Log.String())
		default:
		}
		c, err := net.DialTimeout("tcp", g.Addr(), 200*time.Millisecond)
		if err == nil {
			c.Close()
			return nil
		}
		time.Sleep(20 * time.Millisecond)
	}
	g.Kill()
	return fmt.Errorf("gateway did not come up\n%s", g.Log.String())
}
