package gw

import (
	"bufio"
	"bytes"
	"fmt"
	"io"
	"net"
	"net/http"
	"time"
)

// DoCompactAuth is Do with the Authorization header written without blanks after the commas
// (`Credential=…,SignedHeaders=…,Signature=…`), a form that SigV4 admits and some clients send.
// The gateway's ParseAuthorization copies the header only when it contains blanks; in this form
// the access key it extracts is a view into fasthttp's request memory (C17: cache keys).
func DoCompactAuth(addr string, r Req) Resp {
	if r.Region == "" {
		r.Region = "us-east-1"
	}
	wire := r.prepare(addr)
	auth := r.Get("Authorization")
	r.Set("Authorization", compactAuth(auth))
	var b bytes.Buffer
	target := r.Path
	if r.Query != "" {
		target += "?" + r.Query
	}
	fmt.Fprintf(&b, "%s %s HTTP/1.1\r\nHost: %s\r\n", r.Method, target, addr)
	for _, h := range r.Headers {
		fmt.Fprintf(&b, "%s: %s\r\n", h.K, h.V)
	}
	if r.Get("Content-Length") == "" && (len(wire) > 0 || r.Method == "PUT" || r.Method == "POST") {
		fmt.Fprintf(&b, "Content-Length: %d\r\n", len(wire))
	}
	b.WriteString("Connection: close\r\n\r\n")
	b.Write(wire)
	conn, err := net.DialTimeout("tcp", addr, 2*time.Second)
	if err != nil {
		return Resp{Err: err}
	}
	defer conn.Close()
	conn.SetDeadline(time.Now().Add(20 * time.Second))
	conn.Write(b.Bytes())
	resp, err := http.ReadResponse(bufio.NewReader(conn), &http.Request{Method: r.Method})
	if err != nil {
		return Resp{Err: err}
	}
	defer resp.Body.Close()
	body, err := io.ReadAll(resp.Body)
	return Resp{Status: resp.StatusCode, Headers: resp.Header, Body: body, Err: err}
}

func compactAuth(a string) string {
	out := make([]byte, 0, len(a))
	for i := 0; i < len(a); i++ {
		if a[i] == ' ' && i > 0 && a[i-1] == ',' {
			continue
		}
		out = append(out, a[i])
	}
	return string(out)
}
