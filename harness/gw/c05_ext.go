package gw

// Stepper: single-stepping of one gateway process at the granularity of filesystem syscalls, without
// any change to the gateway. `strace` is attached to the running process with
// `-e inject=<set>:signal=SIGSTOP`: right after EVERY syscall of the set has executed the whole
// process is group-stopped (verified semantics of strace 6.1: the signal is delivered on syscall
// exit, before the thread returns to user code). The controller reads strace's log to learn which
// syscall just completed and resumes the process with SIGCONT when the schedule says so.

import (
	"bufio"
	"fmt"
	"io"
	"os"
	"os/exec"
	"regexp"
	"strconv"
	"strings"
	"syscall"
	"time"
)

// StepSet is the set of traced (and stopping) syscalls: everything the posix backend does to names
// and attributes. Data transfer (read/write/sendfile/copy_file_range) is not in the set.
const StepSet = "newfstatat,statx,openat,listxattr,llistxattr,flistxattr,getxattr,lgetxattr,fgetxattr,setxattr,fsetxattr,removexattr,unlinkat,linkat,renameat,renameat2,mkdirat,fstat"

type Sys struct {
	Tid  int
	Name string
	Args string // text between the outer parentheses
	Ret  string // text after " = "
	Raw  string
}

type stepEvent struct {
	sys     *Sys
	stopped int // tid of a "--- stopped by SIGSTOP ---" line
	err     error
}

type Stepper struct {
	G        *Gateway
	Pid      int
	cmd      *exec.Cmd
	logPath  string
	events   chan stepEvent
	quit     chan struct{}
	pending  map[int]*Sys // per thread: the traced syscall that completed and whose stop has not been seen yet
	Stops    int
	detached bool
}

var (
	reLine     = regexp.MustCompile(`^(\d+)\s+(.*)$`)
	reSys      = regexp.MustCompile(`^([a-z_0-9]+)\((.*)\)\s+= (.*)$`)
	reUnfin    = regexp.MustCompile(`^([a-z_0-9]+)\((.*) <unfinished \.\.\.>$`)
	reResumed  = regexp.MustCompile(`^<\.\.\. ([a-z_0-9]+) resumed>(.*)\)\s+= (.*)$`)
	reStopped  = regexp.MustCompile(`^--- stopped by SIGSTOP ---$`)
	reAttached = regexp.MustCompile(`attached`)
)

// Attach starts strace on the running gateway g.
func Attach(g *Gateway, logPath string) (*Stepper, error) {
	os.Remove(logPath)
	if f, err := os.Create(logPath); err == nil {
		f.Close()
	}
	pid := g.Pid()
	args := []string{"-f", "-p", strconv.Itoa(pid), "-o", logPath, "-qq", "-s", "256", "-e", "signal=SIGSTOP", "-e", "trace=" + StepSet,
		"-e", "inject=" + StepSet + ":signal=SIGSTOP"}
	cmd := exec.Command("strace", args...)
	cmd.Stdout = io.Discard
	errBuf := &strings.Builder{}
	cmd.Stderr = errBuf
	cmd.SysProcAttr = &syscall.SysProcAttr{Setpgid: true, Pdeathsig: syscall.SIGKILL}
	if err := cmd.Start(); err != nil {
		return nil, err
	}
	s := &Stepper{G: g, Pid: pid, cmd: cmd, logPath: logPath, events: make(chan stepEvent, 1024), quit: make(chan struct{}), pending: map[int]*Sys{}}
	// wait until strace has seized every thread: /proc/<pid>/status TracerPid
	deadline := time.Now().Add(5 * time.Second)
	for {
		if tracerOf(pid) == cmd.Process.Pid && allThreadsTraced(pid, cmd.Process.Pid) {
			break
		}
		if time.Now().After(deadline) {
			cmd.Process.Kill()
			return nil, fmt.Errorf("strace did not attach: %s", errBuf.String())
		}
		time.Sleep(2 * time.Millisecond)
	}
	go s.tail()
	return s, nil
}

func tracerOfPath(p string) int {
	b, err := os.ReadFile(p)
	if err != nil {
		return -1
	}
	for _, l := range strings.Split(string(b), "\n") {
		if strings.HasPrefix(l, "TracerPid:") {
			n, _ := strconv.Atoi(strings.TrimSpace(l[10:]))
			return n
		}
	}
	return -1
}
func tracerOf(pid int) int { return tracerOfPath(fmt.Sprintf("/proc/%d/status", pid)) }
func allThreadsTraced(pid, tracer int) bool {
	ents, err := os.ReadDir(fmt.Sprintf("/proc/%d/task", pid))
	if err != nil {
		return false
	}
	for _, e := range ents {
		if tracerOfPath(fmt.Sprintf("/proc/%d/task/%s/status", pid, e.Name())) != tracer {
			return false
		}
	}
	return true
}

// tail follows strace's log and turns lines into events.
func (s *Stepper) tail() {
	f, err := os.Open(s.logPath)
	if err != nil {
		s.events <- stepEvent{err: err}
		return
	}
	defer f.Close()
	rd := bufio.NewReaderSize(f, 1<<16)
	unfinished := map[int][2]string{}
	var partial string
	for {
		line, err := rd.ReadString('\n')
		if err != nil {
			partial += line
			select {
			case <-s.quit:
				return
			case <-time.After(150 * time.Microsecond):
			}
			continue
		}
		line = partial + line
		partial = ""
		line = strings.TrimRight(line, "\n")
		m := reLine.FindStringSubmatch(line)
		if m == nil {
			continue
		}
		tid, _ := strconv.Atoi(m[1])
		rest := m[2]
		switch {
		case reStopped.MatchString(rest):
			s.events <- stepEvent{stopped: tid}
		case strings.HasPrefix(rest, "---") || strings.HasPrefix(rest, "+++"):
		default:
			if u := reUnfin.FindStringSubmatch(rest); u != nil {
				unfinished[tid] = [2]string{u[1], u[2]}
			} else if r := reResumed.FindStringSubmatch(rest); r != nil {
				pre := unfinished[tid]
				delete(unfinished, tid)
				s.events <- stepEvent{sys: &Sys{Tid: tid, Name: r[1], Args: pre[1] + r[2], Ret: r[3], Raw: line}}
			} else if y := reSys.FindStringSubmatch(rest); y != nil {
				s.events <- stepEvent{sys: &Sys{Tid: tid, Name: y[1], Args: y[2], Ret: y[3], Raw: line}}
			}
		}
	}
}

// LogTail returns the last n lines of strace's log (diagnostics of a replay that went wrong).
func (s *Stepper) LogTail(n int) string {
	b, err := os.ReadFile(s.logPath)
	if err != nil {
		return err.Error()
	}
	lines := strings.Split(strings.TrimRight(string(b), "\n"), "\n")
	if len(lines) > n {
		lines = lines[len(lines)-n:]
	}
	return strings.Join(lines, "\n")
}

// Cont resumes the stopped process.
func (s *Stepper) Cont() { syscall.Kill(s.Pid, syscall.SIGCONT) }

// Next waits for the next stop of the process and returns the syscall that caused it. When `done`
// fires first (the request running in the process was answered) it returns (nil, true). Syscalls
// for which `relevant` is false are resumed at once.
func (s *Stepper) Next(done <-chan struct{}, relevant func(*Sys) bool, timeout time.Duration) (*Sys, bool, error) {
	to := time.After(timeout)
	for {
		select {
		case ev := <-s.events:
			if ev.err != nil {
				return nil, false, ev.err
			}
			if ev.sys != nil {
				s.pending[ev.sys.Tid] = ev.sys
				continue
			}
			// a group stop is reported once per thread; the thread whose syscall caused it is the one
			// with a completed traced syscall on record (two threads can each cause one)
			sys := s.pending[ev.stopped]
			if sys == nil {
				continue
			}
			delete(s.pending, ev.stopped)
			s.Stops++
			if relevant == nil || !relevant(sys) {
				s.Cont()
				continue
			}
			return sys, false, nil
		case <-done:
			return nil, true, nil
		case <-to:
			return nil, false, fmt.Errorf("stepper: timeout waiting for pid %d (pending %d)", s.Pid, len(s.pending))
		}
	}
}

// Detach stops strace (the gateway keeps running, resumed).
func (s *Stepper) Detach() {
	if s.detached {
		return
	}
	s.detached = true
	close(s.quit)
	if s.cmd != nil && s.cmd.Process != nil {
		s.cmd.Process.Signal(syscall.SIGINT)
		done := make(chan struct{})
		go func() { s.cmd.Wait(); close(done) }()
		select {
		case <-done:
		case <-time.After(2 * time.Second):
			s.cmd.Process.Kill()
			<-done
		}
	}
	syscall.Kill(s.Pid, syscall.SIGCONT)
}
