package gw

import (
	"bufio"
	"bytes"
	"crypto/hmac"
	"crypto/sha256"
	"encoding/hex"
	"fmt"
	"io"
	"net"
	"net/http"
	"net/url"
	"os"
	"sort"
	"strconv"
	"strings"
	"time"
)

type Creds struct{ Access, Secret string }

type Header struct{ K, V string }

// Req is one HTTP request as it goes on the wire. Path and Query are raw (already encoded).
type Req struct {
	Method  string
	Path    string
	Query   string
	Headers []Header
	Body    []byte

	// signing
	Auth          string // "header" | "unsigned" | "stream-signed" | "stream-signed-trailer" | "stream-unsigned-trailer" | "presign" | "none"
	Creds         Creds
	Region        string
	Time          time.Time                // zero = now
	TimeOffset    int                      // seconds added to now when Time is zero
	Expires       int                      // presign
	Chunks        []int                    // chunk sizes for streaming modes (last chunk takes the rest)
	UnsignedTail  int                      // signed streaming modes: the last n bytes go as a chunk with an EMPTY chunk-signature, outside the chain
	Trailer       string                   // checksum algorithm for trailer modes: crc32|crc32c|sha1|sha256|crc64nvme
	Defect        string                   // credential / integrity defect injected after a correct signature was computed
	WireMut       func(wire []byte) []byte // mutation of the encoded body after encoding/signing
	DeclLen       *int64                   // overrides x-amz-decoded-content-length (streaming) when set
	Timeout       time.Duration
	NoContLen     bool
	TEChunked     bool   // send the body with Transfer-Encoding: chunked (HTTP framing) and no Content-Length
	PayloadHashOf []byte // header mode: sign x-amz-content-sha256 = sha256 of these bytes instead of Body
}

type Resp struct {
	Status  int
	Headers http.Header
	Body    []byte
	Err     error
}

func (r Resp) ErrCode() string {
	// <Code>…</Code> of an S3 error document
	i := bytes.Index(r.Body, []byte("<Code>"))
	j := bytes.Index(r.Body, []byte("</Code>"))
	if i < 0 || j < i {
		return ""
	}
	return string(r.Body[i+6 : j])
}

func (r *Req) Set(k, v string) {
	for i := range r.Headers {
		if strings.EqualFold(r.Headers[i].K, k) {
			r.Headers[i].V = v
			return
		}
	}
	r.Headers = append(r.Headers, Header{k, v})
}
func (r *Req) Get(k string) string {
	for _, h := range r.Headers {
		if strings.EqualFold(h.K, k) {
			return h.V
		}
	}
	return ""
}
func (r *Req) Del(k string) {
	out := r.Headers[:0]
	for _, h := range r.Headers {
		if !strings.EqualFold(h.K, k) {
			out = append(out, h)
		}
	}
	r.Headers = out
}

// EncodePath percent-encodes every byte outside the unreserved set (and '/').
func EncodePath(p string) string {
	var b strings.Builder
	for i := 0; i < len(p); i++ {
		c := p[i]
		if c >= 'A' && c <= 'Z' || c >= 'a' && c <= 'z' || c >= '0' && c <= '9' || c == '-' || c == '_' || c == '.' || c == '~' || c == '/' {
			b.WriteByte(c)
		} else {
			fmt.Fprintf(&b, "%%%02X", c)
		}
	}
	return b.String()
}

// EncodeQueryValue encodes a query component (no '+' for space).
func EncodeQueryValue(p string) string {
	return strings.ReplaceAll(url.QueryEscape(p), "+", "%20")
}

func hmac256(key, data []byte) []byte {
	h := hmac.New(sha256.New, key)
	h.Write(data)
	return h.Sum(nil)
}
func sha256hex(b []byte) string { s := sha256.Sum256(b); return hex.EncodeToString(s[:]) }

func SigningKey(secret, date, region, service, term string) []byte {
	k := hmac256([]byte("AWS4"+secret), []byte(date))
	k = hmac256(k, []byte(region))
	k = hmac256(k, []byte(service))
	return hmac256(k, []byte(term))
}

func canonicalQuery(raw string) string {
	vals, _ := url.ParseQuery(raw)
	for k := range vals {
		sort.Strings(vals[k])
	}
	return strings.ReplaceAll(vals.Encode(), "+", "%20")
}

type signed struct {
	amzDate, date, scope, signedHeaders, signature string
	key                                            []byte
}

// sign computes SigV4 over the request as it will be sent.
func (r *Req) sign(host, payloadHash string, presign bool) signed {
	t := r.Time
	if t.IsZero() {
		t = time.Now().Add(time.Duration(r.TimeOffset) * time.Second)
	}
	t = t.UTC()
	amzDate := t.Format("20060102T150405Z")
	date := amzDate[:8]
	region := r.Region
	scope := date + "/" + region + "/s3/aws4_request"
	query := r.Query
	if presign {
		q := "X-Amz-Algorithm=AWS4-HMAC-SHA256&X-Amz-Credential=" + url.QueryEscape(r.Creds.Access+"/"+scope) +
			"&X-Amz-Date=" + amzDate + "&X-Amz-Expires=" + strconv.Itoa(r.Expires) + "&X-Amz-SignedHeaders=host"
		if query != "" {
			query += "&"
		}
		query += q
		r.Query = query
	} else {
		r.Set("X-Amz-Date", amzDate)
		r.Set("X-Amz-Content-Sha256", payloadHash)
	}
	hdrs := map[string]string{"host": host}
	if !presign {
		for _, h := range r.Headers {
			lk := strings.ToLower(h.K)
			if strings.HasPrefix(lk, "x-amz-") || lk == "content-md5" || lk == "content-type" || lk == "range" {
				hdrs[lk] = strings.TrimSpace(h.V)
			}
		}
	}
	names := make([]string, 0, len(hdrs))
	for k := range hdrs {
		names = append(names, k)
	}
	sort.Strings(names)
	var ch strings.Builder
	for _, k := range names {
		ch.WriteString(k + ":" + hdrs[k] + "\n")
	}
	sh := strings.Join(names, ";")
	creq := r.Method + "\n" + r.Path + "\n" + canonicalQuery(query) + "\n" + ch.String() + "\n" + sh + "\n" + payloadHash
	sts := "AWS4-HMAC-SHA256\n" + amzDate + "\n" + scope + "\n" + sha256hex([]byte(creq))
	key := SigningKey(r.Creds.Secret, date, region, "s3", "aws4_request")
	sig := hex.EncodeToString(hmac256(key, []byte(sts)))
	return signed{amzDate, date, scope, sh, sig, key}
}

func checksumOf(algo string, data []byte) string {
	return ChecksumB64(algo, data)
}

// encodeBody produces the wire body and fills the headers for the chosen auth mode; returns wire.
func (r *Req) prepare(host string) []byte {
	wire := r.Body
	switch r.Auth {
	case "none", "":
		return wire
	case "header":
		ph := sha256hex(r.Body)
		if r.PayloadHashOf != nil {
			ph = sha256hex(r.PayloadHashOf)
		}
		s := r.sign(host, ph, false)
		r.setAuth(s)
	case "unsigned":
		s := r.sign(host, "UNSIGNED-PAYLOAD", false)
		r.setAuth(s)
	case "presign":
		s := r.sign(host, "UNSIGNED-PAYLOAD", true)
		r.Query += "&X-Amz-Signature=" + s.signature
	case "stream-signed", "stream-signed-trailer":
		ph := "STREAMING-AWS4-HMAC-SHA256-PAYLOAD"
		if r.Auth == "stream-signed-trailer" {
			ph += "-TRAILER"
			r.Set("X-Amz-Trailer", "x-amz-checksum-"+r.Trailer)
		}
		dl := int64(len(r.Body))
		if r.DeclLen != nil {
			dl = *r.DeclLen
		}
		r.Set("X-Amz-Decoded-Content-Length", strconv.FormatInt(dl, 10))
		s := r.sign(host, ph, false)
		r.setAuth(s)
		wire = EncodeSignedChunksTail(r.Body, r.Chunks, s.signature, s.key, s.amzDate, s.scope, r.Trailer, r.Auth == "stream-signed-trailer", r.UnsignedTail)
	case "stream-unsigned-trailer":
		r.Set("X-Amz-Trailer", "x-amz-checksum-"+r.Trailer)
		dl := int64(len(r.Body))
		if r.DeclLen != nil {
			dl = *r.DeclLen
		}
		r.Set("X-Amz-Decoded-Content-Length", strconv.FormatInt(dl, 10))
		s := r.sign(host, "STREAMING-UNSIGNED-PAYLOAD-TRAILER", false)
		r.setAuth(s)
		wire = EncodeUnsignedChunks(r.Body, r.Chunks, r.Trailer)
	}
	if r.WireMut != nil {
		wire = r.WireMut(wire)
	}
	return wire
}

func (r *Req) setAuth(s signed) {
	r.Set("Authorization", "AWS4-HMAC-SHA256 Credential="+r.Creds.Access+"/"+s.scope+", SignedHeaders="+s.signedHeaders+", Signature="+s.signature)
}

func splitChunks(n int, sizes []int) []int {
	var out []int
	left := n
	for _, s := range sizes {
		if left <= 0 {
			break
		}
		if s <= 0 {
			continue
		}
		if s > left {
			s = left
		}
		out = append(out, s)
		left -= s
	}
	if left > 0 {
		out = append(out, left)
	}
	return out
}

// EncodeSignedChunks builds an aws-chunked body with the SigV4 chunk-signature chain.
func EncodeSignedChunks(body []byte, sizes []int, seed string, key []byte, amzDate, scope, trailerAlgo string, trailer bool) []byte {
	return EncodeSignedChunksTail(body, sizes, seed, key, amzDate, scope, trailerAlgo, trailer, 0)
}

// EncodeSignedChunksTail is EncodeSignedChunks with the last `unsignedTail` bytes of the body sent as one more
// data chunk whose chunk-signature value is EMPTY and which is left out of the signature chain (the final
// chunk is signed as if it followed the last signed chunk): a stream in which one chunk carries no proof.
func EncodeSignedChunksTail(body []byte, sizes []int, seed string, key []byte, amzDate, scope, trailerAlgo string, trailer bool, unsignedTail int) []byte {
	const emptyHash = "e3b0c44298fc1c149afbf4c8996fb92427ae41e4649b934ca495991b7852b855"
	var w bytes.Buffer
	prev := seed
	off := 0
	chunk := func(data []byte) {
		sts := "AWS4-HMAC-SHA256-PAYLOAD\n" + amzDate + "\n" + scope + "\n" + prev + "\n" + emptyHash + "\n" + sha256hex(data)
		sig := hex.EncodeToString(hmac256(key, []byte(sts)))
		prev = sig
		fmt.Fprintf(&w, "%x;chunk-signature=%s\r\n", len(data), sig)
		if len(data) > 0 {
			w.Write(data)
			w.WriteString("\r\n")
		}
	}
	if unsignedTail > len(body) {
		unsignedTail = len(body)
	}
	signed := len(body) - unsignedTail
	for _, s := range splitChunks(signed, sizes) {
		chunk(body[off : off+s])
		off += s
	}
	if unsignedTail > 0 {
		fmt.Fprintf(&w, "%x;chunk-signature=\r\n", unsignedTail)
		w.Write(body[signed:])
		w.WriteString("\r\n")
	}
	chunk(nil)
	if trailer {
		cs := checksumOf(trailerAlgo, body)
		tl := "x-amz-checksum-" + trailerAlgo + ":" + cs + "\n"
		sts := "AWS4-HMAC-SHA256-TRAILER\n" + amzDate + "\n" + scope + "\n" + prev + "\n" + sha256hex([]byte(tl))
		sig := hex.EncodeToString(hmac256(key, []byte(sts)))
		fmt.Fprintf(&w, "x-amz-checksum-%s:%s\r\nx-amz-trailer-signature:%s\r\n", trailerAlgo, cs, sig)
	}
	w.WriteString("\r\n")
	return w.Bytes()
}

// EncodeUnsignedChunks builds a STREAMING-UNSIGNED-PAYLOAD-TRAILER body.
func EncodeUnsignedChunks(body []byte, sizes []int, trailerAlgo string) []byte {
	var w bytes.Buffer
	off := 0
	for _, s := range splitChunks(len(body), sizes) {
		fmt.Fprintf(&w, "%x\r\n", s)
		w.Write(body[off : off+s])
		w.WriteString("\r\n")
		off += s
	}
	fmt.Fprintf(&w, "0\r\nx-amz-checksum-%s:%s\r\n\r\n", trailerAlgo, checksumOf(trailerAlgo, body))
	return w.Bytes()
}

// Do sends the request to addr over a fresh TCP connection, written raw.
func Do(addr string, r Req) Resp {
	if r.Region == "" {
		r.Region = "us-east-1"
	}
	wire := r.prepare(addr)
	applyDefect(&r, &wire)
	var b bytes.Buffer
	target := r.Path
	if r.Query != "" {
		target += "?" + r.Query
	}
	fmt.Fprintf(&b, "%s %s HTTP/1.1\r\nHost: %s\r\n", r.Method, target, addr)
	if tf := os.Getenv("VERIF_TRACE_REQ"); tf != "" { // development aid: append every request to that file
		if f, err := os.OpenFile(tf, os.O_APPEND|os.O_CREATE|os.O_WRONLY, 0o644); err == nil {
			fmt.Fprintf(f, "REQ %s %s %v body=%d\n", r.Method, target, r.Headers, len(r.Body))
			f.Close()
		}
	}
	for _, h := range r.Headers {
		fmt.Fprintf(&b, "%s: %s\r\n", h.K, h.V)
	}
	if r.TEChunked {
		b.WriteString("Transfer-Encoding: chunked\r\n")
	} else if !r.NoContLen && r.Get("Content-Length") == "" && (len(wire) > 0 || r.Method == "PUT" || r.Method == "POST") {
		fmt.Fprintf(&b, "Content-Length: %d\r\n", len(wire))
	}
	b.WriteString("Connection: close\r\n\r\n")
	if r.TEChunked {
		for off := 0; off < len(wire); off += 37 {
			end := off + 37
			if end > len(wire) {
				end = len(wire)
			}
			fmt.Fprintf(&b, "%x\r\n", end-off)
			b.Write(wire[off:end])
			b.WriteString("\r\n")
		}
		b.WriteString("0\r\n\r\n")
	} else {
		b.Write(wire)
	}
	to := r.Timeout
	if to == 0 {
		to = 20 * time.Second
	}
	conn, err := net.DialTimeout("tcp", addr, 2*time.Second)
	if err != nil {
		return Resp{Err: err}
	}
	defer conn.Close()
	conn.SetDeadline(time.Now().Add(to))
	if _, err := conn.Write(b.Bytes()); err != nil {
		// the server may already have answered and closed; still try to read
		_ = err
	}
	resp, err := http.ReadResponse(bufio.NewReader(conn), &http.Request{Method: r.Method})
	if err != nil {
		return Resp{Err: err}
	}
	defer resp.Body.Close()
	body, err := io.ReadAll(resp.Body)
	if err != nil {
		return Resp{Status: resp.StatusCode, Headers: resp.Header, Body: body, Err: err}
	}
	if tf := os.Getenv("VERIF_TRACE_REQ"); tf != "" {
		if f, err := os.OpenFile(tf, os.O_APPEND|os.O_CREATE|os.O_WRONLY, 0o644); err == nil {
			b := body
			if len(b) > 160 {
				b = b[:160]
			}
			fmt.Fprintf(f, "RSP %d len=%d %q\n", resp.StatusCode, len(body), b)
			f.Close()
		}
	}
	return Resp{Status: resp.StatusCode, Headers: resp.Header, Body: body}
}

// applyDefect breaks a correctly signed request in one specific way.
func applyDefect(r *Req, wire *[]byte) {
	flipHex := func(s string) string {
		if s == "" {
			return s
		}
		c := s[len(s)-1]
		n := byte('0')
		if c == '0' {
			n = '1'
		}
		return s[:len(s)-1] + string(n)
	}
	auth := r.Get("Authorization")
	switch r.Defect {
	case "":
	case "missing-auth":
		r.Del("Authorization")
	case "malformed-auth":
		r.Set("Authorization", "AWS4-HMAC-SHA256 garbage")
	case "bad-signature":
		if auth != "" {
			r.Set("Authorization", flipHex(auth))
		} else { // presigned
			r.Query = flipHex(r.Query)
		}
	case "empty-signature":
		if i := strings.LastIndex(auth, "Signature="); i >= 0 {
			r.Set("Authorization", auth[:i+10])
		}
	case "altered-header":
		// change the value of a header that was signed
		done := false
		for i, h := range r.Headers {
			lk := strings.ToLower(h.K)
			if strings.HasPrefix(lk, "x-amz-meta-") || lk == "x-amz-acl" || lk == "x-amz-tagging" || lk == "range" || lk == "x-amz-copy-source" {
				r.Headers[i].V = h.V + "x"
				done = true
				break
			}
		}
		if !done {
			if v := r.Get("X-Amz-Content-Sha256"); v != "" {
				r.Set("X-Amz-Content-Sha256", flipHex(v))
			}
		}
	case "altered-query":
		if r.Query == "" {
			r.Query = "injected=1"
		} else {
			r.Query += "&injected=1"
		}
	case "dup-query-first":
		// a second copy of a signed query parameter, with another value, placed in front of the signed one
		// (handlers read the first occurrence of a parameter)
		if r.Query == "" {
			r.Query = "injected=1"
			break
		}
		parts := strings.Split(r.Query, "&")
		pick := parts[0]
		for _, p := range parts {
			if !strings.HasPrefix(p, "X-Amz-") {
				pick = p
				break
			}
		}
		k := pick
		if i := strings.Index(pick, "="); i >= 0 {
			k = pick[:i]
		}
		r.Query = k + "=forged-value&" + r.Query
	case "te-chunked-altered-payload", "altered-payload":
		if r.Defect == "te-chunked-altered-payload" {
			r.TEChunked = true
		}
		if len(*wire) > 0 {
			w := append([]byte{}, *wire...)
			w[len(w)/2] ^= 1
			*wire = w
		} else {
			*wire = []byte("x")
		}
	case "altered-path":
		r.Path += "x"
	}
}
