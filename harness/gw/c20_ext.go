package gw

import (
	"bufio"
	"bytes"
	"fmt"
	"io"
	"net"
	"net/http"
	"os"
	"strconv"
	"strings"
	"time"
)

// BuildWire returns the exact bytes Do would write for r (signing, streaming encoding, defect
// injection included), so that a caller can send them itself (half-close, own watchdog).
func BuildWire(addr string, r Req) []byte {
	if r.Region == "" {
		r.Region = "us-east-1"
	}
	r.Headers = append([]Header{}, r.Headers...)
	wire := r.prepare(addr)
	applyDefect(&r, &wire)
	var b bytes.Buffer
	target := r.Path
	if r.Query != "" {
		target += "?" + r.Query
	}
	fmt.Fprintf(&b, "%s %s HTTP/1.1\r\nHost: %s\r\n", r.Method, target, addr)
	for _, h := range r.Headers {
		fmt.Fprintf(&b, "%s: %s\r\n", h.K, h.V)
	}
	if !r.NoContLen && r.Get("Content-Length") == "" && (len(wire) > 0 || r.Method == "PUT" || r.Method == "POST") {
		fmt.Fprintf(&b, "Content-Length: %d\r\n", len(wire))
	}
	b.WriteString("Connection: close\r\n\r\n")
	b.Write(wire)
	return b.Bytes()
}

// Exchanged is what came back for one raw exchange.
type Exchanged struct {
	Resp
	Elapsed  time.Duration
	TimedOut bool // the watchdog fired before a complete answer arrived
	Closed   bool // the peer closed (or reset) the connection without sending a status line
	DialErr  bool // nobody listening
	RawHead  []byte
}

// Exchange writes wire to addr over a fresh TCP connection, half-closes the sending side when
// asked (so that a server waiting for a longer body sees EOF instead of waiting for the watchdog),
// and reads one final (non-1xx) response.
func Exchange(addr string, wire []byte, method string, watchdog time.Duration, halfClose bool) Exchanged {
	t0 := time.Now()
	conn, err := net.DialTimeout("tcp", addr, 2*time.Second)
	if err != nil {
		return Exchanged{Resp: Resp{Err: err}, DialErr: true, Elapsed: time.Since(t0)}
	}
	defer conn.Close()
	conn.SetDeadline(t0.Add(watchdog))
	// write in the background: a server that answers early and closes must not block us
	wdone := make(chan struct{})
	go func() {
		defer close(wdone)
		conn.Write(wire)
		if halfClose {
			if tc, ok := conn.(*net.TCPConn); ok {
				tc.CloseWrite()
			}
		}
	}()
	var raw bytes.Buffer
	br := bufio.NewReader(io.TeeReader(conn, &limitedWriter{&raw, 2048}))
	out := Exchanged{}
	for {
		resp, err := http.ReadResponse(br, &http.Request{Method: method})
		if err != nil {
			out.Err = err
			out.Closed = raw.Len() == 0
			if ne, ok := err.(net.Error); ok && ne.Timeout() {
				out.TimedOut = true
				out.Closed = false
			} else if os.IsTimeout(err) {
				out.TimedOut = true
				out.Closed = false
			}
			break
		}
		if resp.StatusCode >= 100 && resp.StatusCode < 200 {
			resp.Body.Close()
			continue
		}
		body, err := io.ReadAll(resp.Body)
		resp.Body.Close()
		out.Status, out.Headers, out.Body, out.Err = resp.StatusCode, resp.Header, body, err
		if err != nil {
			if ne, ok := err.(net.Error); ok && ne.Timeout() {
				out.TimedOut = true
			}
		}
		break
	}
	out.Elapsed = time.Since(t0)
	out.RawHead = raw.Bytes()
	conn.Close()
	<-wdone
	return out
}

type limitedWriter struct {
	b *bytes.Buffer
	n int
}

func (l *limitedWriter) Write(p []byte) (int, error) {
	if room := l.n - l.b.Len(); room > 0 {
		if len(p) < room {
			room = len(p)
		}
		l.b.Write(p[:room])
	}
	return len(p), nil
}

// ProcStatus reads VmRSS / VmHWM (kB) of the gateway process from /proc.
func (g *Gateway) ProcStatus() (rssKB, hwmKB int64) {
	b, err := os.ReadFile("/proc/" + strconv.Itoa(g.Pid()) + "/status")
	if err != nil {
		return -1, -1
	}
	for _, l := range strings.Split(string(b), "\n") {
		f := strings.Fields(l)
		if len(f) >= 2 {
			switch f[0] {
			case "VmRSS:":
				rssKB, _ = strconv.ParseInt(f[1], 10, 64)
			case "VmHWM:":
				hwmKB, _ = strconv.ParseInt(f[1], 10, 64)
			}
		}
	}
	return
}

// ResetHWM resets the peak-RSS counter of the process (so that the next reading is the peak since now).
func (g *Gateway) ResetHWM() {
	os.WriteFile("/proc/"+strconv.Itoa(g.Pid())+"/clear_refs", []byte("5"), 0)
}

// LogText returns what the gateway process wrote to stdout/stderr so far.
func (g *Gateway) LogText() string { return g.Log.String() }
