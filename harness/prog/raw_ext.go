package prog

import (
	"strings"

	"verif/harness/gw"
)

// ExecRaw sends a request built by the caller (method, raw path, raw query, headers, body) on
// behalf of one of the world's logical callers ("root" | "u:<access>"), with header SigV4, and
// returns the canonicalised observation (Raw holds the full response). Used by checks whose
// vocabulary goes beyond the ops of Exec (listings with every parameter, ranged and conditional
// GETs, …).
func (w *World) ExecRaw(caller string, req gw.Req) *Obs {
	cr, _ := w.creds(caller)
	req.Creds = cr
	if req.Auth == "" {
		req.Auth = "header"
	}
	r := gw.Do(w.addr(), req)
	obs := &Obs{Raw: r, Status: r.Status}
	obs.Code = canonCode(r, strings.HasPrefix(caller, "anon"))
	return obs
}

// PutHeaders applies a PutSpec's content type, user metadata, content headers, tagging and lock
// headers to a request (the same rendering Exec uses for putObject / createUpload / copyObject).
func (w *World) PutHeaders(r *gw.Req, p *PutSpec) { w.putHeaders(r, p) }

// TagsXML renders a Tagging document.
func TagsXML(tags []KV) []byte { return tagsXML(tags) }
