package prog

import (
	"fmt"

	"verif/harness/lib"
)

// Gen draws abstract ops. Every random choice comes from R.
type Gen struct {
	R        *lib.Rand
	Buckets  []string
	Keys     []string
	Accts    []Acct
	nextPol  int
	nextSeed int
	// weights
	Anon       int  // percent of requests sent with a credential defect
	Versioning bool // generate version-aware ops
	Encodings  []string
}

var DefaultAccts = []Acct{
	{Access: "adm1", Secret: "adm1secretkey", Role: "admin"},
	{Access: "up1", Secret: "up1secretkey0", Role: "userplus"},
	{Access: "usr1", Secret: "usr1secretkey", Role: "user", UID: 1001, GID: 1001},
	{Access: "usr2", Secret: "usr2secretkey", Role: "user", UID: 1002, GID: 1002},
}

var Defects = []string{"missing-auth", "malformed-auth", "bad-signature", "empty-signature", "wrong-secret", "unknown-key",
	"altered-header", "altered-query", "altered-payload", "altered-path", "old-date", "future-date", "wrong-region",
	"dup-query-first", "te-chunked-altered-payload"}

func NewGen(r *lib.Rand) *Gen {
	return &Gen{R: r, Buckets: []string{"bkt-a", "bkt-b", "bkt-c"},
		Keys:  []string{"k1", "dir/k2", "dir/sub/k3", "a b+c%&=d", "obj.txt", "ünï/cødé"},
		Accts: DefaultAccts, nextPol: 1, nextSeed: 1}
}

func (g *Gen) pick(xs []string) string { return xs[g.R.Intn(len(xs))] }

func (g *Gen) Caller() string {
	if g.Anon > 0 && g.R.Chance(g.Anon) {
		return "anon:" + g.pick(Defects)
	}
	switch n := g.R.Intn(10); {
	case n < 3:
		return "root"
	default:
		return "u:" + g.Accts[g.R.Intn(len(g.Accts))].Access
	}
}

func (g *Gen) Data() []Seg {
	g.nextSeed++
	sizes := []int{0, 1, 2, 17, 100, 1000, 4096, 32768, 32769, 70000}
	n := sizes[g.R.Intn(len(sizes))]
	if g.R.Chance(70) {
		n = g.R.Intn(300)
	}
	if n == 0 {
		return nil
	}
	return []Seg{{g.nextSeed, g.R.Intn(5), n}}
}

func (g *Gen) KVs(keys []string, max int) []KV {
	var out []KV
	seen := map[string]bool{}
	for i := g.R.Intn(max + 1); i > 0; i-- {
		k := g.pick(keys)
		if seen[k] {
			continue
		}
		seen[k] = true
		out = append(out, KV{k, g.pick([]string{"v", "value 2", "x=y", "ü", "0"})})
	}
	return out
}

func (g *Gen) PutSpec() *PutSpec {
	p := &PutSpec{Data: g.Data()}
	if g.R.Chance(60) {
		p.CType = g.pick([]string{"text/plain", "application/json", "image/png"})
	}
	p.Meta = g.KVs([]string{"color", "owner-name", "x", "k-1"}, 3)
	for _, h := range g.KVs([]string{"cache-control", "content-disposition", "content-language"}, 2) {
		p.Hdrs = append(p.Hdrs, KV{h.K, map[string]string{"cache-control": "max-age=60", "content-disposition": "attachment", "content-language": "en"}[h.K]})
	}
	if g.R.Chance(30) {
		p.HasTags = true
		p.Tags = g.KVs([]string{"t1", "t2", "env"}, 2)
		for i := range p.Tags {
			p.Tags[i].V = g.pick([]string{"v", "w", "prod", "a b", "x+y@z.org", "p:q/r=s_t-u"})
		}
		if len(p.Tags) == 0 {
			p.HasTags = false
		}
	}
	if len(g.Encodings) > 0 {
		p.Encoding = g.pick(g.Encodings)
		p.Chunks = []int{1 + g.R.Intn(64), 1 + g.R.Intn(200), 1 + g.R.Intn(5000)}
		p.Trailer = g.pick([]string{"crc32", "crc32c", "sha1", "sha256", "crc64nvme"})
	}
	return p
}

var allActions = []string{"s3:GetObject", "s3:PutObject", "s3:DeleteObject", "s3:ListBucket", "s3:GetBucketPolicy", "s3:PutBucketPolicy",
	"s3:DeleteBucketPolicy", "s3:GetBucketAcl", "s3:PutBucketAcl", "s3:GetBucketTagging", "s3:PutBucketTagging", "s3:GetObjectTagging",
	"s3:PutObjectTagging", "s3:DeleteObjectTagging", "s3:DeleteBucket", "s3:GetObjectVersion", "s3:PutBucketVersioning", "s3:GetBucketVersioning",
	"s3:PutBucketOwnershipControls", "s3:GetBucketOwnershipControls", "s3:*", "s3:Get*", "s3:Put*", "s3:Delete*", "s3:GetObject*"}

// Policy draws a valid policy for bucket b.
func (g *Gen) Policy(b string) *Policy {
	g.nextPol++
	p := &Policy{ID: g.nextPol}
	for n := 1 + g.R.Intn(3); n > 0; n-- {
		st := Stmt{Allow: g.R.Chance(70)}
		if g.R.Chance(25) {
			st.Principals = []string{"*"}
		} else {
			for i := 1 + g.R.Intn(2); i > 0; i-- {
				st.Principals = append(st.Principals, g.Accts[g.R.Intn(len(g.Accts))].Access)
			}
		}
		objAct, bktAct := false, false
		for i := 1 + g.R.Intn(3); i > 0; i-- {
			a := g.pick(allActions)
			st.Actions = append(st.Actions, a)
		}
		for _, a := range st.Actions {
			switch a {
			case "s3:*", "s3:Get*", "s3:Put*", "s3:Delete*":
				objAct, bktAct = true, true
			case "s3:GetObject", "s3:PutObject", "s3:DeleteObject", "s3:GetObjectTagging", "s3:PutObjectTagging", "s3:DeleteObjectTagging", "s3:GetObjectVersion", "s3:GetObject*":
				objAct = true
			default:
				bktAct = true
			}
		}
		if bktAct {
			st.Resources = append(st.Resources, b)
		}
		if objAct {
			st.Resources = append(st.Resources, g.pick([]string{b + "/*", b + "/dir/*", b + "/k1", b + "/*.txt", b + "/d?r/*", b + "/*"}))
		}
		p.Stmts = append(p.Stmts, st)
	}
	return p
}

// Op draws one operation of the stage-1 vocabulary.
func (g *Gen) Op() *Op {
	o := &Op{Caller: g.Caller(), B: g.pick(g.Buckets), K: g.pick(g.Keys), Valid: true}
	switch n := g.R.Intn(100); {
	case n < 6:
		o.Kind = "createBucket"
		if g.R.Chance(40) {
			o.Own = g.pick([]string{"BucketOwnerPreferred", "ObjectWriter", "BucketOwnerEnforced"})
			if o.Own != "BucketOwnerEnforced" && g.R.Chance(60) {
				o.Canned = g.pick([]string{"private", "public-read", "public-read-write"})
			}
		}
	case n < 9:
		o.Kind = "deleteBucket"
	case n < 11:
		o.Kind = "headBucket"
	case n < 13:
		o.Kind = "listBuckets"
	case n < 19:
		o.Kind = "putBucketPolicy"
		o.Policy = g.Policy(o.B)
	case n < 21:
		o.Kind = "getBucketPolicy"
	case n < 22:
		o.Kind = "deleteBucketPolicy"
	case n < 25:
		o.Kind = "putBucketAcl"
		o.Canned = g.pick([]string{"private", "public-read", "public-read-write"})
		if g.R.Chance(35) {
			// the ACL given by grant headers instead of a canned one
			o.Kind, o.Canned = "putBucketAclGrants", ""
			for i := 1 + g.R.Intn(3); i > 0; i-- {
				o.Grants = append(o.Grants, [2]string{g.pick([]string{"FULL_CONTROL", "READ", "READ_ACP", "WRITE", "WRITE_ACP"}), g.Accts[1+g.R.Intn(len(g.Accts)-1)].Access})
			}
		}
	case n < 27:
		o.Kind = "getBucketAcl"
	case n < 29:
		o.Kind = "putBucketTagging"
		o.Tags = g.KVs([]string{"team", "env", "cost"}, 3)
	case n < 31:
		o.Kind = "getBucketTagging"
	case n < 32:
		o.Kind = "deleteBucketTagging"
	case n < 34:
		o.Kind = "putOwnership"
		o.Own = g.pick([]string{"BucketOwnerPreferred", "ObjectWriter", "BucketOwnerEnforced"})
	case n < 36:
		o.Kind = "getOwnership"
	case n < 37:
		o.Kind = "deleteOwnership"
	case n < 55:
		o.Kind = "putObject"
		o.Put = g.PutSpec()
	case n < 67:
		o.Kind = "getObject"
	case n < 72:
		o.Kind = "headObject"
	case n < 77:
		o.Kind = "deleteObject"
	case n < 80:
		o.Kind = "deleteObjects"
		for i := 1 + g.R.Intn(3); i > 0; i-- {
			o.Keys = append(o.Keys, [2]string{g.pick(g.Keys), ""})
		}
	case n < 88:
		o.Kind = "copyObject"
		o.SB, o.SK = g.pick(g.Buckets), g.pick(g.Keys)
		o.SrcOver = g.R.Chance(25)
		if g.R.Chance(40) {
			o.Put = g.PutSpec()
			o.Put.Data = nil
		}
	case n < 92:
		o.Kind = "putObjectTagging"
		o.Tags = g.KVs([]string{"t1", "t2", "env"}, 3)
	case n < 96:
		o.Kind = "getObjectTagging"
	default:
		o.Kind = "deleteObjectTagging"
	}
	return o
}

func (o *Op) String() string {
	return fmt.Sprintf("%s %s %s/%s", o.Caller, o.Kind, o.B, o.K)
}

// Prelude: a few buckets with different owners/ACL settings and some objects, so that the random
// body of a program mostly hits existing resources.
func (g *Gen) Prelude() []*Op {
	var ops []*Op
	owners := []string{"root", "u:up1", "u:adm1"}
	for i, b := range g.Buckets {
		if i == 2 && g.R.Chance(50) {
			continue // leave one bucket missing half of the time
		}
		o := &Op{Kind: "createBucket", Caller: owners[g.R.Intn(len(owners))], B: b, Valid: true}
		if g.R.Chance(60) {
			o.Own = g.pick([]string{"BucketOwnerPreferred", "ObjectWriter"})
			if g.R.Chance(60) {
				o.Canned = g.pick([]string{"private", "public-read", "public-read-write"})
			}
		}
		ops = append(ops, o)
		for k := g.R.Intn(3); k > 0; k-- {
			ops = append(ops, &Op{Kind: "putObject", Caller: o.Caller, B: b, K: g.pick(g.Keys), Put: g.PutSpec(), Valid: true})
		}
		if g.R.Chance(40) {
			ops = append(ops, &Op{Kind: "putBucketPolicy", Caller: o.Caller, B: b, Policy: g.Policy(b), Valid: true})
		}
	}
	return ops
}
