package prog

import (
	"encoding/json"
	"fmt"
	"io"
	"net"
	"net/http"
	"sort"
	"sync"
	"time"
)

// Hook is a local webhook endpoint collecting the notification records the gateway sends.
type Hook struct {
	URL      string
	mu       sync.Mutex
	recs     []string
	vids     []string // "<event name> <hex key> <version id>" of the records in recs
	lastVids []string
	last     time.Time
	srv      *http.Server
}

type hookRecord struct {
	Records []struct {
		EventName string `json:"eventName"`
		S3        struct {
			Bucket struct {
				Name string `json:"name"`
			} `json:"bucket"`
			Object struct {
				Key       string  `json:"key"`
				Size      int64   `json:"size"`
				ETag      *string `json:"eTag"`
				VersionId *string `json:"versionId"`
			} `json:"object"`
		} `json:"s3"`
	} `json:"Records"`
}

func StartHook() (*Hook, error) {
	l, err := net.Listen("tcp", "127.0.0.1:0")
	if err != nil {
		return nil, err
	}
	h := &Hook{URL: "http://" + l.Addr().String() + "/events"}
	mux := http.NewServeMux()
	mux.HandleFunc("/events", func(w http.ResponseWriter, r *http.Request) {
		b, _ := io.ReadAll(r.Body)
		var rec hookRecord
		if json.Unmarshal(b, &rec) == nil {
			h.mu.Lock()
			for _, x := range rec.Records {
				et := ""
				if x.S3.Object.ETag != nil {
					et = *x.S3.Object.ETag
				}
				h.recs = append(h.recs, fmt.Sprintf("%s %s %s %d %s", x.EventName, hx(x.S3.Bucket.Name), hx(x.S3.Object.Key), x.S3.Object.Size, hx(et)))
				vid := ""
				if x.S3.Object.VersionId != nil {
					vid = *x.S3.Object.VersionId
				}
				h.vids = append(h.vids, fmt.Sprintf("%s %s %s", x.EventName, hx(x.S3.Object.Key), vid))
			}
			h.last = time.Now()
			h.mu.Unlock()
		}
		w.WriteHeader(200)
	})
	h.srv = &http.Server{Handler: mux}
	go h.srv.Serve(l)
	return h, nil
}

func (h *Hook) Close() { h.srv.Close() }

// LastVids: event name, key and version id of the records the last Drain returned.
func (h *Hook) LastVids() []string {
	h.mu.Lock()
	defer h.mu.Unlock()
	return h.lastVids
}

// Drain waits until no record has arrived for `quiet` (at most `max`) and returns the records
// received since the last Drain, sorted.
func (h *Hook) Drain(quiet, max time.Duration) []string { return h.DrainFirst(quiet, max, quiet) }

// DrainFirst is Drain that waits up to `first` for the first record (the gateway sends its notifications from
// a goroutine of their own: after a successful mutating request the record may arrive a little later).
func (h *Hook) DrainFirst(quiet, max, first time.Duration) []string {
	start := time.Now()
	for {
		h.mu.Lock()
		idle := time.Since(h.last)
		n := len(h.recs)
		h.mu.Unlock()
		if (n == 0 && time.Since(start) >= first) || (n > 0 && idle >= quiet) || time.Since(start) >= max {
			break
		}
		time.Sleep(time.Millisecond)
	}
	h.mu.Lock()
	out := h.recs
	h.recs = nil
	h.lastVids, h.vids = h.vids, nil
	h.mu.Unlock()
	sort.Strings(out)
	return out
}
