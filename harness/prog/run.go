package prog

import (
	"encoding/hex"
	"fmt"
	"strings"

	"verif/harness/gw"
	"verif/harness/lib"
)

type Acct struct {
	Access, Secret, Role string
	UID, GID             int
}

// AdminCreateUser creates an account through the admin API (signed as root).
func (w *World) AdminCreateUser(a Acct) error {
	body := fmt.Sprintf("<Account><Access>%s</Access><Secret>%s</Secret><Role>%s</Role><UserID>%d</UserID><GroupID>%d</GroupID></Account>", a.Access, a.Secret, a.Role, a.UID, a.GID)
	r := gw.Do(w.Gws[0].AdminAddr(), gw.Req{Method: "PATCH", Path: "/create-user", Body: []byte(body), Auth: "header", Creds: w.Root})
	if r.Status != 201 && r.Status != 200 {
		return fmt.Errorf("create-user %s: %d %s %v", a.Access, r.Status, r.Body, r.Err)
	}
	if w.Secrets == nil {
		w.Secrets = map[string]string{}
	}
	w.Secrets[a.Access] = a.Secret
	return nil
}

type Setup struct {
	Readonly   bool
	Versioning bool
	Accounts   []Acct
	Filter     string // "" = no event filter file; else `name=1,name=0,…`
}

func (s Setup) Lines(root string) []string {
	b := func(x bool) string {
		if x {
			return "1"
		}
		return "0"
	}
	out := []string{fmt.Sprintf("gw reset %s %s %s", b(s.Readonly), b(s.Versioning), lib.HexS(root))}
	for _, a := range s.Accounts {
		out = append(out, fmt.Sprintf("gw acct %s %s %s", lib.HexS(a.Access), lib.HexS(a.Secret), a.Role))
	}
	if s.Filter != "" {
		out = append(out, "gw filter "+s.Filter)
	}
	return out
}

// Step is one executed op with both answers.
type Step struct {
	CompareEvents bool
	Op            *Op
	Impl          string
	Model         string
	Events        string
	Obs           *Obs
}

// Diff classifies the difference between implementation and model for one step:
// "" (equal), "fine" (both refuse, different code), or a coarse class.
func (s *Step) Diff() (class string) {
	if s.Impl == s.Model {
		if s.CompareEvents {
			me := canonEvents(s.Events)
			ie := strings.Join(s.Obs.Events, ";")
			if me != ie {
				return "events-differ(impl=[" + ie + "] model=[" + me + "])"
			}
		}
		return ""
	}
	ic, mc := codeOf(s.Impl), codeOf(s.Model)
	switch {
	case ic == "" && mc != "":
		return "impl-succeeds-model-refuses(" + mc + ")"
	case ic != "" && mc == "":
		return "impl-refuses(" + ic + ")-model-succeeds"
	case ic != "" && mc != "":
		if strings.HasPrefix(ic, "TRANSPORT") || strings.HasPrefix(ic, "HTTP5") || ic == "InternalError" {
			return "impl-fails(" + ic + ")"
		}
		return "fine"
	}
	// both succeed: which fields differ
	fi, fm := fieldsOf(s.Impl), fieldsOf(s.Model)
	var d []string
	for k, v := range fm {
		if fi[k] != v {
			d = append(d, k)
		}
	}
	for k := range fi {
		if _, ok := fm[k]; !ok {
			d = append(d, k)
		}
	}
	sortStrings(d)
	return "fields-differ(" + strings.Join(d, ",") + ")"
}

func sortStrings(d []string) {
	for i := 1; i < len(d); i++ {
		for j := i; j > 0 && d[j] < d[j-1]; j-- {
			d[j], d[j-1] = d[j-1], d[j]
		}
	}
}

func codeOf(line string) string {
	f := strings.SplitN(line, " ", 2)[0]
	return strings.TrimPrefix(f, "code=")
}

func fieldsOf(line string) map[string]string {
	m := map[string]string{}
	for i, f := range strings.Split(line, " ") {
		if i == 0 || f == "" {
			continue
		}
		kv := strings.SplitN(f, "=", 2)
		if len(kv) == 2 {
			m[kv[0]] = kv[1]
		}
	}
	return m
}

// Run executes ops against the world, then replays them on the Lean model.
func Run(w *World, drv *lib.Driver, setup Setup, ops []*Op) ([]*Step, error) {
	steps := make([]*Step, 0, len(ops))
	lines := setup.Lines(w.Root.Access)
	nsetup := len(lines)
	for _, o := range ops {
		o.ResolveRefs(steps)
		obs := w.Exec(o)
		steps = append(steps, &Step{Op: o, Impl: obs.Line(), Obs: obs})
		lines = append(lines, o.ModelLine(obs))
	}
	out, err := drv.Ask(lines)
	if err != nil {
		return steps, err
	}
	for i, s := range steps {
		raw := out[nsetup+i]
		if raw == "bad-op" {
			return steps, fmt.Errorf("model driver rejected line: %s", lines[nsetup+i])
		}
		s.SetModel(raw)
	}
	return steps, nil
}

// SetModel stores the model's raw answer line, normalised for comparison with Impl.
func (s *Step) SetModel(raw string) {
	{
		s.Model, s.Events = NormaliseModel(raw)
		if strings.HasPrefix(s.Op.Kind, "head") {
			// HEAD answers carry no error document: only the status is observable
			for _, c := range []string{"NoSuchBucket", "NoSuchKey", "NoSuchVersion"} {
				if codeOf(s.Model) == c {
					s.Model = "code=NotFound" + strings.TrimPrefix(s.Model, "code="+c)
				}
			}
			for _, c := range []string{"InvalidArgument", "InvalidRequest"} {
				if codeOf(s.Model) == c {
					s.Model = "code=HTTP400" + strings.TrimPrefix(s.Model, "code="+c)
				}
			}
		}
		s.Impl = strings.TrimRight(s.Impl, " ")
		if s.Op.Kind == "listVersions" {
			s.Model = canonVersionsField(s.Model)
		}
		if s.Op.Kind == "deleteObjects" {
			s.Model = sortListField(s.Model, "deleted=")
		}
		if s.Op.Kind == "listUploads" {
			s.Model = sortListField(s.Model, "uploads=")
		}
	}
}

// canonVersionsField sorts, per key, the non-latest entries of a `versions=` field by version id
// (newest ULID first, null last): the XML answer lists versions and delete markers in two
// separate sequences, so their relative order is not observable.
func canonVersionsField(line string) string {
	fs := strings.Split(line, " ")
	for i, f := range fs {
		if !strings.HasPrefix(f, "versions=") || f == "versions=" {
			continue
		}
		ents := strings.Split(f[len("versions="):], ",")
		sortVersionEntries(ents)
		fs[i] = "versions=" + strings.Join(ents, ",")
	}
	return strings.Join(fs, " ")
}

func sortVersionEntries(ents []string) {
	key := func(e string) (k string, latest bool, vid string) {
		p := strings.Split(e, ":")
		if len(p) < 3 {
			return e, false, ""
		}
		v, _ := hexDecode(p[1])
		return p[0], p[2] == "L", v
	}
	// stable insertion sort by (key hex order is fine: same key groups stay together as emitted)
	for i := 1; i < len(ents); i++ {
		for j := i; j > 0; j-- {
			k1, l1, v1 := key(ents[j-1])
			k2, l2, v2 := key(ents[j])
			if k1 != k2 {
				break
			}
			swap := false
			if l1 != l2 {
				swap = l2
			} else if !l1 {
				swap = versionNewer(v2, v1)
			}
			if !swap {
				break
			}
			ents[j-1], ents[j] = ents[j], ents[j-1]
		}
	}
}

func hexDecode(s string) (string, error) {
	if s == "-" {
		return "", nil
	}
	b, err := hex.DecodeString(s)
	return string(b), err
}

// RunAdaptive is Run for programs whose next op depends on what the implementation answered so
// far (version ids, upload ids): next returns nil when the program is complete.
func RunAdaptive(w *World, drv *lib.Driver, setup Setup, next func(hist []*Step) *Op) ([]*Step, error) {
	var steps []*Step
	lines := setup.Lines(w.Root.Access)
	nsetup := len(lines)
	for {
		o := next(steps)
		if o == nil {
			break
		}
		obs := w.Exec(o)
		steps = append(steps, &Step{Op: o, Impl: obs.Line(), Obs: obs})
		lines = append(lines, o.ModelLine(obs))
	}
	out, err := drv.Ask(lines)
	if err != nil {
		return steps, err
	}
	for i, s := range steps {
		raw := out[nsetup+i]
		if raw == "bad-op" {
			return steps, fmt.Errorf("model driver rejected line: %s", lines[nsetup+i])
		}
		s.SetModel(raw)
	}
	return steps, nil
}

// Describe renders a step list (up to and including index upto) for samples and replays.
func Describe(steps []*Step, upto int) []string {
	var out []string
	for i, s := range steps {
		if i > upto {
			break
		}
		extra := ""
		if s.Op.Vid != "" {
			extra += "?versionId=" + s.Op.Vid
		}
		if s.Op.Kind == "copyObject" {
			extra += " <- " + s.Op.SB + "/" + s.Op.SK
			if s.Op.SVid != "" {
				extra += "?versionId=" + s.Op.SVid
			}
			if s.Op.Put != nil {
				extra += " REPLACE"
			}
		}
		if s.Op.Kind == "deleteObjects" {
			extra += fmt.Sprintf(" %v", s.Op.Keys)
		}
		if s.Op.Kind == "putVersioning" {
			extra += fmt.Sprintf(" on=%v", s.Op.On)
		}
		out = append(out, fmt.Sprintf("%s %s %s/%s%s -> impl[%s] model[%s]", s.Op.Caller, s.Op.Kind, s.Op.B, s.Op.K, extra, s.Impl, s.Model))
	}
	return out
}

func sortListField(line, name string) string {
	fs := strings.Split(line, " ")
	for i, f := range fs {
		if strings.HasPrefix(f, name) && len(f) > len(name) {
			e := strings.Split(f[len(name):], ",")
			sortStrings(e)
			fs[i] = name + strings.Join(e, ",")
		}
	}
	return strings.Join(fs, " ")
}

func canonEvents(e string) string {
	if strings.TrimSpace(e) == "" {
		return ""
	}
	p := strings.Split(e, ";")
	sortStrings(p)
	return strings.Join(p, ";")
}

// ReconcileLateEvents: records are delivered asynchronously, so one may reach the collector after
// the next request has already been answered. A record the model expects at step i but that the
// implementation shows (unexpectedly) at one of the next three steps is moved back to step i.
func ReconcileLateEvents(steps []*Step) {
	for i, s := range steps {
		if s.Impl != s.Model {
			continue
		}
		want := map[string]int{}
		for _, e := range strings.Split(s.Events, ";") {
			if e = strings.TrimSpace(e); e != "" {
				want[e]++
			}
		}
		for _, e := range s.Obs.Events {
			want[e]--
		}
		for e, n := range want {
			for ; n > 0; n-- {
				for j := i + 1; j < len(steps) && j <= i+3; j++ {
					later := steps[j]
					expect := 0
					for _, x := range strings.Split(later.Events, ";") {
						if strings.TrimSpace(x) == e {
							expect++
						}
					}
					have, idx := 0, -1
					for k, x := range later.Obs.Events {
						if x == e {
							have++
							idx = k
						}
					}
					if have > expect && idx >= 0 {
						later.Obs.Events = append(later.Obs.Events[:idx:idx], later.Obs.Events[idx+1:]...)
						s.Obs.Events = append(s.Obs.Events, e)
						sortStrings(s.Obs.Events)
						break
					}
				}
			}
		}
	}
}
