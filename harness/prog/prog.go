// Package prog: abstract S3 operations (the op language of the Lean gateway model `Model.Gw`),
// their execution against real gateway processes, and the canonicalisation of what came back into
// the model's response language.
package prog

import (
	"bytes"
	"crypto/md5"
	"crypto/sha256"
	"encoding/hex"
	"encoding/xml"
	"fmt"
	"sort"
	"strconv"
	"strings"
	"time"

	"verif/harness/gw"
	"verif/harness/lib"
)

type KV struct{ K, V string }

type Seg struct{ Seed, Off, Len int }

// Bytes of a data description: byte i of stream `seed` is a fixed pseudo-random function of (seed, i).
func StreamByte(seed, i int) byte {
	z := uint64(seed)<<32 + uint64(i/8)
	z += 0x9E3779B97F4A7C15
	z = (z ^ (z >> 30)) * 0xBF58476D1CE4E5B9
	z = (z ^ (z >> 27)) * 0x94D049BB133111EB
	z ^= z >> 31
	return byte(z >> (8 * uint(i%8)))
}

func Expand(d []Seg) []byte {
	n := 0
	for _, s := range d {
		n += s.Len
	}
	out := make([]byte, 0, n)
	for _, s := range d {
		for i := 0; i < s.Len; i++ {
			out = append(out, StreamByte(s.Seed, s.Off+i))
		}
	}
	return out
}

func ShowData(d []Seg) string {
	if len(d) == 0 {
		return "-"
	}
	var p []string
	for _, s := range d {
		p = append(p, fmt.Sprintf("%d:%d:%d", s.Seed, s.Off, s.Len))
	}
	return strings.Join(p, ",")
}

func ParseData(s string) []Seg {
	if s == "-" || s == "" {
		return nil
	}
	var out []Seg
	for _, p := range strings.Split(s, ",") {
		var a, b, c int
		fmt.Sscanf(p, "%d:%d:%d", &a, &b, &c)
		out = append(out, Seg{a, b, c})
	}
	return out
}

func digest(b []byte) string {
	h := sha256.Sum256(b)
	return fmt.Sprintf("@%s:%d", hex.EncodeToString(h[:8]), len(b))
}

type PutSpec struct {
	Data      []Seg
	CType     string
	Meta      []KV // lower-case keys
	Hdrs      []KV // content-encoding, content-language, content-disposition, cache-control, expires
	Tags      []KV
	HasTags   bool
	Hold      bool
	Retention string // "" | "G:<unix>" | "C:<unix>"
	Encoding  string // header | unsigned | stream-signed | stream-signed-trailer | stream-unsigned-trailer | presign
	Chunks    []int
	Trailer   string
	// Ck (createUpload only): the upload is created with x-amz-checksum-algorithm <Ck> and
	// x-amz-checksum-type FULL_OBJECT (crc32 | crc32c | crc64nvme); its parts are then sent with their
	// checksum and the completion names them. Not part of the model's input: the stored object, its ETag and
	// metadata are the same as without.
	Ck string `json:",omitempty"`
}

type PartRef struct {
	Num  int
	ETag string
}

type Stmt struct {
	Allow      bool
	Principals []string
	Actions    []string
	Resources  []string // without the arn prefix
}

type Policy struct {
	ID    int
	Stmts []Stmt
	Raw   string // when non-empty: sent verbatim (invalid documents)
}

type Op struct {
	Kind    string
	Caller  string // "root" | "anon:<defect>" | "u:<access>"
	B, K    string
	Vid     string
	SB, SK  string
	SVid    string
	Grants  [][2]string // putBucketAclGrants: (permission, access) pairs as sent: FULL_CONTROL|READ|READ_ACP|WRITE|WRITE_ACP
	VidRef  int         // 1 / 2: Vid = newest / oldest version id issued so far for (B, K) in this program (resolved by the runner)
	UpRef   bool        // UpID = the id of the first upload created for (B, K) in this program (resolved by the runner)
	SrcOver bool        // spell the copy source with more percent-escapes than needed (the same source for S3)
	Put     *PutSpec
	Canned  string
	Own     string
	Lock    bool
	Valid   bool
	Policy  *Policy
	Tags    []KV
	Keys    [][2]string
	On      bool
	Bypass  bool
	Now     int64
	Mode    string // lock: "" | "G" | "C"
	UpID    string
	Prefix  string
	Token   string
	Max     int // listBuckets: 0 = not sent (10000)
	Num     int
	Data    []Seg
	Range   *[2]int
	Parts   []PartRef
	Days    int
	Until   int64
}

func hx(s string) string { return lib.HexS(s) }

func showKVs(m []KV) string {
	if len(m) == 0 {
		return "-"
	}
	m = append([]KV{}, m...)
	sort.Slice(m, func(i, j int) bool { return m[i].K < m[j].K })
	var p []string
	for _, kv := range m {
		p = append(p, hx(kv.K)+":"+hx(kv.V))
	}
	return strings.Join(p, ",")
}

func md5q(b []byte) string {
	s := md5.Sum(b)
	return "\"" + hex.EncodeToString(s[:]) + "\""
}

func (p *PutSpec) ETag() string {
	s := md5.Sum(Expand(p.Data))
	return "\"" + hex.EncodeToString(s[:]) + "\""
}

func (p *PutSpec) line() string {
	tags := "~"
	if p.HasTags {
		tags = showKVs(p.Tags)
	}
	hold := "0"
	if p.Hold {
		hold = "1"
	}
	ret := "~"
	if p.Retention != "" {
		ret = p.Retention
	}
	return strings.Join([]string{ShowData(p.Data), hx(p.ETag()), hx(p.CType), showKVs(p.Meta), showKVs(p.Hdrs), tags, hold, ret}, " ")
}

func (p *Policy) line() string {
	var st []string
	for _, s := range p.Stmts {
		e := "D"
		if s.Allow {
			e = "A"
		}
		l := func(xs []string) string {
			if len(xs) == 0 {
				return "-"
			}
			var h []string
			for _, x := range xs {
				h = append(h, hx(x))
			}
			return strings.Join(h, ",")
		}
		st = append(st, e+"/"+l(s.Principals)+"/"+l(s.Actions)+"/"+l(s.Resources))
	}
	s := strings.Join(st, ";")
	if s == "" {
		s = "-"
	}
	return fmt.Sprintf("%d %s", p.ID, s)
}

func (p *Policy) JSON() string {
	if p.Raw != "" {
		return p.Raw
	}
	q := func(xs []string, pre string) string {
		var o []string
		for _, x := range xs {
			o = append(o, strconv.Quote(pre+x))
		}
		return "[" + strings.Join(o, ",") + "]"
	}
	var st []string
	for _, s := range p.Stmts {
		eff := "Deny"
		if s.Allow {
			eff = "Allow"
		}
		st = append(st, fmt.Sprintf(`{"Effect":"%s","Principal":%s,"Action":%s,"Resource":%s}`, eff, q(s.Principals, ""), q(s.Actions, ""), q(s.Resources, "arn:aws:s3:::")))
	}
	return fmt.Sprintf(`{"Version":"2012-10-17","Id":"p%d","Statement":[%s]}`, p.ID, strings.Join(st, ","))
}

// ModelLine renders the op as a `gw step …` line; ids chosen by the server are taken from obs.
func (o *Op) ModelLine(obs *Obs) string {
	caller := o.Caller
	if strings.HasPrefix(caller, "anon") {
		caller = "anon"
	} else if strings.HasPrefix(caller, "u:") {
		caller = "u:" + hx(caller[2:])
	}
	b01 := func(b bool) string {
		if b {
			return "1"
		}
		return "0"
	}
	opt := func(s string) string {
		if s == "" {
			return "~"
		}
		return s
	}
	var a []string
	switch o.Kind {
	case "createBucket":
		c := o.Canned
		if c == "" {
			c = "none"
		}
		a = []string{hx(o.B), c, opt(o.Own), b01(o.Lock), b01(o.Valid)}
	case "deleteBucket", "headBucket", "getBucketPolicy", "deleteBucketPolicy", "getBucketAcl", "getBucketTagging",
		"deleteBucketTagging", "getOwnership", "deleteOwnership", "getVersioning":
		a = []string{hx(o.B)}
	case "listBuckets":
		mx := o.Max
		if mx == 0 {
			mx = 10000
		}
		if mx < 0 {
			mx = 0
		}
		a = []string{hx(o.Prefix), hx(o.Token), strconv.Itoa(mx)}
	case "putBucketPolicy":
		a = []string{hx(o.B), o.Policy.line(), b01(o.Valid)}
	case "putBucketAclGrants":
		var gs []string
		for _, g := range normGrants(o.Grants) {
			gs = append(gs, g[0]+":"+hx(g[1]))
		}
		j := "-"
		if len(gs) > 0 {
			j = strings.Join(gs, ",")
		}
		a = []string{hx(o.B), j}
	case "putBucketAcl":
		c := o.Canned
		if c == "" {
			c = "none"
		}
		a = []string{hx(o.B), c}
	case "putBucketTagging":
		a = []string{hx(o.B), showKVs(o.Tags)}
	case "putOwnership":
		a = []string{hx(o.B), o.Own}
	case "putVersioning":
		a = []string{hx(o.B), b01(o.On)}
	case "putObject":
		a = []string{hx(o.B), hx(o.K), hx(obs.NewVid), o.Put.line()}
	case "getObject", "headObject":
		a = []string{hx(o.B), hx(o.K), hx(o.Vid)}
	case "deleteObject":
		a = []string{hx(o.B), hx(o.K), hx(o.Vid), b01(o.Bypass), hx(obs.NewVid)}
	case "deleteObjects":
		var ks, vs []string
		for _, kv := range o.Keys {
			ks = append(ks, hx(kv[0])+":"+hx(kv[1]))
		}
		for _, v := range obs.NewVids {
			vs = append(vs, hx(v))
		}
		j := func(x []string) string {
			if len(x) == 0 {
				return "-"
			}
			return strings.Join(x, ",")
		}
		a = []string{hx(o.B), j(ks), b01(o.Bypass), j(vs)}
	case "copyObject":
		a = []string{hx(o.SB), hx(o.SK), hx(o.SVid), hx(o.B), hx(o.K), hx(obs.NewVid)}
		if o.Put == nil {
			a = append(a, "COPY")
		} else {
			a = append(a, "REPLACE", o.Put.line())
		}
	case "putObjectTagging":
		a = []string{hx(o.B), hx(o.K), showKVs(o.Tags)}
	case "getObjectTagging", "deleteObjectTagging":
		a = []string{hx(o.B), hx(o.K)}
	case "listVersions", "getLockConfig", "listUploads":
		a = []string{hx(o.B)}
	case "createUpload":
		a = []string{hx(o.B), hx(o.K), hx(obs.NewID), o.Put.line()}
	case "uploadPart":
		a = []string{hx(o.B), hx(o.K), hx(o.UpID), strconv.Itoa(o.Num), ShowData(o.Data), hx(strings.Trim(md5q(Expand(o.Data)), "\""))}
	case "uploadPartCopy":
		rg := "~"
		if o.Range != nil {
			rg = fmt.Sprintf("%d:%d", o.Range[0], o.Range[1])
			if o.Range[1] < 0 {
				rg = fmt.Sprintf("%d:4611686018427387904", o.Range[0])
			}
		}
		a = []string{hx(o.B), hx(o.K), hx(o.UpID), strconv.Itoa(o.Num), hx(o.SB), hx(o.SK), hx(o.SVid), rg, hx(obs.CopyETag)}
	case "listParts", "abortUpload":
		a = []string{hx(o.B), hx(o.K), hx(o.UpID)}
	case "completeUpload":
		var ps []string
		var cat []byte
		for _, p := range o.Parts {
			ps = append(ps, fmt.Sprintf("%d:%s", p.Num, hx(p.ETag)))
			raw, err := hex.DecodeString(strings.Trim(p.ETag, "\""))
			if err != nil {
				raw = []byte(p.ETag)
			}
			cat = append(cat, raw...)
		}
		sum := md5.Sum(cat)
		mp := fmt.Sprintf("\"%s-%d\"", hex.EncodeToString(sum[:]), len(o.Parts))
		j := "-"
		if len(ps) > 0 {
			j = strings.Join(ps, ",")
		}
		a = []string{hx(o.B), hx(o.K), hx(o.UpID), j, hx(mp), hx(obs.NewVid)}
	case "putLockConfig":
		a = []string{hx(o.B), b01(o.On), opt(o.Mode), strconv.Itoa(o.Days)}
	case "putRetention":
		a = []string{hx(o.B), hx(o.K), hx(o.Vid), fmt.Sprintf("%s:%d", o.Mode, o.Until), b01(o.Bypass)}
	case "getRetention", "getLegalHold":
		a = []string{hx(o.B), hx(o.K), hx(o.Vid)}
	case "putLegalHold":
		a = []string{hx(o.B), hx(o.K), hx(o.Vid), b01(o.On)}
	}
	return fmt.Sprintf("gw step %s %d %s %s", caller, o.Now, o.Kind, strings.Join(a, " "))
}

// Obs is what the implementation answered, canonicalised.
type Obs struct {
	Events    []string
	EventVids []string // "<event name> <hex key> <version id>" of the same records
	NewID     string
	CopyETag  string
	Status    int
	Code      string
	Fields    []KV
	NewVid    string
	NewVids   []string
	Raw       gw.Resp
}

func (o *Obs) Line() string {
	var f []string
	for _, kv := range o.Fields {
		f = append(f, kv.K+"="+kv.V)
	}
	return "code=" + o.Code + " " + strings.Join(f, " ")
}

// World: the gateway(s) under test plus the credentials known to the harness.
type World struct {
	Hook     *Hook // when set, notification records are collected after every request
	Gws      []*gw.Gateway
	Root     gw.Creds
	Secrets  map[string]string // access -> secret of accounts created so far
	Policies map[string]int    // raw policy document -> id
	rr       int
	ck       map[string]string // upload id -> checksum algorithm of a FULL_OBJECT upload
	partCk   map[string]string // upload id / part number -> checksum the gateway answered for the part
}

func (w *World) addr() string {
	g := w.Gws[w.rr%len(w.Gws)]
	w.rr++
	return g.Addr()
}

func (w *World) creds(caller string) (gw.Creds, string) {
	switch {
	case caller == "root":
		return w.Root, ""
	case strings.HasPrefix(caller, "u:"):
		a := caller[2:]
		return gw.Creds{Access: a, Secret: w.Secrets[a]}, ""
	case strings.HasPrefix(caller, "anon:"):
		// a credential defect on top of root's otherwise valid request
		d := caller[5:]
		switch d {
		case "wrong-secret":
			return gw.Creds{Access: w.Root.Access, Secret: w.Root.Secret + "x"}, ""
		case "unknown-key":
			return gw.Creds{Access: "nosuchaccesskey", Secret: w.Root.Secret}, ""
		}
		return w.Root, d
	}
	return w.Root, ""
}

func canonCode(r gw.Resp, anon bool) string {
	if r.Err != nil && r.Status == 0 {
		return "TRANSPORT:" + r.Err.Error()
	}
	if r.Status >= 200 && r.Status < 300 {
		return ""
	}
	if anon && r.Status >= 400 && r.Status < 500 {
		return "AccessDenied"
	}
	if c := r.ErrCode(); c != "" {
		if c == "VersionedBucketNotEmpty" {
			return "BucketNotEmpty"
		}
		return c
	}
	switch r.Status {
	case 403:
		return "AccessDenied"
	case 404:
		return "NotFound"
	case 405:
		return "MethodNotAllowed"
	}
	return "HTTP" + strconv.Itoa(r.Status)
}

func tagsXML(tags []KV) []byte {
	var b bytes.Buffer
	b.WriteString(`<Tagging xmlns="http://s3.amazonaws.com/doc/2006-03-01/"><TagSet>`)
	for _, t := range tags {
		b.WriteString("<Tag><Key>")
		xml.EscapeText(&b, []byte(t.K))
		b.WriteString("</Key><Value>")
		xml.EscapeText(&b, []byte(t.V))
		b.WriteString("</Value></Tag>")
	}
	b.WriteString(`</TagSet></Tagging>`)
	return b.Bytes()
}

type xmlTagging struct {
	Tags []struct {
		Key   string `xml:"Key"`
		Value string `xml:"Value"`
	} `xml:"TagSet>Tag"`
}

func parseTags(body []byte) []KV {
	var t xmlTagging
	xml.Unmarshal(body, &t)
	var out []KV
	for _, x := range t.Tags {
		out = append(out, KV{x.Key, x.Value})
	}
	return out
}

// normGrants: the grants as the gateway keeps them: header order FULL_CONTROL, READ, READ_ACP, WRITE, WRITE_ACP;
// within one header the order given, repetitions within one header dropped
func normGrants(gs [][2]string) [][2]string {
	var out [][2]string
	for _, p := range []string{"FULL_CONTROL", "READ", "READ_ACP", "WRITE", "WRITE_ACP"} {
		seen := map[string]bool{}
		for _, g := range gs {
			if g[0] == p && !seen[g[1]] {
				seen[g[1]] = true
				out = append(out, g)
			}
		}
	}
	return out
}

// ResolveRefs fills Vid / UpID of an op from the history of the program (see VidRef, UpRef).
func (o *Op) ResolveRefs(hist []*Step) {
	if o.VidRef != 0 {
		var vids []string
		for _, s := range hist {
			if s.Op.B == o.B && s.Op.K == o.K && s.Obs != nil && s.Obs.NewVid != "" {
				vids = append(vids, s.Obs.NewVid)
			}
		}
		if len(vids) > 0 {
			o.Vid = vids[len(vids)-1]
			if o.VidRef == 2 {
				o.Vid = vids[0]
			}
		}
	}
	for i := range o.Keys {
		// batch entries "@ref": the newest version id issued so far for that key (none issued: no version id)
		if o.Keys[i][1] == "@ref" {
			o.Keys[i][1] = ""
			for _, s := range hist {
				if s.Op.B == o.B && s.Op.K == o.Keys[i][0] && s.Obs != nil && s.Obs.NewVid != "" {
					o.Keys[i][1] = s.Obs.NewVid
				}
			}
		}
	}
	if o.UpRef {
		for _, s := range hist {
			if s.Op.Kind == "createUpload" && s.Op.B == o.B && s.Op.K == o.K && s.Obs != nil && s.Obs.NewID != "" {
				o.UpID = s.Obs.NewID
				break
			}
		}
	}
}

// copySource spells bucket/key for x-amz-copy-source; over=true escapes the slashes inside the key and every
// second letter as well (an equivalent spelling: the header is percent-decoded once by the server)
func copySource(bucket, key string, over bool) string {
	if !over {
		return gw.EncodePath(bucket + "/" + key)
	}
	var b strings.Builder
	b.WriteString(gw.EncodePath(bucket) + "/")
	for i := 0; i < len(key); i++ {
		c := key[i]
		if c == '/' || i%2 == 1 || !(c >= 'a' && c <= 'z' || c >= '0' && c <= '9') {
			fmt.Fprintf(&b, "%%%02X", c)
		} else {
			b.WriteByte(c)
		}
	}
	return b.String()
}

func tagQuery(tags []KV) string {
	var p []string
	for _, t := range tags {
		p = append(p, gw.EncodeQueryValue(t.K)+"="+gw.EncodeQueryValue(t.V))
	}
	return strings.Join(p, "&")
}

var hdrNames = []string{"cache-control", "content-disposition", "content-encoding", "content-language", "expires"}

func (w *World) putHeaders(r *gw.Req, p *PutSpec) {
	if p.CType != "" {
		r.Set("Content-Type", p.CType)
	}
	for _, m := range p.Meta {
		r.Set("x-amz-meta-"+m.K, m.V)
	}
	for _, h := range p.Hdrs {
		r.Set(h.K, h.V)
	}
	if p.HasTags {
		r.Set("x-amz-tagging", tagQuery(p.Tags))
	}
	if p.Hold {
		r.Set("x-amz-object-lock-legal-hold", "ON")
	}
	if p.Retention != "" {
		var m string
		var t int64
		fmt.Sscanf(strings.Replace(p.Retention, ":", " ", 1), "%s %d", &m, &t)
		r.Set("x-amz-object-lock-mode", lockModeName(m))
		r.Set("x-amz-object-lock-retain-until-date", time.Unix(t, 0).UTC().Format(time.RFC3339))
	}
}

func objFields(r gw.Resp, withBody bool) []KV {
	var f []KV
	if withBody {
		f = append(f, KV{"body", digest(r.Body)})
		f = append(f, KV{"size", strconv.Itoa(len(r.Body))})
	} else {
		f = append(f, KV{"size", r.Headers.Get("Content-Length")})
	}
	f = append(f, KV{"etag", hx(r.Headers.Get("ETag"))})
	// model-independent: an ETag that is not a multipart ETag is the MD5 of the bytes this GET returned
	if et := strings.Trim(r.Headers.Get("ETag"), "\""); withBody && r.Status == 200 && et != "" && !strings.Contains(et, "-") {
		if s := md5.Sum(r.Body); hex.EncodeToString(s[:]) != et {
			f = append(f, KV{"etag-is-not-md5-of-body", "1"})
		}
	}
	ct := r.Headers.Get("Content-Type")
	f = append(f, KV{"ctype", hx(ct)})
	var meta []KV
	for k, v := range r.Headers {
		lk := strings.ToLower(k)
		if strings.HasPrefix(lk, "x-amz-meta-") {
			meta = append(meta, KV{lk[len("x-amz-meta-"):], v[0]})
		}
	}
	f = append(f, KV{"meta", showKVs(meta)})
	var hd []KV
	for _, n := range hdrNames {
		if v := r.Headers.Get(n); v != "" {
			hd = append(hd, KV{n, v})
		}
	}
	f = append(f, KV{"hdrs", showKVs(hd)})
	if withBody {
		tc := r.Headers.Get("x-amz-tagging-count")
		if tc == "" {
			tc = "0"
		}
		f = append(f, KV{"tagcount", tc})
	}
	f = append(f, KV{"vid", hx(r.Headers.Get("x-amz-version-id"))})
	return f
}

type xmlACL struct {
	Owner struct {
		ID string `xml:"ID"`
	} `xml:"Owner"`
	Grants []struct {
		Grantee struct {
			Type string `xml:"type,attr"`
			ID   string `xml:"ID"`
		} `xml:"Grantee"`
		Permission string `xml:"Permission"`
	} `xml:"AccessControlList>Grant"`
}

// Exec runs one op against the world.
func (w *World) Exec(o *Op) *Obs {
	if o.Now == 0 {
		o.Now = time.Now().Unix()
	}
	cr, defect := w.creds(o.Caller)
	anon := strings.HasPrefix(o.Caller, "anon")
	req := gw.Req{Auth: "header", Creds: cr, Defect: defect}
	if anon {
		switch defect {
		case "old-date":
			req.TimeOffset = -3600
		case "future-date":
			req.TimeOffset = 3600
		case "wrong-region":
			req.Region = "eu-west-7"
		}
	}
	bpath := "/" + gw.EncodePath(o.B)
	kpath := bpath + "/" + gw.EncodePath(o.K)
	obs := &Obs{}
	fields := func(r gw.Resp) {}
	switch o.Kind {
	case "createBucket":
		req.Method, req.Path = "PUT", bpath
		if o.Canned != "" && o.Canned != "none" {
			req.Set("x-amz-acl", o.Canned)
		}
		if o.Own != "" {
			req.Set("x-amz-object-ownership", o.Own)
		}
		if o.Lock {
			req.Set("x-amz-bucket-object-lock-enabled", "true")
		}
	case "deleteBucket":
		req.Method, req.Path = "DELETE", bpath
	case "headBucket":
		req.Method, req.Path = "HEAD", bpath
	case "listBuckets":
		req.Method, req.Path = "GET", "/"
		var q []string
		if o.Prefix != "" {
			q = append(q, "prefix="+gw.EncodeQueryValue(o.Prefix))
		}
		if o.Token != "" {
			q = append(q, "continuation-token="+gw.EncodeQueryValue(o.Token))
		}
		if o.Max > 0 {
			q = append(q, "max-buckets="+strconv.Itoa(o.Max))
		} else if o.Max < 0 {
			q = append(q, "max-buckets=0")
		}
		req.Query = strings.Join(q, "&")
		fields = func(r gw.Resp) {
			var res struct {
				Buckets []struct {
					Name string `xml:"Name"`
				} `xml:"Buckets>Bucket"`
				Token string `xml:"ContinuationToken"`
			}
			xml.Unmarshal(r.Body, &res)
			var n []string
			for _, b := range res.Buckets {
				n = append(n, hx(b.Name))
			}
			obs.Fields = append(obs.Fields, KV{"buckets", strings.Join(n, ",")}, KV{"token", hx(res.Token)})
		}
	case "putBucketPolicy":
		req.Method, req.Path, req.Query = "PUT", bpath, "policy"
		doc := o.Policy.JSON()
		req.Body = []byte(doc)
		if w.Policies == nil {
			w.Policies = map[string]int{}
		}
		w.Policies[doc] = o.Policy.ID
	case "getBucketPolicy":
		req.Method, req.Path, req.Query = "GET", bpath, "policy"
		fields = func(r gw.Resp) {
			id, ok := w.Policies[string(r.Body)]
			v := strconv.Itoa(id)
			if !ok {
				v = "unknown:" + digest(r.Body)
			}
			obs.Fields = append(obs.Fields, KV{"policy", v})
		}
	case "deleteBucketPolicy":
		req.Method, req.Path, req.Query = "DELETE", bpath, "policy"
	case "putBucketAcl":
		req.Method, req.Path, req.Query = "PUT", bpath, "acl"
		if o.Canned != "" && o.Canned != "none" {
			req.Set("x-amz-acl", o.Canned)
		}
	case "putBucketAclGrants":
		req.Method, req.Path, req.Query = "PUT", bpath, "acl"
		hdr := map[string]string{"FULL_CONTROL": "x-amz-grant-full-control", "READ": "x-amz-grant-read", "READ_ACP": "x-amz-grant-read-acp", "WRITE": "x-amz-grant-write", "WRITE_ACP": "x-amz-grant-write-acp"}
		per := map[string][]string{}
		for _, g := range o.Grants {
			per[g[0]] = append(per[g[0]], g[1])
		}
		if o.Mode == "xml" {
			// the same ACL as an AccessControlPolicy document (one Grant element per pair, a grantee may repeat);
			// the document names the bucket's owner, asked from the gateway by root first
			ar := gw.Do(w.addr(), gw.Req{Method: "GET", Path: bpath, Query: "acl", Auth: "header", Creds: w.Root})
			var cur xmlACL
			xml.Unmarshal(ar.Body, &cur)
			var b bytes.Buffer
			b.WriteString(`<AccessControlPolicy xmlns="http://s3.amazonaws.com/doc/2006-03-01/"><Owner><ID>`)
			xml.EscapeText(&b, []byte(cur.Owner.ID))
			b.WriteString(`</ID></Owner><AccessControlList>`)
			for _, g := range normGrants(o.Grants) { // the order in which grant headers are applied (the stored order is not compared)
				b.WriteString(`<Grant><Grantee xmlns:xsi="http://www.w3.org/2001/XMLSchema-instance" xsi:type="CanonicalUser"><ID>`)
				xml.EscapeText(&b, []byte(g[1]))
				b.WriteString(`</ID></Grantee><Permission>` + g[0] + `</Permission></Grant>`)
			}
			b.WriteString(`</AccessControlList></AccessControlPolicy>`)
			req.Body = b.Bytes()
			break
		}
		for p, accs := range per {
			req.Set(hdr[p], strings.Join(accs, ","))
		}
	case "getBucketAcl":
		req.Method, req.Path, req.Query = "GET", bpath, "acl"
		fields = func(r gw.Resp) {
			var a xmlACL
			xml.Unmarshal(r.Body, &a)
			var g []string
			for _, x := range a.Grants {
				t := "u"
				if x.Grantee.Type == "Group" {
					t = "g"
				}
				g = append(g, hx(x.Grantee.ID)+":"+x.Permission+":"+t)
			}
			obs.Fields = append(obs.Fields, KV{"acl", hx(a.Owner.ID) + "|" + strings.Join(g, ",")})
		}
	case "putBucketTagging":
		req.Method, req.Path, req.Query, req.Body = "PUT", bpath, "tagging", tagsXML(o.Tags)
	case "getBucketTagging":
		req.Method, req.Path, req.Query = "GET", bpath, "tagging"
		fields = func(r gw.Resp) { obs.Fields = append(obs.Fields, KV{"tags", showKVs(parseTags(r.Body))}) }
	case "deleteBucketTagging":
		req.Method, req.Path, req.Query = "DELETE", bpath, "tagging"
	case "putOwnership":
		req.Method, req.Path, req.Query = "PUT", bpath, "ownershipControls"
		req.Body = []byte(`<OwnershipControls xmlns="http://s3.amazonaws.com/doc/2006-03-01/"><Rule><ObjectOwnership>` + o.Own + `</ObjectOwnership></Rule></OwnershipControls>`)
	case "getOwnership":
		req.Method, req.Path, req.Query = "GET", bpath, "ownershipControls"
		fields = func(r gw.Resp) {
			var oc struct {
				Rules []struct {
					ObjectOwnership string `xml:"ObjectOwnership"`
				} `xml:"Rule"`
			}
			xml.Unmarshal(r.Body, &oc)
			v := ""
			if len(oc.Rules) > 0 {
				v = oc.Rules[0].ObjectOwnership
			}
			obs.Fields = append(obs.Fields, KV{"ownership", v})
		}
	case "deleteOwnership":
		req.Method, req.Path, req.Query = "DELETE", bpath, "ownershipControls"
	case "putVersioning":
		req.Method, req.Path, req.Query = "PUT", bpath, "versioning"
		st := "Suspended"
		if o.On {
			st = "Enabled"
		}
		req.Body = []byte(`<VersioningConfiguration xmlns="http://s3.amazonaws.com/doc/2006-03-01/"><Status>` + st + `</Status></VersioningConfiguration>`)
	case "getVersioning":
		req.Method, req.Path, req.Query = "GET", bpath, "versioning"
		fields = func(r gw.Resp) {
			var vc struct {
				Status string `xml:"Status"`
			}
			xml.Unmarshal(r.Body, &vc)
			obs.Fields = append(obs.Fields, KV{"status", vc.Status})
		}
	case "putObject":
		req.Method, req.Path, req.Body = "PUT", kpath, Expand(o.Put.Data)
		if o.Put.Encoding != "" {
			req.Auth = o.Put.Encoding
			req.Chunks = o.Put.Chunks
			req.Trailer = o.Put.Trailer
			if req.Auth == "presign" {
				req.Expires = 300
			}
		}
		w.putHeaders(&req, o.Put)
		fields = func(r gw.Resp) {
			obs.NewVid = r.Headers.Get("x-amz-version-id")
			obs.Fields = append(obs.Fields, KV{"etag", hx(r.Headers.Get("ETag"))}, KV{"vid", hx(obs.NewVid)})
		}
	case "getObject", "headObject":
		req.Method, req.Path = "GET", kpath
		if o.Kind == "headObject" {
			req.Method = "HEAD"
		}
		if o.Vid != "" {
			req.Query = "versionId=" + gw.EncodeQueryValue(o.Vid)
		}
		fields = func(r gw.Resp) { obs.Fields = objFields(r, o.Kind == "getObject") }
	case "deleteObject":
		req.Method, req.Path = "DELETE", kpath
		if o.Vid != "" {
			req.Query = "versionId=" + gw.EncodeQueryValue(o.Vid)
		}
		if o.Bypass {
			req.Set("x-amz-bypass-governance-retention", "true")
		}
		fields = func(r gw.Resp) {
			obs.NewVid = r.Headers.Get("x-amz-version-id")
			dm := "false"
			if r.Headers.Get("x-amz-delete-marker") == "true" {
				dm = "true"
			}
			obs.Fields = append(obs.Fields, KV{"deletemarker", dm}, KV{"vid", hx(obs.NewVid)})
			if o.Vid != "" {
				obs.NewVid = ""
			}
		}
	case "deleteObjects":
		req.Method, req.Path, req.Query = "POST", bpath, "delete"
		var b bytes.Buffer
		b.WriteString(`<Delete xmlns="http://s3.amazonaws.com/doc/2006-03-01/">`)
		for _, kv := range o.Keys {
			b.WriteString("<Object><Key>")
			xml.EscapeText(&b, []byte(kv[0]))
			b.WriteString("</Key>")
			if kv[1] != "" {
				b.WriteString("<VersionId>" + kv[1] + "</VersionId>")
			}
			b.WriteString("</Object>")
		}
		b.WriteString(`</Delete>`)
		req.Body = b.Bytes()
		if o.Bypass {
			req.Set("x-amz-bypass-governance-retention", "true")
		}
		fields = func(r gw.Resp) {
			var dr struct {
				Deleted []struct {
					Key                   string `xml:"Key"`
					VersionId             string `xml:"VersionId"`
					DeleteMarkerVersionId string `xml:"DeleteMarkerVersionId"`
				} `xml:"Deleted"`
				Errors []struct {
					Key  string `xml:"Key"`
					Code string `xml:"Code"`
				} `xml:"Error"`
			}
			xml.Unmarshal(r.Body, &dr)
			// The answer lists successes and errors separately, so the request order of the outcomes
			// is not observable: canonical form = sorted multiset of `key` / `key!code`. Ids of
			// the delete markers created (entries requested without a version id) are collected
			// in request order of their keys.
			newByKey := map[string][]string{}
			var d []string
			for _, x := range dr.Deleted {
				d = append(d, hx(x.Key))
				if x.VersionId == "" && x.DeleteMarkerVersionId != "" && x.DeleteMarkerVersionId != "null" {
					newByKey[x.Key] = append(newByKey[x.Key], x.DeleteMarkerVersionId)
				}
			}
			for _, x := range dr.Errors {
				d = append(d, hx(x.Key)+"!"+x.Code)
			}
			sort.Strings(d)
			for _, kv := range o.Keys {
				if kv[1] == "" {
					if v := newByKey[kv[0]]; len(v) > 0 {
						obs.NewVids = append(obs.NewVids, v[0])
						newByKey[kv[0]] = v[1:]
					}
				}
			}
			obs.Fields = append(obs.Fields, KV{"deleted", strings.Join(d, ",")})
		}
	case "copyObject":
		req.Method, req.Path = "PUT", kpath
		src := copySource(o.SB, o.SK, o.SrcOver)
		if o.SVid != "" {
			src += "?versionId=" + o.SVid
		}
		req.Set("x-amz-copy-source", src)
		if o.Put != nil {
			req.Set("x-amz-metadata-directive", "REPLACE")
			if o.Put.HasTags {
				req.Set("x-amz-tagging-directive", "REPLACE")
			}
			w.putHeaders(&req, o.Put)
		}
		fields = func(r gw.Resp) {
			var cr struct {
				ETag string `xml:"ETag"`
			}
			xml.Unmarshal(r.Body, &cr)
			obs.NewVid = r.Headers.Get("x-amz-version-id")
			obs.Fields = append(obs.Fields, KV{"etag", hx(cr.ETag)}, KV{"vid", hx(obs.NewVid)})
		}
	case "putObjectTagging":
		req.Method, req.Path, req.Query, req.Body = "PUT", kpath, "tagging", tagsXML(o.Tags)
	case "getObjectTagging":
		req.Method, req.Path, req.Query = "GET", kpath, "tagging"
		fields = func(r gw.Resp) { obs.Fields = append(obs.Fields, KV{"tags", showKVs(parseTags(r.Body))}) }
	case "deleteObjectTagging":
		req.Method, req.Path, req.Query = "DELETE", kpath, "tagging"
	case "listVersions":
		req.Method, req.Path, req.Query = "GET", bpath, "versions"
		if o.Max > 0 {
			req.Query = fmt.Sprintf("versions&max-keys=%d", o.Max)
		}
		fields = func(r gw.Resp) {
			type ent struct {
				Key          string `xml:"Key"`
				VersionId    string `xml:"VersionId"`
				IsLatest     bool   `xml:"IsLatest"`
				ETag         string `xml:"ETag"`
				Size         int64  `xml:"Size"`
				LastModified string `xml:"LastModified"`
			}
			var lv struct {
				Versions            []ent  `xml:"Version"`
				Markers             []ent  `xml:"DeleteMarker"`
				IsTruncated         bool   `xml:"IsTruncated"`
				NextKeyMarker       string `xml:"NextKeyMarker"`
				NextVersionIdMarker string `xml:"NextVersionIdMarker"`
			}
			xml.Unmarshal(r.Body, &lv)
			if o.Max > 0 && o.Prefix == "/" {
				// paged listing WITH delimiter "/": every level is paged by following the returned markers, every
				// common prefix is descended into; all levels together must be the whole listing
				lv.Versions, lv.Markers, lv.IsTruncated = nil, nil, false
				var walk func(prefix string, depth int)
				pagesTotal := 0
				walk = func(prefix string, depth int) {
					km, vm := "", ""
					for {
						pagesTotal++
						if pagesTotal > 600 || depth > 12 {
							obs.Fields = append(obs.Fields, KV{"paging", "does-not-end"})
							return
						}
						q := req
						q.Query = fmt.Sprintf("versions&delimiter=%%2F&max-keys=%d&prefix=%s", o.Max, gw.EncodeQueryValue(prefix))
						if km != "" || vm != "" {
							q.Query += "&key-marker=" + gw.EncodeQueryValue(km) + "&version-id-marker=" + gw.EncodeQueryValue(vm)
						}
						pr := gw.Do(w.addr(), q)
						var pg struct {
							Versions []ent `xml:"Version"`
							Markers  []ent `xml:"DeleteMarker"`
							Prefixes []struct {
								Prefix string `xml:"Prefix"`
							} `xml:"CommonPrefixes"`
							IsTruncated         bool   `xml:"IsTruncated"`
							NextKeyMarker       string `xml:"NextKeyMarker"`
							NextVersionIdMarker string `xml:"NextVersionIdMarker"`
						}
						if pr.Status != 200 || xml.Unmarshal(pr.Body, &pg) != nil {
							obs.Fields = append(obs.Fields, KV{"paging", fmt.Sprintf("delimiter-page-status-%d", pr.Status)})
							return
						}
						lv.Versions, lv.Markers = append(lv.Versions, pg.Versions...), append(lv.Markers, pg.Markers...)
						for _, cp := range pg.Prefixes {
							if cp.Prefix != prefix {
								walk(cp.Prefix, depth+1)
							}
						}
						if !pg.IsTruncated {
							return
						}
						km, vm = pg.NextKeyMarker, pg.NextVersionIdMarker
					}
				}
				walk("", 0)
			}
			// paged listing (o.Max > 0): follow the markers to the end; the pages together must be the listing
			for pages := 1; o.Max > 0 && o.Prefix != "/" && lv.IsTruncated; pages++ {
				if pages > 400 {
					obs.Fields = append(obs.Fields, KV{"paging", "does-not-end"})
					break
				}
				q := req
				q.Query = fmt.Sprintf("versions&max-keys=%d&key-marker=%s&version-id-marker=%s", o.Max, gw.EncodeQueryValue(lv.NextKeyMarker), gw.EncodeQueryValue(lv.NextVersionIdMarker))
				pr := gw.Do(w.addr(), q)
				var pg struct {
					Versions            []ent  `xml:"Version"`
					Markers             []ent  `xml:"DeleteMarker"`
					IsTruncated         bool   `xml:"IsTruncated"`
					NextKeyMarker       string `xml:"NextKeyMarker"`
					NextVersionIdMarker string `xml:"NextVersionIdMarker"`
				}
				if pr.Status != 200 || xml.Unmarshal(pr.Body, &pg) != nil {
					obs.Fields = append(obs.Fields, KV{"paging", fmt.Sprintf("page-%d-status-%d", pages+1, pr.Status)})
					break
				}
				lv.Versions, lv.Markers = append(lv.Versions, pg.Versions...), append(lv.Markers, pg.Markers...)
				lv.IsTruncated, lv.NextKeyMarker, lv.NextVersionIdMarker = pg.IsTruncated, pg.NextKeyMarker, pg.NextVersionIdMarker
			}
			// The XML groups versions and delete markers separately; canonical order is by key, then
			// latest first, then descending LastModified/ULID is not comparable here: keep, per key,
			// the latest first and the rest in the order given (versions before markers).
			type row struct {
				e      ent
				marker bool
			}
			byKey := map[string][]row{}
			var keys []string
			add := func(e ent, m bool) {
				if _, ok := byKey[e.Key]; !ok {
					keys = append(keys, e.Key)
				}
				byKey[e.Key] = append(byKey[e.Key], row{e, m})
			}
			for _, e := range lv.Versions {
				add(e, false)
			}
			for _, e := range lv.Markers {
				add(e, true)
			}
			sort.Strings(keys)
			var out []string
			for _, k := range keys {
				rows := byKey[k]
				sort.SliceStable(rows, func(i, j int) bool {
					if rows[i].e.IsLatest != rows[j].e.IsLatest {
						return rows[i].e.IsLatest
					}
					return versionNewer(rows[i].e.VersionId, rows[j].e.VersionId)
				})
				for _, rw := range rows {
					l, m, et, sz := "-", "V", hx(rw.e.ETag), rw.e.Size
					if rw.e.IsLatest {
						l = "L"
					}
					if rw.marker {
						m, et, sz = "M", "-", 0
					}
					out = append(out, fmt.Sprintf("%s:%s:%s:%s:%s:%d", hx(rw.e.Key), hx(rw.e.VersionId), l, m, et, sz))
				}
			}
			obs.Fields = append(obs.Fields, KV{"versions", strings.Join(out, ",")})
		}
	case "putLockConfig":
		req.Method, req.Path, req.Query = "PUT", bpath, "object-lock"
		var b bytes.Buffer
		b.WriteString(`<ObjectLockConfiguration xmlns="http://s3.amazonaws.com/doc/2006-03-01/">`)
		if o.On {
			b.WriteString(`<ObjectLockEnabled>Enabled</ObjectLockEnabled>`)
		}
		if o.Mode != "" {
			fmt.Fprintf(&b, `<Rule><DefaultRetention><Mode>%s</Mode><Days>%d</Days></DefaultRetention></Rule>`, lockModeName(o.Mode), o.Days)
		}
		b.WriteString(`</ObjectLockConfiguration>`)
		req.Body = b.Bytes()
	case "getLockConfig":
		req.Method, req.Path, req.Query = "GET", bpath, "object-lock"
		fields = func(r gw.Resp) {
			var c struct {
				Enabled string `xml:"ObjectLockEnabled"`
				Mode    string `xml:"Rule>DefaultRetention>Mode"`
				Days    int    `xml:"Rule>DefaultRetention>Days"`
			}
			xml.Unmarshal(r.Body, &c)
			m := c.Mode
			if m == "" {
				m = "-"
			}
			obs.Fields = append(obs.Fields, KV{"enabled", strconv.FormatBool(c.Enabled == "Enabled")}, KV{"mode", m}, KV{"days", strconv.Itoa(c.Days)})
		}
	case "putRetention":
		req.Method, req.Path, req.Query = "PUT", kpath, "retention"
		if o.Vid != "" {
			req.Query += "&versionId=" + gw.EncodeQueryValue(o.Vid)
		}
		req.Body = []byte(fmt.Sprintf(`<Retention xmlns="http://s3.amazonaws.com/doc/2006-03-01/"><Mode>%s</Mode><RetainUntilDate>%s</RetainUntilDate></Retention>`,
			lockModeName(o.Mode), time.Unix(o.Until, 0).UTC().Format(time.RFC3339)))
		if o.Bypass {
			req.Set("x-amz-bypass-governance-retention", "true")
		}
	case "getRetention":
		req.Method, req.Path, req.Query = "GET", kpath, "retention"
		if o.Vid != "" {
			req.Query += "&versionId=" + gw.EncodeQueryValue(o.Vid)
		}
		fields = func(r gw.Resp) {
			var c struct {
				Mode  string `xml:"Mode"`
				Until string `xml:"RetainUntilDate"`
			}
			xml.Unmarshal(r.Body, &c)
			t, _ := time.Parse(time.RFC3339, c.Until)
			obs.Fields = append(obs.Fields, KV{"mode", c.Mode}, KV{"until", strconv.FormatInt(t.Unix(), 10)})
		}
	case "putLegalHold":
		req.Method, req.Path, req.Query = "PUT", kpath, "legal-hold"
		if o.Vid != "" {
			req.Query += "&versionId=" + gw.EncodeQueryValue(o.Vid)
		}
		st := "OFF"
		if o.On {
			st = "ON"
		}
		req.Body = []byte(`<LegalHold xmlns="http://s3.amazonaws.com/doc/2006-03-01/"><Status>` + st + `</Status></LegalHold>`)
	case "getLegalHold":
		req.Method, req.Path, req.Query = "GET", kpath, "legal-hold"
		if o.Vid != "" {
			req.Query += "&versionId=" + gw.EncodeQueryValue(o.Vid)
		}
		fields = func(r gw.Resp) {
			var c struct {
				Status string `xml:"Status"`
			}
			xml.Unmarshal(r.Body, &c)
			obs.Fields = append(obs.Fields, KV{"hold", c.Status})
		}
	case "createUpload":
		req.Method, req.Path, req.Query = "POST", kpath, "uploads"
		w.putHeaders(&req, o.Put)
		if o.Put != nil && o.Put.Ck != "" {
			req.Set("x-amz-checksum-algorithm", strings.ToUpper(o.Put.Ck))
			req.Set("x-amz-checksum-type", "FULL_OBJECT")
		}
		fields = func(r gw.Resp) {
			var res struct {
				Key      string `xml:"Key"`
				UploadId string `xml:"UploadId"`
			}
			xml.Unmarshal(r.Body, &res)
			if o.Put != nil && o.Put.Ck != "" && res.UploadId != "" {
				if w.ck == nil {
					w.ck, w.partCk = map[string]string{}, map[string]string{}
				}
				w.ck[res.UploadId] = o.Put.Ck
			}
			obs.NewID = res.UploadId
			obs.Fields = append(obs.Fields, KV{"key", hx(res.Key)}, KV{"uploadid", hx(res.UploadId)})
		}
	case "uploadPart":
		req.Method, req.Path, req.Query, req.Body = "PUT", kpath, fmt.Sprintf("uploadId=%s&partNumber=%d", gw.EncodeQueryValue(o.UpID), o.Num), Expand(o.Data)
		if o.Put != nil && o.Put.Encoding != "" {
			req.Auth, req.Chunks, req.Trailer = o.Put.Encoding, o.Put.Chunks, o.Put.Trailer
		}
		if algo := w.ck[o.UpID]; algo != "" {
			// a part of a FULL_OBJECT checksum upload carries its checksum (plain upload)
			req.Auth, req.Chunks, req.Trailer = "header", nil, ""
			req.Set("x-amz-checksum-"+algo, gw.ChecksumB64(algo, req.Body))
		}
		fields = func(r gw.Resp) {
			if algo := w.ck[o.UpID]; algo != "" {
				w.partCk[fmt.Sprintf("%s/%d", o.UpID, o.Num)] = r.Headers.Get("x-amz-checksum-" + algo)
			}
			obs.Fields = append(obs.Fields, KV{"etag", hx(r.Headers.Get("ETag"))})
		}
	case "uploadPartCopy":
		req.Method, req.Path, req.Query = "PUT", kpath, fmt.Sprintf("uploadId=%s&partNumber=%d", gw.EncodeQueryValue(o.UpID), o.Num)
		src := copySource(o.SB, o.SK, o.SrcOver)
		if o.SVid != "" {
			src += "?versionId=" + o.SVid
		}
		req.Set("x-amz-copy-source", src)
		if o.Range != nil {
			if o.Range[1] < 0 {
				req.Set("x-amz-copy-source-range", fmt.Sprintf("bytes=%d-", o.Range[0]))
			} else {
				req.Set("x-amz-copy-source-range", fmt.Sprintf("bytes=%d-%d", o.Range[0], o.Range[1]))
			}
		}
		fields = func(r gw.Resp) {
			var cr struct {
				ETag      string `xml:"ETag"`
				CRC32     string `xml:"ChecksumCRC32"`
				CRC32C    string `xml:"ChecksumCRC32C"`
				CRC64NVME string `xml:"ChecksumCRC64NVME"`
			}
			xml.Unmarshal(r.Body, &cr)
			if algo := w.ck[o.UpID]; algo != "" {
				w.partCk[fmt.Sprintf("%s/%d", o.UpID, o.Num)] = map[string]string{"crc32": cr.CRC32, "crc32c": cr.CRC32C, "crc64nvme": cr.CRC64NVME}[algo]
			}
			obs.CopyETag = cr.ETag
			obs.Fields = append(obs.Fields, KV{"etag", hx(cr.ETag)})
		}
	case "listParts":
		req.Method, req.Path, req.Query = "GET", kpath, "uploadId="+gw.EncodeQueryValue(o.UpID)
		fields = func(r gw.Resp) {
			var lp struct {
				Parts []struct {
					PartNumber int    `xml:"PartNumber"`
					ETag       string `xml:"ETag"`
					Size       int64  `xml:"Size"`
				} `xml:"Part"`
			}
			xml.Unmarshal(r.Body, &lp)
			var ps []string
			for _, p := range lp.Parts {
				ps = append(ps, fmt.Sprintf("%d:%d:%s", p.PartNumber, p.Size, hx(p.ETag)))
			}
			obs.Fields = append(obs.Fields, KV{"parts", strings.Join(ps, ",")})
		}
	case "listUploads":
		req.Method, req.Path, req.Query = "GET", bpath, "uploads"
		fields = func(r gw.Resp) {
			var lu struct {
				Uploads []struct {
					Key      string `xml:"Key"`
					UploadId string `xml:"UploadId"`
				} `xml:"Upload"`
			}
			xml.Unmarshal(r.Body, &lu)
			var us []string
			for _, u := range lu.Uploads {
				us = append(us, hx(u.Key)+":"+hx(u.UploadId))
			}
			sort.Strings(us)
			obs.Fields = append(obs.Fields, KV{"uploads", strings.Join(us, ",")})
		}
	case "completeUpload":
		req.Method, req.Path, req.Query = "POST", kpath, "uploadId="+gw.EncodeQueryValue(o.UpID)
		var b bytes.Buffer
		b.WriteString(`<CompleteMultipartUpload xmlns="http://s3.amazonaws.com/doc/2006-03-01/">`)
		ckTag := map[string]string{"crc32": "ChecksumCRC32", "crc32c": "ChecksumCRC32C", "crc64nvme": "ChecksumCRC64NVME"}[w.ck[o.UpID]]
		for _, p := range o.Parts {
			fmt.Fprintf(&b, "<Part><PartNumber>%d</PartNumber><ETag>", p.Num)
			xml.EscapeText(&b, []byte(p.ETag))
			b.WriteString("</ETag>")
			if v := w.partCk[fmt.Sprintf("%s/%d", o.UpID, p.Num)]; ckTag != "" && v != "" {
				fmt.Fprintf(&b, "<%s>%s</%s>", ckTag, v, ckTag)
			}
			b.WriteString("</Part>")
		}
		b.WriteString(`</CompleteMultipartUpload>`)
		if ckTag != "" {
			req.Set("x-amz-checksum-type", "FULL_OBJECT")
		}
		req.Body = b.Bytes()
		fields = func(r gw.Resp) {
			var cr struct {
				ETag string `xml:"ETag"`
			}
			xml.Unmarshal(r.Body, &cr)
			obs.NewVid = r.Headers.Get("x-amz-version-id")
			obs.Fields = append(obs.Fields, KV{"etag", hx(cr.ETag)}, KV{"vid", hx(obs.NewVid)})
		}
	case "abortUpload":
		req.Method, req.Path, req.Query = "DELETE", kpath, "uploadId="+gw.EncodeQueryValue(o.UpID)
	default:
		obs.Code = "HARNESS:unknown-op:" + o.Kind
		return obs
	}
	if defect == "missing-auth" || defect == "none" {
		req.Auth = "none"
	}
	r := gw.Do(w.addr(), req)
	if w.Hook != nil {
		first := 6 * time.Millisecond
		if r.Status/100 == 2 && req.Method != "GET" && req.Method != "HEAD" {
			first = 50 * time.Millisecond // a record is (probably) on its way
		}
		obs.Events = w.Hook.DrainFirst(6*time.Millisecond, 400*time.Millisecond, first)
		obs.EventVids = w.Hook.LastVids()
	}
	obs.Raw = r
	obs.Status = r.Status
	obs.Code = canonCode(r, anon)
	if obs.Code == "" {
		fields(r)
	}
	return obs
}

func lockModeName(m string) string {
	if m == "C" {
		return "COMPLIANCE"
	}
	return "GOVERNANCE"
}

// versionNewer orders version ids of one key, newest first: ULIDs sort by creation time; the
// null version has no time in its id and is placed last among non-latest entries.
func versionNewer(a, b string) bool {
	if a == "null" || a == "" {
		return false
	}
	if b == "null" || b == "" {
		return true
	}
	return a > b
}

// NormaliseModel rewrites the model's response line so that it is comparable with Obs.Line():
// `body=<segments>` becomes the digest of the expanded bytes; events are split off.
func NormaliseModel(line string) (resp string, events string) {
	parts := strings.SplitN(line, " | ", 2)
	if len(parts) == 2 {
		events = strings.TrimSpace(parts[1])
	}
	resp = strings.TrimRight(parts[0], " ")
	if strings.HasSuffix(resp, " |") {
		resp = strings.TrimSuffix(resp, " |")
	}
	fs := strings.Split(resp, " ")
	for i, f := range fs {
		if strings.HasPrefix(f, "body=") {
			fs[i] = "body=" + digest(Expand(ParseData(f[5:])))
		}
	}
	return strings.TrimRight(strings.Join(fs, " "), " "), events
}
