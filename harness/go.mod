module verif/harness

go 1.23.0

require (
	github.com/pkg/xattr v0.4.10
	github.com/versity/versitygw v0.0.0
)

require (
	github.com/aws/aws-sdk-go-v2 v1.36.3 // indirect
	github.com/aws/aws-sdk-go-v2/aws/protocol/eventstream v1.6.10 // indirect
	github.com/aws/aws-sdk-go-v2/internal/configsources v1.3.34 // indirect
	github.com/aws/aws-sdk-go-v2/internal/endpoints/v2 v2.6.34 // indirect
	github.com/aws/aws-sdk-go-v2/internal/v4a v1.3.34 // indirect
	github.com/aws/aws-sdk-go-v2/service/internal/accept-encoding v1.12.3 // indirect
	github.com/aws/aws-sdk-go-v2/service/internal/checksum v1.7.0 // indirect
	github.com/aws/aws-sdk-go-v2/service/internal/presigned-url v1.12.15 // indirect
	github.com/aws/aws-sdk-go-v2/service/internal/s3shared v1.18.15 // indirect
	github.com/aws/aws-sdk-go-v2/service/s3 v1.79.2 // indirect
	github.com/aws/smithy-go v1.22.3 // indirect
	golang.org/x/sys v0.32.0 // indirect
)

replace github.com/versity/versitygw => /repo
