package main

import (
	"fmt"
	"os"
	"verif/harness/gw"
)

func main() {
	cr := gw.Creds{Access: "rootaccess", Secret: "rootsecretkey"}
	fmt.Println(gw.Do("127.0.0.1:7801", gw.Req{Method: "PUT", Path: "/bkt", Auth: "header", Creds: cr}).Status)
	r := gw.Do("127.0.0.1:7801", gw.Req{Method: "GET", Path: "/", Query: os.Args[1], Auth: "header", Creds: cr})
	fmt.Println(r.Status, r.Err, string(r.Body))
}
