package main

// Program generators of the C18 paired runs. Programs are pure values: ids chosen by the servers
// are referred to by tokens (`#u<n>`, `#v<n>`, `#e<n>`, `#t<n>`: upload id / version id / ETag /
// continuation answered at step n), so one program is executed unchanged on both sides and a
// stored failure replays alone.

import (
	"fmt"
	"strconv"

	"verif/harness/lib"
	"verif/harness/prog"
)

type c18Gen struct {
	r            *lib.Rand
	g            *prog.Gen
	ops          []*c18Op
	noPartNumber bool
}

func newC18Gen(r *lib.Rand) *c18Gen { return &c18Gen{r: r, g: prog.NewGen(r.Fork())} }

func (c *c18Gen) add(o *c18Op) int {
	c.ops = append(c.ops, o)
	return len(c.ops) - 1
}

func c18KV(k, v string) prog.KV { return prog.KV{K: k, V: v} }

func (c *c18Gen) pick(xs ...string) string { return xs[c.r.Intn(len(xs))] }

var c18Keys = []string{"k1", "dir/k2", "dir/sub/k3", "dir/sub/k4", "dir2/a", "obj.txt", "z last", "a b+c%&=d", "ünï/cødé", "dir/k5", "m/n/o/p"}

// richPut: a PutSpec exercising every request attribute the front end reads.
func (c *c18Gen) richPut() (*prog.PutSpec, []prog.KV) {
	p := c.g.PutSpec()
	if len(p.Data) == 0 && c.r.Chance(85) {
		p.Data = []prog.Seg{{Seed: 7000 + c.r.Intn(1000), Off: c.r.Intn(7), Len: 1 + c.r.Intn(400)}}
	}
	if c.r.Chance(25) {
		p.Data = []prog.Seg{{Seed: 8000 + c.r.Intn(1000), Off: 0, Len: c.pickInt(1, 17, 4096, 32768, 32769, 70000, 1<<20+3)}}
	}
	var xh []prog.KV
	if c.r.Chance(30) {
		p.Hdrs = append(p.Hdrs, c18KV("content-encoding", c.pick("gzip", "identity", "br")))
	}
	if c.r.Chance(35) {
		p.Hdrs = append(p.Hdrs, c18KV("expires", c.pick("Thu, 01 Dec 2033 16:00:00 GMT", "Thu, 01 Dec 2033 16:00:00 UTC", "2033-12-01T16:00:00Z", "Thursday, 01-Dec-33 16:00:00 GMT", "never", "0")))
	}
	if c.r.Chance(15) {
		xh = append(xh, c18KV("x-amz-storage-class", c.pick("STANDARD", "REDUCED_REDUNDANCY", "GLACIER")))
	}
	if c.r.Chance(20) {
		alg := c.pick("crc32", "crc32c", "sha1", "sha256", "crc64nvme")
		if c.r.Chance(50) {
			xh = append(xh, c18KV("x-amz-checksum-"+alg, "=sum:"+alg))
		} else {
			xh = append(xh, c18KV("x-amz-sdk-checksum-algorithm", map[string]string{"crc32": "CRC32", "crc32c": "CRC32C", "sha1": "SHA1", "sha256": "SHA256", "crc64nvme": "CRC64NVME"}[alg]))
		}
	}
	if c.r.Chance(10) {
		xh = append(xh, c18KV("content-md5", "=md5"))
	}
	if c.r.Chance(8) {
		xh = append(xh, c18KV("x-amz-website-redirect-location", "/other"))
	}
	return p, xh
}

func (c *c18Gen) pickInt(xs ...int) int { return xs[c.r.Intn(len(xs))] }

func (c *c18Gen) bucket(b string, owner string, versioning bool) {
	c.add(&c18Op{Op: prog.Op{Kind: "createBucket", Caller: owner, B: b, Valid: true}})
	if versioning {
		c.add(&c18Op{Op: prog.Op{Kind: "putVersioning", Caller: owner, B: b, On: true}})
	}
}

// ---------------------------------------------------------------- objects

func (c *c18Gen) objects(idx int) []*c18Op {
	b := "bkt-o"
	caller := c.pick("root", "u:adm1", "u:up1")
	c.bucket(b, caller, false)
	var keys []string
	n := 3 + c.r.Intn(5)
	for i := 0; i < n; i++ {
		k := c18Keys[c.r.Intn(len(c18Keys))]
		p, xh := c.richPut()
		c.add(&c18Op{Op: prog.Op{Kind: "x:putObject", Caller: caller, B: b, K: k, Put: p}, XH: xh})
		keys = append(keys, k)
	}
	pk := func() string {
		if c.r.Chance(10) {
			return "missing-key"
		}
		return keys[c.r.Intn(len(keys))]
	}
	for i := 10 + c.r.Intn(25); i > 0; i-- {
		k := pk()
		switch x := c.r.Intn(100); {
		case x < 22:
			o := &c18Op{Op: prog.Op{Kind: "x:getObject", Caller: caller, B: b, K: k}}
			c.readOpts(o)
			c.add(o)
		case x < 38:
			o := &c18Op{Op: prog.Op{Kind: "x:headObject", Caller: caller, B: b, K: k}}
			c.readOpts(o)
			c.add(o)
		case x < 46:
			o := &c18Op{Op: prog.Op{Kind: "x:getObjectAttributes", Caller: caller, B: b, K: k}}
			o.XH = append(o.XH, c18KV("x-amz-object-attributes", c.pick("ETag,ObjectSize,StorageClass,Checksum,ObjectParts", "ETag", "ObjectSize,StorageClass", "Checksum")))
			c.add(o)
		case x < 58:
			p, xh := c.richPut()
			c.add(&c18Op{Op: prog.Op{Kind: "x:putObject", Caller: caller, B: b, K: k, Put: p}, XH: xh})
		case x < 72:
			o := &c18Op{Op: prog.Op{Kind: "x:copyObject", Caller: caller, B: b, K: c18Keys[c.r.Intn(len(c18Keys))], SB: b, SK: pk()}}
			if c.r.Chance(50) {
				p, xh := c.richPut()
				p.Data = nil
				o.Put = p
				o.XH = append(xh, c18KV("x-amz-metadata-directive", "REPLACE"))
				if p.HasTags {
					o.XH = append(o.XH, c18KV("x-amz-tagging-directive", "REPLACE"))
				}
			} else if c.r.Chance(30) {
				o.XH = append(o.XH, c18KV("x-amz-copy-source-if-match", c.pick("\"00000000000000000000000000000000\"", "*")))
			}
			c.add(o)
			keys = append(keys, o.K)
		case x < 78:
			c.add(&c18Op{Op: prog.Op{Kind: "putObjectTagging", Caller: caller, B: b, K: k, Tags: c.g.KVs([]string{"t1", "t2", "env", "a b"}, 4)}})
		case x < 84:
			c.add(&c18Op{Op: prog.Op{Kind: "getObjectTagging", Caller: caller, B: b, K: k}})
		case x < 87:
			c.add(&c18Op{Op: prog.Op{Kind: "deleteObjectTagging", Caller: caller, B: b, K: k}})
		case x < 92:
			c.add(&c18Op{Op: prog.Op{Kind: "deleteObject", Caller: caller, B: b, K: k}})
		case x < 96:
			o := &c18Op{Op: prog.Op{Kind: "deleteObjects", Caller: caller, B: b}}
			for j := 1 + c.r.Intn(3); j > 0; j-- {
				o.Keys = append(o.Keys, [2]string{pk(), ""})
			}
			c.add(o)
		default:
			c.listing(b, caller)
		}
	}
	return c.ops
}

// noPartNumber: HEAD ?partNumber=n of a key with uploads in progress is answered from ONE of those
// uploads (posix: the first directory entry, i.e. by random upload id) — grey zone, not generated
// where several uploads of a key can be open.
func (c *c18Gen) readOpts(o *c18Op) {
	if c.r.Chance(35) {
		o.XH = append(o.XH, c18KV("Range", c.pick("bytes=0-0", "bytes=0-9", "bytes=5-", "bytes=-7", "bytes=100000-", "bytes=3-1", "bytes=0-99999999", "items=0-1", "bytes=2-4,6-8")))
	}
	if c.r.Chance(12) && !c.noPartNumber {
		o.XQ = append(o.XQ, c18KV("partNumber", c.pick("1", "2", "0")))
	}
	if c.r.Chance(15) {
		o.XH = append(o.XH, c18KV("x-amz-checksum-mode", c.pick("ENABLED", "enabled", "bogus")))
	}
	if c.r.Chance(12) {
		o.XH = append(o.XH, c18KV(c.pick("If-Match", "If-None-Match"), c.pick("\"00000000000000000000000000000000\"", "*")))
	}
	if c.r.Chance(8) {
		o.XH = append(o.XH, c18KV(c.pick("If-Modified-Since", "If-Unmodified-Since"), c.pick("Thu, 01 Dec 2033 16:00:00 GMT", "Sat, 01 Jan 2000 00:00:00 GMT")))
	}
	if c.r.Chance(10) {
		o.XQ = append(o.XQ, c18KV(c.pick("response-content-type", "response-cache-control", "response-content-disposition"), "text/x-override"))
	}
}

// ---------------------------------------------------------------- listings

func (c *c18Gen) listing(b, caller string) {
	kind := c.pick("x:listObjects", "x:listObjectsV2", "x:listObjectsV2")
	o := &c18Op{Op: prog.Op{Kind: kind, Caller: caller, B: b}}
	if c.r.Chance(50) {
		o.XQ = append(o.XQ, c18KV("prefix", c.pick("dir/", "dir", "d", "dir/sub/", "zzz", "ü", "a b", "m/")))
	}
	if c.r.Chance(50) {
		o.XQ = append(o.XQ, c18KV("delimiter", c.pick("/", "/", "/", "i", "sub")))
	}
	if c.r.Chance(45) {
		o.XQ = append(o.XQ, c18KV("max-keys", c.pick("0", "1", "2", "3", "5", "1000", "1001", "-1", "x")))
	}
	if kind == "x:listObjects" {
		if c.r.Chance(30) {
			o.XQ = append(o.XQ, c18KV("marker", c.pick("dir/k2", "dir/", "a", "k1", "zzzz", "dir/sub/k3")))
		}
	} else {
		if c.r.Chance(25) {
			o.XQ = append(o.XQ, c18KV("start-after", c.pick("dir/k2", "dir/", "a", "k1", "zzzz")))
		}
		if c.r.Chance(25) {
			o.XQ = append(o.XQ, c18KV("fetch-owner", c.pick("true", "false")))
		}
	}
	if c.r.Chance(15) {
		o.XQ = append(o.XQ, c18KV("encoding-type", c.pick("url", "bogus")))
	}
	n := c.add(o)
	// follow the continuation a few times
	if c.r.Chance(60) {
		for j := 0; j < 1+c.r.Intn(3); j++ {
			f := &c18Op{Op: prog.Op{Kind: kind, Caller: caller, B: b}}
			for _, q := range o.XQ {
				if q.K != "marker" && q.K != "continuation-token" {
					f.XQ = append(f.XQ, q)
				}
			}
			if kind == "x:listObjects" {
				f.XQ = append(f.XQ, c18KV("marker", fmt.Sprintf("#t%d", n)))
			} else {
				f.XQ = append(f.XQ, c18KV("continuation-token", fmt.Sprintf("#t%d", n)))
			}
			n = c.add(f)
		}
	}
}

func (c *c18Gen) listings(idx int) []*c18Op {
	b := "bkt-l"
	caller := c.pick("root", "u:adm1", "u:up1")
	c.bucket(b, caller, false)
	n := 2 + c.r.Intn(10)
	if idx%5 == 0 {
		n = 0
	}
	for i := 0; i < n; i++ {
		k := c18Keys[c.r.Intn(len(c18Keys))]
		if c.r.Chance(30) {
			k = c.pick("dir/", "dir/sub/", "m/", "") + "f" + strconv.Itoa(c.r.Intn(20))
		}
		p := &prog.PutSpec{Data: []prog.Seg{{Seed: 100 + i, Off: 0, Len: 1 + c.r.Intn(50)}}}
		if c.r.Chance(20) {
			p.Data = nil
		}
		c.add(&c18Op{Op: prog.Op{Kind: "putObject", Caller: caller, B: b, K: k, Put: p, Valid: true}})
	}
	for i := 6 + c.r.Intn(10); i > 0; i-- {
		c.listing(b, caller)
	}
	c.add(&c18Op{Op: prog.Op{Kind: "listBuckets", Caller: caller}})
	return c.ops
}

// ---------------------------------------------------------------- multipart

type c18Up struct {
	key   string
	step  int
	parts map[int]int // number -> step of the latest upload
	done  bool
}

func (c *c18Gen) multipart(idx int, versioning bool) []*c18Op {
	c.noPartNumber = true
	b := "bkt-m"
	caller := c.pick("root", "u:adm1")
	c.bucket(b, caller, versioning)
	c.add(&c18Op{Op: prog.Op{Kind: "putObject", Caller: caller, B: b, K: "src", Put: &prog.PutSpec{Data: []prog.Seg{{Seed: 9000 + idx, Off: 0, Len: 3000}}}, Valid: true}})
	keys := []string{"mp1", "dir/mp2", "mp 3+x"}
	var ups []*c18Up
	big := idx%3 == 0
	total := 14 + c.r.Intn(16)
	for len(c.ops) < total {
		var open []*c18Up
		for _, u := range ups {
			if !u.done {
				open = append(open, u)
			}
		}
		pickUp := func() *c18Up {
			if len(ups) == 0 {
				return nil
			}
			if len(open) > 0 && c.r.Chance(85) {
				return open[c.r.Intn(len(open))]
			}
			return ups[c.r.Intn(len(ups))]
		}
		upid := func(u *c18Up) string {
			if u == nil {
				return "no-such-upload-id"
			}
			return fmt.Sprintf("#u%d", u.step)
		}
		ukey := func(u *c18Up) string {
			if u == nil {
				return keys[0]
			}
			return u.key
		}
		x := c.r.Intn(100)
		if len(open) == 0 && x >= 12 && x < 70 {
			x = 0
		}
		switch {
		case x < 12:
			p, xh := c.richPut()
			p.Data = nil
			k := keys[c.r.Intn(len(keys))]
			if c.r.Chance(20) {
				xh = append(xh, c18KV("x-amz-checksum-algorithm", c.pick("CRC32", "SHA256", "CRC64NVME")))
				if c.r.Chance(50) {
					xh = append(xh, c18KV("x-amz-checksum-type", c.pick("COMPOSITE", "FULL_OBJECT")))
				}
			}
			n := c.add(&c18Op{Op: prog.Op{Kind: "x:createUpload", Caller: caller, B: b, K: k, Put: p}, XH: xh})
			ups = append(ups, &c18Up{key: k, step: n, parts: map[int]int{}})
		case x < 42:
			u := pickUp()
			num := 1 + c.r.Intn(4)
			size := c.r.Intn(2000)
			if big && c.r.Chance(40) {
				size = 5*1024*1024 - 1 + c.r.Intn(3)
			}
			o := &c18Op{Op: prog.Op{Kind: "uploadPart", Caller: caller, B: b, K: ukey(u), UpID: upid(u), Num: num, Data: []prog.Seg{{Seed: 100*idx + len(c.ops), Off: c.r.Intn(9), Len: size}}}}
			if c.r.Chance(25) {
				o.Put = &prog.PutSpec{Encoding: c.pick("unsigned", "stream-signed", "stream-unsigned-trailer", "stream-signed-trailer"), Chunks: []int{1 + c.r.Intn(700)}, Trailer: "crc32"}
			}
			n := c.add(o)
			if u != nil {
				u.parts[num] = n
			}
		case x < 52:
			u := pickUp()
			num := 1 + c.r.Intn(4)
			o := &c18Op{Op: prog.Op{Kind: "uploadPartCopy", Caller: caller, B: b, K: ukey(u), UpID: upid(u), Num: num, SB: b, SK: "src"}}
			switch c.r.Intn(7) {
			case 5, 6:
				o.Range = &[2]int{c.r.Intn(3000), -1}
			case 1:
				o.Range = &[2]int{0, 2999}
			case 2:
				a := c.r.Intn(3000)
				o.Range = &[2]int{a, a + c.r.Intn(3000-a)}
			case 3:
				o.Range = &[2]int{c.r.Intn(3000), 3000 + c.r.Intn(10)}
			case 4:
				a := c.r.Intn(2999)
				o.Range = &[2]int{a, a}
			}
			n := c.add(o)
			if u != nil {
				u.parts[num] = n
			}
		case x < 62:
			u := pickUp()
			o := &c18Op{Op: prog.Op{Kind: "x:listParts", Caller: caller, B: b, K: ukey(u), UpID: upid(u)}}
			if c.r.Chance(40) {
				o.XQ = append(o.XQ, c18KV("max-parts", c.pick("0", "1", "2", "1000", "x")))
			}
			if c.r.Chance(30) {
				o.XQ = append(o.XQ, c18KV("part-number-marker", c.pick("0", "1", "2", "x")))
			}
			c.add(o)
		case x < 68:
			o := &c18Op{Op: prog.Op{Kind: "x:listUploads", Caller: caller, B: b}}
			if c.r.Chance(40) {
				o.XQ = append(o.XQ, c18KV("prefix", c.pick("mp", "dir/", "zz")))
			}
			if c.r.Chance(30) {
				o.XQ = append(o.XQ, c18KV("delimiter", "/"))
			}
			if c.r.Chance(30) {
				o.XQ = append(o.XQ, c18KV("max-uploads", c.pick("0", "1", "2", "1000", "x")))
			}
			if c.r.Chance(20) {
				// markers that are not keys of uploads: which uploads of the marker key itself
				// follow depends on their random ids (grey zone)
				o.XQ = append(o.XQ, c18KV("key-marker", c.pick("dir/mp", "mp0", "a")))
			}
			if c.r.Chance(10) {
				o.XQ = append(o.XQ, c18KV("encoding-type", "url"))
			}
			c.add(o)
		case x < 86:
			u := pickUp()
			o := &c18Op{Op: prog.Op{Kind: "completeUpload", Caller: caller, B: b, K: ukey(u), UpID: upid(u)}}
			var nums []int
			if u != nil {
				for k := 1; k <= 4; k++ {
					if _, ok := u.parts[k]; ok {
						nums = append(nums, k)
					}
				}
			}
			switch c.r.Intn(8) {
			case 0:
				if len(nums) > 1 {
					nums = nums[:1+c.r.Intn(len(nums))]
				}
			case 1:
				if len(nums) > 1 {
					nums[0], nums[1] = nums[1], nums[0]
				}
			case 2:
				nums = append(nums, 9)
			}
			for _, k := range nums {
				et := "\"00000000000000000000000000000000\""
				if u != nil {
					if st, ok := u.parts[k]; ok && !c.r.Chance(6) {
						et = fmt.Sprintf("#e%d", st)
					}
				}
				o.Parts = append(o.Parts, prog.PartRef{Num: k, ETag: et})
			}
			if len(o.Parts) == 0 {
				continue
			}
			c.add(o)
			if u != nil && c.r.Chance(80) {
				u.done = true
			}
		case x < 91:
			u := pickUp()
			c.add(&c18Op{Op: prog.Op{Kind: "abortUpload", Caller: caller, B: b, K: ukey(u), UpID: upid(u)}})
			if u != nil {
				u.done = true
			}
		case x < 96:
			o := &c18Op{Op: prog.Op{Kind: c.pick("x:getObject", "x:headObject"), Caller: caller, B: b, K: keys[c.r.Intn(len(keys))]}}
			c.readOpts(o)
			c.add(o)
		default:
			p, xh := c.richPut()
			c.add(&c18Op{Op: prog.Op{Kind: "x:putObject", Caller: caller, B: b, K: keys[c.r.Intn(len(keys))], Put: p}, XH: xh})
		}
	}
	c.add(&c18Op{Op: prog.Op{Kind: "x:listUploads", Caller: caller, B: b}})
	for _, k := range keys {
		c.add(&c18Op{Op: prog.Op{Kind: "x:getObject", Caller: caller, B: b, K: k}})
		c.add(&c18Op{Op: prog.Op{Kind: "x:getObjectAttributes", Caller: caller, B: b, K: k}, XH: []prog.KV{c18KV("x-amz-object-attributes", "ETag,ObjectSize,Checksum,ObjectParts")}})
	}
	if versioning {
		c.add(&c18Op{Op: prog.Op{Kind: "x:listVersions", Caller: caller, B: b}})
	}
	return c.ops
}

// ---------------------------------------------------------------- versions

func (c *c18Gen) versions(idx int) []*c18Op {
	b := "bkt-v"
	caller := c.pick("root", "u:adm1")
	c.bucket(b, caller, true)
	keys := []string{"k1", "dir/k2", "k3"}
	var vsteps []int // steps that produced a version (put / delete marker)
	vref := func() string {
		if len(vsteps) == 0 || c.r.Chance(10) {
			return c.pick("", "null", "01J0000000000000000000BOGUS")
		}
		return fmt.Sprintf("#v%d", vsteps[c.r.Intn(len(vsteps))])
	}
	for i := 12 + c.r.Intn(20); i > 0; i-- {
		k := keys[c.r.Intn(len(keys))]
		switch x := c.r.Intn(100); {
		case x < 30:
			p, xh := c.richPut()
			n := c.add(&c18Op{Op: prog.Op{Kind: "x:putObject", Caller: caller, B: b, K: k, Put: p}, XH: xh})
			vsteps = append(vsteps, n)
		case x < 45:
			o := &c18Op{Op: prog.Op{Kind: c.pick("x:getObject", "x:headObject"), Caller: caller, B: b, K: k}}
			if c.r.Chance(70) {
				o.Vid = vref()
			}
			c.add(o)
		case x < 55:
			o := &c18Op{Op: prog.Op{Kind: "deleteObject", Caller: caller, B: b, K: k}}
			if c.r.Chance(40) {
				o.Vid = vref()
			}
			n := c.add(o)
			if o.Vid == "" {
				vsteps = append(vsteps, n)
			}
		case x < 62:
			o := &c18Op{Op: prog.Op{Kind: "deleteObjects", Caller: caller, B: b}}
			for j := 1 + c.r.Intn(3); j > 0; j-- {
				v := ""
				if c.r.Chance(40) {
					v = vref()
				}
				o.Keys = append(o.Keys, [2]string{keys[c.r.Intn(len(keys))], v})
			}
			c.add(o)
		case x < 72:
			o := &c18Op{Op: prog.Op{Kind: "x:copyObject", Caller: caller, B: b, K: c.pick("copy1", "k1"), SB: b, SK: k}}
			if c.r.Chance(50) {
				o.SVid = vref()
			}
			n := c.add(o)
			vsteps = append(vsteps, n)
		case x < 90:
			o := &c18Op{Op: prog.Op{Kind: "x:listVersions", Caller: caller, B: b}}
			if c.r.Chance(35) {
				o.XQ = append(o.XQ, c18KV("prefix", c.pick("k", "dir/", "zz")))
			}
			if c.r.Chance(30) {
				o.XQ = append(o.XQ, c18KV("delimiter", "/"))
			}
			if c.r.Chance(40) {
				o.XQ = append(o.XQ, c18KV("max-keys", c.pick("0", "1", "2", "3", "1000")))
			}
			if c.r.Chance(25) {
				o.XQ = append(o.XQ, c18KV("key-marker", c.pick("k1", "dir/k2", "a")))
				if c.r.Chance(50) {
					o.XQ = append(o.XQ, c18KV("version-id-marker", vref()))
				}
			}
			c.add(o)
		case x < 94:
			c.add(&c18Op{Op: prog.Op{Kind: "getVersioning", Caller: caller, B: b}})
		case x < 97:
			c.add(&c18Op{Op: prog.Op{Kind: "putVersioning", Caller: caller, B: b, On: c.r.Chance(60)}})
		default:
			c.listing(b, caller)
		}
	}
	c.add(&c18Op{Op: prog.Op{Kind: "x:listVersions", Caller: caller, B: b}})
	return c.ops
}
