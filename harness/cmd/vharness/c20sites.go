package main

// C20 site inventory: `extract/panicsites` (go/ast + go/types) regenerates, on every run, the list of
// index / slice / dereference / make / type-assertion expressions of the request-path packages from
// the source tree under test.  The expectation recorded beside the Lean models (`robust sites`,
// `robust complete`) is compared with it: a modelled expression that changed, vanished or gained a
// sibling in a completely modelled function = the code at a modelled site changed = broken tie.

import (
	"encoding/json"
	"fmt"
	"os"
	"os/exec"
	"path/filepath"
	"runtime/debug"
	"sort"
	"strings"
	"sync"

	"verif/harness/lib"
)

type c20Site struct {
	File string `json:"file"`
	Func string `json:"func"`
	Kind string `json:"kind"`
	Expr string `json:"expr"`
	Line int    `json:"line"`
	Note string `json:"note,omitempty"`
}

func c20RepoDir() string {
	if v := os.Getenv("VERIF_REPO"); v != "" {
		return v
	}
	if bi, ok := debug.ReadBuildInfo(); ok {
		for _, d := range bi.Deps {
			if d.Path == "github.com/versity/versitygw" && d.Replace != nil && d.Replace.Path != "" {
				return d.Replace.Path
			}
		}
	}
	return "/repo"
}

// c20VerifDir: the framework directory, from the path of the Lean driver (…/lean/.lake/build/bin/vgwdriver).
func c20VerifDir(a lib.Args) string {
	if v := os.Getenv("VERIF_DIR"); v != "" {
		return v
	}
	p, _ := filepath.Abs(a.Driver.Path)
	if i := strings.Index(p, "/lean/.lake/"); i >= 0 {
		return p[:i]
	}
	return "/verif"
}

func c20RunExtractor(a lib.Args) ([]c20Site, error) {
	src := filepath.Join(c20VerifDir(a), "extract", "panicsites")
	bin := filepath.Join(a.Work, "panicsites")
	env := append(os.Environ(), "GOFLAGS=-mod=mod", "GOPROXY=off", "GOSUMDB=off", "GOTOOLCHAIN=local")
	cmd := exec.Command("go", "build", "-o", bin, ".")
	cmd.Dir, cmd.Env = src, env
	if out, err := cmd.CombinedOutput(); err != nil {
		return nil, fmt.Errorf("build extract/panicsites (%s): %v\n%s", src, err, out)
	}
	cmd = exec.Command(bin, "-repo", c20RepoDir(), "-tags", "verif")
	cmd.Env = env
	cmd.Stderr = os.Stderr
	out, err := cmd.Output()
	if err != nil {
		return nil, fmt.Errorf("extract/panicsites on %s: %v", c20RepoDir(), err)
	}
	var doc struct {
		Sites  []c20Site `json:"sites"`
		Errors []string  `json:"type_errors"`
	}
	if err := json.Unmarshal(out, &doc); err != nil {
		return nil, err
	}
	if len(doc.Errors) > 0 {
		return nil, fmt.Errorf("extract/panicsites: the source tree does not type-check: %v", doc.Errors[:1])
	}
	return doc.Sites, nil
}

var (
	c20InvOnce sync.Once
	c20Inv     []c20Site
)

// c20LoadInventory: the extractor's inventory, once per run (used to name the expression a crash happened at).
func c20LoadInventory(a lib.Args) {
	c20InvOnce.Do(func() {
		if s, err := c20RunExtractor(a); err == nil {
			c20Inv = s
		}
	})
}

// c20ExprAt: the panic-capable expression(s) of the inventory at file:line that fit the panic message.
func c20ExprAt(file string, line int, reason string) string {
	want := map[string]bool{}
	switch {
	case strings.Contains(reason, "index out of range"):
		want["index"] = true
	case strings.Contains(reason, "slice bounds"):
		want["slice"] = true
	case strings.Contains(reason, "nil pointer"):
		want["deref"], want["field-of-optional"] = true, true
	case strings.Contains(reason, "makeslice") || strings.Contains(reason, "out of memory"):
		want["make"] = true
	case strings.Contains(reason, "interface conversion"):
		want["type-assert"] = true
	}
	var out []string
	seen := map[string]bool{}
	for _, s := range c20Inv {
		if s.File == file && s.Line == line && (len(want) == 0 || want[s.Kind]) && !seen[s.Expr] {
			seen[s.Expr] = true
			out = append(out, s.Expr)
		}
	}
	if len(out) == 0 {
		return "?"
	}
	// signatures are matched with fnmatch patterns: no brackets in them
	return strings.NewReplacer("[", "(", "]", ")").Replace(strings.Join(out, "|"))
}

type c20Exp struct {
	File, Func, Kind, Expr string
	Count                  int
	Variant                string
}

// c20Sites: the tie between the models and the source text. Returns the variants ("3", "7") that can
// be read off the source.
func c20Sites(a lib.Args, res *lib.Result) error {
	if in := a.ReplayInput(); in != nil {
		if _, ok := in["sites_function"]; !ok {
			return nil
		}
	}
	sites, err := c20RunExtractor(a)
	if err != nil {
		return err
	}
	c20InvOnce.Do(func() { c20Inv = sites })
	ans, err := a.Driver.Ask([]string{"robust sites", "robust complete"})
	if err != nil {
		return err
	}
	var exps []c20Exp
	for _, e := range strings.Split(ans[0], ";") {
		f := strings.Split(e, "|")
		if len(f) != 6 {
			return fmt.Errorf("bad site expectation %q", e)
		}
		var n int
		fmt.Sscanf(f[4], "%d", &n)
		exps = append(exps, c20Exp{f[0], f[1], f[2], unhex(f[3]), n, f[5]})
	}
	complete := map[string]bool{}
	for _, e := range strings.Split(ans[1], ";") {
		complete[e] = true
	}
	found := map[string]int{}          // file|func|kind|expr -> occurrences
	byFunc := map[string][]c20Site{}   // file|func -> sites
	expected := map[string]bool{}      // keys named by some expectation
	modelledFuncs := map[string]bool{} // functions with at least one expectation
	for _, s := range sites {
		found[s.File+"|"+s.Func+"|"+s.Kind+"|"+s.Expr]++
		byFunc[s.File+"|"+s.Func] = append(byFunc[s.File+"|"+s.Func], s)
	}
	// variants per function: does the source carry the "asis" or the "fixed" expressions?
	variantOf := map[string]string{}
	type group struct{ asis, fixed []c20Exp }
	groups := map[string]*group{}
	for _, e := range exps {
		fk := e.File + "|" + e.Func
		modelledFuncs[fk] = true
		expected[fk+"|"+e.Kind+"|"+e.Expr] = true
		if e.Variant == "" {
			continue
		}
		if groups[fk] == nil {
			groups[fk] = &group{}
		}
		if e.Variant == "asis" {
			groups[fk].asis = append(groups[fk].asis, e)
		} else {
			groups[fk].fixed = append(groups[fk].fixed, e)
		}
	}
	matches := func(es []c20Exp, want bool) bool {
		for _, e := range es {
			n := found[e.File+"|"+e.Func+"|"+e.Kind+"|"+e.Expr]
			if want && n != e.Count || !want && n != 0 {
				return false
			}
		}
		return true
	}
	broken := map[string][]string{}
	for fk, g := range groups {
		switch {
		case matches(g.asis, true) && matches(g.fixed, false):
			variantOf[fk] = "asis"
		case matches(g.fixed, true) && matches(g.asis, false):
			variantOf[fk] = "fixed"
		default:
			variantOf[fk] = "?"
			broken[fk] = append(broken[fk], "neither the expressions of the code as modelled nor those of the proposed repair are present")
		}
	}
	modelled := 0
	for _, e := range exps {
		fk := e.File + "|" + e.Func
		if e.Variant != "" {
			if variantOf[fk] == e.Variant {
				modelled += e.Count
			}
			continue
		}
		n := found[fk+"|"+e.Kind+"|"+e.Expr]
		if n != e.Count {
			broken[fk] = append(broken[fk], fmt.Sprintf("%s `%s`: modelled %d×, source has %d×", e.Kind, e.Expr, e.Count, n))
		} else {
			modelled += n
		}
	}
	for fk := range complete {
		for _, s := range byFunc[fk] {
			if !expected[fk+"|"+s.Kind+"|"+s.Expr] {
				broken[fk] = append(broken[fk], fmt.Sprintf("new %s `%s` (line %d) in a completely modelled function", s.Kind, s.Expr, s.Line))
			}
		}
		if len(byFunc[fk]) == 0 && modelledFuncs[fk] {
			if g := groups[fk]; g == nil || variantOf[fk] == "?" {
				broken[fk] = append(broken[fk], "function not found in the source (renamed or removed)")
			}
		}
	}
	// allocations: every `make` whose size is computed (not len/cap of a value already in memory) must be a modelled one
	for _, st := range sites {
		fk := st.File + "|" + st.Func
		if st.Kind == "make" && st.Note == "" && !expected[fk+"|"+st.Kind+"|"+st.Expr] {
			broken[fk] = append(broken[fk], fmt.Sprintf("new allocation with a computed size `%s` (line %d): no alloc_bounded theorem covers it", st.Expr, st.Line))
		}
	}
	var fks []string
	for fk := range broken {
		fks = append(fks, fk)
	}
	sort.Strings(fks)
	for _, fk := range fks {
		p := strings.SplitN(fk, "|", 2)
		var have []string
		for _, s := range byFunc[fk] {
			have = append(have, fmt.Sprintf("%s `%s`", s.Kind, s.Expr))
		}
		res.Fail(lib.Failure{Kind: "correspondence", Signature: "sites-changed:" + p[0] + ":" + p[1],
			What:  "the panic-capable expressions of a modelled function differ from the expectation recorded beside the model (Model/Robust*.lean: …Sites): the model must be re-synchronised with the source; the search for a failing input runs meanwhile",
			Input: map[string]interface{}{"sites_function": fk, "differences": broken[fk], "source_has": have}, Impl: strings.Join(broken[fk], "; "), Model: "expectation of `robust sites`"})
	}
	// inventory for the evidence
	unmodelled := map[string]int{}
	var unmodelledList []string
	for _, s := range sites {
		fk := s.File + "|" + s.Func
		if expected[fk+"|"+s.Kind+"|"+s.Expr] {
			continue
		}
		unmodelled[s.File]++
		unmodelledList = append(unmodelledList, fmt.Sprintf("%s:%d %s %s `%s`", s.File, s.Line, s.Func, s.Kind, s.Expr))
	}
	res.Count("sites", true, "sites:total-in-request-path-packages")
	res.Histogram["sites:total-in-request-path-packages"] = len(sites)
	res.Histogram["sites:modelled"] = modelled
	for f, n := range unmodelled {
		res.Histogram["sites:unmodelled:"+f] = n
	}
	var vs []string
	for fk, v := range variantOf {
		vs = append(vs, fk+"="+v)
	}
	sort.Strings(vs)
	res.Note("site inventory (extract/panicsites on %s): %d panic-capable expressions in the request-path packages, %d covered by a theorem (modelled_sites), %d not modelled (unmodelled_sites, listed below; not a violation). Source variant of the functions with a proposed repair: %v",
		c20RepoDir(), len(sites), modelled, len(sites)-modelled, vs)
	inv, _ := json.Marshal(map[string]interface{}{"modelled_sites": exps, "unmodelled_sites": unmodelledList})
	res.Note("sites-inventory: %s", inv)
	c20SourceVariant = map[string]string{}
	for fk, v := range variantOf {
		c20SourceVariant[fk] = v
	}
	return nil
}

// what the source text says about the functions with a proposed repair (filled in by c20Sites)
var c20SourceVariant map[string]string
