package main

import (
	"fmt"
	"strings"
	"time"

	"verif/harness/lib"
	"verif/harness/prog"
)

func c10Next(versioned bool) func(g *prog.Gen, idx int, hist []*prog.Step) *prog.Op {
	return func(g *prog.Gen, idx int, hist []*prog.Step) *prog.Op {
		b := "bkt-lock"
		keys := []string{"k1", "dir/k2"}
		n := len(hist)
		total := 14 + (idx % 20)
		now := time.Now().Unix()
		owner := []string{"root", "u:up1", "u:adm1"}[idx%3]
		switch n {
		case 0:
			return &prog.Op{Kind: "createBucket", Caller: owner, B: b, Lock: true, Valid: true}
		case 1:
			return &prog.Op{Kind: "putObject", Caller: owner, B: b, K: keys[0], Put: g.PutSpec(), Valid: true}
		case 2:
			return &prog.Op{Kind: "putObject", Caller: owner, B: b, K: keys[1], Put: g.PutSpec(), Valid: true}
		case 3:
			// a policy that lets usr1 do everything incl. (sometimes) the governance bypass
			acts := []string{"s3:*"}
			if idx%2 == 0 {
				acts = []string{"s3:PutObject", "s3:GetObject", "s3:DeleteObject", "s3:GetObjectVersion", "s3:PutObjectRetention", "s3:PutObjectLegalHold",
					"s3:GetObjectRetention", "s3:GetObjectLegalHold", "s3:PutBucketObjectLockConfiguration", "s3:PutBucketVersioning", "s3:DeleteBucket", "s3:ListBucketVersions"}
			}
			pol := &prog.Policy{ID: 7000 + idx, Stmts: []prog.Stmt{{Allow: true, Principals: []string{"usr1", "up1"}, Actions: acts, Resources: []string{b, b + "/*"}}}}
			if idx%3 == 2 {
				// the governance bypass is granted for one key (or one prefix) only: in a batch every key needs its own grant
				pol.Stmts[0].Actions = []string{"s3:PutObject", "s3:GetObject", "s3:DeleteObject", "s3:GetObjectVersion", "s3:PutObjectRetention", "s3:PutObjectLegalHold",
					"s3:GetObjectRetention", "s3:GetObjectLegalHold", "s3:PutBucketObjectLockConfiguration", "s3:PutBucketVersioning", "s3:DeleteBucket", "s3:ListBucketVersions"}
				pol.Stmts = append(pol.Stmts, prog.Stmt{Allow: true, Principals: []string{"usr1", "up1"}, Actions: []string{"s3:BypassGovernanceRetention"},
					Resources: []string{[]string{b + "/dir/*", b + "/k1"}[(idx/3)%2]}})
			}
			return &prog.Op{Kind: "putBucketPolicy", Caller: owner, B: b, Valid: true, Policy: pol}
		}
		vids := c09KnownVids(hist)
		if n >= total {
			// final: everything that was ever written must still be there if it was protected; the
			// model says which answers to expect
			var all [][2]string
			for _, k := range keys {
				all = append(all, [2]string{k, ""})
				for _, v := range vids[k] {
					all = append(all, [2]string{k, v})
				}
			}
			i := n - total
			if i == 0 && versioned {
				return &prog.Op{Kind: "listVersions", Caller: "root", B: b}
			}
			if versioned {
				i--
			}
			if i >= 2*len(all) {
				return nil
			}
			kind := "getObject"
			if i >= len(all) {
				kind, i = "getRetention", i-len(all)
			}
			return &prog.Op{Kind: kind, Caller: "root", B: b, K: all[i][0], Vid: all[i][1]}
		}
		k := keys[g.R.Intn(len(keys))]
		vid := ""
		if versioned && len(vids[k]) > 0 && g.R.Chance(50) {
			vid = vids[k][g.R.Intn(len(vids[k]))]
		}
		caller := []string{"root", "u:adm1", "u:up1", "u:usr1", "u:usr1", "u:usr2"}[g.R.Intn(6)]
		bypass := g.R.Chance(50)
		switch r := g.R.Intn(100); {
		case r < 14:
			return &prog.Op{Kind: "putRetention", Caller: caller, B: b, K: k, Vid: vid, Mode: []string{"G", "G", "C"}[g.R.Intn(3)],
				Until: now + int64(600+g.R.Intn(5000)), Bypass: bypass}
		case r < 17:
			return &prog.Op{Kind: "putRetention", Caller: caller, B: b, K: k, Vid: vid, Mode: "G", Until: now - 1000, Bypass: bypass}
		case r < 27:
			return &prog.Op{Kind: "putLegalHold", Caller: caller, B: b, K: k, Vid: vid, On: g.R.Chance(65)}
		case r < 37:
			p := g.PutSpec()
			if g.R.Chance(30) {
				p.Hold = true
			}
			if g.R.Chance(30) {
				p.Retention = fmt.Sprintf("%s:%d", []string{"G", "C"}[g.R.Intn(2)], now+int64(600+g.R.Intn(5000)))
			}
			return &prog.Op{Kind: "putObject", Caller: caller, B: b, K: k, Put: p, Valid: true}
		case r < 50:
			return &prog.Op{Kind: "deleteObject", Caller: caller, B: b, K: k, Vid: vid, Bypass: bypass}
		case r < 56:
			o := &prog.Op{Kind: "deleteObjects", Caller: caller, B: b, Bypass: bypass}
			bk := keys
			if g.R.Chance(50) {
				bk = []string{keys[1], keys[0]}
			}
			for _, kk := range bk {
				v := ""
				if versioned && len(vids[kk]) > 0 && g.R.Chance(50) {
					v = vids[kk][g.R.Intn(len(vids[kk]))]
				}
				o.Keys = append(o.Keys, [2]string{kk, v})
			}
			return o
		case r < 62:
			return &prog.Op{Kind: "copyObject", Caller: caller, SB: b, SK: keys[g.R.Intn(2)], B: b, K: k, Valid: true}
		case r < 68:
			o := &prog.Op{Kind: "putLockConfig", Caller: caller, B: b, On: g.R.Chance(75)}
			if g.R.Chance(50) {
				o.Mode, o.Days = []string{"G", "C"}[g.R.Intn(2)], 1+g.R.Intn(3)
			}
			return o
		case r < 71:
			return &prog.Op{Kind: "getLockConfig", Caller: caller, B: b}
		case r < 75:
			return &prog.Op{Kind: "putVersioning", Caller: caller, B: b, On: g.R.Chance(30)}
		case r < 79:
			return &prog.Op{Kind: "deleteBucket", Caller: caller, B: b}
		case r < 86:
			return &prog.Op{Kind: "getRetention", Caller: caller, B: b, K: k, Vid: vid}
		case r < 92:
			return &prog.Op{Kind: "getLegalHold", Caller: caller, B: b, K: k, Vid: vid}
		default:
			return &prog.Op{Kind: "getObject", Caller: caller, B: b, K: k, Vid: vid}
		}
	}
}

func c10Classify(s *prog.Step, class string) (string, string) {
	if class == "fine" {
		return "correspondence", s.Op.Kind + ":error-code"
	}
	v := ""
	if s.Op.Vid != "" {
		v = "-by-version"
	}
	return "property", "lock:" + s.Op.Kind + v + ":" + class
}

func init() {
	fam := func(name string, versioned, sidecar bool, off int64, q, t int) checkFn {
		return func(a lib.Args, res *lib.Result) error {
			return runPrograms(a, res, progOpts{name: name, prop: "C10", programs: tierN(a, q, t), next: c10Next(versioned), versioning: versioned, sidecar: sidecar,
				nGateways: 1, classify: c10Classify, seedOff: off})
		}
	}
	checks["c10"] = checkDef{"C10",
		"adaptive programs on an object-lock bucket (versioned, and unversioned = gateway without a versioning directory; each with the xattr and with the sidecar metadata store), owner root/userplus/admin, a policy that grants two users everything with or without s3:BypassGovernanceRetention: put (with legal-hold / retention headers), PutObjectRetention (GOVERNANCE/COMPLIANCE, future and past dates, by version), PutObjectLegalHold on/off, delete (± bypass header, by version), batch delete, copy onto, PutObjectLockConfiguration (enabled / not enabled, default retention), PutBucketVersioning, DeleteBucket, by root, admin, owner and other users; finally ListObjectVersions, GET and GetObjectRetention of every version ever issued. Compared with Model.Gw.step. Non-trivial = program reaches the bucket; distinct by op list.",
		[]checkFn{fam("lock-versioned", true, false, 1001, 200, 4000), fam("lock-unversioned", false, false, 1002, 120, 3000),
			fam("lock-versioned-sidecar", true, true, 1004, 120, 2000), fam("lock-unversioned-sidecar", false, true, 1005, 60, 1000), c10CompleteOntoLocked, c10BypassPerKey, c10BatchSameKey}}
}

// c10BypassPerKey: a batch delete of two GOVERNANCE-retained versions with the bypass header, by a user whose
// policy grants s3:BypassGovernanceRetention for ONE of the two keys only, the granted key first or last:
// every entry needs its own grant.
func c10BypassPerKey(a lib.Args, res *lib.Result) error {
	return runPrograms(a, res, progOpts{name: "bypass-per-key", prop: "C10", programs: tierN(a, 8, 60), versioning: true, nGateways: 1, seedOff: 1006, classify: c10Classify,
		next: func(g *prog.Gen, idx int, hist []*prog.Step) *prog.Op {
			b, keys := "bkt-lock", []string{"k1", "dir/k2"}
			now := time.Now().Unix()
			acts := []string{"s3:PutObject", "s3:GetObject", "s3:DeleteObject", "s3:GetObjectVersion", "s3:PutObjectRetention", "s3:GetObjectRetention", "s3:ListBucketVersions"}
			switch len(hist) {
			case 0:
				return &prog.Op{Kind: "createBucket", Caller: "root", B: b, Lock: true, Valid: true}
			case 1, 2:
				p := g.PutSpec()
				p.Retention = fmt.Sprintf("G:%d", now+3600)
				return &prog.Op{Kind: "putObject", Caller: "root", B: b, K: keys[len(hist)-1], Put: p, Valid: true}
			case 3:
				granted := []string{b + "/dir/*", b + "/k1", b + "/dir/k2", b + "/k*"}[idx%4]
				return &prog.Op{Kind: "putBucketPolicy", Caller: "root", B: b, Valid: true, Policy: &prog.Policy{ID: 7600 + idx, Stmts: []prog.Stmt{
					{Allow: true, Principals: []string{"usr1"}, Actions: acts, Resources: []string{b, b + "/*"}},
					{Allow: true, Principals: []string{"usr1"}, Actions: []string{"s3:BypassGovernanceRetention"}, Resources: []string{granted}}}}}
			case 4:
				vids := c09KnownVids(hist)
				o := &prog.Op{Kind: "deleteObjects", Caller: "u:usr1", B: b, Bypass: true}
				order := keys
				if (idx/4)%2 == 1 {
					order = []string{keys[1], keys[0]}
				}
				for _, k := range order {
					v := ""
					if len(vids[k]) > 0 {
						v = vids[k][0]
					}
					o.Keys = append(o.Keys, [2]string{k, v})
				}
				return o
			case 5:
				return &prog.Op{Kind: "listVersions", Caller: "root", B: b}
			case 6, 7:
				return &prog.Op{Kind: "getObject", Caller: "root", B: b, K: keys[len(hist)-6]}
			}
			return nil
		}})
}

// c10BatchSameKey: a batch delete naming TWO versions of one key, an unprotected one and one under legal hold or
// retention, in both orders: every entry is checked on its own (key AND version id).
func c10BatchSameKey(a lib.Args, res *lib.Result) error {
	return runPrograms(a, res, progOpts{name: "batch-two-versions-of-a-key", prop: "C10", programs: tierN(a, 6, 60), versioning: true, nGateways: 1, seedOff: 1007, classify: c10Classify,
		next: func(g *prog.Gen, idx int, hist []*prog.Step) *prog.Op {
			b, k := "bkt-lock", "k1"
			now := time.Now().Unix()
			vids := c09KnownVids(hist)[k]
			switch len(hist) {
			case 0:
				return &prog.Op{Kind: "createBucket", Caller: "root", B: b, Lock: true, Valid: true}
			case 1, 2:
				return &prog.Op{Kind: "putObject", Caller: "root", B: b, K: k, Put: g.PutSpec(), Valid: true}
			case 3:
				// protect ONE of the two versions (the older or the newer one)
				if len(vids) < 2 {
					return nil
				}
				v := vids[(idx/2)%2]
				if idx%3 == 0 {
					return &prog.Op{Kind: "putLegalHold", Caller: "root", B: b, K: k, Vid: v, On: true}
				}
				return &prog.Op{Kind: "putRetention", Caller: "root", B: b, K: k, Vid: v, Mode: []string{"C", "G"}[idx%2], Until: now + 3600}
			case 4:
				o := &prog.Op{Kind: "deleteObjects", Caller: "root", B: b, Bypass: false}
				order := []string{vids[0], vids[1]}
				if idx%2 == 1 {
					order = []string{vids[1], vids[0]}
				}
				for _, v := range order {
					o.Keys = append(o.Keys, [2]string{k, v})
				}
				return o
			case 5:
				return &prog.Op{Kind: "listVersions", Caller: "root", B: b}
			case 6, 7:
				return &prog.Op{Kind: "getObject", Caller: "root", B: b, K: k, Vid: vids[len(hist)-6]}
			}
			return nil
		}})
}

// c10CompleteOntoLocked: the one destructive route that performs no object-lock check on this
// tree. Judged by the property itself: after the request the protected data must still be what
// GET returns (lock bucket without versioning: there is no other copy).
func c10CompleteOntoLocked(a lib.Args, res *lib.Result) error {
	return runPrograms(a, res, progOpts{name: "complete-onto-locked", prop: "C10", programs: 3, versioning: false, nGateways: 1, seedOff: 1003,
		next: func(g *prog.Gen, idx int, hist []*prog.Step) *prog.Op {
			b, k := "bkt-lock", "k1"
			switch len(hist) {
			case 0:
				return &prog.Op{Kind: "createBucket", Caller: "root", B: b, Lock: true, Valid: true}
			case 1:
				p := g.PutSpec()
				p.Hold = idx%2 == 0
				if !p.Hold {
					p.Retention = fmt.Sprintf("C:%d", time.Now().Unix()+3600)
				}
				return &prog.Op{Kind: "putObject", Caller: "root", B: b, K: k, Put: p, Valid: true}
			case 2:
				return &prog.Op{Kind: "createUpload", Caller: "root", B: b, K: k, Put: &prog.PutSpec{}, Valid: true}
			case 3:
				return &prog.Op{Kind: "uploadPart", Caller: "root", B: b, K: k, UpID: hist[2].Obs.NewID, Num: 1, Data: []prog.Seg{{Seed: 4242, Off: 0, Len: 10}}}
			case 4:
				et := ""
				for _, f := range hist[3].Obs.Fields {
					if f.K == "etag" {
						et, _ = hexDecodeStr(f.V)
					}
				}
				return &prog.Op{Kind: "completeUpload", Caller: "root", B: b, K: k, UpID: hist[2].Obs.NewID, Parts: []prog.PartRef{{Num: 1, ETag: et}}}
			case 5:
				return &prog.Op{Kind: "getObject", Caller: "root", B: b, K: k}
			}
			return nil
		},
		classify: c10Classify,
		post: func(steps []*prog.Step, res *lib.Result, idx int) {
			if len(steps) < 6 {
				return
			}
			before := fieldOf(steps[1].Impl, "etag")
			after := fieldOf(steps[5].Impl, "etag")
			if steps[4].Obs.Code == "" && before != after {
				res.Fail(lib.Failure{Kind: "property", Signature: "lock:completeUpload-onto-protected:data-replaced",
					What:  "CompleteMultipartUpload replaced an object under legal hold / COMPLIANCE retention in a lock bucket without versioning",
					Input: map[string]interface{}{"family": "complete-onto-locked", "program_index": idx, "steps": prog.Describe(steps, 5)},
					Impl:  steps[5].Impl, Model: steps[5].Model})
			}
		}})
}

func fieldOf(line, name string) string {
	for _, f := range strings.Split(line, " ") {
		if strings.HasPrefix(f, name+"=") {
			return f[len(name)+1:]
		}
	}
	return ""
}
