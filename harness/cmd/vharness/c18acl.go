package main

// C18 — ownership / ACL / policy round trip of proxied buckets.
//
// The gateway keeps owner and grants of a proxied bucket in the reserved bucket tag
// `versitygwAcl` at the endpoint (base64 of the JSON of auth.ACL); policies are stored by the
// endpoint's own PutBucketPolicy. For generated buckets (owners root / admin / userplus, canned
// ACLs, grant headers, later PutBucketAcl / PutBucketPolicy):
//   1. what P answers for GetBucketAcl / GetBucketPolicy is compared with the direct gateway D
//      (paired run, signatures `proxy:<op>:…`);
//   2. the endpoint B is asked directly (TLS) for the bucket's tags: the reserved tag must hold
//      exactly the ACL P shows (`proxy:acl:tag-…`), and its text must be what the Lean model's
//      base64 / putBucketAcl produce from the same bytes (`correspondence`);
//   3. P is restarted (it has no state of its own but its IAM directory) and asked again: the
//      answers must be byte-identical (`proxy:acl:restart:…`);
//   4. a tag put at B directly survives PutBucketAcl through P (model: acl_put_keeps_other_tags).

import (
	"encoding/base64"
	"encoding/json"
	"encoding/xml"
	"fmt"
	"sort"
	"strings"

	"verif/harness/gw"
	"verif/harness/lib"
	"verif/harness/prog"
)

type c18ACLDoc struct {
	Owner    string
	Grantees []struct {
		Permission string
		Access     string
		Type       string
	}
}

func (d c18ACLDoc) canon() string {
	var g []string
	for _, x := range d.Grantees {
		g = append(g, x.Access+":"+x.Permission+":"+x.Type)
	}
	sort.Strings(g)
	return d.Owner + "|" + strings.Join(g, ",")
}

// c18AclOfXML: canonical form of an AccessControlPolicy document.
func c18AclOfXML(body []byte) string {
	var a struct {
		Owner struct {
			ID string `xml:"ID"`
		} `xml:"Owner"`
		Grants []struct {
			Grantee struct {
				Type string `xml:"type,attr"`
				ID   string `xml:"ID"`
			} `xml:"Grantee"`
			Permission string `xml:"Permission"`
		} `xml:"AccessControlList>Grant"`
	}
	xml.Unmarshal(body, &a)
	var g []string
	for _, x := range a.Grants {
		g = append(g, x.Grantee.ID+":"+x.Permission+":"+x.Grantee.Type)
	}
	sort.Strings(g)
	return a.Owner.ID + "|" + strings.Join(g, ",")
}

// tagsAtB asks the endpoint behind the proxy for the bucket's tag set (nil = none).
func (e *c18Env) tagsAtB(bucket string) (map[string]string, int) {
	req := gw.Req{Method: "GET", Path: "/" + bucket, Query: "tagging", Auth: "header", Creds: e.wB.Root}
	var r gw.Resp
	if c18TlsBackend {
		r = gw.DoTLS(e.B.Addr(), req)
	} else {
		r = gw.Do(e.B.Addr(), req)
	}
	if r.Status != 200 {
		return nil, r.Status
	}
	var t struct {
		Tags []struct {
			Key   string `xml:"Key"`
			Value string `xml:"Value"`
		} `xml:"TagSet>Tag"`
	}
	xml.Unmarshal(r.Body, &t)
	m := map[string]string{}
	for _, x := range t.Tags {
		m[x.Key] = x.Value
	}
	return m, 200
}

func (e *c18Env) putTagsAtB(bucket string, tags []prog.KV) int {
	req := gw.Req{Method: "PUT", Path: "/" + bucket, Query: "tagging", Auth: "header", Creds: e.wB.Root, Body: prog.TagsXML(tags)}
	if c18TlsBackend {
		return gw.DoTLS(e.B.Addr(), req).Status
	}
	return gw.Do(e.B.Addr(), req).Status
}

func c18ShowTagMap(m map[string]string) string {
	if m == nil {
		return "~"
	}
	if len(m) == 0 {
		return "-"
	}
	var ks []string
	for k := range m {
		ks = append(ks, k)
	}
	sort.Strings(ks)
	var p []string
	for _, k := range ks {
		p = append(p, lib.HexS(k)+":"+lib.HexS(m[k]))
	}
	return strings.Join(p, ",")
}

func c18CanonTagLine(s string) string {
	// model answers `ok k:v,k:v` in list order; the endpoint stores a map: compare as sets
	f := strings.SplitN(s, " ", 2)
	if len(f) != 2 || f[0] != "ok" {
		return s
	}
	p := strings.Split(f[1], ",")
	sort.Strings(p)
	return "ok " + strings.Join(p, ",")
}

type c18AclBucket struct {
	name  string
	owner string
	ops   []*c18Op
}

func c18AclPrograms(r *lib.Rand, n int) []c18AclBucket {
	owners := []string{"root", "u:adm1", "u:up1"}
	users := []string{"usr1", "usr2", "up1", "adm1"}
	pick := func(xs []string) string { return xs[r.Intn(len(xs))] }
	var out []c18AclBucket
	for i := 0; i < n; i++ {
		b := fmt.Sprintf("acl-%d", i)
		owner := pick(owners)
		bk := c18AclBucket{name: b, owner: owner}
		create := &c18Op{Op: prog.Op{Kind: "x:createBucket", Caller: owner, B: b}}
		switch r.Intn(5) {
		case 0:
		case 1:
			create.XH = append(create.XH, c18KV("x-amz-object-ownership", "BucketOwnerPreferred"), c18KV("x-amz-acl", pick([]string{"private", "public-read"})))
		case 2:
			create.XH = append(create.XH, c18KV("x-amz-object-ownership", "ObjectWriter"), c18KV(pick([]string{"x-amz-grant-read", "x-amz-grant-write", "x-amz-grant-full-control", "x-amz-grant-read-acp"}), pick(users)))
		case 3:
			create.XH = append(create.XH, c18KV("x-amz-object-ownership", "BucketOwnerPreferred"))
		case 4:
			create.XH = append(create.XH, c18KV("x-amz-object-ownership", "BucketOwnerPreferred"), c18KV("x-amz-acl", "public-read-write"))
		}
		bk.ops = append(bk.ops, create)
		for k := r.Intn(4); k > 0; k-- {
			switch r.Intn(4) {
			case 0:
				bk.ops = append(bk.ops, &c18Op{Op: prog.Op{Kind: "putOwnership", Caller: owner, B: b, Own: pick([]string{"BucketOwnerPreferred", "ObjectWriter"})}})
			case 1:
				o := &c18Op{Op: prog.Op{Kind: "x:putBucketAcl", Caller: owner, B: b}}
				if r.Chance(50) {
					o.XH = append(o.XH, c18KV("x-amz-acl", pick([]string{"private", "public-read", "public-read-write"})))
				} else {
					o.XH = append(o.XH, c18KV(pick([]string{"x-amz-grant-read", "x-amz-grant-write", "x-amz-grant-write-acp"}), pick(users)))
					if r.Chance(30) {
						o.XH = append(o.XH, c18KV("x-amz-grant-full-control", pick(users)+","+pick(users)))
					}
				}
				bk.ops = append(bk.ops, o)
			case 2:
				g := prog.NewGen(r.Fork())
				bk.ops = append(bk.ops, &c18Op{Op: prog.Op{Kind: "putBucketPolicy", Caller: owner, B: b, Policy: g.Policy(b), Valid: true}})
			case 3:
				bk.ops = append(bk.ops, &c18Op{Op: prog.Op{Kind: "deleteBucketPolicy", Caller: owner, B: b}})
			}
		}
		out = append(out, bk)
	}
	return out
}

func c18Acl(a lib.Args, res *lib.Result) error {
	if c18Skip(a, "acl") {
		return nil
	}
	if in := a.ReplayInput(); in != nil {
		if sd, ok := in["seed"].(float64); ok {
			a.Seed = int64(sd)
		}
	}
	facts, err := c18AskModel(a)
	if err != nil {
		return err
	}
	e, err := c18Start(a, "c18acl", false)
	if err != nil {
		return err
	}
	defer e.kill()
	r := lib.NewRandStream(a.Seed, 1810)
	rounds := tierN(a, 3, 60)
	for round := 0; round < rounds; round++ {
		e.wipe()
		buckets := c18AclPrograms(r.Fork(), 6)
		var all []*c18Op
		for _, bk := range buckets {
			all = append(all, bk.ops...)
			all = append(all, c18Mk("getBucketAcl", "root", bk.name, ""), c18Mk("getBucketPolicy", "root", bk.name, ""))
		}
		steps := e.runPairOpt(all, false, true)
		c18Report(res, "acl", round, a.Seed, false, all, steps)
		fail := func(sig, what string, bk c18AclBucket, impl, model string) {
			res.Fail(lib.Failure{Kind: "property", Signature: sig, What: what,
				Input: map[string]interface{}{"family": "acl", "round": round, "seed": a.Seed, "bucket": bk.name, "ops": bk.ops}, Impl: impl, Model: model})
		}
		// state per bucket before the restart
		type snap struct {
			aclStatus, polStatus int
			acl, pol             string
		}
		read := func(b string) snap {
			ra := e.wP.ExecRaw("root", gw.Req{Method: "GET", Path: "/" + b, Query: "acl"})
			rp := e.wP.ExecRaw("root", gw.Req{Method: "GET", Path: "/" + b, Query: "policy"})
			return snap{ra.Status, rp.Status, c18AclOfXML(ra.Raw.Body), string(rp.Raw.Body)}
		}
		createdP := map[string]string{} // bucket -> status of its create through P
		for _, st := range steps {
			if st.Op.name() == "createBucket" {
				createdP[st.Op.B] = st.P.Fields["status"]
			}
		}
		before := map[string]snap{}
		var lines []string
		var lineOf []string
		for _, bk := range buckets {
			s := read(bk.name)
			before[bk.name] = s
			res.Count("acl|"+bk.name+"|"+s.acl, true, "acl:buckets")
			tags, _ := e.tagsAtB(bk.name)
			if createdP[bk.name] != "200" {
				res.Histogram["acl:create-refused:"+createdP[bk.name]]++
				// does the bucket exist at the endpoint although the create was refused?
				hb := gw.Req{Method: "HEAD", Path: "/" + bk.name, Auth: "header", Creds: e.wB.Root}
				var hr gw.Resp
				if c18TlsBackend {
					hr = gw.DoTLS(e.B.Addr(), hb)
				} else {
					hr = gw.Do(e.B.Addr(), hb)
				}
				if hr.Status == 200 {
					fail("proxy:acl:create-leaves-bucket-without-acl", "CreateBucket through the proxy was refused (the ACL does not fit the tag) but the bucket exists at the endpoint without the reserved tag; the proxy shows it as a bucket of root with an empty ACL", bk,
						fmt.Sprintf("create through proxy: %s; HEAD at endpoint: %d; tags at endpoint: %s; ACL shown by proxy: %s", createdP[bk.name], hr.Status, c18ShowTagMap(tags), s.acl), "no bucket")
				}
				continue
			}
			if s.aclStatus != 200 {
				fail("proxy:acl:unreadable", "GetBucketAcl through the proxy fails for a bucket it created", bk, fmt.Sprint(s.aclStatus), "200")
				continue
			}
			v, ok := tags["versitygwAcl"]
			if !ok {
				if strings.HasSuffix(s.acl, "|") && strings.HasPrefix(s.acl, "rootaccess|") {
					res.Histogram["acl:no-tag-default-acl"]++
					continue
				}
				fail("proxy:acl:tag-missing", "the endpoint holds no reserved tag for a bucket whose ACL the proxy shows", bk, c18ShowTagMap(tags), s.acl)
				continue
			}
			raw, err := base64.StdEncoding.DecodeString(v)
			var doc c18ACLDoc
			if err != nil || json.Unmarshal(raw, &doc) != nil {
				fail("proxy:acl:tag-undecodable", "the reserved tag is not base64 of an ACL document", bk, v, s.acl)
				continue
			}
			if doc.canon() != s.acl {
				fail("proxy:acl:tag-differs", "the reserved tag at the endpoint does not hold the ACL the proxy shows", bk, doc.canon(), s.acl)
			}
			res.Histogram[fmt.Sprintf("acl:grantees:%d", len(doc.Grantees))]++
			res.Histogram[fmt.Sprintf("acl:json-bytes:%d0-%d9", len(raw)/10, len(raw)/10)]++
			// model: base64 text, read-back, and put on top of the other tags
			others := map[string]string{}
			for k, x := range tags {
				if k != "versitygwAcl" {
					others[k] = x
				}
			}
			lines = append(lines, "proxy b64 "+lib.Hex(raw), "proxy aclget "+c18ShowTagMap(tags), "proxy aclput "+c18ShowTagMap(others)+" "+lib.Hex(raw))
			lineOf = append(lineOf, bk.name+"|b64|"+lib.HexS(v), bk.name+"|get|ok "+lib.Hex(raw), bk.name+"|put|"+c18CanonTagLine("ok "+c18ShowTagMap(tags)))
		}
		out, err := a.Driver.Ask(lines)
		if err != nil {
			return err
		}
		for i, l := range out {
			p := strings.SplitN(lineOf[i], "|", 3)
			got := l
			if p[1] == "put" {
				got = c18CanonTagLine(l)
			}
			if got != p[2] {
				res.Fail(lib.Failure{Kind: "correspondence", Signature: "acl-model:" + p[1], What: "the Lean model of the reserved tag disagrees with the endpoint's tag store",
					Input: map[string]interface{}{"family": "acl", "seed": a.Seed, "bucket": p[0], "line": lines[i]}, Impl: p[2], Model: got})
			}
		}
		// 4. a foreign tag put at the endpoint survives PutBucketAcl through the proxy
		for _, bk := range buckets {
			if before[bk.name].aclStatus != 200 {
				continue
			}
			tags, _ := e.tagsAtB(bk.name)
			if _, ok := tags["versitygwAcl"]; !ok {
				continue
			}
			with := []prog.KV{{K: "team", V: "x y"}, {K: "versitygwAcl", V: tags["versitygwAcl"]}}
			if st := e.putTagsAtB(bk.name, with); st != 200 && st != 204 {
				return fmt.Errorf("put tags at endpoint: %d", st)
			}
			ro := e.wP.ExecRaw("root", gw.Req{Method: "PUT", Path: "/" + bk.name, Query: "acl", Headers: []gw.Header{{K: "x-amz-acl", V: "private"}}})
			after, _ := e.tagsAtB(bk.name)
			if ro.Status == 200 && after["team"] != "x y" {
				fail("proxy:acl:put-drops-other-tags", "PutBucketAcl through the proxy removed a tag the endpoint held", bk, c18ShowTagMap(after), "team=x y kept")
			}
			res.Histogram[fmt.Sprintf("acl:put-on-foreign-tag:%d", ro.Status)]++
			before[bk.name] = read(bk.name)
			break // one per round is enough
		}
		// 5. client tagging calls through the proxy neither clobber nor reveal the reserved tag
		for _, bk := range buckets {
			if before[bk.name].aclStatus != 200 {
				continue
			}
			t0, _ := e.tagsAtB(bk.name)
			acl0, ok := t0["versitygwAcl"]
			if !ok {
				continue
			}
			client := []prog.KV{{K: "team", V: "x"}, {K: "env", V: "prod"}}
			// as root: a bucket policy of the program may deny the owner these actions
			rp := e.wP.ExecRaw("root", gw.Req{Method: "PUT", Path: "/" + bk.name, Query: "tagging", Body: prog.TagsXML(client)})
			rg := e.wP.ExecRaw("root", gw.Req{Method: "GET", Path: "/" + bk.name, Query: "tagging"})
			t1, _ := e.tagsAtB(bk.name)
			rd := e.wP.ExecRaw("root", gw.Req{Method: "DELETE", Path: "/" + bk.name, Query: "tagging"})
			t2, _ := e.tagsAtB(bk.name)
			res.Histogram[fmt.Sprintf("acl:client-tagging:put=%d,get=%d,delete=%d", rp.Status, rg.Status, rd.Status)]++
			if t1["versitygwAcl"] != acl0 || t2["versitygwAcl"] != acl0 {
				fail("proxy:acl:tagging-clobbers-acl", "a client's Put/DeleteBucketTagging through the proxy changed the reserved tag at the endpoint", bk,
					fmt.Sprintf("after put: %s; after delete: %s", c18ShowTagMap(t1), c18ShowTagMap(t2)), c18ShowTagMap(t0))
			}
			if strings.Contains(string(rg.Raw.Body), "versitygwAcl") {
				fail("proxy:acl:tagging-reveals-acl", "a client's GetBucketTagging through the proxy shows the reserved tag", bk, string(rg.Raw.Body), "only the client's tags")
			}
			if rp.Status < 300 && rg.Status == 200 {
				got := map[string]string{}
				var t struct {
					Tags []struct {
						Key   string `xml:"Key"`
						Value string `xml:"Value"`
					} `xml:"TagSet>Tag"`
				}
				xml.Unmarshal(rg.Raw.Body, &t)
				for _, x := range t.Tags {
					got[x.Key] = x.Value
				}
				if len(got) != 2 || got["team"] != "x" || got["env"] != "prod" {
					fail("proxy:acl:tagging-roundtrip", "the tags a client put through the proxy are not the tags it gets back", bk, fmt.Sprint(got), "team=x env=prod")
				}
			}
			// the model of the three calls (as the regenerated table says they are implemented or not)
			impl := "1"
			if facts.unimpl["PutBucketTagging"] {
				impl = "0"
			}
			ml, err := a.Driver.Ask([]string{"proxy tagging " + impl + " " + c18ShowTagMap(t0) + " put " + c18ShowTagMap(map[string]string{"team": "x", "env": "prod"})})
			if err != nil {
				return err
			}
			want := "ok"
			if rp.Status == 501 {
				want = "err NotImplemented"
			} else if rp.Status >= 300 {
				want = fmt.Sprintf("status %d", rp.Status)
			}
			if !strings.HasPrefix(ml[0], want+" |") {
				res.Fail(lib.Failure{Kind: "correspondence", Signature: "acl-model:client-tagging", What: "the model of the client tagging calls disagrees with the gateway",
					Input: map[string]interface{}{"family": "acl", "seed": a.Seed, "bucket": bk.name}, Impl: want, Model: ml[0]})
			}
			if strings.HasPrefix(ml[0], "ok |") {
				mt := strings.SplitN(ml[0], " | ", 2)[1]
				if c18CanonTagLine("ok "+mt) != c18CanonTagLine("ok "+c18ShowTagMap(t1)) {
					res.Fail(lib.Failure{Kind: "correspondence", Signature: "acl-model:client-tagging-store", What: "the model's tag store after a client put differs from the endpoint's",
						Input: map[string]interface{}{"family": "acl", "seed": a.Seed, "bucket": bk.name}, Impl: c18ShowTagMap(t1), Model: mt})
				}
			}
			if impl == "1" {
				// a client may not use the reserved key: refused, and the stored ACL stays
				rr := e.wP.ExecRaw("root", gw.Req{Method: "PUT", Path: "/" + bk.name, Query: "tagging", Body: prog.TagsXML([]prog.KV{{K: "versitygwAcl", V: "x"}, {K: "team", V: "y"}})})
				t3, _ := e.tagsAtB(bk.name)
				res.Histogram[fmt.Sprintf("acl:client-tagging-reserved-key:put=%d", rr.Status)]++
				if rr.Status < 300 || t3["versitygwAcl"] != acl0 {
					fail("proxy:acl:reserved-key-accepted", "a client's PutBucketTagging naming the reserved key was accepted or changed the stored ACL", bk,
						fmt.Sprintf("status %d; endpoint tags: %s", rr.Status, c18ShowTagMap(t3)), "refused; "+c18ShowTagMap(t2))
				}
				mr, err := a.Driver.Ask([]string{"proxy tagging 1 " + c18ShowTagMap(t2) + " put " + c18ShowTagMap(map[string]string{"versitygwAcl": "x", "team": "y"})})
				if err != nil {
					return err
				}
				if !strings.HasPrefix(mr[0], "err ") {
					res.Fail(lib.Failure{Kind: "correspondence", Signature: "acl-model:client-tagging-reserved", What: "the model accepts a client tag set that names the reserved key",
						Input: map[string]interface{}{"family": "acl", "seed": a.Seed, "bucket": bk.name}, Impl: fmt.Sprintf("status %d", rr.Status), Model: mr[0]})
				}
			}
			before[bk.name] = read(bk.name)
			break
		}
		// 3. restart the proxy: everything it knows lives at the endpoint
		if err := e.P.Restart(); err != nil {
			return err
		}
		for _, bk := range buckets {
			s := read(bk.name)
			if s != before[bk.name] {
				fail("proxy:acl:restart", "ACL or policy of a proxied bucket read differently after restarting the proxy gateway", bk, fmt.Sprintf("%+v", s), fmt.Sprintf("%+v", before[bk.name]))
			}
		}
	}
	return nil
}
