// vharness: correspondence checks between the Lean models (through the driver) and the real
// versitygw code (called in-process, or driven as child gateway processes).
package main

import (
	"flag"
	"fmt"
	"os"

	"strings"

	"verif/harness/gw"
	"verif/harness/lib"
)

type checkFn func(a lib.Args, res *lib.Result) error

type checkDef struct {
	prop string
	rule string
	fns  []checkFn
}

var checks = map[string]checkDef{}

func main() {
	if len(os.Args) < 2 {
		fmt.Fprintln(os.Stderr, "usage: vharness <check> [flags]")
		os.Exit(2)
	}
	name := os.Args[1]
	fs := flag.NewFlagSet(name, flag.ExitOnError)
	tier := fs.String("tier", "quick", "quick|thorough")
	seed := fs.Int64("seed", 1, "PRNG seed")
	driver := fs.String("driver", "", "path of the Lean driver executable")
	out := fs.String("out", "", "result JSON")
	replay := fs.String("replay", "", "replay file")
	work := fs.String("work", "", "scratch directory")
	gwBin := fs.String("gw", "", "versitygw binary")
	fs.Parse(os.Args[2:])
	def, ok := checks[name]
	if !ok {
		fmt.Fprintln(os.Stderr, "unknown check", name)
		os.Exit(2)
	}
	a := lib.Args{Tier: *tier, Seed: *seed, Driver: &lib.Driver{Path: *driver}, Out: *out, Replay: *replay, Work: *work, GwBin: *gwBin}
	res := lib.NewResult(def.prop, name, def.rule)
	for _, f := range def.fns {
		if err := f(a, res); err != nil {
			fmt.Fprintln(os.Stderr, "harness error:", err)
			res.Note("harness error: %v", err)
			res.EnvFault = gw.EnvFault()
			if res.EnvFault == "" && strings.Contains(err.Error(), "no space left on device") {
				res.EnvFault = err.Error()
			}
			res.Write(*out)
			os.Exit(3)
		}
	}
	res.EnvFault = gw.EnvFault()
	if err := res.Write(*out); err != nil {
		fmt.Fprintln(os.Stderr, err)
		os.Exit(3)
	}
}

func init() {
	checks["c13"] = checkDef{"C13",
		"(size, Range header) pairs: sizes from {0,1,2,3,10,100,4096,2^31±1,2^63-1} and random < 40; headers from a grammar of well-formed a-b forms with boundary numbers, suffix, multi, other units, signed, junk tails, 1-2 character mutations and random bytes. Non-trivial = header starts with `bytes=` or the parser returned valid/err (i.e. not rejected by the first syntactic test); distinct by (size, header).",
		[]checkFn{c13Direct, c13E2E}}
}
