package main

import (
	"fmt"
	"strconv"
	"strings"

	"github.com/versity/versitygw/backend"
	"verif/harness/lib"
)

// ------------------------------------------------------------------ generators for Range headers

var c13Sizes = []int64{0, 1, 2, 3, 10, 100, 4096, 1<<31 - 1, 1 << 31, 1<<31 + 1, 1<<63 - 1}

func c13Num(r *lib.Rand, size int64) string {
	switch r.Intn(12) {
	case 0:
		return "0"
	case 1:
		return strconv.FormatInt(size, 10)
	case 2:
		return strconv.FormatInt(size-1, 10)
	case 3:
		if size < 1<<63-1 {
			return strconv.FormatInt(size+1, 10)
		}
		return "9223372036854775807"
	case 4:
		return pick(r, "9223372036854775807", "9223372036854775808", "18446744073709551616", "99999999999999999999999")
	case 5:
		return pick(r, "2147483647", "2147483648", "4294967296")
	case 6:
		return ""
	case 7:
		return "0" + strconv.Itoa(r.Intn(20)) // leading zero
	case 8:
		if size > 0 {
			return strconv.FormatInt(int64(r.U64()%uint64(size)), 10)
		}
		return "0"
	default:
		return strconv.Itoa(r.Intn(12))
	}
}

func pick(r *lib.Rand, xs ...string) string { return xs[r.Intn(len(xs))] }

func c13Header(r *lib.Rand, size int64) (string, string) {
	switch k := r.Intn(20); {
	case k < 9: // well-formed shape, boundary numbers
		return "bytes=" + c13Num(r, size) + "-" + c13Num(r, size), "shape:a-b"
	case k < 10:
		return "", "shape:absent"
	case k < 11:
		return "bytes=-" + c13Num(r, size), "shape:suffix"
	case k < 12:
		return "bytes=" + c13Num(r, size) + "-" + c13Num(r, size) + "," + c13Num(r, size) + "-" + c13Num(r, size), "shape:multi"
	case k < 13:
		return pick(r, "items", "Bytes", "byte", "BYTES", "bits", "") + "=" + c13Num(r, size) + "-" + c13Num(r, size), "shape:unit"
	case k < 14:
		return "bytes=" + pick(r, "+", "-", " ", "") + c13Num(r, size) + "-" + pick(r, "+", "-", " ", "") + c13Num(r, size), "shape:signed"
	case k < 17: // mutate a well-formed one
		h := []byte("bytes=" + c13Num(r, size) + "-" + c13Num(r, size))
		for n := 1 + r.Intn(2); n > 0; n-- {
			alphabet := "0123456789-=+ ,bytes\t.xe_/*"
			switch r.Intn(3) {
			case 0:
				if len(h) > 0 {
					i := r.Intn(len(h))
					h = append(h[:i], h[i+1:]...)
				}
			case 1:
				i := r.Intn(len(h) + 1)
				h = append(h[:i], append([]byte{alphabet[r.Intn(len(alphabet))]}, h[i:]...)...)
			default:
				if len(h) > 0 {
					h[r.Intn(len(h))] = alphabet[r.Intn(len(alphabet))]
				}
			}
		}
		return string(h), "shape:mutated"
	case k < 18:
		return string(r.Bytes(r.Intn(12))), "shape:garbage"
	default:
		return "bytes=" + c13Num(r, size) + "-" + pick(r, "x", "1x", " 5", "5 ", "0x10", "1e3", "१", "1_0"), "shape:junk-tail"
	}
}

// ------------------------------------------------------------------ direct correspondence

// c13Direct calls backend.ParseGetObjectRange on generated (size, header) pairs and compares
// the four results with the Lean model's; every case is also passed through the model-vs-spec
// self check (the executable oracle must admit the model's own answer).
func c13Direct(a lib.Args, res *lib.Result) error {
	n := 20000
	if a.Thorough() {
		n = 1000000
	}
	r := lib.NewRand(a.Seed)
	type cs struct {
		size int64
		hdr  string
		impl string
	}
	cases := make([]cs, 0, n)
	lines := make([]string, 0, 2*n)
	add := func(size int64, hdr, class string) {
		st, ln, valid, err := backend.ParseGetObjectRange(size, hdr)
		impl := fmt.Sprintf("%d %d %v %v", st, ln, valid, err != nil)
		cases = append(cases, cs{size, hdr, impl})
		lines = append(lines, fmt.Sprintf("range parse %d %s", size, lib.HexS(hdr)))
		lines = append(lines, fmt.Sprintf("range selfcheck %d %s", size, lib.HexS(hdr)))
		res.Count(fmt.Sprintf("%d|%s", size, hdr), valid || err != nil || strings.HasPrefix(hdr, "bytes="), class,
			fmt.Sprintf("out:valid=%v,err=%v", valid, err != nil))
	}
	if in := a.ReplayInput(); in != nil {
		sz, _ := in["size"].(float64)
		hdr, _ := in["range"].(string)
		add(int64(sz), hdr, "replay")
		n = 0
	} else {
		c13Corpus(add)
	}
	for i := 0; i < n; i++ {
		size := c13Sizes[r.Intn(len(c13Sizes))]
		if r.Chance(20) {
			size = int64(r.Intn(40))
		}
		hdr, class := c13Header(r, size)
		add(size, hdr, class)
	}
	out, err := a.Driver.AskParallel(lines, 8)
	if err != nil {
		return err
	}
	for i, c := range cases {
		model, self := out[2*i], out[2*i+1]
		if i < 4 {
			res.Sample(map[string]interface{}{"size": c.size, "range": c.hdr, "impl(start,len,valid,err)": c.impl, "model": model})
		}
		if self != "ok" {
			res.Fail(lib.Failure{Kind: "model-vs-spec", Signature: "range-selfcheck", What: "Spec.Range.admissibleB rejects the model's own answer",
				Input: map[string]interface{}{"size": c.size, "range": c.hdr}, Model: model})
		}
		if model != c.impl {
			res.Fail(lib.Failure{Kind: "correspondence", Signature: "ParseGetObjectRange", What: "backend.ParseGetObjectRange differs from Model.Range.parseGetObjectRange",
				Input: map[string]interface{}{"size": c.size, "range": c.hdr}, Impl: c.impl, Model: model})
		}
	}
	return nil
}

func c13Corpus(add func(int64, string, string)) {
	for _, c := range [][2]string{{"10", "bytes=2-4"}, {"10", "bytes=-3"}, {"10", "bytes=5-2"}, {"10", "bytes=10-"},
		{"0", "bytes=0-0"}, {"10", "bytes=+2-+4"}, {"10", "bytes=9223372036854775808-"}, {"10", "bytes=0-9223372036854775808"},
		{"10", "bytes=12-x"}, {"10", "bytes=1-2,4-5"}, {"10", "bytes=1-2-3"}, {"10", "bytes==1-2"}, {"10", "bytes=1-2="}} {
		sz, _ := strconv.ParseInt(c[0], 10, 64)
		add(sz, c[1], "corpus")
	}
}
