package main

// C17 — account changes take effect immediately and completely.
//
// In-process: the REAL auth.NewCache(auth.NewInternal(root, dir), ttl, prune) (and the file
// service alone = --iam-cache-disable) is driven with generated histories of create / update /
// delete / get / list calls and real clock advances relative to the TTL; every answer is compared
// with Model.IAM through the stateful `iam` handler of the Lean driver (correspondence) and the
// observed history is judged by the executable Spec.IAM oracle (linearizability w.r.t. the plain
// map access -> account).  c17conc.go steers concurrent calls through every interleaving at the
// service boundary; c17e2e.go does the same through a real gateway's admin API.

import (
	"encoding/json"
	"errors"
	"fmt"
	"os"
	"path/filepath"
	"sort"
	"strconv"
	"strings"
	"sync"
	"time"

	"github.com/versity/versitygw/auth"
	"verif/harness/lib"
)

func init() {
	checks["c17"] = checkDef{"C17",
		"seq: histories of 4-14 calls (create/get/update/delete/list + clock advances of 0.6 TTL) over the access keys {a, b, root} with secrets {s1,s2,s3}, the three roles, uid/gid in {0,5,1000}, on an empty or pre-populated users.json; modes: cache (prune never / prune every 10 ms), ttl 0, cache disabled. conc: scenarios = warm-up prefix + 2-3 concurrent calls on one or two keys + a schedule over the yield points at the service boundary (after the cache lookup / before the store lock; after the store unlock / before the cache step) + probes of every key after all acknowledgements (immediately and after expiry); exhaustive over all call pairs and all schedules of two calls, random for three. e2e: the same through PATCH /create-user, /update-user, /delete-user, /list-users of a real gateway, observed through signed S3 requests (authentication outcome, CreateBucket right by role, owner uid/gid of created files). Non-trivial = a lookup follows an acknowledged change of the same key; distinct by canonical scenario text.",
		[]checkFn{c17Seq, c17Conc, c17Free, c17E2E}}
}

// ------------------------------------------------------------------ vocabulary

type c17Acct struct {
	Access string `json:"access"`
	Secret string `json:"secret"`
	Role   string `json:"role"`
	UID    int    `json:"uid"`
	GID    int    `json:"gid"`
}

func (a c17Acct) enc() string {
	return fmt.Sprintf("%s:%s:%s:%d:%d", lib.HexS(a.Access), lib.HexS(a.Secret), a.Role, a.UID, a.GID)
}

func c17FromReal(a auth.Account) c17Acct {
	return c17Acct{a.Access, a.Secret, string(a.Role), a.UserID, a.GroupID}
}
func (a c17Acct) real() auth.Account {
	return auth.Account{Access: a.Access, Secret: a.Secret, Role: auth.Role(a.Role), UserID: a.UID, GroupID: a.GID}
}

func c17EncAccts(l []c17Acct) string {
	if len(l) == 0 {
		return "-"
	}
	s := make([]string, len(l))
	for i, a := range l {
		s[i] = a.enc()
	}
	return strings.Join(s, ",")
}

type c17Op struct {
	Kind   string   `json:"kind"` // create | get | update | delete | list | adv
	Acct   *c17Acct `json:"acct,omitempty"`
	Key    string   `json:"key,omitempty"`
	Secret *string  `json:"secret,omitempty"`
	UID    *int     `json:"uid,omitempty"`
	GID    *int     `json:"gid,omitempty"`
}

func (o c17Op) key() string {
	if o.Kind == "create" {
		return o.Acct.Access
	}
	return o.Key
}

func (o c17Op) isMut() bool { return o.Kind == "create" || o.Kind == "update" || o.Kind == "delete" }

func optS(p *string) string {
	if p == nil {
		return "~"
	}
	return lib.HexS(*p)
}
func optI(p *int) string {
	if p == nil {
		return "~"
	}
	return strconv.Itoa(*p)
}

// enc: <op> of the driver's line protocol
func (o c17Op) enc() string {
	switch o.Kind {
	case "create":
		return "create=" + o.Acct.enc()
	case "get":
		return "get=" + lib.HexS(o.Key)
	case "update":
		return "update=" + lib.HexS(o.Key) + "=" + optS(o.Secret) + "=" + optI(o.UID) + "=" + optI(o.GID)
	case "delete":
		return "delete=" + lib.HexS(o.Key)
	case "list":
		return "list"
	}
	return "bad"
}

// an I/O error answer (the sandbox's disk is shared and runs full at times; the code ignores the
// error of its write-back, so a full disk shows as an unparsable users.json later): the run is
// repeated, with a pause; an error that persists through all repetitions is reported
func c17EnvError(res string) bool {
	return strings.HasPrefix(res, "err:")
}

// the shared sandbox disk is full at times: an error that says so is waited out
func c17Transient(err error) bool {
	return err != nil && strings.Contains(err.Error(), "no space left on device")
}

func c17Retry(f func() error) error {
	var err error
	for try := 0; try < 7; try++ {
		if err = f(); !c17Transient(err) {
			return err
		}
		c17RetryPause(try)
	}
	return err
}

func c17RetryPause(try int) {
	time.Sleep(time.Duration(200*(try+1)*(try+1)) * time.Millisecond)
}

func c17Err(err error) string {
	switch {
	case errors.Is(err, auth.ErrUserExists):
		return "exists"
	case errors.Is(err, auth.ErrNoSuchUser):
		return "nosuchuser"
	}
	return "err:" + strings.ReplaceAll(err.Error(), " ", "_")
}

// apply executes the op on the real service and renders the answer like Driver.IAM.showRes.
func (o c17Op) apply(svc auth.IAMService) string {
	switch o.Kind {
	case "create":
		if err := svc.CreateAccount(o.Acct.real()); err != nil {
			return c17Err(err)
		}
		return "ok"
	case "get":
		a, err := svc.GetUserAccount(o.Key)
		if err != nil {
			return c17Err(err)
		}
		return "acct=" + c17FromReal(a).enc()
	case "update":
		if err := svc.UpdateUserAccount(o.Key, auth.MutableProps{Secret: o.Secret, UserID: o.UID, GroupID: o.GID}); err != nil {
			return c17Err(err)
		}
		return "ok"
	case "delete":
		if err := svc.DeleteUserAccount(o.Key); err != nil {
			return c17Err(err)
		}
		return "ok"
	case "list":
		l, err := svc.ListUserAccounts()
		if err != nil {
			return c17Err(err)
		}
		out := make([]c17Acct, len(l))
		for i, a := range l {
			out[i] = c17FromReal(a)
		}
		return "accts=" + c17EncAccts(out)
	}
	return "bad"
}

// ------------------------------------------------------------------ the real service under test

// clock: one model unit = c17Unit; TTL = 5 units; an `adv` sleeps 3 units.  An entry is live after
// one advance (3 < 5) and expired after two (6 > 5) as long as the calls between two advances
// take less than the slack, which every run verifies on its own timestamps.
const (
	c17Unit     = 25 * time.Millisecond
	c17TTLUnits = 5
	c17AdvUnits = 3
)

var c17Root = c17Acct{"root", "rootsecret", "admin", 0, 0}

type c17Mode struct {
	Cache bool `json:"cache"`
	TTL0  bool `json:"ttl0,omitempty"`
	GC    bool `json:"gc,omitempty"` // prune interval 10 ms (model: one pruning pass after every advance); else never
}

func (m c17Mode) String() string {
	switch {
	case !m.Cache:
		return "nocache"
	case m.TTL0:
		return "ttl0"
	case m.GC:
		return "cache+gc"
	}
	return "cache"
}

func (m c17Mode) ttlUnits() int {
	if m.TTL0 {
		return 0
	}
	return c17TTLUnits
}

type c17Sys struct {
	dir   string
	inner *auth.IAMServiceInternal
	svc   auth.IAMService
	gate  *c17Gate
}

func c17WriteStore(dir string, init []c17Acct) error {
	if len(init) == 0 {
		return nil // NewInternal creates the empty file
	}
	m := map[string]auth.Account{}
	for _, a := range init {
		m[a.Access] = a.real()
	}
	b, err := json.Marshal(map[string]interface{}{"accessAccounts": m})
	if err != nil {
		return err
	}
	return os.WriteFile(filepath.Join(dir, "users.json"), b, 0o600)
}

// c17New builds the service stack exactly as auth.New does for --iam-dir (NewInternal, then NewCache
// unless the cache is disabled); `gated` interposes the yield points of c17conc.go between the two.
func c17New(dir string, mode c17Mode, init []c17Acct, gated bool) (s *c17Sys, err error) {
	err = c17Retry(func() error {
		os.RemoveAll(dir)
		s, err = c17NewOnce(dir, mode, init, gated)
		return err
	})
	return s, err
}

func c17NewOnce(dir string, mode c17Mode, init []c17Acct, gated bool) (*c17Sys, error) {
	if err := os.MkdirAll(dir, 0o755); err != nil {
		return nil, err
	}
	if err := c17WriteStore(dir, init); err != nil {
		return nil, err
	}
	inner, err := auth.NewInternal(c17Root.real(), dir)
	if err != nil {
		return nil, err
	}
	s := &c17Sys{dir: dir, inner: inner}
	var below auth.IAMService = inner
	if gated {
		s.gate = &c17Gate{inner: inner}
		below = s.gate
	}
	if !mode.Cache {
		s.svc = below
		return s, nil
	}
	ttl := time.Duration(mode.ttlUnits()) * c17Unit
	prune := time.Hour
	if mode.GC {
		prune = 10 * time.Millisecond
	}
	s.svc = auth.NewCache(below, ttl, prune)
	return s, nil
}

func (s *c17Sys) close() {
	s.svc.Shutdown()
	os.RemoveAll(s.dir)
}

// leftovers: anything in the IAM directory besides users.json and its backup
func (s *c17Sys) leftovers() []string {
	ents, _ := os.ReadDir(s.dir)
	var out []string
	for _, e := range ents {
		if e.Name() != "users.json" && e.Name() != "users.json.backup" {
			out = append(out, e.Name())
		}
	}
	return out
}

// ------------------------------------------------------------------ which revision of the code is this?

type c17Variant struct {
	CopyIds    bool `json:"copyIds"`
	Invalidate bool `json:"invalidate"`
}

func (v c17Variant) bits(cache bool) string {
	b := func(x bool) string {
		if x {
			return "1"
		}
		return "0"
	}
	return b(cache) + " " + b(v.CopyIds) + " " + b(v.Invalidate)
}

var (
	c17VarOnce sync.Once
	c17Var     c17Variant
	c17VarErr  error
)

// c17Detect probes the two behaviours in which the code before 6f25651 (write-through cache, the
// REGRESSION MODEL Variant.oldWriteThrough) differs from the current code (invalidate + generation
// guard, Variant.current), so that a reverted or weakened fix is explained by the matching model:
// the failing schedules then carry the signatures of the former findings — all of them are
// VIOLATIONS now.  Whatever is detected, every answer of every history is still compared with that
// model and judged by Spec.
func c17Detect(a lib.Args) (c17Variant, error) {
	c17VarOnce.Do(func() {
		dir := filepath.Join(a.Work, "c17-detect")
		mode := c17Mode{Cache: true}
		// (1) does the entry written by CreateAccount carry uid/gid?
		s, err := c17New(filepath.Join(dir, "1"), mode, nil, false)
		if err != nil {
			c17VarErr = err
			return
		}
		acc := c17Acct{"a", "s1", "user", 7, 8}
		(c17Op{Kind: "create", Acct: &acc}).apply(s.svc)
		r := (c17Op{Kind: "get", Key: "a"}).apply(s.svc)
		s.close()
		withIds := r == "acct="+acc.enc()
		// (2) does a lookup whose fetch precedes a delete still store what it fetched?
		s, err = c17New(filepath.Join(dir, "2"), mode, []c17Acct{acc}, true)
		if err != nil {
			c17VarErr = err
			return
		}
		sc := newC17Sched(s)
		g := sc.task(c17Op{Kind: "get", Key: "a"})
		sc.advance(g) // cache miss, parked before the fetch
		sc.advance(g) // fetched, parked before cache.set
		(c17Op{Kind: "delete", Key: "a"}).apply(s.svc)
		sc.advance(g)
		stale := (c17Op{Kind: "get", Key: "a"}).apply(s.svc) != "nosuchuser"
		sc.drain()
		s.close()
		os.RemoveAll(dir)
		c17Var = c17Variant{CopyIds: withIds && stale, Invalidate: !stale}
	})
	return c17Var, c17VarErr
}

// ------------------------------------------------------------------ sequential histories

type c17Hist struct {
	Stage string     `json:"stage"` // "seq"
	Mode  c17Mode    `json:"mode"`
	Init  []c17Acct  `json:"init"`
	Ops   []c17Op    `json:"ops"`
	Var   c17Variant `json:"variant"`
}

var c17Keys = []string{"a", "b"}
var c17Secrets = []string{"s1", "s2", "s3"}
var c17Roles = []string{"user", "userplus", "admin"}
var c17Ids = []int{0, 0, 5, 1000}

func c17GenAcct(r *lib.Rand, key string) c17Acct {
	return c17Acct{key, r.Pick(c17Secrets), r.Pick(c17Roles), c17Ids[r.Intn(len(c17Ids))], c17Ids[r.Intn(len(c17Ids))]}
}

func c17GenKey(r *lib.Rand) string {
	if r.Chance(6) {
		return c17Root.Access
	}
	return r.Pick(c17Keys)
}

func c17GenOp(r *lib.Rand, timed bool) c17Op {
	k := c17GenKey(r)
	x := r.Intn(100)
	switch {
	case x < 22:
		acc := c17GenAcct(r, k)
		return c17Op{Kind: "create", Acct: &acc}
	case x < 55:
		return c17Op{Kind: "get", Key: k}
	case x < 70:
		o := c17Op{Kind: "update", Key: k}
		if r.Chance(55) {
			s := r.Pick(c17Secrets)
			o.Secret = &s
		}
		if r.Chance(40) {
			u := c17Ids[r.Intn(len(c17Ids))]
			o.UID = &u
		}
		if r.Chance(40) {
			g := c17Ids[r.Intn(len(c17Ids))]
			o.GID = &g
		}
		return o
	case x < 82:
		return c17Op{Kind: "delete", Key: k}
	case x < 90 || !timed:
		return c17Op{Kind: "list"}
	}
	return c17Op{Kind: "adv"}
}

func c17GenInit(r *lib.Rand) []c17Acct {
	var init []c17Acct
	if r.Chance(35) {
		for _, k := range c17Keys {
			if r.Bool() {
				init = append(init, c17GenAcct(r, k))
			}
		}
	}
	return init
}

func c17GenHist(r *lib.Rand, v c17Variant) c17Hist {
	h := c17Hist{Stage: "seq", Var: v}
	switch x := r.Intn(100); {
	case x < 45:
		h.Mode = c17Mode{Cache: true}
	case x < 70:
		h.Mode = c17Mode{Cache: true, GC: true}
	case x < 80:
		h.Mode = c17Mode{Cache: true, TTL0: true}
	default:
		h.Mode = c17Mode{Cache: false}
	}
	timed := h.Mode.Cache && !h.Mode.TTL0 && r.Chance(45)
	h.Init = c17GenInit(r)
	n := 4 + r.Intn(11)
	for i := 0; i < n; i++ {
		h.Ops = append(h.Ops, c17GenOp(r, timed))
	}
	return h
}

// the regression corpus: minimal histories of every finding and of the cases that are easy to get
// wrong (run first)
func c17Corpus(v c17Variant) []c17Hist {
	s2 := "s2"
	five := 5
	acc := c17Acct{"a", "s1", "userplus", 5, 1000}
	cache := c17Mode{Cache: true}
	mk := func(m c17Mode, init []c17Acct, ops ...c17Op) c17Hist {
		return c17Hist{Stage: "seq", Mode: m, Init: init, Ops: ops, Var: v}
	}
	get := c17Op{Kind: "get", Key: "a"}
	adv := c17Op{Kind: "adv"}
	return []c17Hist{
		// a fresh account must work with uid/gid at once
		mk(cache, nil, c17Op{Kind: "create", Acct: &acc}, get, c17Op{Kind: "list"}),
		// ... and an update after expiry must not resurrect an entry without them
		mk(cache, nil, c17Op{Kind: "create", Acct: &acc}, adv, adv, c17Op{Kind: "update", Key: "a", Secret: &s2}, get, adv, adv, get),
		mk(c17Mode{Cache: true, GC: true}, nil, c17Op{Kind: "create", Acct: &acc}, adv, adv, c17Op{Kind: "update", Key: "a", Secret: &s2}, get),
		// changed secret / deleted account with a warm cache
		mk(cache, []c17Acct{acc}, get, c17Op{Kind: "update", Key: "a", Secret: &s2, UID: &five}, get, c17Op{Kind: "delete", Key: "a"}, get),
		mk(cache, []c17Acct{acc}, get, adv, get, adv, get),
		mk(c17Mode{Cache: false}, nil, c17Op{Kind: "create", Acct: &acc}, get, c17Op{Kind: "delete", Key: "a"}, get),
		// the root account's key
		mk(cache, nil, c17Op{Kind: "get", Key: "root"}, c17Op{Kind: "create", Acct: &c17Acct{"root", "x", "user", 1, 1}}, c17Op{Kind: "update", Key: "root", Secret: &s2}, c17Op{Kind: "delete", Key: "root"}, c17Op{Kind: "get", Key: "root"}, c17Op{Kind: "list"}),
	}
}

type c17Run struct {
	Results []string
	Unsafe  bool // the timing assumption did not hold (machine too slow): rerun
	IOErr   bool // some call answered an I/O error: rerun; reported if it persists
	Left    []string
}

// c17RunSeq executes a history on a fresh real service.
func c17RunSeq(dir string, h c17Hist) (c17Run, error) {
	s, err := c17New(dir, h.Mode, h.Init, false)
	if err != nil {
		return c17Run{}, err
	}
	defer s.close()
	var run c17Run
	slack := time.Duration(c17TTLUnits-c17AdvUnits)*c17Unit - 5*time.Millisecond
	segStart := time.Now()
	for _, o := range h.Ops {
		if o.Kind == "adv" {
			if time.Since(segStart) > slack/2 {
				run.Unsafe = true
			}
			t0 := time.Now()
			time.Sleep(c17AdvUnits * c17Unit)
			if time.Since(t0) > c17AdvUnits*c17Unit+slack/2 {
				run.Unsafe = true
			}
			run.Results = append(run.Results, "ok")
			segStart = time.Now()
			continue
		}
		x := o.apply(s.svc)
		if c17EnvError(x) {
			run.IOErr = true
		}
		run.Results = append(run.Results, x)
	}
	if time.Since(segStart) > slack/2 {
		run.Unsafe = true
	}
	run.Left = s.leftovers()
	return run, nil
}

// c17ModelLines: the same history for the Lean model
func c17ModelLines(v c17Variant, mode c17Mode, init []c17Acct, ops []c17Op) []string {
	lines := []string{fmt.Sprintf("iam reset %s %d 0 %s %s", v.bits(mode.Cache), mode.ttlUnits(), c17Root.enc(), c17EncAccts(init))}
	for _, o := range ops {
		if o.Kind == "adv" {
			lines = append(lines, fmt.Sprintf("iam tick %d", c17AdvUnits))
			if mode.GC {
				lines = append(lines, "iam gc")
			}
			continue
		}
		lines = append(lines, "iam call "+o.enc())
	}
	return lines
}

// model answers per op of the history (advances answer "ok")
func c17ModelAnswers(mode c17Mode, ops []c17Op, out []string) []string {
	res := make([]string, 0, len(ops))
	i := 1
	for _, o := range ops {
		res = append(res, out[i])
		i++
		if o.Kind == "adv" && mode.GC {
			i++
		}
	}
	return res
}

type c17Rec struct {
	Inv, Ret int
	Op       c17Op
	Res      string
	Line     int `json:"-"` // index of the model-script line whose answer is this call's answer
}

// one executed segment of a steered call: "lookup" (IAMCache's own get), "store" (inside the file
// service) or "cache" (IAMCache's step after the service returned)
type c17Seg struct {
	Task  int
	Kind  string
	Key   string
	Phase string
	Obs   string
}

const c17Never = 1000000000

func c17LinLine(init []c17Acct, recs []c17Rec) string {
	var b strings.Builder
	fmt.Fprintf(&b, "iam lin %s %s", c17Root.enc(), c17EncAccts(init))
	for _, r := range recs {
		fmt.Fprintf(&b, " %d|%d|%s|%s", r.Inv, r.Ret, r.Op.enc(), r.Res)
	}
	return b.String()
}

func c17SeqRecs(ops []c17Op, results []string) []c17Rec {
	var recs []c17Rec
	t := 0
	line := 1
	for i, o := range ops {
		if o.Kind == "adv" {
			line++ // (+1 more in gc mode: only used for scripts without gc lines, see c17Seq)
			continue
		}
		recs = append(recs, c17Rec{t, t + 1, o, results[i], line})
		line++
		t += 2
	}
	return recs
}

// the observation up to instant t: what has returned by then, and what was in flight (pending)
func c17Upto(recs []c17Rec, t int) []c17Rec {
	var out []c17Rec
	for _, r := range recs {
		switch {
		case r.Ret <= t:
			out = append(out, r)
		case r.Inv < t:
			p := r
			p.Ret, p.Res = c17Never, "pending"
			out = append(out, p)
		}
	}
	return out
}

func c17ModelRes(s string) string {
	s = strings.TrimPrefix(s, "blocked:")
	return strings.TrimPrefix(s, "done:")
}

type c17Evidence struct {
	V      c17Variant
	Script []string // the model's script of the same run (nil: none, e.g. free-running goroutines)
	Segs   []c17Seg // the steered segments in execution order (nil: sequential)
}

// c17Classify names the input class of a history that the oracle rejects.
//  1. the first call whose answer no linearization of everything observed until then explains;
//  2. if the model with ONLY the uid/gid copy repaired answers the same script admissibly, the
//     entry that CreateAccount builds without uid/gid is the cause;
//  3. otherwise, from the executed segments: the call A that wrote the cache entry of that key last,
//     and the change B that the store decided last; A's store access before B's, A's cache step
//     after B's is the race `A-in-flight-vs-B`;
//  4. without a schedule (free-running goroutines): A = a call on that key overlapping the last
//     acknowledged change B.
func c17Classify(d *lib.Driver, init []c17Acct, recs []c17Rec, ev c17Evidence) (sig, what string) {
	return c17ClassifyWith(d.Ask, init, recs, ev)
}

type c17ClassifyItem struct {
	Init []c17Acct
	Recs []c17Rec
	Ev   c17Evidence
}

type c17AskReq struct {
	lines []string
	resp  chan []string
}

// c17ClassifyAll classifies many rejected histories with few driver processes: the questions of
// all of them are asked round by round in one batch (scripts begin with `iam reset`, `iam lin` is
// stateless: concatenation is safe).
func c17ClassifyAll(d *lib.Driver, items []c17ClassifyItem) [][2]string {
	out := make([][2]string, len(items))
	reqs := make(chan c17AskReq)
	done := make(chan struct{})
	for i := range items {
		go func(i int) {
			ask := func(lines []string) ([]string, error) {
				r := c17AskReq{lines, make(chan []string, 1)}
				reqs <- r
				ans := <-r.resp
				if ans == nil {
					return nil, fmt.Errorf("driver failed")
				}
				return ans, nil
			}
			sig, what := c17ClassifyWith(ask, items[i].Init, items[i].Recs, items[i].Ev)
			out[i] = [2]string{sig, what}
			done <- struct{}{}
		}(i)
	}
	active := len(items)
	for active > 0 {
		var batch []c17AskReq
		for len(batch) < active {
			select {
			case r := <-reqs:
				batch = append(batch, r)
			case <-done:
				active--
			}
		}
		if len(batch) == 0 {
			continue
		}
		var lines []string
		for _, b := range batch {
			lines = append(lines, b.lines...)
		}
		ans, err := d.Ask(lines)
		at := 0
		for _, b := range batch {
			if err != nil {
				b.resp <- nil
			} else {
				b.resp <- ans[at : at+len(b.lines)]
			}
			at += len(b.lines)
		}
	}
	return out
}

func c17ClassifyWith(ask func([]string) ([]string, error), init []c17Acct, recs []c17Rec, ev c17Evidence) (sig, what string) {
	recs = append([]c17Rec{}, recs...)
	sort.SliceStable(recs, func(i, j int) bool { return recs[i].Ret < recs[j].Ret })
	bad := -1
	{
		// all prefixes in one question
		var q []string
		for n := range recs {
			q = append(q, c17LinLine(init, c17Upto(recs, recs[n].Ret)))
		}
		out, err := ask(q)
		for n := range recs {
			if err != nil || out[n] != "ok" {
				bad = n
				break
			}
		}
	}
	if bad < 0 {
		return "iam:unclassified", "no inadmissible prefix"
	}
	f := recs[bad]
	what = fmt.Sprintf("%s (invoked %d, returned %d) answered %s", f.Op.enc(), f.Inv, f.Ret, f.Res)
	if strings.HasPrefix(f.Res, "err:") {
		return "iam:" + f.Op.Kind + ":error", what
	}
	// (2) counterfactual: the same script on the model with the uid/gid copy repaired
	if ev.Script != nil && !ev.V.CopyIds && !ev.V.Invalidate {
		script := append([]string{}, ev.Script...)
		for i, l := range script {
			if strings.HasPrefix(l, "iam reset ") {
				p := strings.Fields(l)
				p[3] = "1"
				script[i] = strings.Join(p, " ")
			}
		}
		if out, err := ask(script); err == nil {
			alt := make([]c17Rec, len(recs))
			ok := true
			for i, r := range recs {
				alt[i] = r
				if r.Line <= 0 || r.Line >= len(out) {
					ok = false
					break
				}
				alt[i].Res = c17ModelRes(out[r.Line])
			}
			if ok {
				// judged up to the same instant: later trouble of the same run is a different matter
				if v, err := ask([]string{c17LinLine(init, c17Upto(alt, f.Ret))}); err == nil && v[0] == "ok" {
					return "iam:create:cache-entry-drops-uid-gid", what + "; with UserID/GroupID copied into the entry written by CreateAccount the same schedule is admissible"
				}
			}
		}
	}
	// the key whose cache entry is wrong
	k := f.Op.key()
	if f.Op.Kind == "list" {
		k = ""
		listed := map[string]string{}
		for _, e := range strings.Split(strings.TrimPrefix(f.Res, "accts="), ",") {
			if e != "-" && e != "" {
				listed[strings.SplitN(e, ":", 2)[0]] = e
			}
		}
		for i := bad - 1; i >= 0 && k == ""; i-- {
			r := recs[i]
			if r.Op.Kind != "get" {
				continue
			}
			got := ""
			if strings.HasPrefix(r.Res, "acct=") {
				got = strings.TrimPrefix(r.Res, "acct=")
			}
			if got != listed[lib.HexS(r.Op.Key)] && r.Op.Key != c17Root.Access {
				k = r.Op.Key
				what += "; but " + r.Op.enc() + " had answered " + r.Res
			}
		}
		if k == "" {
			return "iam:list:wrong-answer", what
		}
	} else if f.Op.Kind != "get" {
		// a mutation whose answer contradicts what lookups said before
		for i := bad - 1; i >= 0; i-- {
			if recs[i].Op.Kind == "get" && recs[i].Op.Key == k {
				what += "; but " + recs[i].Op.enc() + " had answered " + recs[i].Res
				break
			}
		}
	}
	if ev.Segs != nil {
		lastCache, lastStore := -1, -1
		for i, s := range ev.Segs {
			if s.Key != k {
				continue
			}
			if s.Phase == "cache" && s.Kind != "delete" {
				lastCache = i
			}
			if s.Phase == "store" && s.Kind != "get" && s.Kind != "list" && s.Obs == "park:exit" {
				lastStore = i
			}
		}
		if lastCache >= 0 && lastStore >= 0 {
			a := ev.Segs[lastCache]
			own := -1
			for i, s := range ev.Segs[:lastCache] {
				if s.Task == a.Task && s.Phase == "store" {
					own = i
				}
			}
			if own >= 0 && own < lastStore && lastStore < lastCache {
				kind := a.Kind
				if kind == "get" {
					kind = "miss"
				}
				b := ev.Segs[lastStore]
				return "iam:" + kind + "-in-flight-vs-" + b.Kind + ":stale-cache",
					what + fmt.Sprintf("; call %d (%s %s) accessed the store at segment %d, call %d (%s) changed the account at segment %d, call %d wrote the cache entry at segment %d", a.Task, a.Kind, lib.HexS(a.Key), own, b.Task, b.Kind, lastStore, a.Task, lastCache)
			}
		}
		return "iam:" + f.Op.Kind + ":wrong-answer", what
	}
	if ev.Script != nil {
		return "iam:" + f.Op.Kind + ":wrong-answer", what
	}
	// (4) free-running: a call on k that overlapped the last acknowledged change of k
	var last *c17Rec
	for i := range recs[:bad] {
		r := &recs[i]
		if r.Op.isMut() && r.Op.key() == k && r.Res == "ok" && r.Ret < f.Inv && (last == nil || r.Ret > last.Ret) {
			last = r
		}
	}
	if last == nil {
		return "iam:" + f.Op.Kind + ":wrong-answer", what
	}
	inflight := ""
	rank := map[string]int{"get": 3, "create": 2, "update": 1}
	for i := range recs {
		r := &recs[i]
		if r == last || r.Op.key() != k || rank[r.Op.Kind] == 0 {
			continue
		}
		if r.Inv < last.Ret && r.Ret > last.Inv && (inflight == "" || rank[r.Op.Kind] > rank[inflight]) {
			inflight = r.Op.Kind
		}
	}
	if inflight == "" {
		return "iam:" + f.Op.Kind + "-after-" + last.Op.Kind + ":wrong-answer", what
	}
	if inflight == "get" {
		inflight = "miss"
	}
	return "iam:" + inflight + "-in-flight-vs-" + last.Op.Kind + ":stale-cache", what + "; last acknowledged change: " + last.Op.enc() + " (calls overlapping it are taken as in flight; the schedule is not known)"
}

func c17Nontrivial(ops []c17Op) bool {
	changed := map[string]bool{}
	for _, o := range ops {
		if o.isMut() {
			changed[o.key()] = true
		}
		if o.Kind == "get" && changed[o.Key] {
			return true
		}
	}
	return false
}

func c17Seq(a lib.Args, res *lib.Result) error {
	v, err := c17Detect(a)
	if err != nil {
		return err
	}
	if v.Invalidate {
		res.Note("code revision detected by probe: current (account changes invalidate the cache entry; the miss path is guarded by the generation)")
	} else {
		res.Note("REGRESSION: the probes see the write-through cache of the code before 6f25651 (CreateAccount caches uid/gid = %v; a lookup in flight across a delete stores what it fetched): compared with the regression model Variant.oldWriteThrough", v.CopyIds)
	}
	var hists []c17Hist
	if in := a.ReplayInput(); in != nil {
		if in["stage"] != "seq" {
			return nil
		}
		b, _ := json.Marshal(in)
		var h c17Hist
		if err := json.Unmarshal(b, &h); err != nil {
			return err
		}
		h.Var = v
		hists = []c17Hist{h}
	} else {
		hists = c17Corpus(v)
		n := 500
		if a.Thorough() {
			n = 40000
		}
		r := lib.NewRandStream(a.Seed, 1701)
		for i := 0; i < n; i++ {
			hists = append(hists, c17GenHist(r, v))
		}
	}
	// real runs, 8 at a time (most of the time is sleeping)
	runs := make([]c17Run, len(hists))
	errs := make([]error, len(hists))
	var wg sync.WaitGroup
	sem := make(chan struct{}, 8)
	for i := range hists {
		wg.Add(1)
		sem <- struct{}{}
		go func(i int) {
			defer wg.Done()
			defer func() { <-sem }()
			for try := 0; try < 4; try++ {
				runs[i], errs[i] = c17RunSeq(filepath.Join(a.Work, "c17-seq", strconv.Itoa(i)), hists[i])
				if errs[i] != nil || !(runs[i].Unsafe || runs[i].IOErr) {
					return
				}
				if runs[i].IOErr {
					c17RetryPause(try)
				}
			}
		}(i)
	}
	wg.Wait()
	for _, e := range errs {
		if e != nil {
			return e
		}
	}
	// model answers and oracle verdicts
	var lines []string
	at := make([]int, len(hists))
	for i, h := range hists {
		at[i] = len(lines)
		lines = append(lines, c17ModelLines(v, h.Mode, h.Init, h.Ops)...)
		lines = append(lines, "iam quiet")
		lines = append(lines, c17LinLine(h.Init, c17SeqRecs(h.Ops, runs[i].Results)))
	}
	out, err := a.Driver.Ask(lines)
	if err != nil {
		return err
	}
	var pending []c17ClassifyItem
	var pendingFail []lib.Failure
	for i, h := range hists {
		run := runs[i]
		canon, _ := json.Marshal(h)
		classes := []string{"seq:mode:" + h.Mode.String()}
		for _, o := range h.Ops {
			classes = append(classes, "seq:op:"+o.Kind)
		}
		if len(h.Init) > 0 {
			classes = append(classes, "seq:prepopulated-store")
		}
		if run.Unsafe {
			res.Count(string(canon), false, "seq:skipped:timing-unsafe")
			continue
		}
		res.Count(string(canon), c17Nontrivial(h.Ops), classes...)
		if i < 3 {
			res.Sample(h)
		}
		nl := len(c17ModelLines(v, h.Mode, h.Init, h.Ops))
		mres := c17ModelAnswers(h.Mode, h.Ops, out[at[i]:at[i]+nl])
		quiet := out[at[i]+nl] == "1"
		verdict := out[at[i]+nl+1]
		if quiet {
			res.Histogram["seq:quiet-for-the-old-write-through-model:holds"]++
		} else {
			res.Histogram["seq:quiet-for-the-old-write-through-model:violated"]++
		}
		if quiet && verdict != "ok" {
			res.Fail(lib.Failure{Kind: "property", Signature: "iam:violation-on-quiet-schedule", What: "the history is quiet even by the standard of the old write-through model (quietRunB) and is still rejected by the oracle", Input: h,
				Impl: strings.Join(run.Results, " "), Model: strings.Join(mres, " ")})
		}
		for j, o := range h.Ops {
			if o.Kind != "adv" {
				res.Histogram["seq:answer:"+o.Kind+":"+strings.SplitN(run.Results[j], "=", 2)[0]]++
			}
		}
		if len(run.Left) > 0 {
			res.Fail(lib.Failure{Kind: "property", Signature: "iam:store:leftover-files", What: "files besides users.json and its backup remain in the IAM directory: " + strings.Join(run.Left, ","), Input: h})
		}
		if verdict != "ok" {
			recs := c17SeqRecs(h.Ops, run.Results)
			script := c17ModelLines(v, h.Mode, h.Init, h.Ops)
			for ri, li := 0, 1; li < len(script); li++ {
				if strings.HasPrefix(script[li], "iam call ") {
					recs[ri].Line = li
					ri++
				}
			}
			pending = append(pending, c17ClassifyItem{h.Init, recs, c17Evidence{V: v, Script: script}})
			pendingFail = append(pendingFail, lib.Failure{Kind: "property", What: "the observed sequential history is not a history of the plain account map: ", Input: h,
				Impl: strings.Join(run.Results, " "), Model: strings.Join(mres, " ")})
		}
		for j, o := range h.Ops {
			if run.Results[j] != mres[j] {
				res.Fail(lib.Failure{Kind: "correspondence", Signature: "iam:seq:" + h.Mode.String() + ":" + o.Kind, What: fmt.Sprintf("op %d (%s): real service and model answer differently", j, o.enc()), Input: h,
					Impl: run.Results[j], Model: mres[j]})
				break
			}
		}
	}
	for i, c := range c17ClassifyAll(a.Driver, pending) {
		f := pendingFail[i]
		f.Signature, f.What = c[0], f.What+c[1]
		res.Fail(f)
	}
	os.RemoveAll(filepath.Join(a.Work, "c17-seq"))
	return nil
}
